/-
  C07 — Copies, pickles and network-to-network constructors are equal and independent.
  Property theorems only.  Models: C07/Copy.lean (`HG.copy`, `HG.pickleRoundTrip`, `HG.ofNetwork` — the functions
  Drivers/C07.lean runs against the real code) and C07/Heap.lean (mutable containers, reachability, writes).
  Helper lemmas: C07/LemmasCopy.lean, C07/LemmasAttrs.lean, C07/LemmasHeap.lean.

  Part 1 (equality, fresh IDs): for every state satisfying the invariant of C01 (`HG.Inv`: two-way incidence,
  one attribute record per ID, counter above all integer edge IDs) whose attribute dicts are dicts
  (`HG.AttrsOK`; both hold in every reachable state), each of the three clones shows the same network
  (`HG.SameNet`), is unfrozen, satisfies the invariant again — so it keeps assigning fresh edge IDs — and
  the call neither raises nor warns.
  Part 2 (independence under all later histories): `frame` and its corollaries on the heap model.
-/
import XgiModel.C07.LemmasAttrs
import XgiModel.C07.LemmasHeap
import XgiModel.Props.C01

namespace Xgi.C07
open Xgi Xgi.HG

/-! ## Part 1 — the clone is the same network, well-formed, with a fresh counter -/

/-! ### `Hypergraph.copy` -/

/-- `copy()` returns normally: no exception, no "uid already exists" warning -/
theorem copy_ok {s : HG} (h : Inv s) (ha : AttrsOK s) : (copy s).2 = .ok := by
  rw [copy_eq]; exact (rebuild_char h.1 ha).1

/-- the copy shows the same network: nodes and edges in the same order, the same members for every edge, the same
    memberships for every node, the same attribute dict for every node / edge / the network; the **same
    counter**; and it is not frozen (whatever the source is) -/
theorem copy_snapshot {s : HG} (h : Inv s) (ha : AttrsOK s) :
    SameNet s (copy s).1 ∧ (copy s).1.uid = s.uid ∧ (copy s).1.frozen = false := by
  rw [copy_eq]
  exact ⟨sameNet_of_edgeStage h.1 (rebuild_char h.1 ha).2 s.uid, rfl, (rebuild_char h.1 ha).2.frozen⟩

/-- the copy satisfies the invariant again (two-way incidence, attribute records, counter above all integer IDs) -/
theorem copy_inv {s : HG} (h : Inv s) (ha : AttrsOK s) : Inv (copy s).1 := by
  have hs := copy_snapshot h ha
  refine ⟨?_, fresh_of_subset h.2 (by rw [hs.1.edges]; exact fun _ x => x) (by rw [hs.2.1]; exact Nat.le_refl _)⟩
  rw [copy_eq]; exact wf_with (rebuild_inv s).1 _ _

/-- the copy's attribute dicts are dicts again -/
theorem copy_attrs {s : HG} (ha : AttrsOK s) : AttrsOK (copy s).1 := by
  rw [copy_eq]
  have : AttrsOK (rebuild s).1 := by
    unfold rebuild
    exact andThen_inv AttrsOK _ _ (addNodesFrom_attrs attrsOK_empty _ _) (fun t ht => addEdgesFrom_attrs ht _ _ _)
  exact ⟨this.nattr, this.eattr, ha.net⟩

/-- both sides keep assigning fresh edge IDs: on the source and on the copy the next automatic ID is not an
    existing edge ID, and it is the same number on both sides -/
theorem copy_fresh {s : HG} (h : Inv s) (ha : AttrsOK s) :
    PyId.int s.uid ∉ s.edges ∧ PyId.int (copy s).1.uid ∉ (copy s).1.edges ∧ (copy s).1.uid = s.uid :=
  ⟨uid_not_mem h.2, uid_not_mem (copy_inv h ha).2, (copy_snapshot h ha).2.1⟩

/-! ### pickle round trip -/

/-- the unpickled network shows the same network, has the same counter, and is not frozen -/
theorem pickle_snapshot {s : HG} (h : Inv s) :
    SameNet s (pickleRoundTrip s) ∧ (pickleRoundTrip s).uid = s.uid ∧ (pickleRoundTrip s).frozen = false := by
  obtain ⟨p1, p2, p3, p4, p5, p6, p7, p8, p9, p10, p11⟩ := pickle_char s
  refine ⟨⟨p1, p2, ?_, ?_, ?_, ?_, ?_, ?_, p5⟩, p6, p7⟩
  · intro e he x; rw [p9 e he]
  · intro n hn e; rw [p8 n hn]
  · intro n hn; exact p10 n ((h.1.attrN n).mpr hn)
  · intro e he; exact p11 e ((h.1.attrE e).mpr he)
  · intro n; rw [p3]
  · intro e; rw [p4]

theorem pickle_inv {s : HG} (h : Inv s) : Inv (pickleRoundTrip s) := by
  have hs := pickle_snapshot h
  exact ⟨pickle_wf h.1, fresh_of_subset h.2 (by rw [hs.1.edges]; exact fun _ x => x) (by rw [hs.2.1]; exact Nat.le_refl _)⟩

theorem pickle_fresh {s : HG} (h : Inv s) :
    PyId.int (pickleRoundTrip s).uid ∉ (pickleRoundTrip s).edges ∧ (pickleRoundTrip s).uid = s.uid :=
  ⟨uid_not_mem (pickle_inv h).2, (pickle_snapshot h).2.1⟩

/-! ### `Hypergraph(H, **attr)` -/

theorem ofNetwork_ok {s : HG} (h : Inv s) (ha : AttrsOK s) (attr : Attrs) : (ofNetwork s attr).2 = .ok := by
  rw [ofNetwork_eq]; exact (rebuild_char h.1 ha).1

/-- the constructed network shows the same network (network attributes: the source's, updated with the keyword
    arguments; with none given, the source's) and is not frozen -/
theorem ofNetwork_snapshot {s : HG} (h : Inv s) (ha : AttrsOK s) :
    SameNet s (ofNetwork s).1 ∧ (ofNetwork s).1.frozen = false ∧
    ∀ attr, (ofNetwork s attr).1 = { (ofNetwork s).1 with net := s.net.update attr } := by
  refine ⟨?_, ?_, fun attr => rfl⟩
  · have := sameNet_of_edgeStage h.1 (rebuild_char h.1 ha).2 (rebuild s).1.uid
    exact this
  · exact (rebuild_char h.1 ha).2.frozen

/-- the counter is **not** copied by the constructor; what the code guarantees is that it is the *least* admissible
    one: above every integer edge ID (so automatic IDs are fresh) and not above any other such bound — in
    particular never above the source's counter -/
theorem ofNetwork_uid {s : HG} (h : Inv s) (ha : AttrsOK s) (attr : Attrs) :
    UidFresh (ofNetwork s attr).1 ∧
    (∀ k : Nat, (∀ i : Int, PyId.int i ∈ s.edges → i < (k : Int)) → (ofNetwork s attr).1.uid ≤ k) ∧
    (ofNetwork s attr).1.uid ≤ s.uid := by
  have hst := (rebuild_char h.1 ha).2
  have hfresh : UidFresh (ofNetwork s attr).1 := by
    rw [ofNetwork_eq]; exact (rebuild_inv s).2
  have hleast : ∀ k : Nat, (∀ i : Int, PyId.int i ∈ s.edges → i < (k : Int)) → (ofNetwork s attr).1.uid ≤ k := by
    intro k hk
    rw [ofNetwork_eq]
    show (rebuild s).1.uid ≤ k
    rcases hst.tight with h0 | ⟨i, hi, hiu⟩
    · omega
    · rw [hst.edges] at hi; have := hk i hi; omega
  exact ⟨hfresh, hleast, hleast s.uid h.2⟩

theorem ofNetwork_inv {s : HG} (h : Inv s) (ha : AttrsOK s) (attr : Attrs) : Inv (ofNetwork s attr).1 := by
  refine ⟨?_, (ofNetwork_uid h ha attr).1⟩
  rw [ofNetwork_eq]
  have := wf_with (rebuild_inv s).1 (s.net.update attr) (rebuild s).1.uid
  exact this

/-- both sides keep assigning fresh edge IDs (the two next IDs may differ) -/
theorem ofNetwork_fresh {s : HG} (h : Inv s) (ha : AttrsOK s) (attr : Attrs) :
    PyId.int s.uid ∉ s.edges ∧ PyId.int (ofNetwork s attr).1.uid ∉ (ofNetwork s attr).1.edges :=
  ⟨uid_not_mem h.2, uid_not_mem (ofNetwork_inv h ha attr).2⟩

/-! ### consequences for every network that can be built, and for everything done afterwards -/

/-- attribute dicts stay dicts under every public call (returning or raising) -/
theorem C07_step_attrs {s : HG} (h : AttrsOK s) (op : Op) (r : HG × Outcome) (hr : step s op = some r) : AttrsOK r.1 :=
  step_attrs h op r hr

/-- every state reachable from the empty hypergraph meets the hypotheses of the theorems above -/
theorem C07_reachable {s : HG} (h : C01.Reachable s) : Inv s ∧ AttrsOK s := by
  induction h with
  | empty => exact ⟨empty_inv, attrsOK_empty⟩
  | step _ hr ih => exact ⟨step_inv ih.1 _ _ hr, step_attrs ih.2 _ _ hr⟩

/-- … so for every reachable network all three clones show the same network, and each clone is again a state
    in which the invariant holds: every later history on either side (C01_history) keeps both well-formed,
    and every later addition keeps the existing edges of that side (C04, `Keeps`) -/
theorem C07_clones {s : HG} (h : C01.Reachable s) :
    (SameNet s (copy s).1 ∧ Inv (copy s).1 ∧ AttrsOK (copy s).1) ∧
    (SameNet s (pickleRoundTrip s) ∧ Inv (pickleRoundTrip s)) ∧
    (SameNet s (ofNetwork s).1 ∧ Inv (ofNetwork s).1) := by
  obtain ⟨hi, ha⟩ := C07_reachable h
  exact ⟨⟨(copy_snapshot hi ha).1, copy_inv hi ha, copy_attrs ha⟩, ⟨(pickle_snapshot hi).1, pickle_inv hi⟩,
         ⟨(ofNetwork_snapshot hi ha).1, ofNetwork_inv hi ha []⟩⟩

/-- after the clone, an `add_edge` (automatic or explicit ID, returning / warning / raising) on the clone keeps every
    edge the clone had: position, members, attributes — the clone never overwrites what it copied -/
theorem C07_clone_adds_keep {s : HG} (h : Inv s) (ha : AttrsOK s) (ms : List PyId) (idx : Option PyId) (a : Attrs) :
    Keeps (copy s).1 (addEdge (copy s).1 ms idx a).1 ∧
    Keeps (pickleRoundTrip s) (addEdge (pickleRoundTrip s) ms idx a).1 ∧
    Keeps (ofNetwork s).1 (addEdge (ofNetwork s).1 ms idx a).1 :=
  ⟨addEdge_keeps (copy_inv h ha) ms idx a, addEdge_keeps (pickle_inv h) ms idx a,
   addEdge_keeps (ofNetwork_inv h ha []) ms idx a⟩

/-! ## Part 2 — independence: object graphs without a common mutable container -/

open Xgi.Heap
variable {π : Type}

/-- **frame.**  `A` and `B` live in a closed heap and reach no common cell.  Then for *every* write sequence
    executed through `A` (writes to cells reachable from `A` or from what the sequence itself allocated, storing
    only such references): every cell reachable from `B` keeps its content, `B` reaches exactly the same cells,
    and the separation holds again for `A` plus its new locals — so the argument can be repeated for whatever
    is done next, on either side. -/
theorem frame {h : Heap π} {A B : List Nat} (hs : Sep h A B) (ws : List (Write π)) (hw : Through h A ws) :
    (∀ b, Reach h B b → execAll h ws b = h b) ∧
    (∀ b, Reach (execAll h ws) B b ↔ Reach h B b) ∧
    Sep (execAll h ws) (rootsAfter A ws) B := by
  induction ws generalizing h A with
  | nil => exact ⟨fun _ _ => rfl, fun _ => Iff.rfl, hs⟩
  | cons w ws ih =>
    obtain ⟨hok, hrest⟩ := hw
    obtain ⟨s1, s2, s3⟩ := sep_step hs w hok
    obtain ⟨i1, i2, i3⟩ := ih s3 hrest
    refine ⟨?_, ?_, i3⟩
    · intro b hb
      show execAll (w.exec h) ws b = h b
      rw [i1 b ((s2 b).mpr hb), s1 b hb]
    · intro b
      show Reach (execAll (w.exec h) ws) B b ↔ Reach h B b
      rw [i2 b, s2 b]

/-- after the sequence the two reach sets are still disjoint -/
theorem frame_disjoint {h : Heap π} {A B : List Nat} (hs : Sep h A B) (ws : List (Write π)) (hw : Through h A ws) :
    ∀ a, Reach (execAll h ws) A a → ¬ Reach (execAll h ws) B a :=
  fun a ha => (frame hs ws hw).2.2.disj a (reach_mono_roots (roots_sub_after A ws) ha)

/-- what any observer sees from a cell reachable from `B`, to any depth, is unchanged -/
theorem frame_view {h : Heap π} {A B : List Nat} (hs : Sep h A B) (ws : List (Write π)) (hw : Through h A ws)
    (n b : Nat) (hb : Reach h B b) : view (execAll h ws) n b = view h n b :=
  view_agree (frame hs ws hw).1 n b hb

/-- edits on **either** side, interleaved in any order: the separation is never lost -/
theorem frame_interleaved {h : Heap π} {A B : List Nat} (hs : Sep h A B) (ws : List (Side × Write π))
    (hw : Through2 h A B ws) :
    Sep (execAll2 h ws) (rootsAfter2 .A A ws) (rootsAfter2 .B B ws) := by
  induction ws generalizing h A B with
  | nil => exact hs
  | cons p ws ih =>
    obtain ⟨sd, w⟩ := p
    cases sd with
    | A =>
      obtain ⟨hok, hrest⟩ := hw
      have := ih (sep_step hs w hok).2.2 hrest
      simpa [execAll2, rootsAfter2] using this
    | B =>
      obtain ⟨hok, hrest⟩ := hw
      have := ih (sep_step hs.symm w hok).2.2.symm hrest
      simpa [execAll2, rootsAfter2] using this

/-- **non-interference.**  In any interleaving of edits through `A` and through `B`, the edits of `B` alone are an
    admissible history from the initial heap, and everything `B` (with its locals) reaches at the end has exactly
    the content it would have had if `A`'s edits had never happened. -/
theorem noninterference {h : Heap π} {A B : List Nat} (hs : Sep h A B) (ws : List (Side × Write π))
    (hw : Through2 h A B ws) :
    Through h B (only .B ws) ∧
    ∀ b, Reach (execAll2 h ws) (rootsAfter2 .B B ws) b → execAll h (only .B ws) b = execAll2 h ws b := by
  -- generalised: `g` is the heap in which only B's writes happen
  suffices key : ∀ (ws : List (Side × Write π)) (h g : Heap π) (A B : List Nat), Sep h A B → Through2 h A B ws →
      (∀ b, Reach h B b → g b = h b) → (∀ a, h a = none → g a = none) →
      Through g B (only .B ws) ∧
      ∀ b, Reach (execAll2 h ws) (rootsAfter2 .B B ws) b → execAll g (only .B ws) b = execAll2 h ws b from
    key ws h h A B hs hw (fun _ _ => rfl) (fun _ x => x)
  intro ws
  induction ws with
  | nil => intro h g A B _ _ hag _; exact ⟨trivial, fun b hb => hag b hb⟩
  | cons p ws ih =>
    intro h g A B hs hw hag hfr
    obtain ⟨sd, w⟩ := p
    cases sd with
    | A =>
      obtain ⟨hok, hrest⟩ := hw
      obtain ⟨s1, s2, s3⟩ := sep_step hs w hok
      have hag' : ∀ b, Reach (w.exec h) B b → g b = w.exec h b := by
        intro b hb
        have hb' := (s2 b).mp hb
        rw [s1 b hb']; exact hag b hb'
      have hfr' : ∀ a, w.exec h a = none → g a = none := by
        intro a ha
        apply hfr
        cases w <;> simp only [Write.exec, upd_apply] at ha <;> split at ha <;> first | cases ha | exact ha
      have := ih (w.exec h) g (w.roots A) B s3 hrest hag' hfr'
      simpa [only, execAll2, rootsAfter2] using this
    | B =>
      obtain ⟨hok, hrest⟩ := hw
      have hreach : ∀ x, Reach g B x ↔ Reach h B x := reach_of_agree hag
      have hokg : w.Ok g B := by
        cases w with
        | set a c =>
          obtain ⟨o1, o2, o3⟩ := hok
          exact ⟨(hreach a).mpr o1, by rw [hag a o1]; exact o2, fun b hb => (hreach b).mpr (o3 b hb)⟩
        | alloc a c =>
          obtain ⟨o1, o2⟩ := hok
          exact ⟨hfr a o1, fun b hb => (hreach b).mpr (o2 b hb)⟩
      obtain ⟨_, _, s3⟩ := sep_step hs.symm w hok
      have hsomeB : ∀ x, Reach h B x → (h x).isSome := fun x hx => reach_isSome hs.closed hs.allocB hx
      have hag' : ∀ b, Reach (w.exec h) (w.roots B) b → w.exec g b = w.exec h b := by
        intro b hb
        cases w with
        | set a c =>
          simp only [Write.exec, Write.roots, upd_apply] at hb ⊢
          split
          · rfl
          · exact hag b (reach_set_sub hok.2.2 hb)
        | alloc a c =>
          simp only [Write.exec, Write.roots, upd_apply] at hb ⊢
          split
          · rfl
          · rename_i hne
            have hfresh : ∀ x, Reach h B x → x ≠ a := by
              intro x hx hxa
              have := hsomeB x hx
              rw [hxa, hok.1] at this; cases this
            rcases reach_alloc_sub hok.2 hfresh hb with hx | hx
            · exact absurd hx hne
            · exact hag b hx
      have hfr' : ∀ a, w.exec h a = none → w.exec g a = none := by
        intro a ha
        cases w <;> simp only [Write.exec, upd_apply] at ha ⊢ <;> split at ha <;>
          first | cases ha | (rename_i hne; rw [if_neg hne]; exact hfr a ha)
      have := ih (w.exec h) (w.exec g) A (w.roots B) s3.symm hrest hag' hfr'
      refine ⟨?_, ?_⟩
      · show Through g B (w :: only .B ws)
        exact ⟨hokg, this.1⟩
      · simpa [only, execAll2, rootsAfter2, execAll] using this.2

/-- the separation certificate evaluated by the driver on the object graph extracted from Python is sound:
    it establishes the hypothesis of `frame` for that heap -/
theorem checkSep_sound {l : List (Nat × Cell π)} {A B SA SB : List Nat} (hc : checkSep l A B SA SB = true) :
    Sep (ofList l) A B := sep_of_checkSep hc

/-- histories executed inside the model end in reachable states (used by the examples below) -/
theorem C07_reachable_of_run {s s' : HG} (h : C01.Reachable s) (ops : List Op) (hr : C01.run s ops = some s') :
    C01.Reachable s' := by
  induction ops generalizing s with
  | nil => simp [C01.run] at hr; subst hr; exact h
  | cons op ops ih =>
    simp only [C01.run] at hr
    split at hr
    · cases hr
    · rename_i r hs; exact ih (.step h hs) hr

/-! ## non-vacuity: concrete networks and heaps meet the hypotheses; the conclusions are what one computes -/

/-- isolated node with a nested attribute value, explicit IDs 5 and 0, an empty edge, a removal (so the counter is
    above every remaining ID), a network attribute -/
private def ops0 : List Op :=
  [ .addNodesFrom [(.str "iso", some [("a", .sc (.opaque "[1, {\"s\": [1, 2]}]"))])] [],
    .addEdgesFrom .f4 [{ members := [.int 1, .int 2], idx := some (.int 5), attr := [("w", .sc (.opaque "[1]"))] },
                       { members := [], idx := some (.int 0), attr := [] },
                       { members := [.int 2, .str "x"], idx := some (.int 3), attr := [("c", .sc (.str "r"))] }] [],
    .removeEdge (.int 5),
    .setNetAttr "name" (.sc (.opaque "{\"x\": [1]}")),
    .freeze ]
private def s0 : HG := (C01.run HG.empty ops0).getD HG.empty

example : (C01.run HG.empty ops0).isSome = true := by decide
example : C01.Reachable s0 := by
  apply C07_reachable_of_run .empty ops0
  have h : (C01.run HG.empty ops0).isSome = true := by decide
  unfold s0
  cases hr : C01.run HG.empty ops0 with
  | none => rw [hr] at h; cases h
  | some x => rfl
example : s0.nodes = [.str "iso", .int 1, .int 2, .str "x"] ∧ s0.edges = [.int 0, .int 3] ∧ s0.uid = 6 ∧ s0.frozen = true := by
  decide
example : (copy s0).2 = .ok ∧ (copy s0).1.nodes = s0.nodes ∧ (copy s0).1.edges = s0.edges ∧ (copy s0).1.uid = 6 ∧
    (copy s0).1.mem (.int 3) = [.int 2, .str "x"] ∧ (copy s0).1.memb (.int 2) = [.int 3] ∧
    (copy s0).1.nattr (.str "iso") = s0.nattr (.str "iso") ∧ (copy s0).1.net = s0.net ∧ (copy s0).1.frozen = false := by
  decide
/-- the constructor does not copy the counter: 4 on the clone, 6 on the source — both fresh -/
example : (ofNetwork s0).2 = .ok ∧ (ofNetwork s0).1.edges = s0.edges ∧ (ofNetwork s0).1.uid = 4 ∧ s0.uid = 6 := by decide
example : (pickleRoundTrip s0).edges = s0.edges ∧ (pickleRoundTrip s0).uid = 6 ∧ (pickleRoundTrip s0).frozen = false ∧
    (pickleRoundTrip s0).eattr (.int 3) = [("c", .sc (.str "r"))] := by decide
/-- an automatic addition on the clone and one on the source pick IDs that are new on their own side -/
example : ((addEdge (ofNetwork s0).1 [.int 7] none []).1.edges = [.int 0, .int 3, .int 4]) ∧
    ((addEdge (copy s0).1 [.int 7] none []).1.edges = [.int 0, .int 3, .int 6]) := by decide

/-- two object graphs without a common cell: `0 → {1, 2}, 2 → 1` and `10 → 11` -/
private def cells0 : List (Nat × Cell Nat) :=
  [(0, ⟨[1, 2], 0⟩), (1, ⟨[], 5⟩), (2, ⟨[1], 0⟩), (10, ⟨[11], 0⟩), (11, ⟨[], 5⟩)]
example : checkSep cells0 [0] [10] [0, 1, 2] [10, 11] = true := by decide
example : Sep (ofList cells0) [0] [10] := checkSep_sound (SA := [0, 1, 2]) (SB := [10, 11]) (by decide)
/-- through `A`: create a new container 3 that refers to 1, then store it in container 2, then change 1 -/
private def ws0 : List (Write Nat) := [.alloc 3 ⟨[1], 9⟩, .set 2 ⟨[3, 1], 0⟩, .set 1 ⟨[], 6⟩]
example : Through (ofList cells0) [0] ws0 := by
  have r1 : Reach (ofList cells0) [0] 1 :=
    .step (.root (List.mem_singleton.mpr rfl)) (rfl : ofList cells0 0 = some ⟨[1, 2], 0⟩) (by simp)
  refine ⟨⟨rfl, ?_⟩, ⟨?_, rfl, ?_⟩, ⟨?_, rfl, ?_⟩, trivial⟩
  · intro b hb; simp only [List.mem_singleton] at hb; subst hb; exact r1
  · exact .step (.root (by simp [Write.roots])) (rfl : Write.exec (ofList cells0) (.alloc 3 ⟨[1], 9⟩) 0 = some ⟨[1, 2], 0⟩) (by simp)
  · intro b hb
    simp only [List.mem_cons, List.not_mem_nil, or_false] at hb
    rcases hb with hb | hb
    · subst hb; exact .root (by simp [Write.roots])
    · subst hb
      exact .step (.root (by simp [Write.roots])) (rfl : Write.exec (ofList cells0) (.alloc 3 ⟨[1], 9⟩) 3 = some ⟨[1], 9⟩) (by simp)
  · exact .step (.root (by simp [Write.roots]))
      (rfl : Write.exec (Write.exec (ofList cells0) (.alloc 3 ⟨[1], 9⟩)) (.set 2 ⟨[3, 1], 0⟩) 3 = some ⟨[1], 9⟩) (by simp)
  · intro b hb; cases hb
example : execAll (ofList cells0) ws0 1 = some ⟨[], 6⟩ ∧ execAll (ofList cells0) ws0 11 = some ⟨[], 5⟩ := by decide

/-- the hypothesis is needed: when the two graphs share cell 1, a write through `A` is seen from `B` -/
private def cellsShared : List (Nat × Cell Nat) := [(0, ⟨[1], 0⟩), (1, ⟨[], 5⟩), (10, ⟨[1], 0⟩)]
example : checkSep cellsShared [0] [10] [0, 1] [10, 1] = false := by decide
example : Reach (ofList cellsShared) [10] 1 ∧
    execAll (ofList cellsShared) [.set 1 ⟨[], 6⟩] 1 ≠ ofList cellsShared 1 := by
  refine ⟨.step (.root (List.mem_singleton.mpr rfl)) (rfl : ofList cellsShared 10 = some ⟨[1], 0⟩) (by simp), by decide⟩

end Xgi.C07
