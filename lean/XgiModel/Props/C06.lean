/-
  C06 — Views and statistics are live and mutually consistent.
  Property theorems only.  Helper lemmas: C06/Lemmas*.lean; facts that merely restate a model definition
  (`asnumpy := aslist`, `order := size - 1`, `keys s .node = s.nodes`, the transposed multi-stat layouts, …)
  live in C06/LemmasDef.lean and are NOT counted here.  Every statement is about the functions of
  C06/Views.lean / DiViews.lean that the driver evaluates, at an arbitrary state satisfying the incidence
  invariant (`HG.WF`, directed: `WFd`).  The last section instantiates them at every state reachable by public
  calls (returning or raising) of the three state machines: `C01.Reachable` (Hypergraph), `C03.Reachable`
  (SimplicialComplex, same views) and — through C06/Bridge.lean — `C02.Reachable` (DiHypergraph).
-/
import XgiModel.C06.LemmasDef
import XgiModel.C06.LemmasDeg
import XgiModel.C06.LemmasAgg
import XgiModel.C06.Bridge
import XgiModel.Props.C01
import XgiModel.Props.C02
import XgiModel.Props.C03

namespace Xgi.C06
open Xgi Xgi.HG

/-! ### degree, size, order -/

/-- degree = number of memberships = number of current edges that contain the node -/
theorem degree_eq_memberships {s : HG} (h : WF s) {n : PyId} (hn : n ∈ s.nodes) :
    degree s none n = (s.memb n).length ∧
    degree s none n = (s.edges.filter (fun e => decide (n ∈ s.mem e))).length := by
  refine ⟨rfl, ?_⟩
  have this : (s.memb n).length = s.edges.countP (fun e => decide (n ∈ s.mem e)) :=
    tab_length_eq_count h .node (i := n) hn
  rw [List.countP_eq_length_filter] at this
  exact this

/-- `degree(order=k)` counts the current edges of size k+1 that contain the node -/
theorem degree_order_spec {s : HG} (h : WF s) {n : PyId} (hn : n ∈ s.nodes) (k : Int) :
    degree s (some k) n =
      (s.edges.filter (fun e => decide (n ∈ s.mem e) && decide (((s.mem e).length : Int) = k + 1))).length := by
  unfold degree
  apply length_eq_of_nodup_of_mem_iff (nodup_filter _ (h.setN n hn)) (nodup_filter _ h.nodupE)
  intro e
  simp only [List.mem_filter, decide_eq_true_eq, Bool.and_eq_true]
  constructor
  · intro ⟨h1, h2⟩; exact ⟨(h.n2e n hn e h1).1, (h.n2e n hn e h1).2, h2⟩
  · intro ⟨h1, h2, h3⟩; exact ⟨(h.e2n e h1 n h2).2, h3⟩

/-- `degree(order, weight=w)`: when every current edge carries an integer under `w` (or nothing: default 1) the
    weighted degree is the sum of the weights of the current edges (of the given order) that contain the node -/
theorem degree_weight_spec {s : HG} (h : WF s) {n : PyId} (hn : n ∈ s.nodes) (order : Option Int) (w : String)
    (wt : PyId → Int) (hw : ∀ e ∈ s.edges, weightOf s w e = .ok (wt e)) :
    degreeW s order w n = .ok (((s.edges.filter (fun e => decide (n ∈ s.mem e) && orderOk s order e)).map wt).sum) :=
  (degree_gen order w wt (fun e => decide (n ∈ s.mem e)) (h.setN n hn) h.nodupE
    (fun e => by
      simp only [decide_eq_true_eq]
      exact ⟨fun he => h.n2e n hn e he, fun ⟨he, hm⟩ => (h.e2n e he n hm).2⟩) hw).2

/-- size = number of members = number of current nodes that belong to the edge -/
theorem size_eq_members {s : HG} (h : WF s) {e : PyId} (he : e ∈ s.edges) :
    size s none e = (s.mem e).length ∧
    size s none e = (s.nodes.filter (fun n => decide (n ∈ s.mem e))).length := by
  refine ⟨rfl, ?_⟩
  have this : (s.mem e).length = s.nodes.countP (fun n => decide (e ∈ s.memb n)) :=
    tab_length_eq_count h .edge (i := e) he
  rw [List.countP_eq_length_filter] at this
  have e2 : (s.nodes.filter (fun n => decide (e ∈ s.memb n))) = (s.nodes.filter (fun n => decide (n ∈ s.mem e))) := by
    apply List.filter_congr
    intro n hn
    have hiff : e ∈ s.memb n ↔ n ∈ s.mem e := wf_tab_iff h .node (i := n) (j := e) hn he
    simp [hiff]
  rw [e2] at this
  exact this

/-- the handshake: the degrees sum to the sizes (double counting of the incidences) -/
theorem handshake {s : HG} (h : WF s) :
    (s.nodes.map (fun n => degree s none n)).sum = (s.edges.map (fun e => size s none e)).sum := by
  have h1 : (s.nodes.map (fun n => degree s none n)).sum
      = (s.nodes.map (fun n => s.edges.countP (fun e => decide (n ∈ s.mem e)))).sum := by
    apply sum_map_congr
    intro n hn
    rw [List.countP_eq_length_filter]
    exact (degree_eq_memberships h hn).2
  have h2 : (s.edges.map (fun e => size s none e)).sum
      = (s.edges.map (fun e => s.nodes.countP (fun n => decide (n ∈ s.mem e)))).sum := by
    apply sum_map_congr
    intro e he
    rw [List.countP_eq_length_filter]
    exact (size_eq_members h he).2
  rw [h1, h2]
  exact sum_countP_comm s.nodes s.edges (fun n e => decide (n ∈ s.mem e))

/-- the handshake restricted to one edge order: the order-k degrees sum to (k+1) per edge of size k+1 -/
theorem handshake_order {s : HG} (h : WF s) (k : Int) :
    (s.nodes.map (fun n => degree s (some k) n)).sum
      = ((s.edges.filter (fun e => decide (((s.mem e).length : Int) = k + 1))).map (fun e => size s none e)).sum := by
  have h1 : (s.nodes.map (fun n => degree s (some k) n)).sum
      = (s.nodes.map (fun n => (s.edges.filter (fun e => decide (((s.mem e).length : Int) = k + 1))).countP
          (fun e => decide (n ∈ s.mem e)))).sum := by
    apply sum_map_congr
    intro n hn
    rw [degree_order_spec h hn, List.countP_eq_length_filter, List.filter_filter]
  have h2 : ((s.edges.filter (fun e => decide (((s.mem e).length : Int) = k + 1))).map (fun e => size s none e)).sum
      = ((s.edges.filter (fun e => decide (((s.mem e).length : Int) = k + 1))).map
          (fun e => s.nodes.countP (fun n => decide (n ∈ s.mem e)))).sum := by
    apply sum_map_congr
    intro e he
    rw [List.countP_eq_length_filter]
    exact (size_eq_members h (List.mem_filter.1 he).1).2
  rw [h1, h2]
  exact sum_countP_comm s.nodes _ (fun n e => decide (n ∈ s.mem e))

/-! ### output formats of one statistic agree and follow view order; the set-iteration order in which
    `_val` was built (`order`) is irrelevant -/

section formats
variable {α : Type} [Inhabited α]

theorem asdict_spec (f : PyId → α) {view order : List PyId} (ho : ∀ i ∈ view, i ∈ order) :
    asdict view (evalStat f order) = view.map (fun n => (n, f n)) := by
  unfold asdict
  apply List.map_congr_left
  intro n hn
  rw [dget_evalStat f (ho n hn)]

/-- every format is the statistic itself read in view order -/
theorem formats_spec (f : PyId → α) {view order : List PyId} (ho : ∀ i ∈ view, i ∈ order) :
    aslist view (evalStat f order) = view.map f ∧ asnumpy view (evalStat f order) = view.map f ∧
    aspandas view (evalStat f order) = (view, view.map f) := by
  have h1 : aslist view (evalStat f order) = view.map f := by
    rw [aslist_eq_asdict_values, asdict_spec f ho]; simp [List.map_map, Function.comp_def]
  refine ⟨h1, h1, ?_⟩
  have := aspandas_spec view (evalStat f order)
  rw [h1] at this
  exact Prod.ext this.1 this.2

/-! ### multi-stat tables -/

/-- the cell (n, stat) of the table is the value the single stat reports for n -/
theorem multi_cell {view : List PyId} {cols : List (String × List (PyId × α))} {n : PyId} (hn : n ∈ view)
    {c : String × List (PyId × α)} (hc : c ∈ cols) (hnames : (cols.map (·.1)).Nodup) :
    sget (dget (multiAsdict view cols) n) c.1 = dget (asdict view c.2) n := by
  unfold multiAsdict
  simp only []
  rw [dget_map_self (fun n => dget (multiVal view cols) n) hn, multiVal_eq]
  rw [dget_map_self (fun n => cols.map (fun c => (c.1, dget (asdict view c.2) n))) hn]
  exact sget_map_self (fun c : String × List (PyId × α) => c.1) (fun c => dget (asdict view c.2) n) hc hnames

/-- column `c` of the table = `aslist()` of the single stat -/
theorem multi_column {view : List PyId} {cols : List (String × List (PyId × α))}
    {c : String × List (PyId × α)} (hc : c ∈ cols) (hnames : (cols.map (·.1)).Nodup) :
    view.map (fun n => sget (dget (multiAsdict view cols) n) c.1) = aslist view c.2 := by
  unfold aslist
  apply List.map_congr_left
  intro n hn
  rw [multi_cell hn hc hnames, dget_asdict c.2 hn]

/-- every layout of a multi-stat table is made of the statistics themselves, read in view order, whatever the
    set-iteration order `order` in which each `_val` was built: rows of `aslist()` / `asnumpy()` / the data frame
    are `[f₁ n, f₂ n, …]` per ID `n` of the view; the transposed list is one `aslist()` per stat -/
theorem multi_table_spec (fs : List (String × (PyId → α))) {view order : List PyId} (ho : ∀ i ∈ view, i ∈ order) :
    let cols := fs.map (fun c => (c.1, evalStat c.2 order))
    multiAslist view cols = view.map (fun n => fs.map (fun c => c.2 n)) ∧
    multiAsnumpy view cols = view.map (fun n => fs.map (fun c => c.2 n)) ∧
    multiAslistT view cols = fs.map (fun c => view.map c.2) ∧
    multiAspandas view cols = (view, fs.map (·.1), view.map (fun n => fs.map (fun c => c.2 n))) := by
  intro cols
  have hrow : multiAslist view cols = view.map (fun n => fs.map (fun c => c.2 n)) := by
    rw [(multi_rows cols).1]
    apply List.map_congr_left
    intro n hn
    simp only [cols, List.map_map, Function.comp_def]
    apply List.map_congr_left
    intro c _
    rw [dget_asdict _ hn, dget_evalStat c.2 (ho n hn)]
  have hcol : multiAslistT view cols = fs.map (fun c => view.map c.2) := by
    rw [(multi_rows cols).2.1]
    simp only [cols, List.map_map, Function.comp_def]
    apply List.map_congr_left
    intro c _
    exact (formats_spec c.2 ho).1
  refine ⟨hrow, hrow, hcol, ?_⟩
  have hp := multi_aspandas_spec (view := view) cols
  refine Prod.ext hp.1 (Prod.ext ?_ ?_)
  · rw [hp.2.1]; simp [cols, List.map_map, Function.comp_def]
  · rw [hp.2.2, hrow]

end formats

/-! ### filterby / filterby_attr -/

section filter
variable {α : Type} [Inhabited α] [DecidableEq α] [LT α] [LE α] [DecidableLT α] [DecidableLE α]

/-- `view.filterby(stat, x, mode)` on a view of current IDs (in dict order) never raises and returns
    exactly the IDs of the view whose value satisfies the comparison, in view order -/
theorem filterby_spec {s : HG} (h : WF s) (k : Kind) {view order : List PyId} (hv : view.Sublist (keys s k))
    (ho : ∀ i ∈ view, i ∈ order) (f : PyId → α) (m : Mode) (x y : α) :
    filterby s k view (evalStat f order) m x y = some (view.filter (fun i => cmp m (f i) x y)) := by
  unfold filterby fromView
  have hsub : (view.filter (fun i => cmp m (dget (asdict view (evalStat f order)) i) x y)).Sublist (keys s k) :=
    List.filter_sublist.trans hv
  have hall : (view.filter (fun i => cmp m (dget (asdict view (evalStat f order)) i) x y)).all
      (fun i => decide (i ∈ keys s k)) = true := by
    simp only [List.all_eq_true, decide_eq_true_eq]
    intro i hi; exact hsub.subset hi
  rw [if_pos hall, filter_mem_of_sublist hsub (wf_keys_nodup h k)]
  congr 1
  apply List.filter_congr
  intro i hi
  rw [dget_asdict _ hi, dget_evalStat f (ho i hi)]

/-- membership form: i ∈ filterby v stat x mode ↔ i ∈ v ∧ cmp mode (stat i) x; the result is a sub-list
    of the view -/
theorem filterby_mem {s : HG} (h : WF s) (k : Kind) {view order : List PyId} (hv : view.Sublist (keys s k))
    (ho : ∀ i ∈ view, i ∈ order) (f : PyId → α) (m : Mode) (x y : α) :
    ∃ l, filterby s k view (evalStat f order) m x y = some l ∧ l.Sublist view ∧
      ∀ i, i ∈ l ↔ i ∈ view ∧ cmp m (f i) x y = true :=
  ⟨_, filterby_spec h k hv ho f m x y, List.filter_sublist, fun i => by simp [List.mem_filter]⟩

end filter

/-- `filterby_attr`: when it returns, it returns exactly the IDs of the view whose attribute value
    (with `missing` substituted) is not `None` and satisfies the comparison, in view order -/
theorem filterby_attr_spec {s : HG} (h : WF s) (k : Kind) {view l : List PyId} (hv : view.Sublist (keys s k))
    (a : String) (m : Mode) (x y missing : Val)
    (hr : filterbyAttr s k view a m x y missing = .ok l) :
    l = view.filter (fun i => !isNoneVal (attrGet s k a missing i) &&
          decide (cmpVal m (attrGet s k a missing i) x y = some true)) := by
  unfold filterbyAttr at hr
  simp only at hr
  split at hr
  · cases hr
  · have hval : ∀ i ∈ view, dget (asdict view (evalStat (attrGet s k a missing) view)) i = attrGet s k a missing i := by
      intro i hi; rw [dget_asdict _ hi, dget_evalStat _ hi]
    split at hr
    · cases hr
    · rename_i l' hfv
      cases hr
      unfold fromView at hfv
      split at hfv
      · cases hfv
        have hsub : ((view.filter (fun i => !isNoneVal (dget (asdict view (evalStat (attrGet s k a missing) view)) i))).filter
            (fun i => decide (cmpVal m (dget (asdict view (evalStat (attrGet s k a missing) view)) i) x y = some true))).Sublist (keys s k) :=
          (List.filter_sublist.trans List.filter_sublist).trans hv
        rw [filter_mem_of_sublist hsub (wf_keys_nodup h k), List.filter_filter]
        apply List.filter_congr
        intro i hi
        rw [hval i hi, Bool.and_comm]
      · cases hfv

/-- `filterby_attr` raises `TypeError` exactly when a non-`None` value of the view cannot be compared -/
theorem filterby_attr_raises_iff {s : HG} (k : Kind) {view : List PyId} (hv : view.Sublist (keys s k))
    (a : String) (m : Mode) (x y missing : Val) :
    (filterbyAttr s k view a m x y missing = .error .typeError ↔
      ∃ i ∈ view, attrGet s k a missing i ≠ .sc .none ∧ cmpVal m (attrGet s k a missing i) x y = none) ∧
    filterbyAttr s k view a m x y missing ≠ .error .lib := by
  have hval : ∀ i ∈ view, dget (asdict view (evalStat (attrGet s k a missing) view)) i = attrGet s k a missing i := by
    intro i hi; rw [dget_asdict _ hi, dget_evalStat _ hi]
  unfold filterbyAttr
  simp only
  split
  · rename_i hany
    refine ⟨⟨fun _ => ?_, fun _ => rfl⟩, by simp⟩
    simp only [List.any_eq_true, List.mem_filter, Option.isNone_iff_eq_none, Bool.not_eq_true',
      isNoneVal, decide_eq_false_iff_not] at hany
    obtain ⟨i, ⟨hi, hnn⟩, hc⟩ := hany
    exact ⟨i, hi, by rw [← hval i hi]; exact hnn, by rw [← hval i hi]; exact hc⟩
  · rename_i hany
    have hno : ¬ ∃ i ∈ view, attrGet s k a missing i ≠ .sc .none ∧ cmpVal m (attrGet s k a missing i) x y = none := by
      intro ⟨i, hi, hnn, hc⟩
      apply hany
      simp only [List.any_eq_true, List.mem_filter, Option.isNone_iff_eq_none, Bool.not_eq_true',
        isNoneVal, decide_eq_false_iff_not]
      exact ⟨i, ⟨hi, by rw [hval i hi]; exact hnn⟩, by rw [hval i hi]; exact hc⟩
    have hfv : ∀ b : List PyId, b.Sublist view → fromView s k b ≠ none := by
      intro b hb hn
      obtain ⟨i, hi, hni⟩ := (fromView_none_iff s k b).1 hn
      exact hni ((hb.trans hv).subset hi)
    split
    · rename_i hnone
      exact absurd hnone (hfv _ (List.filter_sublist.trans List.filter_sublist))
    · refine ⟨⟨fun hh => (by cases hh), fun hh => absurd hh hno⟩, by simp⟩

/-! ### neighbors -/

/-- `view.neighbors(i, s)` in terms of the view's own table: the IDs other than `i` that share a bipartite
    neighbour with `i` and (for s ≠ 1) whose neighbourhoods meet `i`'s in at least `s` IDs -/
theorem neighbors_spec_s {s : HG} (h : WF s) (k : Kind) {i : PyId} (hi : i ∈ keys s k) (sp : Int) :
    ∃ l, neighbors s k i sp = some l ∧ ∀ j, j ∈ l ↔
      j ≠ i ∧ (∃ b ∈ keys s k.bi, i ∈ tab s k.bi b ∧ j ∈ tab s k.bi b) ∧
      (sp = 1 ∨ (((tab s k i).filter (fun x => decide (x ∈ tab s k j))).length : Int) ≥ sp) := by
  unfold neighbors
  rw [if_neg (by simpa using hi)]
  refine ⟨_, rfl, ?_⟩
  intro j
  simp only [mem_rm, mem_dedup, List.mem_filter, List.mem_flatMap, Bool.or_eq_true, decide_eq_true_eq, ne_eq]
  constructor
  · intro ⟨h1, ⟨b, hb, hjb⟩, h3⟩
    exact ⟨h1, ⟨b, (wf_tab h k hi hb).1, (wf_tab h k hi hb).2, hjb⟩, h3⟩
  · intro ⟨h1, ⟨b, hb, hib, hjb⟩, h3⟩
    exact ⟨h1, ⟨b, (wf_tab_iff h k hi hb).2 hib, hjb⟩, h3⟩

/-- nodes: m ∈ H.nodes.neighbors(n) ↔ m ≠ n and some current edge contains both -/
theorem neighbors_spec {s : HG} (h : WF s) {n : PyId} (hn : n ∈ s.nodes) :
    ∃ l, neighbors s .node n 1 = some l ∧
      ∀ m, m ∈ l ↔ m ≠ n ∧ ∃ e ∈ s.edges, n ∈ s.mem e ∧ m ∈ s.mem e := by
  obtain ⟨l, hl, hs⟩ := neighbors_spec_s h .node (i := n) hn 1
  refine ⟨l, hl, fun m => ?_⟩
  rw [hs m]
  simp [keys, tab, Kind.bi]

/-- edges: f ∈ H.edges.neighbors(e, s) ↔ f ≠ e, they share a node, and |mem e ∩ mem f| ≥ s (s ≠ 1) -/
theorem edge_neighbors_spec {s : HG} (h : WF s) {e : PyId} (he : e ∈ s.edges) (sp : Int) :
    ∃ l, neighbors s .edge e sp = some l ∧
      ∀ f, f ∈ l ↔ f ≠ e ∧ (∃ n ∈ s.nodes, e ∈ s.memb n ∧ f ∈ s.memb n) ∧
        (sp = 1 ∨ (((s.mem e).filter (fun x => decide (x ∈ s.mem f))).length : Int) ≥ sp) :=
  neighbors_spec_s h .edge (i := e) he sp

/-! ### lookup, duplicates -/

/-- `view.lookup(L)`: the current IDs whose bipartite neighbourhood is exactly the set L, in view order -/
theorem lookup_spec (s : HG) (k : Kind) (sought : List PyId) (i : PyId) :
    (i ∈ lookup s k sought ↔ i ∈ keys s k ∧ ∀ x, x ∈ tab s k i ↔ x ∈ sought) ∧
    (lookup s k sought).Sublist (keys s k) := by
  unfold lookup
  rw [filter_mem_filter]
  exact ⟨by simp [List.mem_filter, sameSet_iff], List.filter_sublist⟩

/-- `view.duplicates()`: i is reported ↔ another current ID has the same bipartite neighbourhood and i is
    not the one representative of its class — so from every class of k ≥ 2 equal IDs exactly k−1 are
    reported (`duplicates_leaves_one`) -/
theorem duplicates_spec {s : HG} (h : WF s) (k : Kind) (i : PyId) :
    i ∈ duplicates s k ↔
      i ∈ keys s k ∧ (∃ j ∈ keys s k, j ≠ i ∧ ∀ x, x ∈ tab s k j ↔ x ∈ tab s k i) ∧
      rep (classOf s k i) ≠ some i := by
  -- membership in `dupsOfGroup` of a duplicate-free group
  have hdg : ∀ g : List PyId, g.Nodup → ∀ j, j ∈ dupsOfGroup g ↔ j ∈ g ∧ rep g ≠ some j := by
    intro g hg j
    unfold dupsOfGroup rep
    cases hs : sortedIds g with
    | some l =>
      have hp := sortedIds_perm hs
      simp only []
      rw [mem_drop_one (hp.nodup_iff.2 hg), hp.mem_iff]
    | none => exact mem_drop_one hg j
  -- a class with more than one element has an element other than i
  have hlen : ∀ g : List PyId, g.Nodup → i ∈ g → (g.length > 1 ↔ ∃ j ∈ g, j ≠ i) := by
    intro g hg hig
    constructor
    · intro hl
      match g, hg, hig, hl with
      | a :: b :: t, hg, _, _ =>
        have hab : a ≠ b := by
          intro e; subst e; exact (List.nodup_cons.1 hg).1 (by simp)
        by_cases ha : a = i
        · exact ⟨b, by simp, fun e => hab (ha.trans e.symm)⟩
        · exact ⟨a, by simp, ha⟩
    · intro ⟨j, hj, hne⟩
      match g, hg, hig, hj with
      | [], _, hig, _ => cases hig
      | [a], _, hig, hj =>
        simp only [List.mem_singleton] at hig hj
        exact absurd (hj.trans hig.symm) hne
      | _ :: _ :: _, _, _, _ => simp
  unfold duplicates
  simp only [List.mem_filter, decide_eq_true_eq, List.mem_flatMap]
  constructor
  · intro ⟨hi, r, ⟨hr, _⟩, hir⟩
    split at hir
    · rename_i hl
      have hi' := (hdg _ (classOf_nodup h k r) i).1 hir
      have hcls := classOf_congr (mem_classOf.1 hi'.1).2
      rw [← hcls] at hi' hl
      refine ⟨hi, ?_, hi'.2⟩
      obtain ⟨j, hj, hne⟩ := (hlen _ (classOf_nodup h k i) hi'.1).1 hl
      exact ⟨j, (mem_classOf.1 hj).1, hne, (mem_classOf.1 hj).2⟩
    · cases hir
  · intro ⟨hi, ⟨j, hj, hne, hsame⟩, hrep⟩
    refine ⟨hi, ?_⟩
    have hic := self_mem_classOf (s := s) hi
    -- the first member of i's class opens the group
    cases hh : (classOf s k i).head? with
    | none =>
      rw [List.head?_eq_none_iff] at hh
      rw [hh] at hic; cases hic
    | some r =>
      have hr := List.mem_of_mem_head? hh
      have hcls := classOf_congr (mem_classOf.1 hr).2
      refine ⟨r, ⟨(mem_classOf.1 hr).1, by rw [hcls]; simpa using hh⟩, ?_⟩
      rw [hcls]
      have hl : (classOf s k i).length > 1 :=
        (hlen _ (classOf_nodup h k i) hic).2 ⟨j, mem_classOf.2 ⟨hj, hsame⟩, hne⟩
      rw [if_pos hl]
      exact (hdg _ (classOf_nodup h k i) i).2 ⟨hic, hrep⟩

/-- of the IDs with the same bipartite neighbourhood as `i`, exactly the representative is not reported -/
theorem duplicates_leaves_one {s : HG} (h : WF s) (k : Kind) {i j : PyId} (hi : i ∈ keys s k)
    (hj : j ∈ classOf s k i) (hne : j ≠ i) (c : PyId) (hc : c ∈ classOf s k i) :
    c ∉ duplicates s k ↔ rep (classOf s k i) = some c := by
  have hcc := classOf_congr (mem_classOf.1 hc).2
  rw [duplicates_spec h k c, hcc]
  have hck := (mem_classOf.1 hc).1
  have hother : ∃ j' ∈ keys s k, j' ≠ c ∧ ∀ x, x ∈ tab s k j' ↔ x ∈ tab s k c := by
    by_cases hjc : j = c
    · subst hjc
      exact ⟨i, hi, fun e => hne e.symm, fun x => ((mem_classOf.1 hj).2 x).symm⟩
    · exact ⟨j, (mem_classOf.1 hj).1, hjc, fun x => by rw [(mem_classOf.1 hj).2 x, (mem_classOf.1 hc).2 x]⟩
  constructor
  · intro hn
    by_cases hr : rep (classOf s k i) = some c
    · exact hr
    · exact absurd ⟨hck, hother, hr⟩ hn
  · intro hr hn
    exact hn.2.2 hr

/-! ### isolates, singletons, empty -/

/-- `H.nodes.isolates()`: the nodes that belong to no current edge -/
theorem isolates_spec {s : HG} (h : WF s) (n : PyId) :
    n ∈ isolates s false ↔ n ∈ s.nodes ∧ ∀ e ∈ s.edges, n ∉ s.mem e := by
  unfold isolates
  simp only [Bool.false_eq_true, if_false]
  rw [filter_mem_filter]
  simp only [List.mem_filter, decide_eq_true_eq, degree, List.length_eq_zero_iff]
  constructor
  · intro ⟨hn, hm⟩
    refine ⟨hn, fun e he hne => ?_⟩
    have := (h.e2n e he n hne).2
    rw [hm] at this; cases this
  · intro ⟨hn, hm⟩
    refine ⟨hn, ?_⟩
    cases hmm : s.memb n with
    | nil => rfl
    | cons e t =>
      have he := h.n2e n hn e (by rw [hmm]; simp)
      exact absurd he.2 (hm e he.1)

/-- `H.nodes.isolates(ignore_singletons=True)`: the nodes all of whose edges are singletons -/
theorem isolates_ignore_singletons_spec (s : HG) (n : PyId) :
    n ∈ isolates s true ↔ n ∈ s.nodes ∧ ∀ e ∈ s.edges, n ∈ s.mem e → (s.mem e).length = 1 := by
  unfold isolates
  simp only [if_true]
  rw [filter_mem_filter]
  simp only [List.mem_filter, decide_eq_true_eq, List.mem_flatMap, ne_eq, decide_not, Bool.not_eq_true',
    decide_eq_false_iff_not, not_exists, not_and, and_imp]
  constructor
  · intro ⟨hn, hm⟩
    refine ⟨hn, fun e he hne => ?_⟩
    by_cases hl : (s.mem e).length = 1
    · exact hl
    · exact absurd hne (hm e he hl)
  · intro ⟨hn, hm⟩
    exact ⟨hn, fun e he hl hne => hl (hm e he hne)⟩

/-- `H.edges.singletons()`: the edges with exactly one member -/
theorem singletons_spec {s : HG} (h : WF s) (e : PyId) :
    e ∈ singletons s ↔ e ∈ s.edges ∧ ∃ n, ∀ m, m ∈ s.mem e ↔ m = n := by
  unfold singletons
  rw [filter_mem_filter]
  simp only [List.mem_filter, decide_eq_true_eq]
  rw [show size s none e = (s.mem e).length from rfl]
  constructor
  · intro ⟨he, hl⟩; exact ⟨he, (length_eq_one_iff_of_nodup (h.setE e he)).1 hl⟩
  · intro ⟨he, hn⟩; exact ⟨he, (length_eq_one_iff_of_nodup (h.setE e he)).2 hn⟩

/-- `H.edges.empty()`: the edges without members -/
theorem empty_spec (s : HG) (e : PyId) :
    e ∈ empty s ↔ e ∈ s.edges ∧ ∀ n, n ∉ s.mem e := by
  unfold empty
  rw [filter_mem_filter]
  simp only [List.mem_filter, decide_eq_true_eq, size, List.length_eq_zero_iff]
  constructor
  · intro ⟨he, hm⟩; exact ⟨he, by simp [hm]⟩
  · intro ⟨he, hm⟩; exact ⟨he, List.eq_nil_iff_forall_not_mem.2 hm⟩

/-! ### maximal -/

/-- `H.edges.maximal()`: e is reported ↔ no current edge has a member set that properly contains mem e.
    All copies of a maximal multi-edge are reported; an empty edge is maximal only if every edge is empty. -/
theorem maximal_spec {s : HG} (h : WF s) (e : PyId) :
    e ∈ maximal s false ↔
      e ∈ s.edges ∧ ¬ ∃ f ∈ s.edges, (∀ n ∈ s.mem e, n ∈ s.mem f) ∧ ¬ (∀ n ∈ s.mem f, n ∈ s.mem e) := by
  unfold maximal
  simp only [Bool.false_eq_true, if_false]
  rw [filter_mem_filter]
  simp only [List.mem_filter, sameSet_iff]
  constructor
  · intro ⟨he, hs⟩
    refine ⟨he, fun ⟨f, hf, hsub, hnot⟩ => hnot ?_⟩
    have : f ∈ classOf s .edge e := (hs f).1 ((mem_inter h he f).2 ⟨hf, hsub⟩)
    intro n hn
    exact ((mem_classOf.1 this).2 n).1 hn
  · intro ⟨he, hno⟩
    refine ⟨he, fun f => ?_⟩
    rw [mem_inter h he f, mem_classOf]
    simp only [keys, tab]
    constructor
    · intro ⟨hf, hsub⟩
      refine ⟨hf, fun n => ⟨fun hn => ?_, hsub n⟩⟩
      by_cases hall : ∀ n ∈ s.mem f, n ∈ s.mem e
      · exact hall n hn
      · exact absurd ⟨f, hf, hsub, hall⟩ hno
    · intro ⟨hf, hsame⟩
      exact ⟨hf, fun n hn => (hsame n).2 hn⟩

/-- `H.edges.maximal(strict=True)`: e is reported ↔ e is the only current edge whose member set contains
    mem e (so no copy of a multi-edge is reported) -/
theorem maximal_strict_spec {s : HG} (h : WF s) (e : PyId) :
    e ∈ maximal s true ↔ e ∈ s.edges ∧ ∀ f ∈ s.edges, (∀ n ∈ s.mem e, n ∈ s.mem f) → f = e := by
  unfold maximal
  simp only [if_true]
  rw [filter_mem_filter]
  simp only [List.mem_filter, sameSet_iff, List.mem_singleton]
  constructor
  · intro ⟨he, hs⟩
    exact ⟨he, fun f hf hsub => (hs f).1 ((mem_inter h he f).2 ⟨hf, hsub⟩)⟩
  · intro ⟨he, hall⟩
    refine ⟨he, fun f => ?_⟩
    rw [mem_inter h he f]
    constructor
    · intro ⟨hf, hsub⟩; exact hall f hf hsub
    · intro hfe; subst hfe; exact ⟨he, fun n hn => hn⟩

/-! ### aggregates of one numeric statistic, with the tie-breaking the docstrings promise -/

/-- `argmax()` returns the FIRST ID in view order whose value is the largest -/
theorem argmax_spec (f : PyId → Rat) {view : List PyId} (hne : view ≠ []) :
    ∃ i pre post, argmax view f = some i ∧ view = pre ++ i :: post ∧
      (∀ j ∈ pre, f j < f i) ∧ ∀ j ∈ post, f j ≤ f i := by
  cases view with
  | nil => exact absurd rfl hne
  | cons a t =>
    obtain ⟨i, hi, hc⟩ := argmax_fold f t a
    refine ⟨i, ?_⟩
    rcases hc with ⟨rfl, hall⟩ | ⟨pre, post, rfl, h1, h2, h3⟩
    · exact ⟨[], t, hi, rfl, by simp, hall⟩
    · refine ⟨a :: pre, post, hi, rfl, ?_, h3⟩
      intro j hj
      rcases List.mem_cons.1 hj with rfl | hj
      · exact h1
      · exact h2 j hj
/-- `argmin()` returns the FIRST ID in view order whose value is the smallest -/
theorem argmin_spec (f : PyId → Rat) {view : List PyId} (hne : view ≠ []) :
    ∃ i pre post, argmin view f = some i ∧ view = pre ++ i :: post ∧
      (∀ j ∈ pre, f i < f j) ∧ ∀ j ∈ post, f i ≤ f j := by
  cases view with
  | nil => exact absurd rfl hne
  | cons a t =>
    obtain ⟨i, hi, hc⟩ := argmin_fold f t a
    refine ⟨i, ?_⟩
    rcases hc with ⟨rfl, hall⟩ | ⟨pre, post, rfl, h1, h2, h3⟩
    · exact ⟨[], t, hi, rfl, by simp, hall⟩
    · refine ⟨a :: pre, post, hi, rfl, ?_, h3⟩
      intro j hj
      rcases List.mem_cons.1 hj with rfl | hj
      · exact h1
      · exact h2 j hj

/-- `argsort(reverse)`: a permutation of the view, sorted by value (ascending / descending), in which IDs
    with equal values keep their view order -/
theorem argsort_spec (f : PyId → Rat) (view : List PyId) (rev : Bool) :
    (argsort view f rev).Perm view ∧
    (argsort view f rev).Pairwise (fun a b => if rev then f b ≤ f a else f a ≤ f b) ∧
    ∀ a b, f a = f b → [a, b].Sublist view → [a, b].Sublist (argsort view f rev) := by
  refine ⟨sortBy_perm _, ?_, ?_⟩
  · have := sortBy_pairwise (argsortLe_trans f rev) (argsortLe_total f rev) view
    refine this.imp ?_
    intro a b hab
    unfold argsortLe at hab
    cases rev <;> simpa using hab
  · intro a b hab hs
    apply pair_sublist_sortBy (argsortLe_trans f rev) (argsortLe_total f rev) _ hs
    unfold argsortLe; cases rev <;> simp [hab] <;> grind

/-- `max()` / `min()` are values of the stat that bound all its values, and they are the values at
    `argmax()` / `argmin()` -/
theorem max_min_spec (f : PyId → Rat) {view : List PyId} (hne : view ≠ []) :
    (∃ m, aggMax (view.map f) = some m ∧ (∃ i ∈ view, f i = m) ∧ (∀ j ∈ view, f j ≤ m) ∧ (argmax view f).map f = some m) ∧
    (∃ m, aggMin (view.map f) = some m ∧ (∃ i ∈ view, f i = m) ∧ (∀ j ∈ view, m ≤ f j) ∧ (argmin view f).map f = some m) := by
  cases view with
  | nil => exact absurd rfl hne
  | cons a t =>
    constructor
    · obtain ⟨r, hr, hm, hle, hall⟩ := aggMax_fold (t.map f) (f a)
      have hr' : aggMax ((a :: t).map f) = some r := hr
      refine ⟨r, hr', ?_, ?_, by rw [argmax_value, hr']⟩
      · rcases hm with rfl | hm
        · exact ⟨a, by simp, rfl⟩
        · obtain ⟨i, hi, rfl⟩ := List.mem_map.1 hm
          exact ⟨i, by simp [hi], rfl⟩
      · intro j hj
        rcases List.mem_cons.1 hj with rfl | hj
        · exact hle
        · exact hall _ (List.mem_map.2 ⟨j, hj, rfl⟩)
    · obtain ⟨r, hr, hm, hle, hall⟩ := aggMin_fold (t.map f) (f a)
      have hr' : aggMin ((a :: t).map f) = some r := hr
      refine ⟨r, hr', ?_, ?_, by rw [argmin_value, hr']⟩
      · rcases hm with rfl | hm
        · exact ⟨a, by simp, rfl⟩
        · obtain ⟨i, hi, rfl⟩ := List.mem_map.1 hm
          exact ⟨i, by simp [hi], rfl⟩
      · intro j hj
        rcases List.mem_cons.1 hj with rfl | hj
        · exact hle
        · exact hall _ (List.mem_map.2 ⟨j, hj, rfl⟩)

/-! ### directed: in/out/total degrees and head/tail sizes against the directed incidence -/

/-- total degree = |in ∪ out| memberships = number of current edges with the node in tail or head -/
theorem di_degree_spec {s : DiSt} (h : WFd s) {n : PyId} (hn : n ∈ s.nodes) :
    s.degree none n = (dedup (s.membIn n ++ s.membOut n)).length ∧
    s.degree none n = (s.edges.filter (fun e => decide (n ∈ s.tail e ∨ n ∈ s.head e))).length := by
  refine ⟨rfl, ?_⟩
  have := (degree_eq_memberships (wf_tot h) (n := n) hn).2
  unfold DiSt.degree
  rw [this]
  congr 1
  apply List.filter_congr
  intro e _
  simp [DiSt.tot, DiSt.proj, DiSt.mem]

/-- out-degree = number of current edges with the node in the tail; in-degree likewise for heads -/
theorem di_out_in_degree_spec {s : DiSt} (h : WFd s) {n : PyId} (hn : n ∈ s.nodes) :
    s.outDegree none n = (s.edges.filter (fun e => decide (n ∈ s.tail e))).length ∧
    s.inDegree none n = (s.edges.filter (fun e => decide (n ∈ s.head e))).length :=
  ⟨(degree_eq_memberships (wf_outP h) (n := n) hn).2, (degree_eq_memberships (wf_inP h) (n := n) hn).2⟩

/-- all twelve branches of `dinodestats`: `degree` / `in_degree` / `out_degree`, each with and without `order`
    and `weight`, count (or sum the integer weights of) the current edges of the given order that hold the node
    in tail ∪ head / in the head / in the tail; the order of an edge is |tail ∪ head| - 1 in every branch -/
theorem di_degree_full_spec {s : DiSt} (h : WFd s) {n : PyId} (hn : n ∈ s.nodes) (order : Option Int) (w : String)
    (wt : PyId → Int) (hw : ∀ e ∈ s.edges, weightOf s.tot w e = .ok (wt e)) :
    (s.degree order n = (s.edges.filter (fun e => decide (n ∈ s.tail e ∨ n ∈ s.head e) && orderOk s.tot order e)).length ∧
     s.degreeW order w n = .ok (((s.edges.filter (fun e => decide (n ∈ s.tail e ∨ n ∈ s.head e) && orderOk s.tot order e)).map wt).sum)) ∧
    (s.inDegree order n = (s.edges.filter (fun e => decide (n ∈ s.head e) && orderOk s.tot order e)).length ∧
     s.inDegreeW order w n = .ok (((s.edges.filter (fun e => decide (n ∈ s.head e) && orderOk s.tot order e)).map wt).sum)) ∧
    (s.outDegree order n = (s.edges.filter (fun e => decide (n ∈ s.tail e) && orderOk s.tot order e)).length ∧
     s.outDegreeW order w n = .ok (((s.edges.filter (fun e => decide (n ∈ s.tail e) && orderOk s.tot order e)).map wt).sum)) := by
  have ht := wf_tot h
  refine ⟨?_, ?_, ?_⟩
  · exact degree_gen (s := s.tot) order w wt (fun e => decide (n ∈ s.tail e ∨ n ∈ s.head e)) (ht.setN n hn) h.nodupE
      (fun e => by
        simp only [decide_eq_true_eq]
        constructor
        · intro he
          have := ht.n2e n hn e he
          refine ⟨this.1, ?_⟩
          have hm := this.2
          simp only [DiSt.tot, DiSt.proj, DiSt.mem, mem_dedup, List.mem_append] at hm
          exact hm
        · intro ⟨he, hm⟩
          refine (ht.e2n e he n ?_).2
          simp only [DiSt.tot, DiSt.proj, DiSt.mem, mem_dedup, List.mem_append]
          exact hm) hw
  · exact degree_gen (s := s.inStat) order w wt (fun e => decide (n ∈ s.head e)) (h.setIn n hn) h.nodupE
      (fun e => by
        simp only [decide_eq_true_eq]
        exact ⟨fun he => h.in2head n hn e he, fun ⟨he, hm⟩ => (h.head2in e he n hm).2⟩) hw
  · exact degree_gen (s := s.outStat) order w wt (fun e => decide (n ∈ s.tail e)) (h.setOut n hn) h.nodupE
      (fun e => by
        simp only [decide_eq_true_eq]
        exact ⟨fun he => h.out2tail n hn e he, fun ⟨he, hm⟩ => (h.tail2out e he n hm).2⟩) hw
/-- the out-degrees sum to the tail sizes -/
theorem di_handshake_out_tail {s : DiSt} (h : WFd s) :
    (s.nodes.map (fun n => s.outDegree none n)).sum = (s.edges.map (fun e => s.tailSize none e)).sum :=
  handshake (wf_outP h)

/-- the in-degrees sum to the head sizes -/
theorem di_handshake_in_head {s : DiSt} (h : WFd s) :
    (s.nodes.map (fun n => s.inDegree none n)).sum = (s.edges.map (fun e => s.headSize none e)).sum :=
  handshake (wf_inP h)

/-- the total degrees sum to the sizes -/
theorem di_handshake_total {s : DiSt} (h : WFd s) :
    (s.nodes.map (fun n => s.degree none n)).sum = (s.edges.map (fun e => s.size none e)).sum :=
  handshake (wf_tot h)

/-- directed `neighbors`: the other IDs sharing an edge with n, in any role -/
theorem di_neighbors_spec {s : DiSt} (h : WFd s) {n : PyId} (hn : n ∈ s.nodes) :
    ∃ l, neighbors s.tot .node n 1 = some l ∧
      ∀ m, m ∈ l ↔ m ≠ n ∧ ∃ e ∈ s.edges, (n ∈ s.tail e ∨ n ∈ s.head e) ∧ (m ∈ s.tail e ∨ m ∈ s.head e) := by
  obtain ⟨l, hl, hs⟩ := neighbors_spec (wf_tot h) (n := n) hn
  refine ⟨l, hl, fun m => ?_⟩
  rw [hs m]
  simp [DiSt.tot, DiSt.proj, DiSt.mem]

/-- directed `lookup` / `duplicates` / `isolates` / `empty`: the undirected definitions on the member
    unions (tail ∪ head, in ∪ out) -/
theorem di_queries_spec {s : DiSt} (h : WFd s) (sought : List PyId) (e n : PyId) :
    (e ∈ lookup s.tot .edge sought ↔ e ∈ s.edges ∧ ∀ x, (x ∈ s.tail e ∨ x ∈ s.head e) ↔ x ∈ sought) ∧
    (n ∈ isolates s.tot false ↔ n ∈ s.nodes ∧ ∀ f ∈ s.edges, n ∉ s.tail f ∧ n ∉ s.head f) ∧
    (e ∈ empty s.tot ↔ e ∈ s.edges ∧ ∀ x, x ∉ s.tail e ∧ x ∉ s.head e) ∧
    (e ∈ duplicates s.tot .edge ↔ e ∈ s.edges ∧
      (∃ f ∈ s.edges, f ≠ e ∧ ∀ x, (x ∈ s.tail f ∨ x ∈ s.head f) ↔ (x ∈ s.tail e ∨ x ∈ s.head e)) ∧
      rep (classOf s.tot .edge e) ≠ some e) := by
  refine ⟨?_, ?_, ?_, ?_⟩
  · rw [(lookup_spec s.tot .edge sought e).1]; simp [DiSt.tot, DiSt.proj, DiSt.mem, keys, tab]
  · rw [isolates_spec (wf_tot h)]; simp [DiSt.tot, DiSt.proj, DiSt.mem]
  · rw [empty_spec]; simp [DiSt.tot, DiSt.proj, DiSt.mem]
  · rw [duplicates_spec (wf_tot h)]; simp [DiSt.tot, DiSt.proj, DiSt.mem, keys, tab]

/-! ### … at every reachable state of the three classes -/

/-- every state reachable by public calls — Hypergraph (C01's machine), SimplicialComplex (C03's machine, same
    view classes), DiHypergraph (C02's machine, read through `toDiSt`) — satisfies the hypothesis of the
    theorems above, so each of them holds "at every reachable network state" -/
theorem reachable_wf :
    (∀ s : HG, C01.Reachable s → WF s) ∧ (∀ s : HG, C03.Reachable s → WF s) ∧
    (∀ s : DHG, C02.Reachable s → WFd (toDiSt s)) :=
  ⟨fun _ h => (C01.C01_reachable h).1, fun _ h => (C03.C03_reachable h).wf,
   fun _ h => wfd_of_dhg (C02.C02_reachable h).1⟩

/-- … at every state reachable by an edit history (calls that return and calls that raise) -/
theorem handshake_reachable {s : HG} (h : C01.Reachable s) :
    (s.nodes.map (fun n => degree s none n)).sum = (s.edges.map (fun e => size s none e)).sum :=
  handshake (C01.C01_reachable h).1

/-- the handshake at every reachable simplicial complex -/
theorem handshake_reachable_sc {s : HG} (h : C03.Reachable s) :
    (s.nodes.map (fun n => degree s none n)).sum = (s.edges.map (fun e => size s none e)).sum :=
  handshake (reachable_wf.2.1 s h)

/-- directed handshakes at every reachable dihypergraph: out-degrees sum to tail sizes, in-degrees to head
    sizes, total degrees to sizes -/
theorem di_handshake_reachable {s : DHG} (h : C02.Reachable s) :
    ((s.nodes.map (fun n => (toDiSt s).outDegree none n)).sum = (s.edges.map (fun e => (s.tail e).length)).sum) ∧
    ((s.nodes.map (fun n => (toDiSt s).inDegree none n)).sum = (s.edges.map (fun e => (s.head e).length)).sum) ∧
    ((s.nodes.map (fun n => (toDiSt s).degree none n)).sum
      = (s.edges.map (fun e => (dedup (s.tail e ++ s.head e)).length)).sum) :=
  have hw := reachable_wf.2.2 s h
  ⟨di_handshake_out_tail hw, di_handshake_in_head hw, di_handshake_total hw⟩

/-- directed degrees at every reachable dihypergraph, in terms of C02's own tables: total / in / out degree =
    number of current edges holding the node in tail ∪ head / head / tail -/
theorem di_degree_reachable {s : DHG} (h : C02.Reachable s) {n : PyId} (hn : n ∈ s.nodes) :
    (toDiSt s).degree none n = (s.edges.filter (fun e => decide (n ∈ s.tail e ∨ n ∈ s.head e))).length ∧
    (toDiSt s).outDegree none n = (s.edges.filter (fun e => decide (n ∈ s.tail e))).length ∧
    (toDiSt s).inDegree none n = (s.edges.filter (fun e => decide (n ∈ s.head e))).length :=
  have hw := reachable_wf.2.2 s h
  ⟨(di_degree_spec hw (s := toDiSt s) hn).2, (di_out_in_degree_spec hw (s := toDiSt s) hn).1,
   (di_out_in_degree_spec hw (s := toDiSt s) hn).2⟩

/-- directed neighbors / lookup / isolates / empty / duplicates at every reachable dihypergraph -/
theorem di_queries_reachable {s : DHG} (h : C02.Reachable s) (sought : List PyId) (e n : PyId) :
    (e ∈ lookup (toDiSt s).tot .edge sought ↔ e ∈ s.edges ∧ ∀ x, (x ∈ s.tail e ∨ x ∈ s.head e) ↔ x ∈ sought) ∧
    (n ∈ isolates (toDiSt s).tot false ↔ n ∈ s.nodes ∧ ∀ f ∈ s.edges, n ∉ s.tail f ∧ n ∉ s.head f) ∧
    (e ∈ empty (toDiSt s).tot ↔ e ∈ s.edges ∧ ∀ x, x ∉ s.tail e ∧ x ∉ s.head e) ∧
    (n ∈ s.nodes → ∃ l, neighbors (toDiSt s).tot .node n 1 = some l ∧
      ∀ m, m ∈ l ↔ m ≠ n ∧ ∃ f ∈ s.edges, (n ∈ s.tail f ∨ n ∈ s.head f) ∧ (m ∈ s.tail f ∨ m ∈ s.head f)) :=
  have hw := reachable_wf.2.2 s h
  have hq := di_queries_spec hw sought e n
  ⟨hq.1, hq.2.1, hq.2.2.1, fun hn => di_neighbors_spec hw (s := toDiSt s) hn⟩

/-! ### non-vacuity: a concrete history reaches a non-trivial state on which everything evaluates -/

private def demoOps : List Op :=
  [ .addNodesFrom [(.int 3, none), (.int 1, none), (.int 2, none), (.int 9, none)] [],
    .addEdge [.int 3, .int 1] none [("w", .sc (.int 2))],
    .addEdge [.int 2] none [],
    .addEdge [.int 1, .int 3] none [("color", .sc (.str "r"))],
    .addEdge [] none [],
    .addEdge [.int 1, .int 2, .int 3] (some (.str "big")) [] ]

private def demo : HG := (C01.run HG.empty demoOps).getD HG.empty

/-- the demo state is reached by a history, hence satisfies the hypothesis `WF` of the theorems -/
example : WF demo := by
  have hs : (C01.run HG.empty demoOps).isSome = true := by decide
  obtain ⟨s', hr⟩ := Option.isSome_iff_exists.1 hs
  have : demo = s' := by simp [demo, hr]
  rw [this]; exact (C01.C01_history _ _ _ empty_inv hr).1

example : demo.nodes = [.int 3, .int 1, .int 2, .int 9] := by decide
example : demo.edges = [.int 0, .int 1, .int 2, .int 3, .str "big"] := by decide
example : (demo.nodes.map (fun n => degree demo none n)).sum = 8 ∧ (demo.edges.map (fun e => size demo none e)).sum = 8 := by decide
example : demo.nodes.map (degree demo (some 1)) = [2, 2, 0, 0] := by decide
example : maximal demo false = [.str "big"] ∧ maximal demo true = [.str "big"] := by decide
example : empty demo = [.int 3] ∧ singletons demo = [.int 1] := by decide
example : isolates demo false = [.int 9] ∧ isolates demo true = [.int 9] := by decide
example : duplicates demo .edge = [.int 2] ∧ duplicates demo .node = [.int 3] := by decide
example : lookup demo .edge [.int 1, .int 3] = [.int 0, .int 2] := by decide
example : neighbors demo .node (.int 2) 1 = some [.int 1, .int 3] := by decide
example : neighbors demo .edge (.int 0) 2 = some [.int 2, .str "big"] := by decide
example : neighbors demo .node (.int 7) 1 = none := by decide
example : filterby demo .node demo.nodes (evalStat (fun n => (degree demo none n : Int)) [.int 9, .int 2, .int 1, .int 3])
    .between 1 2 = some [.int 2] := by decide
example : (filterbyAttr demo .edge demo.edges "w" .geq (.sc (.int 1)) (.sc .none) (.sc .none)).toOption = some [.int 0] := by decide
example : (match filterbyAttr demo .edge demo.edges "w" .geq (.sc (.str "a")) (.sc .none) (.sc .none) with
    | .error .typeError => true | _ => false) = true := by decide
example : aspandas demo.nodes (evalStat (fun n => degree demo none n) [.int 1, .int 2, .int 3, .int 9])
    = ([.int 3, .int 1, .int 2, .int 9], [3, 3, 2, 0]) := by decide
/-- an empty edge together with a non-empty one: the empty edge is not maximal (finding F6b, repaired) -/
example : (PyId.int 3) ∉ maximal demo false := by decide

private def ddemo : DiSt :=
  { nodes := [.int 2, .int 1, .int 3], edges := [.int 0, .int 1],
    tail := fun e => if e = .int 0 then [.int 1, .int 2] else if e = .int 1 then [.int 3] else [],
    head := fun e => if e = .int 0 then [.int 3, .int 2] else if e = .int 1 then [.int 1] else [],
    membOut := fun n => if n = .int 1 then [.int 0] else if n = .int 2 then [.int 0] else if n = .int 3 then [.int 1] else [],
    membIn := fun n => if n = .int 3 then [.int 0] else if n = .int 2 then [.int 0] else if n = .int 1 then [.int 1] else [],
    nattr := fun _ => [], eattr := fun _ => [] }

/-- the directed demo state satisfies the hypothesis `WFd` of the directed theorems -/
example : WFd ddemo := by constructor <;> decide

example : ddemo.nodes.map (ddemo.outDegree none) = [1, 1, 1] ∧ ddemo.edges.map (ddemo.tailSize none) = [2, 1] := by decide
example : ddemo.nodes.map (ddemo.degree none) = [1, 2, 2] ∧ ddemo.edges.map (ddemo.size none) = [3, 2] := by decide
example : neighbors ddemo.tot .node (.int 1) 1 = some [.int 3, .int 2] := by decide


/-! aggregates and the bridge on concrete inputs -/
private def dvals : PyId → Rat := fun n => (degree demo none n : Rat)
example : argmax demo.nodes dvals = some (.int 3) ∧ argmin demo.nodes dvals = some (.int 9) := by decide
example : argsort demo.nodes dvals false = [.int 9, .int 2, .int 3, .int 1] := by decide
example : argsort demo.nodes dvals true = [.int 3, .int 1, .int 2, .int 9] := by decide
example : aggMax (demo.nodes.map dvals) = some 3 ∧ aggUnique (demo.nodes.map dvals) = [0, 2, 3] ∧
    aggCounts (demo.nodes.map dvals) = [1, 1, 2] ∧ aggMedian [3, 0, 2] = 2 := by decide
example : (degreeW demo none "w" (.int 3)).toOption = some 4 ∧ (degreeW demo (some 1) "w" (.int 1)).toOption = some 3 := by decide

private def dhdemo : DHG := ((C02.run DHG.empty
  [ .addEdge (.pair [.int 1, .int 2] [.int 2, .int 3]) none [("w", .sc (.int 5))],
    .addEdge (.pair [.int 3] [.int 1]) none [] ]).getD DHG.empty)
/-- the hypothesis `C02.Reachable` of the `di_*_reachable` theorems is met by a non-trivial state -/
example : ∃ s, C02.Reachable s ∧ (toDiSt s).edges = [.int 0] ∧ (toDiSt s).outDegree none (.int 1) = 1 :=
  ⟨_, C02.Reachable.step (op := .addEdge (.pair [.int 1, .int 2] [.int 2, .int 3]) none [("w", .sc (.int 5))])
        C02.Reachable.empty rfl, by decide, by decide⟩
/-- … and `C03.Reachable` (simplicial complexes) by a complex with a triangle and its faces -/
example : ∃ s, C03.Reachable s ∧ (s.edges.map (fun e => size s none e)).sum = (s.nodes.map (fun n => degree s none n)).sum ∧
    s.edges.length = 4 :=
  ⟨_, C03.Reachable.step (.addSimplex [.int 1, .int 2, .int 3] none [] {}) C03.Reachable.empty, by decide, by decide⟩
example : (toDiSt dhdemo).nodes.map ((toDiSt dhdemo).outDegree none) = [1, 1, 1] ∧
    (toDiSt dhdemo).edges.map ((toDiSt dhdemo).tailSize none) = [2, 1] := by decide
example : ((toDiSt dhdemo).outDegreeW none "w" (.int 1)).toOption = some 5 ∧
    ((toDiSt dhdemo).inDegreeW none "w" (.int 1)).toOption = some 1 := by decide

end Xgi.C06
