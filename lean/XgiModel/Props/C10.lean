/-
  C10 — conversions between representations preserve the incidence relation.
  Property theorems about the model `XgiModel/C10/Convert.lean` (the functions `Drivers/C10.lean` runs).
-/
import XgiModel.C10.Lemmas
import XgiModel.C10.LemmasDfSC

namespace Xgi.C10

/-! ### bipartite edge list -/

/-- bipartite edge list: the round trip has exactly the source's labelled incidences (labels are carried),
    and is well-formed -/
theorem bipartiteEdgelist_rt (h : Net) :
    (∀ n e, Inc (fromBipartiteEdgelist (toBipartiteEdgelist h)) n e ↔ Inc h n e) ∧
    (fromBipartiteEdgelist (toBipartiteEdgelist h)).WF := by
  refine ⟨fun n e => ?_, wf_linkAll _ wf_emptyNet⟩
  unfold fromBipartiteEdgelist
  rw [inc_linkAll, mem_toBipartiteEdgelist]
  simp [inc_emptyNet]

/-- the node / edge labels of the round trip are those of the non-isolated nodes / non-empty edges -/
theorem bipartiteEdgelist_labels (h : Net) (hw : h.WF) :
    (∀ n, n ∈ (fromBipartiteEdgelist (toBipartiteEdgelist h)).nodes ↔ n ∈ h.nodes ∧ ∃ e, Inc h n e) ∧
    (∀ e, e ∈ (fromBipartiteEdgelist (toBipartiteEdgelist h)).edgeIds ↔ e ∈ h.edgeIds ∧ ∃ n, Inc h n e) := by
  obtain ⟨_, _, h3⟩ := hw
  unfold fromBipartiteEdgelist
  constructor
  · intro n
    rw [mem_nodes_linkAll]
    simp only [mem_toBipartiteEdgelist, emptyNet, List.not_mem_nil, false_or]
    constructor
    · rintro ⟨e, p, hp, he, hn⟩; exact ⟨(h3 p hp).2 n hn, e, p, hp, he, hn⟩
    · rintro ⟨_, e, he⟩; exact ⟨e, he⟩
  · intro e
    rw [mem_edgeIds_linkAll]
    simp only [mem_toBipartiteEdgelist, emptyNet, Net.edgeIds, List.map_nil, List.not_mem_nil, false_or]
    constructor
    · rintro ⟨n, p, hp, he, hn⟩
      exact ⟨by rw [List.mem_map]; exact ⟨p, hp, he⟩, n, p, hp, he, hn⟩
    · rintro ⟨_, n, hn⟩; exact ⟨n, hn⟩

/-- directed bipartite edge list (triples with direction): same labelled incidences with direction -/
theorem bipartiteEdgelistDi_rt (h : DiNet) :
    (∀ n e d, DInc (fromBipartiteEdgelistDi (toBipartiteEdgelistDi h)) n e d ↔ DInc h n e d) ∧
    DWF (fromBipartiteEdgelistDi (toBipartiteEdgelistDi h)) := by
  refine ⟨fun n e d => ?_, dwf_dLinkAll _ dwf_emptyDiNet⟩
  unfold fromBipartiteEdgelistDi
  rw [dInc_dLinkAll, mem_toBipartiteEdgelistDi]
  simp [dInc_emptyDiNet]

/-! ### two-column dataframe -/

/-- dataframe: the rows carry both labels; the round trip has exactly the source's incidences -/
theorem dataframe_rt (h : Net) (hw : h.WF) :
    (∀ n e, Inc (fromDataframe (toDataframe h)) n e ↔ Inc h n e) ∧ (fromDataframe (toDataframe h)).WF := by
  refine ⟨fun n e => ?_, wf_linkAll _ wf_emptyNet⟩
  unfold fromDataframe
  rw [inc_linkAll, mem_toDataframe]
  simp only [inc_emptyNet, false_or, and_iff_right_iff_imp]
  rintro ⟨p, hp, _, hn⟩
  exact (hw.2.2 p hp).2 n hn

/-! ### incidence matrix -/

/-- labelled incidence matrix (row / column label lists): same labelled incidences -/
theorem incidence_labelled_rt (h : Net) (hw : h.WF) :
    ∃ r, fromIncidence (toIncidence h).M (some (toIncidence h).rows) (some (toIncidence h).cols) = .ok r ∧
      (∀ n e, Inc r n e ↔ Inc h n e) ∧ r.WF := by
  obtain ⟨s1, s2⟩ := shape_toIncidence h
  refine ⟨linkAll (entries (labelFn (some (toIncidence h).rows)) (labelFn (some (toIncidence h).cols)) (toIncidence h).M) emptyNet,
    by simp [fromIncidence, lenBad, s1, s2], fun n e => ?_, wf_linkAll _ wf_emptyNet⟩
  rw [inc_linkAll, toIncidence_entries h hw]
  simp [inc_emptyNet]

/-- unlabelled incidence matrix: node `i` / edge `j` of the result are the `i`-th node / `j`-th edge of the
    source (positions are all the matrix carries: same order) -/
theorem incidence_unlabelled_rt (h : Net) :
    ∃ r, fromIncidence (toIncidence h).M none none = .ok r ∧
      (∀ x y, Inc r x y ↔ ∃ (i j : Nat) (n : PyId) (p : PyId × List PyId),
          x = PyId.int i ∧ y = PyId.int j ∧ h.nodes[i]? = some n ∧ h.edges[j]? = some p ∧ n ∈ p.2) ∧ r.WF := by
  refine ⟨linkAll (entries (labelFn none) (labelFn none) (toIncidence h).M) emptyNet,
    by simp [fromIncidence, lenBad], fun x y => ?_, wf_linkAll _ wf_emptyNet⟩
  rw [inc_linkAll, toIncidence_entries_pos h]
  simp [inc_emptyNet]

/-! ### hyperedge list / dict -/

/-- hyperedge dict (edge labels carried): the round trip has exactly the source's `(ID, members)` list — same
    labels, same members, empty edges included, in the same order — and its nodes are the members -/
theorem hyperedgeDict_rt (h : Net) (hw : h.WF) :
    (fromHyperedgeDict (toHyperedgeDict h)).edges = h.edges ∧
    (∀ n e, Inc (fromHyperedgeDict (toHyperedgeDict h)) n e ↔ Inc h n e) ∧
    (∀ n, n ∈ (fromHyperedgeDict (toHyperedgeDict h)).nodes ↔ ∃ e, Inc h n e) := by
  have hd : (emptyNet.edgeIds ++ (toHyperedgeDict h).map (·.1)).Nodup := by
    simpa [emptyNet, Net.edgeIds, toHyperedgeDict] using hw.2.1
  have he : (fromHyperedgeDict (toHyperedgeDict h)).edges = h.edges := by
    unfold fromHyperedgeDict
    rw [edges_foldl_addEdge _ _ hd]
    simp only [emptyNet, toHyperedgeDict, List.nil_append]
    conv => rhs; rw [← List.map_id h.edges]
    apply List.map_congr_left
    intro p hp
    rw [dedup_of_nodup (hw.2.2 p hp).1]; rfl
  refine ⟨he, fun n e => by unfold Inc; rw [he], fun n => ?_⟩
  unfold fromHyperedgeDict
  rw [mem_nodes_foldl_addEdge _ _ hd]
  simp only [emptyNet, List.not_mem_nil, false_or, toHyperedgeDict, Inc]
  constructor
  · rintro ⟨p, hp, hn⟩; exact ⟨p.1, p, hp, rfl, hn⟩
  · rintro ⟨e, p, hp, _, hn⟩; exact ⟨p, hp, hn⟩

/-- hyperedge list (no labels): edge `j` of the round trip is the `j`-th edge of the source with the same
    members — same edge order, empty edges included -/
theorem hyperedgeList_rt (h : Net) (hw : h.WF) :
    (fromHyperedgeList (toHyperedgeList h)).edges = h.edges.zipIdx.map (fun pj => (PyId.int pj.2, pj.1.2)) := by
  unfold fromHyperedgeList
  rw [edges_foldl_addEdge_auto _ _ _ (by simp [emptyNet, Net.edgeIds])]
  simp only [emptyNet, toHyperedgeList, List.nil_append, List.zipIdx_map, List.map_map]
  apply List.map_congr_left
  rintro ⟨p, j⟩ hpj
  have hp : p ∈ h.edges := by
    have := List.mem_zipIdx_iff_getElem?.mp hpj
    exact List.mem_of_getElem? this
  simp only [Function.comp, Prod.map, id]
  rw [dedup_of_nodup (hw.2.2 p hp).1]

/-- … hence node `n` is in edge `j` of the round trip iff it is in the `j`-th source edge -/
theorem hyperedgeList_inc (h : Net) (hw : h.WF) (n : PyId) (j : Nat) :
    Inc (fromHyperedgeList (toHyperedgeList h)) n (PyId.int j) ↔ ∃ p, h.edges[j]? = some p ∧ n ∈ p.2 := by
  unfold Inc
  rw [hyperedgeList_rt h hw]
  simp only [List.mem_map, List.mem_zipIdx_iff_getElem?]
  constructor
  · rintro ⟨q, ⟨⟨p, i⟩, hpi, rfl⟩, hq, hn⟩
    simp only [PyId.int, PyId.atom.injEq, Atom.int.injEq, Int.natCast_inj] at hq
    subst hq
    exact ⟨p, hpi, hn⟩
  · rintro ⟨p, hp, hn⟩
    exact ⟨_, ⟨(p, j), hp, rfl⟩, rfl, hn⟩

/-! ### bipartite graph -/

/-- `from_bipartite_graph` does not depend on the order in which the vertices were inserted nor on the
    orientation `(node, edge)` / `(edge, node)` in which networkx hands over each undirected edge: two graphs
    with the same vertices (a permutation of the vertex list) and the same unordered edges are accepted or
    rejected together and give the same nodes and the same incidences -/
theorem fromBipartiteGraph_perm (G G' : BGraph) (hw : GWF G) (hv : G.verts.Perm G'.verts)
    (he : ∀ u v, ((u, v) ∈ G.edges ∨ (v, u) ∈ G.edges) ↔ ((u, v) ∈ G'.edges ∨ (v, u) ∈ G'.edges)) :
    ((∃ r, fromBipartiteGraph G = .ok r) ↔ (∃ r', fromBipartiteGraph G' = .ok r')) ∧
    (∀ r r', fromBipartiteGraph G = .ok r → fromBipartiteGraph G' = .ok r' →
       (∀ n e, Inc r n e ↔ Inc r' n e) ∧ (∀ n, n ∈ r.nodes ↔ n ∈ r'.nodes)) := by
  have hw' := gwf_transfer hw hv he
  have he' : ∀ u v, ((u, v) ∈ G'.edges ∨ (v, u) ∈ G'.edges) ↔ ((u, v) ∈ G.edges ∨ (v, u) ∈ G.edges) :=
    fun u v => (he u v).symm
  have hN : ∀ x, x ∈ nodeVerts G ↔ x ∈ nodeVerts G' := fun x => by
    rw [mem_nodeVerts, mem_nodeVerts]; exact hv.mem_iff
  have hE : ∀ x, x ∈ edgeVerts G ↔ x ∈ edgeVerts G' := fun x => by
    rw [mem_edgeVerts, mem_edgeVerts]; exact hv.mem_iff
  constructor
  · rw [fromBipartiteGraph_ok_iff, fromBipartiteGraph_ok_iff]
    exact ⟨fun h => ok_transfer hw hv he h.1 h.2, fun h => ok_transfer hw' hv.symm he' h.1 h.2⟩
  · intro r r' hr hr'
    constructor
    · intro n e
      rw [fromBipartiteGraph_inc hr hw, fromBipartiteGraph_inc hr' hw', hN, hE, he n e]
    · intro n
      rw [fromBipartiteGraph_nodes hr hw, fromBipartiteGraph_nodes hr' hw', hN]

/-- the directed reader likewise does not depend on the order in which the vertices were inserted nor on the
    order in which networkx lists the arcs: two directed graphs with the same vertices (a permutation of the vertex
    list) and the same arcs (as a set; the orientation of an arc is data here) are accepted or rejected together
    and give the same nodes and the same incidences with their direction -/
theorem fromBipartiteGraphDi_perm (G G' : BGraph) (hw : GWF G) (hv : G.verts.Perm G'.verts)
    (he : ∀ u v, (u, v) ∈ G.edges ↔ (u, v) ∈ G'.edges) :
    ((∃ r, fromBipartiteGraphDi G = .ok r) ↔ (∃ r', fromBipartiteGraphDi G' = .ok r')) ∧
    (∀ r r', fromBipartiteGraphDi G = .ok r → fromBipartiteGraphDi G' = .ok r' →
       (∀ n e d, DInc r n e d ↔ DInc r' n e d) ∧ (∀ n, n ∈ r.nodes ↔ n ∈ r'.nodes)) := by
  have hes : ∀ u v, ((u, v) ∈ G.edges ∨ (v, u) ∈ G.edges) ↔ ((u, v) ∈ G'.edges ∨ (v, u) ∈ G'.edges) :=
    fun u v => by rw [he u v, he v u]
  have hes' : ∀ u v, ((u, v) ∈ G'.edges ∨ (v, u) ∈ G'.edges) ↔ ((u, v) ∈ G.edges ∨ (v, u) ∈ G.edges) :=
    fun u v => (hes u v).symm
  have hw' := gwf_transfer hw hv hes
  have hN : ∀ x, x ∈ nodeVerts G ↔ x ∈ nodeVerts G' := fun x => by
    rw [mem_nodeVerts, mem_nodeVerts]; exact hv.mem_iff
  have hE : ∀ x, x ∈ edgeVerts G ↔ x ∈ edgeVerts G' := fun x => by
    rw [mem_edgeVerts, mem_edgeVerts]; exact hv.mem_iff
  constructor
  · rw [fromBipartiteGraphDi_ok_iff, fromBipartiteGraphDi_ok_iff]
    exact ⟨fun h => ok_transfer hw hv hes h.1 h.2, fun h => ok_transfer hw' hv.symm hes' h.1 h.2⟩
  · intro r r' hr hr'
    constructor
    · intro n e d
      rw [fromBipartiteGraphDi_inc hr hw, fromBipartiteGraphDi_inc hr' hw', hN, hE]
      cases d
      · simp only [he n e]
      · simp only [he e n]
    · intro n
      rw [fromBipartiteGraphDi_nodes hr hw, fromBipartiteGraphDi_nodes hr' hw', hN]

/-- bipartite graph with index maps: `from_bipartite_graph(to_bipartite_graph(H))` is accepted and, read through
    the index maps `itn` / `ite`, has exactly the source's labelled incidences; its nodes are the source's nodes
    (isolated ones included) -/
theorem bipartiteGraph_rt (h : Net) (hw : h.WF) :
    ∃ r, fromBipartiteGraph (toBipartiteGraph h).G = .ok r ∧
      (∀ x y, Inc r x y ↔ ∃ n e, (x, n) ∈ (toBipartiteGraph h).itn ∧ (y, e) ∈ (toBipartiteGraph h).ite ∧ Inc h n e) ∧
      (∀ x, x ∈ r.nodes ↔ ∃ n, (x, n) ∈ (toBipartiteGraph h).itn) := by
  obtain ⟨r, hr⟩ := (fromBipartiteGraph_ok_iff _).mpr (ok_toBG h)
  refine ⟨r, hr, fun x y => ?_, fun x => ?_⟩
  · rw [fromBipartiteGraph_inc hr (gwf_toBG h), mem_nodeVerts_toBG, mem_edgeVerts_toBG]
    simp only [mem_itn_toBG, mem_ite_toBG, mem_edges_toBG]
    constructor
    · rintro ⟨⟨i, v, hv, rfl⟩, ⟨j, p, hp, rfl⟩, (⟨i', v', j', p', hv', hp', hm, hx, hy⟩ | ⟨i', v', j', p', hv', hp', hm, hx, hy⟩)⟩
      · have h1 := int_inj _ _ hx
        have h2 := int_inj _ _ hy
        have h3 : j = j' := by omega
        subst h1 h3
        rw [hv] at hv'; rw [hp] at hp'
        simp only [Option.some.injEq] at hv' hp'
        subst hv' hp'
        exact ⟨v, p.1, ⟨i, hv, rfl⟩, ⟨j, p, hp, rfl, rfl⟩, p, List.mem_of_getElem? hp, rfl, hm⟩
      · have h1 := int_inj _ _ hy
        have := getElem?_lt hv
        omega
    · rintro ⟨n, e, ⟨i, hv, rfl⟩, ⟨j, p, hp, rfl, rfl⟩, q, hq, hqe, hn⟩
      have : q = p := eq_of_key_eq hw.2.1 hq (List.mem_of_getElem? hp) hqe
      subst this
      exact ⟨⟨i, n, hv, rfl⟩, ⟨j, q, hp, rfl⟩, Or.inl ⟨i, n, j, q, hv, hp, hn, rfl, rfl⟩⟩
  · rw [fromBipartiteGraph_nodes hr (gwf_toBG h), mem_nodeVerts_toBG]
    simp only [mem_itn_toBG]
    constructor
    · rintro ⟨i, v, hv, rfl⟩; exact ⟨v, i, hv, rfl⟩
    · rintro ⟨v, i, hv, rfl⟩; exact ⟨i, v, hv, rfl⟩

/-- directed bipartite graph (arcs node → edge for tail members, edge → node for head members): accepted, and
    through the index maps it has exactly the source's incidences with their direction -/
theorem bipartiteGraphDi_rt (h : DiNet) (hw : DWF h) :
    ∃ r, fromBipartiteGraphDi (toBipartiteGraphDi h).G = .ok r ∧
      (∀ x y d, DInc r x y d ↔ ∃ n e, (x, n) ∈ (toBipartiteGraphDi h).itn ∧ (y, e) ∈ (toBipartiteGraphDi h).ite ∧ DInc h n e d) := by
  obtain ⟨r, hr⟩ := (fromBipartiteGraphDi_ok_iff _).mpr (ok_toBGDi h)
  refine ⟨r, hr, fun x y d => ?_⟩
  rw [fromBipartiteGraphDi_inc hr (gwf_toBGDi h), mem_nodeVerts_toBGDi, mem_edgeVerts_toBGDi]
  simp only [mem_itn_toBGDi, mem_ite_toBGDi, dInc_iff]
  constructor
  · rintro ⟨⟨i, v, hv, rfl⟩, ⟨j, p, hp, rfl⟩, hE⟩
    refine ⟨v, p.1, ⟨i, hv, rfl⟩, ⟨j, p, hp, rfl, rfl⟩, p, List.mem_of_getElem? hp, rfl, ?_⟩
    cases d
    · simp only [mem_edges_toBGDi] at hE
      rcases hE with ⟨i', v', j', p', hv', hp', hm, hx, hy⟩ | ⟨i', v', j', p', hv', hp', hm, hx, hy⟩
      · have h1 := int_inj _ _ hx
        have h2 := int_inj _ _ hy
        have h3 : j = j' := by omega
        subst h1 h3
        rw [hv] at hv'; rw [hp] at hp'
        simp only [Option.some.injEq] at hv' hp'
        subst hv' hp'
        exact hm
      · have h1 := int_inj _ _ hx
        have := getElem?_lt hv'
        omega
    · simp only [mem_edges_toBGDi] at hE
      rcases hE with ⟨i', v', j', p', hv', hp', hm, hx, hy⟩ | ⟨i', v', j', p', hv', hp', hm, hx, hy⟩
      · have h1 := int_inj _ _ hy
        have := getElem?_lt hv
        omega
      · have h1 := int_inj _ _ hx
        have h2 := int_inj _ _ hy
        have h3 : j = j' := by omega
        subst h1 h3
        rw [hv] at hv'; rw [hp] at hp'
        simp only [Option.some.injEq] at hv' hp'
        subst hv' hp'
        exact hm
  · rintro ⟨n, e, ⟨i, hv, rfl⟩, ⟨j, p, hp, rfl, rfl⟩, q, hq, hqe, hn⟩
    have : q = p := eq_of_key_eq_di hw.2.1 hq (List.mem_of_getElem? hp) hqe
    subst this
    refine ⟨⟨i, n, hv, rfl⟩, ⟨j, q, hp, rfl⟩, ?_⟩
    cases d
    · simp only [mem_edges_toBGDi]
      exact Or.inl ⟨i, n, j, q, hv, hp, hn, rfl, rfl⟩
    · simp only [mem_edges_toBGDi]
      exact Or.inr ⟨i, n, j, q, hv, hp, hn, rfl, rfl⟩

/-! ### the standard hypergraph dict -/

/-- hypergraph dict: when the string casts can be undone (`uncast (cast x) = x` on the IDs — e.g. `int` on
    all-int IDs, the identity on all-string IDs) and every member set can be sorted, the round trip succeeds and
    keeps the node list (isolated nodes, order), the edge IDs (empty edges, order), the labelled incidences and
    all three levels of attributes -/
theorem hypergraphDict_rt (cast : PyId → String) (un ue : String → Except Err PyId) (a : ANet) (hw : AWF a)
    (hun : ∀ x ∈ a.net.nodes, un (cast x) = .ok x) (hue : ∀ e ∈ a.net.edgeIds, ue (cast e) = .ok e)
    (hs : ∀ p ∈ a.net.edges, (sortIds p.2).isSome) :
    ∃ d r, toHypergraphDict cast a = .ok d ∧ fromHypergraphDict un ue d = .ok r ∧
      r.net.nodes = a.net.nodes ∧ r.net.edgeIds = a.net.edgeIds ∧
      (∀ n e, Inc r.net n e ↔ Inc a.net n e) ∧
      r.gattr = a.gattr ∧ (∀ n ∈ a.net.nodes, r.nattr n = a.nattr n) ∧ (∀ e ∈ a.net.edgeIds, r.eattr e = a.eattr e) := by
  obtain ⟨⟨w1, w2, w3⟩, wg, wn, we⟩ := hw
  -- the sorted member lists
  let sorted : PyId × List PyId → List PyId := fun p => (sortIds p.2).getD p.2
  have hsorted : ∀ p ∈ a.net.edges, sortIds p.2 = some (sorted p) := by
    intro p hp
    have := hs p hp
    cases h : sortIds p.2 with
    | none => simp [h] at this
    | some l => simp [sorted, h]
  have hperm : ∀ p ∈ a.net.edges, (sorted p).Perm p.2 := fun p hp => sortIds_perm (hsorted p hp)
  -- to_hypergraph_dict succeeds
  have hd : toHypergraphDict cast a = .ok
      { gattr := Attrs.update [] a.gattr,
        nodeData := a.net.nodes.map (fun n => (cast n, a.nattr n)),
        edgeData := a.net.edgeIds.map (fun e => (cast e, a.eattr e)),
        edgeDict := a.net.edges.map (fun p => (cast p.1, (sorted p).map cast)) } := by
    unfold toHypergraphDict
    have h1 : (a.net.nodes.map cast).Nodup := nodup_map_of_leftInv cast un hun w1
    have h2 : (a.net.edgeIds.map cast).Nodup := nodup_map_of_leftInv cast ue hue w2
    simp only [h1, h2, not_true_eq_false, if_false]
    rw [mapO_eq _ (fun p => (cast p.1, (sorted p).map cast)) _ (fun p hp => by simp [hsorted p hp])]
  refine ⟨_, buildHD (Attrs.update [] a.gattr) (a.net.nodes.map (fun n => (n, a.nattr n)))
    (a.net.edges.map (fun p => (p.1, sorted p))) (a.net.edgeIds.map (fun e => (e, a.eattr e))), hd, ?_⟩
  -- from_hypergraph_dict: the casts are undone
  have e1 : mapE (fun (p : String × Attrs) => (un p.1).map (fun n => (n, p.2)))
      (a.net.nodes.map (fun n => (cast n, a.nattr n))) = .ok (a.net.nodes.map (fun n => (n, a.nattr n))) :=
    mapE_map_eq _ _ _ _ (fun x hx => by simp [hun x hx, Except.map])
  have e3 : mapE (fun (p : String × Attrs) => (ue p.1).map (fun e => (e, p.2)))
      (a.net.edgeIds.map (fun e => (cast e, a.eattr e))) = .ok (a.net.edgeIds.map (fun e => (e, a.eattr e))) :=
    mapE_map_eq _ _ _ _ (fun x hx => by simp [hue x hx, Except.map])
  have e2 : mapE (uncastEdge un ue)
      (a.net.edges.map (fun p => (cast p.1, (sorted p).map cast))) = .ok (a.net.edges.map (fun p => (p.1, sorted p))) := by
    apply mapE_map_eq
    intro p hp
    have hpe : p.1 ∈ a.net.edgeIds := by unfold Net.edgeIds; rw [List.mem_map]; exact ⟨p, hp, rfl⟩
    have hm : mapE un ((sorted p).map cast) = .ok ((sorted p).map id) :=
      mapE_map_eq _ _ _ _ (fun x hx => hun x ((w3 p hp).2 x ((hperm p hp).mem_iff.mp hx)))
    simp only [uncastEdge, hue _ hpe, hm, List.map_id]
  refine ⟨?_, ?_⟩
  · unfold fromHypergraphDict
    simp only [e1, e2, e3]
  · -- the construction
    unfold buildHD
    simp only [List.foldl_map, hdNodeRec_eq]
    have g0 : Attrs.update [] (Attrs.update [] a.gattr) = a.gattr := by
      rw [attrs_update_nil wg, attrs_update_nil wg]
    generalize ha0 : ({ emptyANet .hg with gattr := Attrs.update [] (Attrs.update [] a.gattr) } : ANet) = a0
    have a0n : a0.net.nodes = [] := by rw [← ha0]; rfl
    have a0e : a0.net.edges = [] := by rw [← ha0]; rfl
    have a0ea : a0.eattr = fun _ => [] := by rw [← ha0]; rfl
    have a0g : a0.gattr = a.gattr := by rw [← ha0]; exact g0
    obtain ⟨n1, n2, n3, n4, _, n6, _⟩ := nodeFold_spec a.net.nodes a.nattr a0 (by rw [a0n]; simpa using w1)
    generalize (a.net.nodes.foldl (fun a_1 n => aAddNode a_1 n (a.nattr n)) a0) = a1 at n1 n2 n3 n4 n6 ⊢
    rw [a0n, List.nil_append] at n1
    rw [a0e] at n2
    obtain ⟨m1, m2, m3, m4, _, m6, _⟩ := edgeFold_spec a.net.edges (·.1) sorted (fun _ => []) a1
      (by simp only [Net.edgeIds, n2, List.map_nil, List.nil_append]; exact w2)
      (fun p hp x hx => by rw [n1]; exact (w3 p hp).2 x ((hperm p hp).mem_iff.mp hx))
    generalize (a.net.edges.foldl (fun a_1 p => aAddEdge a_1 p.1 (sorted p) []) a1) = a2 at m1 m2 m3 m4 m6 ⊢
    rw [n2, List.nil_append] at m2
    have a2ids : a2.net.edgeIds = a.net.edgeIds := by
      unfold Net.edgeIds; rw [m2, List.map_map]; rfl
    obtain ⟨s1, s2, s3, _, s5, _⟩ := setEdgeAttrFold_spec a.net.edgeIds a.eattr a2 w2 (fun e he => by rw [a2ids]; exact he)
    generalize (a.net.edgeIds.foldl (fun a_1 e => aSetEdgeAttr a_1 e (a.eattr e)) a2) = a3 at s1 s2 s3 s5 ⊢
    refine ⟨by rw [s1, m1, n1], by rw [s1, a2ids], ?_, by rw [s3, m4, n4, a0g], ?_, ?_⟩
    · intro n e
      unfold Inc
      rw [s1, m2]
      simp only [List.mem_map]
      constructor
      · rintro ⟨q, ⟨p, hp, rfl⟩, h1, h2⟩
        exact ⟨p, hp, h1, (hperm p hp).mem_iff.mp (mem_dedup.mp h2)⟩
      · rintro ⟨p, hp, h1, h2⟩
        exact ⟨_, ⟨p, hp, rfl⟩, h1, mem_dedup.mpr ((hperm p hp).mem_iff.mpr h2)⟩
    · intro n hn
      rw [s2, m3, n6 n hn, attrs_update_nil (wn n hn)]
    · intro e he
      rw [s5 e he]
      have : a2.eattr e = [] := by
        unfold Net.edgeIds at he
        rw [List.mem_map] at he
        obtain ⟨p, hp, rfl⟩ := he
        rw [m6 p hp]; rfl
      rw [this, attrs_update_nil (we e he)]


/-- the hypotheses of `hypergraphDict_rt` hold for the concrete casts the driver runs (`strCast` = Python `str`,
    `uncastInt` = `nodetype=int`, `uncastStr` = `nodetype=None`), in all four combinations node IDs int | str ×
    edge IDs int | str: for a well-formed network whose node IDs all have type `tn` and whose edge IDs all have
    type `te`, `from_hypergraph_dict(to_hypergraph_dict(H), nodetype=tn, edgetype=te)` succeeds and keeps the node
    list, the edge IDs, the labelled incidences and all three levels of attributes.  (No sortability hypothesis:
    members of one type can be sorted.) -/
theorem hypergraphDict_rt_int_str (tn te : IdType) (a : ANet) (hw : AWF a)
    (hn : ∀ x ∈ a.net.nodes, tn.Holds x) (he : ∀ e ∈ a.net.edgeIds, te.Holds e) :
    ∃ d r, toHypergraphDict strCast a = .ok d ∧ fromHypergraphDict tn.uncast te.uncast d = .ok r ∧
      r.net.nodes = a.net.nodes ∧ r.net.edgeIds = a.net.edgeIds ∧
      (∀ n e, Inc r.net n e ↔ Inc a.net n e) ∧
      r.gattr = a.gattr ∧ (∀ n ∈ a.net.nodes, r.nattr n = a.nattr n) ∧ (∀ e ∈ a.net.edgeIds, r.eattr e = a.eattr e) :=
  hypergraphDict_rt strCast tn.uncast te.uncast a hw
    (fun x hx => uncast_strCast tn x (hn x hx)) (fun e h => uncast_strCast te e (he e h))
    (fun p hp => sortIds_isSome_of_holds tn p.2 (fun x hx => hn x ((hw.net.2.2 p hp).2 x hx)))

/-! ### HIF dict -/

/-- HIF (undirected part of `from_hif_dict`): the round trip keeps the node set (isolated nodes), the edge-ID set
    (empty edges), the labelled incidences and the node, edge and network attributes; records are written only
    for isolated / attributed nodes and empty / attributed edges, and that is enough -/
theorem hif_rt (a : ANet) (hw : AWF a) :
    (∀ n, n ∈ (fromHifU (toHif a)).net.nodes ↔ n ∈ a.net.nodes) ∧
    (∀ e, e ∈ (fromHifU (toHif a)).net.edgeIds ↔ e ∈ a.net.edgeIds) ∧
    (∀ n e, Inc (fromHifU (toHif a)).net n e ↔ Inc a.net n e) ∧
    (fromHifU (toHif a)).gattr = a.gattr ∧
    (∀ n ∈ a.net.nodes, (fromHifU (toHif a)).nattr n = a.nattr n) ∧
    (∀ e ∈ a.net.edgeIds, (fromHifU (toHif a)).eattr e = a.eattr e) ∧
    (fromHifU (toHif a)).net.WF ∧ (fromHifU (toHif a)).cls = .hg := by
  obtain ⟨⟨w1, w2, w3⟩, wg, wn, we⟩ := hw
  have hform : fromHifU (toHif a) =
      List.foldl (edgeRecStep a.eattr)
        (List.foldl (fun a_1 n => aAddNode a_1 n (a.nattr n))
          ({ cls := .hg, net := linkAll (toBipartiteEdgelist a.net) emptyNet, nattr := fun _ => [], eattr := fun _ => [],
             gattr := Attrs.update [] (Attrs.update [] a.gattr) } : ANet)
          (a.net.nodes.filter (fun n => isolated a.net n || a.nattr n ≠ [])))
        ((a.net.edges.filter (fun p => p.2 = [] || a.eattr p.1 ≠ [])).map (·.1)) := by
    unfold fromHifU toHif
    simp only [List.foldl_map, hifNodeRec_eq, hifEdgeRec_eq, recOf_getD]
    rw [aLinkFold_eq]
    rfl
  rw [hform]
  obtain ⟨a1, ha1⟩ : ∃ a1 : ANet, ({ cls := .hg, net := linkAll (toBipartiteEdgelist a.net) emptyNet, nattr := fun _ => [], eattr := fun _ => [], gattr := Attrs.update [] (Attrs.update [] a.gattr) } : ANet) = a1 := ⟨_, rfl⟩
  rw [ha1]
  have a1net : a1.net = linkAll (toBipartiteEdgelist a.net) emptyNet := by rw [← ha1]
  have a1n : a1.nattr = fun _ => [] := by rw [← ha1]
  have a1e : a1.eattr = fun _ => [] := by rw [← ha1]
  have a1g : a1.gattr = a.gattr := by rw [← ha1]; show Attrs.update [] (Attrs.update [] a.gattr) = _; rw [attrs_update_nil wg, attrs_update_nil wg]
  have a1c : a1.cls = .hg := by rw [← ha1]
  have a1inc : ∀ n e, Inc a1.net n e ↔ Inc a.net n e := by
    intro n e; rw [a1net]; exact (bipartiteEdgelist_rt a.net).1 n e
  have a1wf : a1.net.WF := by rw [a1net]; exact wf_linkAll _ wf_emptyNet
  have a1nodes : ∀ n, n ∈ a1.net.nodes ↔ n ∈ a.net.nodes ∧ ∃ e, Inc a.net n e := by
    intro n; rw [a1net]; exact (bipartiteEdgelist_labels a.net ⟨w1, w2, w3⟩).1 n
  have a1ids : ∀ e, e ∈ a1.net.edgeIds ↔ e ∈ a.net.edgeIds ∧ ∃ n, Inc a.net n e := by
    intro e; rw [a1net]; exact (bipartiteEdgelist_labels a.net ⟨w1, w2, w3⟩).2 e
  -- node records
  obtain ⟨n1, n2, n3, n4, n5, n6, n7, n8⟩ := nodeRecFold_spec
    (a.net.nodes.filter (fun n => isolated a.net n || a.nattr n ≠ [])) a.nattr a1
    (List.Nodup.sublist List.filter_sublist w1) (fun n _ => by rw [a1n])
  generalize (List.foldl (fun a_1 n => aAddNode a_1 n (a.nattr n)) a1
      (a.net.nodes.filter (fun n => isolated a.net n || a.nattr n ≠ []))) = a2 at n1 n2 n3 n4 n5 n6 n7 n8 ⊢
  -- edge records
  have hkeys : ((a.net.edges.filter (fun p => p.2 = [] || a.eattr p.1 ≠ [])).map (·.1)).Nodup :=
    List.Nodup.sublist (List.Sublist.map _ List.filter_sublist) w2
  obtain ⟨e1, e2, e3, e4, e5, e6, e7, e8, e9⟩ := edgeRecFold_spec
    ((a.net.edges.filter (fun p => p.2 = [] || a.eattr p.1 ≠ [])).map (·.1)) a.eattr a2 hkeys
    (fun e _ => by rw [n3, a1e])
  generalize (List.foldl (edgeRecStep a.eattr) a2
      ((a.net.edges.filter (fun p => p.2 = [] || a.eattr p.1 ≠ [])).map (·.1))) = a3 at e1 e2 e3 e4 e5 e6 e7 e8 e9 ⊢
  have a2wf : a2.net.WF := by
    obtain ⟨x1, x2, x3⟩ := a1wf
    refine ⟨n8 x1, by unfold Net.edgeIds at *; rw [n2]; exact x2, fun p hp => ?_⟩
    rw [n2] at hp
    exact ⟨(x3 p hp).1, fun m hm => (n1 m).mpr (Or.inl ((x3 p hp).2 m hm))⟩
  have hfiltE : ∀ e, e ∈ (a.net.edges.filter (fun p => p.2 = [] || a.eattr p.1 ≠ [])).map (·.1) ↔
      ∃ p ∈ a.net.edges, p.1 = e ∧ (p.2 = [] ∨ a.eattr p.1 ≠ []) := by
    intro e; simp only [List.mem_map, List.mem_filter, Bool.or_eq_true, decide_eq_true_eq, ne_eq, and_assoc]
    constructor
    · rintro ⟨p, hp, h, rfl⟩; exact ⟨p, hp, rfl, h⟩
    · rintro ⟨p, hp, rfl, h⟩; exact ⟨p, hp, h, rfl⟩
  refine ⟨?_, ?_, ?_, by rw [e5, n4, a1g], ?_, ?_, e9 a2wf, by rw [e6, n5, a1c]⟩
  · intro n
    rw [e2, n1 n, a1nodes n]
    simp only [List.mem_filter, Bool.or_eq_true, decide_eq_true_eq, isolated_iff]
    constructor
    · rintro (h | h); exact h.1; exact h.1
    · intro hn
      by_cases hi : ∃ e, Inc a.net n e
      · exact Or.inl ⟨hn, hi⟩
      · exact Or.inr ⟨hn, Or.inl hi⟩
  · intro e
    rw [e1 e]
    have : a2.net.edgeIds = a1.net.edgeIds := by unfold Net.edgeIds; rw [n2]
    rw [this, a1ids e, hfiltE e]
    constructor
    · rintro (h | ⟨p, hp, rfl, _⟩)
      · exact h.1
      · unfold Net.edgeIds; rw [List.mem_map]; exact ⟨p, hp, rfl⟩
    · intro he
      unfold Net.edgeIds at he; rw [List.mem_map] at he
      obtain ⟨p, hp, rfl⟩ := he
      by_cases hpe : p.2 = []
      · exact Or.inr ⟨p, hp, rfl, Or.inl hpe⟩
      · left
        refine ⟨by unfold Net.edgeIds; rw [List.mem_map]; exact ⟨p, hp, rfl⟩, ?_⟩
        cases hm : p.2 with
        | nil => exact absurd hm hpe
        | cons x t => exact ⟨x, p, hp, rfl, by rw [hm]; simp⟩
  · intro n e
    rw [e3 n e]
    have : Inc a2.net n e ↔ Inc a1.net n e := by unfold Inc; rw [n2]
    rw [this, a1inc]
  · intro n hn
    rw [e4]
    by_cases hf : n ∈ a.net.nodes.filter (fun n => isolated a.net n || a.nattr n ≠ [])
    · rw [n6 n hf, attrs_update_nil (wn n hn)]
    · rw [n7 n hf, a1n]
      simp only [List.mem_filter, Bool.or_eq_true, decide_eq_true_eq, not_and, not_or] at hf
      have := (hf hn).2
      simp only [ne_eq, Decidable.not_not] at this
      exact this.symm
  · intro e he
    by_cases hf : e ∈ (a.net.edges.filter (fun p => p.2 = [] || a.eattr p.1 ≠ [])).map (·.1)
    · rw [e7 e hf, attrs_update_nil (we e he)]
    · rw [e8 e hf, n3, a1e]
      rw [hfiltE] at hf
      unfold Net.edgeIds at he; rw [List.mem_map] at he
      obtain ⟨p, hp, rfl⟩ := he
      by_cases h : a.eattr p.1 = []
      · exact h.symm
      · exact absurd ⟨p, hp, rfl, Or.inr h⟩ hf


/-- HIF for a directed network (records carry `direction`): the round trip keeps the node set, the edge-ID set
    (empty edges), the incidences with their direction and all attributes -/
theorem hifDi_rt (a : ADiNet) (hw : ADWF a) :
    (∀ n, n ∈ (fromHifD (toHifDi a)).net.nodes ↔ n ∈ a.net.nodes) ∧
    (∀ e, e ∈ dEdgeIds (fromHifD (toHifDi a)).net ↔ e ∈ dEdgeIds a.net) ∧
    (∀ n e d, DInc (fromHifD (toHifDi a)).net n e d ↔ DInc a.net n e d) ∧
    (fromHifD (toHifDi a)).gattr = a.gattr ∧
    (∀ n ∈ a.net.nodes, (fromHifD (toHifDi a)).nattr n = a.nattr n) ∧
    (∀ e ∈ dEdgeIds a.net, (fromHifD (toHifDi a)).eattr e = a.eattr e) ∧
    DWF (fromHifD (toHifDi a)).net := by
  obtain ⟨⟨w1, w2, w3⟩, wg, wn, we⟩ := hw
  have hform : fromHifD (toHifDi a) =
      List.foldl (dEdgeRecStep a.eattr)
        (List.foldl (fun a_1 n => dAAddNode a_1 n (a.nattr n))
          ({ net := dLinkAll (toBipartiteEdgelistDi a.net) emptyDiNet, nattr := fun _ => [], eattr := fun _ => [],
             gattr := Attrs.update [] (Attrs.update [] a.gattr) } : ADiNet)
          (a.net.nodes.filter (fun n => dIsolated a.net n || a.nattr n ≠ [])))
        ((a.net.edges.filter (fun p => (p.2.1 = [] && p.2.2 = []) || a.eattr p.1 ≠ [])).map (·.1)) := by
    unfold fromHifD toHifDi
    simp only [List.foldl_map, dHifNodeRec_eq, dHifEdgeRec_eq, recOf_getD, Option.getD_some]
    rw [dLinkFold_eq]
    rfl
  rw [hform]
  obtain ⟨a1, ha1⟩ : ∃ a1 : ADiNet, ({ net := dLinkAll (toBipartiteEdgelistDi a.net) emptyDiNet, nattr := fun _ => [], eattr := fun _ => [], gattr := Attrs.update [] (Attrs.update [] a.gattr) } : ADiNet) = a1 := ⟨_, rfl⟩
  rw [ha1]
  have a1net : a1.net = dLinkAll (toBipartiteEdgelistDi a.net) emptyDiNet := by rw [← ha1]
  have a1n : a1.nattr = fun _ => [] := by rw [← ha1]
  have a1e : a1.eattr = fun _ => [] := by rw [← ha1]
  have a1g : a1.gattr = a.gattr := by rw [← ha1]; show Attrs.update [] (Attrs.update [] a.gattr) = _; rw [attrs_update_nil wg, attrs_update_nil wg]
  have a1inc : ∀ n e d, DInc a1.net n e d ↔ DInc a.net n e d := by
    intro n e d; rw [a1net]; exact (bipartiteEdgelistDi_rt a.net).1 n e d
  have a1wf : DWF a1.net := by rw [a1net]; exact dwf_dLinkAll _ dwf_emptyDiNet
  have a1nodes : ∀ n, n ∈ a1.net.nodes ↔ n ∈ a.net.nodes ∧ ∃ e d, DInc a.net n e d := by
    intro n; rw [a1net]; exact (bipartiteEdgelistDi_labels a.net ⟨w1, w2, w3⟩).1 n
  have a1ids : ∀ e, e ∈ dEdgeIds a1.net ↔ e ∈ dEdgeIds a.net ∧ ∃ n d, DInc a.net n e d := by
    intro e; rw [a1net]; exact (bipartiteEdgelistDi_labels a.net ⟨w1, w2, w3⟩).2 e
  obtain ⟨n1, n2, n3, n4, n6, n7, n8⟩ := dNodeRecFold_spec
    (a.net.nodes.filter (fun n => dIsolated a.net n || a.nattr n ≠ [])) a.nattr a1
    (List.Nodup.sublist List.filter_sublist w1) (fun n _ => by rw [a1n])
  generalize (List.foldl (fun a_1 n => dAAddNode a_1 n (a.nattr n)) a1
      (a.net.nodes.filter (fun n => dIsolated a.net n || a.nattr n ≠ []))) = a2 at n1 n2 n3 n4 n6 n7 n8 ⊢
  have hkeys : ((a.net.edges.filter (fun p => (p.2.1 = [] && p.2.2 = []) || a.eattr p.1 ≠ [])).map (·.1)).Nodup :=
    List.Nodup.sublist (List.Sublist.map _ List.filter_sublist) w2
  obtain ⟨e1, e2, e3, e4, e5, e7, e8, e9⟩ := dEdgeRecFold_spec
    ((a.net.edges.filter (fun p => (p.2.1 = [] && p.2.2 = []) || a.eattr p.1 ≠ [])).map (·.1)) a.eattr a2 hkeys
    (fun e _ => by rw [n3, a1e])
  generalize (List.foldl (dEdgeRecStep a.eattr) a2
      ((a.net.edges.filter (fun p => (p.2.1 = [] && p.2.2 = []) || a.eattr p.1 ≠ [])).map (·.1))) = a3 at e1 e2 e3 e4 e5 e7 e8 e9 ⊢
  have a2wf : DWF a2.net := by
    obtain ⟨x1, x2, x3⟩ := a1wf
    refine ⟨n8 x1, by rw [n2]; exact x2, fun p hp => ?_⟩
    rw [n2] at hp
    obtain ⟨y1, y2, y3, y4⟩ := x3 p hp
    exact ⟨y1, y2, fun m hm => (n1 m).mpr (Or.inl (y3 m hm)), fun m hm => (n1 m).mpr (Or.inl (y4 m hm))⟩
  have hfiltE : ∀ e, e ∈ (a.net.edges.filter (fun p => (p.2.1 = [] && p.2.2 = []) || a.eattr p.1 ≠ [])).map (·.1) ↔
      ∃ p ∈ a.net.edges, p.1 = e ∧ ((p.2.1 = [] ∧ p.2.2 = []) ∨ a.eattr p.1 ≠ []) := by
    intro e; simp only [List.mem_map, List.mem_filter, Bool.or_eq_true, Bool.and_eq_true, decide_eq_true_eq, ne_eq, and_assoc]
    constructor
    · rintro ⟨p, hp, h, rfl⟩; exact ⟨p, hp, rfl, h⟩
    · rintro ⟨p, hp, rfl, h⟩; exact ⟨p, hp, h, rfl⟩
  refine ⟨?_, ?_, ?_, by rw [e5, n4, a1g], ?_, ?_, e9 a2wf⟩
  · intro n
    rw [e2, n1 n, a1nodes n]
    simp only [List.mem_filter, Bool.or_eq_true, decide_eq_true_eq, dIsolated_iff]
    constructor
    · rintro (h | h); exact h.1; exact h.1
    · intro hn
      by_cases hi : ∃ e d, DInc a.net n e d
      · exact Or.inl ⟨hn, hi⟩
      · exact Or.inr ⟨hn, Or.inl hi⟩
  · intro e
    rw [e1 e]
    have : dEdgeIds a2.net = dEdgeIds a1.net := by unfold dEdgeIds; rw [n2]
    rw [this, a1ids e, hfiltE e]
    constructor
    · rintro (h | ⟨p, hp, rfl, _⟩)
      · exact h.1
      · unfold dEdgeIds; rw [List.mem_map]; exact ⟨p, hp, rfl⟩
    · intro he
      unfold dEdgeIds at he; rw [List.mem_map] at he
      obtain ⟨p, hp, rfl⟩ := he
      by_cases hpe : p.2.1 = [] ∧ p.2.2 = []
      · exact Or.inr ⟨p, hp, rfl, Or.inl hpe⟩
      · left
        refine ⟨by unfold dEdgeIds; rw [List.mem_map]; exact ⟨p, hp, rfl⟩, ?_⟩
        cases hm : p.2.1 with
        | cons x t => exact ⟨x, .tail, (dInc_iff _ _ _ _).mpr ⟨p, hp, rfl, by simp [side, hm]⟩⟩
        | nil =>
          cases hm2 : p.2.2 with
          | nil => exact absurd ⟨hm, hm2⟩ hpe
          | cons x t => exact ⟨x, .head, (dInc_iff _ _ _ _).mpr ⟨p, hp, rfl, by simp [side, hm2]⟩⟩
  · intro n e d
    rw [e3 n e d]
    have : DInc a2.net n e d ↔ DInc a1.net n e d := by unfold DInc; rw [n2]
    rw [this, a1inc]
  · intro n hn
    rw [e4]
    by_cases hf : n ∈ a.net.nodes.filter (fun n => dIsolated a.net n || a.nattr n ≠ [])
    · rw [n6 n hf, attrs_update_nil (wn n hn)]
    · rw [n7 n hf, a1n]
      simp only [List.mem_filter, Bool.or_eq_true, decide_eq_true_eq, not_and, not_or] at hf
      have := (hf hn).2
      simp only [ne_eq, Decidable.not_not] at this
      exact this.symm
  · intro e he
    by_cases hf : e ∈ (a.net.edges.filter (fun p => (p.2.1 = [] && p.2.2 = []) || a.eattr p.1 ≠ [])).map (·.1)
    · rw [e7 e hf, attrs_update_nil (we e he)]
    · rw [e8 e hf, n3, a1e]
      rw [hfiltE] at hf
      unfold dEdgeIds at he; rw [List.mem_map] at he
      obtain ⟨p, hp, rfl⟩ := he
      by_cases h : a.eattr p.1 = []
      · exact h.symm
      · exact absurd ⟨p, hp, rfl, Or.inr h⟩ hf

/-- HIF keeps the network class: a Hypergraph comes back as a Hypergraph, a SimplicialComplex as a
    SimplicialComplex (through `SimplicialComplex(H)`); the directed case is `hif_class_directed` (definitional,
    C10/Lemmas.lean) -/
theorem hif_class (a : ANet) (ha : a.cls ≠ .dhg) : ∃ r, fromHif (toHif a) = .inl r ∧ r.cls = a.cls := by
  cases hc : a.cls with
  | dhg => exact absurd hc ha
  | hg =>
    refine ⟨fromHifU (toHif a), ?_, ?_⟩
    · unfold fromHif; simp [toHif, hc]
    · exact cls_fromHifU _
  | sc =>
    refine ⟨toSimplicialComplex (fromHifU (toHif a)), ?_, cls_toSimplicialComplex _⟩
    unfold fromHif; simp [toHif, hc]

/-! ### class-to-class constructors -/

/-- `Hypergraph(N)` for a Hypergraph / SimplicialComplex `N`: same node list, same `(ID, members)` list, same
    node, edge and network attributes -/
theorem ofClass_members_hg (a : ANet) (hw : AWF a) :
    ∃ r, ofClass (.inl a) .hg = .ok (.inl r) ∧ r.cls = .hg ∧ r.net = a.net ∧ r.gattr = a.gattr ∧
      (∀ n ∈ a.net.nodes, r.nattr n = a.nattr n) ∧ (∀ e ∈ a.net.edgeIds, r.eattr e = a.eattr e) := by
  obtain ⟨h1, h2, h3, h4, h5⟩ := toHypergraph_spec a hw
  exact ⟨toHypergraph a, rfl, h2, h1, h3, h4, h5⟩

/-- `Hypergraph(DH)` for a DiHypergraph: same node list, every edge keeps its ID and its member set is
    tail ∪ head; all attributes kept -/
theorem ofClass_members_hg_directed (a : ADiNet) (hw : ADWF a) :
    ∃ r, ofClass (.inr a) .hg = .ok (.inl r) ∧ r.cls = .hg ∧ r.net.nodes = a.net.nodes ∧
      r.net.edges = a.net.edges.map (fun p => (p.1, union p.2.1 p.2.2)) ∧
      (∀ (t hd : List PyId) (x : PyId), x ∈ union t hd ↔ x ∈ t ∨ x ∈ hd) ∧
      r.gattr = a.gattr ∧ (∀ n ∈ a.net.nodes, r.nattr n = a.nattr n) ∧ (∀ e ∈ dEdgeIds a.net, r.eattr e = a.eattr e) := by
  obtain ⟨h1, h2, h3, h4, h5⟩ := toHypergraph_spec (a.flat .hg) (awf_flat hw .hg)
  refine ⟨toHypergraph (a.flat .hg), rfl, h2, by rw [h1]; rfl, by rw [h1]; rfl, mem_union, h3, h4, ?_⟩
  intro e he
  apply h5
  simpa [ADiNet.flat, dFlat, Net.edgeIds, dEdgeIds, List.map_map] using he

/-- `DiHypergraph(DH)`: same node list, same `(ID, tail, head)` list, all attributes -/
theorem ofClass_members_dhg (a : ADiNet) (hw : ADWF a) :
    ∃ r, ofClass (.inr a) .dhg = .ok (.inr r) ∧ r.net.nodes = a.net.nodes ∧ r.net.edges = a.net.edges ∧
      r.gattr = a.gattr ∧ (∀ n ∈ a.net.nodes, r.nattr n = a.nattr n) ∧ (∀ e ∈ dEdgeIds a.net, r.eattr e = a.eattr e) :=
  ⟨toDiHypergraph a, rfl, toDiHypergraph_spec a hw⟩

/-- `SimplicialComplex(N)` for a Hypergraph / SimplicialComplex `N` (network attributes copied — proposed fix):
    same node list, node and network attributes; every non-empty source edge's member set is a simplex; the
    result is closed under faces (≥ 2 nodes); every simplex is a source edge with its ID, members and attributes,
    or an attribute-less proper face of one -/
theorem ofClass_members_sc (a : ANet) (hw : AWF a) :
    ∃ r, ofClass (.inl a) .sc = .ok (.inl r) ∧ r.cls = .sc ∧ r.net.nodes = a.net.nodes ∧ r.gattr = a.gattr ∧
      (∀ n ∈ a.net.nodes, r.nattr n = a.nattr n) ∧
      (∀ p ∈ a.net.edges, p.2 ≠ [] → hasSimplex r.net.edges p.2 = true) ∧
      (∀ q ∈ r.net.edges, ∀ f : List PyId, f.Sublist q.2 → 2 ≤ f.length → hasSimplex r.net.edges f = true) ∧
      (∀ q ∈ r.net.edges, (q ∈ a.net.edges ∧ r.eattr q.1 = a.eattr q.1) ∨
        (r.eattr q.1 = [] ∧ ∃ p ∈ a.net.edges, q.2 ∈ subfaces p.2)) :=
  ⟨toSimplicialComplex a, rfl, toSimplicialComplex_spec a hw⟩

/-- `SimplicialComplex(DH)` for a DiHypergraph (accepted — proposed fix): as above with every source edge's
    member set tail ∪ head -/
theorem ofClass_members_sc_directed (a : ADiNet) (hw : ADWF a) :
    ∃ r, ofClass (.inr a) .sc = .ok (.inl r) ∧ r.cls = .sc ∧ r.net.nodes = a.net.nodes ∧ r.gattr = a.gattr ∧
      (∀ n ∈ a.net.nodes, r.nattr n = a.nattr n) ∧
      (∀ p ∈ a.net.edges, union p.2.1 p.2.2 ≠ [] → hasSimplex r.net.edges (union p.2.1 p.2.2) = true) ∧
      (∀ q ∈ r.net.edges, ∀ f : List PyId, f.Sublist q.2 → 2 ≤ f.length → hasSimplex r.net.edges f = true) ∧
      (∀ q ∈ r.net.edges, (∃ p ∈ a.net.edges, q = (p.1, union p.2.1 p.2.2) ∧ r.eattr q.1 = a.eattr p.1) ∨
        (r.eattr q.1 = [] ∧ ∃ p ∈ a.net.edges, q.2 ∈ subfaces (union p.2.1 p.2.2))) := by
  obtain ⟨h1, h2, h3, h4, h5, h6, h7⟩ := toSimplicialComplex_spec (a.flat .hg) (awf_flat hw .hg)
  refine ⟨toSimplicialComplex (a.flat .hg), rfl, h1, h2, h3, h4, ?_, h6, ?_⟩
  · intro p hp hne
    exact h5 (p.1, union p.2.1 p.2.2) (by simp only [ADiNet.flat, dFlat, List.mem_map]; exact ⟨p, hp, rfl⟩) hne
  · intro q hq
    rcases h7 q hq with ⟨h, ha⟩ | ⟨ha, p, hp, hf⟩
    · left
      simp only [ADiNet.flat, dFlat, List.mem_map] at h
      obtain ⟨p, hp, rfl⟩ := h
      exact ⟨p, hp, rfl, ha⟩
    · right
      simp only [ADiNet.flat, dFlat, List.mem_map] at hp
      obtain ⟨p', hp', rfl⟩ := hp
      exact ⟨ha, p', hp', hf⟩

/-- HIF for a simplicial complex (`network-type: asc`; finishes with `SimplicialComplex(H)`, network attributes
    copied — proposed fix).  The source is a simplicial complex as xgi stores one (`SCWF`: no empty simplex, no two
    simplices with the same member set).  The class, the node set, the node and network attributes are kept; every
    source simplex is a simplex of the result; the result is closed; every simplex of the result lies inside a
    source simplex; **every source simplex keeps its ID, its member set and its attributes**; and when the source
    is closed under faces (`SCClosed`, which `add_simplex` maintains) nothing else is created: the edge-ID set and
    the labelled incidences of the result are exactly the source's -/
theorem hif_rt_sc (a : ANet) (hw : AWF a) (hc : a.cls = .sc) (hsc : SCWF a.net) :
    ∃ r, fromHif (toHif a) = .inl r ∧ r.cls = .sc ∧ (∀ n, n ∈ r.net.nodes ↔ n ∈ a.net.nodes) ∧ r.gattr = a.gattr ∧
      (∀ n ∈ a.net.nodes, r.nattr n = a.nattr n) ∧
      (∀ p ∈ a.net.edges, p.2 ≠ [] → hasSimplex r.net.edges p.2 = true) ∧
      (∀ q ∈ r.net.edges, ∀ f : List PyId, f.Sublist q.2 → 2 ≤ f.length → hasSimplex r.net.edges f = true) ∧
      (∀ q ∈ r.net.edges, ∃ p ∈ a.net.edges, ∀ x ∈ q.2, x ∈ p.2) ∧
      (∀ p ∈ a.net.edges, ∃ q ∈ r.net.edges, q.1 = p.1 ∧ ∀ x, x ∈ q.2 ↔ x ∈ p.2) ∧
      (∀ e ∈ a.net.edgeIds, r.eattr e = a.eattr e) ∧
      (SCClosed a.net → (∀ e, e ∈ r.net.edgeIds ↔ e ∈ a.net.edgeIds) ∧ (∀ n e, Inc r.net n e ↔ Inc a.net n e)) := by
  obtain ⟨r1, r2, r3, r4, r5, r6, r7, _⟩ := hif_rt a hw
  have hw' : AWF (fromHifU (toHif a)) := by
    refine ⟨r7, by rw [r4]; exact hw.g, fun n hn => ?_, fun e he => ?_⟩
    · rw [r5 n ((r1 n).mp hn)]; exact hw.n n ((r1 n).mp hn)
    · rw [r6 e ((r2 e).mp he)]; exact hw.e e ((r2 e).mp he)
  obtain ⟨t1, t2, t3, t4, t5, t6, t7⟩ := toSimplicialComplex_spec _ hw'
  -- an edge of the intermediate hypergraph has the members of the source edge with the same ID
  have hsame : ∀ p' ∈ (fromHifU (toHif a)).net.edges, ∃ p ∈ a.net.edges, p.1 = p'.1 ∧ ∀ x, x ∈ p'.2 ↔ x ∈ p.2 := by
    intro p' hp'
    have : p'.1 ∈ a.net.edgeIds := (r2 _).mp (by unfold Net.edgeIds; rw [List.mem_map]; exact ⟨p', hp', rfl⟩)
    unfold Net.edgeIds at this; rw [List.mem_map] at this
    obtain ⟨p, hp, hpe⟩ := this
    refine ⟨p, hp, hpe, fun x => ?_⟩
    rw [← inc_iff_of_wf r7 hp', ← inc_iff_of_wf hw.net hp, hpe]
    exact r3 x p'.1
  -- and conversely
  have hsame' : ∀ p ∈ a.net.edges, ∃ p' ∈ (fromHifU (toHif a)).net.edges, p'.1 = p.1 ∧ ∀ x, x ∈ p'.2 ↔ x ∈ p.2 := by
    intro p hp
    have : p.1 ∈ (fromHifU (toHif a)).net.edgeIds := (r2 _).mpr (by unfold Net.edgeIds; rw [List.mem_map]; exact ⟨p, hp, rfl⟩)
    unfold Net.edgeIds at this; rw [List.mem_map] at this
    obtain ⟨p', hp', hpe⟩ := this
    refine ⟨p', hp', hpe, fun x => ?_⟩
    rw [← inc_iff_of_wf r7 hp', ← inc_iff_of_wf hw.net hp, hpe]
    exact r3 x p.1
  -- the intermediate hypergraph is a stored simplicial complex too
  have hsc' : SCWF (fromHifU (toHif a)).net := by
    constructor
    · intro p' hp' h0
      obtain ⟨p, hp, _, hm⟩ := hsame p' hp'
      cases hms : p.2 with
      | nil => exact hsc.ne p hp hms
      | cons x t =>
        have : x ∈ p'.2 := (hm x).mpr (by rw [hms]; simp)
        rw [h0] at this; simp at this
    · intro p' hp' q' hq' hs
      obtain ⟨p, hp, hpe, hm⟩ := hsame p' hp'
      obtain ⟨q, hq, hqe, hmq⟩ := hsame q' hq'
      rw [sameSet_iff] at hs
      have : p = q := hsc.distinct p hp q hq ((sameSet_iff _ _).mpr (fun z => by rw [← hm z, hs z, hmq z]))
      exact eq_of_key_eq r7.2.1 hp' hq' (by rw [← hpe, ← hqe, this])
  obtain ⟨⟨extra, k1⟩, k2, k3⟩ := toSimplicialComplex_kept _ hw' hsc'
  -- closure is transported (faces are sublists in the order of the stored member list, which HIF may permute)
  have hcl' : SCClosed a.net → SCClosed (fromHifU (toHif a)).net := by
    intro hcl p' hp' f hf
    obtain ⟨p, hp, _, hm⟩ := hsame p' hp'
    rw [mem_subfaces] at hf
    obtain ⟨hsub, hlen2, hlt⟩ := hf
    have hp'd : p'.2.Nodup := (r7.2.2 p' hp').1
    have hpd : p.2.Nodup := (hw.net.2.2 p hp).1
    have hfd : f.Nodup := List.Nodup.sublist hsub hp'd
    have hf'd : (p.2.filter (fun x => decide (x ∈ f))).Nodup := List.Nodup.sublist List.filter_sublist hpd
    have hmem : ∀ x, x ∈ p.2.filter (fun x => decide (x ∈ f)) ↔ x ∈ f := by
      intro x
      simp only [List.mem_filter, decide_eq_true_eq]
      exact ⟨fun h => h.2, fun h => ⟨(hm x).mp (hsub.subset h), h⟩⟩
    have hl1 : (p.2.filter (fun x => decide (x ∈ f))).length = f.length :=
      ((List.perm_ext_iff_of_nodup hf'd hfd).mpr hmem).length_eq
    have hl2 : p'.2.length = p.2.length := ((List.perm_ext_iff_of_nodup hp'd hpd).mpr hm).length_eq
    have := hcl p hp (p.2.filter (fun x => decide (x ∈ f)))
      ((mem_subfaces _ _).mpr ⟨List.filter_sublist, by rw [hl1]; exact hlen2, by rw [hl1, ← hl2]; exact hlt⟩)
    rw [hasSimplex_iff] at this ⊢
    obtain ⟨q, hq, hqm⟩ := this
    obtain ⟨q', hq', _, hmq⟩ := hsame' q hq
    exact ⟨q', hq', fun z => by rw [hmq z, hqm z, hmem z]⟩
  refine ⟨toSimplicialComplex (fromHifU (toHif a)), by unfold fromHif; simp [toHif, hc], t1, ?_, by rw [t3, r4], ?_, ?_, t6, ?_,
    ?_, ?_, ?_⟩
  · intro n; rw [t2]; exact r1 n
  · intro n hn; rw [t4 n ((r1 n).mpr hn)]; exact r5 n hn
  · intro p hp hne
    obtain ⟨p', hp', _, hmem⟩ := hsame' p hp
    have hne' : p'.2 ≠ [] := hsc'.ne p' hp'
    exact hasSimplex_congr _ hmem (t5 p' hp' hne')
  · intro q hq
    rcases t7 q hq with ⟨h, _⟩ | ⟨_, p', hp', hf⟩
    · obtain ⟨p, hp, _, hm⟩ := hsame q h
      exact ⟨p, hp, fun x hx => (hm x).mp hx⟩
    · obtain ⟨p, hp, _, hm⟩ := hsame p' hp'
      rw [mem_subfaces] at hf
      exact ⟨p, hp, fun x hx => (hm x).mp (hf.1.subset hx)⟩
  · intro p hp
    obtain ⟨p', hp', hpe, hm⟩ := hsame' p hp
    exact ⟨p', by rw [k1]; exact List.mem_append_left _ hp', hpe, hm⟩
  · intro e he
    rw [k2 e ((r2 e).mpr he)]; exact r6 e he
  · intro hcl
    have hk := k3 (hcl' hcl)
    refine ⟨fun e => ?_, fun n e => ?_⟩
    · unfold Net.edgeIds; rw [hk]; exact r2 e
    · unfold Inc; rw [hk]; exact r3 n e

/-! ### two-column dataframe read back into a simplicial complex -/

/-- two-column dataframe read back into a simplicial complex (`from_bipartite_pandas_dataframe(df,
    create_using=SimplicialComplex)`, `SimplicialComplex(df)`; with the proposed fix that hands the edge labels of the
    dataframe to `add_simplices_from`).  The source is a simplicial complex as xgi stores one (`SCWF`).  The result is
    a simplicial complex; **every source simplex keeps its ID and its member set**; the result is closed under faces;
    every simplex of the result lies inside a source simplex; and when the source is closed under faces (`SCClosed`,
    which `add_simplex` maintains) nothing else is created: the edge-ID set and the labelled incidences of the
    result are exactly the source's -/
theorem dataframe_rt_sc (h : Net) (hw : h.WF) (hsc : SCWF h) :
    (fromDataframeSC (toDataframe h)).cls = .sc ∧
    (∀ p ∈ h.edges, ∃ q ∈ (fromDataframeSC (toDataframe h)).net.edges, q.1 = p.1 ∧ ∀ x, x ∈ q.2 ↔ x ∈ p.2) ∧
    (∀ q ∈ (fromDataframeSC (toDataframe h)).net.edges, ∀ f : List PyId, f.Sublist q.2 → 2 ≤ f.length →
      hasSimplex (fromDataframeSC (toDataframe h)).net.edges f = true) ∧
    (∀ q ∈ (fromDataframeSC (toDataframe h)).net.edges, ∃ p ∈ h.edges, ∀ x ∈ q.2, x ∈ p.2) ∧
    (SCClosed h → (∀ e, e ∈ (fromDataframeSC (toDataframe h)).net.edgeIds ↔ e ∈ h.edgeIds) ∧
      (∀ n e, Inc (fromDataframeSC (toDataframe h)).net n e ↔ Inc h n e)) := by
  obtain ⟨d1, d2⟩ := dataframe_rt h hw
  have hwb := awf_bare _ d2
  obtain ⟨t1, _, _, _, _, t6, _⟩ := toSimplicialComplex_spec _ hwb
  obtain ⟨s1, s2, s3⟩ := sc_transport h _ hw hwb hsc (edgeIds_dataframe_rt h hw hsc.ne) d1
  exact ⟨t1, s1, t6, s2, s3⟩

/-! ### non-vacuity: concrete networks satisfy the hypotheses and the functions evaluate as expected -/

/-- nodes 3, 1, 2, 9 (9 isolated); edges x = {1, 2}, 0 = {3}, 5 = {} (empty), 2 = {1, 2} (multi-edge) -/
def exNet : Net :=
  { nodes := [.int 3, .int 1, .int 2, .int 9],
    edges := [(.str "x", [.int 1, .int 2]), (.int 0, [.int 3]), (.int 5, []), (.int 2, [.int 1, .int 2])] }

example : exNet.WF := by unfold Net.WF exNet; decide

example : (fromBipartiteEdgelist (toBipartiteEdgelist exNet)).edges =
    [(.str "x", [.int 1, .int 2]), (.int 0, [.int 3]), (.int 2, [.int 1, .int 2])] := by decide
example : (fromHyperedgeList (toHyperedgeList exNet)).edges =
    [(.int 0, [.int 1, .int 2]), (.int 1, [.int 3]), (.int 2, []), (.int 3, [.int 1, .int 2])] := by decide
example : (toIncidence exNet).M = [[0, 1, 0, 0], [1, 0, 0, 1], [1, 0, 0, 1], [0, 0, 0, 0]] := by decide
example : (fromIncidence (toIncidence exNet).M none none).toOption.map (·.edges) =
    some [(.int 1, [.int 0]), (.int 0, [.int 1, .int 2]), (.int 3, [.int 1, .int 2])] := by decide
example : (fromDataframe (toDataframe exNet)).nodes = [.int 3, .int 1, .int 2] := by decide

/-- the F8a witness: edge-vertices inserted first, so networkx hands every pair over as (edge, node) -/
def exGraph : BGraph :=
  { directed := false,
    verts := [(.str "a", some 1), (.str "b", some 1), (.int 1, some 0), (.int 2, some 0), (.int 3, some 0)],
    edges := [(.str "a", .int 1), (.str "a", .int 2), (.str "b", .int 2), (.str "b", .int 3)] }
/-- the same graph with node-vertices first and pairs (node, edge) -/
def exGraph' : BGraph :=
  { directed := false,
    verts := [(.int 1, some 0), (.int 2, some 0), (.int 3, some 0), (.str "a", some 1), (.str "b", some 1)],
    edges := [(.int 1, .str "a"), (.int 2, .str "a"), (.int 2, .str "b"), (.int 3, .str "b")] }

example : GWF exGraph := by unfold GWF exGraph; decide
example : exGraph.verts.Perm exGraph'.verts := by decide
example : (fromBipartiteGraph exGraph).toOption.map (fun r => (r.nodes, r.edges)) =
    some ([.int 1, .int 2, .int 3], [(.str "a", [.int 1, .int 2]), (.str "b", [.int 2, .int 3])]) := by decide
example : (fromBipartiteGraph exGraph').toOption.map (fun r => (r.nodes, r.edges)) =
    (fromBipartiteGraph exGraph).toOption.map (fun r => (r.nodes, r.edges)) := by decide
/-- a node–node edge is refused -/
example : (fromBipartiteGraph { exGraph with edges := [(.int 1, .int 2)] }).toBool = false := by decide

/-- an attributed network: node 1 and edge x carry attributes, the network has a name -/
def exANet : ANet :=
  { cls := .hg, net := exNet,
    nattr := fun n => if n = .int 1 then [("c", .sc (.str "r"))] else [],
    eattr := fun e => if e = .str "x" then [("w", .sc (.int 2)), ("k", .sc .none)] else [],
    gattr := [("name", .sc (.str "foo"))] }

example : AWF exANet :=
  ⟨by unfold Net.WF exANet exNet; decide, by unfold AttrsWF exANet; decide,
   by unfold AttrsWF exANet exNet; decide, by unfold AttrsWF exANet exNet Net.edgeIds; decide⟩

example : (toHif exANet).nodes = [(.int 1, some [("c", .sc (.str "r"))]), (.int 9, none)] := by decide
example : (toHif exANet).edges = [(.str "x", some [("w", .sc (.int 2)), ("k", .sc .none)]), (.int 5, none)] := by decide
example : (fromHifU (toHif exANet)).net.nodes = [.int 1, .int 2, .int 3, .int 9] := by decide
example : (fromHifU (toHif exANet)).net.edges =
    [(.str "x", [.int 1, .int 2]), (.int 0, [.int 3]), (.int 2, [.int 1, .int 2]), (.int 5, [])] := by decide
example : (fromHifU (toHif exANet)).gattr = [("name", .sc (.str "foo"))] := by decide

/-- an injective string cast on the IDs of `exNet` with its inverse (stand-ins for `str` / `int`) -/
def exCast : PyId → String
  | .atom (.int 0) => "0" | .atom (.int 1) => "1" | .atom (.int 2) => "2" | .atom (.int 3) => "3"
  | .atom (.int 5) => "5" | .atom (.int 9) => "9" | .atom (.str s) => s | _ => "?"
def exUncastInt : String → Except Err PyId
  | "0" => .ok (.int 0) | "1" => .ok (.int 1) | "2" => .ok (.int 2) | "3" => .ok (.int 3)
  | "5" => .ok (.int 5) | "9" => .ok (.int 9) | _ => .error .type
def exUncastAny : String → Except Err PyId
  | "0" => .ok (.int 0) | "2" => .ok (.int 2) | "5" => .ok (.int 5) | s => .ok (.str s)

example : ∀ x ∈ exANet.net.nodes, exUncastInt (exCast x) = .ok x := by
  unfold exANet exNet; intro x hx
  simp only [List.mem_cons, List.not_mem_nil, or_false] at hx
  rcases hx with rfl | rfl | rfl | rfl <;> rfl
example : ∀ e ∈ exANet.net.edgeIds, exUncastAny (exCast e) = .ok e := by
  unfold exANet exNet Net.edgeIds; intro x hx
  simp only [List.map_cons, List.map_nil, List.mem_cons, List.not_mem_nil, or_false] at hx
  rcases hx with rfl | rfl | rfl | rfl <;> rfl
example : ∀ p ∈ exANet.net.edges, (sortIds p.2).isSome = true := by unfold exANet exNet; decide
example : (sortIds [.int 2, .int 1]).isSome = true := by decide
example : sortIds [.int 2, .str "a"] = none := by decide
/-- all hypotheses of `hypergraphDict_rt` hold for `exANet` -/
example : ∃ d r, toHypergraphDict exCast exANet = .ok d ∧ fromHypergraphDict exUncastInt exUncastAny d = .ok r ∧
    r.net.nodes = exANet.net.nodes ∧ r.gattr = exANet.gattr := by
  obtain ⟨d, r, h1, h2, h3, _, _, h6, _⟩ := hypergraphDict_rt exCast exUncastInt exUncastAny exANet
    ⟨by unfold Net.WF exANet exNet; decide, by unfold AttrsWF exANet; decide,
     by unfold AttrsWF exANet exNet; decide, by unfold AttrsWF exANet exNet Net.edgeIds; decide⟩
    (by unfold exANet exNet; intro x hx
        simp only [List.mem_cons, List.not_mem_nil, or_false] at hx
        rcases hx with rfl | rfl | rfl | rfl <;> rfl)
    (by unfold exANet exNet Net.edgeIds; intro x hx
        simp only [List.map_cons, List.map_nil, List.mem_cons, List.not_mem_nil, or_false] at hx
        rcases hx with rfl | rfl | rfl | rfl <;> rfl)
    (by unfold exANet exNet; decide)
  exact ⟨d, r, h1, h2, h3, h6⟩
/-- colliding casts: nodes 1 and "1" -/
example : (toHypergraphDict exCast { exANet with net := { nodes := [.int 1, .str "1"], edges := [] } }).toBool = false := by
  decide

/-- attribute keys spelled like parameters of `add_node` / `add_edge`: the isolated node 9 carries the key `node`,
    the empty edge `x` the keys `idx` and `members` (on the unrepaired readers each of them was a `TypeError`) -/
def exKeys : ANet :=
  { cls := .hg, net := { nodes := [.int 1, .int 2, .int 9], edges := [(.int 0, [.int 1, .int 2]), (.str "x", [])] },
    nattr := fun n => if n = .int 9 then [("node", .sc (.int 3))] else if n = .int 1 then [("node", .sc (.str "r")), ("attr", .sc (.int 0))] else [],
    eattr := fun e => if e = .str "x" then [("idx", .sc (.int 1)), ("members", .sc (.str "r"))] else [],
    gattr := [("name", .sc (.str "foo"))] }

example : AWF exKeys :=
  ⟨by unfold Net.WF exKeys; decide, by unfold AttrsWF exKeys; decide,
   by unfold AttrsWF exKeys; decide, by unfold AttrsWF exKeys Net.edgeIds; decide⟩
example : (toHif exKeys).nodes =
    [(.int 1, some [("node", .sc (.str "r")), ("attr", .sc (.int 0))]), (.int 9, some [("node", .sc (.int 3))])] := by decide
example : (toHif exKeys).edges = [(.str "x", some [("idx", .sc (.int 1)), ("members", .sc (.str "r"))])] := by decide
example : (fromHifU (toHif exKeys)).net.nodes = [.int 1, .int 2, .int 9] := by decide
example : (fromHifU (toHif exKeys)).net.edges = [(.int 0, [.int 1, .int 2]), (.str "x", [])] := by decide
example : (fromHifU (toHif exKeys)).nattr (.int 9) = [("node", .sc (.int 3))] := by decide
example : (fromHifU (toHif exKeys)).nattr (.int 1) = [("node", .sc (.str "r")), ("attr", .sc (.int 0))] := by decide
example : (fromHifU (toHif exKeys)).eattr (.str "x") = [("idx", .sc (.int 1)), ("members", .sc (.str "r"))] := by decide
/-- the same through the standard dict, on the all-int variant `exKeysInt` (edge 5 is the empty edge) -/
def exKeysInt : ANet := { exKeys with net := { nodes := [.int 1, .int 2, .int 9], edges := [(.int 0, [.int 1]), (.int 5, [])] },
                                      eattr := fun e => if e = .int 5 then [("idx", .sc (.int 1)), ("members", .sc (.str "r"))] else [] }
example : AWF exKeysInt :=
  ⟨by unfold Net.WF exKeysInt; decide, by unfold AttrsWF exKeysInt exKeys; decide,
   by unfold AttrsWF exKeysInt exKeys; decide, by unfold AttrsWF exKeysInt Net.edgeIds; decide⟩
/-- evaluated with the finite stand-in casts (`decide` cannot run `toString` / `String.toInt?`, nor `mergeSort` on
    two or more members) -/
def exKeysRt : Option ANet :=
  (toHypergraphDict exCast exKeysInt).toOption.bind (fun d => (fromHypergraphDict exUncastInt exUncastInt d).toOption)
example : exKeysRt.map (·.net.nodes) = some [.int 1, .int 2, .int 9] := by decide
example : exKeysRt.map (·.net.edges) = some [(.int 0, [.int 1]), (.int 5, [])] := by decide
example : exKeysRt.map (·.nattr (.int 9)) = some [("node", .sc (.int 3))] := by decide
example : exKeysRt.map (·.eattr (.int 5)) = some [("idx", .sc (.int 1)), ("members", .sc (.str "r"))] := by decide
/-- … and with the driver's own casts through `hypergraphDict_rt_int_str` (all its hypotheses hold) -/
example : ∃ d r, toHypergraphDict strCast exKeysInt = .ok d ∧ fromHypergraphDict uncastInt uncastInt d = .ok r ∧
    r.net.nodes = [.int 1, .int 2, .int 9] ∧ r.nattr (.int 9) = [("node", .sc (.int 3))] ∧
    r.eattr (.int 5) = [("idx", .sc (.int 1)), ("members", .sc (.str "r"))] := by
  obtain ⟨d, r, h1, h2, h3, _, _, _, h7, h8⟩ := hypergraphDict_rt_int_str .int .int exKeysInt
    ⟨by unfold Net.WF exKeysInt; decide, by unfold AttrsWF exKeysInt exKeys; decide,
     by unfold AttrsWF exKeysInt exKeys; decide, by unfold AttrsWF exKeysInt Net.edgeIds; decide⟩
    (by unfold exKeysInt; intro x hx
        simp only [List.mem_cons, List.not_mem_nil, or_false] at hx
        rcases hx with rfl | rfl | rfl <;> exact ⟨_, rfl⟩)
    (by unfold exKeysInt Net.edgeIds; intro x hx
        simp only [List.map_cons, List.map_nil, List.mem_cons, List.not_mem_nil, or_false] at hx
        rcases hx with rfl | rfl <;> exact ⟨_, rfl⟩)
  refine ⟨d, r, h1, h2, h3, ?_, ?_⟩
  · rw [h7 (.int 9) (by unfold exKeysInt; decide)]; decide
  · rw [h8 (.int 5) (by unfold exKeysInt Net.edgeIds; decide)]; decide

/-- a stored simplicial complex: the triangle t = {1, 2, 3} with its three edges (one of them carrying an
    attribute) and the isolated node 4 -/
def exSC : ANet :=
  { cls := .sc, net := { nodes := [.int 1, .int 2, .int 3, .int 4],
                         edges := [(.str "t", [.int 1, .int 2, .int 3]), (.int 0, [.int 1, .int 2]), (.int 1, [.int 2, .int 3]),
                                   (.int 2, [.int 1, .int 3])] },
    nattr := fun _ => [], eattr := fun e => if e = .int 1 then [("w", .sc (.int 2))] else [], gattr := [("name", .sc (.str "tri"))] }

example : SCWF exSC.net := ⟨by unfold exSC; decide, by unfold exSC; decide⟩
example : SCClosed exSC.net := by unfold SCClosed exSC; decide
/-- … and without the edge {2, 3} it is still `SCWF` but not closed -/
example : ¬ SCClosed { exSC.net with edges := [(.str "t", [.int 1, .int 2, .int 3]), (.int 0, [.int 1, .int 2])] } := by
  unfold SCClosed; decide
example : (toHif exSC).incs.length = 9 := by decide
example : (toSimplicialComplex (fromHifU (toHif exSC))).net.edges =
    [(.str "t", [.int 1, .int 2, .int 3]), (.int 0, [.int 1, .int 2]), (.int 1, [.int 2, .int 3]), (.int 2, [.int 1, .int 3])] := by
  decide
example : (toSimplicialComplex (fromHifU (toHif exSC))).eattr (.int 1) = [("w", .sc (.int 2))] := by decide

/-- class conversion to a simplicial complex: the multi-edge and the empty edge disappear, faces are added -/
def exTri : ANet :=
  { cls := .hg, net := { nodes := [.int 1, .int 2, .int 3, .int 4],
                         edges := [(.str "t", [.int 1, .int 2, .int 3]), (.int 0, [.int 1, .int 2]), (.int 7, [])] },
    nattr := fun _ => [], eattr := fun e => if e = .str "t" then [("w", .sc (.int 2))] else [], gattr := [("name", .sc (.str "tri"))] }

example : (toSimplicialComplex exTri).net.edges =
    [(.str "t", [.int 1, .int 2, .int 3]), (.int 0, [.int 1, .int 2]), (.int 1, [.int 2, .int 3]), (.int 2, [.int 1, .int 3])] := by
  decide
example : (toSimplicialComplex exTri).gattr = [("name", .sc (.str "tri"))] := by decide
example : (toSimplicialComplex exTri).net.nodes = [.int 1, .int 2, .int 3, .int 4] := by decide

/-- a directed network: edge 0 = ({1, 2} → {3}), edge 7 = ({1} → {1, 3}), edge 5 empty; node 9 isolated -/
def exDi : DiNet :=
  { nodes := [.int 1, .int 2, .int 3, .int 9],
    edges := [(.int 0, [.int 1, .int 2], [.int 3]), (.int 7, [.int 1], [.int 1, .int 3]), (.int 5, [], [])] }

example : DWF exDi := by unfold DWF exDi; decide
example : (fromBipartiteEdgelistDi (toBipartiteEdgelistDi exDi)).edges =
    [(.int 0, [.int 1, .int 2], [.int 3]), (.int 7, [.int 1], [.int 1, .int 3])] := by decide
example : (dFlat exDi).edges = [(.int 0, [.int 1, .int 2, .int 3]), (.int 7, [.int 1, .int 3]), (.int 5, [])] := by decide
example : (fromBipartiteGraphDi (toBipartiteGraphDi exDi).G).toOption.map (·.edges) =
    some [(.int 4, [.int 0, .int 1], [.int 2]), (.int 5, [.int 0], [.int 0, .int 2])] := by decide
/-- `fromBipartiteGraphDi_perm`: the graph of `exDi` with its vertex list and its arc list reversed satisfies the
    hypotheses and reads as the same edges (up to the order of edges and members) -/
def exDiG : BGraph := (toBipartiteGraphDi exDi).G
def exDiG' : BGraph := { exDiG with verts := exDiG.verts.reverse, edges := exDiG.edges.reverse }
example : GWF exDiG := by unfold GWF exDiG exDi; decide
example : exDiG.verts.Perm exDiG'.verts := (List.reverse_perm _).symm
example : ∀ u v, (u, v) ∈ exDiG.edges ↔ (u, v) ∈ exDiG'.edges := fun u v => by simp [exDiG']
example : (fromBipartiteGraphDi exDiG').toOption.map (·.edges) =
    some [(.int 5, [.int 0], [.int 2, .int 0]), (.int 4, [.int 1, .int 0], [.int 2])] := by decide

/-- a stored simplicial complex: the triangle `t` with its three edges -/
def exSCNet : Net :=
  { nodes := [.int 1, .int 2, .int 3],
    edges := [(.str "t", [.int 1, .int 2, .int 3]), (.int 0, [.int 1, .int 2]), (.int 1, [.int 1, .int 3]), (.int 2, [.int 2, .int 3])] }
example : exSCNet.WF := by unfold Net.WF exSCNet; decide
example : SCWF exSCNet := ⟨by unfold exSCNet; decide, by unfold exSCNet; decide⟩
example : SCClosed exSCNet := by unfold SCClosed exSCNet; decide
example : toDataframe exSCNet = [(.int 1, .str "t"), (.int 1, .int 0), (.int 1, .int 1), (.int 2, .str "t"), (.int 2, .int 0),
    (.int 2, .int 2), (.int 3, .str "t"), (.int 3, .int 1), (.int 3, .int 2)] := by decide
example : (fromDataframeSC (toDataframe exSCNet)).net.edges = exSCNet.edges := by decide

end Xgi.C10
