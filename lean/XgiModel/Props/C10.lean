/-
  C10 — conversions between representations preserve the incidence relation.
  Property theorems about the model `XgiModel/C10/Convert.lean` (the functions `Drivers/C10.lean` runs).
-/
import XgiModel.C10.Lemmas

namespace Xgi.C10

/-! ### bipartite edge list -/

theorem mem_toBipartiteEdgelist (h : Net) (n e : PyId) : (n, e) ∈ toBipartiteEdgelist h ↔ Inc h n e := by
  unfold toBipartiteEdgelist Inc
  simp only [List.mem_flatMap, List.mem_map, Prod.mk.injEq]
  constructor
  · rintro ⟨p, hp, m, hm, rfl, rfl⟩; exact ⟨p, hp, rfl, hm⟩
  · rintro ⟨p, hp, rfl, hm⟩; exact ⟨p, hp, n, hm, rfl, rfl⟩

/-- bipartite edge list: the round trip has exactly the source's labelled incidences (labels are carried),
    and is well-formed -/
theorem bipartiteEdgelist_rt (h : Net) :
    (∀ n e, Inc (fromBipartiteEdgelist (toBipartiteEdgelist h)) n e ↔ Inc h n e) ∧
    (fromBipartiteEdgelist (toBipartiteEdgelist h)).WF := by
  refine ⟨fun n e => ?_, wf_linkAll _ wf_emptyNet⟩
  unfold fromBipartiteEdgelist
  rw [inc_linkAll, mem_toBipartiteEdgelist]
  simp [inc_emptyNet]

/-- the node / edge labels of the round trip are those of the non-isolated nodes / non-empty edges -/
theorem bipartiteEdgelist_labels (h : Net) (hw : h.WF) :
    (∀ n, n ∈ (fromBipartiteEdgelist (toBipartiteEdgelist h)).nodes ↔ n ∈ h.nodes ∧ ∃ e, Inc h n e) ∧
    (∀ e, e ∈ (fromBipartiteEdgelist (toBipartiteEdgelist h)).edgeIds ↔ e ∈ h.edgeIds ∧ ∃ n, Inc h n e) := by
  obtain ⟨_, _, h3⟩ := hw
  unfold fromBipartiteEdgelist
  constructor
  · intro n
    rw [mem_nodes_linkAll]
    simp only [mem_toBipartiteEdgelist, emptyNet, List.not_mem_nil, false_or]
    constructor
    · rintro ⟨e, p, hp, he, hn⟩; exact ⟨(h3 p hp).2 n hn, e, p, hp, he, hn⟩
    · rintro ⟨_, e, he⟩; exact ⟨e, he⟩
  · intro e
    rw [mem_edgeIds_linkAll]
    simp only [mem_toBipartiteEdgelist, emptyNet, Net.edgeIds, List.map_nil, List.not_mem_nil, false_or]
    constructor
    · rintro ⟨n, p, hp, he, hn⟩
      exact ⟨by rw [List.mem_map]; exact ⟨p, hp, he⟩, n, p, hp, he, hn⟩
    · rintro ⟨_, n, hn⟩; exact ⟨n, hn⟩

/-- directed bipartite edge list (triples with direction): same labelled incidences with direction -/
theorem bipartiteEdgelistDi_rt (h : DiNet) :
    (∀ n e d, DInc (fromBipartiteEdgelistDi (toBipartiteEdgelistDi h)) n e d ↔ DInc h n e d) ∧
    DWF (fromBipartiteEdgelistDi (toBipartiteEdgelistDi h)) := by
  refine ⟨fun n e d => ?_, dwf_dLinkAll _ dwf_emptyDiNet⟩
  unfold fromBipartiteEdgelistDi
  rw [dInc_dLinkAll, mem_toBipartiteEdgelistDi]
  simp [dInc_emptyDiNet]

/-! ### two-column dataframe -/

theorem mem_toDataframe (h : Net) (n e : PyId) : (n, e) ∈ toDataframe h ↔ n ∈ h.nodes ∧ Inc h n e := by
  unfold toDataframe Inc Net.memberships
  simp only [List.mem_flatMap, List.mem_map, List.mem_filter, Prod.mk.injEq, decide_eq_true_eq]
  constructor
  · rintro ⟨m, hm, e', ⟨p, ⟨hp, hmp⟩, rfl⟩, rfl, rfl⟩; exact ⟨hm, p, hp, rfl, hmp⟩
  · rintro ⟨hn, p, hp, rfl, hnp⟩; exact ⟨n, hn, p.1, ⟨p, ⟨hp, hnp⟩, rfl⟩, rfl, rfl⟩

/-- dataframe: the rows carry both labels; the round trip has exactly the source's incidences -/
theorem dataframe_rt (h : Net) (hw : h.WF) :
    (∀ n e, Inc (fromDataframe (toDataframe h)) n e ↔ Inc h n e) ∧ (fromDataframe (toDataframe h)).WF := by
  refine ⟨fun n e => ?_, wf_linkAll _ wf_emptyNet⟩
  unfold fromDataframe
  rw [inc_linkAll, mem_toDataframe]
  simp only [inc_emptyNet, false_or, and_iff_right_iff_imp]
  rintro ⟨p, hp, _, hn⟩
  exact (hw.2.2 p hp).2 n hn

/-! ### incidence matrix -/

/-- labelled incidence matrix (row / column label lists): same labelled incidences -/
theorem incidence_labelled_rt (h : Net) (hw : h.WF) :
    ∃ r, fromIncidence (toIncidence h).M (some (toIncidence h).rows) (some (toIncidence h).cols) = .ok r ∧
      (∀ n e, Inc r n e ↔ Inc h n e) ∧ r.WF := by
  obtain ⟨s1, s2⟩ := shape_toIncidence h
  refine ⟨linkAll (entries (labelFn (some (toIncidence h).rows)) (labelFn (some (toIncidence h).cols)) (toIncidence h).M) emptyNet,
    by simp [fromIncidence, lenBad, s1, s2], fun n e => ?_, wf_linkAll _ wf_emptyNet⟩
  rw [inc_linkAll, toIncidence_entries h hw]
  simp [inc_emptyNet]

/-- unlabelled incidence matrix: node `i` / edge `j` of the result are the `i`-th node / `j`-th edge of the
    source (positions are all the matrix carries: same order) -/
theorem incidence_unlabelled_rt (h : Net) :
    ∃ r, fromIncidence (toIncidence h).M none none = .ok r ∧
      (∀ x y, Inc r x y ↔ ∃ (i j : Nat) (n : PyId) (p : PyId × List PyId),
          x = PyId.int i ∧ y = PyId.int j ∧ h.nodes[i]? = some n ∧ h.edges[j]? = some p ∧ n ∈ p.2) ∧ r.WF := by
  refine ⟨linkAll (entries (labelFn none) (labelFn none) (toIncidence h).M) emptyNet,
    by simp [fromIncidence, lenBad], fun x y => ?_, wf_linkAll _ wf_emptyNet⟩
  rw [inc_linkAll, toIncidence_entries_pos h]
  simp [inc_emptyNet]

/-! ### hyperedge list / dict -/

/-- hyperedge dict (edge labels carried): the round trip has exactly the source's `(ID, members)` list — same
    labels, same members, empty edges included, in the same order — and its nodes are the members -/
theorem hyperedgeDict_rt (h : Net) (hw : h.WF) :
    (fromHyperedgeDict (toHyperedgeDict h)).edges = h.edges ∧
    (∀ n e, Inc (fromHyperedgeDict (toHyperedgeDict h)) n e ↔ Inc h n e) ∧
    (∀ n, n ∈ (fromHyperedgeDict (toHyperedgeDict h)).nodes ↔ ∃ e, Inc h n e) := by
  have hd : (emptyNet.edgeIds ++ (toHyperedgeDict h).map (·.1)).Nodup := by
    simpa [emptyNet, Net.edgeIds, toHyperedgeDict] using hw.2.1
  have he : (fromHyperedgeDict (toHyperedgeDict h)).edges = h.edges := by
    unfold fromHyperedgeDict
    rw [edges_foldl_addEdge _ _ hd]
    simp only [emptyNet, toHyperedgeDict, List.nil_append]
    conv => rhs; rw [← List.map_id h.edges]
    apply List.map_congr_left
    intro p hp
    rw [dedup_of_nodup (hw.2.2 p hp).1]; rfl
  refine ⟨he, fun n e => by unfold Inc; rw [he], fun n => ?_⟩
  unfold fromHyperedgeDict
  rw [mem_nodes_foldl_addEdge _ _ hd]
  simp only [emptyNet, List.not_mem_nil, false_or, toHyperedgeDict, Inc]
  constructor
  · rintro ⟨p, hp, hn⟩; exact ⟨p.1, p, hp, rfl, hn⟩
  · rintro ⟨e, p, hp, _, hn⟩; exact ⟨p, hp, hn⟩

/-- hyperedge list (no labels): edge `j` of the round trip is the `j`-th edge of the source with the same
    members — same edge order, empty edges included -/
theorem hyperedgeList_rt (h : Net) (hw : h.WF) :
    (fromHyperedgeList (toHyperedgeList h)).edges = h.edges.zipIdx.map (fun pj => (PyId.int pj.2, pj.1.2)) := by
  unfold fromHyperedgeList
  rw [edges_foldl_addEdge_auto _ _ _ (by simp [emptyNet, Net.edgeIds])]
  simp only [emptyNet, toHyperedgeList, List.nil_append, List.zipIdx_map, List.map_map]
  apply List.map_congr_left
  rintro ⟨p, j⟩ hpj
  have hp : p ∈ h.edges := by
    have := List.mem_zipIdx_iff_getElem?.mp hpj
    exact List.mem_of_getElem? this
  simp only [Function.comp, Prod.map, id]
  rw [dedup_of_nodup (hw.2.2 p hp).1]

/-- … hence node `n` is in edge `j` of the round trip iff it is in the `j`-th source edge -/
theorem hyperedgeList_inc (h : Net) (hw : h.WF) (n : PyId) (j : Nat) :
    Inc (fromHyperedgeList (toHyperedgeList h)) n (PyId.int j) ↔ ∃ p, h.edges[j]? = some p ∧ n ∈ p.2 := by
  unfold Inc
  rw [hyperedgeList_rt h hw]
  simp only [List.mem_map, List.mem_zipIdx_iff_getElem?]
  constructor
  · rintro ⟨q, ⟨⟨p, i⟩, hpi, rfl⟩, hq, hn⟩
    simp only [PyId.int, PyId.atom.injEq, Atom.int.injEq, Int.natCast_inj] at hq
    subst hq
    exact ⟨p, hpi, hn⟩
  · rintro ⟨p, hp, hn⟩
    exact ⟨_, ⟨(p, j), hp, rfl⟩, rfl, hn⟩

/-! ### bipartite graph -/

/-- `from_bipartite_graph` does not depend on the order in which the vertices were inserted nor on the
    orientation `(node, edge)` / `(edge, node)` in which networkx hands over each undirected edge: two graphs
    with the same vertices (a permutation of the vertex list) and the same unordered edges are accepted or
    rejected together and give the same nodes and the same incidences -/
theorem fromBipartiteGraph_perm (G G' : BGraph) (hw : GWF G) (hv : G.verts.Perm G'.verts)
    (he : ∀ u v, ((u, v) ∈ G.edges ∨ (v, u) ∈ G.edges) ↔ ((u, v) ∈ G'.edges ∨ (v, u) ∈ G'.edges)) :
    ((∃ r, fromBipartiteGraph G = .ok r) ↔ (∃ r', fromBipartiteGraph G' = .ok r')) ∧
    (∀ r r', fromBipartiteGraph G = .ok r → fromBipartiteGraph G' = .ok r' →
       (∀ n e, Inc r n e ↔ Inc r' n e) ∧ (∀ n, n ∈ r.nodes ↔ n ∈ r'.nodes)) := by
  have hw' := gwf_transfer hw hv he
  have he' : ∀ u v, ((u, v) ∈ G'.edges ∨ (v, u) ∈ G'.edges) ↔ ((u, v) ∈ G.edges ∨ (v, u) ∈ G.edges) :=
    fun u v => (he u v).symm
  have hN : ∀ x, x ∈ nodeVerts G ↔ x ∈ nodeVerts G' := fun x => by
    rw [mem_nodeVerts, mem_nodeVerts]; exact hv.mem_iff
  have hE : ∀ x, x ∈ edgeVerts G ↔ x ∈ edgeVerts G' := fun x => by
    rw [mem_edgeVerts, mem_edgeVerts]; exact hv.mem_iff
  constructor
  · rw [fromBipartiteGraph_ok_iff, fromBipartiteGraph_ok_iff]
    exact ⟨fun h => ok_transfer hw hv he h.1 h.2, fun h => ok_transfer hw' hv.symm he' h.1 h.2⟩
  · intro r r' hr hr'
    constructor
    · intro n e
      rw [fromBipartiteGraph_inc hr hw, fromBipartiteGraph_inc hr' hw', hN, hE, he n e]
    · intro n
      rw [fromBipartiteGraph_nodes hr hw, fromBipartiteGraph_nodes hr' hw', hN]

end Xgi.C10
