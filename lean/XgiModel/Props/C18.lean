/-
  C18 — Frozen networks cannot be structurally modified.  (undirected model; FreezeTable is regenerated
  from the freeze() methods of the current source on every run)
  Property theorems only; helpers in Lemmas/HGFreeze.lean.
-/
import XgiModel.Lemmas.HGFreeze
import XgiModel.Generated.FreezeTable

namespace Xgi.C18
open Xgi Xgi.HG Xgi.Generated

/-- **the obligation tied to the source**: every op the model treats as disabled on a frozen hypergraph is
    really assigned `frozen` by `Hypergraph.freeze()` (breaks when a name is dropped from the list) -/
theorem C18_table_hypergraph (op : Op) (h : op.guardedByFreeze = true) : pyName op ∈ FreezeTable.hypergraph := by
  cases op <;> simp [Op.guardedByFreeze] at h <;> simp [pyName] <;> decide

/-- the public methods the models and the probing argument table know as (potential) structural mutators -/
def knownMutators : List String :=
  ["add_node", "add_nodes_from", "remove_node", "remove_nodes_from", "add_edge", "add_edges_from",
   "add_weighted_edges_from", "remove_edge", "remove_edges_from", "add_node_to_edge", "remove_node_from_edge",
   "double_edge_swap", "random_edge_shuffle", "update", "clear", "clear_edges", "merge_duplicate_edges", "cleanup",
   "add_simplex", "add_simplices_from", "add_weighted_simplices_from", "remove_simplex_id", "remove_simplex_ids_from",
   "close"]

/-- public methods that do not change structure (accessors, attribute setters, copies, `freeze` itself) -/
def knownNonStructural : List String :=
  ["nodes", "edges", "num_nodes", "num_edges", "set_node_attributes", "set_edge_attributes", "copy", "dual",
   "freeze", "is_frozen", "has_simplex", "__setitem__"]

/-- **second obligation tied to the source**: every public method defined by the three classes (regenerated from the
    source on every run) is classified.  A new public method — a possible new mutator that `freeze()` would have to
    disable — breaks this obligation until it is classified (and the probing then has to show what it does when frozen). -/
theorem C18_methods_classified :
    (∀ m ∈ FreezeTable.hypergraphMethods, m ∈ knownMutators ∨ m ∈ knownNonStructural) ∧
    (∀ m ∈ FreezeTable.dihypergraphMethods, m ∈ knownMutators ∨ m ∈ knownNonStructural) ∧
    (∀ m ∈ FreezeTable.simplicialcomplexMethods, m ∈ knownMutators ∨ m ∈ knownNonStructural) := by
  decide

/-- every name `freeze()` of a class disables is a known mutator (nothing is frozen by accident) -/
theorem C18_frozen_names_are_mutators :
    (∀ m ∈ FreezeTable.hypergraph, m ∈ knownMutators) ∧ (∀ m ∈ FreezeTable.dihypergraph, m ∈ knownMutators) ∧
    (∀ m ∈ FreezeTable.simplicialcomplex, m ∈ knownMutators) := by
  decide

/-- a disabled call on a frozen hypergraph raises the library's error and changes nothing at all -/
theorem C18_frozen_guarded (s : HG) (op : Op) (hf : s.frozen = true) (hg : op.guardedByFreeze = true) :
    step s op = some (s, .err .lib) := by
  unfold step; simp [hf, hg]

/-- on a frozen hypergraph **no** call changes nodes, edges, members, memberships or the frozen flag -/
theorem C18_frozen_structure (s : HG) (op : Op) (r : HG × Outcome) (hf : s.frozen = true) (hr : step s op = some r) :
    SameStruct s r.1 := by
  unfold step at hr
  by_cases hg : op.guardedByFreeze = true
  · simp [hf, hg] at hr; cases hr; exact SameStruct.refl s
  · simp [hg] at hr
    cases op <;> simp only [Op.guardedByFreeze, not_true_eq_false] at hg <;> simp only [stepCore, Option.some.injEq] at hr
    case setNodeAttrs arg => subst hr; exact setNodeAttrs_same s arg
    case setEdgeAttrs arg => subst hr; exact setEdgeAttrs_same s arg
    case setNetAttr k v => subst hr; exact ⟨rfl, rfl, rfl, rfl, rfl, rfl, rfl⟩
    case update es ns =>
      subst hr; unfold update
      apply andThen_frozen_same
      · split
        · exact SameStruct.refl s
        · rw [guardF_frozen s _ hf]; exact SameStruct.refl s
      · intro t ht
        have hf' : t.frozen = true := by rw [ht.2.2.2.2.2.2]; exact hf
        split
        · split
          · exact ht
          · rw [guardF_frozen t _ hf']; exact ht
        · exact ht
    case mergeDuplicateEdges rn rule m => exact merge_frozen_same s hf rn rule m r hr
    case cleanup a b c d e =>
      unfold cleanup at hr
      simp only [Option.map_eq_some_iff] at hr
      obtain ⟨r0, hr0, hr⟩ := hr
      have h0 : SameStruct s r0.1 := by
        split at hr0
        · cases hr0; exact SameStruct.refl s
        · exact merge_frozen_same s hf _ _ _ r0 hr0
      subst hr
      apply andThen_frozen_same
      · apply andThen_frozen_same
        · apply andThen_frozen_same
          · apply andThen_frozen_same _ _ _ h0
            intro t ht
            have hf' : t.frozen = true := by rw [ht.2.2.2.2.2.2]; exact hf
            split
            · exact ht
            · rw [guardF_frozen t _ hf']; exact ht
          · intro t ht
            have hf' : t.frozen = true := by rw [ht.2.2.2.2.2.2]; exact hf
            split
            · exact ht
            · rw [guardF_frozen t _ hf']; exact ht
        · intro t ht; split
          · exact lcc_frozen_same s t hf ht
          · exact ht
      · intro t ht; split
        · exact relabel_frozen_same s t hf ht _
        · exact ht
    case relabel l => subst hr; exact relabel_frozen_same s s hf (SameStruct.refl s) l
    case lccInPlace => subst hr; exact lcc_frozen_same s s hf (SameStruct.refl s)
    case freeze => subst hr; exact ⟨rfl, rfl, rfl, rfl, rfl, rfl, by simp [hf]⟩

/-- `is_frozen` after `freeze()` -/
theorem C18_freeze_sets_flag (s : HG) : ∃ r, step s .freeze = some r ∧ r.1.frozen = true := by
  unfold step
  by_cases h : s.frozen = true
  · exact ⟨({ s with frozen := true }, .ok), by simp [Op.guardedByFreeze, stepCore], rfl⟩
  · exact ⟨({ s with frozen := true }, .ok), by simp [Op.guardedByFreeze, stepCore], rfl⟩

/-! ### non-vacuity: a frozen non-trivial hypergraph; a disabled call is refused, an attribute setter still works -/
private def fz : HG := (((stepCore HG.empty (.addEdge [.int 1, .int 2] none [])).map (·.1)).bind
  (fun s => (stepCore s .freeze).map (·.1))).getD HG.empty
example : fz.frozen = true ∧ fz.edges = [.int 0] := by decide
example : (step fz (.removeEdge (.int 0))).map (·.2) = some (.err .lib) := by decide
example : (step fz .clearEdges).map (·.2) = some (.err .lib) := by decide
example : (step fz (.setEdgeAttrs (.constName (.sc (.int 1)) "w"))).map (·.2) = some .ok := by decide

end Xgi.C18
