/-
  C04 (simplicial part) — Automatic simplex IDs are always fresh; adding never overwrites.
  Property theorems only, about the model XgiModel/C03/SC.lean (what Drivers/SC.lean runs); helper lemmas in
  XgiModel/C03/LemmasAdd.lean.  `HG.Keeps s t` (Lemmas/HGAdd.lean): the ID list of `s` is a prefix of `t`'s and every
  simplex of `s` has the same members, the same attribute dict and still an attribute record in `t`.
  Every theorem holds for all values of the order hints (`Hints`), i.e. for every order in which Python may create
  the faces and the nodes.
-/
import XgiModel.C03.LemmasAdd
import XgiModel.Props.C03

namespace Xgi.C04S
open Xgi Xgi.SC

/-! ### the counter -/

/-- every call of the whole alphabet (additions in all formats, with and without `max_order`, removals, `close`,
    `cleanup` with relabelling, the aliases, `clear`, …) — returning, warning or raising — leaves the counter above
    every integer simplex ID (this is the `fresh` component of `SCInv`, restated) -/
theorem C04S_counter_step {s : HG} (h : SCInv s) (op : Op) :
    ∀ k : Int, PyId.int k ∈ (step s op).1.edges → k < ((step s op).1.uid : Int) :=
  (step_inv h op).fresh

/-- … hence in every state reachable from the empty complex -/
theorem C04S_counter_reachable {s : HG} (h : C03.Reachable s) :
    ∀ k : Int, PyId.int k ∈ s.edges → k < (s.uid : Int) :=
  (C03.C03_reachable h).fresh

/-- so the next automatic ID is never an existing ID -/
theorem C04S_next_id_unused {s : HG} (h : C03.Reachable s) : PyId.int s.uid ∉ s.edges :=
  HG.uid_not_mem (C03.C03_reachable h).fresh

/-! ### additions keep what exists -/

/-- `add_simplex` (automatic / explicit / existing ID, present / new / empty / invalid members; returning, warning or
    raising): every existing simplex keeps its position, members and attributes; the new simplex and its faces are
    appended -/
theorem C04S_add_simplex_preserves {s : HG} (h : SCInv s) (ms : List PyId) (idx : Option PyId) (a : Attrs) (hh : Hints) :
    HG.Keeps s (addSimplex s ms idx a hh).1 := addSimplex_keeps h ms idx a hh

/-- `add_simplices_from` in the five formats, with or without `max_order`, also when an element raises half-way -/
theorem C04S_add_simplices_from_preserves {s : HG} (h : SCInv s) (fmt : HG.Fmt) (items : List HG.EdgeItem) (k : Option Nat)
    (attr : Attrs) (hh : Hints) : HG.Keeps s (addSimplicesFrom s fmt items k attr hh).1 :=
  addSimplicesFrom_keeps h fmt items k attr hh

/-- `add_weighted_simplices_from` -/
theorem C04S_add_weighted_simplices_from_preserves {s : HG} (h : SCInv s) (items : List HG.EdgeItem) (k : Option Nat)
    (attr : Attrs) (hh : Hints) : HG.Keeps s (addWeightedSimplicesFrom s items k attr hh).1 :=
  addWeightedSimplicesFrom_keeps h items k attr hh

/-- every adding *public call* — the three methods above, the deprecated aliases `add_edge`, `add_edges_from`,
    `add_weighted_edges_from`, `close`, `add_node`, `add_nodes_from` — on a frozen or unfrozen complex -/
theorem C04S_adding_call_preserves {s : HG} (h : SCInv s) (op : Op) (ha : op.isAdd = true) : HG.Keeps s (step s op).1 :=
  step_keeps h op ha

/-- … and the IDs such a call appends are new and pairwise distinct: nothing is ever stored under an ID in use -/
theorem C04S_new_ids_fresh {s : HG} (h : SCInv s) (op : Op) (ha : op.isAdd = true) :
    ∃ l, (step s op).1.edges = s.edges ++ l ∧ l.Nodup ∧ ∀ e ∈ l, e ∉ s.edges :=
  keeps_new_ids (step_keeps h op ha) (step_inv h op).wf.nodupE

/-! ### which ID the new simplex gets -/

/-- a face gets the next automatic ID, which is unused, and is appended under exactly that ID -/
theorem C04S_face_id_fresh {s : HG} (h : SCInv s) (t : List PyId) (hh : Hints) :
    PyId.int s.uid ∉ s.edges ∧ (addFace s t hh).edges = s.edges ++ [PyId.int s.uid] ∧ (addFace s t hh).uid = s.uid + 1 := by
  refine ⟨HG.uid_not_mem h.fresh, ?_, ?_⟩
  · unfold addFace; exact (HG.addEdgeAt_edges _ _ _ _).1
  · unfold addFace; exact (HG.addEdgeAt_edges _ _ _ _).2

/-- `add_simplex(members)` with a new non-empty member set: the automatically chosen ID is not an existing ID, the
    call returns, and the simplex is appended directly after the existing ones under exactly that ID, with exactly
    the given node set and the given attributes (its missing faces follow it) -/
theorem C04S_auto_fresh {s : HG} (h : SCInv s) (ms : List PyId) (a : Attrs) (hh : Hints)
    (hne : ms ≠ []) (hnone : PyId.none ∉ ms) (hnew : hasSimplex s ms = false) :
    PyId.int s.uid ∉ s.edges ∧ (addSimplex s ms none a hh).2 = .ok ∧
    ∃ l, (addSimplex s ms none a hh).1.edges = s.edges ++ PyId.int s.uid :: l ∧
      (∀ n, n ∈ (addSimplex s ms none a hh).1.mem (PyId.int s.uid) ↔ n ∈ ms) ∧
      (addSimplex s ms none a hh).1.eattr (PyId.int s.uid) = Attrs.update [] a := by
  have hemp : ms.isEmpty = false := by cases ms with | nil => exact absurd rfl hne | cons _ _ => rfl
  have heq : addSimplex s ms none a hh =
      (addFaces (addTop { s with uid := s.uid + 1 } (PyId.int s.uid) ms a hh) (subfacesRaw (dedup ms)) hh, .ok) := by
    unfold addSimplex; simp [hnew, hemp, hnone]
  have hhas : ¬ Has s ms := fun hx => by rw [(hasSimplex_iff s ms).2 hx] at hnew; cases hnew
  rw [heq]
  exact ⟨HG.uid_not_mem h.fresh, rfl,
    addTopFaces_shape (mid_uid_succ (mid_of_scinv h)) (PyId.int s.uid) ms a hh
      (show PyId.int (s.uid : Int) ∉ s.edges from HG.uid_not_mem h.fresh) (by intro hx; cases hx) hnone hne hhas⟩

/-- `add_simplex(members, idx=i)` with an unused ID `i` (0 included) and a new non-empty member set: the simplex is
    stored under exactly `i`, directly after the existing ones -/
theorem C04S_explicit_new {s : HG} (h : SCInv s) (ms : List PyId) (i : PyId) (a : Attrs) (hh : Hints)
    (hi : i ∉ s.edges) (hin : i ≠ .none) (hne : ms ≠ []) (hnone : PyId.none ∉ ms) (hnew : hasSimplex s ms = false) :
    (addSimplex s ms (some i) a hh).2 = .ok ∧
    ∃ l, (addSimplex s ms (some i) a hh).1.edges = s.edges ++ i :: l ∧
      (∀ n, n ∈ (addSimplex s ms (some i) a hh).1.mem i ↔ n ∈ ms) ∧
      (addSimplex s ms (some i) a hh).1.eattr i = Attrs.update [] a := by
  have hemp : ms.isEmpty = false := by cases ms with | nil => exact absurd rfl hne | cons _ _ => rfl
  have heq : addSimplex s ms (some i) a hh =
      (addFaces (addTop s i ms a hh) (subfacesRaw (dedup ms)) hh, .ok) := by
    unfold addSimplex
    rw [if_neg (by simp [hnew])]
    split
    · rename_i heq; injection heq with heq; exact absurd heq hin
    · rename_i heq; cases heq
    · rename_i j _ heq; injection heq with heq; subst heq
      simp [hi, hemp, hnone]
  have hhas : ¬ Has s ms := fun hx => by rw [(hasSimplex_iff s ms).2 hx] at hnew; cases hnew
  rw [heq]
  exact ⟨rfl, addTopFaces_shape (mid_of_scinv h) i ms a hh hi hin hnone hne hhas⟩

/-! ### refusals -/

/-- an explicit ID that already exists is refused with a warning and the complex is unchanged — unless the member
    set is already a simplex, see `C04S_present_noop` -/
theorem C04S_explicit_dup (s : HG) (ms : List PyId) (idx : PyId) (a : Attrs) (hh : Hints) (hi : idx ∈ s.edges)
    (hn : idx ≠ .none) (hnew : hasSimplex s ms = false) : addSimplex s ms (some idx) a hh = (s, .warned) := by
  unfold addSimplex
  rw [if_neg (by simp [hnew])]
  split
  · rename_i heq; injection heq with heq; exact absurd heq hn
  · rename_i heq; cases heq
  · rename_i j _ heq; injection heq with heq; subst heq
    simp [hi]

/-- the documented exception: a simplex that is already present *by member set* makes `add_simplex` a silent no-op
    — no warning, no change — whatever ID and attributes are passed (existing ID, new ID, none) -/
theorem C04S_present_noop (s : HG) (ms : List PyId) (idx : Option PyId) (a : Attrs) (hh : Hints)
    (hp : hasSimplex s ms = true) : addSimplex s ms idx a hh = (s, .ok) := by
  unfold addSimplex; rw [if_pos hp]

/-- the same in the bulk formats: an element whose member set is empty or already a simplex is skipped silently -/
theorem C04S_present_noop_bulk (fmt : HG.Fmt) (attr : Attrs) (k : Option Nat) (hh : Hints) (st : HG × List (List PyId))
    (it : HG.EdgeItem) (hp : it.members.isEmpty = true ∨ hasSimplex st.1 it.members = true) :
    addSimplicesItem fmt attr k hh st it = (st, .ok) := by
  unfold addSimplicesItem; simp only []; rw [if_pos hp]

/-- dict format: an element whose key is an existing ID changes nothing (and warns) -/
theorem C04S_explicit_dup_dict (attr : Attrs) (k : Option Nat) (hh : Hints) (st : HG × List (List PyId)) (it : HG.EdgeItem)
    (hnew : ¬ (it.members.isEmpty = true ∨ hasSimplex st.1 it.members = true))
    (hi : it.idx.getD .none ∈ st.1.edges) : addSimplicesItem .f5 attr k hh st it = (st, .warned) := by
  unfold addSimplicesItem; simp only []; rw [if_neg hnew]; simp [hi]

/-- formats 2 and 4: an element with valid members that is not cut by `max_order` and whose explicit ID exists
    changes nothing (and warns).  (An element that *is* cut by `max_order` never uses its ID: only its faces are
    queued, under automatic IDs.) -/
theorem C04S_explicit_dup_bulk (fmt : HG.Fmt) (attr : Attrs) (k : Option Nat) (hh : Hints) (st : HG × List (List PyId))
    (it : HG.EdgeItem) (hx : fmt = .f2 ∨ fmt = .f4)
    (hnew : ¬ (it.members.isEmpty = true ∨ hasSimplex st.1 it.members = true)) (hnone : PyId.none ∉ it.members)
    (hcut : truncQ k it.members = none) (hi : it.idx.getD .none ∈ st.1.edges) :
    addSimplicesItem fmt attr k hh st it = (st, .warned) := by
  unfold addSimplicesItem; simp only []; rw [if_neg hnew]
  rcases hx with rfl | rfl <;> simp [HG.Fmt.explicit, hnone, hcut, hi]

/-! ### non-vacuity -/

private def ops0 : List Op :=
  [ .addSimplex [.int 1, .int 2, .int 3] (some (.int 0)) [("w", .sc (.int 7))] {},      -- explicit id 0; faces get 1,2,3
    .addSimplicesFrom .f2 [{ members := [.int 3, .int 4], idx := some (.int 9), attr := [] },
                           { members := [.int 4, .int 5], idx := some (.int 5), attr := [] }] none [] {} ]  -- decreasing ids
private def s0 : HG := C03.run HG.empty ops0

example : s0.edges = [.int 0, .int 1, .int 2, .int 3, .int 9, .int 5] := by decide
example : s0.uid = 10 := by decide
/-- an existing explicit ID with a new member set: warning, nothing changes -/
example : (step s0 (.addSimplex [.int 1, .int 5] (some (.int 9)) [] {})).2 = .warned := by decide
example : (step s0 (.addSimplex [.int 1, .int 5] (some (.int 9)) [] {})).1.edges = s0.edges := by decide
/-- a member set that is present: silent no-op even with an existing ID -/
example : (step s0 (.addSimplex [.int 2, .int 1] (some (.int 9)) [] {})).2 = .ok := by decide
example : (step s0 (.addSimplex [.int 2, .int 1] (some (.int 9)) [] {})).1.edges = s0.edges := by decide
/-- an automatic addition: ID 10 for the simplex, 11.. for its missing faces, the old ones untouched -/
example : (step s0 (.addEdge [.int 3, .int 4, .int 5] none [] {})).1.edges =
    [.int 0, .int 1, .int 2, .int 3, .int 9, .int 5, .int 10, .int 11] := by decide
example : (step s0 (.addEdge [.int 3, .int 4, .int 5] none [] {})).1.eattr (.int 0) = [("w", .sc (.int 7))] := by decide
/-- the hypotheses of `C04S_auto_fresh` / `C04S_explicit_dup` are met in a reachable state -/
example : hasSimplex s0 [.int 1, .int 5] = false ∧ PyId.int 9 ∈ s0.edges := by decide
example : C03.Reachable s0 := by
  simp only [s0, C03.run, ops0, List.foldl]
  exact C03.Reachable.step _ (C03.Reachable.step _ C03.Reachable.empty)

end Xgi.C04S
