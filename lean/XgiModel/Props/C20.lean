import XgiModel.C20.Draw
namespace Xgi.C20
theorem C20_stub : True := trivial
end Xgi.C20
