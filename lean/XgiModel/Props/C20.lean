/-
  C20 — layouts and drawings represent every node and edge faithfully: property theorems about the model
  functions of XgiModel/C20/Draw.lean that the driver (XgiModel/C20/Drive.lean) runs.

  What is proved, for every network, every position function and every `max_order`:
  * `draw_nodes_spec`   one marker per node, at its position, in node order, carrying the per-ID dict's value at
                        that node's ID;
  * `per_id_spec`, `per_id_order_irrelevant`, `per_id_in_order`: a per-ID style dict gives element k the value
                        stored under the k-th element's ID, whatever the order of the dict's entries; for a dict
                        listed in element order this is `list(d.values())` (what the unrepaired code applies);
  * `segment_styles_spec`, `polygon_styles_spec`: every line / polygon carries the value of its own edge ID (the
                        polygons through the `[ids_sorted]` re-indexing);
  * `segments_spec`     a line for an edge iff it has two members, in edge order, joining its members' positions;
  * `polygons_spec`     for every argsort oracle: one polygon per edge with 3 ≤ |e| ≤ max_order + 1, drawn by
                        non-increasing size, vertex multiset = the members' positions (`ccw_sort_perm`);
                        `stable_argsort_valid`: the default oracle is admissible;
  * `draw_hyperedges_spec`, `draw_spec`: the composed calls succeed and consist of exactly these parts;
  * `sc_plan_spec`, `sc_net_spec`, `max_sets_spec`, `sc_segments_spec`, `sc_polygons_spec`, `sc_draw_succeeds`,
    `draw_sc_spec`: a simplicial complex is drawn as `draw_hyperedges` of the hypergraph made of its maximal
    simplices (of order ≤ max_order) and their node pairs without repeated sets: two nodes are joined by a line
    iff they lie together in a simplex, the polygons are exactly the maximal simplices with ≥ 3 nodes, each once;
  * `barycenter_spec`, `edge_positions_spec`: |e| · barycenter = sum of the members' positions; one entry per edge,
                        keyed by its ID, in edge order;
  * `layout_keys_spec`  for duplicate-free ID lists the key construction of every layout family (the networkx graph
                        it builds, the dict it zips, the index maps it inverts) yields exactly the node view, in
                        order (bipartite: and the edge view);
  * `phantom_fresh`     phantom labels `max int label + 1 + k` are fresh, distinct, one per edge with ≥ 2 members.
  Finite coordinates of the numeric layouts, matplotlib's rendering (incl. how a style value becomes a size, width
  or colour) and list / array / stat-valued style arguments are runtime behaviour exhibited by the correspondence
  check only.  Definitional restatements (`markers_eq`, `edgePositions_eq`, `segments_edges`) live in
  C20/LemmasStyle.lean as model sanity lemmas and are not counted here.
-/
import XgiModel.C20.Lemmas
import XgiModel.C20.LemmasSC
import XgiModel.C20.LemmasStyle

namespace Xgi.C20
open Xgi

/-- a per-ID dict gives the k-th plotted element the value stored under that element's ID; the call is defined
    iff every plotted element has an entry -/
theorem per_id_spec (d : SDict) (ids : List PyId) :
    (∀ vs, perId d ids = some vs → List.Forall₂ (fun i v => d.get? i = some v) ids vs) ∧
    ((∃ vs, perId d ids = some vs) ↔ ∀ i ∈ ids, i ∈ d.map (·.1)) := by
  refine ⟨?_, ?_⟩
  · intro vs h
    unfold perId at h
    simp only [] at h
    split at h
    · cases h
      exact forall2_filterMap_of_length _ _ ‹_›
    · cases h
  · constructor
    · rintro ⟨vs, h⟩
      unfold perId at h
      simp only [] at h
      split at h
      · rename_i hl
        have hf := forall2_filterMap_of_length _ _ hl
        intro i hi
        obtain ⟨k, hk, rfl⟩ := List.getElem_of_mem hi
        rcases forall2_getElem? hf k with ⟨h1, _⟩ | ⟨a, b, h1, _, h3⟩
        · simp at h1; omega
        · rw [List.getElem?_eq_getElem hk] at h1
          cases h1
          by_contra hc
          rw [← get?_eq_none_iff] at hc
          rw [hc] at h3; cases h3
      · cases h
    · intro hall
      have hl : (ids.filterMap d.get?).length = ids.length := by
        induction ids with
        | nil => rfl
        | cons a t ih =>
          cases ha : d.get? a with
          | none =>
            exfalso
            rw [get?_eq_none_iff] at ha
            exact ha (hall a (by simp))
          | some b =>
            rw [List.filterMap_cons_some ha]
            simp [ih (fun i hi => hall i (List.mem_cons_of_mem _ hi))]
      exact ⟨ids.filterMap d.get?, by unfold perId; simp [hl]⟩

/-- the order in which a dict lists its entries is irrelevant -/
theorem per_id_order_irrelevant (d d' : SDict) (ids : List PyId) (hd : (d.map (·.1)).Nodup) (hp : d.Perm d') :
    perId d ids = perId d' ids := by
  have : d.get? = d'.get? := funext (get?_perm hd hp)
  unfold perId
  rw [this]

/-- for a dict that lists exactly the plotted elements in plotting order, the value list is `list(d.values())`:
    on such dicts the repaired lookup and the positional reading of the unrepaired code coincide -/
theorem per_id_in_order (d : SDict) (hd : (d.map (·.1)).Nodup) :
    perId d (d.map (·.1)) = some (positional d) := by
  have key : (d.map (·.1)).filterMap d.get? = d.map (·.2) := by
    induction d with
    | nil => rfl
    | cons p t ih =>
      have hd' : (t.map (·.1)).Nodup := (List.nodup_cons.mp (by simpa using hd)).2
      have hp' : p.1 ∉ t.map (·.1) := (List.nodup_cons.mp (by simpa using hd)).1
      simp only [List.map_cons]
      rw [List.filterMap_cons_some (b := p.2) (by rw [get?_cons]; simp)]
      congr 1
      rw [← ih hd']
      apply List.filterMap_congr
      intro i hi
      rw [get?_cons]
      have : p.1 ≠ i := by rintro rfl; exact hp' hi
      simp [this]
  unfold perId positional
  simp [key]

/-- `draw_nodes`: one marker per node, at its position, in node order; with a per-ID dict for node_size / node_fc /
    node_lw the k-th marker carries the dict's value at the k-th node -/
theorem draw_nodes_spec (h : Net) (pos : Pos) (d : SDict) :
    (markers h pos).length = h.nodes.length ∧
    (∀ k (hk : k < h.nodes.length), (markers h pos)[k]? = some (pos h.nodes[k])) ∧
    ∀ vs, markerStyles h d = some vs →
      vs.length = h.nodes.length ∧ ∀ k (hk : k < h.nodes.length), vs[k]? = d.get? h.nodes[k] := by
  refine ⟨(markers_eq h pos).1, (markers_eq h pos).2, ?_⟩
  intro vs hv
  have hf := (per_id_spec d h.nodes).1 vs hv
  refine ⟨hf.length_eq.symm, ?_⟩
  intro k hk
  rcases forall2_getElem? hf k with ⟨h1, _⟩ | ⟨a, b, h1, h2, h3⟩
  · simp at h1; omega
  · rw [List.getElem?_eq_getElem hk] at h1
    cases h1
    rw [h2, h3]

/-- with a per-ID dict for dyad_lw / dyad_color every line carries the dict's value at its own edge ID -/
theorem segment_styles_spec (h : Net) (pos : Pos) (d : SDict) (vs : List SVal)
    (hv : segmentStyles h d = some vs) :
    List.Forall₂ (fun s v => d.get? s.e.1 = some v) (segments h pos) vs := by
  have hf := (per_id_spec d _).1 vs hv
  unfold segments
  rw [List.forall₂_map_left_iff] at hf ⊢
  exact hf

/-- with a per-ID dict for edge_fc / edge_ec every polygon, in drawing order, carries the dict's value at its own
    edge ID (the value array is built in edge order and re-indexed by the same permutation as the patches) -/
theorem polygon_styles_spec (h : Net) (pos : Pos) (m : Int) (perm : List Nat) (d : SDict) (cs : List SVal)
    (hc : polygonStyles h m perm d = some cs) :
    List.Forall₂ (fun p v => d.get? p.e.1 = some v) (polygonsWith h pos m perm) cs := by
  unfold polygonStyles at hc
  cases hv : perId d ((polyEdges h m).map (·.1)) with
  | none => rw [hv] at hc; cases hc
  | some vs =>
    rw [hv] at hc
    simp only [Option.map_some] at hc
    cases hc
    have hf := (per_id_spec d _).1 vs hv
    rw [List.forall₂_map_left_iff] at hf
    unfold polygonsWith
    apply forall2_filterMap_pair
    intro i
    rcases forall2_getElem? hf i with ⟨h1, h2⟩ | ⟨a, b, h1, h2, h3⟩
    · left; simp [h1, h2]
    · right; exact ⟨polyOf pos a, b, by simp [h1], h2, by simpa [polyOf] using h3⟩

/-- a segment for e iff |e| = 2 (one per such edge, in edge order); its endpoints are its two members' positions -/
theorem segments_spec (h : Net) (pos : Pos) :
    (segments h pos).map (·.e) = h.edges.filter (fun p => p.2.length = 2) ∧
    (∀ p ∈ h.edges, (∃ s ∈ segments h pos, s.e = p) ↔ p.2.length = 2) ∧
    ∀ s ∈ segments h pos, ∃ a b, s.e.2 = [a, b] ∧ s.a = pos a ∧ s.b = pos b := by
  refine ⟨?_, ?_, ?_⟩
  · simp [segments, dyads, segOf, List.map_map, Function.comp_def]
  · intro p hp
    constructor
    · rintro ⟨s, hs, rfl⟩
      simp only [segments, dyads, List.mem_map, List.mem_filter] at hs
      obtain ⟨q, ⟨_, hl⟩, rfl⟩ := hs
      simpa [segOf] using hl
    · intro hl
      exact ⟨segOf pos p, by simp [segments, dyads]; exact ⟨p.1, p.2, ⟨hp, hl⟩, rfl⟩, rfl⟩
  · intro s hs
    simp only [segments, dyads, List.mem_map, List.mem_filter] at hs
    obtain ⟨p, ⟨_, hl⟩, rfl⟩ := hs
    have hl : p.2.length = 2 := by simpa using hl
    match hp : p.2, hl with
    | [a, b], _ => exact ⟨a, b, by simp [segOf, hp]⟩

/-- `_CCW_sort` only permutes the points -/
theorem ccw_sort_perm (pts : List Pt) : (ccwSort pts).Perm pts := by
  unfold ccwSort
  split
  · exact List.Perm.refl _
  · exact List.mergeSort_perm _ _

/-- for every admissible `np.argsort` result: the polygons are, up to order, exactly the edges with
    3 ≤ |e| ≤ max_order + 1 (one each), they are drawn by non-increasing size, and the vertex multiset of each
    is exactly its members' positions -/
theorem polygons_spec (h : Net) (pos : Pos) (m : Int) (perm : List Nat)
    (hp : isArgsort (sizesOf h m) perm = true) :
    ((polygonsWith h pos m perm).map (·.e)).Perm
        (h.edges.filter (fun p => 3 ≤ p.2.length ∧ (p.2.length : Int) - 1 ≤ m)) ∧
    (polygonsWith h pos m perm).Pairwise (fun a b => b.e.2.length ≤ a.e.2.length) ∧
    ∀ p ∈ polygonsWith h pos m perm, p.verts.Perm (p.e.2.map pos) := by
  rw [isArgsort_iff] at hp
  refine ⟨?_, polygonsWith_sorted h pos m perm hp.2, polygonsWith_verts h pos m perm⟩
  have := polygonsWith_edges h pos m perm (by simpa [sizesOf] using hp.1)
  simpa [polyEdges] using this

/-- the default oracle (a stable sort) is an admissible argsort, so the default call never fails -/
theorem stable_argsort_valid (sizes : List Nat) : isArgsort sizes (stableArgsort sizes) = true := by
  rw [isArgsort_iff]
  unfold stableArgsort
  refine ⟨List.mergeSort_perm _ _, ?_⟩
  have := List.pairwise_mergeSort (le := fun i j => decide (sizes.getD i 0 ≤ sizes.getD j 0))
    (by intro a b c hab hbc; simp at *; omega) (by intro a b; simp; omega) (List.range sizes.length)
  simpa using this

/-- `draw_hyperedges`: with an admissible oracle (in particular the default one) the call succeeds and returns
    exactly `segments` and `polygonsWith` for the maximum order in force (`max_edge_order(H)` when none is given) -/
theorem draw_hyperedges_spec (h : Net) (pos : Pos) (mo : Option Int) (perm : Option (List Nat))
    (hp : ∀ p, perm = some p → isArgsort (sizesOf h (mo.getD (maxOrder h))) p = true) :
    ∃ p, isArgsort (sizesOf h (mo.getD (maxOrder h))) p = true ∧
      drawHyperedges h pos mo perm = some (segments h pos, polygonsWith h pos (mo.getD (maxOrder h)) p) := by
  unfold drawHyperedges
  cases mo <;> cases perm
  case none.none => exact ⟨_, stable_argsort_valid _, by simp [stable_argsort_valid]⟩
  case some.none => exact ⟨_, stable_argsort_valid _, by simp [stable_argsort_valid]⟩
  case none.some p =>
    have h1 := hp p rfl
    simp only [Option.getD_none] at h1 ⊢
    exact ⟨p, h1, by simp [h1]⟩
  case some.some m p =>
    have h1 := hp p rfl
    simp only [Option.getD_some] at h1 ⊢
    exact ⟨p, h1, by simp [h1]⟩

/-- `draw` of a hypergraph: succeeds; markers, segments and polygons are the three parts above, with
    `max_order` falsy (None or 0) replaced by the maximum edge order -/
theorem draw_spec (h : Net) (pos : Pos) (mo : Option Int) :
    ∃ p, isArgsort (sizesOf h ((truthy mo).getD (maxOrder h))) p = true ∧
      draw .hg h pos mo none = .ok { markers := markers h pos, segments := segments h pos,
                                     polygons := polygonsWith h pos ((truthy mo).getD (maxOrder h)) p } := by
  obtain ⟨p, hp, hd⟩ := draw_hyperedges_spec h pos (some ((truthy mo).getD (maxOrder h))) none (by simp)
  refine ⟨p, by simpa using hp, ?_⟩
  have hdraw : draw .hg h pos mo none =
      (match drawHyperedges h pos (some ((truthy mo).getD (maxOrder h))) none with
       | none => .error .argsort
       | some r => .ok { markers := markers h pos, segments := r.1, polygons := r.2 }) := by
    unfold draw
    cases truthy mo <;> rfl
  rw [hdraw, hd]
  simp

/-- |e| · barycenter(e) = Σ positions of the members of e (over ℚ, per coordinate) -/
theorem barycenter_spec (pos : Pos) (ms : List PyId) (hne : ms ≠ []) :
    ∃ c, barycenter pos ms = some c ∧
      (ms.length : Rat) * c.1 = ((ms.map pos).map (·.1)).sum ∧
      (ms.length : Rat) * c.2 = ((ms.map pos).map (·.2)).sum := by
  unfold barycenter mean
  have h0 : ms.map pos ≠ [] := by simpa using hne
  have hl : ((ms.length : Nat) : Rat) ≠ 0 := by
    have : 0 < ms.length := List.length_pos_iff.mpr hne
    exact_mod_cast (Nat.pos_iff_ne_zero.mp this)
  simp only [h0, if_false, List.length_map]
  refine ⟨_, rfl, ?_, ?_⟩
  · rw [← sumPts_fst]; field_simp
  · rw [← sumPts_snd]; field_simp

/-- `edge_positions_from_barycenters`: one entry per edge, keyed by its ID, in edge order; the entry of an edge with
    members is a point c with |e| · c = Σ positions of its members -/
theorem edge_positions_spec (h : Net) (pos : Pos) :
    (edgePositions h pos).map (·.1) = h.edgeIds ∧
    ∀ i (hi : i < h.edges.length), h.edges[i].2 ≠ [] →
      ∃ c, (edgePositions h pos)[i]? = some (h.edges[i].1, some c) ∧
        (h.edges[i].2.length : Rat) * c.1 = ((h.edges[i].2.map pos).map (·.1)).sum ∧
        (h.edges[i].2.length : Rat) * c.2 = ((h.edges[i].2.map pos).map (·.2)).sum := by
  refine ⟨(edgePositions_eq h pos).1, ?_⟩
  intro i hi hne
  obtain ⟨c, hc, h1, h2⟩ := barycenter_spec pos h.edges[i].2 hne
  exact ⟨c, by rw [(edgePositions_eq h pos).2 i hi, hc], h1, h2⟩

/-- for duplicate-free node and edge ID lists (what every network satisfies, `Net.WF`) the key construction of
    every layout family — the empty graph of `_process_params` zipped with the random rows, the relabelled graph of
    the adjacency matrix, the augmented projection restricted to `H.nodes`, the index maps of `to_bipartite_graph`
    inverted over the spring layout of the bipartite graph, `zip(list(H.nodes), pos)` — returns positions for
    exactly the nodes, in node order (the bipartite layout: and exactly the edges, in edge order); simplicial-complex
    inputs go through `from_max_simplices`, which keeps the node set -/
theorem layout_keys_spec (f : Family) (c : Cls) (h : Net) (hn : h.nodes.Nodup) (he : h.edgeIds.Nodup) :
    layoutKeys f c h = some (h.nodes, if f = .bipartite then some h.edgeIds else none) := by
  cases f
  case random =>
    simp only [layoutKeys, randomKeys, graphNodes, asHypergraph_nodes]
    rw [dedup_of_nodup _ hn, zipKeys_self _ hn]
    simp
  case pairwise =>
    simp only [layoutKeys, pairwiseKeys, graphNodes, asHypergraph_nodes]
    rw [range_map_getD, dedup_of_nodup _ hn]
    simp
  case barycenter =>
    simp only [layoutKeys]
    rw [restrictKeys_of_subset]
    · simp [asHypergraph_nodes]
    · intro k hk
      unfold augmentedNodes
      simp [hk]
  case bipartite =>
    have hlen : h.edgeIds.length = h.edges.length := by simp [Net.edgeIds]
    have h1 : (h.nodes.zip (List.range h.nodes.length)).map (·.1) = h.nodes := List.map_fst_zip (by simp)
    have h2 : (h.edgeIds.zip (List.range' h.nodes.length h.edges.length)).map (·.1) = h.edgeIds :=
      List.map_fst_zip (by simp [hlen])
    have h3 : (h.nodes.zip (List.range h.nodes.length)).map (·.2) = List.range h.nodes.length :=
      List.map_snd_zip (by simp)
    have h4 : (h.edgeIds.zip (List.range' h.nodes.length h.edges.length)).map (·.2)
        = List.range' h.nodes.length h.edges.length := List.map_snd_zip (by simp [hlen])
    simp only [layoutKeys, bipartiteKeys, graphNodes, h1, h2, h3, h4]
    rw [dedup_of_nodup _ hn, dedup_of_nodup _ he, dedup_of_nodup _ (nodup_range_append_range' _ _)]
    have hall : ((h.nodes.zip (List.range h.nodes.length) ++ h.edgeIds.zip (List.range' h.nodes.length h.edges.length)).all
        (fun p => decide (p.2 ∈ List.range h.nodes.length ++ List.range' h.nodes.length h.edges.length))) = true := by
      rw [List.all_eq_true]
      intro p hp
      rcases List.mem_append.mp hp with hp | hp
      · have : p.2 ∈ List.range h.nodes.length := by rw [← h3]; exact List.mem_map.mpr ⟨p, hp, rfl⟩
        simp only [decide_eq_true_eq, List.mem_append]; exact Or.inl this
      · have : p.2 ∈ List.range' h.nodes.length h.edges.length := by rw [← h4]; exact List.mem_map.mpr ⟨p, hp, rfl⟩
        simp only [decide_eq_true_eq, List.mem_append]; exact Or.inr this
    rw [hall]
    simp
  case circular =>
    simp only [layoutKeys, circularKeys]
    split
    · simp [*]
    · simp [*]
    · rw [zipKeys_self _ hn]; simp

/-- the k-th phantom label is `max int label + 1 + k` (`0 + k` without int labels); it is not a node label,
    phantom labels are pairwise different, one per edge with ≥ 2 members -/
theorem phantom_fresh (h : Net) :
    (∀ p ∈ phantomIds h, p ∉ h.nodes) ∧ (phantomIds h).Nodup ∧
    (phantomIds h).length = (h.edges.filter (fun p => 2 ≤ p.2.length)).length ∧
    ∀ k (hk : k < (phantomIds h).length), (phantomIds h)[k] = PyId.int (phantomStart h.nodes + k) := by
  unfold phantomIds
  refine ⟨?_, ?_, by simp, ?_⟩
  · intro p hp hn
    simp only [List.mem_map] at hp
    obtain ⟨q, _, rfl⟩ := hp
    have := lt_phantomStart _ _ hn
    omega
  · show List.Pairwise _ _
    rw [List.pairwise_map]
    refine (List.nodup_range (n := _)).imp ?_
    intro a b hab hc
    have := Atom.int.inj (PyId.atom.inj hc)
    omega
  · intro k hk
    simp


/-! ### simplicial complexes -/

/-- the hypergraph `H_` that `draw_simplices` draws: every edge is a maximal simplex (of the max_order-truncated
    complex) or a pair of nodes inside one; every maximal simplex and every such pair is present (as a set);
    no member set occurs twice (`cleanup(multiedges=False)`) -/
theorem sc_net_spec (h : Net) (mo : Option Int) :
    (∀ e ∈ (simplicesNet h mo).edges, e.2 ∈ maxSets h mo ∨ ∃ t ∈ maxSets h mo, e.2 ∈ pairsOf t) ∧
    (∀ t ∈ maxSets h mo, ∃ e ∈ (simplicesNet h mo).edges, sameSet t e.2 = true) ∧
    (∀ t ∈ maxSets h mo, ∀ pr ∈ pairsOf t, ∃ e ∈ (simplicesNet h mo).edges, sameSet pr e.2 = true) ∧
    (simplicesNet h mo).edges.Pairwise (fun a b => sameSet a.2 b.2 = false) := by
  obtain ⟨added, hE, hadd⟩ := simplicesNet_edges h mo
  rw [hE]
  have hmem : ∀ s, s ∈ added.map (·.2) ↔ s ∈ maxSets h mo ∨ ∃ t ∈ maxSets h mo, s ∈ pairsOf t := by
    intro s; rw [hadd, List.mem_append, mem_subfaces1]
  refine ⟨?_, ?_, ?_, mergeDuplicates_distinct added⟩
  · intro e he
    exact (hmem e.2).mp (List.mem_map.mpr ⟨e, mergeDuplicates_subset added e he, rfl⟩)
  · intro t ht
    obtain ⟨e, he, rfl⟩ := List.mem_map.mp ((hmem t).mpr (Or.inl ht))
    exact mergeDuplicates_complete added e he
  · intro t ht pr hpr
    obtain ⟨e, he, rfl⟩ := List.mem_map.mp ((hmem pr).mpr (Or.inr ⟨t, ht, hpr⟩))
    exact mergeDuplicates_complete added e he

/-- the maximal simplices: simplices of order ≤ max_order (all of them when max_order is falsy) contained in no
    other such simplex except as the same set; every such simplex lies inside a maximal one -/
theorem max_sets_spec (h : Net) (mo : Option Int) :
    (∀ t, t ∈ maxSets h mo ↔ ∃ p ∈ (truncate mo h).edges, p.2 = t ∧
        ∀ q ∈ (truncate mo h).edges, isSub t q.2 = true → isSub q.2 t = true) ∧
    (∀ p ∈ (truncate mo h).edges, ∃ t ∈ maxSets h mo, isSub p.2 t = true) ∧
    (∀ p, p ∈ (truncate mo h).edges ↔ p ∈ h.edges ∧ ∀ m, truthy mo = some m → (p.2.length : Int) - 1 ≤ m) := by
  refine ⟨?_, ?_, ?_⟩
  · intro t
    unfold maxSets maximalEdges isMaximal
    simp only [List.mem_map, List.mem_filter, List.all_eq_true]
    constructor
    · rintro ⟨p, ⟨hp, hm⟩, rfl⟩
      refine ⟨p, hp, rfl, ?_⟩
      intro q hq hs
      have := hm q hq
      simpa [hs] using this
    · rintro ⟨p, hp, rfl, hm⟩
      refine ⟨p, ⟨hp, ?_⟩, rfl⟩
      intro q hq
      cases hs : isSub p.2 q.2 with
      | false => simp
      | true => simp [hm q hq hs]
  · intro p hp
    obtain ⟨q, hq, hs⟩ := exists_maximal _ _ p hp (Nat.le_refl _)
    exact ⟨q.2, List.mem_map.mpr ⟨q, hq, rfl⟩, hs⟩
  · intro p
    unfold truncate
    cases truthy mo with
    | none => simp
    | some m => simp

/-- `draw_simplices` is `draw_hyperedges` on `H_` (so `segments_spec` and `polygons_spec` apply to it) -/
theorem sc_plan_spec (h : Net) (pos : Pos) (mo : Option Int) (r : List Seg × List Poly)
    (hr : drawSimplices h pos mo = .ok r) :
    ∃ p, isArgsort (sizesOf (simplicesNet h mo) ((truthy mo).getD (maxOrder (simplicesNet h mo)))) p = true ∧
      r = (segments (simplicesNet h mo) pos,
           polygonsWith (simplicesNet h mo) pos ((truthy mo).getD (maxOrder (simplicesNet h mo))) p) := by
  obtain ⟨p, hp, hd⟩ := draw_hyperedges_spec (simplicesNet h mo) pos
    (some ((truthy mo).getD (maxOrder (simplicesNet h mo)))) none (by simp)
  have key : drawSimplices h pos mo =
      (if (fromMaxSimplices (truncate mo h)).edges = [] then .error .value
       else if (fromMaxSimplices (truncate mo h)).edges.all (fun p => p.2.length ≤ 1) then .error .lib
       else match drawHyperedges (simplicesNet h mo) pos (some ((truthy mo).getD (maxOrder (simplicesNet h mo)))) none with
         | none => .error .argsort
         | some r => .ok r) := by
    unfold drawSimplices
    cases truthy mo <;> rfl
  rw [key, hd] at hr
  refine ⟨p, by simpa using hp, ?_⟩
  split at hr
  · cases hr
  · split at hr
    · cases hr
    · simpa using hr.symm
/-- two different nodes are joined by a line iff they lie together in a simplex of order ≤ max_order
    (for a face-closed complex: iff {a, b} is one of its simplices) -/
theorem sc_segments_spec (h : Net) (pos : Pos) (mo : Option Int) (r : List Seg × List Poly)
    (hr : drawSimplices h pos mo = .ok r) (hnd : ∀ p ∈ h.edges, p.2.Nodup) (a b : PyId) (hab : a ≠ b) :
    ((∃ s ∈ r.1, sameSet s.e.2 [a, b] = true) ↔ ∃ p ∈ (truncate mo h).edges, a ∈ p.2 ∧ b ∈ p.2) ∧
    r.1.Pairwise (fun s s' => sameSet s.e.2 s'.e.2 = false) := by
  obtain ⟨perm, _, rfl⟩ := sc_plan_spec h pos mo r hr
  obtain ⟨hB, hC1, hC2, hD⟩ := sc_net_spec h mo
  obtain ⟨hM, hG, hT⟩ := max_sets_spec h mo
  obtain ⟨hseg1, hseg2, hseg3⟩ := segments_spec (simplicesNet h mo) pos
  simp only []
  refine ⟨⟨?_, ?_⟩, ?_⟩
  · rintro ⟨s, hs, hsame⟩
    have hsE : s.e ∈ (simplicesNet h mo).edges := by
      have : s.e ∈ (segments (simplicesNet h mo) pos).map (·.e) := List.mem_map.mpr ⟨s, hs, rfl⟩
      rw [hseg1] at this
      exact (List.mem_filter.mp this).1
    have hsame' := (sameSet_iff _ _).mp hsame
    rcases hB s.e hsE with hm | ⟨t, ht, hpr⟩
    · obtain ⟨p, hp, hpe, _⟩ := (hM _).mp hm
      exact ⟨p, hp, by rw [hpe]; exact (hsame' a).mpr (by simp), by rw [hpe]; exact (hsame' b).mpr (by simp)⟩
    · obtain ⟨p, hp, rfl, _⟩ := (hM _).mp ht
      obtain ⟨x, y, hxy, hx, hy⟩ := mem_pairsOf hpr
      refine ⟨p, hp, ?_, ?_⟩
      · have := (hsame' a).mpr (by simp); rw [hxy] at this
        rcases List.mem_pair.mp this with rfl | rfl <;> assumption
      · have := (hsame' b).mpr (by simp); rw [hxy] at this
        rcases List.mem_pair.mp this with rfl | rfl <;> assumption
  · rintro ⟨p, hp, ha, hb⟩
    obtain ⟨t, ht, hsub⟩ := hG p hp
    have hsub' := (isSub_iff _ _).mp hsub
    obtain ⟨pr, hpr, hprs⟩ := pairsOf_complete (hsub' a ha) (hsub' b hb) hab
    obtain ⟨e, he, hes⟩ := hC2 t ht pr hpr
    have hsame : sameSet e.2 [a, b] = true := sameSet_trans (sameSet_symm hes) hprs
    have hlen : e.2.length = 2 := by
      rcases hB e he with hm | ⟨t', _, hpr'⟩
      · exact nodup_pair_length (maxSets_nodup h mo hnd _ hm) hsame hab
      · exact length_of_mem_pairsOf hpr'
    obtain ⟨s, hs, hse⟩ := (hseg2 e he).mpr hlen
    exact ⟨s, hs, by rw [hse]; exact hsame⟩
  · have : ((segments (simplicesNet h mo) pos).map (·.e)).Pairwise (fun a b => sameSet a.2 b.2 = false) := by
      rw [hseg1]; exact hD.sublist List.filter_sublist
    rwa [List.pairwise_map] at this

/-- the polygons of a complex are maximal simplices (of the max_order-truncated complex) with ≥ 3 nodes, each
    drawn once with exactly its members' positions as vertices; every such maximal simplex up to the maximum
    order in force is drawn -/
theorem sc_polygons_spec (h : Net) (pos : Pos) (mo : Option Int) (r : List Seg × List Poly)
    (hr : drawSimplices h pos mo = .ok r) (hnd : ∀ p ∈ h.edges, p.2.Nodup) :
    (∀ q ∈ r.2, q.e.2 ∈ maxSets h mo ∧ 3 ≤ q.e.2.length ∧ q.verts.Perm (q.e.2.map pos)) ∧
    (∀ t ∈ maxSets h mo, 3 ≤ t.length →
        (t.length : Int) - 1 ≤ (truthy mo).getD (maxOrder (simplicesNet h mo)) →
        ∃ q ∈ r.2, sameSet t q.e.2 = true) ∧
    r.2.Pairwise (fun q q' => sameSet q.e.2 q'.e.2 = false) ∧
    r.2.Pairwise (fun q q' => q'.e.2.length ≤ q.e.2.length) := by
  obtain ⟨perm, hperm, rfl⟩ := sc_plan_spec h pos mo r hr
  obtain ⟨hB, hC1, hC2, hD⟩ := sc_net_spec h mo
  obtain ⟨hP1, hP2, hP3⟩ := polygons_spec (simplicesNet h mo) pos _ perm hperm
  simp only []
  have hmemE : ∀ q ∈ polygonsWith (simplicesNet h mo) pos ((truthy mo).getD (maxOrder (simplicesNet h mo))) perm,
      q.e ∈ (simplicesNet h mo).edges ∧ 3 ≤ q.e.2.length := by
    intro q hq
    have : q.e ∈ (polygonsWith (simplicesNet h mo) pos ((truthy mo).getD (maxOrder (simplicesNet h mo))) perm).map (·.e) :=
      List.mem_map.mpr ⟨q, hq, rfl⟩
    have := (hP1.mem_iff).mp this
    have h2 := List.mem_filter.mp this
    exact ⟨h2.1, by have := h2.2; simp at this; exact this.1⟩
  refine ⟨?_, ?_, ?_, hP2⟩
  · intro q hq
    obtain ⟨hE, h3⟩ := hmemE q hq
    refine ⟨?_, h3, hP3 q hq⟩
    rcases hB q.e hE with hm | ⟨t, _, hpr⟩
    · exact hm
    · have := length_of_mem_pairsOf hpr; omega
  · intro t ht h3 hm
    obtain ⟨e, he, hes⟩ := hC1 t ht
    have htn := maxSets_nodup h mo hnd t ht
    have hlen : e.2.length = t.length := by
      rcases hB e he with hm' | ⟨t', _, hpr⟩
      · have hen := maxSets_nodup h mo hnd _ hm'
        exact ((List.perm_ext_iff_of_nodup hen htn).mpr (fun x => ((sameSet_iff _ _).mp hes x).symm)).length_eq
      · exfalso
        have hsub : t ⊆ e.2 := fun x hx => ((sameSet_iff _ _).mp hes x).mp hx
        have := (List.subperm_of_subset htn hsub).length_le
        have := length_of_mem_pairsOf hpr
        omega
    have hin : e ∈ (simplicesNet h mo).edges.filter
        (fun p => 3 ≤ p.2.length ∧ (p.2.length : Int) - 1 ≤ (truthy mo).getD (maxOrder (simplicesNet h mo))) := by
      refine List.mem_filter.mpr ⟨he, ?_⟩
      rw [hlen]; simp; exact ⟨h3, by omega⟩
    obtain ⟨q, hq, hqe⟩ := List.mem_map.mp ((hP1.mem_iff).mpr hin)
    exact ⟨q, hq, by rw [hqe]; exact hes⟩
  · have h1 : ((simplicesNet h mo).edges.filter
        (fun p => 3 ≤ p.2.length ∧ (p.2.length : Int) - 1 ≤ (truthy mo).getD (maxOrder (simplicesNet h mo)))).Pairwise
        (fun a b => sameSet a.2 b.2 = false) := hD.sublist List.filter_sublist
    have h2 := (hP1.pairwise_iff (R := fun (a b : Edge) => sameSet a.2 b.2 = false) (by
      intro x y hxy
      cases hc : sameSet y.2 x.2 with
      | false => rfl
      | true => rw [sameSet_symm hc] at hxy; exact absurd hxy (by simp))).mpr h1
    rwa [List.pairwise_map] at h2
/-- drawing a complex succeeds as soon as one simplex (of order ≤ max_order) has two or more nodes -/
theorem sc_draw_succeeds (h : Net) (pos : Pos) (mo : Option Int) (hnd : ∀ p ∈ h.edges, p.2.Nodup)
    (hbig : ∃ p ∈ (truncate mo h).edges, 2 ≤ p.2.length) :
    ∃ r, drawSimplices h pos mo = .ok r := by
  obtain ⟨p, hp, h2⟩ := hbig
  obtain ⟨hM, hG, hT⟩ := max_sets_spec h mo
  obtain ⟨t, ht, hsub⟩ := hG p hp
  have hlen : 2 ≤ t.length := by
    have hsub' : p.2 ⊆ t := (isSub_iff _ _).mp hsub
    have := (List.subperm_of_subset (hnd p ((hT p).mp hp).1) hsub').length_le
    omega
  have hmem : t ∈ (fromMaxSimplices (truncate mo h)).edges.map (·.2) := by
    rw [fromMax_members]; exact ht
  obtain ⟨e, he, het⟩ := List.mem_map.mp hmem
  obtain ⟨q, _, hd⟩ := draw_hyperedges_spec (simplicesNet h mo) pos
    (some ((truthy mo).getD (maxOrder (simplicesNet h mo)))) none (by simp)
  have key : drawSimplices h pos mo =
      (if (fromMaxSimplices (truncate mo h)).edges = [] then .error .value
       else if (fromMaxSimplices (truncate mo h)).edges.all (fun p => p.2.length ≤ 1) then .error .lib
       else match drawHyperedges (simplicesNet h mo) pos (some ((truthy mo).getD (maxOrder (simplicesNet h mo)))) none with
         | none => .error .argsort
         | some r => .ok r) := by
    unfold drawSimplices
    cases truthy mo <;> rfl
  rw [key, hd]
  have h1 : (fromMaxSimplices (truncate mo h)).edges ≠ [] := by
    intro hc; rw [hc] at he; simp at he
  have h2' : ((fromMaxSimplices (truncate mo h)).edges.all (fun p => decide (p.2.length ≤ 1))) = false := by
    rw [List.all_eq_false]
    exact ⟨e, he, by rw [het]; simp; omega⟩
  simp [h1, h2']

/-- `draw` of a complex: the node markers plus `draw_simplices` with the maximum order in force -/
theorem draw_sc_spec (h : Net) (pos : Pos) (mo : Option Int) (perm : Option (List Nat)) (p : Plan)
    (hd : draw .sc h pos mo perm = .ok p) :
    p.markers = markers h pos ∧
    drawSimplices h pos (some ((truthy mo).getD (maxOrder h))) = .ok (p.segments, p.polygons) := by
  have key : draw .sc h pos mo perm =
      (drawSimplices h pos (some ((truthy mo).getD (maxOrder h)))).map
        (fun r => { markers := markers h pos, segments := r.1, polygons := r.2 }) := by
    unfold draw
    cases truthy mo <;> rfl
  rw [key] at hd
  cases hs : drawSimplices h pos (some ((truthy mo).getD (maxOrder h))) with
  | error e => rw [hs] at hd; cases hd
  | ok r =>
    rw [hs] at hd
    simp only [Except.map] at hd
    cases hd
    exact ⟨rfl, rfl⟩

/-! ### non-vacuity -/

def exNet : Net := { nodes := [.int 1, .int 2, .int 3, .str "a"],
                     edges := [(.int 0, [.int 1, .int 2]), (.int 1, [.int 1, .int 2, .int 3]), (.int 2, [.str "a"]),
                               (.int 3, [.int 2, .int 3, .str "a", .int 1])] }
def exPos : Pos := fun k => if k = .int 1 then (0, 0) else if k = .int 2 then (3, 0) else if k = .int 3 then (3, 2) else (0, 5)

example : (segments exNet exPos).map (fun s => (s.e.1, s.a, s.b)) = [(.int 0, (0, 0), (3, 0))] := by decide
example : isArgsort (sizesOf exNet 3) [0, 1] = true := by decide
example : ((polygonsWith exNet exPos 3 [0, 1]).map (·.e.1)) = [.int 3, .int 1] := by decide
example : ((polygonsWith exNet exPos 2 [0]).map (·.e.1)) = [.int 1] := by decide
example : phantomIds exNet = [.int 4, .int 5, .int 6] := by decide
def exSC : Net := { nodes := [.int 1, .int 2, .int 3, .int 4],
                    edges := [(.int 0, [.int 1, .int 2, .int 3]), (.int 1, [.int 1, .int 2]), (.int 2, [.int 1, .int 3]),
                              (.int 3, [.int 2, .int 3]), (.int 4, [.int 3, .int 4])] }
example : maxSets exSC none = [[.int 1, .int 2, .int 3], [.int 3, .int 4]] := by decide
example : ((simplicesNet exSC none).edges.map (·.2)) =
    [[.int 1, .int 2, .int 3], [.int 1, .int 2], [.int 1, .int 3], [.int 2, .int 3], [.int 3, .int 4]] := by decide
example : ∃ p ∈ (truncate (some 1) exSC).edges, 2 ≤ p.2.length := ⟨(.int 1, [.int 1, .int 2]), by decide, by decide⟩
example : layoutKeys .bipartite .hg exNet = some (exNet.nodes, some [.int 0, .int 1, .int 2, .int 3]) := by decide
example : exNet.nodes.Nodup ∧ exNet.edgeIds.Nodup ∧ exSC.nodes.Nodup ∧ exSC.edgeIds.Nodup := by decide
example : layoutKeys .pairwise .sc exSC = some (exSC.nodes, none) := by decide
example : layoutKeys .random .hg exNet = some (exNet.nodes, none) := by decide
example : layoutKeys .circular .hg exNet = some (exNet.nodes, none) := by decide
-- without the hypothesis of `layout_keys_spec` the keys are the distinct labels, not the list
example : layoutKeys .circular .hg { nodes := [.int 1, .int 1, .int 2], edges := [] } = some ([.int 1, .int 2], none) := by decide
/-- a per-node dict listed in another order than the node view -/
def exDict : SDict := [(.int 3, .col "red"), (.str "a", .num 7), (.int 1, .col "blue"), (.int 2, .col "green")]
example : markerStyles exNet exDict = some [.col "blue", .col "green", .col "red", .num 7] := by decide
-- the positional reading of the unrepaired code gives node 1 the value stored under 3
example : positional exDict = [.col "red", .num 7, .col "blue", .col "green"] := by decide
example : perId exDict [.int 1, .int 9] = none := by decide
/-- a per-edge dict over all edge IDs, listed in another order than the edge view -/
def exEdgeDict : SDict := [(.int 3, .num 2), (.int 0, .num 5), (.int 1, .num 1), (.int 2, .num 9)]
example : segmentStyles exNet exEdgeDict = some [.num 5] := by decide
-- polygons are drawn [edge 3, edge 1] (larger first): values 2 and 1
example : polygonStyles exNet 3 [0, 1] exEdgeDict = some [.num 2, .num 1] := by decide

end Xgi.C20
