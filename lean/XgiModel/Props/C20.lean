/-
  C20 — layouts and drawings represent every node and edge faithfully: property theorems about the model
  functions of XgiModel/C20/Draw.lean that the driver (XgiModel/C20/Drive.lean) runs.

  What is proved, for every network, every position function and every `max_order`:
  * `markers_spec`      one marker per node, at its position, in node order;
  * `segments_spec`     a line for an edge iff it has two members, in edge order, joining its members' positions;
  * `polygons_spec`     for every argsort oracle: one polygon per edge with 3 ≤ |e| ≤ max_order + 1, drawn by
                        non-increasing size, vertex multiset = the members' positions (`ccw_sort_perm`);
                        `stable_argsort_valid`: the default oracle is admissible;
  * `draw_hyperedges_spec`, `draw_spec`: the composed calls succeed and consist of exactly these parts;
  * `sc_plan_spec`      the plan of a simplicial complex;
  * `barycenter_spec`, `edge_positions_spec`: |e| · barycenter = sum of the members' positions, keyed by edge ID;
  * `layout_keys_spec`  every layout family returns exactly the node set (bipartite: and the edge IDs);
  * `phantom_fresh`     phantom labels `max int label + 1 + k` are fresh, distinct, one per edge with ≥ 2 members.
  Finite coordinates of the numeric layouts, matplotlib's rendering and the style-argument handling are runtime
  behaviour exhibited by the correspondence check only.
-/
import XgiModel.C20.Lemmas

namespace Xgi.C20
open Xgi

/-- one marker per node, at its position, in node order -/
theorem markers_spec (h : Net) (pos : Pos) :
    (markers h pos).length = h.nodes.length ∧
    ∀ i (hi : i < h.nodes.length), (markers h pos)[i]? = some (pos h.nodes[i]) := by
  refine ⟨by simp [markers], ?_⟩
  intro i hi
  simp [markers, List.getElem?_eq_getElem hi]

/-- a segment for e iff |e| = 2 (one per such edge, in edge order); its endpoints are its two members' positions -/
theorem segments_spec (h : Net) (pos : Pos) :
    (segments h pos).map (·.e) = h.edges.filter (fun p => p.2.length = 2) ∧
    (∀ p ∈ h.edges, (∃ s ∈ segments h pos, s.e = p) ↔ p.2.length = 2) ∧
    ∀ s ∈ segments h pos, ∃ a b, s.e.2 = [a, b] ∧ s.a = pos a ∧ s.b = pos b := by
  refine ⟨?_, ?_, ?_⟩
  · simp [segments, dyads, segOf, List.map_map, Function.comp_def]
  · intro p hp
    constructor
    · rintro ⟨s, hs, rfl⟩
      simp only [segments, dyads, List.mem_map, List.mem_filter] at hs
      obtain ⟨q, ⟨_, hl⟩, rfl⟩ := hs
      simpa [segOf] using hl
    · intro hl
      exact ⟨segOf pos p, by simp [segments, dyads]; exact ⟨p.1, p.2, ⟨hp, hl⟩, rfl⟩, rfl⟩
  · intro s hs
    simp only [segments, dyads, List.mem_map, List.mem_filter] at hs
    obtain ⟨p, ⟨_, hl⟩, rfl⟩ := hs
    have hl : p.2.length = 2 := by simpa using hl
    match hp : p.2, hl with
    | [a, b], _ => exact ⟨a, b, by simp [segOf, hp]⟩

/-- `_CCW_sort` only permutes the points -/
theorem ccw_sort_perm (pts : List Pt) : (ccwSort pts).Perm pts := by
  unfold ccwSort
  split
  · exact List.Perm.refl _
  · exact List.mergeSort_perm _ _

/-- for every admissible `np.argsort` result: the polygons are, up to order, exactly the edges with
    3 ≤ |e| ≤ max_order + 1 (one each), they are drawn by non-increasing size, and the vertex multiset of each
    is exactly its members' positions -/
theorem polygons_spec (h : Net) (pos : Pos) (m : Int) (perm : List Nat)
    (hp : isArgsort (sizesOf h m) perm = true) :
    ((polygonsWith h pos m perm).map (·.e)).Perm
        (h.edges.filter (fun p => 3 ≤ p.2.length ∧ (p.2.length : Int) - 1 ≤ m)) ∧
    (polygonsWith h pos m perm).Pairwise (fun a b => b.e.2.length ≤ a.e.2.length) ∧
    ∀ p ∈ polygonsWith h pos m perm, p.verts.Perm (p.e.2.map pos) := by
  rw [isArgsort_iff] at hp
  refine ⟨?_, polygonsWith_sorted h pos m perm hp.2, polygonsWith_verts h pos m perm⟩
  have := polygonsWith_edges h pos m perm (by simpa [sizesOf] using hp.1)
  simpa [polyEdges] using this

/-- the default oracle (a stable sort) is an admissible argsort, so the default call never fails -/
theorem stable_argsort_valid (sizes : List Nat) : isArgsort sizes (stableArgsort sizes) = true := by
  rw [isArgsort_iff]
  unfold stableArgsort
  refine ⟨List.mergeSort_perm _ _, ?_⟩
  have := List.pairwise_mergeSort (le := fun i j => decide (sizes.getD i 0 ≤ sizes.getD j 0))
    (by intro a b c hab hbc; simp at *; omega) (by intro a b; simp; omega) (List.range sizes.length)
  simpa using this

/-- `draw_hyperedges`: with an admissible oracle (in particular the default one) the call succeeds and returns
    exactly `segments` and `polygonsWith` for the maximum order in force (`max_edge_order(H)` when none is given) -/
theorem draw_hyperedges_spec (h : Net) (pos : Pos) (mo : Option Int) (perm : Option (List Nat))
    (hp : ∀ p, perm = some p → isArgsort (sizesOf h (mo.getD (maxOrder h))) p = true) :
    ∃ p, isArgsort (sizesOf h (mo.getD (maxOrder h))) p = true ∧
      drawHyperedges h pos mo perm = some (segments h pos, polygonsWith h pos (mo.getD (maxOrder h)) p) := by
  unfold drawHyperedges
  cases mo <;> cases perm
  case none.none => exact ⟨_, stable_argsort_valid _, by simp [stable_argsort_valid]⟩
  case some.none => exact ⟨_, stable_argsort_valid _, by simp [stable_argsort_valid]⟩
  case none.some p =>
    have h1 := hp p rfl
    simp only [Option.getD_none] at h1 ⊢
    exact ⟨p, h1, by simp [h1]⟩
  case some.some m p =>
    have h1 := hp p rfl
    simp only [Option.getD_some] at h1 ⊢
    exact ⟨p, h1, by simp [h1]⟩

/-- `draw` of a hypergraph: succeeds; markers, segments and polygons are the three parts above, with
    `max_order` falsy (None or 0) replaced by the maximum edge order -/
theorem draw_spec (h : Net) (pos : Pos) (mo : Option Int) :
    ∃ p, isArgsort (sizesOf h ((truthy mo).getD (maxOrder h))) p = true ∧
      draw .hg h pos mo none = .ok { markers := markers h pos, segments := segments h pos,
                                     polygons := polygonsWith h pos ((truthy mo).getD (maxOrder h)) p } := by
  obtain ⟨p, hp, hd⟩ := draw_hyperedges_spec h pos (some ((truthy mo).getD (maxOrder h))) none (by simp)
  refine ⟨p, by simpa using hp, ?_⟩
  have hdraw : draw .hg h pos mo none =
      (match drawHyperedges h pos (some ((truthy mo).getD (maxOrder h))) none with
       | none => .error .argsort
       | some r => .ok { markers := markers h pos, segments := r.1, polygons := r.2 }) := by
    unfold draw
    cases truthy mo <;> rfl
  rw [hdraw, hd]
  simp

/-- |e| · barycenter(e) = Σ positions of the members of e (over ℚ, per coordinate) -/
theorem barycenter_spec (pos : Pos) (ms : List PyId) (hne : ms ≠ []) :
    ∃ c, barycenter pos ms = some c ∧
      (ms.length : Rat) * c.1 = ((ms.map pos).map (·.1)).sum ∧
      (ms.length : Rat) * c.2 = ((ms.map pos).map (·.2)).sum := by
  unfold barycenter mean
  have h0 : ms.map pos ≠ [] := by simpa using hne
  have hl : ((ms.length : Nat) : Rat) ≠ 0 := by
    have : 0 < ms.length := List.length_pos_iff.mpr hne
    exact_mod_cast (Nat.pos_iff_ne_zero.mp this)
  simp only [h0, if_false, List.length_map]
  refine ⟨_, rfl, ?_, ?_⟩
  · rw [← sumPts_fst]; field_simp
  · rw [← sumPts_snd]; field_simp

/-- `edge_positions_from_barycenters`: one entry per edge, keyed by its ID, in edge order, holding the barycenter -/
theorem edge_positions_spec (h : Net) (pos : Pos) :
    (edgePositions h pos).map (·.1) = h.edgeIds ∧
    ∀ i (hi : i < h.edges.length), (edgePositions h pos)[i]? = some (h.edges[i].1, barycenter pos h.edges[i].2) := by
  refine ⟨by simp [edgePositions, Net.edgeIds], ?_⟩
  intro i hi
  simp [edgePositions, List.getElem?_eq_getElem hi]

/-- every layout family returns positions for exactly the nodes (the bipartite layout: and exactly the edges);
    simplicial-complex inputs go through `from_max_simplices`, which keeps the node set -/
theorem layout_keys_spec (f : Family) (c : Cls) (h : Net) :
    layoutKeys f c h = some (h.nodes, if f = .bipartite then some h.edgeIds else none) := by
  cases f
  case barycenter =>
    simp only [layoutKeys]
    rw [restrictKeys_of_subset]
    · simp [asHypergraph_nodes]
    · intro k hk
      unfold augmentedNodes
      simp [hk]
  all_goals simp [layoutKeys, asHypergraph_nodes]

/-- the k-th phantom label is `max int label + 1 + k` (`0 + k` without int labels); it is not a node label,
    phantom labels are pairwise different, one per edge with ≥ 2 members -/
theorem phantom_fresh (h : Net) :
    (∀ p ∈ phantomIds h, p ∉ h.nodes) ∧ (phantomIds h).Nodup ∧
    (phantomIds h).length = (h.edges.filter (fun p => 2 ≤ p.2.length)).length ∧
    ∀ k (hk : k < (phantomIds h).length), (phantomIds h)[k] = PyId.int (phantomStart h.nodes + k) := by
  unfold phantomIds
  refine ⟨?_, ?_, by simp, ?_⟩
  · intro p hp hn
    simp only [List.mem_map] at hp
    obtain ⟨q, _, rfl⟩ := hp
    have := lt_phantomStart _ _ hn
    omega
  · show List.Pairwise _ _
    rw [List.pairwise_map]
    refine (List.nodup_range (n := _)).imp ?_
    intro a b hab hc
    have := Atom.int.inj (PyId.atom.inj hc)
    omega
  · intro k hk
    simp


/-! ### non-vacuity -/

def exNet : Net := { nodes := [.int 1, .int 2, .int 3, .str "a"],
                     edges := [(.int 0, [.int 1, .int 2]), (.int 1, [.int 1, .int 2, .int 3]), (.int 2, [.str "a"]),
                               (.int 3, [.int 2, .int 3, .str "a", .int 1])] }
def exPos : Pos := fun k => if k = .int 1 then (0, 0) else if k = .int 2 then (3, 0) else if k = .int 3 then (3, 2) else (0, 5)

example : (segments exNet exPos).map (fun s => (s.e.1, s.a, s.b)) = [(.int 0, (0, 0), (3, 0))] := by decide
example : isArgsort (sizesOf exNet 3) [0, 1] = true := by decide
example : ((polygonsWith exNet exPos 3 [0, 1]).map (·.e.1)) = [.int 3, .int 1] := by decide
example : ((polygonsWith exNet exPos 2 [0]).map (·.e.1)) = [.int 1] := by decide
example : phantomIds exNet = [.int 4, .int 5, .int 6] := by decide
example : layoutKeys .bipartite .hg exNet = some (exNet.nodes, some [.int 0, .int 1, .int 2, .int 3]) := by decide

end Xgi.C20
