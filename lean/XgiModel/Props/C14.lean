/-
  C14 — graph-reducible algorithms agree with their graph-theoretic definitions.
  Property theorems about the model functions of `XgiModel/C14/Algo.lean` (the ones the driver runs),
  for every well-formed network (`Net.WF`: distinct node IDs, distinct edge IDs, members duplicate-free nodes;
  a member list may be EMPTY — empty hyperedges are inside every theorem, and the section "empty hyperedges"
  says what each function does with them) and, for the directed bipartite graph, every `DiWF` directed network.
  `Adj h u v` : u ≠ v share a hyperedge (link of the clique expansion); `Reach h` its reflexive-transitive closure;
  `BAdj h` : incidence links of the node–edge bipartite graph.
-/
import XgiModel.C14.Lemmas
import XgiModel.C14.LemmasConv
import XgiModel.C14.LemmasSP
import XgiModel.C14.LemmasExt

namespace Xgi.C14
open Xgi

/-! ### `_plain_bfs` and the components -/

/-- the decisive one: with the fuel the model supplies, `_plain_bfs(H, src)` is exactly the set of nodes
    reachable from `src` in the clique expansion -/
theorem bfs_spec {h : Net} (wf : h.WF) {src : PyId} (hs : src ∈ h.nodes) (n : PyId) :
    n ∈ plainBfs h src ↔ Reach h src n := mem_plainBfs wf hs n

/-- the result is a set of nodes (no repetitions) -/
theorem bfs_nodup_subset {h : Net} (wf : h.WF) {src : PyId} (hs : src ∈ h.nodes) :
    (plainBfs h src).Nodup ∧ ∀ x ∈ plainBfs h src, x ∈ h.nodes :=
  ⟨(plainBfs_post wf hs).nodup, (plainBfs_post wf hs).sub⟩

/-- any larger fuel gives the same set: the loop has really terminated -/
theorem bfs_fuel_suffices {h : Net} (wf : h.WF) {src : PyId} (hs : src ∈ h.nodes) (extra : Nat) (n : PyId) :
    n ∈ bfsLevels h (h.nodes.length + 1 + extra) [] [src] ↔ n ∈ plainBfs h src := by
  rw [mem_plainBfs wf hs]
  exact (bfsLevels_post wf _ _ _ (bfsInv_init hs) (.inr (by simp; omega))).mem_iff n

/-- the components cover the node set -/
theorem components_cover {h : Net} (wf : h.WF) : ∀ n ∈ h.nodes, ∃ c ∈ components h, n ∈ c := by
  intro n hn
  have inv := compInv_components wf
  exact (inv.seenIff n).1 (inv.cover n hn)

/-- they are pairwise disjoint -/
theorem components_disjoint {h : Net} (wf : h.WF) :
    (components h).Pairwise (fun a b => ∀ x, x ∈ a → x ∉ b) := (compInv_components wf).disj

/-- each is a non-empty duplicate-free set of nodes and a full reachability class -/
theorem components_classes {h : Net} (wf : h.WF) : ∀ c ∈ components h,
    c ≠ [] ∧ c.Nodup ∧ (∀ x ∈ c, x ∈ h.nodes) ∧ ∀ x ∈ c, ∀ y, y ∈ c ↔ Reach h x y := by
  intro c hc
  obtain ⟨v, hv, e⟩ := (compInv_components wf).isBfs c hc
  subst e
  have post := plainBfs_post wf hv
  refine ⟨List.ne_nil_of_mem post.hasSrc, post.nodup, post.sub, ?_⟩
  intro x hx y
  have rx : Reach h v x := (post.mem_iff x).1 hx
  rw [post.mem_iff y]
  exact ⟨fun ry => rx.symm.trans ry, fun r => rx.trans r⟩

/-- reachability in the clique expansion = reachability through the node–edge bipartite graph -/
theorem reach_iff_bipartite {h : Net} (wf : h.WF) (u v : PyId) :
    Reach h u v ↔ Relation.ReflTransGen (BAdj h) (.node u) (.node v) :=
  ⟨bip_of_reach, fun r => reach_of_bip_aux wf r⟩

/-- the components coincide with the components of the node–edge bipartite graph restricted to nodes -/
theorem components_eq_bipartite {h : Net} (wf : h.WF) {u : PyId} (hu : u ∈ h.nodes) (v : PyId) :
    (∃ c ∈ components h, u ∈ c ∧ v ∈ c) ↔ Relation.ReflTransGen (BAdj h) (.node u) (.node v) := by
  rw [← reach_iff_bipartite wf]
  constructor
  · rintro ⟨c, hc, huc, hvc⟩
    exact ((components_classes wf c hc).2.2.2 u huc v).1 hvc
  · intro r
    obtain ⟨c, hc, huc⟩ := components_cover wf u hu
    exact ⟨c, hc, huc, ((components_classes wf c hc).2.2.2 u huc v).2 r⟩

/-- `number_connected_components` (its own loop) counts the components -/
theorem number_eq_length (h : Net) : numberCC h = (components h).length := by
  unfold numberCC components
  have := countStep_foldl h h.nodes ([], [])
  simp only [List.length_nil] at this
  rw [this]

/-- `is_connected` raises exactly on the empty node set -/
theorem is_connected_none_iff (h : Net) : isConnected h = none ↔ h.nodes = [] := by
  unfold isConnected; cases h.nodes <;> simp

/-- `is_connected` is true iff there is a node and all nodes are mutually reachable -/
theorem is_connected_spec {h : Net} (wf : h.WF) :
    isConnected h = some true ↔ h.nodes ≠ [] ∧ ∀ u ∈ h.nodes, ∀ v ∈ h.nodes, Reach h u v := by
  unfold isConnected
  cases hn : h.nodes with
  | nil => simp
  | cons v t =>
    have hv : v ∈ h.nodes := by rw [hn]; simp
    have post := plainBfs_post wf hv
    simp only [Option.some.injEq, beq_iff_eq, ne_eq, reduceCtorEq, not_false_eq_true, true_and]
    rw [← hn]
    constructor
    · intro hlen a ha b hb
      have hall := subset_of_nodup_length_le post.nodup post.sub (by omega)
      exact ((post.mem_iff a).1 (hall a ha)).symm.trans ((post.mem_iff b).1 (hall b hb))
    · intro hall
      have h1 := length_le_of_nodup_subset post.nodup post.sub
      have h2 := length_le_of_nodup_subset wf.1 (fun x hx => (post.mem_iff x).2 (hall v hv x hx))
      omega

/-- … iff the partition has exactly one block -/
theorem is_connected_iff_one_component {h : Net} (wf : h.WF) :
    isConnected h = some true ↔ (components h).length = 1 := by
  rw [is_connected_spec wf]
  constructor
  · rintro ⟨hne, hall⟩
    have hle : (components h).length ≤ 1 := by
      have dj := components_disjoint wf
      match hc : components h, dj with
      | [], _ => simp
      | [_], _ => simp
      | a :: b :: t, dj =>
        exfalso
        have ha := components_classes wf a (by rw [hc]; simp)
        have hb := components_classes wf b (by rw [hc]; simp)
        obtain ⟨x, hx⟩ := List.exists_mem_of_ne_nil a ha.1
        obtain ⟨y, hy⟩ := List.exists_mem_of_ne_nil b hb.1
        have hya : y ∈ a := (ha.2.2.2 x hx y).2 (hall x (ha.2.2.1 x hx) y (hb.2.2.1 y hy))
        exact (List.pairwise_cons.1 dj).1 b (by simp) y hya hy
    obtain ⟨v, hv⟩ := List.exists_mem_of_ne_nil _ hne
    obtain ⟨c, hc, _⟩ := components_cover wf v hv
    have : 0 < (components h).length := List.length_pos_of_mem hc
    omega
  · intro hlen
    match hc : components h, hlen with
    | [c], _ =>
      have hcl := components_classes wf c (by rw [hc]; simp)
      have hin : ∀ n ∈ h.nodes, n ∈ c := by
        intro n hn
        obtain ⟨c', hc', hn'⟩ := components_cover wf n hn
        rw [hc] at hc'; simp at hc'; subst hc'; exact hn'
      refine ⟨?_, fun u hu v hv => (hcl.2.2.2 u (hin u hu) v).1 (hin v hv)⟩
      intro e
      obtain ⟨x, hx⟩ := List.exists_mem_of_ne_nil c hcl.1
      have := hcl.2.2.1 x hx
      rw [e] at this; simp at this

/-- `largest_connected_component`: raises exactly when there is no node, otherwise returns a component of
    maximal size -/
theorem largest_spec {h : Net} (wf : h.WF) :
    (largestCC h = none ↔ h.nodes = []) ∧
    ∀ m, largestCC h = some m → m ∈ components h ∧ ∀ c ∈ components h, c.length ≤ m.length := by
  unfold largestCC
  constructor
  · constructor
    · intro hnone
      cases hn : h.nodes with
      | nil => rfl
      | cons v t =>
        exfalso
        obtain ⟨c, hc, _⟩ := components_cover wf v (by rw [hn]; simp)
        obtain ⟨m, e, _⟩ := largestOf_spec (components h) (List.ne_nil_of_mem hc)
        rw [hnone] at e; cases e
    · intro hn; unfold components; rw [hn]; rfl
  · intro m hm
    by_cases hne : components h = []
    · rw [hne] at hm; simp [largestOf] at hm
    · obtain ⟨m', e, hmem, hmax⟩ := largestOf_spec (components h) hne
      rw [hm] at e; cases e; exact ⟨hmem, hmax⟩

/-- … and among the components of maximal size it is the first one yielded (Python's `max` keeps the first) -/
theorem largest_is_first (h : Net) (m : List PyId) (hm : largestCC h = some m) :
    ∃ q1 q2, components h = q1 ++ m :: q2 ∧ (∀ c ∈ q1, c.length < m.length) ∧ (∀ c ∈ q2, c.length ≤ m.length) :=
  largestOf_first (components h) m hm

/-- `node_connected_component(H, n)`: raises exactly for a missing node, otherwise returns the block of the
    partition that contains `n` (as a set) -/
theorem node_component_spec {h : Net} (wf : h.WF) (n : PyId) :
    (nodeCC h n = none ↔ n ∉ h.nodes) ∧
    ∀ c, nodeCC h n = some c → ∃ c' ∈ components h, n ∈ c' ∧ ∀ x, x ∈ c ↔ x ∈ c' := by
  unfold nodeCC
  by_cases hn : n ∈ h.nodes
  · simp only [hn, if_true, reduceCtorEq, not_true_eq_false, Option.some.injEq, true_and]
    intro c e; subst e
    obtain ⟨c', hc', hn'⟩ := components_cover wf n hn
    refine ⟨c', hc', hn', fun x => ?_⟩
    rw [mem_plainBfs wf hn, (components_classes wf c' hc').2.2.2 n hn' x]
  · simp [hn]

/-! ### shortest paths: the array Dijkstra with the doubly decremented counter -/

/-- the loop stops within the supplied fuel (`|nodes| + 1` iterations) for every source that is a node; a source
    that is not a node raises (`IDNotFound` from `neighbors`) -/
theorem sssp_terminates {h : Net} (wf : h.WF) (src : PyId) :
    (src ∈ h.nodes → ∃ d, sssp h src = .ok d) ∧ (src ∉ h.nodes → sssp h src = .notFound) := by
  constructor
  · intro hs; obtain ⟨d, e, _⟩ := sssp_ok wf hs; exact ⟨d, e⟩
  · intro hs; unfold sssp; simp [hs]

/-- **the returned table is the BFS distance in the clique expansion**: an entry is `k` iff there is a walk of
    length `k` from the source and none shorter -/
theorem sssp_spec {h : Net} (wf : h.WF) {src : PyId} {d : PyId → Option Nat} (hd : sssp h src = .ok d)
    (v : PyId) (k : Nat) : d v = some k ↔ IsDist h src v k := by
  have hs : src ∈ h.nodes := by
    by_contra hn; rw [(sssp_terminates wf src).2 hn] at hd; cases hd
  obtain ⟨d', e, fin⟩ := sssp_ok wf hs
  rw [hd] at e; cases e
  exact fin.isDist v k

/-- infinite exactly across components -/
theorem sssp_inf_iff {h : Net} (wf : h.WF) {src : PyId} {d : PyId → Option Nat} (hd : sssp h src = .ok d)
    (v : PyId) : d v = none ↔ ¬ Reach h src v := by
  have hs : src ∈ h.nodes := by
    by_contra hn; rw [(sssp_terminates wf src).2 hn] at hd; cases hd
  obtain ⟨d', e, fin⟩ := sssp_ok wf hs
  rw [hd] at e; cases e
  exact fin.none_iff v

/-- finite iff source and target lie in the same block of `connected_components` -/
theorem sssp_finite_iff_same_component {h : Net} (wf : h.WF) {src : PyId} {d : PyId → Option Nat}
    (hd : sssp h src = .ok d) (v : PyId) :
    (∃ k, d v = some k) ↔ ∃ c ∈ components h, src ∈ c ∧ v ∈ c := by
  have hs : src ∈ h.nodes := by
    by_contra hn; rw [(sssp_terminates wf src).2 hn] at hd; cases hd
  have hnone := sssp_inf_iff wf hd v
  constructor
  · rintro ⟨k, hk⟩
    have hr : Reach h src v := by
      by_contra hn; rw [hnone.2 hn] at hk; cases hk
    obtain ⟨c, hc, hsc⟩ := components_cover wf src hs
    exact ⟨c, hc, hsc, ((components_classes wf c hc).2.2.2 src hsc v).2 hr⟩
  · rintro ⟨c, hc, hsc, hvc⟩
    have hr : Reach h src v := ((components_classes wf c hc).2.2.2 src hsc v).1 hvc
    cases hv : d v with
    | none => exact absurd hr (hnone.1 hv)
    | some k => exact ⟨k, rfl⟩

/-- zero on the diagonal, and only there -/
theorem sssp_diag {h : Net} (wf : h.WF) {src : PyId} {d : PyId → Option Nat} (hd : sssp h src = .ok d) :
    d src = some 0 ∧ ∀ v, d v = some 0 → v = src := by
  have hs : src ∈ h.nodes := by
    by_contra hn; rw [(sssp_terminates wf src).2 hn] at hd; cases hd
  obtain ⟨d', e, fin⟩ := sssp_ok wf hs
  rw [hd] at e; cases e
  exact ⟨fin.src0, fin.zero⟩

/-- distances of adjacent nodes differ by at most one (and are finite together) -/
theorem sssp_adjacent {h : Net} (wf : h.WF) {src : PyId} {d : PyId → Option Nat} (hd : sssp h src = .ok d)
    (u v : PyId) (a : Adj h u v) (ku : Nat) (hu : d u = some ku) :
    ∃ kv, d v = some kv ∧ kv ≤ ku + 1 ∧ ku ≤ kv + 1 := by
  have hs : src ∈ h.nodes := by
    by_contra hn; rw [(sssp_terminates wf src).2 hn] at hd; cases hd
  obtain ⟨d', e, fin⟩ := sssp_ok wf hs
  rw [hd] at e; cases e
  obtain ⟨kv, hv, h1⟩ := fin.lipschitz u v ku a hu
  obtain ⟨ku', hu', h2⟩ := fin.lipschitz v u kv a.symm hv
  rw [hu] at hu'; cases hu'
  exact ⟨kv, hv, h1, h2⟩

/-- the all-pairs table of `shortest_path_length` is symmetric -/
theorem sssp_symm {h : Net} (wf : h.WF) {s t : PyId} {ds dt : PyId → Option Nat}
    (hs : sssp h s = .ok ds) (ht : sssp h t = .ok dt) : ds t = dt s := by
  cases hst : ds t with
  | some k =>
    have := ((sssp_spec wf hs t k).1 hst).symm
    exact ((sssp_spec wf ht s k).2 this).symm
  | none =>
    cases hts : dt s with
    | none => rfl
    | some k =>
      have := ((sssp_spec wf ht s k).1 hts).symm
      rw [(sssp_spec wf hs t k).2 this] at hst; cases hst


/-- `shortest_path_length(H)` (all pairs): never fails, yields one row per node in node order, and the row of
    `s` is the table of `single_source_shortest_path_length(H, s)` (so `sssp_spec`, `sssp_symm`, … apply) -/
theorem spl_spec {h : Net} (wf : h.WF) :
    ∃ rows : List (PyId × List (PyId × Option Nat)), spl h = some rows ∧ rows.map (·.1) = h.nodes ∧
      ∀ s t, (s, t) ∈ rows → ∃ d, sssp h s = .ok d ∧ t = ssspTable h d := spl_eq wf

/-! ### clustering coefficient -/

/-- `clustering_coefficient(H)[n]` = (#triangles at n)/(k(k−1)/2) in the pairwise projection, 0 for k < 2
    (`triangles`: pairs of nodes adjacent to `n` and to each other; `projDeg`: number of nodes adjacent to `n`);
    in particular the `inf` branch of the float computation is never taken -/
theorem clustering_eq (h : Net) (n : PyId) :
    clusteringAt h n = .val (if projDeg h n < 2 then 0
      else (triangles h n : Rat) / ((projDeg h n : Rat) * ((projDeg h n : Rat) - 1) / 2)) :=
  clusteringAt_eq h n

/-- the table returned: one entry per node in node order; all zero when there is no edge -/
theorem clustering_table (h : Net) :
    (clustering h).map (·.1) = h.nodes ∧
    ∀ n v, (n, v) ∈ clustering h → v = if h.edges.isEmpty then .val 0 else clusteringAt h n := by
  unfold clustering
  by_cases he : h.edges.isEmpty <;> by_cases hn : h.nodes.isEmpty <;>
    simp [List.map_map, Function.comp_def, List.isEmpty_iff.1, *]

/-! ### converters: vertex and link sets are what the definitions prescribe -/

/-- `to_graph`: `u — v` is a link iff `u` and `v` are distinct nodes sharing a hyperedge (stored once, in node
    order); the vertices are `h.nodes` by construction -/
theorem to_graph_spec {h : Net} (wf : h.WF) (u v : PyId) :
    ((u, v) ∈ projEdges h ∨ (v, u) ∈ projEdges h) ↔ Adj h u v := by
  simp only [mem_projEdges]
  constructor
  · rintro (⟨_, a⟩ | ⟨_, a⟩)
    · exact a
    · exact a.symm
  · intro a
    rcases pair_sublist_or (a.left_mem wf) (a.right_mem wf) a.1 with s | s
    · exact .inl ⟨s, a⟩
    · exact .inr ⟨s, a.symm⟩

/-- no link is stored twice and there are no self-loops -/
theorem to_graph_simple {h : Net} (wf : h.WF) (u v : PyId) (huv : (u, v) ∈ projEdges h) :
    u ≠ v ∧ (v, u) ∉ projEdges h := by
  rw [mem_projEdges] at huv
  refine ⟨huv.2.1, fun hvu => ?_⟩
  rw [mem_projEdges] at hvu
  exact not_both_orders wf.1 huv.1 hvu.1

/-- `to_line_graph(H, s, weights)`: `a — b` with weight attribute `x` is a link iff `a` comes before `b` in the
    edge list, they share at least `s` nodes, and `x` is the weight `weights` prescribes
    (`none` | `|a ∩ b|` | `|a ∩ b| / min(|a|, |b|)`); vertices are the edge IDs with their member sets -/
theorem to_line_graph_spec (h : Net) (s : Nat) (w : LW) (a b : PyId) (x : Option Rat) :
    (a, b, x) ∈ lineLinks h s w ↔
      ∃ ma mb, List.Sublist [(a, ma), (b, mb)] h.edges ∧ s ≤ (inter ma mb).length ∧ x = lineWeight w ma mb :=
  mem_lineLinks

/-- the intersection used is the set intersection, and the weights are as documented -/
theorem line_weight_spec (ma mb : List PyId) :
    (∀ x, x ∈ inter ma mb ↔ x ∈ ma ∧ x ∈ mb) ∧
    lineWeight .unweighted ma mb = none ∧
    lineWeight .absolute ma mb = some ((inter ma mb).length : Nat) ∧
    lineWeight .normalized ma mb = some (((inter ma mb).length : Nat) / ((min ma.length mb.length : Nat) : Rat)) :=
  ⟨fun _ => mem_inter, rfl, rfl, rfl⟩

/-- `to_bipartite_graph`: vertices `0..n-1` flagged 0 and `n..n+m-1` flagged 1 -/
theorem to_bipartite_nodes_spec (h : Net) (i b : Nat) :
    (i, b) ∈ bipNodes h ↔ (i < h.nodes.length ∧ b = 0) ∨
      (h.nodes.length ≤ i ∧ i < h.nodes.length + h.edges.length ∧ b = 1) := mem_bipNodes

/-- … and `i — k` is a link iff `i` is the index of a node that is a member of the edge with index `k` -/
theorem to_bipartite_edges_spec {h : Net} (wf : h.WF) (i k : Nat) :
    (i, k) ∈ bipEdges h ↔
      ∃ j e ms n, h.edges[j]? = some (e, ms) ∧ n ∈ ms ∧ h.nodes[i]? = some n ∧ k = h.nodes.length + j :=
  mem_bipEdges wf

/-- the index dictionaries returned with `index=True` name exactly those vertices -/
theorem to_bipartite_index_spec (h : Net) :
    (∀ i n, (i, n) ∈ bipNodeIndex h ↔ h.nodes[i]? = some n) ∧
    (∀ k e, (k, e) ∈ bipEdgeIndex h ↔ ∃ j ms, h.edges[j]? = some (e, ms) ∧ k = h.nodes.length + j) :=
  ⟨fun _ _ => mem_bipNodeIndex, fun _ _ => mem_bipEdgeIndex⟩

/-- the links of the model's bipartite graph are the incidence links `BAdj` (so `components_eq_bipartite`
    is about the graph `to_bipartite_graph` builds) -/
theorem to_bipartite_is_incidence {h : Net} (wf : h.WF) (n e : PyId) :
    BAdj h (.node n) (.edge e) ↔
      ∃ i k, (i, k) ∈ bipEdges h ∧ (i, n) ∈ bipNodeIndex h ∧ (k, e) ∈ bipEdgeIndex h := by
  simp only [BAdj, mem_bipEdges wf, mem_bipNodeIndex, mem_bipEdgeIndex]
  constructor
  · rintro ⟨ms, hm, hn⟩
    obtain ⟨j, hj, hje⟩ := List.getElem_of_mem hm
    have hnode := (wf.2.2 _ hm).2 n hn
    have hj' : h.edges[j]? = some (e, ms) := by rw [List.getElem?_eq_getElem hj, hje]
    exact ⟨h.nodes.idxOf n, h.nodes.length + j, ⟨j, e, ms, n, hj', hn, getElem?_idxOf_of_mem hnode, rfl⟩,
      getElem?_idxOf_of_mem hnode, j, ms, hj', rfl⟩
  · rintro ⟨i, k, ⟨j, e', ms, n', hj, hn', hi, hk⟩, hin, j', ms', hj', hk'⟩
    have : j = j' := by omega
    subst this
    rw [hj] at hj'; simp only [Option.some.injEq, Prod.mk.injEq] at hj'
    rw [hi] at hin; simp only [Option.some.injEq] at hin
    obtain ⟨e1, e2⟩ := hj'
    subst e1 e2 hin
    exact ⟨ms, List.mem_of_getElem? hj, hn'⟩

/-- `to_encapsulation_dag(H, "all" | "immediate")`: `a → b` iff `b` is a strictly smaller hyperedge, a subset of
    `a`, sharing a node with it (i.e. non-empty), and for "immediate" exactly one node smaller -/
theorem to_dag_spec (h : Net) (t : SubT) (ht : t ≠ .empirical) (a b : Entry) :
    (a, b) ∈ encLinks h t ↔ Enc h a b ∧ sizeRel t a b := by
  cases t with
  | empirical => exact absurd rfl ht
  | all => exact mem_encRaw
  | immediate => exact mem_encRaw

/-- "empirical" (order-independent filter): `a → b` iff `b` is encapsulated by `a`, `a` has the smallest size
    among the hyperedges encapsulating `b`, and `b` the largest size among those encapsulated by `a` -/
theorem to_dag_empirical_spec {h : Net} (wf : h.WF) (a b : Entry) :
    (a, b) ∈ encLinks h .empirical ↔
      Enc h a b ∧ (∀ p, Enc h p b → a.2.length ≤ p.2.length) ∧ (∀ c, Enc h a c → c.2.length ≤ b.2.length) := by
  rw [mem_encLinks_empirical, mem_encRaw]
  simp only [sizeRel, and_true]
  constructor
  · rintro ⟨hab, h1, h2⟩
    refine ⟨hab, fun p hp => ?_, fun c hc => ?_⟩
    · exact h1 (p, b) (mem_encRaw.2 ⟨hp, trivial⟩) rfl
    · exact h2 (a, c) (mem_encRaw.2 ⟨hc, trivial⟩) rfl
  · rintro ⟨hab, h1, h2⟩
    refine ⟨hab, fun q hq e => ?_, fun q hq e => ?_⟩
    · have hq' := (mem_encRaw.1 hq).1
      have : q.2 = b := entry_eq_of_id wf hq'.2.1 hab.2.1 e
      exact h1 q.1 (this ▸ hq')
    · have hq' := (mem_encRaw.1 hq).1
      have : q.1 = a := entry_eq_of_id wf hq'.1 hab.1 e
      exact h2 q.2 (this ▸ hq')

/-- the DAG handed back is on edge IDs; it has no cycle because every link goes to a strictly smaller edge -/
theorem to_dag_ids_and_acyclic (h : Net) (t : SubT) :
    (∀ x y, (x, y) ∈ encDag h t ↔ ∃ a b, (a, b) ∈ encLinks h t ∧ a.1 = x ∧ b.1 = y) ∧
    ∀ a b, (a, b) ∈ encLinks h t → b.2.length < a.2.length := by
  constructor
  · intro x y
    unfold encDag
    simp only [List.mem_map, Prod.mk.injEq]
    constructor
    · rintro ⟨⟨a, b⟩, hm, e1, e2⟩; exact ⟨a, b, hm, e1, e2⟩
    · rintro ⟨a, b, hm, e1, e2⟩; exact ⟨(a, b), hm, e1, e2⟩
  · intro a b hm
    cases t with
    | all => exact (mem_encRaw.1 hm).1.2.2.1
    | immediate => exact (mem_encRaw.1 hm).1.2.2.1
    | empirical => exact (mem_encRaw.1 (mem_encLinks_empirical.1 hm).1).1.2.2.1

/-! ### directed bipartite graph: `to_bipartite_graph(DH)` for a DiHypergraph -/

/-- vertices `0..n-1` flagged 0 (nodes) and `n..n+m-1` flagged 1 (edges), as in the undirected case -/
theorem to_bipartite_directed_nodes_spec (h : DiNet) (i b : Nat) :
    (i, b) ∈ dibipNodes h ↔ (i < h.nodes.length ∧ b = 0) ∨
      (h.nodes.length ≤ i ∧ i < h.nodes.length + h.edges.length ∧ b = 1) := mem_dibipNodes

/-- **orientation**: `a → b` is a link of the DiGraph iff either `a` is the index of a node in the TAIL of the
    edge with index `b` (node → edge), or `b` is the index of a node in the HEAD of the edge with index `a`
    (edge → node) -/
theorem to_bipartite_directed_spec {h : DiNet} (wf : DiWF h) (a b : Nat) :
    (a, b) ∈ dibipEdges h ↔
      ∃ j e tl hd n, h.edges[j]? = some (e, tl, hd) ∧
        ((n ∈ tl ∧ h.nodes[a]? = some n ∧ b = h.nodes.length + j) ∨
         (n ∈ hd ∧ a = h.nodes.length + j ∧ h.nodes[b]? = some n)) := mem_dibipEdges wf

/-- read per direction: a link leaving a node vertex means tail membership, a link entering one means head
    membership (the two cases cannot be confused because node indices are `< n` and edge indices `≥ n`) -/
theorem to_bipartite_directed_tail_head {h : DiNet} (wf : DiWF h) (i j : Nat) (hi : i < h.nodes.length) :
    ((i, h.nodes.length + j) ∈ dibipEdges h ↔ ∃ e tl hd n, h.edges[j]? = some (e, tl, hd) ∧ n ∈ tl ∧ h.nodes[i]? = some n) ∧
    ((h.nodes.length + j, i) ∈ dibipEdges h ↔ ∃ e tl hd n, h.edges[j]? = some (e, tl, hd) ∧ n ∈ hd ∧ h.nodes[i]? = some n) := by
  simp only [mem_dibipEdges wf]
  constructor
  · constructor
    · rintro ⟨j', e, tl, hd, n, hj, (⟨hn, hnode, hk⟩ | ⟨_, hk, _⟩)⟩
      · have : j = j' := by omega
        subst this; exact ⟨e, tl, hd, n, hj, hn, hnode⟩
      · omega
    · rintro ⟨e, tl, hd, n, hj, hn, hnode⟩
      exact ⟨j, e, tl, hd, n, hj, .inl ⟨hn, hnode, rfl⟩⟩
  · constructor
    · rintro ⟨j', e, tl, hd, n, hj, (⟨_, hnode, _⟩ | ⟨hn, hk, hnode⟩)⟩
      · have := (List.getElem?_eq_some_iff.1 hnode).1
        omega
      · have : j = j' := by omega
        subst this; exact ⟨e, tl, hd, n, hj, hn, hnode⟩
    · rintro ⟨e, tl, hd, n, hj, hn, hnode⟩
      exact ⟨j, e, tl, hd, n, hj, .inr ⟨hn, rfl, hnode⟩⟩

/-- the index dictionaries of the directed case -/
theorem to_bipartite_directed_index_spec (h : DiNet) :
    (∀ i n, (i, n) ∈ dibipNodeIndex h ↔ h.nodes[i]? = some n) ∧
    (∀ k e, (k, e) ∈ dibipEdgeIndex h ↔ ∃ j tl hd, h.edges[j]? = some (e, tl, hd) ∧ k = h.nodes.length + j) :=
  ⟨fun _ _ => mem_dibipNodeIndex, fun _ _ => mem_dibipEdgeIndex⟩

/-! ### empty hyperedges: what every function does with them -/

/-- neighbours, `_plain_bfs`, every component function, single-source and all-pairs distances, the projection
    graph and the clustering coefficient are unchanged when the empty hyperedges are deleted -/
theorem empty_edges_invisible (h : Net) :
    nbrs (dropEmpty h) = nbrs h ∧ plainBfs (dropEmpty h) = plainBfs h ∧
    components (dropEmpty h) = components h ∧ numberCC (dropEmpty h) = numberCC h ∧
    isConnected (dropEmpty h) = isConnected h ∧ largestCC (dropEmpty h) = largestCC h ∧
    (∀ n, nodeCC (dropEmpty h) n = nodeCC h n) ∧ (∀ src, sssp (dropEmpty h) src = sssp h src) ∧
    projEdges (dropEmpty h) = projEdges h ∧ clustering (dropEmpty h) = clustering h :=
  ⟨nbrs_dropEmpty h, plainBfs_dropEmpty h, components_dropEmpty h, numberCC_dropEmpty h, isConnected_dropEmpty h,
   largestCC_dropEmpty h, nodeCC_dropEmpty h, sssp_dropEmpty h, projEdges_dropEmpty h, clustering_dropEmpty h⟩

/-- line graph: EVERY hyperedge is a vertex (the empty ones too, with an empty `original_hyperedge`), and for
    s ≥ 1 both ends of a link are non-empty hyperedges — an empty hyperedge is an isolated vertex -/
theorem line_graph_empty_edges (h : Net) {s : Nat} (hs : 1 ≤ s) (w : LW) :
    lineNodes h = h.edges ∧
    ∀ a b x, (a, b, x) ∈ lineLinks h s w →
      ∃ ma mb, (a, ma) ∈ h.edges ∧ (b, mb) ∈ h.edges ∧ ma ≠ [] ∧ mb ≠ [] :=
  ⟨rfl, fun _ _ _ hl => lineLinks_members_nonempty hs hl⟩

/-- `weights="normalized"` divides by min(|a|,|b|): for s ≥ 1 that is never 0 (no `ZeroDivisionError`); the
    model raises it only for s ≤ 0 with an empty hyperedge in a linked pair -/
theorem line_graph_no_zero_division (h : Net) {s : Int} (hs : 1 ≤ s) (w : LW) : lineZeroDiv h s w = false :=
  lineZeroDiv_false h hs w

/-- bipartite graph: the vertex of an empty hyperedge has no link -/
theorem to_bipartite_empty_edge_isolated {h : Net} (wf : h.WF) (j : Nat) (e : PyId) (he : h.edges[j]? = some (e, [])) :
    ∀ i, (i, h.nodes.length + j) ∉ bipEdges h := by
  intro i hm
  obtain ⟨j', e', ms, n, hj, hn, _, hk⟩ := (mem_bipEdges wf).1 hm
  have : j = j' := by omega
  subst this
  rw [he] at hj
  simp only [Option.some.injEq, Prod.mk.injEq] at hj
  rw [← hj.2] at hn
  cases hn

/-- encapsulation DAG (all three `subset_types`): both ends of a link are non-empty hyperedges, so an empty
    hyperedge — although a subset of every hyperedge — is an isolated vertex (the code finds candidates
    through shared nodes) -/
theorem to_dag_empty_isolated (h : Net) (t : SubT) (a b : Entry) (hl : (a, b) ∈ encLinks h t) :
    a.2 ≠ [] ∧ b.2 ≠ [] := (encLinks_enc hl).nonempty


/-! ### non-vacuity: concrete non-trivial inputs satisfy the hypotheses and evaluate as expected -/

section Examples

/-- nodes 1..6; edges {1,2,3}, {3,4}, {5}; node 6 isolated: three components, distances up to 2 -/
def exNet : Net :=
  { nodes := [.int 1, .int 2, .int 3, .int 4, .int 5, .int 6],
    edges := [(.int 10, [.int 1, .int 2, .int 3]), (.int 11, [.int 3, .int 4]), (.int 12, [.int 5])] }

/-- the witness of the empirical-filter finding: x = {1,2,3}, y = {1}, z = {2,3}, w = {1,2,4,5} -/
def exNested : Net :=
  { nodes := [.int 1, .int 2, .int 3, .int 4, .int 5],
    edges := [(.int 0, [.int 1, .int 2, .int 3]), (.int 1, [.int 1]), (.int 2, [.int 2, .int 3]),
              (.int 3, [.int 1, .int 2, .int 4, .int 5])] }

example : exNet.WF := by
  refine ⟨by decide, by decide, ?_⟩
  intro p hp
  simp only [exNet, List.mem_cons, List.not_mem_nil, or_false] at hp
  rcases hp with rfl | rfl | rfl <;> exact ⟨by decide, by decide⟩

example : components exNet = [[.int 1, .int 2, .int 3, .int 4], [.int 5], [.int 6]] := by decide
example : numberCC exNet = 3 ∧ isConnected exNet = some false := by decide
example : largestCC exNet = some [.int 1, .int 2, .int 3, .int 4] := by decide
example : nodeCC exNet (.int 4) = some [.int 4, .int 3, .int 1, .int 2] ∧ nodeCC exNet (.int 9) = none := by decide
example : Adj exNet (.int 3) (.int 4) := ⟨by decide, (.int 11, [.int 3, .int 4]), by decide, by decide, by decide⟩
example : ∃ d, sssp exNet (.int 1) = .ok d ∧
    ssspTable exNet d = [(.int 1, some 0), (.int 2, some 1), (.int 3, some 1), (.int 4, some 2), (.int 5, none), (.int 6, none)] :=
  ⟨_, rfl, by decide⟩
example : projDeg exNet (.int 3) = 3 ∧ triangles exNet (.int 3) = 1 ∧ projDeg exNet (.int 4) = 1 := by decide
example : clusteringAt exNet (.int 3) = .val (1 / 3) ∧ clusteringAt exNet (.int 4) = .val 0 := by
  have h1 : projDeg exNet (.int 3) = 3 := by decide
  have h2 : triangles exNet (.int 3) = 1 := by decide
  have h3 : projDeg exNet (.int 4) = 1 := by decide
  rw [clustering_eq, clustering_eq, h1, h2, h3]
  norm_num
example : projEdges exNet = [(.int 1, .int 2), (.int 1, .int 3), (.int 2, .int 3), (.int 3, .int 4)] := by decide
example : lineLinks exNet 1 .absolute = [(.int 10, .int 11, some 1)] ∧ lineLinks exNet 2 .absolute = [] ∧
    lineLinks exNet 1 .unweighted = [(.int 10, .int 11, none)] := by decide
example : lineWeight .normalized [.int 1, .int 2, .int 3] [.int 3, .int 4] = some (1 / 2) := by
  have : (inter [PyId.int 1, .int 2, .int 3] [.int 3, .int 4]).length = 1 := by decide
  simp only [lineWeight, this]
  norm_num
example : bipEdges exNet = [(0, 6), (1, 6), (2, 6), (2, 7), (3, 7), (4, 8)] := by decide
example : encDag exNested .all = [(.int 0, .int 1), (.int 0, .int 2), (.int 3, .int 1)] := by decide
example : encDag exNested .immediate = [(.int 0, .int 2)] := by decide
/-- both orders of the hyperedges give the same empirical DAG in the model (the code as it stands does not) -/
example : encDag exNested .empirical = [(.int 0, .int 2)] ∧
    encDag { exNested with edges := [(.int 1, [.int 1]), (.int 0, [.int 1, .int 2, .int 3]), (.int 2, [.int 2, .int 3]),
      (.int 3, [.int 1, .int 2, .int 4, .int 5])] } .empirical = [(.int 0, .int 2)] := by decide

/-- `exNet` plus two empty hyperedges (IDs 13, 14) -/
def exEmpty : Net := { exNet with edges := (.int 13, []) :: exNet.edges ++ [(.int 14, [])] }

/-- tail {1,2} → head {2,3}; an edge with empty tail; an edge with empty tail and head -/
def exDi : DiNet :=
  { nodes := [.int 1, .int 2, .int 3],
    edges := [(.str "a", [.int 1, .int 2], [.int 2, .int 3]), (.str "b", [], [.int 1]), (.str "c", [], [])] }

example : exEmpty.WF := by
  refine ⟨by decide, by decide, ?_⟩
  intro p hp
  simp only [exEmpty, exNet, List.cons_append, List.nil_append, List.mem_cons, List.not_mem_nil, or_false] at hp
  rcases hp with rfl | rfl | rfl | rfl | rfl <;> exact ⟨by decide, by decide⟩
example : (dropEmpty exEmpty).edges = exNet.edges := by decide
example : components exEmpty = components exNet ∧ projEdges exEmpty = projEdges exNet := by decide
example : lineNodes exEmpty = exEmpty.edges ∧ lineLinks exEmpty 1 .absolute = [(.int 10, .int 11, some 1)] := by decide
example : (lineLinks exEmpty 0 .unweighted).length = 10 ∧ lineZeroDiv exEmpty 0 .normalized = true ∧
    lineZeroDiv exEmpty 1 .normalized = false ∧ lineZeroDiv exNet 0 .normalized = false := by decide
example : bipEdges exEmpty = [(0, 7), (1, 7), (2, 7), (2, 8), (3, 8), (4, 9)] ∧
    bipNodes exEmpty = [(0, 0), (1, 0), (2, 0), (3, 0), (4, 0), (5, 0), (6, 1), (7, 1), (8, 1), (9, 1), (10, 1)] := by decide
example : encDag { exNested with edges := (.int 9, []) :: exNested.edges } .all = encDag exNested .all := by decide
example : ∃ rows, spl exNet = some rows ∧ rows.length = 6 := ⟨_, rfl, by decide⟩
example : DiWF exDi := by
  refine ⟨by decide, by decide, ?_⟩
  intro p hp
  simp only [exDi, List.mem_cons, List.not_mem_nil, or_false] at hp
  rcases hp with rfl | rfl | rfl <;> exact ⟨by decide, by decide, by decide, by decide⟩
/-- node 2 is in tail and head of "a": both directions are present -/
example : dibipEdges exDi = [(0, 3), (1, 3), (3, 1), (3, 2), (4, 0)] ∧
    dibipNodes exDi = [(0, 0), (1, 0), (2, 0), (3, 1), (4, 1), (5, 1)] ∧
    dibipEdgeIndex exDi = [(3, .str "a"), (4, .str "b"), (5, .str "c")] := by decide

end Examples

end Xgi.C14
