import XgiModel.C14.Algo
namespace Xgi.C14
theorem placeholder_partial : True := trivial
end Xgi.C14
