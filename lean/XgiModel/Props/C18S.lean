/-
  C18 (simplicial part) — A frozen simplicial complex cannot be structurally modified.
  Property theorems only, about the model XgiModel/C03/SC.lean (what Drivers/SC.lean runs); helpers in
  XgiModel/C03/LemmasFreeze.lean.  `Generated/FreezeTable.lean` is rewritten from the `freeze()` methods of the
  current source on every run of the C18 check (harness/c18_translate.py).

  What the code does: `SimplicialComplex.freeze()` assigns `frozen` to its *own* list of names (it does not call
  `Hypergraph.freeze`).  The deprecated aliases `add_edge`, `add_edges_from`, `add_weighted_edges_from`,
  `remove_edge`, `remove_edges_from` are not in that list and stay callable; each of them warns and then calls
  the method of the new name, which is in the list — that forwarded call is what refuses.
-/
import XgiModel.C03.LemmasFreeze
import XgiModel.Lemmas.HGFreeze
import XgiModel.Generated.FreezeTable

namespace Xgi.C18S
open Xgi Xgi.SC Xgi.Generated

/-- **the obligation tied to the source**: every op the model treats as disabled on a frozen complex is really
    assigned `frozen` by `SimplicialComplex.freeze()` (breaks when a name is dropped from that method) -/
theorem C18_table_simplicialcomplex (op : Op) (h : op.guardedByFreeze = true) :
    pyName op ∈ FreezeTable.simplicialcomplex := by
  cases op <;> simp [Op.guardedByFreeze] at h <;> simp [pyName] <;> decide

/-- a deprecated alias is: the warning, then the *public call* of the method it forwards to (frozen check
    included) — and that method is one of the disabled ones, by the table of the current source -/
theorem C18S_alias_forwards (op t : Op) (h : op.forwardsTo = some t) :
    t.guardedByFreeze = true ∧ pyName t ∈ FreezeTable.simplicialcomplex ∧ ∀ s, step s op = deprecated (step s t) := by
  cases op <;> simp only [Op.forwardsTo, Option.some.injEq, reduceCtorEq] at h <;> subst h <;>
    refine ⟨rfl, C18_table_simplicialcomplex _ rfl, fun s => ?_⟩ <;>
    cases hf : s.frozen <;> simp [step, stepCore, Op.guardedByFreeze, HG.guardF, hf]

/-- the ops of the alphabet that are neither disabled nor an alias are exactly `close`, `cleanup`, `freeze` -/
theorem C18S_alphabet (op : Op) :
    op.guardedByFreeze = true ∨ op.forwardsTo.isSome = true ∨
    (∃ o h, op = .close o h) ∨ (∃ a c r h, op = .cleanup a c r h) ∨ op = .freeze := by
  cases op <;> simp [Op.guardedByFreeze, Op.forwardsTo]

/-- a disabled call on a frozen complex raises the library's error and changes nothing at all -/
theorem C18S_frozen_guarded (s : HG) (op : Op) (hf : s.frozen = true) (hg : op.guardedByFreeze = true) :
    step s op = (s, .err .lib) := by
  unfold step; simp [hf, hg]

/-- a deprecated alias on a frozen complex raises the library's error (after its warning) and changes nothing at all -/
theorem C18S_frozen_alias (s : HG) (op t : Op) (hf : s.frozen = true) (h : op.forwardsTo = some t) :
    step s op = (s, .err .lib) := by
  obtain ⟨hg, _, hs⟩ := C18S_alias_forwards op t h
  rw [hs s, C18S_frozen_guarded s t hf hg]; rfl

/-- on a frozen complex **no** call of the alphabet — disabled methods, aliases, `close`, `cleanup` (isolate removal,
    largest component, relabelling), `freeze` — changes the state: not the nodes, not the simplices, not their
    members or memberships, not the attributes, not the counter, not the flag -/
theorem C18S_frozen_unchanged (s : HG) (op : Op) (hf : s.frozen = true) : (step s op).1 = s := by
  by_cases hg : op.guardedByFreeze = true
  · rw [C18S_frozen_guarded s op hf hg]
  · have hs : step s op = stepCore s op := by unfold step; simp [hg]
    rw [hs]
    cases op <;> simp only [Op.guardedByFreeze, not_true_eq_false] at hg <;>
      simp only [stepCore, deprecated, guardF_frozen s _ hf]
    case close orders hh => exact close_frozen s hf orders hh
    case cleanup a c r hh => exact cleanup_frozen s hf a c r hh
    case freeze => exact frozen_eta s hf

/-- in the vocabulary of the undirected part: same nodes, simplices, members, memberships, attribute-record keys,
    and the complex is still frozen -/
theorem C18S_frozen_structure (s : HG) (op : Op) (hf : s.frozen = true) : C18.SameStruct s (step s op).1 := by
  rw [C18S_frozen_unchanged s op hf]; exact C18.SameStruct.refl s

/-- … and so after any history of calls -/
theorem C18S_frozen_history (s : HG) (ops : List Op) (hf : s.frozen = true) :
    ops.foldl (fun s op => (step s op).1) s = s := by
  induction ops with
  | nil => rfl
  | cons op ops ih => simp only [List.foldl_cons]; rw [C18S_frozen_unchanged s op hf]; exact ih

/-- `is_frozen` after `freeze()`; everything else is as before -/
theorem C18S_freeze_sets_flag (s : HG) : step s .freeze = ({ s with frozen := true }, .ok) := by
  unfold step; simp [Op.guardedByFreeze, stepCore]

/-! ### non-vacuity: a frozen non-trivial complex; disabled calls and aliases are refused; the unfrozen twin changes -/
private def base : HG := (step HG.empty (.addSimplex [.int 1, .int 2, .int 3] none [] {})).1
private def fz : HG := (step base .freeze).1
example : fz.frozen = true ∧ fz.edges = [.int 0, .int 1, .int 2, .int 3] := by decide
example : (step fz (.addSimplex [.int 7, .int 8] none [] {})).2 = .err .lib := by decide
example : (step fz (.addEdge [.int 7, .int 8] none [] {})).2 = .err .lib := by decide
example : (step fz (.removeEdge (.int 0))).2 = .err .lib := by decide
example : (step fz (.close [] {})).2 = .err .lib := by decide
example : (step fz (.cleanup false true true {})).2 = .err .lib := by decide
example : (step fz .clearEdges).2 = .err .lib := by decide
example : (step base (.addEdge [.int 7, .int 8] none [] {})).2 = .warned ∧
    (step base (.addEdge [.int 7, .int 8] none [] {})).1.edges = [.int 0, .int 1, .int 2, .int 3, .int 4] := by decide
example : (step base (.removeEdge (.int 1))).1.edges = [.int 2, .int 3] := by decide

end Xgi.C18S
