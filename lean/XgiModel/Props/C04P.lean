/-
  C04 (provenance) — the invariant "the counter is above every integer edge ID" and the additive behaviour of
  C04 hold for a hypergraph however it was obtained: `copy()`, `dual()`, `Hypergraph(H)`, `from_hyperedge_list`,
  `from_hyperedge_dict`, `from_bipartite_edgelist`, `from_incidence_matrix` are compositions of the public calls
  (Core/HGConv.lean, tied to the code by the `derive` correspondence of the C04 check), so their results are
  reachable states; `copy()` additionally assigns the counter of the source, which is covered by `copy_inv`.
-/
import XgiModel.Lemmas.HGConv
import XgiModel.Props.C04

namespace Xgi.C04P
open Xgi Xgi.HG Xgi.C01

/-- **every converter result is a reachable state**, whatever the data: the invariant of C01 and the
    freshness of C04 hold in it (also when the converter raises half-way and the partly built network
    stays reachable through `create_using`) -/
theorem conv_inv (ops : List Op) {t : HG} {o : Outcome} (hr : runStop HG.empty ops = some (t, o)) : Inv t :=
  C01_reachable (runStop_reachable ops Reachable.empty hr)

theorem from_hyperedge_list_inv (l : List (List PyId)) {t : HG} {o : Outcome}
    (hr : runStop HG.empty (edgeListOps l) = some (t, o)) : Inv t := conv_inv _ hr

theorem from_hyperedge_dict_inv (d : List (PyId × List PyId)) {t : HG} {o : Outcome}
    (hr : runStop HG.empty (edgeDictOps d) = some (t, o)) : Inv t := conv_inv _ hr

theorem from_bipartite_edgelist_inv (p : List (PyId × PyId)) {t : HG} {o : Outcome}
    (hr : runStop HG.empty (bipartiteOps p) = some (t, o)) : Inv t := conv_inv _ hr

theorem from_incidence_matrix_inv (n m : Nat) (es : List (Nat × Nat)) (nl el : Option (List PyId)) {t : HG}
    {o : Outcome} (hr : incidenceOf n m es nl el = some (t, o)) : Inv t := by
  unfold incidenceOf at hr
  split at hr
  · cases hr; exact empty_inv
  · exact conv_inv _ hr

/-! ### state-based provenances: the direct assignments after the calls -/

theorem to_hypergraph_inv (s : HG) {t : HG} {o : Outcome} (hr : toHypergraphOf s = some (t, o)) : Inv t := by
  unfold toHypergraphOf at hr
  cases hrs : runStop HG.empty (rebuildOps s) with
  | none => simp [hrs] at hr
  | some r =>
    simp only [hrs, Option.map_some, Option.some.injEq, Prod.mk.injEq] at hr
    rw [← hr.1]
    exact inv_net (conv_inv (rebuildOps s) (t := r.1) (o := r.2) hrs) _

theorem dual_inv (s : HG) {t : HG} {o : Outcome} (hr : dualOf s = some (t, o)) : Inv t := by
  unfold dualOf at hr
  cases hrs : runStop HG.empty (dualOps s) with
  | none => simp [hrs] at hr
  | some r =>
    simp only [hrs, Option.map_some, Option.some.injEq, Prod.mk.injEq] at hr
    rw [← hr.1]
    exact inv_net (conv_inv (dualOps s) (t := r.1) (o := r.2) hrs) _

/-! ### `copy()`: the counter of the source is assigned to the copy -/

/-- `copy()` keeps the invariant: the rebuilt network has only edge IDs of the source, and the source's counter
    is above all of those -/
theorem copy_inv {s : HG} (h : Inv s) {t : HG} {o : Outcome} (hr : copyOf s = some (t, o)) : Inv t := by
  unfold copyOf at hr
  cases hrs : runStop HG.empty (rebuildOps s) with
  | none => simp [hrs] at hr
  | some r =>
    simp only [hrs, Option.map_some, Option.some.injEq, Prod.mk.injEq] at hr
    rw [← hr.1]
    have hi : Inv r.1 := conv_inv (rebuildOps s) (t := r.1) (o := r.2) hrs
    have hs := rebuild_edges_sub s (t := r.1) (o := r.2) hrs
    obtain ⟨h1, h2, h3, h4, h5, h6, h7, h8, h9, h10, h11, h12⟩ := hi.1
    refine ⟨by constructor <;> assumption, ?_⟩
    intro k hk
    exact h.2 k (hs _ hk)

/-- after any provenance the next automatic ID is new and existing edges are kept (C04 for derived networks) -/
theorem copy_then_add_edge {s : HG} (h : Inv s) {t : HG} {o : Outcome} (hr : copyOf s = some (t, o))
    (ms : List PyId) (a : Attrs) (hms : PyId.none ∉ ms) :
    PyId.int t.uid ∉ t.edges ∧ (addEdge t ms none a).1.edges = t.edges ++ [PyId.int t.uid] ∧
    Keeps t (addEdge t ms none a).1 :=
  ⟨(C04.C04_auto_fresh (copy_inv h hr) ms a hms).1, (C04.C04_auto_fresh (copy_inv h hr) ms a hms).2,
   C04.C04_add_edge_preserves (copy_inv h hr) ms none a⟩

theorem conv_then_add_edge (ops : List Op) {t : HG} {o : Outcome} (hr : runStop HG.empty ops = some (t, o))
    (ms : List PyId) (a : Attrs) (hms : PyId.none ∉ ms) :
    PyId.int t.uid ∉ t.edges ∧ (addEdge t ms none a).1.edges = t.edges ++ [PyId.int t.uid] ∧
    Keeps t (addEdge t ms none a).1 :=
  ⟨(C04.C04_auto_fresh (conv_inv ops hr) ms a hms).1, (C04.C04_auto_fresh (conv_inv ops hr) ms a hms).2,
   C04.C04_add_edge_preserves (conv_inv ops hr) ms none a⟩

/-- non-vacuity: a concrete copy and a concrete dual exist and are the expected networks -/
example : (copyOf (addEdge (addEdge HG.empty [.int 1, .int 2] (some (.int 7)) []).1 [.int 2] none []).1).map
    (fun r => (r.1.edges, r.1.uid, r.2)) = some ([.int 7, .int 8], 9, .ok) := by decide +kernel
example : (dualOf (addEdge HG.empty [.int 1, .int 2] (some (.int 7)) []).1).map
    (fun r => (r.1.edges, r.1.nodes, r.1.uid)) = some ([.int 1, .int 2], [.int 7], 3) := by decide +kernel

/- that `copy()`, `Hypergraph(H)` and the pickle round trip reproduce the whole network (same nodes/edges in order, members,
   memberships, attributes, counter) is proved on the same transcription in Props/C07.lean (`copy_snapshot`, `ofNetwork_snapshot`,
   `pickle_snapshot`) -/

end Xgi.C04P
