import XgiModel.Core.HG
namespace Xgi.C01
theorem placeholder : True := trivial
end Xgi.C01
