/-
  C01 — Undirected incidence integrity under every edit history.
  Property theorems only; helper lemmas live in Lemmas/HGWF.lean.
-/
import XgiModel.Lemmas.HGWF

namespace Xgi.C01
open Xgi Xgi.HG

/-- run a history of public calls; `none` only when an op falls outside the model
    (inadmissible RNG oracle, tuple-of-tuple IDs) -/
def run : HG → List Op → Option HG
  | s, [] => some s
  | s, op :: ops => match step s op with
    | none => none
    | some r => run r.1 ops

/-- the states reachable from the empty hypergraph by public calls (returning or raising) -/
inductive Reachable : HG → Prop
  | empty : Reachable HG.empty
  | step {s : HG} {op : Op} {r : HG × Outcome} : Reachable s → step s op = some r → Reachable r.1

/-- one call — whether it returns (`ok`/`warned`) or raises (`err _`) — preserves the invariant
    (two-way incidence + one attribute record per ID + counter above all integer edge IDs) -/
theorem C01_step {s : HG} (h : Inv s) (op : Op) (r : HG × Outcome) (hr : step s op = some r) : Inv r.1 :=
  step_inv h op r hr

/-- every reachable state satisfies the invariant -/
theorem C01_reachable {s : HG} (h : Reachable s) : Inv s := by
  induction h with
  | empty => exact empty_inv
  | step _ hr ih => exact C01_step ih _ _ hr

/-- after any finite history -/
theorem C01_history (ops : List Op) (s s' : HG) (h : Inv s) (hr : run s ops = some s') : Inv s' := by
  induction ops generalizing s with
  | nil => simp [run] at hr; subst hr; exact h
  | cons op ops ih =>
    simp only [run] at hr
    split at hr
    · cases hr
    · rename_i r hs; exact ih r.1 (C01_step h op r hs) hr

/-- … and after every prefix of it -/
theorem C01_prefix (ops : List Op) (s' : HG) (hr : run HG.empty ops = some s') (k : Nat) :
    ∃ t, run HG.empty (ops.take k) = some t ∧ WF t := by
  have key : ∀ (ops : List Op) (s s' : HG), Inv s → run s ops = some s' → ∀ k, ∃ t, run s (ops.take k) = some t ∧ WF t := by
    intro ops
    induction ops with
    | nil => intro s s' h _ k; exact ⟨s, by simp [run], h.1⟩
    | cons op ops ih =>
      intro s s' h hr k
      cases k with
      | zero => exact ⟨s, by simp [run], h.1⟩
      | succ k =>
        simp only [run] at hr
        split at hr
        · cases hr
        · rename_i r hs
          obtain ⟨t, ht, hw⟩ := ih r.1 s' (C01_step h op r hs) hr k
          exact ⟨t, by simp [run, hs, ht], hw⟩
  exact key ops HG.empty s' empty_inv hr k

/-- the reading the statement asks for: membership is reported identically from both sides -/
theorem C01_iff {s : HG} (h : Reachable s) {n e : PyId} (hn : n ∈ s.nodes) (he : e ∈ s.edges) :
    n ∈ s.mem e ↔ e ∈ s.memb n :=
  ⟨fun hm => ((C01_reachable h).1.e2n e he n hm).2, fun hm => ((C01_reachable h).1.n2e n hn e hm).2⟩

/-- every reported member is a node of the hypergraph -/
theorem C01_members_are_nodes {s : HG} (h : Reachable s) {n e : PyId} (he : e ∈ s.edges) (hm : n ∈ s.mem e) :
    n ∈ s.nodes := ((C01_reachable h).1.e2n e he n hm).1

/-- every reported membership is an existing edge -/
theorem C01_memberships_are_edges {s : HG} (h : Reachable s) {n e : PyId} (hn : n ∈ s.nodes) (hm : e ∈ s.memb n) :
    e ∈ s.edges := ((C01_reachable h).1.n2e n hn e hm).1

/-- every node and every edge has exactly one attribute record (and nothing else has one) -/
theorem C01_one_attr_record {s : HG} (h : Reachable s) :
    (∀ n, n ∈ s.nattrK ↔ n ∈ s.nodes) ∧ s.nattrK.Nodup ∧ (∀ e, e ∈ s.eattrK ↔ e ∈ s.edges) ∧ s.eattrK.Nodup :=
  let w := (C01_reachable h).1
  ⟨w.attrN, w.nodupNK, w.attrE, w.nodupEK⟩

/-- `None` is never a node or an edge -/
theorem C01_no_none {s : HG} (h : Reachable s) : PyId.none ∉ s.nodes ∧ PyId.none ∉ s.edges :=
  ⟨(C01_reachable h).1.noNoneN, (C01_reachable h).1.noNoneE⟩

/-! ### non-vacuity: concrete non-trivial histories run inside the model and meet the hypotheses -/

private def demoOps : List Op :=
  [ .addEdge [.int 1, .int 2, .str "a"] none [],
    .addEdgesFrom .f2 [{ members := [.int 2, .int 3], idx := some (.int 0), attr := [] },
                       { members := [.int 3], idx := some (.int 7), attr := [] }] [],
    .addEdge [.int 3, .none] none [],                       -- raises
    .removeNode (.int 2) false true,
    .addNodeToEdge (.int 9) (.int 1),
    .doubleEdgeSwap (.int 1) (.int 3) (.int 0) (.int 7),
    .mergeDuplicateEdges .first .first none ]

example : (run HG.empty demoOps).isSome = true := by decide
example : ((run HG.empty demoOps).map (·.edges)) = some [.int 0, .int 7] := by decide
example : ((run HG.empty demoOps).map (fun s => s.mem (.int 0))) = some [.str "a", .int 3] := by decide
example : ((run HG.empty demoOps).map (fun s => s.memb (.int 3))) = some [.int 0] := by decide

end Xgi.C01
