/-
  C19 — the connectivity queries behind `largest_connected_hypergraph` and the `connected` guarantee of `cleanup`
  (xgi/algorithms/connected.py).  Property theorems only; they are about the functions the C19 driver runs for a
  "components" request: `HG.components` (`connected_components`), `C19.numberComponents`
  (`number_connected_components`), `C19.isConnected` (`is_connected`), `C19.largestConnectedComponent`
  (`largest_connected_component`), `C19.nodeComponent` (`node_connected_component`).
  `Reach` = joined by a chain of edges, `Connected` = every two nodes are joined (XgiModel/C19/Lemmas9.lean).
-/
import XgiModel.C19.LemmasConn
import Mathlib.Data.List.Perm.Subperm

namespace Xgi.C19
open Xgi Xgi.HG

/-- `is_connected(H)` raises (`IndexError`) exactly on the null network -/
theorem isConnected_none_iff (s : HG) : isConnected s = none ↔ s.nodes = [] := by
  unfold isConnected
  cases s.nodes <;> simp

/-- `is_connected(H)` answers `True` exactly when every two nodes of `H` are joined by a chain of edges -/
theorem isConnected_spec {s : HG} (h : WF s) {b : Bool} (hb : isConnected s = some b) :
    b = true ↔ Connected s := by
  unfold isConnected at hb
  cases hn : s.nodes with
  | nil => rw [hn] at hb; cases hb
  | cons v rest =>
    rw [hn] at hb
    simp only [Option.some.injEq] at hb
    have hv : v ∈ s.nodes := by rw [hn]; exact List.mem_cons_self
    have hnd := plainBfs_nodup s v
    obtain ⟨_, hsub, _⟩ := plainBfs_closed h hv
    have hsp : (plainBfs s v).Subperm s.nodes := List.subperm_of_subset hnd (fun x hx => hsub x hx)
    rw [← hn] at hb
    constructor
    · intro hbt
      rw [hbt] at hb
      have hlen : (plainBfs s v).length = s.nodes.length := by simpa using hb
      have hp : (plainBfs s v).Perm s.nodes := hsp.perm_of_length_le (by omega)
      intro x hx y hy
      have rx : Reach s v x := (plainBfs_spec h hv x).1 (hp.mem_iff.2 hx)
      have ry : Reach s v y := (plainBfs_spec h hv y).1 (hp.mem_iff.2 hy)
      exact Relation.ReflTransGen.trans rx.symm ry
    · intro hc
      have hsup : s.nodes ⊆ plainBfs s v := fun y hy => (plainBfs_spec h hv y).2 (hc v hv y hy)
      have hsp2 : s.nodes.Subperm (plainBfs s v) := List.subperm_of_subset h.nodupN hsup
      have l1 := hsp.length_le
      have l2 := hsp2.length_le
      have hlen : (plainBfs s v).length = s.nodes.length := by omega
      rw [← hb]; simp [hlen]

/-- `number_connected_components(H)` (its own counting loop) is the number of components that
    `connected_components(H)` yields, i.e. the number of reachability classes (`components_spec`) -/
theorem numberComponents_spec (s : HG) : numberComponents s = (components s).length :=
  numberComponents_eq s

/-- `is_connected(H)` is `True` exactly when `number_connected_components(H) == 1` (on a network with a node) -/
theorem isConnected_iff_one_component {s : HG} (h : WF s) {b : Bool} (hb : isConnected s = some b) :
    b = true ↔ numberComponents s = 1 := by
  have hiff : Connected s ↔ (components s).length ≤ 1 :=
    ⟨fun hc => (components_of_connected h hc).1, connected_of_components h⟩
  rw [isConnected_spec h hb, numberComponents_spec, hiff]
  have hne : s.nodes ≠ [] := fun hn => by
    rw [(isConnected_none_iff s).2 hn] at hb; cases hb
  have hpos : (components s).length ≠ 0 := by
    intro h0
    obtain ⟨_, _, hcov⟩ := components_partition h
    cases hn : s.nodes with
    | nil => exact hne hn
    | cons v rest =>
      obtain ⟨c, hc, _⟩ := hcov v (by rw [hn]; exact List.mem_cons_self)
      rw [List.length_eq_zero_iff.1 h0] at hc; cases hc
  omega

/-- `largest_connected_component(H)`: raises (`ValueError` of `max()`) exactly on the null network; otherwise it
    is a reachability class, no component is larger, and every component listed before it is strictly smaller
    (the first of maximal size) -/
theorem largestConnectedComponent_spec {s : HG} (h : WF s) :
    (largestConnectedComponent s = none → s.nodes = []) ∧
    ∀ c, largestConnectedComponent s = some c →
      (∃ v ∈ s.nodes, ∀ x, x ∈ c ↔ Reach s v x) ∧
      ∃ pre post, components s = pre ++ c :: post ∧ (∀ p ∈ pre, p.length < c.length) ∧
        ∀ p ∈ post, p.length ≤ c.length := by
  refine ⟨fun hn => largestComponent_none hn, fun c hc => ?_⟩
  obtain ⟨pre, post, hcomp, h1, h2⟩ := largestComponent_spec hc
  refine ⟨?_, pre, post, hcomp, h1, h2⟩
  obtain ⟨hcl, _, _⟩ := components_partition h
  exact hcl c (by rw [hcomp]; simp)

/-- `node_connected_component(H, n)`: `XGIError` exactly for a foreign node; otherwise exactly the nodes joined
    to `n` by a chain of edges -/
theorem nodeComponent_spec {s : HG} (h : WF s) (n : PyId) :
    (nodeComponent s n = none ↔ n ∉ s.nodes) ∧
    ∀ c, nodeComponent s n = some c → ∀ x, x ∈ c ↔ Reach s n x := by
  unfold nodeComponent
  by_cases hn : n ∈ s.nodes
  · simp only [hn, if_true, not_true_eq_false, iff_false, Option.some.injEq]
    refine ⟨by simp, fun c hc x => ?_⟩
    rw [← hc]; exact plainBfs_spec h hn x
  · simp [hn]

/-! ### non-vacuity -/

/-- nodes 1..5; edges {1,2}, {2,3}, {4} — components {1,2,3}, {4}, {5} -/
private def demoC : HG :=
  (addEdgesFrom (addNodesFrom HG.empty
      [(.int 1, none), (.int 2, none), (.int 3, none), (.int 4, none), (.int 5, none)] []).1 .f4
    [{ members := [.int 1, .int 2], idx := some (.int 0), attr := [] },
     { members := [.int 2, .int 3], idx := some (.int 1), attr := [] },
     { members := [.int 4], idx := some (.int 2), attr := [] }] []).1

example : isConnected demoC = some false := by decide
example : numberComponents demoC = 3 := by decide
example : largestConnectedComponent demoC = some [.int 1, .int 2, .int 3] := by decide
example : nodeComponent demoC (.int 3) = some [.int 3, .int 2, .int 1] := by decide
example : nodeComponent demoC (.int 9) = none := by decide
example : isConnected HG.empty = none := by decide
example : isConnected (addNodesFrom HG.empty [(.int 7, none)] []).1 = some true := by decide

end Xgi.C19
