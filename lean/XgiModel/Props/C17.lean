/-
  C17 — a seed fully determines every stochastic result.

  Property theorems only.

  * `wellSeeded_sound` is the generic statement about the effect semantics of `C17/Rng.lean`: an effect list that
    passes the decidable seeding discipline draws the same values from every initial world.
  * `C17_table` instantiates its hypothesis on every entry of the table that the translator regenerates from the
    current Python source (`Generated/SeedTable.lean`); it is the obligation that breaks when a `random.seed(seed)`
    is deleted, `random` is swapped for `np.random`, a solver is called with fresh entropy, or a call cannot be
    resolved (`draw unknown`).
  * `C17_introspected_well_seeded` ties the table to a list it was NOT rendered from: `SeedTable.introspected` comes
    from importing the package and asking `inspect.signature` (harness/c17_translate.py, `introspect_public`).  Every
    public function with a `seed` parameter found that way has an entry, and that entry is well seeded.  It fails
    when the AST scan misses a public seeded callable (one made by `functools.partial`, a factory, an assignment).
  * `C17_same_seed_same_draws` is C17 as stated, on the model, for exactly those functions: same seed ⇒ same drawn
    values, whatever was called or drawn before and in between.

  What these theorems do not say: that equal draws give equal *output* (decided on the real code at run time), and
  that the table describes the Python text faithfully (the translator is trusted and cross-checked at run time).
-/
import XgiModel.C17.Rng
import XgiModel.C17.Lemmas
import XgiModel.Generated.SeedTable

namespace Xgi.C17

/-- Soundness of the seeding discipline: the values drawn by a well-seeded effect list depend on the seed
    only — not on the world it starts in (the state of the global Python / NumPy generators left behind by
    earlier calls and by whatever was drawn in between, and the OS entropy).  For every family `G` of
    generators and every table `T`. -/
theorem wellSeeded_sound (G : Gens) (T : Table) (effs : List Eff) (h : wellSeeded T effs = true) :
    ∀ (seed : Seed) (w w' : World), (exec G T effs seed w).1 = (exec G T effs seed w').1 := by
  intro seed w w'
  unfold wellSeeded at h
  cases hw : wsFold (wsEff T T.length true) (some Seeded.none) effs with
  | none => rw [hw] at h; cases h
  | some σ' =>
    have hrel : Rel Seeded.none ⟨w, []⟩ ⟨w', []⟩ := ⟨rfl, by simp [Seeded.none], by simp [Seeded.none]⟩
    have := rel_fold (wsEff T T.length true) (execEff G T T.length (some seed))
      (fun σ σ' e a b => rel_eff G T T.length (some seed) σ σ' e a b) effs Seeded.none σ' _ _ hw hrel
    exact this.1

/-- The obligation on the regenerated table: every function of xgi that takes a seed (the public ones and
    the private ones they forward it to) obeys the seeding discipline in the source as it is now. -/
theorem C17_table : ∀ f ∈ SeedTable.fns, wellSeeded SeedTable.fns f.2 = true := by
  decide

/-- Every public callable with a `seed` parameter that *importing the package* reveals (`SeedTable.introspected`,
    obtained with `inspect.signature`, not from the AST and not from `SeedTable.fns`) has an entry in the table
    translated from the source, and that entry obeys the seeding discipline. -/
theorem C17_introspected_well_seeded :
    ∀ n ∈ SeedTable.introspected,
      ∃ effs, SeedTable.fns.lookup n = some effs ∧ wellSeeded SeedTable.fns effs = true := by
  have h : ∀ n ∈ SeedTable.introspected, entryOk SeedTable.fns n = true := by decide
  intro n hn
  have hn' := h n hn
  unfold entryOk at hn'
  cases hl : SeedTable.fns.lookup n with
  | none => rw [hl] at hn'; cases hn'
  | some effs => rw [hl] at hn'; exact ⟨effs, rfl, hn'⟩

/-- C17 on the model: for every public seeded function `n` of the current source (found by introspection), with
    `effs` its translated body: calling it with seed `s`, then running anything (`between`: any effect list, e.g.
    another seeded function with another seed `s'`, or raw draws from the global generators), then calling it with
    `s` again draws exactly the same values — from every initial world, for every family of generators. -/
theorem C17_same_seed_same_draws (G : Gens) :
    ∀ n ∈ SeedTable.introspected, ∃ effs, SeedTable.fns.lookup n = some effs ∧
      ∀ (between : List Eff) (s s' : Seed) (w : World),
        (exec G SeedTable.fns effs s
          (exec G SeedTable.fns between s' (exec G SeedTable.fns effs s w).2).2).1
        = (exec G SeedTable.fns effs s w).1 := by
  intro n hn
  obtain ⟨effs, hl, hws⟩ := C17_introspected_well_seeded n hn
  exact ⟨effs, hl, fun between s s' w => wellSeeded_sound G SeedTable.fns effs hws s _ w⟩

/-! ### non-vacuity -/

/-- a concrete generator family and two different worlds -/
def gEx : Gens := ⟨fun n k => 1000 * n + k, fun n k => 2000 * n + k, fun n k => 3000 * n + k⟩
def wA : World := ⟨⟨fun k => 7 + k, 0⟩, ⟨fun k => 70 + k, 3⟩, ⟨fun k => 700 + k, 0⟩⟩
def wB : World := ⟨⟨fun k => 9 + k, 5⟩, ⟨fun k => 90 + k, 0⟩, ⟨fun k => 900 + k, 1⟩⟩

-- the table is not empty, its entries really draw, and the introspected list is not empty
example : SeedTable.fns.length > 0 := by decide
example : ∃ f ∈ SeedTable.fns, Eff.draw .pyGlobal ∈ f.2 := by decide
example : SeedTable.introspected.length > 0 := by decide
-- `entryOk` really refuses a name without an entry and an entry that is not well seeded
example : entryOk [("f", [.draw .pyGlobal])] "g" = false := by decide
example : entryOk [("f", [.draw .pyGlobal])] "f" = false := by decide
example : entryOk [("f", [.draw .unknown])] "f" = false := by decide
example : entryOk [("f", [.seed .pyGlobal true, .draw .pyGlobal])] "f" = true := by decide
-- corollary of `wellSeeded_sound` (not counted as an obligation): the trace is a function of the seed alone
example (G : Gens) (T : Table) (effs : List Eff) (h : wellSeeded T effs = true) :
    ∃ t : Seed → Trace, ∀ seed w, (exec G T effs seed w).1 = t seed :=
  ⟨fun seed => (exec G T effs seed ⟨⟨fun _ => 0, 0⟩, ⟨fun _ => 0, 0⟩, ⟨fun _ => 0, 0⟩⟩).1,
   fun seed w => wellSeeded_sound G T effs h seed w _⟩
-- a well-seeded list with real draws: the trace is non-empty and equal from both worlds
example : wellSeeded [] [.seed .pyGlobal true, .draw .pyGlobal, .draw .pyGlobal, .draw .local] = true := by decide
example : (exec gEx [] [.seed .pyGlobal true, .draw .pyGlobal, .draw .pyGlobal, .draw .local] 4 wA).1
    = [4000, 4001, 12002] := by decide
example : (exec gEx [] [.seed .pyGlobal true, .draw .pyGlobal, .draw .pyGlobal, .draw .local] 4 wB).1
    = [4000, 4001, 12002] := by decide
-- ill-seeded lists are rejected, and two worlds really give different traces
example : wellSeeded [] [.draw .pyGlobal] = false := by decide
example : (exec gEx [] [.draw .pyGlobal] 4 wA).1 ≠ (exec gEx [] [.draw .pyGlobal] 4 wB).1 := by decide
-- seeding the wrong generator (random.seed, then np.random draws)
example : wellSeeded [] [.seed .pyGlobal true, .draw .npGlobal] = false := by decide
example : (exec gEx [] [.seed .pyGlobal true, .draw .npGlobal] 4 wA).1
    ≠ (exec gEx [] [.seed .pyGlobal true, .draw .npGlobal] 4 wB).1 := by decide
-- an unresolved call (`draw unknown`) after a correct seeding is rejected, and really is world-dependent in the model
example : wellSeeded [] [.seed .pyGlobal true, .draw .unknown] = false := by decide
example : (exec gEx [] [.seed .pyGlobal true, .draw .unknown] 4 wA).1
    ≠ (exec gEx [] [.seed .pyGlobal true, .draw .unknown] 4 wB).1 := by decide
-- a solver with fresh entropy before seeded draws (the shape of spectral_clustering before its fix)
example : wellSeeded [("km", [.seed .local false, .draw .local])] [.draw .osEntropy, .forwardSeed "km"] = false := by
  decide
example : (exec gEx [("km", [.seed .local false, .draw .local])] [.draw .osEntropy, .forwardSeed "km"] 1 wA).1
    ≠ (exec gEx [("km", [.seed .local false, .draw .local])] [.draw .osEntropy, .forwardSeed "km"] 1 wB).1 := by
  decide
-- a callee entered without a seed may draw from a stream its caller has seeded, not otherwise
example : wellSeeded [("g", [.seed .pyGlobal true, .draw .pyGlobal])] [.seed .pyGlobal true, .callUnseeded "g"] = true := by
  decide
example : wellSeeded [("g", [.seed .pyGlobal true, .draw .pyGlobal])] [.callUnseeded "g"] = false := by decide
example : wellSeeded [("g", [.seed .pyGlobal true, .draw .pyGlobal])] [.forwardSeed "g"] = true := by decide
-- unknown callee / recursion are rejected
example : wellSeeded [] [.forwardSeed "nope"] = false := by decide
example : wellSeeded [("r", [.forwardSeed "r"])] [.forwardSeed "r"] = false := by decide

end Xgi.C17
