/-
  C04 (directed part) — Automatic edge IDs are always fresh; adding never overwrites, on the validated model
  of `xgi.DiHypergraph` (C02/DHG.lean, the functions the driver `DHG` runs).
  Property theorems only; helpers in C02/LemmasAdd.lean.  Audited together with Props/C04.lean.
-/
import XgiModel.C02.LemmasAdd
import XgiModel.Props.C02

namespace Xgi.C04D
open Xgi Xgi.DHG

/-- every call of the whole directed mutator alphabet (removals weak/strong, all bulk formats, copy, cleanup,
    relabelling, …), returning or raising, keeps the counter above every integer edge ID -/
theorem C04D_step {s : DHG} (h : Inv s) (op : Op) (r : DHG × Outcome) (hr : step s op = some r) : UidFresh r.1 :=
  (step_inv h op r hr).2

/-- … hence in every state reachable from the empty dihypergraph -/
theorem C04D_reachable {s : DHG} (h : C02.Reachable s) : UidFresh s := (C02.C02_reachable h).2

/-- `add_edge` without `idx`: the automatically chosen ID is not an existing ID, the edge is appended under
    exactly that ID, with the tail and head that were given (as sets), and the call returns normally -/
theorem C04D_auto_fresh {s : DHG} (h : Inv s) (tl hd : List PyId) (a : Attrs)
    (htl : PyId.none ∉ tl) (hhd : PyId.none ∉ hd) :
    PyId.int s.uid ∉ s.edges ∧
    (addEdge s (.pair tl hd) none a).1.edges = s.edges ++ [PyId.int s.uid] ∧
    (addEdge s (.pair tl hd) none a).2 = .ok ∧
    (∀ x, x ∈ (addEdge s (.pair tl hd) none a).1.tail (PyId.int s.uid) ↔ x ∈ tl) ∧
    (∀ x, x ∈ (addEdge s (.pair tl hd) none a).1.head (PyId.int s.uid) ↔ x ∈ hd) := by
  have hc : ¬ (PyId.none ∈ tl ∨ PyId.none ∈ hd ∨ (none : Option PyId) = some PyId.none) := by
    intro hx; rcases hx with hx | hx | hx
    · exact htl hx
    · exact hhd hx
    · cases hx
  have hfresh := uid_not_mem h.2
  have hedges := (addEdgeAt_edges { s with uid := s.uid + 1 } (PyId.int s.uid) tl hd a).1
  have hmem := addEdgeAt_members { s with uid := s.uid + 1 } (PyId.int s.uid) tl hd a
  unfold addEdge
  simp only [hc, if_false]
  exact ⟨hfresh, hedges, trivial, hmem.1, hmem.2⟩

/-- the same inside the bulk formats without IDs (1 and 3): the item takes the next counter value, which is
    not an existing ID, and is appended under exactly that ID -/
theorem C04D_auto_fresh_bulk {s : DHG} (h : Inv s) (fmt : Fmt) (hx : fmt.explicit = false) (attr : Attrs)
    (tl hd : List PyId) (io : Option PyId) (a : Attrs) (htl : PyId.none ∉ tl) (hhd : PyId.none ∉ hd) :
    PyId.int s.uid ∉ s.edges ∧
    (addEdgesItem fmt attr s { members := .pair tl hd, idx := io, attr := a }).1.edges = s.edges ++ [PyId.int s.uid] ∧
    (addEdgesItem fmt attr s { members := .pair tl hd, idx := io, attr := a }).2 = .ok := by
  have hfresh := uid_not_mem h.2
  have hc : ¬ (PyId.none ∈ tl ∨ PyId.none ∈ hd ∨ PyId.int (s.uid : Int) = PyId.none) := by
    intro hx; rcases hx with hx | hx | hx
    · exact htl hx
    · exact hhd hx
    · cases hx
  unfold addEdgesItem
  simp only [hx, Bool.false_eq_true, if_false, hfresh, hc]
  exact ⟨not_false, (addEdgeAt_edges _ _ _ _ _).1, trivial⟩

/-- `add_edge` in every member shape (pair of iterables, not a sequence, too short, a `None` member), with or
    without `idx`, returning, warning or raising: every existing edge keeps its position, tail, head and attributes -/
theorem C04D_add_edge_preserves {s : DHG} (h : Inv s) (m : DiMembers) (idx : Option PyId) (a : Attrs) :
    KeepsD s (addEdge s m idx a).1 := addEdge_keepsD h m idx a

/-- `add_edges_from` in all five formats (whenever the argument lies inside the model), also when it raises
    half-way or warns about existing IDs -/
theorem C04D_add_edges_from_preserves {s : DHG} (h : Inv s) (fmt : Fmt) (items : List EdgeItem) (attr : Attrs)
    (r : DHG × Outcome) (hr : addEdgesFrom s fmt items attr = some r) : KeepsD s r.1 :=
  addEdgesFrom_keepsD h fmt items attr r hr

/-- `add_node_to_edge` naming a new edge ID creates it without touching the others (either direction) -/
theorem C04D_add_node_to_edge_preserves (s : DHG) (e n : PyId) (d : Dir) (he : e ∉ s.edges) :
    KeepsD s (addNodeToEdge s e n d).1 := addNodeToEdge_new_keepsD s e n d he

/-- the three adding calls as steps of the state machine (frozen or not): existing edges are kept -/
theorem C04D_adding_step {s : DHG} (h : Inv s) (op : Op) (r : DHG × Outcome) (hr : step s op = some r)
    (hop : (∃ m idx a, op = .addEdge m idx a) ∨ (∃ fmt items a, op = .addEdgesFrom fmt items a) ∨
           (∃ e n d, op = .addNodeToEdge e n d ∧ e ∉ s.edges)) : KeepsD s r.1 := by
  unfold step at hr
  split at hr
  · cases hr; exact keepsD_refl s
  · rcases hop with ⟨m, idx, a, rfl⟩ | ⟨fmt, items, a, rfl⟩ | ⟨e, n, d, rfl, he⟩
    · simp only [stepCore, Option.some.injEq] at hr; subst hr; exact addEdge_keepsD h m idx a
    · simp only [stepCore] at hr; exact addEdgesFrom_keepsD h fmt items a r hr
    · simp only [stepCore, Option.some.injEq] at hr; subst hr; exact addNodeToEdge_new_keepsD s e n d he

/-- an explicit ID that already exists is refused with a warning and leaves the network unchanged -/
theorem C04D_explicit_dup (s : DHG) (tl hd : List PyId) (idx : PyId) (a : Attrs) (hi : idx ∈ s.edges)
    (htl : PyId.none ∉ tl) (hhd : PyId.none ∉ hd) (hn : idx ≠ .none) :
    addEdge s (.pair tl hd) (some idx) a = (s, .warned) := by
  unfold addEdge
  have : ¬ (PyId.none ∈ tl ∨ PyId.none ∈ hd ∨ some idx = some PyId.none) := by
    intro h; rcases h with h | h | h
    · exact htl h
    · exact hhd h
    · injection h with h; exact hn h
  simp only [this, if_false, hi, if_true]

/-- the same in the bulk formats (2, 4, 5): an item whose explicit ID exists changes nothing and warns,
    whatever its members look like -/
theorem C04D_explicit_dup_bulk (fmt : Fmt) (attr : Attrs) (s : DHG) (it : EdgeItem) (hx : fmt.explicit = true)
    (hi : it.idx.getD .none ∈ s.edges) : addEdgesItem fmt attr s it = (s, .warned) := by
  unfold addEdgesItem
  simp only [hx, if_true, hi]

/-- … hence a whole bulk call (formats 2, 4, 5) all of whose IDs exist returns with a warning and the network
    it was called on -/
theorem C04D_explicit_dup_bulk_all (fmt : Fmt) (attr : Attrs) (s : DHG) (items : List EdgeItem) (hx : fmt.explicit = true)
    (hne : items ≠ []) (hi : ∀ it ∈ items, it.idx.getD .none ∈ s.edges) :
    addEdgesBulk s fmt items attr = (s, .warned) := by
  unfold addEdgesBulk
  induction items with
  | nil => exact absurd rfl hne
  | cons it rest ih =>
    have h1 := C04D_explicit_dup_bulk fmt attr s it hx (hi it (by simp))
    simp only [bulk, h1]
    cases rest with
    | nil => rfl
    | cons it2 rest2 =>
      have := ih (by simp) (fun x hx' => hi x (by simp [hx']))
      rw [this]; rfl

/-- what `KeepsD` gives a user: old IDs stay, in place, with tail, head and attributes -/
theorem C04D_keeps_reading {s t : DHG} (k : KeepsD s t) :
    (∀ i, i < s.edges.length → t.edges[i]? = s.edges[i]?) ∧
    (∀ e ∈ s.edges, e ∈ t.edges ∧ t.tail e = s.tail e ∧ t.head e = s.head e ∧ t.eattr e = s.eattr e) := by
  obtain ⟨⟨l, hl⟩, hk⟩ := k
  refine ⟨fun i hi => by rw [hl, List.getElem?_append_left hi],
          fun e he => ⟨by rw [hl]; simp [he], (hk e he).1, (hk e he).2.1, (hk e he).2.2.1⟩⟩

/-! ### non-vacuity -/
private def pair (t h : List Int) : DiMembers := .pair (t.map PyId.int) (h.map PyId.int)

private def s0 : DHG := ((C02.run DHG.empty
  [ .addEdge (pair [1, 2] [3]) (some (.int 0)) [("w", .sc (.int 1))],      -- explicit id 0
    .addEdgesFrom .f2 [{ members := pair [2] [3], idx := some (.int 5), attr := [] },
                       { members := pair [3] [], idx := some (.int 1), attr := [] }] [],   -- decreasing ids
    .addNodeToEdge (.int 9) (.int 1) .head,                                  -- new edge 9 through add_node_to_edge
    .addEdge (pair [4] [4]) none [],                                         -- automatic: 10
    .addEdge (pair [7] [8]) (some (.int 5)) [],                              -- existing id: warned, nothing changes
    .addEdge (.pair [.int 1, .none] [.int 2]) none [] ]).getD DHG.empty)     -- raises before consuming the counter
example : s0.edges = [.int 0, .int 5, .int 1, .int 9, .int 10] := by decide
example : s0.uid = 11 := by decide
example : (s0.tail (.int 0), s0.head (.int 0), s0.eattr (.int 0)) = ([.int 1, .int 2], [.int 3], [("w", .sc (.int 1))]) := by decide
example : (s0.tail (.int 5), s0.head (.int 5)) = ([.int 2], [.int 3]) := by decide
example : addEdge s0 (pair [7] [8]) (some (.int 5)) [] = (s0, .warned) :=
  C04D_explicit_dup s0 _ _ _ _ (by decide) (by decide) (by decide) (by decide)
example : addEdgesBulk s0 .f2 [{ members := pair [7] [8], idx := some (.int 5), attr := [] },
                              { members := .notSeq, idx := some (.int 9), attr := [] }] [] = (s0, .warned) :=
  C04D_explicit_dup_bulk_all .f2 [] s0 _ rfl (by simp) (by decide)
example : (addEdge s0 (pair [1] [2]) none []).1.edges = s0.edges ++ [.int 11] := by decide
example : C02.Reachable ((C02.run DHG.empty [.addEdge (pair [1, 2] [3]) (some (.int 0)) []]).getD DHG.empty) :=
  C02.Reachable.step (op := .addEdge (pair [1, 2] [3]) (some (.int 0)) []) C02.Reachable.empty rfl

end Xgi.C04D
