import XgiModel.C15.Simp
namespace Xgi.C15
theorem placeholder : True := trivial
end Xgi.C15
