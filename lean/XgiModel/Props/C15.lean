/-
  C15 — Simpliciality measures match their combinatorial definitions.

  Property theorems about the transcription in `XgiModel/C15/Simp.lean` (the functions the driver runs).
  Hypotheses: `Dom h` = well-formed static network (distinct node and edge IDs, members are duplicate-free
  lists of nodes), labels all ints or all strs (empty edges are allowed); `1 ≤ minSize` where the empty node
  set would otherwise be enumerated as a sub-face.  Repeated edges are *not* excluded: every theorem holds for them too
  (edges counted with multiplicity, node sets counted once), so the property's "no repeated edges" is implied.
  The right-hand sides are the brute-force `spec…` functions (plain enumeration of all node subsets).
-/
import XgiModel.C15.LemmasExamples

namespace Xgi.C15

/-- **trie_spec**: the trie built by `build_trie(words)` finds `w` iff the sorted tuple of `w` is the sorted
    tuple of one of the words (pure statement about the transcribed `insert`/`search`, any labels). -/
theorem trie_spec (ws : List (List PyId)) (w : List PyId) :
    (buildTrie ws).search w = true ↔ sorted w ∈ ws.map sorted := by
  rw [search_buildTrie]; simp

/-- **trie_spec_set**: on orderable labels and duplicate-free words the trie answers "is this node set a word
    (as a set)". -/
theorem trie_spec_set {S : List PyId} (hS : Orderable S) (ws : List (List PyId))
    (hws : ∀ e ∈ ws, e.Nodup ∧ ∀ x ∈ e, x ∈ S) (w : List PyId) (hw : w.Nodup) :
    (buildTrie ws).search w = true ↔ ∃ e ∈ ws, ∀ x, x ∈ e ↔ x ∈ w := by
  rw [trie_spec, List.mem_map]
  constructor
  · rintro ⟨e, he, hs⟩
    exact ⟨e, he, (sorted_eq_iff hS (hws e he).2 (hws e he).1 hw).mp hs⟩
  · rintro ⟨e, he, hs⟩
    exact ⟨e, he, (sorted_eq_iff hS (hws e he).2 (hws e he).1 hw).mpr hs⟩

/-- **maximal_spec**: the loop of `EdgeView.maximal()` returns, in view order, exactly the edges that are not
    properly contained in another edge (and does not raise; an empty edge is maximal only if every edge is empty). -/
theorem maximal_spec {h : Net} (D : Dom h) : maximalEdges h = some (specMaximal h) :=
  maximalEdges_eq D.wf

/-- **sed_eq**: `simplicial_edit_distance(normalize=False)` is NaN when there is no eligible maximal edge and
    otherwise the number of node sets of size ≥ min_size that lie inside an eligible maximal edge and are not
    edges — the per-face count minus the faces reachable through an earlier overlapping face counts each once. -/
theorem sed_eq {h : Net} (D : Dom h) (m : Nat) (hm : 1 ≤ m) (x : Bool) :
    simplicialEditDistance h m x false =
      some (if (specFaces h m x).isEmpty then .undefined else .val ((specSED h m x : Nat) : Rat)) :=
  sed_raw_eq D m hm x

/-- **sed_norm_eq**: the normalised distance is `ms / (|E_{≥min}| − |eligible maximal| + ms)` of that count
    (NaN when the denominator is 0 or there is no eligible maximal edge). -/
theorem sed_norm_eq {h : Net} (D : Dom h) (m : Nat) (hm : 1 ≤ m) (x : Bool) :
    simplicialEditDistance h m x true = some (specSEDNorm h m x) :=
  sed_norm_eq' D m hm x

/-- **sf_eq**: `simplicial_fraction` is the share of eligible edges all of whose node subsets of size ≥ min_size
    are edges (NaN when there is no eligible edge). -/
theorem sf_eq {h : Net} (D : Dom h) (m : Nat) (x : Bool) : simplicialFraction h m x = specSF h m x :=
  simplicialFraction_eq D.wf D.ord m x

/-- **mfed_eq**: `mean_face_edit_distance` is the average over the eligible maximal edges of the share
    (normalize) or number of proper sub-faces of size ≥ min_size that are not edges; 0 when there is none. -/
theorem mfed_eq {h : Net} (D : Dom h) (m : Nat) (hm : 1 ≤ m) (x nz : Bool) :
    meanFaceEditDistance h m x nz = some (specMFED h m x nz) :=
  meanFaceEditDistance_eq D.wf D.ord m hm x nz

/-- **range** (edit distance and edit simpliciality): NaN or in [0, 1]. -/
theorem range_sed {h : Net} (D : Dom h) (m : Nat) (hm : 1 ≤ m) (x : Bool) :
    ∃ s, simplicialEditDistance h m x true = some s ∧ s.InUnit ∧
      editSimpliciality h m x = some s.oneMinus ∧ s.oneMinus.InUnit := by
  refine ⟨specSEDNorm h m x, sed_norm_eq D m hm x, specSEDNorm_inUnit h m x, ?_, ?_⟩
  · simp [editSimpliciality, sed_norm_eq D m hm x]
  · have := specSEDNorm_inUnit h m x
    cases hs : specSEDNorm h m x with
    | undefined => simp [Score.oneMinus, Score.InUnit]
    | val q =>
      rw [hs] at this
      simp only [Score.InUnit, Score.oneMinus] at this ⊢
      constructor <;> linarith [this.1, this.2]

/-- **range** (simplicial fraction): NaN or in [0, 1]. -/
theorem range_sf {h : Net} (D : Dom h) (m : Nat) (x : Bool) : (simplicialFraction h m x).InUnit := by
  rw [sf_eq D]; exact specSF_inUnit h m x

/-- **range** (normalised mean face edit distance and face edit simpliciality): in [0, 1]. -/
theorem range_mfed {h : Net} (D : Dom h) (m : Nat) (hm : 1 ≤ m) (x : Bool) :
    ∃ q, meanFaceEditDistance h m x true = some q ∧ 0 ≤ q ∧ q ≤ 1 ∧
      faceEditSimpliciality h m x = some (1 - q) ∧ 0 ≤ 1 - q ∧ 1 - q ≤ 1 := by
  have hb := specMFED_unit h m x
  refine ⟨specMFED h m x true, mfed_eq D m hm x true, hb.1, hb.2, ?_, by linarith [hb.2], by linarith [hb.1]⟩
  simp [faceEditSimpliciality, mfed_eq D m hm x true]

/-- **closed_one** (edit simpliciality): on a hypergraph that is downward closed above min_size the score is 1;
    it is NaN exactly when there is no eligible maximal edge or every edge of size ≥ min_size is one (0/0). -/
theorem closed_one_es {h : Net} (D : Dom h) (m : Nat) (hm : 1 ≤ m) (x : Bool) (hc : downClosed h m = true) :
    editSimpliciality h m x =
      some (if (specFaces h m x).isEmpty ∨ (sizeGeq h.edges m).length ≤ (specFaces h m x).length
        then .undefined else .val 1) := by
  simp only [editSimpliciality, sed_norm_eq D m hm x, specSEDNorm_closed hc, Option.map_some]
  split <;> simp [Score.oneMinus]

/-- **closed_one** (face edit simpliciality): always 1 on downward-closed hypergraphs. -/
theorem closed_one_fes {h : Net} (D : Dom h) (m : Nat) (hm : 1 ≤ m) (x : Bool) (hc : downClosed h m = true) :
    faceEditSimpliciality h m x = some 1 := by
  simp [faceEditSimpliciality, mfed_eq D m hm x true, specMFED_closed hc]

/-- **closed_one** (simplicial fraction): 1, or NaN when there is no eligible edge. -/
theorem closed_one_sf {h : Net} (D : Dom h) (m : Nat) (x : Bool) (hc : downClosed h m = true) :
    simplicialFraction h m x =
      if (h.edges.filter (fun p => decide (m + x.toNat ≤ p.2.length))).length = 0 then .undefined else .val 1 := by
  rw [sf_eq D, specSF_closed hc]

/-! ### non-vacuity: concrete networks in the domain, with the values the theorems give -/

-- `ex1`, `ex2`, `ex3` and the proofs `ex1_dom`, `ex2_dom`, `ex3_dom` that they lie in `Dom` are in
-- `XgiModel/C15/LemmasExamples.lean` (helpers, not property statements).

example : simplicialEditDistance ex1 2 true false = some (.val 2) := by
  rw [sed_eq ex1_dom 2 (by decide)]
  have h1 : (specFaces ex1 2 true).isEmpty = false := by decide
  have h2 : specSED ex1 2 true = 2 := by decide
  simp [h1, h2]

example : (specMaximal ex1).map (·.1) = [.int 0, .int 2] := by decide
example : downClosed ex1 2 = false := by decide
example : downClosed ex2 2 = true := by decide
example : editSimpliciality ex2 2 true = some (.val 1) := by
  rw [closed_one_es ex2_dom 2 (by decide) true (by decide)]
  have h1 : (specFaces ex2 2 true).isEmpty = false := by decide
  have h2 : ¬ (sizeGeq ex2.edges 2).length ≤ (specFaces ex2 2 true).length := by decide
  simp [h1, h2]
example : faceEditSimpliciality ex2 2 true = some 1 := closed_one_fes ex2_dom 2 (by decide) true (by decide)
example : simplicialFraction ex2 2 true = .val 1 := by
  rw [closed_one_sf ex2_dom 2 true (by decide)]
  have : (ex2.edges.filter (fun p => decide (2 + true.toNat ≤ p.2.length))).length = 1 := by decide
  rw [this]; rfl
/-- `min_size = 4`: the 5-node face of `ex3` misses exactly one 4-node sub-face; normaliser C(5,4) = 5 -/
example : simplicialEditDistance ex3 4 false false = some (.val 1) := by
  rw [sed_eq ex3_dom 4 (by decide)]
  have h1 : (specFaces ex3 4 false).isEmpty = false := by decide
  have h2 : specSED ex3 4 false = 1 := by decide
  simp [h1, h2]
example : maxNumberOfSubfaces 4 5 = 5 := by decide
/-- … and `mean_face_edit_distance(min_size=4)` of `ex3` is 1/5 (one of C(5,4) = 5 proper sub-faces missing) -/
example : meanFaceEditDistance ex3 4 false true = some (1/5) := by
  rw [mfed_eq ex3_dom 4 (by decide)]
  have h : specMFED ex3 4 false true = 1/5 := by
    unfold specMFED specFaceDistance
    have h1 : specFaces ex3 4 false = [(.int 0, [.int 0, .int 1, .int 2, .int 3, .int 4])] := by decide
    have h2 : ((specSubfaces ex3 4 [.int 0, .int 1, .int 2, .int 3, .int 4]).filter
        (fun t => !isEdge ex3 t)).length = 1 := by decide
    have h3 : (specSubfaces ex3 4 [.int 0, .int 1, .int 2, .int 3, .int 4]).length = 5 := by decide
    have h4 : specSubfaces ex3 4 [.int 0, .int 1, .int 2, .int 3, .int 4] ≠ [] := by decide
    simp [h1, h2, h3, h4]
  rw [h]
example : downClosed ex3 4 = false := by decide
/-- an empty edge next to {1,2}: inside the domain, not maximal, and it changes no count -/
example : (specMaximal ex4).map (·.1) = [.int 1] := by decide
example : simplicialEditDistance ex4 1 false false = some (.val 2) := by
  rw [sed_eq ex4_dom 1 (by decide)]
  have h1 : (specFaces ex4 1 false).isEmpty = false := by decide
  have h2 : specSED ex4 1 false = 2 := by decide
  simp [h1, h2]
example : (buildTrie [[.int 3, .int 1], [.int 2]]).search [.int 1, .int 3] = true := by
  rw [trie_spec_set (S := [.int 1, .int 2, .int 3]) (by unfold Orderable; decide) _ (by decide) _ (by decide)]
  exact ⟨[.int 3, .int 1], by simp, by intro x; simp; tauto⟩

end Xgi.C15
