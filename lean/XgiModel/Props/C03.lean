/-
  C03 — Simplicial complexes stay downward closed and duplicate-free.
  Property theorems only; the model is XgiModel/C03/SC.lean (what Drivers/SC.lean runs), helper lemmas
  live in XgiModel/C03/Lemmas.lean.  Every theorem holds for all values of the order hints
  (`Hints`: recorded set-iteration orders), i.e. for every order in which Python may create faces.
-/
import XgiModel.C03.Lemmas

namespace Xgi.C03
open Xgi Xgi.SC

/-- run a history of public calls (returning or raising) -/
def run (s : HG) (ops : List Op) : HG := ops.foldl (fun s op => (step s op).1) s

/-- the states reachable from the empty complex by public calls (returning or raising) -/
inductive Reachable : HG → Prop
  | empty : Reachable HG.empty
  | step {s : HG} (op : Op) : Reachable s → Reachable (step s op).1

/-- one call — whether it returns (`ok`/`warned`) or raises (`err _`) — preserves the invariant: two-way
    incidence and attribute records (`WF`), counter above all integer ids, downward closure, pairwise
    distinct node sets, no empty simplex -/
theorem C03_step {s : HG} (h : SCInv s) (op : Op) : SCInv (step s op).1 := step_inv h op

/-- every reachable state satisfies the invariant -/
theorem C03_reachable {s : HG} (h : Reachable s) : SCInv s := by
  induction h with
  | empty => exact empty_scinv
  | step op _ ih => exact C03_step ih op

/-- after any finite history -/
theorem C03_history (ops : List Op) {s : HG} (h : SCInv s) : SCInv (run s ops) := by
  induction ops generalizing s with
  | nil => exact h
  | cons op ops ih => exact ih (C03_step h op)

/-- … and after every prefix of it -/
theorem C03_prefix (ops : List Op) (k : Nat) : SCInv (run HG.empty (ops.take k)) :=
  C03_history _ empty_scinv

/-- the reading the statement asks for, clause 1: every subset with at least two nodes of every simplex is
    itself (the node set of) a simplex -/
theorem C03_closed {s : HG} (h : Reachable s) {e : PyId} (he : e ∈ s.edges) (u : List PyId) (hu : u.Nodup)
    (hsub : ∀ x ∈ u, x ∈ s.mem e) (h2 : 2 ≤ u.length) : ∃ f ∈ s.edges, ∀ x, x ∈ s.mem f ↔ x ∈ u :=
  (C03_reachable h).closed e he u hu hsub h2

/-- clause 2: no two simplex IDs carry the same node set -/
theorem C03_no_duplicates {s : HG} (h : Reachable s) {e f : PyId} (he : e ∈ s.edges) (hf : f ∈ s.edges)
    (hs : ∀ x, x ∈ s.mem e ↔ x ∈ s.mem f) : e = f :=
  (C03_reachable h).nodup e he f hf hs

/-- clause 3: no simplex is empty -/
theorem C03_no_empty {s : HG} (h : Reachable s) {e : PyId} (he : e ∈ s.edges) : s.mem e ≠ [] :=
  (C03_reachable h).noempty e he

/-- clause 4: the incidence relation is two-way consistent, members are nodes, memberships are simplices,
    member lists are duplicate-free (so `length` counts nodes) -/
theorem C03_incidence {s : HG} (h : Reachable s) {n e : PyId} :
    (n ∈ s.nodes → e ∈ s.memb n → e ∈ s.edges ∧ n ∈ s.mem e) ∧
    (e ∈ s.edges → n ∈ s.mem e → n ∈ s.nodes ∧ e ∈ s.memb n) ∧ (e ∈ s.edges → (s.mem e).Nodup) :=
  let w := (C03_reachable h).wf
  ⟨fun hn hm => w.n2e n hn e hm, fun he hm => w.e2n e he n hm, fun he => w.setE e he⟩

/-- adding works: when `add_simplex` returns without a warning on a non-empty member list, a simplex with
    exactly that node set exists afterwards (together with `C03_step`: and all its faces) -/
theorem C03_add_simplex_adds {s : HG} (h : SCInv s) (ms : List PyId) (idx : Option PyId) (a : Attrs) (hh : Hints)
    (hne : ms ≠ []) (hok : (addSimplex s ms idx a hh).2 = .ok) :
    ∃ e ∈ (addSimplex s ms idx a hh).1.edges, ∀ n, n ∈ (addSimplex s ms idx a hh).1.mem e ↔ n ∈ ms :=
  addSimplex_has h ms idx a hh hne hok

/-- removing a simplex removes exactly that simplex and the simplices containing it: the call returns, the
    member sets are untouched, the remaining simplices (in their order) are those whose node set does not
    include the removed one's — and the result is again a simplicial complex -/
theorem C03_remove_exact {s : HG} (h : SCInv s) {e : PyId} (he : e ∈ s.edges) :
    (removeSimplexId s e).2 = .ok ∧ (removeSimplexId s e).1.mem = s.mem ∧
    (removeSimplexId s e).1.edges = s.edges.filter (fun f => !isSubset (s.mem e) (s.mem f)) ∧
    (∀ f, f ∈ (removeSimplexId s e).1.edges ↔ f ∈ s.edges ∧ ¬ ∀ x ∈ s.mem e, x ∈ s.mem f) ∧
    SCInv (removeSimplexId s e).1 := by
  obtain ⟨h0, h1, _, h3⟩ := removeSimplexId_spec h he
  refine ⟨h0, h1, h3, ?_, removeSimplexId_inv s e h⟩
  intro f; rw [h3]
  simp only [List.mem_filter, Bool.not_eq_eq_eq_not, Bool.not_true]
  constructor
  · rintro ⟨hf, hx⟩; exact ⟨hf, fun hall => by rw [(isSubset_iff _ _).2 hall] at hx; cases hx⟩
  · rintro ⟨hf, hx⟩
    refine ⟨hf, ?_⟩
    cases hc : isSubset (s.mem e) (s.mem f)
    · rfl
    · exact absurd ((isSubset_iff _ _).1 hc) hx

/-- removing an absent id raises the library's error and changes nothing -/
theorem C03_remove_missing {s : HG} {e : PyId} (he : e ∉ s.edges) : removeSimplexId s e = (s, .err .lib) := by
  unfold removeSimplexId; rw [if_pos he]

/-- simplices added under a maximum order never exceed it: after `add_simplices_from(…, max_order=k)` every
    simplex is an untouched old one or has at most `k + 1` nodes (all five formats; also when the call raises) -/
theorem C03_max_order {s : HG} (h : SCInv s) (fmt : HG.Fmt) (items : List HG.EdgeItem) (k : Nat) (attr : Attrs)
    (hh : Hints) :
    ∀ f ∈ (addSimplicesFrom s fmt items (some k) attr hh).1.edges,
      (f ∈ s.edges ∧ (addSimplicesFrom s fmt items (some k) attr hh).1.mem f = s.mem f) ∨
      ((addSimplicesFrom s fmt items (some k) attr hh).1.mem f).length ≤ k + 1 :=
  addSimplicesFrom_bnd h fmt items k attr hh

/-- the same through `add_weighted_simplices_from` and the deprecated aliases (they forward `max_order`) -/
theorem C03_max_order_step {s : HG} (h : SCInv s) (hf : s.frozen = false) (op : Op) (k : Nat)
    (hop : (∃ fmt items a hh, op = .addSimplicesFrom fmt items (some k) a hh ∨ op = .addEdgesFrom fmt items (some k) a hh) ∨
           (∃ items a hh, op = .addWeightedSimplicesFrom items (some k) a hh ∨ op = .addWeightedEdgesFrom items (some k) a hh)) :
    ∀ f ∈ (step s op).1.edges, (f ∈ s.edges ∧ (step s op).1.mem f = s.mem f) ∨ ((step s op).1.mem f).length ≤ k + 1 := by
  have hs : step s op = stepCore s op := by unfold step; simp [hf]
  rw [hs]
  have hg : ∀ r : HG × Outcome, (deprecated (HG.guardF s r)).1 = r.1 := by
    intro r; unfold HG.guardF; simp [hf, deprecated]
  rcases hop with ⟨fmt, items, a, hh, rfl | rfl⟩ | ⟨items, a, hh, rfl | rfl⟩
  · exact addSimplicesFrom_bnd h fmt items k a hh
  · simp only [stepCore, hg]; exact addSimplicesFrom_bnd h fmt items k a hh
  · exact addSimplicesFrom_bnd h .f3 items k a hh
  · simp only [stepCore, hg]; exact addSimplicesFrom_bnd h .f3 items k a hh

/-- `has_simplex` answers membership exactly: true iff some simplex has that node set
    (as a set: order and repetitions in the argument do not matter) -/
theorem C03_has_simplex (s : HG) (x : List PyId) :
    hasSimplex s x = true ↔ ∃ e ∈ s.edges, ∀ n, n ∈ s.mem e ↔ n ∈ x :=
  hasSimplex_iff s x

/-- node removal is strong: the call returns, the node is gone, every simplex containing it is gone, all other
    simplices stay as they are — and the result is again a simplicial complex -/
theorem C03_remove_node {s : HG} (h : SCInv s) {n : PyId} (hn : n ∈ s.nodes) :
    (removeNode s n).2 = .ok ∧ n ∉ (removeNode s n).1.nodes ∧ (removeNode s n).1.mem = s.mem ∧
    (∀ f, f ∈ (removeNode s n).1.edges ↔ f ∈ s.edges ∧ n ∉ s.mem f) ∧ SCInv (removeNode s n).1 := by
  obtain ⟨h0, h1, _, h3, h4⟩ := removeNode_spec (s := s) n hn
  refine ⟨h0, by rw [h4]; simp, h1, ?_, removeNode_inv s n h⟩
  intro f; rw [h3]
  simp only [List.mem_filter, decide_eq_true_eq]
  constructor
  · rintro ⟨hf, hm⟩; exact ⟨hf, fun hx => hm (h.wf.e2n f hf n hx).2⟩
  · rintro ⟨hf, hm⟩; exact ⟨hf, fun hx => hm (h.wf.n2e n hn f hx).2⟩

/-! ### non-vacuity: concrete non-trivial histories run inside the model and meet the hypotheses -/

private def demoOps : List Op :=
  [ .addSimplex [.int 1, .int 2, .int 3] none [] {},
    .addSimplicesFrom .f2 [{ members := [.int 3, .int 4, .int 5, .int 6], idx := some (.int 0), attr := [] },
                           { members := [.int 3, .int 4, .int 5, .int 6], idx := some (.str "a"), attr := [] }] (some 1) [] {},
    .addSimplex [.int 7, .none] none [] {},                 -- raises
    .addSimplex [] none [] {},                              -- ignored
    .addSimplex [.int 1, .int 4] (some (.int 0)) [] {},     -- id 0 exists: warning
    .removeSimplexId (.int 1),
    .removeNode (.int 6) ]

example : (run HG.empty demoOps).edges = [.int 2, .int 3, .int 4, .int 5, .int 7] := by decide
example : (run HG.empty demoOps).mem (.int 4) = [.int 3, .int 4] := by decide
example : hasSimplex (run HG.empty demoOps) [.int 5, .int 3] = true := by decide
example : hasSimplex (run HG.empty demoOps) [.int 1, .int 2, .int 3] = false := by decide
example : (step (run HG.empty demoOps.dropLast) (.removeNode (.int 6))).2 = .ok := by decide
/-- the hypotheses of `C03_remove_exact` / `C03_remove_node` are met by a reachable state -/
example : ∃ s, Reachable s ∧ PyId.int 1 ∈ s.edges ∧ PyId.int 6 ∈ s.nodes :=
  ⟨run HG.empty (demoOps.take 2), by
    simp only [run, demoOps, List.take, List.foldl]
    exact Reachable.step _ (Reachable.step _ Reachable.empty), by decide, by decide⟩
/-- `max_order = 1` cut the 4-node simplex down to its edges -/
example : ((run HG.empty (demoOps.take 2)).edges.map (fun e => ((run HG.empty (demoOps.take 2)).mem e).length))
    = [3, 2, 2, 2, 2, 2, 2, 2, 2, 2] := by decide

end Xgi.C03
