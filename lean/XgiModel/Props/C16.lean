/-
  C16 — Generators deliver the structure their parameters promise.
  Property theorems only; helper lemmas live in XgiModel/C16/Lemmas*.lean.
  All statements are about the functions of XgiModel/C16/Gen.lean, GenRand.lean and Net.lean that the driver runs, for every
  `n`, `m`, size list, degree dict and every oracle (gap list / coin list / stub choices / uniform draws / `np.random.choice`
  results) — i.e. all seeds.
-/
import XgiModel.C16.LemmasHPPM
import XgiModel.C16.LemmasNet
import XgiModel.C16.LemmasDCSat

namespace Xgi.C16

/-! ### index decoders are bijections onto the reference enumerations -/

/-- `[_index_to_edge_comb(i, n, m) for i in range(comb(n, m))]` is `list(combinations(range(n), m))`
    (the decoder terminates within its fuel on every valid index and returns the i-th combination) -/
theorem comb_decode (n m : Nat) :
    (List.range (Nat.choose n m)).map (indexToEdgeComb n m) = (combinations n m).map some := by
  apply List.ext_getElem?
  intro i
  rw [List.getElem?_map, List.getElem?_map, ← choose_eq]
  by_cases h : i < choose n m
  · obtain ⟨l, h1, h2⟩ := indexToEdgeComb_getElem? n m i h
    rw [List.getElem?_range h, h2]
    simp [h1]
  · rw [List.getElem?_eq_none (by simpa using h), List.getElem?_eq_none (by rw [combinations, length_combsAux]; omega)]
    rfl

/-- the reference enumeration is exactly the set of `m`-subsets of `range n` (as increasing lists) -/
theorem combinations_spec (n m : Nat) (e : List Nat) :
    e ∈ combinations n m ↔ e.length = m ∧ e.Pairwise (· < ·) ∧ ∀ x ∈ e, x < n :=
  mem_combinations n m e

/-- … each listed once, `comb(n, m)` of them: with `comb_decode`, the decoder is a bijection
    `range(comb(n, m)) → m-subsets of range(n)` -/
theorem combinations_nodup_length (n m : Nat) :
    (combinations n m).Nodup ∧ (combinations n m).length = Nat.choose n m :=
  ⟨nodup_combinations n m, length_combinations n m⟩

/-- injectivity of the comb decoder on valid indices, stated directly -/
theorem comb_decode_injective (n m i j : Nat) (hi : i < Nat.choose n m) (hj : j < Nat.choose n m)
    (h : indexToEdgeComb n m i = indexToEdgeComb n m j) : i = j := by
  rw [← choose_eq] at hi hj
  obtain ⟨li, ei, gi⟩ := indexToEdgeComb_getElem? n m i hi
  obtain ⟨lj, ej, gj⟩ := indexToEdgeComb_getElem? n m j hj
  rw [ei, ej] at h
  have : (combinations n m)[i]? = (combinations n m)[j]? := by rw [gi, gj, Option.some.inj h]
  exact (List.getElem?_inj (by rw [combinations, length_combsAux]; exact hi) (nodup_combinations n m)).mp this

/-- `[_index_to_edge_prod(i, n, m) for i in range(n**m)]` is `list(product(range(n), repeat=m))` -/
theorem prod_decode (n m : Nat) : (List.range (n ^ m)).map (indexToEdgeProd n m) = product n m :=
  prod_decode_l n m

/-- `product(range(n), repeat=m)` = all `m`-tuples over `range n`, each once, `n^m` of them -/
theorem product_spec (n m : Nat) :
    (∀ t, t ∈ product n m ↔ t.length = m ∧ ∀ x ∈ t, x < n) ∧ (product n m).Nodup ∧ (product n m).length = n ^ m := by
  refine ⟨mem_product n m, ?_, ?_⟩
  · rw [product_eq_block]; exact nodup_blockProduct _
  · rw [product_eq_block, length_blockProduct, prodL_replicate]

/-- `[_index_to_edge_partition(i, sizes, len(sizes)) for i in range(prod(sizes))]` is
    `list(product(*[range(s) for s in sizes]))` -/
theorem partition_decode (sizes : List Nat) :
    (List.range (prodL sizes)).map (indexToEdgePartition sizes) = blockProduct sizes :=
  part_decode sizes

/-- the block product = all tuples with `t[r] < sizes[r]`, each once, `prod(sizes)` of them -/
theorem blockProduct_spec (sizes : List Nat) :
    (∀ t, t ∈ blockProduct sizes ↔ List.Forall₂ (· < ·) t sizes) ∧ (blockProduct sizes).Nodup ∧
      (blockProduct sizes).length = prodL sizes :=
  ⟨mem_blockProduct sizes, nodup_blockProduct sizes, length_blockProduct sizes⟩

/-! ### skip sampling, for every gap oracle -/

/-- whatever `geometric` returns (as long as each value is ≥ 1), the visited indices are strictly
    increasing and below the bound, and exactly a prefix of the oracle is consumed -/
theorem skip_indices_strict (count : Nat) (gaps is rest : List Nat) (hg : ∀ g ∈ gaps, 1 ≤ g)
    (h : skipSample count gaps = some (is, rest)) :
    is.Pairwise (· < ·) ∧ (∀ i ∈ is, i < count) ∧ ∃ used, gaps = used ++ rest :=
  skipSample_spec count gaps is rest hg h

/-- `p = 1`: every `geometric(1)` is 1, and then every index is visited exactly once -/
theorem skip_all_ones (count : Nat) :
    skipSample count (List.replicate (count + 1) 1) = some (List.range count, []) :=
  skipSample_ones count

/-- one order of `fast_random_hypergraph`, every oracle: the edges are pairwise distinct `size`-subsets
    of `range n` (no multi-edges); `p = 0` gives none, `p = 1` gives all of them -/
theorem fast_random_order_spec (n size : Nat) (p : Prob) (gaps : List Nat) (es : List (List Nat)) (rest : List Nat)
    (hg : ∀ g ∈ gaps, 1 ≤ g) (h : fastRandomOrder n size p gaps = some (es, rest)) :
    es.Nodup ∧ (∀ e ∈ es, e.length = size ∧ e.Pairwise (· < ·) ∧ ∀ x ∈ e, x < n) ∧ (p = .zero → es = []) ∧
      (p = .one → es = combinations n size) := by
  obtain ⟨h1, h2, h3, h4, _⟩ := fastRandomOrder_spec n size p gaps es rest hg h
  exact ⟨h1, fun e he => (mem_combinations _ _ _).mp (h2 e he), h3, h4⟩

/-- `fast_random_hypergraph(n, ps, order)`, every oracle: every edge is a subset of `range n` whose size
    is one of the requested sizes with non-zero probability; every order with `p = 1` is complete; with
    pairwise different orders there are no repeated edges -/
theorem fast_random_spec (n : Nat) (rounds : List (Nat × Prob)) (gaps : List Nat) (es : List (List Nat)) (rest : List Nat)
    (hg : ∀ g ∈ gaps, 1 ≤ g) (h : fastRandom n rounds gaps = some (es, rest)) :
    (∀ e ∈ es, ∃ r ∈ rounds, r.2 ≠ .zero ∧ e.length = r.1 ∧ e.Pairwise (· < ·) ∧ ∀ x ∈ e, x < n) ∧
    (∀ r ∈ rounds, r.2 = .one → ∀ e, (e.length = r.1 ∧ e.Pairwise (· < ·) ∧ ∀ x ∈ e, x < n) → e ∈ es) ∧
    ((rounds.map (·.1)).Nodup → es.Nodup) := by
  obtain ⟨h1, h2, h3, _⟩ := fastRandom_spec n rounds gaps es rest hg h
  refine ⟨?_, ?_, h3⟩
  · intro e he
    obtain ⟨r, hr, hz, hm⟩ := h1 e he
    exact ⟨r, hr, hz, (mem_combinations _ _ _).mp hm⟩
  · intro r hr hone e he
    exact h2 r hr hone e ((mem_combinations _ _ _).mpr he)


/-- `random_hypergraph(n, ps, order)`, every coin sequence: edges are subsets of `range n` of a requested size;
    no repeated edges when the orders differ; all coins `False` (p = 0) gives no edge, all `True` (p = 1) every one -/
theorem random_hypergraph_spec (n : Nat) (sizes : List Nat) (coins : List Bool) (es : List (List Nat)) (rest : List Bool)
    (h : coinRandom n sizes coins = some (es, rest)) :
    (∀ e ∈ es, ∃ s ∈ sizes, e.length = s ∧ e.Pairwise (· < ·) ∧ ∀ x ∈ e, x < n) ∧ (sizes.Nodup → es.Nodup) ∧
    ((∀ c ∈ coins, c = false) → es = []) ∧
    ((∀ c ∈ coins, c = true) → ∀ s ∈ sizes, ∀ e, (e.length = s ∧ e.Pairwise (· < ·) ∧ ∀ x ∈ e, x < n) → e ∈ es) := by
  obtain ⟨h1, h2, h3, h4, _⟩ := coinRandom_spec n sizes coins es rest h
  refine ⟨?_, h2, h3, ?_⟩
  · intro e he
    obtain ⟨s, hs, hm⟩ := h1 e he
    exact ⟨s, hs, (mem_combinations _ _ _).mp hm⟩
  · intro ht s hs e he
    exact h4 ht s hs e ((mem_combinations _ _ _).mpr he)

/-! ### uniform models -/

/-- `uniform_erdos_renyi_hypergraph`, every oracle: every edge has exactly `m` distinct members, all in `range n`;
    without `multiedges` no edge is repeated; `q = 0` gives no edge, `q = 1` (no multiedges) the complete
    `m`-uniform hypergraph -/
theorem erdos_renyi_spec (n m : Nat) (multi : Bool) (p : Prob) (gaps : List Nat) (es : List (List Nat)) (rest : List Nat)
    (hg : ∀ g ∈ gaps, 1 ≤ g) (h : erdosRenyi n m multi p gaps = some (es, rest)) :
    (∀ e ∈ es, e.length = m ∧ e.Nodup ∧ ∀ x ∈ e, x < n) ∧ (multi = false → es.Nodup) ∧ (p = .zero → es = []) ∧
      (p = .one → multi = false → es = combinations n m) :=
  erdosRenyi_spec n m multi p gaps es rest hg h

/-- `multiedges=True`, `q = 1` (all gaps 1): no error, and every `m`-tuple with distinct entries is produced -/
theorem erdos_renyi_multi_one (n m : Nat) :
    erdosRenyi n m true .one (List.replicate (n ^ m + 1) 1) = some (keepUniform m (product n m), []) ∧
    ∀ t, t.length = m → (∀ x ∈ t, x < n) → t.Nodup → t ∈ keepUniform m (product n m) := by
  constructor
  · simp only [erdosRenyi, skipSample_ones, prod_decode_l]
  · intro t h1 h2 h3
    rw [mem_keepUniform]
    exact ⟨⟨t, (mem_product n m t).mpr ⟨h1, h2⟩, dedup_of_nodup h3⟩, h1⟩

/-- `uniform_HSBM` (with the probability-1 fix), every oracle: every edge has exactly `m` distinct members, all in
    `range (sum sizes)`; an all-zero tensor gives no edge -/
theorem hsbm_spec (m : Nat) (sizes : List Nat) (ps : List Prob) (gaps : List Nat) (es : List (List Nat)) (rest : List Nat)
    (hg : ∀ g ∈ gaps, 1 ≤ g) (h : hsbm m sizes ps gaps = some (es, rest)) :
    (∀ e ∈ es, e.length = m ∧ e.Nodup ∧ ∀ x ∈ e, x < sumL sizes) ∧ ((∀ p ∈ ps, p = .zero) → es = []) := by
  obtain ⟨h1, h2, _⟩ := hsbmLoop_spec m sizes (cumsum sizes) (sumL sizes) (cumsum_bound sizes) _ ps gaps es rest hg h
  exact ⟨h1, h2⟩

/-- `uniform_HSBM`, every oracle: every edge was produced by a tuple of communities whose tensor entry is not 0, and each
    of its members lies in one of the communities of that tuple (community `b` = the labels
    `cumsum[b] … cumsum[b] + sizes[b] - 1`) — a community tuple with probability 0 receives no edge -/
theorem hsbm_blocks_spec (m : Nat) (sizes : List Nat) (ps : List Prob) (gaps : List Nat) (es : List (List Nat)) (rest : List Nat)
    (hg : ∀ g ∈ gaps, 1 ≤ g) (h : hsbm m sizes ps gaps = some (es, rest)) :
    ∀ e ∈ es, ∃ bp ∈ (product sizes.length m).zip ps, bp.2 ≠ .zero ∧
      ∀ x ∈ e, ∃ b ∈ bp.1, (cumsum sizes).getD b 0 ≤ x ∧ x < (cumsum sizes).getD b 0 + sizes.getD b 0 :=
  hsbmLoop_members m sizes (cumsum sizes) (sumL sizes) (cumsum_bound sizes) _ ps gaps es rest hg h

/-- a block of probability 1 yields every tuple of the block product with distinct entries — the same edges as the
    skip-sampling branch when every geometric gap is 1 (so `p = 1` is the limit of `p < 1`, without error) -/
theorem hsbm_block_one (m : Nat) (psizes offs : List Nat) (gaps : List Nat) :
    hsbmBlock m psizes offs .one gaps = some (keepUniform m ((blockProduct psizes).map (labelOf offs)), gaps) ∧
    hsbmBlock m psizes offs .mid (List.replicate (prodL psizes + 1) 1) =
      some (keepUniform m ((blockProduct psizes).map (labelOf offs)), []) :=
  hsbmBlock_one_eq_ones m psizes offs gaps

/-! ### complete hypergraphs -/

/-- `complete_hypergraph(N, order=d)` contains each `(d+1)`-subset of `range N` exactly once and nothing else -/
theorem complete_order_spec (n order : Nat) (e : List Nat) :
    (e ∈ completeOrder n order ↔ e.length = order + 1 ∧ e.Pairwise (· < ·) ∧ ∀ x ∈ e, x < n) ∧
    (e ∈ completeOrder n order → (completeOrder n order).count e = 1) :=
  ⟨mem_combinations n (order + 1) e, fun h => List.count_eq_one_of_mem (nodup_combinations _ _) h⟩

/-- `complete_hypergraph(N, max_order=d, include_singletons=s)` contains each subset of `range N` with
    `(1 if s else 2) ≤ size ≤ d + 1` exactly once and nothing else -/
theorem complete_max_spec (n maxOrder : Nat) (singletons : Bool) (e : List Nat) :
    (e ∈ completeMax n maxOrder singletons ↔
      ((if singletons then 1 else 2) ≤ e.length ∧ e.length ≤ maxOrder + 1) ∧ e.Pairwise (· < ·) ∧ ∀ x ∈ e, x < n) ∧
    (e ∈ completeMax n maxOrder singletons → (completeMax n maxOrder singletons).count e = 1) := by
  constructor
  · unfold completeMax
    simp only
    rw [mem_combsSizes]
    unfold Admissible
    cases singletons <;> simp <;> omega
  · intro h
    exact List.count_eq_one_of_mem (nodup_combsSizes _ _ _) h

/-! ### configuration model, for every choice oracle -/

/-- the generated degree of every node never exceeds its prescribed degree (plus one for the nodes drawn by the
    remainder adjustment, none when `sum(k) % m = 0`); every edge has exactly `m` distinct members, all keys of `k` -/
theorem config_degree_le (k : List (Nat × Nat)) (m : Nat) (bump : List Nat) (choices : List (List Nat)) (es : List (List Nat))
    (hk : (k.map (·.1)).Nodup) (h : configModel k m bump choices = some es) :
    (∀ v d, (v, d) ∈ k → degIn v es ≤ d + (if v ∈ bump then 1 else 0)) ∧
    (sumL (k.map (·.2)) % m = 0 → bump = []) ∧
    (∀ e ∈ es, e.length = m ∧ e.Nodup ∧ ∀ x ∈ e, x ∈ k.map (·.1)) := by
  unfold configModel at h
  split at h
  · simp at h
  · split at h
    · simp at h
    · rename_i k' hk'
      have hkeys : k'.map (·.1) = k.map (·.1) ∧ (∀ v d, (v, d) ∈ k → (v, d + (if v ∈ bump then 1 else 0)) ∈ k') ∧
          (sumL (k.map (·.2)) % m = 0 → bump = []) := by
        unfold cfgDegrees at hk'
        simp only at hk'
        split at hk'
        · rename_i hz
          split at hk'
          · rename_i hb
            simp at hk'; subst hk'
            have : bump = [] := by simpa using hb
            subst this
            exact ⟨rfl, by simp, fun _ => rfl⟩
          · simp at hk'
        · rename_i hz
          split at hk'
          · simp at hk'; subst hk'
            exact ⟨bumpDeg_keys k bump, mem_bumpDeg k bump, fun h0 => absurd h0 hz⟩
          · simp at hk'
      obtain ⟨e1, e2, e3⟩ := hkeys
      refine ⟨?_, e3, ?_⟩
      · intro v d hvd
        have := cfgLoop_degree m v choices (stubsOf k') es h
        rw [count_stubsOf v _ k' (by rw [e1]; exact hk) (e2 v d hvd)] at this
        exact this
      · intro e he
        obtain ⟨a, b, c⟩ := cfgLoop_edges m choices (stubsOf k') es h e he
        exact ⟨a, b, fun x hx => by rw [← e1]; exact mem_stubsOf x k' (c x hx)⟩

/-- the clause of the statement as written ("never exceed the prescribed degrees"), on its own domain: for a degree
    sequence the function itself accepts as realizable (`sum(k) % m = 0`: no warning, no remainder adjustment) the generated
    degree of every node is at most its prescribed degree - no `+ 1`.  For the other sequences the documented adjustment
    ("adds an additional connection to random nodes", with a warning) applies and `config_degree_le` is the bound. -/
theorem config_degree_le_realizable (k : List (Nat × Nat)) (m : Nat) (bump : List Nat) (choices : List (List Nat))
    (es : List (List Nat)) (hk : (k.map (·.1)).Nodup) (hr : sumL (k.map (·.2)) % m = 0)
    (h : configModel k m bump choices = some es) :
    ∀ v d, (v, d) ∈ k → degIn v es ≤ d := by
  obtain ⟨h1, h2, -⟩ := config_degree_le k m bump choices es hk h
  have hb : bump = [] := h2 hr
  subst hb
  intro v d hvd
  simpa using h1 v d hvd

/-! ### simplicial complexes -/

/-- `random_simplicial_complex`, every coin sequence: the complex is duplicate-free, downward closed (faces with at
    least two nodes), and every simplex is a subset of `range n` -/
theorem random_sc_spec (n : Nat) (sizes : List Nat) (coins : List Bool) (K : List (List Nat)) (rest : List Bool)
    (h : randomSC n sizes coins = some (K, rest)) :
    K.Nodup ∧ (∀ s ∈ K, ∀ t, t.Sublist s → 2 ≤ t.length → t ∈ K) ∧
    (∀ s ∈ K, 2 ≤ s.length ∧ s.Pairwise (· < ·) ∧ ∀ x ∈ s, x < n) := by
  unfold randomSC at h
  split at h
  · simp at h
  · rename_i es rest' hc
    simp at h; obtain ⟨rfl, rfl⟩ := h
    obtain ⟨h1, -⟩ := coinRandom_spec n sizes coins es _ hc
    refine ⟨nodup_dedup _, ?_, ?_⟩
    · intro s hs t hts hl
      rw [mem_closure] at hs ⊢
      obtain ⟨s0, hs0, hsub, -⟩ := hs
      exact ⟨s0, hs0, hts.trans hsub, hl⟩
    · intro s hs
      rw [mem_closure] at hs
      obtain ⟨s0, hs0, hsub, hl⟩ := hs
      obtain ⟨sz, -, hm⟩ := h1 s0 hs0
      have := admissible_sublist ((mem_combinations _ _ _).mp hm).2 hsub
      exact ⟨hl, this.1, this.2⟩

/-- the chosen simplices themselves are in the complex (so `p = 1` at an order gives every simplex of that order) -/
theorem closure_contains (S : List (List Nat)) (s : List Nat) (hs : s ∈ S) (hl : 2 ≤ s.length) : s ∈ closure S :=
  (mem_closure S s).mpr ⟨s, hs, List.Sublist.refl s, hl⟩

/-- `flag_complex(G, max_order)` / `random_flag_complex`: the simplices are exactly the cliques of `G` with
    2 … max_order+1 nodes, each once -/
theorem flag_complex_spec (n : Nat) (adj : Nat → Nat → Bool) (maxOrder : Nat) (e : List Nat) :
    (e ∈ flagComplex n adj maxOrder ↔
      (2 ≤ e.length ∧ e.length ≤ maxOrder + 1) ∧ (e.Pairwise (· < ·) ∧ ∀ x ∈ e, x < n) ∧
        e.Pairwise (fun a b => adj a b = true)) ∧
    (flagComplex n adj maxOrder).Nodup := by
  constructor
  · unfold flagComplex
    rw [mem_cliquesSizes]
    unfold Admissible
    constructor <;> rintro ⟨h1, h2⟩ <;> exact ⟨by omega, h2⟩
  · exact nodup_cliquesSizes n adj _ _

/-- flag complexes are downward closed -/
theorem flag_complex_closed (n : Nat) (adj : Nat → Nat → Bool) (maxOrder : Nat) (s t : List Nat)
    (hs : s ∈ flagComplex n adj maxOrder) (hts : t.Sublist s) (hl : 2 ≤ t.length) : t ∈ flagComplex n adj maxOrder := by
  rw [(flag_complex_spec n adj maxOrder _).1] at hs ⊢
  obtain ⟨h1, h2, h3⟩ := hs
  have := hts.length_le
  exact ⟨by omega, ⟨h2.1.sublist hts, fun x hx => h2.2 x (hts.subset hx)⟩, h3.sublist hts⟩

/-- `flag_complex(G, max_order, ps)` / `flag_complex_d2(G, p2)`, whatever cliques win their coin flips: the complex is
    duplicate-free, contains every graph edge and every promoted clique, every simplex is a clique of `G`, and it is
    downward closed; when nothing is promoted (all `p = 0`) it is the graph itself -/
theorem flag_promoted_spec (n : Nat) (adj : Nat → Nat → Bool) (maxOrder : Nat) (picked K : List (List Nat))
    (h : flagPromoted n adj maxOrder picked = some K) :
    K.Nodup ∧ (∀ e ∈ flagComplex n adj 1, e ∈ K) ∧ (∀ c ∈ picked, c ∈ K) ∧
    (∀ s ∈ K, 2 ≤ s.length ∧ (s.Pairwise (· < ·) ∧ ∀ x ∈ s, x < n) ∧ s.Pairwise (fun a b => adj a b = true)) ∧
    (∀ s ∈ K, ∀ t, t.Sublist s → 2 ≤ t.length → t ∈ K) ∧
    (picked = [] → ∀ s, s ∈ K ↔ s ∈ flagComplex n adj 1) := by
  unfold flagPromoted at h
  split at h
  · rename_i hp
    simp at h; subst h
    simp only [List.all_eq_true, Bool.and_eq_true, decide_eq_true_eq] at hp
    have memK : ∀ s, s ∈ dedup (flagComplex n adj 1 ++ picked.flatMap faces) ↔
        s ∈ flagComplex n adj 1 ∨ ∃ c ∈ picked, s.Sublist c ∧ 2 ≤ s.length := by
      intro s; simp [mem_dedup, List.mem_flatMap, mem_faces]
    have clique : ∀ s, (s ∈ flagComplex n adj 1 ∨ ∃ c ∈ picked, s.Sublist c ∧ 2 ≤ s.length) →
        2 ≤ s.length ∧ (s.Pairwise (· < ·) ∧ ∀ x ∈ s, x < n) ∧ s.Pairwise (fun a b => adj a b = true) := by
      rintro s (hs | ⟨c, hc, hsub, hl⟩)
      · obtain ⟨a, b, c⟩ := (flag_complex_spec n adj 1 s).1.mp hs
        exact ⟨a.1, b, c⟩
      · obtain ⟨a, b, c'⟩ := (flag_complex_spec n adj maxOrder s).1.mp (flag_complex_closed n adj maxOrder c s (hp c hc).1 hsub hl)
        exact ⟨a.1, b, c'⟩
    refine ⟨nodup_dedup _, ?_, ?_, ?_, ?_, ?_⟩
    · intro e he; rw [memK]; exact Or.inl he
    · intro c hc; rw [memK]; exact Or.inr ⟨c, hc, List.Sublist.refl c, by have := (hp c hc).2; omega⟩
    · intro s hs; exact clique s ((memK s).mp hs)
    · intro s hs t hts hl
      rw [memK] at hs ⊢
      rcases hs with hs | ⟨c, hc, hsub, -⟩
      · exact Or.inl (flag_complex_closed n adj 1 s t hs hts hl)
      · exact Or.inr ⟨c, hc, hts.trans hsub, hl⟩
    · intro hnil s
      subst hnil
      rw [memK]; simp
  · simp at h

/-! ### closed-form generators -/

/-- `ring_lattice(n, d, k, l)`: `n·(k//2)` edges, all members in `range n`; when no wrap-around collision is possible
    (`l + k//2 + d - 1 ≤ n`, `d ≥ 1`) every edge has exactly `d` distinct members -/
theorem ring_lattice_spec (n d k l : Nat) :
    (ringLattice n d k l).length = n * (k / 2) ∧
    (∀ e ∈ ringLattice n d k l, (∀ x ∈ e, x < n) ∧
      (1 ≤ d → l + k / 2 + d - 1 ≤ n → e.length = d ∧ e.Nodup)) := by
  refine ⟨length_ringLattice n d k l, ?_⟩
  intro e he
  rw [mem_ringLattice] at he
  obtain ⟨node, hn, j, hj, rfl⟩ := he
  constructor
  · intro x hx
    rw [List.mem_cons, List.mem_map] at hx
    rcases hx with rfl | ⟨i, -, rfl⟩
    · exact hn
    · exact Nat.mod_lt _ (by omega)
  · intro hd hadm
    exact ⟨by simp; omega, ring_edge_nodup n d k l node j hn hj hadm⟩

/-- `sunflower(l, c, m)`, `m ≥ c` (with the termination fix): `l` petals, each containing the core `range c`, each with
    exactly `m` distinct members below `c + l·(m-c)`; two different petals meet only in the core -/
theorem sunflower_spec (l c m : Nat) (hm : c ≤ m) :
    (sunflower l c m).length = l ∧
    (∀ e ∈ sunflower l c m, e.length = m ∧ e.Nodup ∧ (∀ x < c, x ∈ e) ∧ ∀ x ∈ e, x < c + l * (m - c)) ∧
    (∀ e₁ ∈ sunflower l c m, ∀ e₂ ∈ sunflower l c m, e₁ ≠ e₂ → ∀ x, x ∈ e₁ → x ∈ e₂ → x < c) := by
  refine ⟨by simp [sunflower], ?_, ?_⟩
  · intro e he
    rw [mem_sunflower] at he
    obtain ⟨t, ht, rfl⟩ := he
    refine ⟨by simp; omega, ?_, fun x hx => by simp [hx], ?_⟩
    · rw [List.nodup_append]
      refine ⟨List.nodup_range, ?_, ?_⟩
      · exact List.Nodup.map_on (fun x _ y _ h => by omega) List.nodup_range
      · intro a ha b hb hab
        rw [List.mem_range] at ha
        rw [List.mem_map] at hb
        obtain ⟨i, -, rfl⟩ := hb
        omega
    · intro x hx
      rw [List.mem_append, List.mem_range, List.mem_map] at hx
      rcases hx with hx | ⟨i, hi, rfl⟩
      · have : 0 ≤ l * (m - c) := Nat.zero_le _
        omega
      · rw [List.mem_range] at hi
        have : (t + 1) * (m - c) ≤ l * (m - c) := Nat.mul_le_mul_right _ ht
        rw [Nat.succ_mul] at this
        omega
  · intro e₁ h₁ e₂ h₂ hne x hx₁ hx₂
    rw [mem_sunflower] at h₁ h₂
    obtain ⟨t₁, -, rfl⟩ := h₁
    obtain ⟨t₂, -, rfl⟩ := h₂
    have htt : t₁ ≠ t₂ := fun h => hne (by rw [h])
    rw [List.mem_append, List.mem_range, List.mem_map] at hx₁ hx₂
    rcases hx₁ with hx₁ | ⟨i₁, hi₁, rfl⟩
    · exact hx₁
    · rcases hx₂ with hx₂ | ⟨i₂, hi₂, h⟩
      · exact hx₂
      · exfalso
        rw [List.mem_range] at hi₁ hi₂
        rcases Nat.lt_or_gt_of_ne htt with hlt | hlt
        · have := Nat.mul_le_mul_right (m - c) (Nat.succ_le_of_lt hlt)
          rw [Nat.succ_mul] at this
          omega
        · have := Nat.mul_le_mul_right (m - c) (Nat.succ_le_of_lt hlt)
          rw [Nat.succ_mul] at this
          omega

/-- `star_clique(n_star, n_clique, d_max)`: the edges are exactly the star legs `{0, i}`, the bridge `{0, n_star}` and
    every subset of the clique nodes with 2 … d_max+1 members — each once -/
theorem star_clique_spec (nStar nClique dMax : Nat) (hs : 1 ≤ nStar) :
    (∀ e, e ∈ starClique nStar nClique dMax ↔
      (∃ i, 1 ≤ i ∧ i < nStar ∧ e = [0, i]) ∨ e = [0, nStar] ∨
      ((2 ≤ e.length ∧ e.length ≤ dMax + 1) ∧ e.Pairwise (· < ·) ∧ ∀ x ∈ e, nStar ≤ x ∧ x < nStar + nClique)) ∧
    (starClique nStar nClique dMax).Nodup := by
  refine ⟨?_, nodup_starClique nStar nClique dMax hs⟩
  intro e
  simp only [starClique, List.mem_append, List.mem_map, List.mem_range, List.mem_singleton, mem_cliqueEdges]
  constructor
  · rintro ((⟨i, hi, rfl⟩ | rfl) | ⟨h1, h2⟩)
    · exact Or.inl ⟨i + 1, by omega, by omega, rfl⟩
    · exact Or.inr (Or.inl rfl)
    · exact Or.inr (Or.inr ⟨by omega, h2⟩)
  · rintro (⟨i, h1, h2, rfl⟩ | rfl | ⟨h1, h2⟩)
    · exact Or.inl (Or.inl ⟨i - 1, by omega, by congr; omega⟩)
    · exact Or.inl (Or.inr rfl)
    · exact Or.inr ⟨by omega, h2⟩

/-! ### watts_strogatz_hypergraph, for every coin sequence and every admissible `np.random.choice` result -/

/-- `watts_strogatz_hypergraph(n, d, k, l, p)` (with the d-uniform rewiring fix), `d ≥ 1`, whatever the coins and
    whatever `d - 1` distinct other nodes `np.random.choice(…, replace=False)` returns: the number of edges of the ring
    lattice is preserved, every member of every edge is a node of `range n` (so the node set stays `range n`), and
    when the lattice is `d`-uniform (`l + k//2 + d - 1 ≤ n`) every edge has exactly `d` distinct nodes -/
theorem watts_strogatz_spec (n d k l : Nat) (coins : List Bool) (choices es : List (List Nat)) (hd : 1 ≤ d)
    (h : wattsStrogatz n d k l coins choices = .ok es) :
    es.length = n * (k / 2) ∧ (∀ e ∈ es, ∀ x ∈ e, x < n) ∧
    (l + k / 2 + d - 1 ≤ n → ∀ e ∈ es, e.length = d ∧ e.Nodup) := by
  unfold wattsStrogatz at h
  split at h
  · rename_i kept added hl
    simp only [Res.ok.injEq] at h
    subst h
    obtain ⟨h1, h2, h3, -, -⟩ := wsLoop_spec n d _ coins choices kept added hl
    subst h2
    have hlen := length_kept_fired (ringLattice n d k l) coins h1
    have hfired : ∀ e ∈ firedOf (ringLattice n d k l) coins, e ≠ [] ∧ ∀ x ∈ e, x < n :=
      fun e he => ringLattice_edge n d k l e ((firedOf_sublist _ _).subset he)
    have hadd : ∀ a ∈ added, a.length = d ∧ a.Nodup ∧ ∀ x ∈ a, x < n :=
      forall₂_right h3 hfired (fun e a he hr => by
        obtain ⟨a1, a2, -, a4⟩ := rewired_spec n d e a hd hr
        exact ⟨a1, a2, a4 (he.2 _ (minL_mem e he.1))⟩)
    refine ⟨?_, ?_, ?_⟩
    · rw [List.length_append, ← h3.length_eq, hlen, length_ringLattice]
    · intro e he
      rcases List.mem_append.mp he with he | he
      · exact (ringLattice_edge n d k l e ((keptOf_sublist _ _).subset he)).2
      · exact (hadd e he).2.2
    · intro hadm e he
      rcases List.mem_append.mp he with he | he
      · exact ((ring_lattice_spec n d k l).2 e ((keptOf_sublist _ _).subset he)).2 hd hadm
      · exact ⟨(hadd e he).1, (hadd e he).2.1⟩
  · simp at h
  · simp at h

/-- the removed edges are exactly those whose coin fired: one coin per lattice edge; the result is the lattice edges
    whose coin did not fire, in order, followed by one new edge per fired coin, in order; each new edge has exactly `d`
    distinct nodes and contains the smallest node of the edge it replaces -/
theorem watts_strogatz_rewired (n d k l : Nat) (coins : List Bool) (choices es : List (List Nat)) (hd : 1 ≤ d)
    (h : wattsStrogatz n d k l coins choices = .ok es) :
    coins.length = n * (k / 2) ∧
    ∃ added, es = (((ringLattice n d k l).zip coins).filter (fun p => !p.2)).map (·.1) ++ added ∧
      choices.length = added.length ∧
      List.Forall₂ (fun e a => a.length = d ∧ a.Nodup ∧ minL e ∈ a ∧ (∀ y ∈ e, minL e ≤ y) ∧ ∀ x ∈ a, x < n)
        ((((ringLattice n d k l).zip coins).filter (fun p => p.2)).map (·.1)) added := by
  unfold wattsStrogatz at h
  split at h
  · rename_i kept added hl
    simp only [Res.ok.injEq] at h
    subst h
    obtain ⟨h1, h2, h3, h4, -⟩ := wsLoop_spec n d _ coins choices kept added hl
    subst h2
    refine ⟨by rw [h1, length_ringLattice], added, rfl, h4, ?_⟩
    have hfired : ∀ e ∈ firedOf (ringLattice n d k l) coins, e ≠ [] ∧ ∀ x ∈ e, x < n :=
      fun e he => ringLattice_edge n d k l e ((firedOf_sublist _ _).subset he)
    have key : ∀ (F A : List (List Nat)), List.Forall₂ (Rewired n d) F A → (∀ e ∈ F, e ≠ [] ∧ ∀ x ∈ e, x < n) →
        List.Forall₂ (fun e a => a.length = d ∧ a.Nodup ∧ minL e ∈ a ∧ (∀ y ∈ e, minL e ≤ y) ∧ ∀ x ∈ a, x < n) F A := by
      intro F A hF
      induction hF with
      | nil => intro _; exact List.Forall₂.nil
      | @cons e a F' A' hab _ ih =>
        intro hP
        obtain ⟨a1, a2, a3, a4⟩ := rewired_spec n d e a hd hab
        have he := hP e (by simp)
        exact List.Forall₂.cons ⟨a1, a2, a3, fun y hy => minL_le e y hy, a4 (he.2 _ (minL_mem e he.1))⟩
          (ih (fun e' he' => hP e' (by simp [he'])))
    exact key _ _ h3 hfired
  · simp at h
  · simp at h

/-- `p = 0` (no coin fires): the result is the ring lattice, unchanged — and that run exists -/
theorem watts_strogatz_p_zero (n d k l : Nat) :
    wattsStrogatz n d k l (List.replicate (n * (k / 2)) false) [] = .ok (ringLattice n d k l) ∧
    ∀ coins choices es, (∀ c ∈ coins, c = false) → wattsStrogatz n d k l coins choices = .ok es →
      es = ringLattice n d k l := by
  constructor
  · unfold wattsStrogatz
    rw [← length_ringLattice n d k l, wsLoop_all_false]
    simp
  · intro coins choices es hf h
    unfold wattsStrogatz at h
    split at h
    · rename_i kept added hl
      simp only [Res.ok.injEq] at h
      subst h
      obtain ⟨h1, h2, h3, -, -⟩ := wsLoop_spec n d _ coins choices kept added hl
      obtain ⟨a, b⟩ := keptOf_all_false _ coins h1 hf
      rw [b] at h3
      cases h3
      rw [h2, a]; simp
    · simp at h
    · simp at h

/-- `p = 1` (every coin fires): no lattice edge survives; edge `i` of the result is the rewiring of lattice edge `i` -/
theorem watts_strogatz_p_one (n d k l : Nat) (coins : List Bool) (choices es : List (List Nat)) (hd : 1 ≤ d)
    (hf : ∀ c ∈ coins, c = true) (h : wattsStrogatz n d k l coins choices = .ok es) :
    List.Forall₂ (fun e a => a.length = d ∧ a.Nodup ∧ minL e ∈ a) (ringLattice n d k l) es := by
  unfold wattsStrogatz at h
  split at h
  · rename_i kept added hl
    simp only [Res.ok.injEq] at h
    subst h
    obtain ⟨h1, h2, h3, -, -⟩ := wsLoop_spec n d _ coins choices kept added hl
    obtain ⟨a, b⟩ := keptOf_all_true _ coins h1 hf
    rw [b] at h3
    rw [h2, a, List.nil_append]
    exact h3.imp (fun e x hr => by
      obtain ⟨a1, a2, a3, -⟩ := rewired_spec n d e x hd hr
      exact ⟨a1, a2, a3⟩)
  · simp at h
  · simp at h

/-- the only exception is the `ValueError` of `np.random.choice` when a coin fires and `d > n` (no `d` distinct nodes
    exist); conversely a successful run in which a coin fired has `d ≤ n` -/
theorem watts_strogatz_error (n d k l : Nat) (coins : List Bool) (choices : List (List Nat)) :
    (∀ x, wattsStrogatz n d k l coins choices = .err x → x = .value ∧ n < d ∧ ∃ c ∈ coins, c = true) ∧
    (∀ es, wattsStrogatz n d k l coins choices = .ok es → (∃ c ∈ coins, c = true) → d ≤ n) := by
  constructor
  · intro x h
    unfold wattsStrogatz at h
    split at h
    · simp at h
    · rename_i y hl
      simp only [Res.err.injEq] at h
      subst h
      exact wsLoop_err n d _ coins choices y hl
    · simp at h
  · intro es h hc
    unfold wattsStrogatz at h
    split at h
    · rename_i kept added hl
      exact (wsLoop_spec n d _ coins choices kept added hl).2.2.2.2 hc
    · simp at h
    · simp at h

/-! ### chung_lu_hypergraph / dcsbm_hypergraph, for every gap oracle and every sequence of uniform draws -/

/-- the node list (`H.add_nodes_from(node_labels)`) is a rearrangement of the keys of `k1`: the node set is exactly the
    keys of `k1`, each once; and the labels are visited by non-increasing degree (so `q ≤ p` in every walk) -/
theorem degree_sorted_labels (k : List (Nat × Nat)) :
    ((sortByDeg k).map (·.1)).Perm (k.map (·.1)) ∧ (sortByDeg k).Perm k ∧
    (sortByDeg k).Pairwise (fun x y => y.2 ≤ x.2) :=
  ⟨(sortByDeg_perm k).map _, sortByDeg_perm k, sortByDeg_sorted k⟩

/-- the edge dict that the recorded `H.add_node_to_edge(v, u)` calls build, for any incidence trace between node ids
    `K1` and edge ids `K2`: edge ids are distinct and among `K2`, exactly those that occur in the trace; every edge is a
    non-empty set (no node twice) of nodes of `K1`; `u` is a member of `v` iff `add_node_to_edge(v, u)` was called -/
theorem bipartite_edges_spec (pairs : List (Nat × Nat)) (K1 K2 : List Nat) (hp : ∀ p ∈ pairs, p.2 ∈ K1 ∧ p.1 ∈ K2) :
    ((buildEdges pairs).map (·.1)).Nodup ∧ (∀ w, w ∈ (buildEdges pairs).map (·.1) ↔ ∃ u, (w, u) ∈ pairs) ∧
    ∀ e ∈ buildEdges pairs, e.1 ∈ K2 ∧ e.2.Nodup ∧ e.2 ≠ [] ∧ (∀ u ∈ e.2, u ∈ K1) ∧ ∀ u, u ∈ e.2 ↔ (e.1, u) ∈ pairs := by
  obtain ⟨h1, h2, h3⟩ := buildEdges_spec pairs
  refine ⟨h1, h2, ?_⟩
  intro e he
  obtain ⟨a, b, c⟩ := h3 e he
  obtain ⟨u, hu⟩ := (h2 e.1).mp (List.mem_map.mpr ⟨e, he, rfl⟩)
  exact ⟨(hp _ hu).2, a, b, fun u hu => (hp _ ((c u).mp hu)).1, c⟩

/-- `chung_lu_hypergraph(k1, k2)` with distinct keys, whatever `geometric` and `random.random() ≥ 0` return: each
    incidence `(edge v, node u)` is decided at most once (the trace has no repetition), joins a key of `k2` to a key of
    `k1`, and only when both the degree `k1[u]` and the size `k2[v]` are positive; only prefixes of the oracles are used -/
theorem chung_lu_spec (k1 k2 : List (Nat × Nat)) (gaps : List Nat) (rs : List Rat) (pairs : List (Nat × Nat)) (g : List Nat)
    (r : List Rat) (hk1 : (k1.map (·.1)).Nodup) (hk2 : (k2.map (·.1)).Nodup) (hr : ∀ x ∈ rs, 0 ≤ x)
    (h : chungLu k1 k2 gaps rs = .ok (pairs, g, r)) :
    pairs.Nodup ∧ (∀ p ∈ pairs, ∃ du dv, (p.2, du) ∈ k1 ∧ (p.1, dv) ∈ k2 ∧ 0 < du ∧ 0 < dv) ∧
    (∀ p ∈ pairs, p.2 ∈ k1.map (·.1) ∧ p.1 ∈ k2.map (·.1)) ∧
    (∃ used, gaps = used ++ g) ∧ (∃ used, rs = used ++ r) := by
  unfold chungLu at h
  obtain ⟨a, b, c, d⟩ := clNodes_spec _ _ (nodup_keys_sortByDeg k2 hk2) _ gaps rs pairs g r (nodup_keys_sortByDeg k1 hk1) hr h
  have b' : ∀ p ∈ pairs, ∃ du dv, (p.2, du) ∈ k1 ∧ (p.1, dv) ∈ k2 ∧ 0 < du ∧ 0 < dv := by
    intro p hp
    obtain ⟨du, dv, h1, h2, h3⟩ := b p hp
    exact ⟨du, dv, (mem_sortByDeg k1 _).mp h1, (mem_sortByDeg k2 _).mp h2, h3⟩
  refine ⟨a, b', ?_, c, d⟩
  intro p hp
  obtain ⟨du, dv, h1, h2, -⟩ := b' p hp
  exact ⟨List.mem_map.mpr ⟨_, h1, rfl⟩, List.mem_map.mpr ⟨_, h2, rfl⟩⟩

/-- the `min(p, 1)` clipping branch: a node whose product `k1[u] * k2[v]` reaches `S = sum(k1)` for every edge `v` is put
    into every edge of `k2`, whatever the draws (`0 ≤ r < 1`) -/
theorem chung_lu_saturated (k1 k2 : List (Nat × Nat)) (gaps : List Nat) (rs : List Rat) (pairs : List (Nat × Nat)) (g : List Nat)
    (r : List Rat) (hr : ∀ x ∈ rs, 0 ≤ x ∧ x < 1) (h : chungLu k1 k2 gaps rs = .ok (pairs, g, r))
    (u du : Nat) (hu : (u, du) ∈ k1) (hsat : ∀ e ∈ k2, sumL (k1.map (·.2)) ≤ du * e.2) (hS : 0 < sumL (k1.map (·.2))) :
    ∀ e ∈ k2, (e.1, u) ∈ pairs := by
  intro e he
  unfold chungLu at h
  exact clNodes_saturated _ _ hS _ gaps rs pairs g r hr h (u, du) ((mem_sortByDeg k1 _).mpr hu)
    (fun e he => hsat e ((mem_sortByDeg k2 _).mp he)) e ((mem_sortByDeg k2 _).mpr he)

/-- the exceptions of `chung_lu_hypergraph`: `IndexError` exactly when there are nodes but no edge label
    (`edge_labels[0]`); `ZeroDivisionError` whenever the degrees sum to 0 (`(k1[u] * k2[v]) / S`); no other exception
    class; without nodes the result is the empty hypergraph -/
theorem chung_lu_errors (k1 k2 : List (Nat × Nat)) (gaps : List Nat) (rs : List Rat) :
    (chungLu k1 k2 gaps rs = .err .index ↔ k1 ≠ [] ∧ k2 = []) ∧
    (k1 ≠ [] → k2 ≠ [] → sumL (k1.map (·.2)) = 0 → chungLu k1 k2 gaps rs = .err .zeroDiv) ∧
    (∀ x, chungLu k1 k2 gaps rs = .err x → x = .index ∨ x = .zeroDiv) ∧
    (k1 = [] → chungLu k1 k2 gaps rs = .ok ([], gaps, rs)) := by
  refine ⟨⟨?_, ?_⟩, ?_, ?_, ?_⟩
  · intro h
    unfold chungLu at h
    rcases clNodes_err _ _ _ _ _ _ h with ⟨-, h2, h3⟩ | ⟨h1, -⟩
    · exact ⟨fun hk => h3 ((sortByDeg_eq_nil k1).mpr hk), (sortByDeg_eq_nil k2).mp h2⟩
    · cases h1
  · rintro ⟨h1, rfl⟩
    unfold chungLu
    cases hs : sortByDeg k1 with
    | nil => exact absurd ((sortByDeg_eq_nil k1).mp hs) h1
    | cons n ns => obtain ⟨u, du⟩ := n; simp [sortByDeg, clNodes]
  · intro h1 h2 hS
    unfold chungLu
    cases hs : sortByDeg k1 with
    | nil => exact absurd ((sortByDeg_eq_nil k1).mp hs) h1
    | cons n ns =>
      obtain ⟨u, du⟩ := n
      have : (sortByDeg k2).isEmpty = false := by
        cases he : sortByDeg k2 with
        | nil => exact absurd ((sortByDeg_eq_nil k2).mp he) h2
        | cons _ _ => rfl
      simp [clNodes, this, hS]
  · intro x h
    unfold chungLu at h
    rcases clNodes_err _ _ _ _ _ _ h with ⟨h1, -⟩ | ⟨h1, -⟩
    · exact Or.inl h1
    · exact Or.inr h1
  · rintro rfl
    simp [chungLu, sortByDeg, clNodes]

/-- `dcsbm_hypergraph(k1, k2, g1, g2, omega)` with distinct keys, whatever the draws: each incidence is decided at most
    once, joins a key of `k2` to a key of `k1`, only when degree and size are positive, and only between a node community
    and an edge community whose `omega` entry is positive (a zero block of `omega` stays empty) -/
theorem dcsbm_spec (k1 k2 : List (Nat × Nat)) (g1 g2 : Nat → Nat) (omega : Nat → Nat → Nat) (gaps : List Nat) (rs : List Rat)
    (pairs : List (Nat × Nat)) (g : List Nat) (r : List Rat) (hk1 : (k1.map (·.1)).Nodup) (hk2 : (k2.map (·.1)).Nodup)
    (hr : ∀ x ∈ rs, 0 ≤ x) (h : dcsbm k1 k2 g1 g2 omega gaps rs = .ok (pairs, g, r)) :
    pairs.Nodup ∧
    (∀ p ∈ pairs, ∃ du dv, (p.2, du) ∈ k1 ∧ (p.1, dv) ∈ k2 ∧ 0 < du ∧ 0 < dv ∧ 0 < omega (g1 p.2) (g2 p.1)) ∧
    (∀ p ∈ pairs, p.2 ∈ k1.map (·.1) ∧ p.1 ∈ k2.map (·.1)) ∧
    (∃ used, gaps = used ++ g) ∧ (∃ used, rs = used ++ r) := by
  unfold dcsbm at h
  obtain ⟨a, b, c, d⟩ := dcPatches_spec _ _ g1 g2 omega _ _ (nodup_keys_sortByDeg k1 hk1) (nodup_keys_sortByDeg k2 hk2) _ gaps rs
    pairs g r (dcPatchList_nodup _ _ g1 g2) hr h
  have b' : ∀ p ∈ pairs, ∃ du dv, (p.2, du) ∈ k1 ∧ (p.1, dv) ∈ k2 ∧ 0 < du ∧ 0 < dv ∧ 0 < omega (g1 p.2) (g2 p.1) := by
    intro p hp
    obtain ⟨-, du, dv, h1, h2, h3⟩ := b p hp
    exact ⟨du, dv, (mem_sortByDeg k1 _).mp h1, (mem_sortByDeg k2 _).mp h2, h3⟩
  refine ⟨a, b', ?_, c, d⟩
  intro p hp
  obtain ⟨du, dv, h1, h2, -⟩ := b' p hp
  exact ⟨List.mem_map.mpr ⟨_, h1, rfl⟩, List.mem_map.mpr ⟨_, h2, rfl⟩⟩

/-- `dcsbm_hypergraph` raises nothing in the modelled domain — in particular not on all-zero degrees, where numpy turns
    `omega / 0` into inf/nan instead of raising and no incidence is ever accepted (`dcsbm_spec`: positive degrees only) -/
theorem dcsbm_no_exception (k1 k2 : List (Nat × Nat)) (g1 g2 : Nat → Nat) (omega : Nat → Nat → Nat) (gaps : List Nat)
    (rs : List Rat) (x : Err) : dcsbm k1 k2 g1 g2 omega gaps rs ≠ .err x := by
  unfold dcsbm
  exact dcPatches_no_err _ _ g1 g2 omega _ _ _ gaps rs x (dcPatchList_edges _ _ g1 g2)

/-- the `min(p, 1)` clipping branch of `dcsbm_hypergraph`: a node `u` of community `g1 u` whose probability
    `k1[u] * k2[v] * omega[g1 u, b] / (kappa1[g1 u] * kappa2[b])` reaches 1 for every edge label `v` of community `b` is put into
    every edge of that community, whatever the draws (`0 ≤ r < 1`) -/
theorem dcsbm_saturated (k1 k2 : List (Nat × Nat)) (g1 g2 : Nat → Nat) (omega : Nat → Nat → Nat) (gaps : List Nat) (rs : List Rat)
    (pairs : List (Nat × Nat)) (g : List Nat) (r : List Rat) (hk1 : (k1.map (·.1)).Nodup) (hk2 : (k2.map (·.1)).Nodup)
    (hr : ∀ x ∈ rs, 0 ≤ x ∧ x < 1) (h : dcsbm k1 k2 g1 g2 omega gaps rs = .ok (pairs, g, r))
    (u du b : Nat) (hu : (u, du) ∈ k1) (hK : 0 < kappa k1 g1 (g1 u) * kappa k2 g2 b)
    (hsat : ∀ e ∈ k2, g2 e.1 = b → kappa k1 g1 (g1 u) * kappa k2 g2 b ≤ du * e.2 * omega (g1 u) b) :
    ∀ e ∈ k2, g2 e.1 = b → (e.1, u) ∈ pairs := by
  intro e he hb
  unfold dcsbm at h
  have hu' : (u, du) ∈ sortByDeg k1 := (mem_sortByDeg k1 _).mpr hu
  have he' : e ∈ sortByDeg k2 := (mem_sortByDeg k2 _).mpr he
  have hpatch := mem_dcPatchList (sortByDeg k1) (sortByDeg k2) g1 g2 (u, du) e hu' he'
  rw [hb] at hpatch
  exact dcPatches_saturated _ _ g1 g2 omega _ _ (nodup_keys_sortByDeg k1 hk1) (nodup_keys_sortByDeg k2 hk2) _ gaps rs pairs g r hr h
    (g1 u, b) hpatch (u, du) hu' rfl
    (fun e2 he2 hb2 => dcProb_one _ _ du e2.2 hK (hsat e2 ((mem_sortByDeg k2 _).mp he2) hb2)) e he' hb

/-! ### uniform_HPPM and uniform_erdos_renyi_hypergraph(p_type="degree"): the probability arithmetic -/

/-- the planted-partition tensor: `2^m` entries, `p_in` on the two diagonal blocks `(0,…,0)` and `(1,…,1)`, `p_out`
    elsewhere; `epsilon = 0` makes all blocks equal to `p = k / (m n^(m-1))`, `epsilon = 1` empties the mixed blocks;
    `k = 0` makes every entry 0 -/
theorem hppm_tensor_spec (n m : Nat) (k eps rho : Rat) :
    (hppmTensor m (hppmIn n m k eps rho) (hppmOut n m k eps)).length = 2 ^ m ∧
    (∀ i, i < 2 ^ m → (hppmTensor m (hppmIn n m k eps rho) (hppmOut n m k eps))[i]? =
      some (if i = 0 ∨ i + 1 = 2 ^ m then hppmIn n m k eps rho else hppmOut n m k eps)) ∧
    (eps = 0 → hppmIn n m k eps rho = hppmP n m k ∧ hppmOut n m k eps = hppmP n m k) ∧
    (eps = 1 → hppmOut n m k eps = 0) ∧
    (k = 0 → hppmIn n m k eps rho = 0 ∧ hppmOut n m k eps = 0) := by
  refine ⟨length_hppmTensor m _ _, ?_, ?_, ?_, ?_⟩
  · intro i hi
    simp [hppmTensor, hi]
  · rintro rfl; simp [hppmIn, hppmOut]
  · rintro rfl; simp [hppmOut]
  · rintro rfl; simp [hppmIn, hppmOut, hppmP]

/-- `uniform_HPPM(n, m, k, epsilon, rho)`, every gap oracle: a network is returned only for parameters in range, it is
    the run of the `uniform_HSBM` model on the community sizes `[int(rho n), n - int(rho n)]` and on that tensor (all of
    whose entries are then probabilities), hence every edge has exactly `m` distinct members, all in `range n`; mean degree
    `k = 0` gives no edge -/
theorem hppm_spec (n m : Nat) (k eps rho : Rat) (gaps : List Nat) (es : List (List Nat)) (rest : List Nat)
    (hg : ∀ g ∈ gaps, 1 ≤ g) (h : hppm n m k eps rho gaps = .ok (es, rest)) :
    (0 ≤ rho ∧ rho ≤ 1 ∧ 0 ≤ k ∧ 0 ≤ eps ∧ eps ≤ 1) ∧
    (∀ x ∈ hppmTensor m (hppmIn n m k eps rho) (hppmOut n m k eps), 0 ≤ x ∧ x ≤ 1) ∧
    hsbm m (hppmSizes n rho) ((hppmTensor m (hppmIn n m k eps rho) (hppmOut n m k eps)).map classify) gaps = some (es, rest) ∧
    (∀ e ∈ es, e.length = m ∧ e.Nodup ∧ ∀ x ∈ e, x < n) ∧ (k = 0 → es = []) := by
  unfold hppm at h
  split at h
  · simp at h
  · rename_i h1
    split at h
    · simp at h
    · rename_i h2
      split at h
      · simp at h
      · rename_i h3
        split at h
        · simp at h
        · split at h
          · simp at h
          · rename_i h5
            rw [Res.ofOption_ok] at h
            have hrho : 0 ≤ rho ∧ rho ≤ 1 := by
              constructor
              · exact not_lt.mp (fun hc => h1 (Or.inl hc))
              · exact not_lt.mp (fun hc => h1 (Or.inr hc))
            have heps : 0 ≤ eps ∧ eps ≤ 1 := by
              constructor
              · exact not_lt.mp (fun hc => h3 (Or.inl hc))
              · exact not_lt.mp (fun hc => h3 (Or.inr hc))
            obtain ⟨s1, s2⟩ := hsbm_spec m _ _ gaps es rest hg h
            rw [hppmSizes_sum n rho hrho.2] at s1
            refine ⟨⟨hrho.1, hrho.2, not_lt.mp h2, heps.1, heps.2⟩, ?_, h, s1, ?_⟩
            · intro x hx
              simp only [List.any_eq_true, Bool.or_eq_true, decide_eq_true_eq, not_exists, not_and, not_or, not_lt] at h5
              exact ⟨(h5 x hx).2, (h5 x hx).1⟩
            · intro hk
              apply s2
              intro p hp
              rw [List.mem_map] at hp
              obtain ⟨x, hx, rfl⟩ := hp
              rw [classify_zero]
              obtain ⟨-, -, -, -, z⟩ := hppm_tensor_spec n m k eps rho
              rcases mem_hppmTensor m _ _ x hx with rfl | rfl
              · exact (z hk).1
              · exact (z hk).2

/-- `epsilon = 1` (`p_out = 0`): no edge joins the two planted communities — every edge lies entirely among the first
    `int(rho n)` nodes or entirely among the others -/
theorem hppm_eps_one (n m : Nat) (k rho : Rat) (gaps : List Nat) (es : List (List Nat)) (rest : List Nat)
    (hg : ∀ g ∈ gaps, 1 ≤ g) (h : hppm n m k 1 rho gaps = .ok (es, rest)) :
    ∀ e ∈ es, (∀ x ∈ e, x < (rho * (n : Nat)).floor.toNat) ∨ (∀ x ∈ e, (rho * (n : Nat)).floor.toNat ≤ x) := by
  obtain ⟨-, -, hh, -, -⟩ := hppm_spec n m k 1 rho gaps es rest hg h
  have hout : hppmOut n m k 1 = 0 := by simp [hppmOut]
  rw [hout] at hh
  intro e he
  obtain ⟨bp, hbp, hz, hx⟩ := hsbm_blocks_spec m _ _ gaps es rest hg hh e he
  have hlen : (hppmSizes n rho).length = 2 := rfl
  rw [hlen] at hbp
  rcases hppm_diagonal m _ bp hbp hz with h0 | h1
  · left
    intro x hxe
    obtain ⟨b, hb, -, h2⟩ := hx x hxe
    rw [h0] at hb
    have : b = 0 := (List.mem_replicate.mp hb).2
    subst this
    simpa [hppmSizes, cumsum] using h2
  · right
    intro x hxe
    obtain ⟨b, hb, h1', -⟩ := hx x hxe
    rw [h1] at hb
    have : b = 1 := (List.mem_replicate.mp hb).2
    subst this
    simpa [hppmSizes, cumsum] using h1'

/-- parameters out of range are rejected with `XGIError` before anything is generated -/
theorem hppm_rejects (n m : Nat) (k eps rho : Rat) (gaps : List Nat)
    (h : rho < 0 ∨ 1 < rho ∨ k < 0 ∨ eps < 0 ∨ 1 < eps) : hppm n m k eps rho gaps = .err .xgi := by
  unfold hppm
  split
  · rfl
  · rename_i h1
    split
    · rfl
    · rename_i h2
      split
      · rfl
      · rename_i h3
        exfalso
        rcases h with h | h | h | h | h
        · exact h1 (Or.inl h)
        · exact h1 (Or.inr h)
        · exact h2 h
        · exact h3 (Or.inl h)
        · exact h3 (Or.inr h)

/-- mean degree → wiring probability: without multi-edges `q · m · C(n, m) = p · n` (each of the `C(n,m)` possible edges
    contributes `m` to the degree sum of `n` nodes), with multi-edges `q · m · n^(m-1) = p` -/
theorem er_degree_conversion (n m : Nat) (p x : Rat) :
    (erDegreeQ n m p false = .ok (.q x) → x * ((m * choose n m : Nat) : Rat) = p * (n : Nat)) ∧
    (erDegreeQ n m p true = .ok (.q x) → x * ((m * n ^ (m - 1) : Nat) : Rat) = p) := by
  constructor
  · intro h
    simp only [erDegreeQ, Bool.false_eq_true, if_false] at h
    split at h
    · split at h <;> simp at h
    · rename_i hne
      simp only [Res.ok.injEq, QVal.q.injEq] at h
      subst h
      have : ((m * choose n m : Nat) : Rat) ≠ 0 := by exact_mod_cast hne
      field_simp
  · intro h
    simp only [erDegreeQ, if_true] at h
    split at h
    · simp at h
    · rename_i hne
      simp only [Res.ok.injEq, QVal.q.injEq] at h
      subst h
      have : ((m * n ^ (m - 1) : Nat) : Rat) ≠ 0 := by exact_mod_cast hne
      field_simp

/-- `uniform_erdos_renyi_hypergraph(n, m, p, p_type="degree")`, every gap oracle: a mean degree that needs `q > 1` (or
    `q < 0`) is rejected with `XGIError`; otherwise the edges have exactly `m` distinct members of `range n`, no edge is
    repeated without `multiedges`, and mean degree 0 gives no edge -/
theorem er_degree_spec (n m : Nat) (p : Rat) (multi : Bool) (gaps : List Nat) (hg : ∀ g ∈ gaps, 1 ≤ g) :
    (∀ x, erDegreeQ n m p multi = .ok (.q x) → (1 < x ∨ x < 0) → erdosRenyiDeg n m p multi gaps = .err .xgi) ∧
    (∀ es rest, erdosRenyiDeg n m p multi gaps = .ok (es, rest) →
      (∀ e ∈ es, e.length = m ∧ e.Nodup ∧ ∀ x ∈ e, x < n) ∧ (multi = false → es.Nodup) ∧
      (∀ x, erDegreeQ n m p multi = .ok (.q x) → 0 ≤ x ∧ x ≤ 1 ∧ (p = 0 → es = []))) := by
  constructor
  · intro x hq hx
    simp [erdosRenyiDeg, hq, hx]
  · intro es rest h
    unfold erdosRenyiDeg at h
    split at h
    · simp at h
    · simp at h
    · rename_i hq
      rw [Res.ofOption_ok] at h
      obtain ⟨a, b, -, -⟩ := erdosRenyi_spec n m multi _ gaps es rest hg h
      exact ⟨a, b, fun x hx => by rw [hq] at hx; simp at hx⟩
    · rename_i x hq
      split at h
      · simp at h
      · rename_i hx
        rw [Res.ofOption_ok] at h
        obtain ⟨a, b, c, -⟩ := erdosRenyi_spec n m multi _ gaps es rest hg h
        refine ⟨a, b, ?_⟩
        intro y hy
        rw [hq] at hy
        simp only [Res.ok.injEq, QVal.q.injEq] at hy
        subst hy
        refine ⟨not_lt.mp (fun hc => hx (Or.inr hc)), not_lt.mp (fun hc => hx (Or.inl hc)), ?_⟩
        intro hp
        apply c
        rw [classify_zero]
        subst hp
        cases multi
        · simp only [erDegreeQ, Bool.false_eq_true, if_false] at hq
          split at hq
          · split at hq <;> simp at hq
          · simp at hq; exact hq.symm
        · simp only [erDegreeQ, if_true] at hq
          split at hq
          · simp at hq
          · simp at hq; exact hq.symm

/-- `trivial_hypergraph(n)` / `empty_hypergraph()` (`n = 0`): the node set is `range n`, each node once; there is no edge
    (the model has no edge component at all) -/
theorem trivial_spec (n : Nat) : (∀ x, x ∈ trivialNodes n ↔ x < n) ∧ (trivialNodes n).Nodup ∧ (trivialNodes n).length = n :=
  ⟨fun x => by simp [trivialNodes], by simp [trivialNodes, List.nodup_range], by simp [trivialNodes]⟩

/-! ### "exactly the requested node set", generator by generator (node lists of XgiModel/C16/Net.lean) -/

/-- `_check_input_args` + `zip(order, ps)`: without `order` the i-th probability belongs to edges of `i + 2` nodes; with
    `order` (same length, scalars being singletons) to edges of `order[i] + 1` nodes; different lengths: `ValueError` -/
theorem input_rounds_spec (ps : List Prob) :
    (∃ rs, inputRounds ps none = .ok rs ∧ rs.map (·.2) = ps ∧ rs.map (·.1) = (List.range ps.length).map (· + 2)) ∧
    (∀ o : List Nat, o.length = ps.length →
      ∃ rs, inputRounds ps (some o) = .ok rs ∧ rs.map (·.2) = ps ∧ rs.map (·.1) = o.map (· + 1)) ∧
    (∀ o : List Nat, o.length ≠ ps.length → inputRounds ps (some o) = .err .value) := by
  refine ⟨⟨_, rfl, ?_, ?_⟩, ?_, ?_⟩
  · exact map_snd_zipWith (· + 2) _ ps (by simp)
  · exact map_fst_zipWith (· + 2) _ ps (by simp)
  · intro o ho
    refine ⟨List.zipWith (fun d p => (d + 1, p)) o ps, by simp [inputRounds, ho], ?_, ?_⟩
    · exact map_snd_zipWith (· + 1) o ps ho
    · exact map_fst_zipWith (· + 1) o ps ho
  · intro o ho
    simp [inputRounds, ho]

/-- `fast_random_hypergraph(n, ps, order)`, every oracle: the node list is exactly `range n` (every generated edge lies
    within it); the edges are those of `fast_random_spec` for the rounds `_check_input_args` computes -/
theorem fast_random_nodes (n : Nat) (ps : List Prob) (order : Option (List Nat)) (gaps : List Nat) (net : GNet) (rest : List Nat)
    (hg : ∀ g ∈ gaps, 1 ≤ g) (h : fastRandomNet n ps order gaps = .ok (net, rest)) :
    net.nodes = List.range n ∧
    ∃ rounds, inputRounds ps order = .ok rounds ∧ fastRandom n rounds gaps = some (net.edges, rest) := by
  unfold fastRandomNet at h
  split at h
  · rename_i rounds hr
    rw [Res.ofOption_ok, netOpt_some] at h
    obtain ⟨es, hes, rfl⟩ := h
    refine ⟨build_nodes_eq _ _ _ List.nodup_range ?_ (by simp), rounds, hr, hes⟩
    intro e he x hx
    obtain ⟨r, -, -, -, -, hlt⟩ := (fast_random_spec n rounds gaps es rest hg hes).1 e he
    exact List.mem_range.mpr (hlt x hx)
  · simp at h
  · simp at h

/-- `random_hypergraph(n, ps, order)`, every coin sequence: the node list is exactly `range n` -/
theorem random_hypergraph_nodes (n : Nat) (ps : List Prob) (order : Option (List Nat)) (coins : List Bool) (net : GNet)
    (rest : List Bool) (h : coinRandomNet n ps order coins = .ok (net, rest)) :
    net.nodes = List.range n ∧
    ∃ rounds, inputRounds ps order = .ok rounds ∧ coinRandom n (rounds.map (·.1)) coins = some (net.edges, rest) := by
  unfold coinRandomNet at h
  split at h
  · rename_i rounds hr
    rw [Res.ofOption_ok, netOpt_some] at h
    obtain ⟨es, hes, rfl⟩ := h
    refine ⟨build_nodes_eq _ _ _ List.nodup_range ?_ (by simp), rounds, hr, hes⟩
    intro e he x hx
    obtain ⟨s, -, -, -, hlt⟩ := (random_hypergraph_spec n _ coins es rest hes).1 e he
    exact List.mem_range.mpr (hlt x hx)
  · simp at h
  · simp at h

/-- `uniform_erdos_renyi_hypergraph` (both `p_type`s), `uniform_HSBM`, `uniform_HPPM`, every oracle: the node list is
    exactly `range n` (`n = sum(sizes)` for the block model) -/
theorem uniform_nodes (n m : Nat) (gaps : List Nat) (net : GNet) (rest : List Nat) (hg : ∀ g ∈ gaps, 1 ≤ g) :
    (∀ multi p, erdosRenyiNet n m multi p gaps = some (net, rest) → net.nodes = List.range n) ∧
    (∀ multi p, erdosRenyiDegNet n m p multi gaps = .ok (net, rest) → net.nodes = List.range n) ∧
    (∀ sizes ps, hsbmNet m sizes ps gaps = some (net, rest) → net.nodes = List.range (sumL sizes)) ∧
    (∀ k eps rho, hppmNet n m k eps rho gaps = .ok (net, rest) → net.nodes = List.range n) := by
  refine ⟨?_, ?_, ?_, ?_⟩
  · intro multi p h
    rw [erdosRenyiNet, netOpt_some] at h
    obtain ⟨es, hes, rfl⟩ := h
    refine build_nodes_eq _ _ _ List.nodup_range ?_ (by simp)
    intro e he x hx
    exact List.mem_range.mpr (((erdos_renyi_spec n m multi p gaps es rest hg hes).1 e he).2.2 x hx)
  · intro multi p h
    rw [erdosRenyiDegNet, netRes_ok] at h
    obtain ⟨es, hes, rfl⟩ := h
    refine build_nodes_eq _ _ _ List.nodup_range ?_ (by simp)
    intro e he x hx
    exact List.mem_range.mpr ((((er_degree_spec n m p multi gaps hg).2 es rest hes).1 e he).2.2 x hx)
  · intro sizes ps h
    rw [hsbmNet, netOpt_some] at h
    obtain ⟨es, hes, rfl⟩ := h
    refine build_nodes_eq _ _ _ List.nodup_range ?_ (by simp)
    intro e he x hx
    exact List.mem_range.mpr (((hsbm_spec m sizes ps gaps es rest hg hes).1 e he).2.2 x hx)
  · intro k eps rho h
    rw [hppmNet, netRes_ok] at h
    obtain ⟨es, hes, rfl⟩ := h
    refine build_nodes_eq _ _ _ List.nodup_range ?_ (by simp)
    intro e he x hx
    exact List.mem_range.mpr (((hppm_spec n m k eps rho gaps es rest hg hes).2.2.2.1 e he).2.2 x hx)

/-- `complete_hypergraph(N, …)`: the node list is exactly `range N`, whatever the order options -/
theorem complete_nodes (n : Nat) :
    (∀ order, (completeOrderNet n order).nodes = List.range n) ∧
    (∀ maxOrder singletons, (completeMaxNet n maxOrder singletons).nodes = List.range n) := by
  constructor
  · intro order
    refine build_nodes_eq _ _ _ List.nodup_range ?_ (by simp)
    intro e he x hx
    exact List.mem_range.mpr (((complete_order_spec n order e).1.mp he).2.2 x hx)
  · intro mo s
    refine build_nodes_eq _ _ _ List.nodup_range ?_ (by simp)
    intro e he x hx
    exact List.mem_range.mpr (((complete_max_spec n mo s e).1.mp he).2.2 x hx)

/-- `uniform_hypergraph_configuration_model(k, m)`, every choice oracle: the node list is exactly the keys of `k`, in
    dict order -/
theorem config_nodes (k : List (Nat × Nat)) (m : Nat) (bump : List Nat) (choices : List (List Nat)) (net : GNet)
    (hk : (k.map (·.1)).Nodup) (h : configNet k m bump choices = some net) :
    net.nodes = k.map (·.1) ∧ configModel k m bump choices = some net.edges := by
  unfold configNet at h
  cases hc : configModel k m bump choices with
  | none => rw [hc] at h; simp at h
  | some es =>
    rw [hc] at h
    simp only [Option.map_some, Option.some.injEq] at h
    subst h
    refine ⟨build_nodes_eq _ _ _ hk ?_ (by simp), rfl⟩
    intro e he x hx
    exact ((config_degree_le k m bump choices es hk hc).2.2 e he).2.2 x hx

/-- simplicial generators: `random_simplicial_complex(N, ps)`, `flag_complex` / `random_flag_complex` (all cliques or
    promoted cliques) on a graph with nodes `range n` — the node list is exactly `range n` -/
theorem simplicial_nodes (n : Nat) :
    (∀ sizes coins net rest, randomSCNet n sizes coins = some (net, rest) → net.nodes = List.range n) ∧
    (∀ adj maxOrder, (flagComplexNet n adj maxOrder).nodes = List.range n) ∧
    (∀ adj maxOrder picked net, flagPromotedNet n adj maxOrder picked = some net → net.nodes = List.range n) := by
  refine ⟨?_, ?_, ?_⟩
  · intro sizes coins net rest h
    rw [randomSCNet, netOpt_some] at h
    obtain ⟨K, hK, rfl⟩ := h
    refine build_nodes_eq _ _ _ List.nodup_range ?_ (by simp)
    intro e he x hx
    exact List.mem_range.mpr (((random_sc_spec n sizes coins K rest hK).2.2 e he).2.2 x hx)
  · intro adj mo
    refine build_nodes_eq _ _ _ List.nodup_range ?_ (by simp)
    intro e he x hx
    exact List.mem_range.mpr (((flag_complex_spec n adj mo e).1.mp he).2.1.2 x hx)
  · intro adj mo picked net h
    unfold flagPromotedNet at h
    cases hc : flagPromoted n adj mo picked with
    | none => rw [hc] at h; simp at h
    | some K =>
      rw [hc] at h
      simp only [Option.map_some, Option.some.injEq] at h
      subst h
      refine build_nodes_eq _ _ _ List.nodup_range ?_ (by simp)
      intro e he x hx
      exact List.mem_range.mpr (((flag_promoted_spec n adj mo picked K hc).2.2.2.1 e he).2.1.2 x hx)

/-- `flag_complex(G, max_order=None)` (all faces of the maximal cliques with at least two nodes): taking `maxOrder = n`
    loses nothing — every clique of a graph on `range n` with at least two nodes is a simplex, of whatever size -/
theorem flag_complex_unbounded (n : Nat) (adj : Nat → Nat → Bool) (e : List Nat) :
    e ∈ flagComplex n adj n ↔
      2 ≤ e.length ∧ (e.Pairwise (· < ·) ∧ ∀ x ∈ e, x < n) ∧ e.Pairwise (fun a b => adj a b = true) := by
  rw [(flag_complex_spec n adj n e).1]
  constructor
  · rintro ⟨⟨h1, -⟩, h2, h3⟩; exact ⟨h1, h2, h3⟩
  · rintro ⟨h1, h2, h3⟩
    have := length_le_of_increasing h2.1 h2.2
    exact ⟨⟨h1, by omega⟩, h2, h3⟩

/-- `ring_lattice(n, d, k, l)` (`Hypergraph(edges)` first, `add_nodes_from(range(n))` afterwards) and
    `watts_strogatz_hypergraph` built on it: the node list is a rearrangement of `range n` — each label `< n` once,
    nothing else -/
theorem lattice_nodes (n d k l : Nat) :
    ((ringLatticeNet n d k l).nodes.Nodup ∧ ∀ x, x ∈ (ringLatticeNet n d k l).nodes ↔ x < n) ∧
    (∀ coins choices net, 1 ≤ d → wattsStrogatzNet n d k l coins choices = .ok net →
      (net.nodes.Nodup ∧ ∀ x, x ∈ net.nodes ↔ x < n) ∧ wattsStrogatz n d k l coins choices = .ok net.edges) := by
  have hl : (ringLatticeNet n d k l).nodes.Nodup ∧ ∀ x, x ∈ (ringLatticeNet n d k l).nodes ↔ x < n := by
    refine ⟨nodup_build_nodes _ _ _, ?_⟩
    intro x
    rw [ringLatticeNet, mem_build_nodes]
    constructor
    · rintro (h | ⟨e, he, hx⟩ | h)
      · simp at h
      · exact (ringLattice_edge n d k l e he).2 x hx
      · exact List.mem_range.mp h
    · intro h; exact Or.inr (Or.inr (List.mem_range.mpr h))
  refine ⟨hl, ?_⟩
  intro coins choices net hd h
  unfold wattsStrogatzNet at h
  split at h
  · rename_i es hes
    simp only [Res.ok.injEq] at h
    subst h
    refine ⟨⟨nodup_addEdgesNodes _ _ hl.1, ?_⟩, hes⟩
    intro x
    rw [mem_addEdgesNodes, hl.2]
    constructor
    · rintro (h | ⟨e, he, hx⟩)
      · exact h
      · exact (watts_strogatz_spec n d k l coins choices es hd hes).2.1 e he x hx
    · intro h; exact Or.inl h
  · simp at h
  · simp at h

/-- `sunflower(l, c, m)`, `c ≤ m` (nodes arise only as petal members): with at least one petal the node list is a
    rearrangement of `range (c + l·(m - c))`; without petals there is no node -/
theorem sunflower_nodes (l c m : Nat) (hm : c ≤ m) :
    (sunflowerNet l c m).nodes.Nodup ∧ (1 ≤ l → ∀ x, x ∈ (sunflowerNet l c m).nodes ↔ x < c + l * (m - c)) ∧
    (l = 0 → (sunflowerNet l c m).nodes = []) := by
  refine ⟨nodup_build_nodes _ _ _, ?_, ?_⟩
  · intro hl x
    rw [sunflowerNet, mem_build_nodes]
    constructor
    · rintro (h | ⟨e, he, hx⟩ | h)
      · simp at h
      · exact ((sunflower_spec l c m hm).2.1 e he).2.2.2 x hx
      · simp at h
    · intro hx
      refine Or.inr (Or.inl ?_)
      by_cases hc : x < c
      · refine ⟨List.range c ++ (List.range (m - c)).map (fun i => c + 0 * (m - c) + i), ?_, by simp [hc]⟩
        rw [mem_sunflower]; exact ⟨0, by omega, rfl⟩
      · have hmc : 0 < m - c := by
          rcases Nat.eq_zero_or_pos (m - c) with h0 | h0
          · rw [h0] at hx; omega
          · exact h0
        refine ⟨List.range c ++ (List.range (m - c)).map (fun i => c + ((x - c) / (m - c)) * (m - c) + i), ?_, ?_⟩
        · rw [mem_sunflower]
          refine ⟨(x - c) / (m - c), ?_, rfl⟩
          rw [Nat.div_lt_iff_lt_mul hmc]; omega
        · rw [List.mem_append]; right
          rw [List.mem_map]
          refine ⟨(x - c) % (m - c), List.mem_range.mpr (Nat.mod_lt _ hmc), ?_⟩
          have := Nat.div_add_mod (x - c) (m - c)
          rw [Nat.mul_comm] at this
          omega
  · rintro rfl
    simp [sunflowerNet, sunflower, build, addNodes, addEdgesNodes]

/-- `star_clique(n_star, n_clique, d_max)`, `n_star, n_clique ≥ 1`: the node list is exactly `range (n_star + n_clique)` -/
theorem star_clique_nodes (nStar nClique dMax : Nat) (hs : 1 ≤ nStar) (hc : 1 ≤ nClique) :
    (starCliqueNet nStar nClique dMax).nodes = List.range (nStar + nClique) := by
  refine build_nodes_eq _ _ _ List.nodup_range ?_ (by simp)
  intro e he x hx
  rw [List.mem_range]
  rcases ((star_clique_spec nStar nClique dMax hs).1 e).mp he with ⟨i, h1, h2, rfl⟩ | rfl | ⟨-, -, h3⟩
  · simp at hx; omega
  · simp at hx; omega
  · exact (h3 x hx).2

/-- `chung_lu_hypergraph` / `dcsbm_hypergraph` with distinct keys, whatever the draws: the node list is exactly the keys
    of `k1` ordered by non-increasing degree (`degree_sorted_labels`: a rearrangement of the keys) — the
    `add_node_to_edge` calls never introduce another node -/
theorem bipartite_nodes (k1 k2 : List (Nat × Nat)) (gaps : List Nat) (rs : List Rat) (pairs : List (Nat × Nat)) (g : List Nat)
    (r : List Rat) (hk1 : (k1.map (·.1)).Nodup) (hk2 : (k2.map (·.1)).Nodup) (hr : ∀ x ∈ rs, 0 ≤ x) :
    (chungLu k1 k2 gaps rs = .ok (pairs, g, r) → bipNodes k1 pairs = (sortByDeg k1).map (·.1)) ∧
    (∀ g1 g2 omega, dcsbm k1 k2 g1 g2 omega gaps rs = .ok (pairs, g, r) → bipNodes k1 pairs = (sortByDeg k1).map (·.1)) := by
  have key : (∀ p ∈ pairs, p.2 ∈ k1.map (·.1)) → bipNodes k1 pairs = (sortByDeg k1).map (·.1) := by
    intro hp
    unfold bipNodes
    rw [addNodes_nil_of_nodup _ (nodup_keys_sortByDeg k1 hk1)]
    apply addNodes_of_subset
    intro x hx
    rw [List.mem_map] at hx
    obtain ⟨p, hp', rfl⟩ := hx
    exact ((sortByDeg_perm k1).map _).mem_iff.mpr (hp p hp')
  constructor
  · intro h
    exact key (fun p hp => ((chung_lu_spec k1 k2 gaps rs pairs g r hk1 hk2 hr h).2.2.1 p hp).1)
  · intro g1 g2 omega h
    exact key (fun p hp => ((dcsbm_spec k1 k2 g1 g2 omega gaps rs pairs g r hk1 hk2 hr h).2.2.1 p hp).1)

/-- `trivial_hypergraph(n)` as a network: nodes `range n`, no edge -/
theorem trivial_net (n : Nat) : (trivialNet n).nodes = List.range n ∧ (trivialNet n).edges = [] :=
  ⟨build_nodes_eq _ _ _ List.nodup_range (by simp) (by simp), rfl⟩

/-! ### non-vacuity -/

example : (List.range (Nat.choose 5 3)).map (indexToEdgeComb 5 3) = (combinations 5 3).map some := comb_decode 5 3
example : indexToEdgeComb 5 3 7 = some [1, 2, 4] := by decide
example : combinations 4 2 = [[0, 1], [0, 2], [0, 3], [1, 2], [1, 3], [2, 3]] := by decide
example : indexToEdgeProd 4 3 3 = [0, 0, 3] := by decide
example : indexToEdgePartition [8, 8, 2] 4 = [0, 2, 0] := by decide
example : skipSample 10 [1, 1, 3, 7] = some ([0, 1, 4], []) := by decide
example : fastRandomOrder 4 2 .mid [2, 3, 9] = some ([[0, 2], [1, 3]], []) := by decide
example : erdosRenyi 3 2 true .mid [1, 1, 1, 3, 9] = some ([[0, 1], [0, 2], [1, 2]], []) := by decide
example : hsbm 2 [2, 2] [.one, .mid, .mid, .one] [2, 9, 1, 5] =
    some ([[0, 1], [1, 0], [0, 3], [2, 0], [2, 3], [3, 2]], []) := by decide
example : completeMax 3 1 true = [[0], [1], [2], [0, 1], [0, 2], [1, 2]] := by decide
example : configModel [(1, 1), (2, 2), (3, 3), (4, 3)] 3 [] [[0, 1, 3], [0, 1, 2], [2, 1, 0]] = some [[1, 2, 3]] := by decide
example : configModel [(0, 2), (1, 1)] 2 [1] [[3, 0], [1, 0]] = some [[1, 0], [1, 0]] := by decide
/-- realizable sequence (9 = 3 * 3, no bump): the hypothesis of `config_degree_le_realizable` holds on a run that makes an edge -/
example : sumL ([(1, 1), (2, 2), (3, 3), (4, 3)].map (·.2)) % 3 = 0 := by decide
example : closure [[0, 1, 2]] = [[1, 2], [0, 2], [0, 1], [0, 1, 2]] := by decide
example : flagComplex 4 (fun a b => (a, b) ≠ (2, 3)) 2 = [[0, 1], [0, 2], [0, 3], [1, 2], [1, 3], [0, 1, 2], [0, 1, 3]] := by decide
example : flagPromoted 4 (fun _ _ => true) 2 [[0, 1, 3]] =
    some [[0, 1], [0, 2], [0, 3], [1, 2], [1, 3], [2, 3], [0, 1, 3]] := by decide
example : ringLattice 6 3 2 1 = [[0, 2, 3], [1, 3, 4], [2, 4, 5], [3, 5, 0], [4, 0, 1], [5, 1, 2]] := by decide
example : sunflower 2 2 2 = [[0, 1], [0, 1]] := by decide
example : starClique 2 3 1 = [[0, 1], [0, 2], [2, 3], [2, 4], [3, 4]] := by decide
example : wattsStrogatz 6 3 2 1 [false, true, false, false, true, false] [[5, 0], [2, 5]] =
    .ok [[0, 2, 3], [2, 4, 5], [3, 5, 0], [5, 1, 2], [5, 0, 1], [2, 5, 0]] := by decide
example : wattsStrogatz 2 3 2 0 [false, true] [[0, 1]] = .err .value := by decide
-- the examples below compute with `Rat`; `decide +kernel` evaluates them in the kernel (no axiom is added)
example : sortByDeg [(0, 1), (1, 3), (2, 1), (3, 3)] = [(1, 3), (3, 3), (0, 1), (2, 1)] := by decide
example : chungLu [(0, 5), (1, 1)] [(7, 2), (8, 3)] [1, 9] [1/4, 1/2, 3/4] = .ok ([(8, 0), (7, 0)], [9], []) := by
  decide +kernel
example : buildEdges [(8, 0), (7, 0), (8, 2), (8, 0)] = [(8, [0, 2]), (7, [0])] := by decide
example : chungLu [(0, 0), (1, 0)] [(7, 2)] [9] [] = .err .zeroDiv := by decide +kernel
example : chungLu [(0, 1)] [] [] [] = .err .index := by decide +kernel
example : dcsbm [(0, 2), (1, 3), (2, 1)] [(7, 2), (8, 3)] (fun i => i % 2) (fun i => i % 2) (fun a b => if a = b then 6 else 0)
    [1, 5, 5] [1/4, 1/2, 1/8] = .ok ([(7, 1), (8, 0), (8, 2)], [], []) := by decide +kernel
example : dcsbm [(0, 0), (1, 0)] [(7, 0)] (fun _ => 0) (fun _ => 0) (fun _ _ => 3) [1, 1] [1/2] = .ok ([], [], [1/2]) := by
  decide +kernel
-- dcsbm_saturated is not vacuous: in the run above node 0 (degree 2, community 0) is saturated for the edge community 0
-- (kappa1 = 3, kappa2 = 3, omega = 6: 9 ≤ 2 * 3 * 6) and is in its only edge 8
example : kappa [(0, 2), (1, 3), (2, 1)] (fun i => i % 2) 0 * kappa [(7, 2), (8, 3)] (fun i => i % 2) 0 = 9 := by decide
example : ((8, 0) : Nat × Nat) ∈ [((7, 1) : Nat × Nat), (8, 0), (8, 2)] := by decide
example : hppm 4 2 2 (1/2) (1/2) [1, 3, 9, 2, 9, 1, 9, 9] = .ok ([[0, 3], [2, 0]], []) := by decide +kernel
example : hppmTensor 2 (hppmIn 4 2 2 (1/2) (1/2)) (hppmOut 4 2 2 (1/2)) = [3/8, 1/8, 1/8, 3/8] := by decide +kernel
example : hppm 4 2 2 (3/2) (1/2) [] = .err .xgi := by decide +kernel
example : erdosRenyiDeg 4 2 (3/2) false [2, 3, 9] = .ok ([[0, 2], [1, 3]], []) := by decide +kernel
example : erdosRenyiDeg 4 2 4 false [2, 3, 9] = .err .xgi := by decide +kernel
example : erDegreeQ 4 2 3 false = .ok (.q 1) := by decide +kernel
-- networks: node lists as the generators build them
example : inputRounds [.mid, .one] none = .ok [(2, .mid), (3, .one)] := by decide
example : inputRounds [.mid] (some [3]) = .ok [(4, .mid)] := by decide
example : inputRounds [.mid] (some [3, 1]) = .err .value := by decide
example : fastRandomNet 4 [.mid] (some [1]) [2, 3, 9] = .ok (⟨[0, 1, 2, 3], [[0, 2], [1, 3]]⟩, []) := by decide
example : (ringLatticeNet 6 3 2 1).nodes = [0, 2, 3, 1, 4, 5] := by decide
example : (sunflowerNet 2 1 3).nodes = [0, 1, 2, 3, 4] := by decide
example : (sunflowerNet 0 1 3).nodes = [] := by decide
example : (starCliqueNet 2 3 1).nodes = [0, 1, 2, 3, 4] := by decide
example : (flagComplexNet 4 (fun a b => (a, b) ≠ (2, 3)) 4).edges =
    [[0, 1], [0, 2], [0, 3], [1, 2], [1, 3], [0, 1, 2], [0, 1, 3]] := by decide
example : bipNodes [(0, 1), (1, 3), (2, 1)] [(8, 0), (7, 1)] = [1, 0, 2] := by decide

end Xgi.C16
