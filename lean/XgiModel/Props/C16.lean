/-
  C16 — Generators deliver the structure their parameters promise.
  Property theorems only; helper lemmas live in XgiModel/C16/Lemmas*.lean.
  All statements are about the functions of XgiModel/C16/Gen.lean that the driver runs, for every
  `n`, `m`, size list and every oracle (gap list / coin list / stub choices) — i.e. all seeds.
-/
import XgiModel.C16.LemmasGen

namespace Xgi.C16

/-! ### index decoders are bijections onto the reference enumerations -/

/-- `[_index_to_edge_comb(i, n, m) for i in range(comb(n, m))]` is `list(combinations(range(n), m))`
    (the decoder terminates within its fuel on every valid index and returns the i-th combination) -/
theorem comb_decode (n m : Nat) :
    (List.range (Nat.choose n m)).map (indexToEdgeComb n m) = (combinations n m).map some := by
  apply List.ext_getElem?
  intro i
  rw [List.getElem?_map, List.getElem?_map, ← choose_eq]
  by_cases h : i < choose n m
  · obtain ⟨l, h1, h2⟩ := indexToEdgeComb_getElem? n m i h
    rw [List.getElem?_range h, h2]
    simp [h1]
  · rw [List.getElem?_eq_none (by simpa using h), List.getElem?_eq_none (by rw [combinations, length_combsAux]; omega)]
    rfl

/-- the reference enumeration is exactly the set of `m`-subsets of `range n` (as increasing lists) -/
theorem combinations_spec (n m : Nat) (e : List Nat) :
    e ∈ combinations n m ↔ e.length = m ∧ e.Pairwise (· < ·) ∧ ∀ x ∈ e, x < n :=
  mem_combinations n m e

/-- … each listed once, `comb(n, m)` of them: with `comb_decode`, the decoder is a bijection
    `range(comb(n, m)) → m-subsets of range(n)` -/
theorem combinations_nodup_length (n m : Nat) :
    (combinations n m).Nodup ∧ (combinations n m).length = Nat.choose n m :=
  ⟨nodup_combinations n m, length_combinations n m⟩

/-- injectivity of the comb decoder on valid indices, stated directly -/
theorem comb_decode_injective (n m i j : Nat) (hi : i < Nat.choose n m) (hj : j < Nat.choose n m)
    (h : indexToEdgeComb n m i = indexToEdgeComb n m j) : i = j := by
  rw [← choose_eq] at hi hj
  obtain ⟨li, ei, gi⟩ := indexToEdgeComb_getElem? n m i hi
  obtain ⟨lj, ej, gj⟩ := indexToEdgeComb_getElem? n m j hj
  rw [ei, ej] at h
  have : (combinations n m)[i]? = (combinations n m)[j]? := by rw [gi, gj, Option.some.inj h]
  exact (List.getElem?_inj (by rw [combinations, length_combsAux]; exact hi) (nodup_combinations n m)).mp this

/-- `[_index_to_edge_prod(i, n, m) for i in range(n**m)]` is `list(product(range(n), repeat=m))` -/
theorem prod_decode (n m : Nat) : (List.range (n ^ m)).map (indexToEdgeProd n m) = product n m := by
  rw [product_eq_block, ← part_decode, prodL_replicate]
  apply List.map_congr_left
  intro i _
  exact prod_eq_part n m i

/-- `product(range(n), repeat=m)` = all `m`-tuples over `range n`, each once, `n^m` of them -/
theorem product_spec (n m : Nat) :
    (∀ t, t ∈ product n m ↔ t.length = m ∧ ∀ x ∈ t, x < n) ∧ (product n m).Nodup ∧ (product n m).length = n ^ m := by
  rw [product_eq_block]
  refine ⟨?_, nodup_blockProduct _, by rw [length_blockProduct, prodL_replicate]⟩
  intro t
  rw [mem_blockProduct]
  induction m generalizing t with
  | zero => cases t <;> simp
  | succ m ih =>
    cases t with
    | nil => simp [List.replicate_succ]
    | cons a t => simp [List.replicate_succ, List.forall₂_cons, ih, and_left_comm]

/-- `[_index_to_edge_partition(i, sizes, len(sizes)) for i in range(prod(sizes))]` is
    `list(product(*[range(s) for s in sizes]))` -/
theorem partition_decode (sizes : List Nat) :
    (List.range (prodL sizes)).map (indexToEdgePartition sizes) = blockProduct sizes :=
  part_decode sizes

/-- the block product = all tuples with `t[r] < sizes[r]`, each once, `prod(sizes)` of them -/
theorem blockProduct_spec (sizes : List Nat) :
    (∀ t, t ∈ blockProduct sizes ↔ List.Forall₂ (· < ·) t sizes) ∧ (blockProduct sizes).Nodup ∧
      (blockProduct sizes).length = prodL sizes :=
  ⟨mem_blockProduct sizes, nodup_blockProduct sizes, length_blockProduct sizes⟩

/-! ### skip sampling, for every gap oracle -/

/-- whatever `geometric` returns (as long as each value is ≥ 1), the visited indices are strictly
    increasing and below the bound, and exactly a prefix of the oracle is consumed -/
theorem skip_indices_strict (count : Nat) (gaps is rest : List Nat) (hg : ∀ g ∈ gaps, 1 ≤ g)
    (h : skipSample count gaps = some (is, rest)) :
    is.Pairwise (· < ·) ∧ (∀ i ∈ is, i < count) ∧ ∃ used, gaps = used ++ rest :=
  skipSample_spec count gaps is rest hg h

/-- `p = 1`: every `geometric(1)` is 1, and then every index is visited exactly once -/
theorem skip_all_ones (count : Nat) :
    skipSample count (List.replicate (count + 1) 1) = some (List.range count, []) :=
  skipSample_ones count

/-- one order of `fast_random_hypergraph`, every oracle: the edges are pairwise distinct `size`-subsets
    of `range n` (no multi-edges); `p = 0` gives none, `p = 1` gives all of them -/
theorem fast_random_order_spec (n size : Nat) (p : Prob) (gaps : List Nat) (es : List (List Nat)) (rest : List Nat)
    (hg : ∀ g ∈ gaps, 1 ≤ g) (h : fastRandomOrder n size p gaps = some (es, rest)) :
    es.Nodup ∧ (∀ e ∈ es, e.length = size ∧ e.Pairwise (· < ·) ∧ ∀ x ∈ e, x < n) ∧ (p = .zero → es = []) ∧
      (p = .one → es = combinations n size) := by
  obtain ⟨h1, h2, h3, h4, _⟩ := fastRandomOrder_spec n size p gaps es rest hg h
  exact ⟨h1, fun e he => (mem_combinations _ _ _).mp (h2 e he), h3, h4⟩

/-- `fast_random_hypergraph(n, ps, order)`, every oracle: every edge is a subset of `range n` whose size
    is one of the requested sizes with non-zero probability; every order with `p = 1` is complete; with
    pairwise different orders there are no repeated edges -/
theorem fast_random_spec (n : Nat) (rounds : List (Nat × Prob)) (gaps : List Nat) (es : List (List Nat)) (rest : List Nat)
    (hg : ∀ g ∈ gaps, 1 ≤ g) (h : fastRandom n rounds gaps = some (es, rest)) :
    (∀ e ∈ es, ∃ r ∈ rounds, r.2 ≠ .zero ∧ e.length = r.1 ∧ e.Pairwise (· < ·) ∧ ∀ x ∈ e, x < n) ∧
    (∀ r ∈ rounds, r.2 = .one → ∀ e, (e.length = r.1 ∧ e.Pairwise (· < ·) ∧ ∀ x ∈ e, x < n) → e ∈ es) ∧
    ((rounds.map (·.1)).Nodup → es.Nodup) := by
  obtain ⟨h1, h2, h3, _⟩ := fastRandom_spec n rounds gaps es rest hg h
  refine ⟨?_, ?_, h3⟩
  · intro e he
    obtain ⟨r, hr, hz, hm⟩ := h1 e he
    exact ⟨r, hr, hz, (mem_combinations _ _ _).mp hm⟩
  · intro r hr hone e he
    exact h2 r hr hone e ((mem_combinations _ _ _).mpr he)

/-! ### non-vacuity -/

example : (List.range (Nat.choose 5 3)).map (indexToEdgeComb 5 3) = (combinations 5 3).map some := comb_decode 5 3
example : indexToEdgeComb 5 3 7 = some [1, 2, 4] := by decide
example : combinations 4 2 = [[0, 1], [0, 2], [0, 3], [1, 2], [1, 3], [2, 3]] := by decide
example : indexToEdgeProd 4 3 3 = [0, 0, 3] := by decide
example : indexToEdgePartition [8, 8, 2] 4 = [0, 2, 0] := by decide
example : skipSample 10 [1, 1, 3, 7] = some ([0, 1, 4], []) := by decide
example : fastRandomOrder 4 2 .mid [2, 3, 9] = some ([[0, 2], [1, 3]], []) := by decide

end Xgi.C16
