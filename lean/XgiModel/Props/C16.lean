/-
  C16 — Generators deliver the structure their parameters promise.
  Property theorems only; helper lemmas live in XgiModel/C16/Lemmas*.lean.
  All statements are about the functions of XgiModel/C16/Gen.lean that the driver runs, for every
  `n`, `m`, size list and every oracle (gap list / coin list / stub choices) — i.e. all seeds.
-/
import XgiModel.C16.LemmasSC

namespace Xgi.C16

/-! ### index decoders are bijections onto the reference enumerations -/

/-- `[_index_to_edge_comb(i, n, m) for i in range(comb(n, m))]` is `list(combinations(range(n), m))`
    (the decoder terminates within its fuel on every valid index and returns the i-th combination) -/
theorem comb_decode (n m : Nat) :
    (List.range (Nat.choose n m)).map (indexToEdgeComb n m) = (combinations n m).map some := by
  apply List.ext_getElem?
  intro i
  rw [List.getElem?_map, List.getElem?_map, ← choose_eq]
  by_cases h : i < choose n m
  · obtain ⟨l, h1, h2⟩ := indexToEdgeComb_getElem? n m i h
    rw [List.getElem?_range h, h2]
    simp [h1]
  · rw [List.getElem?_eq_none (by simpa using h), List.getElem?_eq_none (by rw [combinations, length_combsAux]; omega)]
    rfl

/-- the reference enumeration is exactly the set of `m`-subsets of `range n` (as increasing lists) -/
theorem combinations_spec (n m : Nat) (e : List Nat) :
    e ∈ combinations n m ↔ e.length = m ∧ e.Pairwise (· < ·) ∧ ∀ x ∈ e, x < n :=
  mem_combinations n m e

/-- … each listed once, `comb(n, m)` of them: with `comb_decode`, the decoder is a bijection
    `range(comb(n, m)) → m-subsets of range(n)` -/
theorem combinations_nodup_length (n m : Nat) :
    (combinations n m).Nodup ∧ (combinations n m).length = Nat.choose n m :=
  ⟨nodup_combinations n m, length_combinations n m⟩

/-- injectivity of the comb decoder on valid indices, stated directly -/
theorem comb_decode_injective (n m i j : Nat) (hi : i < Nat.choose n m) (hj : j < Nat.choose n m)
    (h : indexToEdgeComb n m i = indexToEdgeComb n m j) : i = j := by
  rw [← choose_eq] at hi hj
  obtain ⟨li, ei, gi⟩ := indexToEdgeComb_getElem? n m i hi
  obtain ⟨lj, ej, gj⟩ := indexToEdgeComb_getElem? n m j hj
  rw [ei, ej] at h
  have : (combinations n m)[i]? = (combinations n m)[j]? := by rw [gi, gj, Option.some.inj h]
  exact (List.getElem?_inj (by rw [combinations, length_combsAux]; exact hi) (nodup_combinations n m)).mp this

/-- `[_index_to_edge_prod(i, n, m) for i in range(n**m)]` is `list(product(range(n), repeat=m))` -/
theorem prod_decode (n m : Nat) : (List.range (n ^ m)).map (indexToEdgeProd n m) = product n m :=
  prod_decode_l n m

/-- `product(range(n), repeat=m)` = all `m`-tuples over `range n`, each once, `n^m` of them -/
theorem product_spec (n m : Nat) :
    (∀ t, t ∈ product n m ↔ t.length = m ∧ ∀ x ∈ t, x < n) ∧ (product n m).Nodup ∧ (product n m).length = n ^ m := by
  refine ⟨mem_product n m, ?_, ?_⟩
  · rw [product_eq_block]; exact nodup_blockProduct _
  · rw [product_eq_block, length_blockProduct, prodL_replicate]

/-- `[_index_to_edge_partition(i, sizes, len(sizes)) for i in range(prod(sizes))]` is
    `list(product(*[range(s) for s in sizes]))` -/
theorem partition_decode (sizes : List Nat) :
    (List.range (prodL sizes)).map (indexToEdgePartition sizes) = blockProduct sizes :=
  part_decode sizes

/-- the block product = all tuples with `t[r] < sizes[r]`, each once, `prod(sizes)` of them -/
theorem blockProduct_spec (sizes : List Nat) :
    (∀ t, t ∈ blockProduct sizes ↔ List.Forall₂ (· < ·) t sizes) ∧ (blockProduct sizes).Nodup ∧
      (blockProduct sizes).length = prodL sizes :=
  ⟨mem_blockProduct sizes, nodup_blockProduct sizes, length_blockProduct sizes⟩

/-! ### skip sampling, for every gap oracle -/

/-- whatever `geometric` returns (as long as each value is ≥ 1), the visited indices are strictly
    increasing and below the bound, and exactly a prefix of the oracle is consumed -/
theorem skip_indices_strict (count : Nat) (gaps is rest : List Nat) (hg : ∀ g ∈ gaps, 1 ≤ g)
    (h : skipSample count gaps = some (is, rest)) :
    is.Pairwise (· < ·) ∧ (∀ i ∈ is, i < count) ∧ ∃ used, gaps = used ++ rest :=
  skipSample_spec count gaps is rest hg h

/-- `p = 1`: every `geometric(1)` is 1, and then every index is visited exactly once -/
theorem skip_all_ones (count : Nat) :
    skipSample count (List.replicate (count + 1) 1) = some (List.range count, []) :=
  skipSample_ones count

/-- one order of `fast_random_hypergraph`, every oracle: the edges are pairwise distinct `size`-subsets
    of `range n` (no multi-edges); `p = 0` gives none, `p = 1` gives all of them -/
theorem fast_random_order_spec (n size : Nat) (p : Prob) (gaps : List Nat) (es : List (List Nat)) (rest : List Nat)
    (hg : ∀ g ∈ gaps, 1 ≤ g) (h : fastRandomOrder n size p gaps = some (es, rest)) :
    es.Nodup ∧ (∀ e ∈ es, e.length = size ∧ e.Pairwise (· < ·) ∧ ∀ x ∈ e, x < n) ∧ (p = .zero → es = []) ∧
      (p = .one → es = combinations n size) := by
  obtain ⟨h1, h2, h3, h4, _⟩ := fastRandomOrder_spec n size p gaps es rest hg h
  exact ⟨h1, fun e he => (mem_combinations _ _ _).mp (h2 e he), h3, h4⟩

/-- `fast_random_hypergraph(n, ps, order)`, every oracle: every edge is a subset of `range n` whose size
    is one of the requested sizes with non-zero probability; every order with `p = 1` is complete; with
    pairwise different orders there are no repeated edges -/
theorem fast_random_spec (n : Nat) (rounds : List (Nat × Prob)) (gaps : List Nat) (es : List (List Nat)) (rest : List Nat)
    (hg : ∀ g ∈ gaps, 1 ≤ g) (h : fastRandom n rounds gaps = some (es, rest)) :
    (∀ e ∈ es, ∃ r ∈ rounds, r.2 ≠ .zero ∧ e.length = r.1 ∧ e.Pairwise (· < ·) ∧ ∀ x ∈ e, x < n) ∧
    (∀ r ∈ rounds, r.2 = .one → ∀ e, (e.length = r.1 ∧ e.Pairwise (· < ·) ∧ ∀ x ∈ e, x < n) → e ∈ es) ∧
    ((rounds.map (·.1)).Nodup → es.Nodup) := by
  obtain ⟨h1, h2, h3, _⟩ := fastRandom_spec n rounds gaps es rest hg h
  refine ⟨?_, ?_, h3⟩
  · intro e he
    obtain ⟨r, hr, hz, hm⟩ := h1 e he
    exact ⟨r, hr, hz, (mem_combinations _ _ _).mp hm⟩
  · intro r hr hone e he
    exact h2 r hr hone e ((mem_combinations _ _ _).mpr he)


/-- `random_hypergraph(n, ps, order)`, every coin sequence: edges are subsets of `range n` of a requested size;
    no repeated edges when the orders differ; all coins `False` (p = 0) gives no edge, all `True` (p = 1) every one -/
theorem random_hypergraph_spec (n : Nat) (sizes : List Nat) (coins : List Bool) (es : List (List Nat)) (rest : List Bool)
    (h : coinRandom n sizes coins = some (es, rest)) :
    (∀ e ∈ es, ∃ s ∈ sizes, e.length = s ∧ e.Pairwise (· < ·) ∧ ∀ x ∈ e, x < n) ∧ (sizes.Nodup → es.Nodup) ∧
    ((∀ c ∈ coins, c = false) → es = []) ∧
    ((∀ c ∈ coins, c = true) → ∀ s ∈ sizes, ∀ e, (e.length = s ∧ e.Pairwise (· < ·) ∧ ∀ x ∈ e, x < n) → e ∈ es) := by
  obtain ⟨h1, h2, h3, h4, _⟩ := coinRandom_spec n sizes coins es rest h
  refine ⟨?_, h2, h3, ?_⟩
  · intro e he
    obtain ⟨s, hs, hm⟩ := h1 e he
    exact ⟨s, hs, (mem_combinations _ _ _).mp hm⟩
  · intro ht s hs e he
    exact h4 ht s hs e ((mem_combinations _ _ _).mpr he)

/-! ### uniform models -/

/-- `uniform_erdos_renyi_hypergraph`, every oracle: every edge has exactly `m` distinct members, all in `range n`;
    without `multiedges` no edge is repeated; `q = 0` gives no edge, `q = 1` (no multiedges) the complete
    `m`-uniform hypergraph -/
theorem erdos_renyi_spec (n m : Nat) (multi : Bool) (p : Prob) (gaps : List Nat) (es : List (List Nat)) (rest : List Nat)
    (hg : ∀ g ∈ gaps, 1 ≤ g) (h : erdosRenyi n m multi p gaps = some (es, rest)) :
    (∀ e ∈ es, e.length = m ∧ e.Nodup ∧ ∀ x ∈ e, x < n) ∧ (multi = false → es.Nodup) ∧ (p = .zero → es = []) ∧
      (p = .one → multi = false → es = combinations n m) :=
  erdosRenyi_spec n m multi p gaps es rest hg h

/-- `multiedges=True`, `q = 1` (all gaps 1): no error, and every `m`-tuple with distinct entries is produced -/
theorem erdos_renyi_multi_one (n m : Nat) :
    erdosRenyi n m true .one (List.replicate (n ^ m + 1) 1) = some (keepUniform m (product n m), []) ∧
    ∀ t, t.length = m → (∀ x ∈ t, x < n) → t.Nodup → t ∈ keepUniform m (product n m) := by
  constructor
  · simp only [erdosRenyi, skipSample_ones, prod_decode_l]
  · intro t h1 h2 h3
    rw [mem_keepUniform]
    exact ⟨⟨t, (mem_product n m t).mpr ⟨h1, h2⟩, dedup_of_nodup h3⟩, h1⟩

/-- `uniform_HSBM` (with the probability-1 fix), every oracle: every edge has exactly `m` distinct members, all in
    `range (sum sizes)`; an all-zero tensor gives no edge -/
theorem hsbm_spec (m : Nat) (sizes : List Nat) (ps : List Prob) (gaps : List Nat) (es : List (List Nat)) (rest : List Nat)
    (hg : ∀ g ∈ gaps, 1 ≤ g) (h : hsbm m sizes ps gaps = some (es, rest)) :
    (∀ e ∈ es, e.length = m ∧ e.Nodup ∧ ∀ x ∈ e, x < sumL sizes) ∧ ((∀ p ∈ ps, p = .zero) → es = []) := by
  obtain ⟨h1, h2, _⟩ := hsbmLoop_spec m sizes (cumsum sizes) (sumL sizes) (cumsum_bound sizes) _ ps gaps es rest hg h
  exact ⟨h1, h2⟩

/-- a block of probability 1 yields every tuple of the block product with distinct entries — the same edges as the
    skip-sampling branch when every geometric gap is 1 (so `p = 1` is the limit of `p < 1`, without error) -/
theorem hsbm_block_one (m : Nat) (psizes offs : List Nat) (gaps : List Nat) :
    hsbmBlock m psizes offs .one gaps = some (keepUniform m ((blockProduct psizes).map (labelOf offs)), gaps) ∧
    hsbmBlock m psizes offs .mid (List.replicate (prodL psizes + 1) 1) =
      some (keepUniform m ((blockProduct psizes).map (labelOf offs)), []) :=
  hsbmBlock_one_eq_ones m psizes offs gaps

/-! ### complete hypergraphs -/

/-- `complete_hypergraph(N, order=d)` contains each `(d+1)`-subset of `range N` exactly once and nothing else -/
theorem complete_order_spec (n order : Nat) (e : List Nat) :
    (e ∈ completeOrder n order ↔ e.length = order + 1 ∧ e.Pairwise (· < ·) ∧ ∀ x ∈ e, x < n) ∧
    (e ∈ completeOrder n order → (completeOrder n order).count e = 1) :=
  ⟨mem_combinations n (order + 1) e, fun h => List.count_eq_one_of_mem (nodup_combinations _ _) h⟩

/-- `complete_hypergraph(N, max_order=d, include_singletons=s)` contains each subset of `range N` with
    `(1 if s else 2) ≤ size ≤ d + 1` exactly once and nothing else -/
theorem complete_max_spec (n maxOrder : Nat) (singletons : Bool) (e : List Nat) :
    (e ∈ completeMax n maxOrder singletons ↔
      ((if singletons then 1 else 2) ≤ e.length ∧ e.length ≤ maxOrder + 1) ∧ e.Pairwise (· < ·) ∧ ∀ x ∈ e, x < n) ∧
    (e ∈ completeMax n maxOrder singletons → (completeMax n maxOrder singletons).count e = 1) := by
  constructor
  · unfold completeMax
    simp only
    rw [mem_combsSizes]
    unfold Admissible
    cases singletons <;> simp <;> omega
  · intro h
    exact List.count_eq_one_of_mem (nodup_combsSizes _ _ _) h

/-! ### configuration model, for every choice oracle -/

/-- the generated degree of every node never exceeds its prescribed degree (plus one for the nodes drawn by the
    remainder adjustment, none when `sum(k) % m = 0`); every edge has exactly `m` distinct members, all keys of `k` -/
theorem config_degree_le (k : List (Nat × Nat)) (m : Nat) (bump : List Nat) (choices : List (List Nat)) (es : List (List Nat))
    (hk : (k.map (·.1)).Nodup) (h : configModel k m bump choices = some es) :
    (∀ v d, (v, d) ∈ k → degIn v es ≤ d + (if v ∈ bump then 1 else 0)) ∧
    (sumL (k.map (·.2)) % m = 0 → bump = []) ∧
    (∀ e ∈ es, e.length = m ∧ e.Nodup ∧ ∀ x ∈ e, x ∈ k.map (·.1)) := by
  unfold configModel at h
  split at h
  · simp at h
  · split at h
    · simp at h
    · rename_i k' hk'
      have hkeys : k'.map (·.1) = k.map (·.1) ∧ (∀ v d, (v, d) ∈ k → (v, d + (if v ∈ bump then 1 else 0)) ∈ k') ∧
          (sumL (k.map (·.2)) % m = 0 → bump = []) := by
        unfold cfgDegrees at hk'
        simp only at hk'
        split at hk'
        · rename_i hz
          split at hk'
          · rename_i hb
            simp at hk'; subst hk'
            have : bump = [] := by simpa using hb
            subst this
            exact ⟨rfl, by simp, fun _ => rfl⟩
          · simp at hk'
        · rename_i hz
          split at hk'
          · simp at hk'; subst hk'
            exact ⟨bumpDeg_keys k bump, mem_bumpDeg k bump, fun h0 => absurd h0 hz⟩
          · simp at hk'
      obtain ⟨e1, e2, e3⟩ := hkeys
      refine ⟨?_, e3, ?_⟩
      · intro v d hvd
        have := cfgLoop_degree m v choices (stubsOf k') es h
        rw [count_stubsOf v _ k' (by rw [e1]; exact hk) (e2 v d hvd)] at this
        exact this
      · intro e he
        obtain ⟨a, b, c⟩ := cfgLoop_edges m choices (stubsOf k') es h e he
        exact ⟨a, b, fun x hx => by rw [← e1]; exact mem_stubsOf x k' (c x hx)⟩

/-! ### simplicial complexes -/

/-- `random_simplicial_complex`, every coin sequence: the complex is duplicate-free, downward closed (faces with at
    least two nodes), and every simplex is a subset of `range n` -/
theorem random_sc_spec (n : Nat) (sizes : List Nat) (coins : List Bool) (K : List (List Nat)) (rest : List Bool)
    (h : randomSC n sizes coins = some (K, rest)) :
    K.Nodup ∧ (∀ s ∈ K, ∀ t, t.Sublist s → 2 ≤ t.length → t ∈ K) ∧
    (∀ s ∈ K, 2 ≤ s.length ∧ s.Pairwise (· < ·) ∧ ∀ x ∈ s, x < n) := by
  unfold randomSC at h
  split at h
  · simp at h
  · rename_i es rest' hc
    simp at h; obtain ⟨rfl, rfl⟩ := h
    obtain ⟨h1, -⟩ := coinRandom_spec n sizes coins es _ hc
    refine ⟨nodup_dedup _, ?_, ?_⟩
    · intro s hs t hts hl
      rw [mem_closure] at hs ⊢
      obtain ⟨s0, hs0, hsub, -⟩ := hs
      exact ⟨s0, hs0, hts.trans hsub, hl⟩
    · intro s hs
      rw [mem_closure] at hs
      obtain ⟨s0, hs0, hsub, hl⟩ := hs
      obtain ⟨sz, -, hm⟩ := h1 s0 hs0
      have := admissible_sublist ((mem_combinations _ _ _).mp hm).2 hsub
      exact ⟨hl, this.1, this.2⟩

/-- the chosen simplices themselves are in the complex (so `p = 1` at an order gives every simplex of that order) -/
theorem closure_contains (S : List (List Nat)) (s : List Nat) (hs : s ∈ S) (hl : 2 ≤ s.length) : s ∈ closure S :=
  (mem_closure S s).mpr ⟨s, hs, List.Sublist.refl s, hl⟩

/-- `flag_complex(G, max_order)` / `random_flag_complex`: the simplices are exactly the cliques of `G` with
    2 … max_order+1 nodes, each once -/
theorem flag_complex_spec (n : Nat) (adj : Nat → Nat → Bool) (maxOrder : Nat) (e : List Nat) :
    (e ∈ flagComplex n adj maxOrder ↔
      (2 ≤ e.length ∧ e.length ≤ maxOrder + 1) ∧ (e.Pairwise (· < ·) ∧ ∀ x ∈ e, x < n) ∧
        e.Pairwise (fun a b => adj a b = true)) ∧
    (flagComplex n adj maxOrder).Nodup := by
  constructor
  · unfold flagComplex
    rw [mem_cliquesSizes]
    unfold Admissible
    constructor <;> rintro ⟨h1, h2⟩ <;> exact ⟨by omega, h2⟩
  · exact nodup_cliquesSizes n adj _ _

/-- flag complexes are downward closed -/
theorem flag_complex_closed (n : Nat) (adj : Nat → Nat → Bool) (maxOrder : Nat) (s t : List Nat)
    (hs : s ∈ flagComplex n adj maxOrder) (hts : t.Sublist s) (hl : 2 ≤ t.length) : t ∈ flagComplex n adj maxOrder := by
  rw [(flag_complex_spec n adj maxOrder _).1] at hs ⊢
  obtain ⟨h1, h2, h3⟩ := hs
  have := hts.length_le
  exact ⟨by omega, ⟨h2.1.sublist hts, fun x hx => h2.2 x (hts.subset hx)⟩, h3.sublist hts⟩

/-- `flag_complex(G, max_order, ps)` / `flag_complex_d2(G, p2)`, whatever cliques win their coin flips: the complex is
    duplicate-free, contains every graph edge and every promoted clique, every simplex is a clique of `G`, and it is
    downward closed; when nothing is promoted (all `p = 0`) it is the graph itself -/
theorem flag_promoted_spec (n : Nat) (adj : Nat → Nat → Bool) (maxOrder : Nat) (picked K : List (List Nat))
    (h : flagPromoted n adj maxOrder picked = some K) :
    K.Nodup ∧ (∀ e ∈ flagComplex n adj 1, e ∈ K) ∧ (∀ c ∈ picked, c ∈ K) ∧
    (∀ s ∈ K, 2 ≤ s.length ∧ (s.Pairwise (· < ·) ∧ ∀ x ∈ s, x < n) ∧ s.Pairwise (fun a b => adj a b = true)) ∧
    (∀ s ∈ K, ∀ t, t.Sublist s → 2 ≤ t.length → t ∈ K) ∧
    (picked = [] → ∀ s, s ∈ K ↔ s ∈ flagComplex n adj 1) := by
  unfold flagPromoted at h
  split at h
  · rename_i hp
    simp at h; subst h
    simp only [List.all_eq_true, Bool.and_eq_true, decide_eq_true_eq] at hp
    have memK : ∀ s, s ∈ dedup (flagComplex n adj 1 ++ picked.flatMap faces) ↔
        s ∈ flagComplex n adj 1 ∨ ∃ c ∈ picked, s.Sublist c ∧ 2 ≤ s.length := by
      intro s; simp [mem_dedup, List.mem_flatMap, mem_faces]
    have clique : ∀ s, (s ∈ flagComplex n adj 1 ∨ ∃ c ∈ picked, s.Sublist c ∧ 2 ≤ s.length) →
        2 ≤ s.length ∧ (s.Pairwise (· < ·) ∧ ∀ x ∈ s, x < n) ∧ s.Pairwise (fun a b => adj a b = true) := by
      rintro s (hs | ⟨c, hc, hsub, hl⟩)
      · obtain ⟨a, b, c⟩ := (flag_complex_spec n adj 1 s).1.mp hs
        exact ⟨a.1, b, c⟩
      · obtain ⟨a, b, c'⟩ := (flag_complex_spec n adj maxOrder s).1.mp (flag_complex_closed n adj maxOrder c s (hp c hc).1 hsub hl)
        exact ⟨a.1, b, c'⟩
    refine ⟨nodup_dedup _, ?_, ?_, ?_, ?_, ?_⟩
    · intro e he; rw [memK]; exact Or.inl he
    · intro c hc; rw [memK]; exact Or.inr ⟨c, hc, List.Sublist.refl c, by have := (hp c hc).2; omega⟩
    · intro s hs; exact clique s ((memK s).mp hs)
    · intro s hs t hts hl
      rw [memK] at hs ⊢
      rcases hs with hs | ⟨c, hc, hsub, -⟩
      · exact Or.inl (flag_complex_closed n adj 1 s t hs hts hl)
      · exact Or.inr ⟨c, hc, hts.trans hsub, hl⟩
    · intro hnil s
      subst hnil
      rw [memK]; simp
  · simp at h

/-! ### closed-form generators -/

/-- `ring_lattice(n, d, k, l)`: `n·(k//2)` edges, all members in `range n`; when no wrap-around collision is possible
    (`l + k//2 + d - 1 ≤ n`, `d ≥ 1`) every edge has exactly `d` distinct members -/
theorem ring_lattice_spec (n d k l : Nat) :
    (ringLattice n d k l).length = n * (k / 2) ∧
    (∀ e ∈ ringLattice n d k l, (∀ x ∈ e, x < n) ∧
      (1 ≤ d → l + k / 2 + d - 1 ≤ n → e.length = d ∧ e.Nodup)) := by
  refine ⟨length_ringLattice n d k l, ?_⟩
  intro e he
  rw [mem_ringLattice] at he
  obtain ⟨node, hn, j, hj, rfl⟩ := he
  constructor
  · intro x hx
    rw [List.mem_cons, List.mem_map] at hx
    rcases hx with rfl | ⟨i, -, rfl⟩
    · exact hn
    · exact Nat.mod_lt _ (by omega)
  · intro hd hadm
    exact ⟨by simp; omega, ring_edge_nodup n d k l node j hn hj hadm⟩

/-- `sunflower(l, c, m)`, `m ≥ c` (with the termination fix): `l` petals, each containing the core `range c`, each with
    exactly `m` distinct members below `c + l·(m-c)`; two different petals meet only in the core -/
theorem sunflower_spec (l c m : Nat) (hm : c ≤ m) :
    (sunflower l c m).length = l ∧
    (∀ e ∈ sunflower l c m, e.length = m ∧ e.Nodup ∧ (∀ x < c, x ∈ e) ∧ ∀ x ∈ e, x < c + l * (m - c)) ∧
    (∀ e₁ ∈ sunflower l c m, ∀ e₂ ∈ sunflower l c m, e₁ ≠ e₂ → ∀ x, x ∈ e₁ → x ∈ e₂ → x < c) := by
  refine ⟨by simp [sunflower], ?_, ?_⟩
  · intro e he
    rw [mem_sunflower] at he
    obtain ⟨t, ht, rfl⟩ := he
    refine ⟨by simp; omega, ?_, fun x hx => by simp [hx], ?_⟩
    · rw [List.nodup_append]
      refine ⟨List.nodup_range, ?_, ?_⟩
      · exact List.Nodup.map_on (fun x _ y _ h => by omega) List.nodup_range
      · intro a ha b hb hab
        rw [List.mem_range] at ha
        rw [List.mem_map] at hb
        obtain ⟨i, -, rfl⟩ := hb
        omega
    · intro x hx
      rw [List.mem_append, List.mem_range, List.mem_map] at hx
      rcases hx with hx | ⟨i, hi, rfl⟩
      · have : 0 ≤ l * (m - c) := Nat.zero_le _
        omega
      · rw [List.mem_range] at hi
        have : (t + 1) * (m - c) ≤ l * (m - c) := Nat.mul_le_mul_right _ ht
        rw [Nat.succ_mul] at this
        omega
  · intro e₁ h₁ e₂ h₂ hne x hx₁ hx₂
    rw [mem_sunflower] at h₁ h₂
    obtain ⟨t₁, -, rfl⟩ := h₁
    obtain ⟨t₂, -, rfl⟩ := h₂
    have htt : t₁ ≠ t₂ := fun h => hne (by rw [h])
    rw [List.mem_append, List.mem_range, List.mem_map] at hx₁ hx₂
    rcases hx₁ with hx₁ | ⟨i₁, hi₁, rfl⟩
    · exact hx₁
    · rcases hx₂ with hx₂ | ⟨i₂, hi₂, h⟩
      · exact hx₂
      · exfalso
        rw [List.mem_range] at hi₁ hi₂
        rcases Nat.lt_or_gt_of_ne htt with hlt | hlt
        · have := Nat.mul_le_mul_right (m - c) (Nat.succ_le_of_lt hlt)
          rw [Nat.succ_mul] at this
          omega
        · have := Nat.mul_le_mul_right (m - c) (Nat.succ_le_of_lt hlt)
          rw [Nat.succ_mul] at this
          omega

/-- `star_clique(n_star, n_clique, d_max)`: the edges are exactly the star legs `{0, i}`, the bridge `{0, n_star}` and
    every subset of the clique nodes with 2 … d_max+1 members — each once -/
theorem star_clique_spec (nStar nClique dMax : Nat) (hs : 1 ≤ nStar) :
    (∀ e, e ∈ starClique nStar nClique dMax ↔
      (∃ i, 1 ≤ i ∧ i < nStar ∧ e = [0, i]) ∨ e = [0, nStar] ∨
      ((2 ≤ e.length ∧ e.length ≤ dMax + 1) ∧ e.Pairwise (· < ·) ∧ ∀ x ∈ e, nStar ≤ x ∧ x < nStar + nClique)) ∧
    (starClique nStar nClique dMax).Nodup := by
  refine ⟨?_, nodup_starClique nStar nClique dMax hs⟩
  intro e
  simp only [starClique, List.mem_append, List.mem_map, List.mem_range, List.mem_singleton, mem_cliqueEdges]
  constructor
  · rintro ((⟨i, hi, rfl⟩ | rfl) | ⟨h1, h2⟩)
    · exact Or.inl ⟨i + 1, by omega, by omega, rfl⟩
    · exact Or.inr (Or.inl rfl)
    · exact Or.inr (Or.inr ⟨by omega, h2⟩)
  · rintro (⟨i, h1, h2, rfl⟩ | rfl | ⟨h1, h2⟩)
    · exact Or.inl (Or.inl ⟨i - 1, by omega, by congr; omega⟩)
    · exact Or.inl (Or.inr rfl)
    · exact Or.inr ⟨by omega, h2⟩

/-! ### non-vacuity -/

example : (List.range (Nat.choose 5 3)).map (indexToEdgeComb 5 3) = (combinations 5 3).map some := comb_decode 5 3
example : indexToEdgeComb 5 3 7 = some [1, 2, 4] := by decide
example : combinations 4 2 = [[0, 1], [0, 2], [0, 3], [1, 2], [1, 3], [2, 3]] := by decide
example : indexToEdgeProd 4 3 3 = [0, 0, 3] := by decide
example : indexToEdgePartition [8, 8, 2] 4 = [0, 2, 0] := by decide
example : skipSample 10 [1, 1, 3, 7] = some ([0, 1, 4], []) := by decide
example : fastRandomOrder 4 2 .mid [2, 3, 9] = some ([[0, 2], [1, 3]], []) := by decide
example : erdosRenyi 3 2 true .mid [1, 1, 1, 3, 9] = some ([[0, 1], [0, 2], [1, 2]], []) := by decide
example : hsbm 2 [2, 2] [.one, .mid, .mid, .one] [2, 9, 1, 5] =
    some ([[0, 1], [1, 0], [0, 3], [2, 0], [2, 3], [3, 2]], []) := by decide
example : completeMax 3 1 true = [[0], [1], [2], [0, 1], [0, 2], [1, 2]] := by decide
example : configModel [(1, 1), (2, 2), (3, 3), (4, 3)] 3 [] [[0, 1, 3], [0, 1, 2], [2, 1, 0]] = some [[1, 2, 3]] := by decide
example : configModel [(0, 2), (1, 1)] 2 [1] [[3, 0], [1, 0]] = some [[1, 0], [1, 0]] := by decide
example : closure [[0, 1, 2]] = [[1, 2], [0, 2], [0, 1], [0, 1, 2]] := by decide
example : flagComplex 4 (fun a b => (a, b) ≠ (2, 3)) 2 = [[0, 1], [0, 2], [0, 3], [1, 2], [1, 3], [0, 1, 2], [0, 1, 3]] := by decide
example : flagPromoted 4 (fun _ _ => true) 2 [[0, 1, 3]] =
    some [[0, 1], [0, 2], [0, 3], [1, 2], [1, 3], [2, 3], [0, 1, 3]] := by decide
example : ringLattice 6 3 2 1 = [[0, 2, 3], [1, 3, 4], [2, 4, 5], [3, 5, 0], [4, 0, 1], [5, 1, 2]] := by decide
example : sunflower 2 2 2 = [[0, 1], [0, 1]] := by decide
example : starClique 2 3 1 = [[0, 1], [0, 2], [2, 3], [2, 4], [3, 4]] := by decide

end Xgi.C16
