/-
  C04 — Automatic edge IDs are always fresh; adding never overwrites.  (undirected model;
  the directed and simplicial parts live in Props/C04D.lean / Props/C04S.lean when present)
-/
import XgiModel.Lemmas.HGAdd
import XgiModel.Props.C01

namespace Xgi.C04
open Xgi Xgi.HG

/-- every call of the whole mutator alphabet (removals, bulk formats, merges with any rename rule,
    relabelling, cleanup, swaps, …) keeps the counter above every integer edge ID -/
theorem C04_step {s : HG} (h : Inv s) (op : Op) (r : HG × Outcome) (hr : step s op = some r) : UidFresh r.1 :=
  (step_inv h op r hr).2

/-- … hence in every state reachable from the empty hypergraph (constructors, converters, readers and
    generators build networks through these calls) -/
theorem C04_reachable {s : HG} (h : C01.Reachable s) : UidFresh s := (C01.C01_reachable h).2

/-- the automatically chosen ID is not an existing ID, and the edge is appended under exactly that ID -/
theorem C04_auto_fresh {s : HG} (h : Inv s) (ms : List PyId) (a : Attrs) (hms : PyId.none ∉ ms) :
    PyId.int s.uid ∉ s.edges ∧ (addEdge s ms none a).1.edges = s.edges ++ [PyId.int s.uid] := by
  refine ⟨uid_not_mem h.2, ?_⟩
  unfold addEdge
  simp only [hms, false_or, reduceCtorEq, if_false]
  exact (addEdgeAt_edges _ _ _ _).1

/-- `add_edge`: every existing edge keeps its position, members and attributes (all argument shapes,
    returning, warning or raising) -/
theorem C04_add_edge_preserves {s : HG} (h : Inv s) (ms : List PyId) (idx : Option PyId) (a : Attrs) :
    Keeps s (addEdge s ms idx a).1 := addEdge_keeps h ms idx a

/-- `add_edges_from` / `add_weighted_edges_from` in all five formats -/
theorem C04_add_edges_from_preserves {s : HG} (h : Inv s) (fmt : Fmt) (items : List EdgeItem) (attr : Attrs) :
    Keeps s (addEdgesFrom s fmt items attr).1 := addEdgesFrom_keeps h fmt items attr

/-- `add_node_to_edge` naming a new edge ID creates it without touching the others -/
theorem C04_add_node_to_edge_preserves (s : HG) (e n : PyId) (he : e ∉ s.edges) :
    Keeps s (addNodeToEdge s e n).1 := addNodeToEdge_new_keeps s e n he

/-- `update(edges=…, nodes=…)` -/
theorem C04_update_preserves {s : HG} (h : Inv s) (edges : Option (Fmt × List EdgeItem))
    (nodes : List (PyId × Option Attrs)) : Keeps s (update s edges nodes).1 := update_keeps h edges nodes

/-- an explicit ID that already exists is refused with a warning and leaves the network unchanged -/
theorem C04_explicit_dup (s : HG) (ms : List PyId) (idx : PyId) (a : Attrs) (hi : idx ∈ s.edges)
    (hms : PyId.none ∉ ms) (hn : idx ≠ .none) : addEdge s ms (some idx) a = (s, .warned) := by
  unfold addEdge
  have : ¬ (PyId.none ∈ ms ∨ some idx = some PyId.none) := by
    intro h; rcases h with h | h
    · exact hms h
    · injection h with h; exact hn h
  simp only [this, if_false, hi, if_true]

/-- the same in the bulk formats: an item whose explicit ID exists changes nothing (and warns) -/
theorem C04_explicit_dup_bulk (fmt : Fmt) (attr : Attrs) (s : HG) (it : EdgeItem) (hx : fmt.explicit = true)
    (hi : it.idx.getD .none ∈ s.edges) : addEdgesItem fmt attr s it = (s, .warned) := by
  unfold addEdgesItem
  simp only [hx, if_true, hi]

/-- what `Keeps` gives a user: old IDs stay, in place, with members and attributes -/
theorem C04_keeps_reading {s t : HG} (k : Keeps s t) :
    (∀ i, i < s.edges.length → t.edges[i]? = s.edges[i]?) ∧
    (∀ e ∈ s.edges, e ∈ t.edges ∧ t.mem e = s.mem e ∧ t.eattr e = s.eattr e) := by
  obtain ⟨⟨l, hl⟩, hk⟩ := k
  refine ⟨fun i hi => by rw [hl, List.getElem?_append_left hi], fun e he => ⟨by rw [hl]; simp [he], (hk e he).1, (hk e he).2.1⟩⟩

/-! ### non-vacuity -/
private def s0 : HG := ((C01.run HG.empty
  [ .addEdge [.int 1, .int 2] (some (.int 0)) [],            -- explicit id 0
    .addEdgesFrom .f2 [{ members := [.int 2, .int 3], idx := some (.int 5), attr := [] },
                       { members := [.int 3], idx := some (.int 1), attr := [] }] [],   -- decreasing ids
    .addNodeToEdge (.int 9) (.int 1),
    .addEdge [.int 4] none [] ]).getD HG.empty)
example : s0.edges = [.int 0, .int 5, .int 1, .int 9, .int 10] := by decide
example : s0.uid = 11 := by decide

end Xgi.C04
