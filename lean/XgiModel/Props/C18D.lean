/-
  C18 (directed part) — Frozen dihypergraphs cannot be structurally modified, on the validated model of
  `xgi.DiHypergraph` (C02/DHG.lean, the functions the driver `DHG` runs).  `FreezeTable.dihypergraph` is
  regenerated from `DiHypergraph.freeze()` of the current source on every run of C18.
  Property theorems only; helpers in C02/LemmasFreeze.lean.  Audited together with Props/C18.lean.
-/
import XgiModel.C02.LemmasFreeze
import XgiModel.Props.C02
import XgiModel.Generated.FreezeTable

namespace Xgi.C18D
open Xgi Xgi.DHG Xgi.Generated

/-- **the obligation tied to the source**: every op the model treats as disabled on a frozen dihypergraph is
    really assigned `frozen` by `DiHypergraph.freeze()` (breaks when a name is dropped from that method) -/
theorem C18_table_dihypergraph (op : Op) (h : op.guardedByFreeze = true) : pyName op ∈ FreezeTable.dihypergraph := by
  cases op <;> simp [Op.guardedByFreeze] at h <;> simp [pyName] <;> decide

/-- a disabled call on a frozen dihypergraph raises the library's error and changes nothing at all -/
theorem C18D_frozen_guarded (s : DHG) (op : Op) (hf : s.frozen = true) (hg : op.guardedByFreeze = true) :
    step s op = some (s, .err .lib) := by
  unfold step; simp [hf, hg]

/-- on a frozen dihypergraph **no** call that works on the network itself changes nodes, edges, tail, head,
    in/out memberships, attribute-record keys or the frozen flag: the eleven disabled methods, the attribute
    setters, `cleanup()` in place (any options), `convert_labels_to_integers(in_place=True)`, `freeze()` -/
theorem C18D_frozen_structure (s : DHG) (op : Op) (r : DHG × Outcome) (hf : s.frozen = true) (hip : inPlace op = true)
    (hr : step s op = some r) : SameStructD s r.1 := by
  unfold step at hr
  by_cases hg : op.guardedByFreeze = true
  · simp [hf, hg] at hr; cases hr; exact SameStructD.refl s
  · simp [hg] at hr
    cases op <;> simp only [Op.guardedByFreeze, not_true_eq_false] at hg <;> simp only [stepCore, Option.some.injEq] at hr
    case setNodeAttrs arg => subst hr; exact setNodeAttrs_same s arg
    case setEdgeAttrs arg => subst hr; exact setEdgeAttrs_same s arg
    case setNetAttr k v => subst hr; exact ⟨rfl, rfl, rfl, rfl, rfl, rfl, rfl, rfl, rfl⟩
    case copy => simp [inPlace] at hip
    case cleanup a b c =>
      simp only [inPlace] at hip; subst hip
      unfold cleanup at hr
      simp only [if_true, Option.map_some, Option.some.injEq] at hr
      subst hr
      simp only [Outcome.isErr, Bool.false_eq_true, if_false, Bool.not_true, Bool.false_and]
      exact cleanupBody_frozen_same s hf (s, .ok) (SameStructD.refl s) a b
    case relabel l => subst hr; exact relabel_frozen_same s s hf (SameStructD.refl s) l
    case freeze => subst hr; exact ⟨rfl, rfl, rfl, rfl, rfl, rfl, rfl, rfl, by simp [hf]⟩

/-- the two calls that hand back a network, `copy()` and `cleanup(in_place=False)`, only read their receiver:
    the caller gets either the untouched receiver together with the error (something inside raised) or a
    **new, unfrozen** network — cleaning up never happens on the frozen one -/
theorem C18D_frozen_copy_like (s : DHG) (op : Op) (r : DHG × Outcome) (hip : inPlace op = false)
    (hr : step s op = some r) : (r.1 = s ∧ r.2.isErr = true) ∨ (r.1.frozen = false ∧ r.2.isErr = false) := by
  unfold step at hr
  cases op <;> simp [inPlace] at hip
  case copy =>
    simp only [Op.guardedByFreeze, Bool.false_eq_true, and_false, if_false, stepCore] at hr
    exact copy_result s r hr
  case cleanup a b c =>
    subst hip
    simp only [Op.guardedByFreeze, Bool.false_eq_true, and_false, if_false, stepCore] at hr
    exact cleanup_new_result s a b r hr

/-- so along every history of calls on the network itself a frozen dihypergraph keeps its structure for good -/
theorem C18D_frozen_history (ops : List Op) (s s' : DHG) (hf : s.frozen = true) (hip : ∀ op ∈ ops, inPlace op = true)
    (hr : C02.run s ops = some s') : SameStructD s s' := by
  induction ops generalizing s with
  | nil => simp [C02.run] at hr; subst hr; exact SameStructD.refl s
  | cons op ops ih =>
    simp only [C02.run] at hr
    split at hr
    · cases hr
    · rename_i r hs
      have h1 := C18D_frozen_structure s op r hf (hip op (by simp)) hs
      have hf' : r.1.frozen = true := by rw [h1.frozen]; exact hf
      exact h1.trans (ih r.1 hf' (fun o ho => hip o (by simp [ho])) hr)

/-- `is_frozen` after `freeze()` (frozen or not before) -/
theorem C18D_freeze_sets_flag (s : DHG) : ∃ r, step s .freeze = some r ∧ r.1.frozen = true ∧ r.2 = .ok := by
  unfold step
  exact ⟨({ s with frozen := true }, .ok), by simp [Op.guardedByFreeze, stepCore], rfl, rfl⟩

/-- `is_frozen` stays false until `freeze()` is called: no other call sets the flag -/
theorem C18D_only_freeze_freezes (s : DHG) (op : Op) (r : DHG × Outcome) (hf : s.frozen = false)
    (hne : op ≠ .freeze) (hr : step s op = some r) : r.1.frozen = false := by
  unfold step at hr
  simp only [hf, Bool.false_eq_true, false_and, if_false] at hr
  rcases stepCore_flag (b := false) hf op hne r hr with h | h <;> exact h

/-! ### non-vacuity: a frozen non-trivial dihypergraph; disabled calls are refused, attribute setters still work,
    cleanup / relabelling raise, copy gives an unfrozen twin -/
private def fz : DHG := ((C02.run DHG.empty
  [ .addEdge (.pair [.int 1, .int 2] [.int 2, .int 3]) none [], .addNode (.int 9) [], .freeze ]).getD DHG.empty)
example : fz.frozen = true ∧ fz.edges = [.int 0] ∧ fz.nodes = [.int 1, .int 2, .int 3, .int 9] := by decide
example : (step fz (.removeEdge (.int 0))).map (·.2) = some (.err .lib) := by decide
example : (step fz (.addNodeToEdge (.int 0) (.int 5) .tail)).map (·.2) = some (.err .lib) := by decide
example : (step fz (.removeNodeFromEdge (.int 0) (.int 1) .tail true)).map (·.2) = some (.err .lib) := by decide
example : (step fz (.setEdgeAttrs (.constName (.sc (.int 1)) "w"))).map (·.2) = some .ok := by decide
example : (step fz (.cleanup false true true)).map (fun r => (r.2, r.1.nodes)) =
    some (.err .lib, [.int 1, .int 2, .int 3, .int 9]) := by decide
example : (step fz (.relabel "label")).map (·.2) = some (.err .lib) := by decide
example : (step fz .copy).map (fun r => (r.2, r.1.frozen, r.1.edges)) = some (.ok, false, [.int 0]) := by decide
-- cleanup(in_place=False) works on the unfrozen copy: the isolated node 9 goes, labels become 0..2
example : (step fz (.cleanup false true false)).map (fun r => (r.2, r.1.frozen, r.1.nodes)) =
    some (.ok, false, [.int 0, .int 1, .int 2]) := by decide

end Xgi.C18D
