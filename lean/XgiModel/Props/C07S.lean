/-
  C07 (simplicial part) — Copies, pickles and complex-to-complex constructors of a `SimplicialComplex` are equal.
  Property theorems only.  Models: XgiModel/C03/Copy.lean (`SC.copy`, `SC.ofComplex`; the functions Drivers/SC.lean
  runs against the real code) and `HG.pickleRoundTrip` of XgiModel/C07/Copy.lean (`__getstate__` / `__setstate__`
  are inherited unchanged).  Helper lemmas: XgiModel/C03/LemmasCopy.lean.

  For every state satisfying the invariant of C03 (`SCInv`: two-way incidence, one attribute record per ID, counter
  above all integer IDs, downward closure, pairwise distinct node sets, no empty simplex) whose attribute dicts are
  dicts (`HG.AttrsOK`) — both hold in every reachable state — and for every value of the order hints:

  * **order and IDs**: the clone has the source's nodes in the source's order and the source's simplex IDs in the
    source's order, *nothing else*.  `add_simplices_from` appends the missing faces of what it inserts after the
    listed simplices under automatic IDs; because the source is closed no face is missing, so no ID is invented
    (`addFaces_noop`, used in `rebuildS_char`).  Each ID carries the same node set and the same attribute dict;
    node and complex attributes are the same.
  * **counter**: `copy` and pickle keep the source's counter; the constructor does not copy it — it ends at the least
    admissible value (0, or one more than the largest integer ID), never above the source's.
  * the clone is unfrozen whatever the source is, satisfies `SCInv` again, and the call neither raises nor warns.
  (Independence of the containers is the heap part of Props/C07.lean, which does not depend on the class.)
-/
import XgiModel.C03.LemmasCopy
import XgiModel.Props.C03

namespace Xgi.C07S
open Xgi Xgi.SC

/-! ### `SimplicialComplex.copy` -/

/-- `copy()` returns normally: no exception, no "uid already exists" warning -/
theorem sc_copy_ok {s : HG} (h : SCInv s) (ha : HG.AttrsOK s) (hh : Hints) : (SC.copy s hh).2 = .ok := by
  rw [copy_eq]; exact (rebuildS_char h ha hh).1

/-- the copy shows the same complex — nodes and simplex IDs in the same order and no others, the same members for
    every simplex, the same memberships for every node, the same attribute dict for every node / simplex / the
    complex — has the **same counter**, and is not frozen (whatever the source is) -/
theorem sc_copy_snapshot {s : HG} (h : SCInv s) (ha : HG.AttrsOK s) (hh : Hints) :
    HG.SameNet s (SC.copy s hh).1 ∧ (SC.copy s hh).1.uid = s.uid ∧ (SC.copy s hh).1.frozen = false := by
  rw [copy_eq]
  exact ⟨HG.sameNet_of_edgeStage h.wf (rebuildS_char h ha hh).2 s.uid, rfl, (rebuildS_char h ha hh).2.frozen⟩

/-- spelled out for the simplex table: exactly the source's IDs in the source's order (no face was re-created under
    a new ID), each with the source's node set and attributes -/
theorem sc_copy_simplices {s : HG} (h : SCInv s) (ha : HG.AttrsOK s) (hh : Hints) :
    (SC.copy s hh).1.edges = s.edges ∧
    ∀ e ∈ s.edges, (∀ x, x ∈ (SC.copy s hh).1.mem e ↔ x ∈ s.mem e) ∧ (SC.copy s hh).1.eattr e = s.eattr e :=
  let sn := (sc_copy_snapshot h ha hh).1
  ⟨sn.edges, fun e he => ⟨sn.mem e he, sn.eattr e he⟩⟩

/-- the copy is again a simplicial complex in the sense of C03 (closed, duplicate-free, no empty simplex, two-way
    incidence, attribute records, counter above all integer IDs) -/
theorem sc_copy_inv {s : HG} (h : SCInv s) (ha : HG.AttrsOK s) (hh : Hints) : SCInv (SC.copy s hh).1 := by
  have hst := (rebuildS_char h ha hh).2
  rw [copy_eq]
  refine scinv_with (rebuildS_scinv s hh) _ _ ?_
  exact HG.fresh_of_subset h.fresh (by show ∀ e ∈ (rebuildS s hh).1.edges, e ∈ s.edges; rw [hst.edges]; exact fun _ x => x)
    (Nat.le_refl _)

/-- the copy's attribute dicts are dicts again -/
theorem sc_copy_attrs {s : HG} (ha : HG.AttrsOK s) (hh : Hints) : HG.AttrsOK (SC.copy s hh).1 := by
  rw [copy_eq]
  have : HG.AttrsOK (rebuildS s hh).1 := by
    unfold rebuildS
    exact HG.andThen_inv HG.AttrsOK _ _ (HG.addNodesFrom_attrs HG.attrsOK_empty _ _)
      (fun t ht => addSimplicesFrom_attrs ht _ _ _ _ _)
  exact ⟨this.nattr, this.eattr, ha.net⟩

/-- both sides keep assigning fresh simplex IDs, and the next automatic ID is the same number on both sides -/
theorem sc_copy_fresh {s : HG} (h : SCInv s) (ha : HG.AttrsOK s) (hh : Hints) :
    PyId.int s.uid ∉ s.edges ∧ PyId.int (SC.copy s hh).1.uid ∉ (SC.copy s hh).1.edges ∧ (SC.copy s hh).1.uid = s.uid :=
  ⟨HG.uid_not_mem h.fresh, HG.uid_not_mem (sc_copy_inv h ha hh).fresh, (sc_copy_snapshot h ha hh).2.1⟩

/-! ### pickle round trip (inherited `__getstate__` / `__setstate__`) -/

/-- the unpickled complex shows the same complex (member and membership sets are literally the same lists), has the
    same counter, and is not frozen -/
theorem sc_pickle_snapshot {s : HG} (h : SCInv s) :
    HG.SameNet s (HG.pickleRoundTrip s) ∧ (HG.pickleRoundTrip s).uid = s.uid ∧ (HG.pickleRoundTrip s).frozen = false ∧
    (∀ e ∈ s.edges, (HG.pickleRoundTrip s).mem e = s.mem e) := by
  obtain ⟨p1, p2, p3, p4, p5, p6, p7, p8, p9, p10, p11⟩ := HG.pickle_char s
  refine ⟨⟨p1, p2, ?_, ?_, ?_, ?_, ?_, ?_, p5⟩, p6, p7, p9⟩
  · intro e he x; rw [p9 e he]
  · intro n hn e; rw [p8 n hn]
  · intro n hn; exact p10 n ((h.wf.attrN n).mpr hn)
  · intro e he; exact p11 e ((h.wf.attrE e).mpr he)
  · intro n; rw [p3]
  · intro e; rw [p4]

/-- … and is again a simplicial complex in the sense of C03 -/
theorem sc_pickle_inv {s : HG} (h : SCInv s) : SCInv (HG.pickleRoundTrip s) := by
  obtain ⟨hs, hu, _, hm⟩ := sc_pickle_snapshot h
  refine scinv_of_agree h ⟨HG.pickle_wf h.wf, ?_⟩ hs.edges hm
  exact HG.fresh_of_subset h.fresh (by rw [hs.edges]; exact fun _ x => x) (by rw [hu]; exact Nat.le_refl _)

theorem sc_pickle_fresh {s : HG} (h : SCInv s) :
    PyId.int (HG.pickleRoundTrip s).uid ∉ (HG.pickleRoundTrip s).edges ∧ (HG.pickleRoundTrip s).uid = s.uid :=
  ⟨HG.uid_not_mem (sc_pickle_inv h).fresh, (sc_pickle_snapshot h).2.1⟩

/-! ### `SimplicialComplex(S, **attr)` -/

theorem sc_ofComplex_ok {s : HG} (h : SCInv s) (ha : HG.AttrsOK s) (attr : Attrs) (hh : Hints) :
    (ofComplex s attr hh).2 = .ok := by
  rw [ofComplex_eq]; exact (rebuildS_char h ha hh).1

/-- the constructed complex shows the same complex (complex attributes: the source's, updated with the keyword
    arguments; with none given, the source's) and is not frozen -/
theorem sc_ofComplex_snapshot {s : HG} (h : SCInv s) (ha : HG.AttrsOK s) (hh : Hints) :
    HG.SameNet s (ofComplex s [] hh).1 ∧ (ofComplex s [] hh).1.frozen = false ∧
    ∀ attr, (ofComplex s attr hh).1 = { (ofComplex s [] hh).1 with net := s.net.update attr } := by
  refine ⟨?_, ?_, fun attr => rfl⟩
  · exact HG.sameNet_of_edgeStage h.wf (rebuildS_char h ha hh).2 (rebuildS s hh).1.uid
  · exact (rebuildS_char h ha hh).2.frozen

/-- the counter is **not** copied by the constructor; what the code guarantees is that it is the *least* admissible
    one: above every integer simplex ID (so automatic IDs are fresh) and not above any other such bound — in
    particular never above the source's counter -/
theorem sc_ofComplex_uid {s : HG} (h : SCInv s) (ha : HG.AttrsOK s) (attr : Attrs) (hh : Hints) :
    HG.UidFresh (ofComplex s attr hh).1 ∧
    (∀ k : Nat, (∀ i : Int, PyId.int i ∈ s.edges → i < (k : Int)) → (ofComplex s attr hh).1.uid ≤ k) ∧
    (ofComplex s attr hh).1.uid ≤ s.uid := by
  have hst := (rebuildS_char h ha hh).2
  have hfresh : HG.UidFresh (ofComplex s attr hh).1 := by
    rw [ofComplex_eq]; exact (rebuildS_scinv s hh).fresh
  have hleast : ∀ k : Nat, (∀ i : Int, PyId.int i ∈ s.edges → i < (k : Int)) → (ofComplex s attr hh).1.uid ≤ k := by
    intro k hk
    rw [ofComplex_eq]
    show (rebuildS s hh).1.uid ≤ k
    rcases hst.tight with h0 | ⟨i, hi, hiu⟩
    · omega
    · rw [hst.edges] at hi; have := hk i hi; omega
  exact ⟨hfresh, hleast, hleast s.uid h.fresh⟩

/-- … and is again a simplicial complex in the sense of C03 (this needs no hypothesis on the source: the constructor
    only uses public mutators on an empty complex) -/
theorem sc_ofComplex_inv (s : HG) (attr : Attrs) (hh : Hints) : SCInv (ofComplex s attr hh).1 := by
  rw [ofComplex_eq]
  exact scinv_with (rebuildS_scinv s hh) (s.net.update attr) (rebuildS s hh).1.uid (rebuildS_scinv s hh).fresh

/-- both sides keep assigning fresh simplex IDs (the two next IDs may differ) -/
theorem sc_ofComplex_fresh {s : HG} (h : SCInv s) (attr : Attrs) (hh : Hints) :
    PyId.int s.uid ∉ s.edges ∧ PyId.int (ofComplex s attr hh).1.uid ∉ (ofComplex s attr hh).1.edges :=
  ⟨HG.uid_not_mem h.fresh, HG.uid_not_mem (sc_ofComplex_inv s attr hh).fresh⟩

/-! ### consequences for every complex that can be built -/

/-- attribute dicts stay dicts under every public call of the simplicial alphabet (returning or raising) -/
theorem C07S_step_attrs {s : HG} (h : HG.AttrsOK s) (op : Op) : HG.AttrsOK (step s op).1 := step_attrs' h op

/-- every state reachable from the empty complex meets the hypotheses of the theorems above -/
theorem C07S_reachable {s : HG} (h : C03.Reachable s) : SCInv s ∧ HG.AttrsOK s := by
  induction h with
  | empty => exact ⟨empty_scinv, HG.attrsOK_empty⟩
  | step op _ ih => exact ⟨step_inv ih.1 op, step_attrs' ih.2 op⟩

/-- … so for every reachable complex, and every order hint, all three clones show the same complex and each clone
    is again a state in which the invariant holds: every later history on either side (C03_history) keeps both
    simplicial complexes, and every later addition keeps the existing simplices of that side (C04S) -/
theorem C07S_clones {s : HG} (h : C03.Reachable s) (hh : Hints) :
    (HG.SameNet s (SC.copy s hh).1 ∧ SCInv (SC.copy s hh).1 ∧ HG.AttrsOK (SC.copy s hh).1) ∧
    (HG.SameNet s (HG.pickleRoundTrip s) ∧ SCInv (HG.pickleRoundTrip s)) ∧
    (HG.SameNet s (ofComplex s [] hh).1 ∧ SCInv (ofComplex s [] hh).1) := by
  obtain ⟨hi, ha⟩ := C07S_reachable h
  exact ⟨⟨(sc_copy_snapshot hi ha hh).1, sc_copy_inv hi ha hh, sc_copy_attrs ha hh⟩,
         ⟨(sc_pickle_snapshot hi).1, sc_pickle_inv hi⟩,
         ⟨(sc_ofComplex_snapshot hi ha hh).1, sc_ofComplex_inv s [] hh⟩⟩

/-! ### non-vacuity: a reachable complex with explicit, automatic and decreasing IDs, attributes on all three levels,
    frozen before it is cloned -/
private def src : HG := C03.run HG.empty
  [ .addNode (.int 9) [("c", .sc (.str "red"))],
    .addSimplex [.int 1, .int 2, .int 3] (some (.str "t")) [("w", .sc (.int 7))] {},     -- faces get 0, 1, 2
    .addSimplicesFrom .f2 [{ members := [.int 3, .int 4], idx := some (.int 8), attr := [] },
                           { members := [.int 4, .int 5], idx := some (.int 5), attr := [] }] none [] {},
    .removeSimplexId (.int 5),
    .freeze ]
example : src.edges = [.str "t", .int 0, .int 1, .int 2, .int 8] ∧ src.uid = 9 ∧ src.frozen = true := by decide
example : (SC.copy src).2 = .ok ∧ (SC.copy src).1.edges = src.edges ∧ (SC.copy src).1.nodes = src.nodes := by decide
example : (SC.copy src).1.uid = 9 ∧ (SC.copy src).1.frozen = false := by decide
example : (SC.copy src).1.eattr (.str "t") = [("w", .sc (.int 7))] ∧ (SC.copy src).1.nattr (.int 9) = [("c", .sc (.str "red"))] := by decide
example : (ofComplex src).2 = .ok ∧ (ofComplex src).1.edges = src.edges ∧ (ofComplex src).1.uid = 9 := by decide
example : (HG.pickleRoundTrip src).edges = src.edges ∧ (HG.pickleRoundTrip src).frozen = false := by decide
/-- a source whose largest integer ID was removed: the constructor's counter is lower than the source's -/
private def src2 : HG := C03.run HG.empty
  [ .addSimplex [.int 1, .int 2] none [] {}, .addSimplex [.int 2, .int 3] none [] {}, .removeSimplexId (.int 1) ]
example : src2.uid = 2 ∧ (SC.copy src2).1.uid = 2 ∧ (ofComplex src2).1.uid = 1 := by decide
/-- a non-closed source (not reachable; excluded by `SCInv`): the rebuild *does* invent face IDs -/
private def bad : HG := (HG.addEdge HG.empty [.int 1, .int 2, .int 3] (some (.str "t")) []).1
example : (SC.copy bad).1.edges = [.str "t", .int 0, .int 1, .int 2] := by decide

end Xgi.C07S
