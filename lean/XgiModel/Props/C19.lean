/-
  C19 — derived networks satisfy their set-theoretic definitions.
  Property theorems only; the model is C19/Derived.lean (+ the in-place functions of Core/HG.lean),
  helper lemmas are in C19/Lemmas*.lean.  All statements are for well-formed networks (`HG.WF`,
  the invariant C01 proves for every constructible network) whose attribute dicts have distinct
  keys (`AttrWF`, true of every Python dict).
-/
import XgiModel.C19.Lemmas

namespace Xgi.C19
open Xgi Xgi.HG

/-! ### subhypergraph -/

/-- `x` was asked for: no argument given, or listed in it -/
def requested (arg : Option (List PyId)) (x : PyId) : Prop :=
  match arg with
  | none => True
  | some l => x ∈ l

theorem selected_iff (arg : Option (List PyId)) (all : List PyId) (x : PyId) :
    selected arg all x = true ↔ x ∈ all ∧ requested arg x := by
  cases arg <;> simp [selected, requested, and_comm]

/-- `subhypergraph(H, nodes, edges)` (isolated nodes kept): exactly the requested nodes, exactly the
    requested edges that lie inside them, in the original order, with their members and attributes,
    the network attributes, and frozen. -/
theorem subhypergraph_spec {s : HG} (h : WF s) (ha : AttrWF s) (nodesArg edgesArg : Option (List PyId)) :
    (subhypergraph s nodesArg edgesArg true).2 = .ok ∧
    (subhypergraph s nodesArg edgesArg true).1.nodes = s.nodes.filter (selected nodesArg s.nodes) ∧
    (subhypergraph s nodesArg edgesArg true).1.edges = s.edges.filter (keptEdge s nodesArg edgesArg) ∧
    (∀ e ∈ (subhypergraph s nodesArg edgesArg true).1.edges, (subhypergraph s nodesArg edgesArg true).1.mem e = s.mem e) ∧
    (∀ n ∈ (subhypergraph s nodesArg edgesArg true).1.nodes, (subhypergraph s nodesArg edgesArg true).1.nattr n = s.nattr n) ∧
    (∀ e ∈ (subhypergraph s nodesArg edgesArg true).1.edges, (subhypergraph s nodesArg edgesArg true).1.eattr e = s.eattr e) ∧
    (subhypergraph s nodesArg edgesArg true).1.net = s.net ∧
    (subhypergraph s nodesArg edgesArg true).1.frozen = true ∧
    WF (subhypergraph s nodesArg edgesArg true).1 := by
  obtain ⟨h1, h2⟩ := subStage_spec h ha nodesArg edgesArg
  unfold subhypergraph
  simp only [if_true]
  rw [andThen_of_ok _ _ h1]
  simp only []
  exact ⟨trivial, h2.nodes, h2.edges, h2.mem, h2.nattr, h2.eattr, h2.net, trivial, wf_with h2.inv.1 _ _ _⟩

/-- the reading of the statement: an edge is kept iff it was requested and all its members were -/
theorem subhypergraph_edge_iff {s : HG} (h : WF s) (ha : AttrWF s) (nodesArg edgesArg : Option (List PyId))
    (keep : Bool) (e : PyId) :
    e ∈ (subhypergraph s nodesArg edgesArg keep).1.edges ↔
      e ∈ s.edges ∧ requested edgesArg e ∧ ∀ n ∈ s.mem e, requested nodesArg n := by
  obtain ⟨h1, h2⟩ := subStage_spec h ha nodesArg edgesArg
  have key : e ∈ (subStage s nodesArg edgesArg).1.edges ↔
      e ∈ s.edges ∧ requested edgesArg e ∧ ∀ n ∈ s.mem e, requested nodesArg n := by
    rw [h2.edges, List.mem_filter]
    simp only [keptEdge, Bool.and_eq_true, List.all_eq_true, selected_iff]
    constructor
    · rintro ⟨he, ⟨_, hr⟩, hall⟩; exact ⟨he, hr, fun n hn => (hall n hn).2⟩
    · rintro ⟨he, hr, hall⟩; exact ⟨he, ⟨he, hr⟩, fun n hn => ⟨(h.e2n e he n hn).1, hall n hn⟩⟩
  unfold subhypergraph
  cases keep
  · simp only [Bool.false_eq_true, if_false]
    rw [andThen_of_ok _ _ h1]
    have hiso := removeIsolated_spec (isolates (subStage s nodesArg edgesArg).1) (subStage s nodesArg edgesArg).1
      (nodup_filter _ h2.inv.1.nodupN) (by
        intro n hn
        simp only [isolates, List.mem_filter, decide_eq_true_eq, List.length_eq_zero_iff] at hn
        exact hn)
    show e ∈ (removeNodesFrom _ _ false true).1.edges ↔ _
    rw [hiso.2.2.1]; exact key
  · simp only [if_true]
    rw [andThen_of_ok _ _ h1]; exact key

/-- `keep_isolates=False`: additionally the nodes that are left in no kept edge are dropped, nothing else changes -/
theorem subhypergraph_drop_isolates_spec {s : HG} (h : WF s) (ha : AttrWF s) (nodesArg edgesArg : Option (List PyId)) :
    (subhypergraph s nodesArg edgesArg false).2 = .ok ∧
    (subhypergraph s nodesArg edgesArg false).1.nodes =
      (s.nodes.filter (selected nodesArg s.nodes)).filter
        (fun n => (s.edges.filter (keptEdge s nodesArg edgesArg)).any (fun e => decide (n ∈ s.mem e))) ∧
    (subhypergraph s nodesArg edgesArg false).1.edges = s.edges.filter (keptEdge s nodesArg edgesArg) ∧
    (∀ e ∈ (subhypergraph s nodesArg edgesArg false).1.edges, (subhypergraph s nodesArg edgesArg false).1.mem e = s.mem e) ∧
    (∀ n ∈ (subhypergraph s nodesArg edgesArg false).1.nodes, (subhypergraph s nodesArg edgesArg false).1.nattr n = s.nattr n) ∧
    (∀ e ∈ (subhypergraph s nodesArg edgesArg false).1.edges, (subhypergraph s nodesArg edgesArg false).1.eattr e = s.eattr e) ∧
    (subhypergraph s nodesArg edgesArg false).1.net = s.net ∧
    (subhypergraph s nodesArg edgesArg false).1.frozen = true := by
  obtain ⟨h1, h2⟩ := subStage_spec h ha nodesArg edgesArg
  unfold subhypergraph
  simp only [Bool.false_eq_true, if_false]
  rw [andThen_of_ok _ _ h1]
  have hw := h2.inv.1
  obtain ⟨g1, g2, g3, g4, g5, g6, g7, g8, g9, g10⟩ :=
    removeIsolated_spec (isolates (subStage s nodesArg edgesArg).1) (subStage s nodesArg edgesArg).1
      (nodup_filter _ hw.nodupN) (by
        intro n hn
        simp only [isolates, List.mem_filter, decide_eq_true_eq, List.length_eq_zero_iff] at hn
        exact hn)
  generalize (subStage s nodesArg edgesArg).1 = t at *
  generalize removeNodesFrom t (isolates t) false true = u at *
  refine ⟨g1, ?_, by rw [g3]; exact h2.edges, ?_, ?_, ?_, by show u.1.net = s.net; rw [g8]; exact h2.net, by first | rfl | trivial⟩
  · show u.1.nodes = _
    rw [g2, h2.nodes]
    apply List.filter_congr
    intro n hn
    have hnt : n ∈ t.nodes := by rw [h2.nodes]; exact hn
    -- n is isolated in t iff no kept edge contains it
    have iso_iff : n ∈ isolates t ↔ t.memb n = [] := by
      simp only [isolates, List.mem_filter, decide_eq_true_eq, hnt, true_and, List.length_eq_zero_iff]
    rw [Bool.eq_iff_iff]
    simp only [decide_eq_true_eq, List.any_eq_true, iso_iff]
    constructor
    · intro hne
      cases hm : t.memb n with
      | nil => exact absurd hm hne
      | cons e _ =>
        have he : e ∈ t.memb n := by rw [hm]; simp
        have := hw.n2e n hnt e he
        exact ⟨e, by rw [← h2.edges]; exact this.1, by rw [← h2.mem e this.1]; exact this.2⟩
    · rintro ⟨e, he, hn'⟩
      rw [← h2.edges] at he
      have : e ∈ t.memb n := (hw.e2n e he n (by rw [h2.mem e he]; exact hn')).2
      intro hnil; rw [hnil] at this; cases this
  · intro e he; show u.1.mem e = s.mem e
    rw [g4]; exact h2.mem e (by rw [← g3]; exact he)
  · intro n hn; show u.1.nattr n = s.nattr n
    rw [g7]; apply h2.nattr
    have : n ∈ u.1.nodes := hn
    rw [g2] at this; exact (List.mem_filter.1 this).1
  · intro e he; show u.1.eattr e = s.eattr e
    rw [g6]; exact h2.eattr e (by rw [← g3]; exact he)


/-! ### dual -/

/-- what `H.dual()` is, stated on the tables -/
structure IsDual (s d : HG) : Prop where
  edges : d.edges = s.nodes
  nodes : ∀ x, x ∈ d.nodes ↔ x ∈ s.edges
  mem : ∀ n ∈ s.nodes, d.mem n = s.memb n
  memb : ∀ e ∈ s.edges, ∀ n, n ∈ d.memb e ↔ n ∈ s.mem e
  eattr : ∀ n ∈ s.nodes, d.eattr n = s.nattr n
  nattr : ∀ e ∈ s.edges, d.nattr e = s.eattr e
  net : d.net = s.net
  wf : WF d
  attrWF : AttrWF d

/-- the dual exchanges nodes and edges: its edges are the nodes of `H` (in order) with the memberships as
    members and the node attributes, its nodes are the edges of `H` with the edge attributes -/
theorem dual_spec {s : HG} (h : WF s) (ha : AttrWF s) : (dual s).2 = .ok ∧ IsDual s (dual s).1 := by
  unfold dual
  simp only []
  have he := addItems_spec s.nodes id s.memb s.nattr HG.empty (by simpa using h.nodupN) (by
    intro n hn
    exact ⟨ne_none_of_mem h.noNoneN hn, by simp [HG.empty], wf_none_not_memb h hn⟩)
  have he' : (s.nodes.map (fun n => ({ members := s.memb n, idx := some n, attr := s.nattr n } : EdgeItem))) =
      mkItems s.nodes id s.memb s.nattr := rfl
  rw [he']
  have hi1 : Inv (addEdgesFrom HG.empty .f4 (mkItems s.nodes id s.memb s.nattr) []).1 := addEdgesFrom_inv empty_inv _ _ _
  obtain ⟨he1, he2⟩ := he
  generalize addEdgesFrom HG.empty .f4 (mkItems s.nodes id s.memb s.nattr) [] = r1 at *
  rw [andThen_of_ok r1 _ he1]
  have hn := addPairs_spec s.edges id s.eattr r1.1 (by simpa using h.nodupE) (fun x hx => ne_none_of_mem h.noNoneE hx)
  have hn' : s.edges.map (fun e => (e, some (s.eattr e))) = s.edges.map (fun x => (id x, some (s.eattr x))) := rfl
  rw [hn']
  have hi2 : Inv (addNodesFrom r1.1 (s.edges.map (fun x => (id x, some (s.eattr x)))) []).1 := addNodesFrom_inv hi1 _ _
  obtain ⟨hn1, hn2⟩ := hn
  generalize addNodesFrom r1.1 (s.edges.map (fun x => (id x, some (s.eattr x)))) [] = r2 at *
  refine ⟨hn1, ?_⟩
  have hw : WF { r2.1 with net := s.net } := by
    have := wf_with hi2.1 s.net r2.1.uid r2.1.frozen; exact this
  have hr1nodes : ∀ x, x ∈ r1.1.nodes → x ∈ s.edges := by
    intro x hx
    rcases (he2.nodes_mem x).1 hx with hx | ⟨n, hn, hx⟩
    · simp [HG.empty] at hx
    · exact (h.n2e n hn x hx).1
  have hnodes : ∀ x, x ∈ r2.1.nodes ↔ x ∈ s.edges := by
    intro x; rw [hn2.nodes, foldl_ins_mem]; simp only [List.map_id_fun, id_eq]
    constructor
    · rintro (hx | hx)
      · exact hr1nodes x hx
      · exact hx
    · intro hx; exact Or.inr hx
  have hedges : r2.1.edges = s.nodes := by
    rw [hn2.edges, he2.edges]; simp [HG.empty]
  have hmem : ∀ n ∈ s.nodes, r2.1.mem n = s.memb n := by
    intro n hn
    rw [hn2.mem]
    have := he2.mem_new n hn; simp only [id_eq] at this
    rw [this, dedup_of_nodup (h.setN n hn)]
  have hnattr : ∀ e ∈ s.edges, r2.1.nattr e = s.eattr e := by
    intro e he
    have := hn2.nattr_new e he; simp only [id_eq] at this
    rw [this]
    have : (if e ∈ r1.1.nodes then r1.1.nattr e else []) = [] := by
      split
      · rename_i hin; exact he2.nattr_new e (by simp [HG.empty]) hin
      · rfl
    rw [this, update_nil (ha.eattr e he), update_nil (ha.eattr e he)]
  have heattr : ∀ n ∈ s.nodes, r2.1.eattr n = s.nattr n := by
    intro n hn
    rw [hn2.eattr]
    have := he2.eattr_new n hn; simp only [id_eq] at this
    rw [this, update_nil (ha.nattr n hn), update_nil (ha.nattr n hn)]
  constructor
  · exact hedges
  · exact hnodes
  · exact hmem
  · intro e he n
    show n ∈ r2.1.memb e ↔ n ∈ s.mem e
    have hen : e ∈ r2.1.nodes := (hnodes e).2 he
    constructor
    · intro hm
      have := hi2.1.n2e e hen n hm
      rw [hedges] at this
      rw [hmem n this.1] at this
      exact (h.n2e n this.1 e this.2).2
    · intro hm
      have hn := (h.e2n e he n hm)
      have : e ∈ r2.1.mem n := by rw [hmem n hn.1]; exact hn.2
      exact (hi2.1.e2n n (by rw [hedges]; exact hn.1) e this).2
  · exact heattr
  · exact hnattr
  · rfl
  · exact hw
  · constructor
    · intro e he; show AttrsOK (r2.1.nattr e)
      have he' : e ∈ s.edges := (hnodes e).1 he
      rw [hnattr e he']; exact ha.eattr e he'
    · intro n hn; show AttrsOK (r2.1.eattr n)
      have hn' : n ∈ s.nodes := by rw [← hedges]; exact hn
      rw [heattr n hn']; exact ha.nattr n hn'
    · exact ha.net

/-- the dual is an involution (up to the order of nodes and edges, which the dual takes from Python set
    iteration): `H.dual().dual()` has the nodes, edges, members and attributes of `H`.  It holds for every
    well-formed network — isolated nodes and empty edges turn into each other and back. -/
theorem dual_involution {s : HG} (h : WF s) (ha : AttrWF s) :
    (dual (dual s).1).2 = .ok ∧
    (∀ n, n ∈ (dual (dual s).1).1.nodes ↔ n ∈ s.nodes) ∧
    (∀ e, e ∈ (dual (dual s).1).1.edges ↔ e ∈ s.edges) ∧
    (∀ e ∈ s.edges, ∀ n, n ∈ (dual (dual s).1).1.mem e ↔ n ∈ s.mem e) ∧
    (∀ n ∈ s.nodes, (dual (dual s).1).1.nattr n = s.nattr n) ∧
    (∀ e ∈ s.edges, (dual (dual s).1).1.eattr e = s.eattr e) ∧
    (dual (dual s).1).1.net = s.net ∧ WF (dual (dual s).1).1 := by
  obtain ⟨_, d1⟩ := dual_spec h ha
  obtain ⟨o2, d2⟩ := dual_spec d1.wf d1.attrWF
  generalize (dual s).1 = d at *
  generalize (dual d).1 = dd at *
  refine ⟨o2, ?_, ?_, ?_, ?_, ?_, by rw [d2.net, d1.net], d2.wf⟩
  · intro n; rw [d2.nodes, d1.edges]
  · intro e; rw [d2.edges, d1.nodes]
  · intro e he n
    rw [d2.mem e ((d1.nodes e).2 he)]; exact d1.memb e he n
  · intro n hn
    rw [d2.nattr n (by rw [d1.edges]; exact hn)]; exact d1.eattr n hn
  · intro e he
    rw [d2.eattr e ((d1.nodes e).2 he)]; exact d1.nattr e he

/-- the wording of the statement: on networks without isolated nodes or empty edges -/
theorem dual_involution_no_isolates_no_empty {s : HG} (h : WF s) (ha : AttrWF s)
    (_hiso : ∀ n ∈ s.nodes, s.memb n ≠ []) (_hemp : ∀ e ∈ s.edges, s.mem e ≠ []) :
    (∀ n, n ∈ (dual (dual s).1).1.nodes ↔ n ∈ s.nodes) ∧
    (∀ e, e ∈ (dual (dual s).1).1.edges ↔ e ∈ s.edges) ∧
    (∀ e ∈ s.edges, ∀ n, n ∈ (dual (dual s).1).1.mem e ↔ n ∈ s.mem e) :=
  let r := dual_involution h ha
  ⟨r.2.1, r.2.2.1, r.2.2.2.1⟩

/-! ### `<<` -/

/-- `H1 << H2`: the nodes are the union (those of `H1` first), the edges are the disjoint union in order
    under the fresh IDs 0,1,2,… with their own members and attributes, node and network attributes are
    merged with `H2` winning. -/
theorem lshift_spec {s t : HG} (hs : WF s) (ht : WF t) (has : AttrWF s) (hat : AttrWF t)
    (hal : Aligned s) (hal' : Aligned t) :
    (lshift s t).2 = .ok ∧
    (lshift s t).1.nodes = s.nodes ++ t.nodes.filter (· ∉ s.nodes) ∧
    (lshift s t).1.edges = (List.range (s.edges.length + t.edges.length)).map (fun j => PyId.int (j : Nat)) ∧
    (lshift s t).1.edges.map (lshift s t).1.mem = s.edges.map s.mem ++ t.edges.map t.mem ∧
    (lshift s t).1.edges.map (lshift s t).1.eattr = s.edges.map s.eattr ++ t.edges.map t.eattr ∧
    (∀ n ∈ (lshift s t).1.nodes, (lshift s t).1.nattr n =
      Attrs.update (if n ∈ s.nodes then s.nattr n else []) (if n ∈ t.nodes then t.nattr n else [])) ∧
    (lshift s t).1.net = s.net.update t.net ∧ (lshift s t).1.frozen = false ∧ WF (lshift s t).1 := by
  unfold lshift
  simp only []
  rw [zipNodeAttrs_eq hal, zipNodeAttrs_eq hal', zipEdgeAttrs_eq hal, zipEdgeAttrs_eq hal']
  -- nodes of H1
  obtain ⟨a1, a2⟩ := addPairs_spec s.nodes id s.nattr HG.empty (by simpa using hs.nodupN)
    (fun x hx => ne_none_of_mem hs.noNoneN hx)
  have i1 : Inv (addNodesFrom HG.empty (s.nodes.map (fun x => (id x, some (s.nattr x)))) []).1 :=
    addNodesFrom_inv empty_inv _ _
  generalize addNodesFrom HG.empty (s.nodes.map (fun x => (id x, some (s.nattr x)))) [] = r1 at *
  rw [andThen_of_ok r1 _ a1]
  have n1 : r1.1.nodes = s.nodes := by
    rw [a2.nodes]; simp only [List.map_id_fun, id_eq, HG.empty]; exact foldl_ins_nil_of_nodup hs.nodupN
  -- nodes of H2
  obtain ⟨b1, b2⟩ := addPairs_spec t.nodes id t.nattr r1.1 (by simpa using ht.nodupN)
    (fun x hx => ne_none_of_mem ht.noNoneN hx)
  have i2 : Inv (addNodesFrom r1.1 (t.nodes.map (fun x => (id x, some (t.nattr x)))) []).1 := addNodesFrom_inv i1 _ _
  generalize addNodesFrom r1.1 (t.nodes.map (fun x => (id x, some (t.nattr x)))) [] = r2 at *
  rw [andThen_of_ok r2 _ b1]
  have n2 : r2.1.nodes = s.nodes ++ t.nodes.filter (· ∉ s.nodes) := by
    rw [b2.nodes, n1]; simp only [List.map_id_fun, id_eq]; exact foldl_ins_append_filter _ _ ht.nodupN
  have e2 : r2.1.edges = [] := by rw [b2.edges, a2.edges]; rfl
  have u2 : r2.1.uid = 0 := by rw [b2.uid, a2.uid]; rfl
  -- edges of H1
  rw [addEdgesFrom_f3]
  obtain ⟨c1, c2, c3, c4⟩ := bulk_auto .f3 (Or.inr rfl)
    (s.edges.map (fun e => ({ members := s.mem e, idx := none, attr := s.eattr e } : EdgeItem))) r2.1 i2.2 (by
      intro it hit; simp only [List.mem_map] at hit; obtain ⟨e, he, rfl⟩ := hit; exact wf_none_not_mem hs he)
  have i3 : Inv (bulk (addEdgesItem .f3 []) r2.1
      (s.edges.map (fun e => ({ members := s.mem e, idx := none, attr := s.eattr e } : EdgeItem)))).1 := by
    have := addEdgesFrom_inv i2 .f3 (s.edges.map (fun e => ({ members := s.mem e, idx := none, attr := s.eattr e } : EdgeItem))) []
    rw [addEdgesFrom_f3] at this; exact this
  generalize bulk (addEdgesItem .f3 []) r2.1
      (s.edges.map (fun e => ({ members := s.mem e, idx := none, attr := s.eattr e } : EdgeItem))) = r3 at *
  rw [andThen_of_ok r3 _ c1, addEdgesFrom_f3]
  simp only [List.length_map, u2, Nat.zero_add] at c2 c3
  -- edges of H2
  obtain ⟨d1, d2, d3, d4⟩ := bulk_auto .f3 (Or.inr rfl)
    (t.edges.map (fun e => ({ members := t.mem e, idx := none, attr := t.eattr e } : EdgeItem))) r3.1 i3.2 (by
      intro it hit; simp only [List.mem_map] at hit; obtain ⟨e, he, rfl⟩ := hit; exact wf_none_not_mem ht he)
  have i4 : Inv (bulk (addEdgesItem .f3 []) r3.1
      (t.edges.map (fun e => ({ members := t.mem e, idx := none, attr := t.eattr e } : EdgeItem)))).1 := by
    have := addEdgesFrom_inv i3 .f3 (t.edges.map (fun e => ({ members := t.mem e, idx := none, attr := t.eattr e } : EdgeItem))) []
    rw [addEdgesFrom_f3] at this; exact this
  generalize bulk (addEdgesItem .f3 []) r3.1
      (t.edges.map (fun e => ({ members := t.mem e, idx := none, attr := t.eattr e } : EdgeItem))) = r4 at *
  simp only [List.length_map, c3] at d2 d3
  -- abbreviations for the two batches of items
  generalize hI1 : autoItems 0 (s.edges.map (fun e => ({ members := s.mem e, idx := none, attr := s.eattr e } : EdgeItem))) = I1 at *
  generalize hI2 : autoItems s.edges.length (t.edges.map (fun e => ({ members := t.mem e, idx := none, attr := t.eattr e } : EdgeItem))) = I2 at *
  have ids1 : I1.map (·.1) = (List.range' 0 s.edges.length).map (fun j => PyId.int (j : Nat)) := by
    rw [← hI1, autoItems_ids]; simp
  have ids2 : I2.map (·.1) = (List.range' s.edges.length t.edges.length).map (fun j => PyId.int (j : Nat)) := by
    rw [← hI2, autoItems_ids]; simp
  have n3 : r3.1.nodes = r2.1.nodes := c2.nodes_same (by
    intro it hit n hn
    rw [← hI1] at hit
    have : it.2.1 ∈ (autoItems 0 (s.edges.map (fun e => ({ members := s.mem e, idx := none, attr := s.eattr e } : EdgeItem)))).map (fun it => it.2.1) :=
      List.mem_map_of_mem (f := fun (it : Item) => it.2.1) hit
    rw [autoItems_map_snd (fun p => p.1)] at this
    simp only [List.map_map, List.mem_map, Function.comp] at this
    obtain ⟨e, he, heq⟩ := this
    rw [← heq] at hn; simp only [mem_dedup] at hn
    rw [n2]; exact List.mem_append_left _ (hs.e2n e he n hn).1)
  have n4 : r4.1.nodes = r3.1.nodes := d2.nodes_same (by
    intro it hit n hn
    rw [← hI2] at hit
    have : it.2.1 ∈ (autoItems s.edges.length (t.edges.map (fun e => ({ members := t.mem e, idx := none, attr := t.eattr e } : EdgeItem)))).map (fun it => it.2.1) :=
      List.mem_map_of_mem (f := fun (it : Item) => it.2.1) hit
    rw [autoItems_map_snd (fun p => p.1)] at this
    simp only [List.map_map, List.mem_map, Function.comp] at this
    obtain ⟨e, he, heq⟩ := this
    rw [← heq] at hn; simp only [mem_dedup] at hn
    rw [n3, n2]
    have hnt := (ht.e2n e he n hn).1
    by_cases hns : n ∈ s.nodes
    · exact List.mem_append_left _ hns
    · exact List.mem_append_right _ (List.mem_filter.2 ⟨hnt, by simpa using hns⟩))
  have e3 : r3.1.edges = I1.map (·.1) := by rw [c2.edges, e2]; rfl
  have e4 : r4.1.edges = I1.map (·.1) ++ I2.map (·.1) := by rw [d2.edges, e3]
  -- the first batch is untouched by the second
  have disj : ∀ x ∈ I1.map (·.1), x ∉ I2.map (·.1) := by
    intro x hx hx2
    rw [ids1] at hx; rw [ids2] at hx2
    simp only [List.mem_map, List.mem_range'_1] at hx hx2
    obtain ⟨j, ⟨_, hj⟩, rfl⟩ := hx
    obtain ⟨k, ⟨hk, _⟩, heq⟩ := hx2
    have := int_inj heq; omega
  have m1 : (I1.map (·.1)).map r4.1.mem = s.edges.map s.mem := by
    have : (I1.map (·.1)).map r4.1.mem = (I1.map (·.1)).map r3.1.mem :=
      List.map_congr_left (fun x hx => d2.mem_old x (disj x hx))
    rw [this, c2.map_mem, ← hI1, autoItems_map_snd (fun p => dedup p.1), List.map_map]
    apply List.map_congr_left; intro e he
    simp only [Function.comp]
    rw [dedup_of_nodup (nodup_dedup _), dedup_of_nodup (hs.setE e he)]
  have m2 : (I2.map (·.1)).map r4.1.mem = t.edges.map t.mem := by
    rw [d2.map_mem, ← hI2, autoItems_map_snd (fun p => dedup p.1), List.map_map]
    apply List.map_congr_left; intro e he
    simp only [Function.comp]
    rw [dedup_of_nodup (nodup_dedup _), dedup_of_nodup (ht.setE e he)]
  have ea1 : (I1.map (·.1)).map r4.1.eattr = s.edges.map s.eattr := by
    have : (I1.map (·.1)).map r4.1.eattr = (I1.map (·.1)).map r3.1.eattr :=
      List.map_congr_left (fun x hx => d2.eattr_old x (disj x hx))
    rw [this, c2.map_eattr, ← hI1, autoItems_map_snd (fun p => Attrs.update [] p.2), List.map_map]
    apply List.map_congr_left; intro e he
    simp only [Function.comp]
    rw [update_nil (has.eattr e he), update_nil (has.eattr e he)]
  have ea2 : (I2.map (·.1)).map r4.1.eattr = t.edges.map t.eattr := by
    rw [d2.map_eattr, ← hI2, autoItems_map_snd (fun p => Attrs.update [] p.2), List.map_map]
    apply List.map_congr_left; intro e he
    simp only [Function.comp]
    rw [update_nil (hat.eattr e he), update_nil (hat.eattr e he)]
  refine ⟨d1, ?_, ?_, ?_, ?_, ?_, by first | rfl | trivial, ?_, wf_with i4.1 _ _ _⟩
  · show r4.1.nodes = _; rw [n4, n3, n2]
  · show r4.1.edges = _
    rw [e4, ids1, ids2, ← List.map_append, List.range_eq_range']
    congr 1
    have := List.range'_append (s := 0) (m := s.edges.length) (n := t.edges.length) (step := 1)
    simpa using this
  · show r4.1.edges.map r4.1.mem = _
    rw [e4, List.map_append, m1, m2]
  · show r4.1.edges.map r4.1.eattr = _
    rw [e4, List.map_append, ea1, ea2]
  · intro n hn
    show r4.1.nattr n = _
    have hn4 : n ∈ r4.1.nodes := hn
    have hn3 : n ∈ r3.1.nodes := by rw [← n4]; exact hn4
    have hn2 : n ∈ r2.1.nodes := by rw [← n3]; exact hn3
    rw [d2.nattr_old n hn3, c2.nattr_old n hn2]
    have r1attr : ∀ m ∈ s.nodes, r1.1.nattr m = s.nattr m := by
      intro m hm
      have := a2.nattr_new m hm; simp only [id_eq, HG.empty, List.not_mem_nil, if_false] at this
      rw [this, update_nil (has.nattr m hm), update_nil (has.nattr m hm)]
    by_cases hnt : n ∈ t.nodes
    · have := b2.nattr_new n hnt; simp only [id_eq] at this
      rw [this, n1, update_nil (hat.nattr n hnt)]
      simp only [hnt, if_true]
      by_cases hns : n ∈ s.nodes
      · simp only [hns, if_true]; rw [r1attr n hns]
      · simp only [hns, if_false]
    · have hns : n ∈ s.nodes := by
        rw [n2] at hn2
        rcases List.mem_append.1 hn2 with h | h
        · exact h
        · exact absurd (List.mem_filter.1 h).1 hnt
      rw [b2.nattr_old n (by simpa using hnt), r1attr n hns]
      simp only [hns, hnt, if_true, if_false]; rfl
  · show r4.1.frozen = false
    rw [d2.frozen, c2.frozen, b2.frozen, a2.frozen]; rfl
end Xgi.C19
