import XgiModel.C19.Derived
namespace Xgi.C19
theorem placeholder : True := trivial
end Xgi.C19
