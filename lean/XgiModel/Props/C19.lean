/-
  C19 — derived networks satisfy their set-theoretic definitions.
  Property theorems only; the model is C19/Derived.lean (+ the in-place functions of Core/HG.lean),
  helper lemmas are in C19/Lemmas*.lean.  All statements are for well-formed networks (`HG.WF`,
  the invariant C01 proves for every constructible network) whose attribute dicts have distinct
  keys (`AttrWF`, true of every Python dict).
-/
import XgiModel.C19.Lemmas12

namespace Xgi.C19
open Xgi Xgi.HG

/-! ### subhypergraph -/

/-- `x` was asked for: no argument given, or listed in it -/
def requested (arg : Option (List PyId)) (x : PyId) : Prop :=
  match arg with
  | none => True
  | some l => x ∈ l

theorem selected_iff (arg : Option (List PyId)) (all : List PyId) (x : PyId) :
    selected arg all x = true ↔ x ∈ all ∧ requested arg x := by
  cases arg <;> simp [selected, requested, and_comm]

/-- `subhypergraph(H, nodes, edges)` (isolated nodes kept): exactly the requested nodes, exactly the
    requested edges that lie inside them, in the original order, with their members and attributes,
    the network attributes, and frozen. -/
theorem subhypergraph_spec {s : HG} (h : WF s) (ha : AttrWF s) (nodesArg edgesArg : Option (List PyId)) :
    (subhypergraph s nodesArg edgesArg true).2 = .ok ∧
    (subhypergraph s nodesArg edgesArg true).1.nodes = s.nodes.filter (selected nodesArg s.nodes) ∧
    (subhypergraph s nodesArg edgesArg true).1.edges = s.edges.filter (keptEdge s nodesArg edgesArg) ∧
    (∀ e ∈ (subhypergraph s nodesArg edgesArg true).1.edges, (subhypergraph s nodesArg edgesArg true).1.mem e = s.mem e) ∧
    (∀ n ∈ (subhypergraph s nodesArg edgesArg true).1.nodes, (subhypergraph s nodesArg edgesArg true).1.nattr n = s.nattr n) ∧
    (∀ e ∈ (subhypergraph s nodesArg edgesArg true).1.edges, (subhypergraph s nodesArg edgesArg true).1.eattr e = s.eattr e) ∧
    (subhypergraph s nodesArg edgesArg true).1.net = s.net ∧
    (subhypergraph s nodesArg edgesArg true).1.frozen = true ∧
    WF (subhypergraph s nodesArg edgesArg true).1 := by
  obtain ⟨h1, h2⟩ := subStage_spec h ha nodesArg edgesArg
  unfold subhypergraph
  simp only [if_true]
  rw [andThen_of_ok _ _ h1]
  simp only []
  exact ⟨trivial, h2.nodes, h2.edges, h2.mem, h2.nattr, h2.eattr, h2.net, trivial, wf_with h2.inv.1 _ _ _⟩

/-- the reading of the statement: an edge is kept iff it was requested and all its members were -/
theorem subhypergraph_edge_iff {s : HG} (h : WF s) (ha : AttrWF s) (nodesArg edgesArg : Option (List PyId))
    (keep : Bool) (e : PyId) :
    e ∈ (subhypergraph s nodesArg edgesArg keep).1.edges ↔
      e ∈ s.edges ∧ requested edgesArg e ∧ ∀ n ∈ s.mem e, requested nodesArg n := by
  obtain ⟨h1, h2⟩ := subStage_spec h ha nodesArg edgesArg
  have key : e ∈ (subStage s nodesArg edgesArg).1.edges ↔
      e ∈ s.edges ∧ requested edgesArg e ∧ ∀ n ∈ s.mem e, requested nodesArg n := by
    rw [h2.edges, List.mem_filter]
    simp only [keptEdge, Bool.and_eq_true, List.all_eq_true, selected_iff]
    constructor
    · rintro ⟨he, ⟨_, hr⟩, hall⟩; exact ⟨he, hr, fun n hn => (hall n hn).2⟩
    · rintro ⟨he, hr, hall⟩; exact ⟨he, ⟨he, hr⟩, fun n hn => ⟨(h.e2n e he n hn).1, hall n hn⟩⟩
  unfold subhypergraph
  cases keep
  · simp only [Bool.false_eq_true, if_false]
    rw [andThen_of_ok _ _ h1]
    have hiso := removeIsolated_spec (isolates (subStage s nodesArg edgesArg).1) (subStage s nodesArg edgesArg).1
      (nodup_filter _ h2.inv.1.nodupN) (by
        intro n hn
        simp only [isolates, List.mem_filter, decide_eq_true_eq, List.length_eq_zero_iff] at hn
        exact hn)
    show e ∈ (removeNodesFrom _ _ false true).1.edges ↔ _
    rw [hiso.2.2.1]; exact key
  · simp only [if_true]
    rw [andThen_of_ok _ _ h1]; exact key

/-- `keep_isolates=False`: additionally the nodes that are left in no kept edge are dropped, nothing else changes -/
theorem subhypergraph_drop_isolates_spec {s : HG} (h : WF s) (ha : AttrWF s) (nodesArg edgesArg : Option (List PyId)) :
    (subhypergraph s nodesArg edgesArg false).2 = .ok ∧
    (subhypergraph s nodesArg edgesArg false).1.nodes =
      (s.nodes.filter (selected nodesArg s.nodes)).filter
        (fun n => (s.edges.filter (keptEdge s nodesArg edgesArg)).any (fun e => decide (n ∈ s.mem e))) ∧
    (subhypergraph s nodesArg edgesArg false).1.edges = s.edges.filter (keptEdge s nodesArg edgesArg) ∧
    (∀ e ∈ (subhypergraph s nodesArg edgesArg false).1.edges, (subhypergraph s nodesArg edgesArg false).1.mem e = s.mem e) ∧
    (∀ n ∈ (subhypergraph s nodesArg edgesArg false).1.nodes, (subhypergraph s nodesArg edgesArg false).1.nattr n = s.nattr n) ∧
    (∀ e ∈ (subhypergraph s nodesArg edgesArg false).1.edges, (subhypergraph s nodesArg edgesArg false).1.eattr e = s.eattr e) ∧
    (subhypergraph s nodesArg edgesArg false).1.net = s.net ∧
    (subhypergraph s nodesArg edgesArg false).1.frozen = true := by
  obtain ⟨h1, h2⟩ := subStage_spec h ha nodesArg edgesArg
  unfold subhypergraph
  simp only [Bool.false_eq_true, if_false]
  rw [andThen_of_ok _ _ h1]
  have hw := h2.inv.1
  obtain ⟨g1, g2, g3, g4, g5, g6, g7, g8, g9, g10⟩ :=
    removeIsolated_spec (isolates (subStage s nodesArg edgesArg).1) (subStage s nodesArg edgesArg).1
      (nodup_filter _ hw.nodupN) (by
        intro n hn
        simp only [isolates, List.mem_filter, decide_eq_true_eq, List.length_eq_zero_iff] at hn
        exact hn)
  generalize (subStage s nodesArg edgesArg).1 = t at *
  generalize removeNodesFrom t (isolates t) false true = u at *
  refine ⟨g1, ?_, by rw [g3]; exact h2.edges, ?_, ?_, ?_, by show u.1.net = s.net; rw [g8]; exact h2.net, by first | rfl | trivial⟩
  · show u.1.nodes = _
    rw [g2, h2.nodes]
    apply List.filter_congr
    intro n hn
    have hnt : n ∈ t.nodes := by rw [h2.nodes]; exact hn
    -- n is isolated in t iff no kept edge contains it
    have iso_iff : n ∈ isolates t ↔ t.memb n = [] := by
      simp only [isolates, List.mem_filter, decide_eq_true_eq, hnt, true_and, List.length_eq_zero_iff]
    rw [Bool.eq_iff_iff]
    simp only [decide_eq_true_eq, List.any_eq_true, iso_iff]
    constructor
    · intro hne
      cases hm : t.memb n with
      | nil => exact absurd hm hne
      | cons e _ =>
        have he : e ∈ t.memb n := by rw [hm]; simp
        have := hw.n2e n hnt e he
        exact ⟨e, by rw [← h2.edges]; exact this.1, by rw [← h2.mem e this.1]; exact this.2⟩
    · rintro ⟨e, he, hn'⟩
      rw [← h2.edges] at he
      have : e ∈ t.memb n := (hw.e2n e he n (by rw [h2.mem e he]; exact hn')).2
      intro hnil; rw [hnil] at this; cases this
  · intro e he; show u.1.mem e = s.mem e
    rw [g4]; exact h2.mem e (by rw [← g3]; exact he)
  · intro n hn; show u.1.nattr n = s.nattr n
    rw [g7]; apply h2.nattr
    have : n ∈ u.1.nodes := hn
    rw [g2] at this; exact (List.mem_filter.1 this).1
  · intro e he; show u.1.eattr e = s.eattr e
    rw [g6]; exact h2.eattr e (by rw [← g3]; exact he)


/-! ### dual -/

/-- what `H.dual()` is, stated on the tables -/
structure IsDual (s d : HG) : Prop where
  edges : d.edges = s.nodes
  nodes : ∀ x, x ∈ d.nodes ↔ x ∈ s.edges
  mem : ∀ n ∈ s.nodes, d.mem n = s.memb n
  memb : ∀ e ∈ s.edges, ∀ n, n ∈ d.memb e ↔ n ∈ s.mem e
  eattr : ∀ n ∈ s.nodes, d.eattr n = s.nattr n
  nattr : ∀ e ∈ s.edges, d.nattr e = s.eattr e
  net : d.net = s.net
  wf : WF d
  attrWF : AttrWF d

/-- the dual exchanges nodes and edges: its edges are the nodes of `H` (in order) with the memberships as
    members and the node attributes, its nodes are the edges of `H` with the edge attributes -/
theorem dual_spec {s : HG} (h : WF s) (ha : AttrWF s) : (dual s).2 = .ok ∧ IsDual s (dual s).1 := by
  unfold dual
  simp only []
  have he := addItems_spec s.nodes id s.memb s.nattr HG.empty (by simpa using h.nodupN) (by
    intro n hn
    exact ⟨ne_none_of_mem h.noNoneN hn, by simp [HG.empty], wf_none_not_memb h hn⟩)
  have he' : (s.nodes.map (fun n => ({ members := s.memb n, idx := some n, attr := s.nattr n } : EdgeItem))) =
      mkItems s.nodes id s.memb s.nattr := rfl
  rw [he']
  have hi1 : Inv (addEdgesFrom HG.empty .f4 (mkItems s.nodes id s.memb s.nattr) []).1 := addEdgesFrom_inv empty_inv _ _ _
  obtain ⟨he1, he2⟩ := he
  generalize addEdgesFrom HG.empty .f4 (mkItems s.nodes id s.memb s.nattr) [] = r1 at *
  rw [andThen_of_ok r1 _ he1]
  have hn := addPairs_spec s.edges id s.eattr r1.1 (by simpa using h.nodupE) (fun x hx => ne_none_of_mem h.noNoneE hx)
  have hn' : s.edges.map (fun e => (e, some (s.eattr e))) = s.edges.map (fun x => (id x, some (s.eattr x))) := rfl
  rw [hn']
  have hi2 : Inv (addNodesFrom r1.1 (s.edges.map (fun x => (id x, some (s.eattr x)))) []).1 := addNodesFrom_inv hi1 _ _
  obtain ⟨hn1, hn2⟩ := hn
  generalize addNodesFrom r1.1 (s.edges.map (fun x => (id x, some (s.eattr x)))) [] = r2 at *
  refine ⟨hn1, ?_⟩
  have hw : WF { r2.1 with net := s.net } := by
    have := wf_with hi2.1 s.net r2.1.uid r2.1.frozen; exact this
  have hr1nodes : ∀ x, x ∈ r1.1.nodes → x ∈ s.edges := by
    intro x hx
    rcases (he2.nodes_mem x).1 hx with hx | ⟨n, hn, hx⟩
    · simp [HG.empty] at hx
    · exact (h.n2e n hn x hx).1
  have hnodes : ∀ x, x ∈ r2.1.nodes ↔ x ∈ s.edges := by
    intro x; rw [hn2.nodes, foldl_ins_mem]; simp only [List.map_id_fun, id_eq]
    constructor
    · rintro (hx | hx)
      · exact hr1nodes x hx
      · exact hx
    · intro hx; exact Or.inr hx
  have hedges : r2.1.edges = s.nodes := by
    rw [hn2.edges, he2.edges]; simp [HG.empty]
  have hmem : ∀ n ∈ s.nodes, r2.1.mem n = s.memb n := by
    intro n hn
    rw [hn2.mem]
    have := he2.mem_new n hn; simp only [id_eq] at this
    rw [this, dedup_of_nodup (h.setN n hn)]
  have hnattr : ∀ e ∈ s.edges, r2.1.nattr e = s.eattr e := by
    intro e he
    have := hn2.nattr_new e he; simp only [id_eq] at this
    rw [this]
    have : (if e ∈ r1.1.nodes then r1.1.nattr e else []) = [] := by
      split
      · rename_i hin; exact he2.nattr_new e (by simp [HG.empty]) hin
      · rfl
    rw [this, update_nil (ha.eattr e he), update_nil (ha.eattr e he)]
  have heattr : ∀ n ∈ s.nodes, r2.1.eattr n = s.nattr n := by
    intro n hn
    rw [hn2.eattr]
    have := he2.eattr_new n hn; simp only [id_eq] at this
    rw [this, update_nil (ha.nattr n hn), update_nil (ha.nattr n hn)]
  constructor
  · exact hedges
  · exact hnodes
  · exact hmem
  · intro e he n
    show n ∈ r2.1.memb e ↔ n ∈ s.mem e
    have hen : e ∈ r2.1.nodes := (hnodes e).2 he
    constructor
    · intro hm
      have := hi2.1.n2e e hen n hm
      rw [hedges] at this
      rw [hmem n this.1] at this
      exact (h.n2e n this.1 e this.2).2
    · intro hm
      have hn := (h.e2n e he n hm)
      have : e ∈ r2.1.mem n := by rw [hmem n hn.1]; exact hn.2
      exact (hi2.1.e2n n (by rw [hedges]; exact hn.1) e this).2
  · exact heattr
  · exact hnattr
  · rfl
  · exact hw
  · constructor
    · intro e he; show AttrsOK (r2.1.nattr e)
      have he' : e ∈ s.edges := (hnodes e).1 he
      rw [hnattr e he']; exact ha.eattr e he'
    · intro n hn; show AttrsOK (r2.1.eattr n)
      have hn' : n ∈ s.nodes := by rw [← hedges]; exact hn
      rw [heattr n hn']; exact ha.nattr n hn'
    · exact ha.net

/-- the dual is an involution (up to the order of nodes and edges, which the dual takes from Python set
    iteration): `H.dual().dual()` has the nodes, edges, members and attributes of `H`.  It holds for every
    well-formed network — isolated nodes and empty edges turn into each other and back. -/
theorem dual_involution {s : HG} (h : WF s) (ha : AttrWF s) :
    (dual (dual s).1).2 = .ok ∧
    (∀ n, n ∈ (dual (dual s).1).1.nodes ↔ n ∈ s.nodes) ∧
    (∀ e, e ∈ (dual (dual s).1).1.edges ↔ e ∈ s.edges) ∧
    (∀ e ∈ s.edges, ∀ n, n ∈ (dual (dual s).1).1.mem e ↔ n ∈ s.mem e) ∧
    (∀ n ∈ s.nodes, (dual (dual s).1).1.nattr n = s.nattr n) ∧
    (∀ e ∈ s.edges, (dual (dual s).1).1.eattr e = s.eattr e) ∧
    (dual (dual s).1).1.net = s.net ∧ WF (dual (dual s).1).1 := by
  obtain ⟨_, d1⟩ := dual_spec h ha
  obtain ⟨o2, d2⟩ := dual_spec d1.wf d1.attrWF
  generalize (dual s).1 = d at *
  generalize (dual d).1 = dd at *
  refine ⟨o2, ?_, ?_, ?_, ?_, ?_, by rw [d2.net, d1.net], d2.wf⟩
  · intro n; rw [d2.nodes, d1.edges]
  · intro e; rw [d2.edges, d1.nodes]
  · intro e he n
    rw [d2.mem e ((d1.nodes e).2 he)]; exact d1.memb e he n
  · intro n hn
    rw [d2.nattr n (by rw [d1.edges]; exact hn)]; exact d1.eattr n hn
  · intro e he
    rw [d2.eattr e ((d1.nodes e).2 he)]; exact d1.nattr e he

/-- the wording of the statement: the networks without isolated nodes and without empty edges form a class that
    the dual maps into itself (an isolated node would become an empty edge and vice versa — here there are none,
    on either side), and on that class `dual ∘ dual` gives back the nodes, edges and members of `H`
    (a corollary of `dual_spec` and of the stronger `dual_involution`, which needs neither hypothesis) -/
theorem dual_involution_no_isolates_no_empty {s : HG} (h : WF s) (ha : AttrWF s)
    (hiso : ∀ n ∈ s.nodes, s.memb n ≠ []) (hemp : ∀ e ∈ s.edges, s.mem e ≠ []) :
    (∀ e ∈ (dual s).1.edges, (dual s).1.mem e ≠ []) ∧
    (∀ n ∈ (dual s).1.nodes, (dual s).1.memb n ≠ []) ∧
    (∀ n, n ∈ (dual (dual s).1).1.nodes ↔ n ∈ s.nodes) ∧
    (∀ e, e ∈ (dual (dual s).1).1.edges ↔ e ∈ s.edges) ∧
    (∀ e ∈ s.edges, ∀ n, n ∈ (dual (dual s).1).1.mem e ↔ n ∈ s.mem e) := by
  obtain ⟨_, d1⟩ := dual_spec h ha
  have r := dual_involution h ha
  refine ⟨?_, ?_, r.2.1, r.2.2.1, r.2.2.2.1⟩
  · intro e he
    rw [d1.edges] at he
    rw [d1.mem e he]; exact hiso e he
  · intro n hn
    have hn' := (d1.nodes n).1 hn
    obtain ⟨x, hx⟩ := List.exists_mem_of_ne_nil _ (hemp n hn')
    intro hnil
    have := (d1.memb n hn' x).2 hx
    rw [hnil] at this; cases this

/-! ### `<<` -/

/-- `H1 << H2`: the nodes are the union (those of `H1` first), the edges are the disjoint union in order
    under the fresh IDs 0,1,2,… with their own members and attributes, node and network attributes are
    merged with `H2` winning. -/
theorem lshift_spec {s t : HG} (hs : WF s) (ht : WF t) (has : AttrWF s) (hat : AttrWF t)
    (hal : Aligned s) (hal' : Aligned t) :
    (lshift s t).2 = .ok ∧
    (lshift s t).1.nodes = s.nodes ++ t.nodes.filter (· ∉ s.nodes) ∧
    (lshift s t).1.edges = (List.range (s.edges.length + t.edges.length)).map (fun j => PyId.int (j : Nat)) ∧
    (lshift s t).1.edges.map (lshift s t).1.mem = s.edges.map s.mem ++ t.edges.map t.mem ∧
    (lshift s t).1.edges.map (lshift s t).1.eattr = s.edges.map s.eattr ++ t.edges.map t.eattr ∧
    (∀ n ∈ (lshift s t).1.nodes, (lshift s t).1.nattr n =
      Attrs.update (if n ∈ s.nodes then s.nattr n else []) (if n ∈ t.nodes then t.nattr n else [])) ∧
    (lshift s t).1.net = s.net.update t.net ∧ (lshift s t).1.frozen = false ∧ WF (lshift s t).1 := by
  unfold lshift
  simp only []
  rw [zipNodeAttrs_eq hal, zipNodeAttrs_eq hal', zipEdgeAttrs_eq hal, zipEdgeAttrs_eq hal']
  -- nodes of H1
  obtain ⟨a1, a2⟩ := addPairs_spec s.nodes id s.nattr HG.empty (by simpa using hs.nodupN)
    (fun x hx => ne_none_of_mem hs.noNoneN hx)
  have i1 : Inv (addNodesFrom HG.empty (s.nodes.map (fun x => (id x, some (s.nattr x)))) []).1 :=
    addNodesFrom_inv empty_inv _ _
  generalize addNodesFrom HG.empty (s.nodes.map (fun x => (id x, some (s.nattr x)))) [] = r1 at *
  rw [andThen_of_ok r1 _ a1]
  have n1 : r1.1.nodes = s.nodes := by
    rw [a2.nodes]; simp only [List.map_id_fun, id_eq, HG.empty]; exact foldl_ins_nil_of_nodup hs.nodupN
  -- nodes of H2
  obtain ⟨b1, b2⟩ := addPairs_spec t.nodes id t.nattr r1.1 (by simpa using ht.nodupN)
    (fun x hx => ne_none_of_mem ht.noNoneN hx)
  have i2 : Inv (addNodesFrom r1.1 (t.nodes.map (fun x => (id x, some (t.nattr x)))) []).1 := addNodesFrom_inv i1 _ _
  generalize addNodesFrom r1.1 (t.nodes.map (fun x => (id x, some (t.nattr x)))) [] = r2 at *
  rw [andThen_of_ok r2 _ b1]
  have n2 : r2.1.nodes = s.nodes ++ t.nodes.filter (· ∉ s.nodes) := by
    rw [b2.nodes, n1]; simp only [List.map_id_fun, id_eq]; exact foldl_ins_append_filter _ _ ht.nodupN
  have e2 : r2.1.edges = [] := by rw [b2.edges, a2.edges]; rfl
  have u2 : r2.1.uid = 0 := by rw [b2.uid, a2.uid]; rfl
  -- edges of H1
  rw [addEdgesFrom_f3]
  obtain ⟨c1, c2, c3, c4⟩ := bulk_auto .f3 (Or.inr rfl)
    (s.edges.map (fun e => ({ members := s.mem e, idx := none, attr := s.eattr e } : EdgeItem))) r2.1 i2.2 (by
      intro it hit; simp only [List.mem_map] at hit; obtain ⟨e, he, rfl⟩ := hit; exact wf_none_not_mem hs he)
  have i3 : Inv (bulk (addEdgesItem .f3 []) r2.1
      (s.edges.map (fun e => ({ members := s.mem e, idx := none, attr := s.eattr e } : EdgeItem)))).1 := by
    have := addEdgesFrom_inv i2 .f3 (s.edges.map (fun e => ({ members := s.mem e, idx := none, attr := s.eattr e } : EdgeItem))) []
    rw [addEdgesFrom_f3] at this; exact this
  generalize bulk (addEdgesItem .f3 []) r2.1
      (s.edges.map (fun e => ({ members := s.mem e, idx := none, attr := s.eattr e } : EdgeItem))) = r3 at *
  rw [andThen_of_ok r3 _ c1, addEdgesFrom_f3]
  simp only [List.length_map, u2, Nat.zero_add] at c2 c3
  -- edges of H2
  obtain ⟨d1, d2, d3, d4⟩ := bulk_auto .f3 (Or.inr rfl)
    (t.edges.map (fun e => ({ members := t.mem e, idx := none, attr := t.eattr e } : EdgeItem))) r3.1 i3.2 (by
      intro it hit; simp only [List.mem_map] at hit; obtain ⟨e, he, rfl⟩ := hit; exact wf_none_not_mem ht he)
  have i4 : Inv (bulk (addEdgesItem .f3 []) r3.1
      (t.edges.map (fun e => ({ members := t.mem e, idx := none, attr := t.eattr e } : EdgeItem)))).1 := by
    have := addEdgesFrom_inv i3 .f3 (t.edges.map (fun e => ({ members := t.mem e, idx := none, attr := t.eattr e } : EdgeItem))) []
    rw [addEdgesFrom_f3] at this; exact this
  generalize bulk (addEdgesItem .f3 []) r3.1
      (t.edges.map (fun e => ({ members := t.mem e, idx := none, attr := t.eattr e } : EdgeItem))) = r4 at *
  simp only [List.length_map, c3] at d2 d3
  -- abbreviations for the two batches of items
  generalize hI1 : autoItems 0 (s.edges.map (fun e => ({ members := s.mem e, idx := none, attr := s.eattr e } : EdgeItem))) = I1 at *
  generalize hI2 : autoItems s.edges.length (t.edges.map (fun e => ({ members := t.mem e, idx := none, attr := t.eattr e } : EdgeItem))) = I2 at *
  have ids1 : I1.map (·.1) = (List.range' 0 s.edges.length).map (fun j => PyId.int (j : Nat)) := by
    rw [← hI1, autoItems_ids]; simp
  have ids2 : I2.map (·.1) = (List.range' s.edges.length t.edges.length).map (fun j => PyId.int (j : Nat)) := by
    rw [← hI2, autoItems_ids]; simp
  have n3 : r3.1.nodes = r2.1.nodes := c2.nodes_same (by
    intro it hit n hn
    rw [← hI1] at hit
    have : it.2.1 ∈ (autoItems 0 (s.edges.map (fun e => ({ members := s.mem e, idx := none, attr := s.eattr e } : EdgeItem)))).map (fun it => it.2.1) :=
      List.mem_map_of_mem (f := fun (it : Item) => it.2.1) hit
    rw [autoItems_map_snd (fun p => p.1)] at this
    simp only [List.map_map, List.mem_map, Function.comp] at this
    obtain ⟨e, he, heq⟩ := this
    rw [← heq] at hn; simp only [mem_dedup] at hn
    rw [n2]; exact List.mem_append_left _ (hs.e2n e he n hn).1)
  have n4 : r4.1.nodes = r3.1.nodes := d2.nodes_same (by
    intro it hit n hn
    rw [← hI2] at hit
    have : it.2.1 ∈ (autoItems s.edges.length (t.edges.map (fun e => ({ members := t.mem e, idx := none, attr := t.eattr e } : EdgeItem)))).map (fun it => it.2.1) :=
      List.mem_map_of_mem (f := fun (it : Item) => it.2.1) hit
    rw [autoItems_map_snd (fun p => p.1)] at this
    simp only [List.map_map, List.mem_map, Function.comp] at this
    obtain ⟨e, he, heq⟩ := this
    rw [← heq] at hn; simp only [mem_dedup] at hn
    rw [n3, n2]
    have hnt := (ht.e2n e he n hn).1
    by_cases hns : n ∈ s.nodes
    · exact List.mem_append_left _ hns
    · exact List.mem_append_right _ (List.mem_filter.2 ⟨hnt, by simpa using hns⟩))
  have e3 : r3.1.edges = I1.map (·.1) := by rw [c2.edges, e2]; rfl
  have e4 : r4.1.edges = I1.map (·.1) ++ I2.map (·.1) := by rw [d2.edges, e3]
  -- the first batch is untouched by the second
  have disj : ∀ x ∈ I1.map (·.1), x ∉ I2.map (·.1) := by
    intro x hx hx2
    rw [ids1] at hx; rw [ids2] at hx2
    simp only [List.mem_map, List.mem_range'_1] at hx hx2
    obtain ⟨j, ⟨_, hj⟩, rfl⟩ := hx
    obtain ⟨k, ⟨hk, _⟩, heq⟩ := hx2
    have := int_inj heq; omega
  have m1 : (I1.map (·.1)).map r4.1.mem = s.edges.map s.mem := by
    have : (I1.map (·.1)).map r4.1.mem = (I1.map (·.1)).map r3.1.mem :=
      List.map_congr_left (fun x hx => d2.mem_old x (disj x hx))
    rw [this, c2.map_mem, ← hI1, autoItems_map_snd (fun p => dedup p.1), List.map_map]
    apply List.map_congr_left; intro e he
    simp only [Function.comp]
    rw [dedup_of_nodup (nodup_dedup _), dedup_of_nodup (hs.setE e he)]
  have m2 : (I2.map (·.1)).map r4.1.mem = t.edges.map t.mem := by
    rw [d2.map_mem, ← hI2, autoItems_map_snd (fun p => dedup p.1), List.map_map]
    apply List.map_congr_left; intro e he
    simp only [Function.comp]
    rw [dedup_of_nodup (nodup_dedup _), dedup_of_nodup (ht.setE e he)]
  have ea1 : (I1.map (·.1)).map r4.1.eattr = s.edges.map s.eattr := by
    have : (I1.map (·.1)).map r4.1.eattr = (I1.map (·.1)).map r3.1.eattr :=
      List.map_congr_left (fun x hx => d2.eattr_old x (disj x hx))
    rw [this, c2.map_eattr, ← hI1, autoItems_map_snd (fun p => Attrs.update [] p.2), List.map_map]
    apply List.map_congr_left; intro e he
    simp only [Function.comp]
    rw [update_nil (has.eattr e he), update_nil (has.eattr e he)]
  have ea2 : (I2.map (·.1)).map r4.1.eattr = t.edges.map t.eattr := by
    rw [d2.map_eattr, ← hI2, autoItems_map_snd (fun p => Attrs.update [] p.2), List.map_map]
    apply List.map_congr_left; intro e he
    simp only [Function.comp]
    rw [update_nil (hat.eattr e he), update_nil (hat.eattr e he)]
  refine ⟨d1, ?_, ?_, ?_, ?_, ?_, by first | rfl | trivial, ?_, wf_with i4.1 _ _ _⟩
  · show r4.1.nodes = _; rw [n4, n3, n2]
  · show r4.1.edges = _
    rw [e4, ids1, ids2, ← List.map_append, List.range_eq_range']
    congr 1
    have := List.range'_append (s := 0) (m := s.edges.length) (n := t.edges.length) (step := 1)
    simpa using this
  · show r4.1.edges.map r4.1.mem = _
    rw [e4, List.map_append, m1, m2]
  · show r4.1.edges.map r4.1.eattr = _
    rw [e4, List.map_append, ea1, ea2]
  · intro n hn
    show r4.1.nattr n = _
    have hn4 : n ∈ r4.1.nodes := hn
    have hn3 : n ∈ r3.1.nodes := by rw [← n4]; exact hn4
    have hn2 : n ∈ r2.1.nodes := by rw [← n3]; exact hn3
    rw [d2.nattr_old n hn3, c2.nattr_old n hn2]
    have r1attr : ∀ m ∈ s.nodes, r1.1.nattr m = s.nattr m := by
      intro m hm
      have := a2.nattr_new m hm; simp only [id_eq, HG.empty, List.not_mem_nil, if_false] at this
      rw [this, update_nil (has.nattr m hm), update_nil (has.nattr m hm)]
    by_cases hnt : n ∈ t.nodes
    · have := b2.nattr_new n hnt; simp only [id_eq] at this
      rw [this, n1, update_nil (hat.nattr n hnt)]
      simp only [hnt, if_true]
      by_cases hns : n ∈ s.nodes
      · simp only [hns, if_true]; rw [r1attr n hns]
      · simp only [hns, if_false]
    · have hns : n ∈ s.nodes := by
        rw [n2] at hn2
        rcases List.mem_append.1 hn2 with h | h
        · exact h
        · exact absurd (List.mem_filter.1 h).1 hnt
      rw [b2.nattr_old n (by simpa using hnt), r1attr n hns]
      simp only [hns, hnt, if_true, if_false]; rfl
  · show r4.1.frozen = false
    rw [d2.frozen, c2.frozen, b2.frozen, a2.frozen]; rfl

/-! ### cut_to_order, k_skeleton -/

/-- `cut_to_order(H, order)` for an admissible order (at most `max_edge_order(H)`), for hypergraphs and for
    simplicial complexes: exactly the edges of order ≤ `order` are kept, in order, with members and attributes;
    nodes, their attributes and the network attributes are untouched; the result is not frozen. -/
theorem cut_to_order_spec (cls : Cls) {s : HG} (h : WF s) (ha : AttrWF s) (order mo : Int)
    (hmo : maxEdgeOrder s = some mo) (hle : order ≤ mo) :
    (cutToOrder cls s order).2 = .ok ∧
    (cutToOrder cls s order).1.nodes = s.nodes ∧
    (cutToOrder cls s order).1.edges = s.edges.filter (fun e => decide (((s.mem e).length : Int) - 1 ≤ order)) ∧
    (∀ e ∈ (cutToOrder cls s order).1.edges, (cutToOrder cls s order).1.mem e = s.mem e) ∧
    (∀ n ∈ s.nodes, (cutToOrder cls s order).1.nattr n = s.nattr n) ∧
    (∀ e ∈ (cutToOrder cls s order).1.edges, (cutToOrder cls s order).1.eattr e = s.eattr e) ∧
    (cutToOrder cls s order).1.net = s.net ∧ (cutToOrder cls s order).1.frozen = false ∧
    WF (cutToOrder cls s order).1 := by
  obtain ⟨c1, c2, c3, c4⟩ := copyOf_fields cls h ha
  unfold cutToOrder
  rw [andThen_of_ok _ _ c1]
  generalize (copyOf cls s).1 = c at *
  simp only [hmo]
  have hgt : ¬ order > mo := by omega
  simp only [hgt, if_false]
  -- in every branch: same tables as the copy, and the edges not above the order
  have key : ∀ r : HG × Outcome, r.2 = .ok → SameTables r.1 c → r.1.edges = c.edges.filter (· ∉ aboveOrder c order) →
      WF r.1 →
      r.2 = .ok ∧ r.1.nodes = s.nodes ∧
      r.1.edges = s.edges.filter (fun e => decide (((s.mem e).length : Int) - 1 ≤ order)) ∧
      (∀ e ∈ r.1.edges, r.1.mem e = s.mem e) ∧ (∀ n ∈ s.nodes, r.1.nattr n = s.nattr n) ∧
      (∀ e ∈ r.1.edges, r.1.eattr e = s.eattr e) ∧ r.1.net = s.net ∧ r.1.frozen = false ∧ WF r.1 := by
    intro r h1 h2 h3 h4
    have hed : r.1.edges = s.edges.filter (fun e => decide (((s.mem e).length : Int) - 1 ≤ order)) := by
      rw [h3, c2.edges]; apply List.filter_congr; intro x hx
      unfold aboveOrder
      rw [Bool.eq_iff_iff]
      simp only [List.mem_filter, c2.edges, hx, true_and, gt_iff_lt, decide_eq_true_eq, c2.mem x hx]
      omega
    have hsub : ∀ e ∈ r.1.edges, e ∈ s.edges := fun e he => by rw [hed] at he; exact (List.mem_filter.1 he).1
    refine ⟨h1, by rw [h2.nodes, c2.nodes], hed, ?_, ?_, ?_, by rw [h2.net, c2.net], by rw [h2.frozen, c3], h4⟩
    · intro e he; rw [h2.mem]; exact c2.mem e (hsub e he)
    · intro n hn; rw [h2.nattr]; exact c2.nattr n hn
    · intro e he; rw [h2.eattr]; exact c2.eattr e (hsub e he)
  by_cases heq : order = mo
  · subst heq
    simp only [ne_eq, not_true_eq_false, if_false]
    have hfil : c.edges = c.edges.filter (· ∉ aboveOrder c order) := by
      apply (List.filter_eq_self.2 _).symm
      intro e he
      have := maxEdgeOrder_ge hmo e (by rw [← c2.edges]; exact he)
      simp only [aboveOrder, List.mem_filter, he, true_and, gt_iff_lt, decide_eq_true_eq,
        c2.mem e (by rw [← c2.edges]; exact he)]
      omega
    have := key (c, .ok) rfl (SameTables.refl c) hfil c4
    exact ⟨trivial, this.2⟩
  · simp only [ne_eq, heq, not_false_eq_true, if_true]
    cases cls with
    | sc =>
      obtain ⟨g1, g2, g3⟩ := removeSimplexIdsFrom_spec c4 order
      exact key _ g1 g2 g3 (removeSimplexIdsFrom_wf c4 _)
    | hg =>
      obtain ⟨g1, g2, g3⟩ := removeEdges_spec (aboveOrder c order) c (nodup_filter _ c4.nodupE)
        (fun e he => (List.mem_filter.1 he).1)
      exact key _ g1 g2 g3 (removeEdgesFrom_wf c4 _)

/-- an order above the maximum is rejected with the library's own error -/
theorem cut_to_order_above_max (cls : Cls) {s : HG} (h : WF s) (ha : AttrWF s) (order mo : Int)
    (hmo : maxEdgeOrder s = some mo) (hgt : order > mo) : (cutToOrder cls s order).2 = .err .lib := by
  obtain ⟨c1, _⟩ := copyOf_fields cls h ha
  unfold cutToOrder
  rw [andThen_of_ok _ _ c1]
  simp only [hmo, hgt, if_true]

/-- `k_skeleton(SC, order)` is `cut_to_order` on a simplicial complex: exactly the simplices of order ≤ `order` -/
theorem k_skeleton_spec {s : HG} (h : WF s) (ha : AttrWF s) (order mo : Int)
    (hmo : maxEdgeOrder s = some mo) (hle : order ≤ mo) :
    (kSkeleton .sc s order).2 = .ok ∧
    (kSkeleton .sc s order).1.nodes = s.nodes ∧
    (kSkeleton .sc s order).1.edges = s.edges.filter (fun e => decide (((s.mem e).length : Int) - 1 ≤ order)) ∧
    (∀ e ∈ (kSkeleton .sc s order).1.edges, (kSkeleton .sc s order).1.mem e = s.mem e) ∧
    (∀ n ∈ s.nodes, (kSkeleton .sc s order).1.nattr n = s.nattr n) ∧
    (∀ e ∈ (kSkeleton .sc s order).1.edges, (kSkeleton .sc s order).1.eattr e = s.eattr e) ∧
    (kSkeleton .sc s order).1.net = s.net ∧ (kSkeleton .sc s order).1.frozen = false ∧
    WF (kSkeleton .sc s order).1 := by
  have : kSkeleton .sc s order = cutToOrder .sc s order := by unfold kSkeleton; simp
  rw [this]; exact cut_to_order_spec .sc h ha order mo hmo hle

/-- a subcomplex: the k-skeleton of a downward closed family is downward closed -/
theorem k_skeleton_closed {s : HG} (h : WF s) (ha : AttrWF s) (order mo : Int)
    (hmo : maxEdgeOrder s = some mo) (hle : order ≤ mo)
    (hclosed : ∀ e ∈ s.edges, ∀ f : List PyId, f ≠ [] → f.Nodup → (∀ x ∈ f, x ∈ s.mem e) →
      ∃ e' ∈ s.edges, ∀ x, x ∈ s.mem e' ↔ x ∈ f) :
    ∀ e ∈ (kSkeleton .sc s order).1.edges, ∀ f : List PyId, f ≠ [] → f.Nodup →
      (∀ x ∈ f, x ∈ (kSkeleton .sc s order).1.mem e) →
      ∃ e' ∈ (kSkeleton .sc s order).1.edges, ∀ x, x ∈ (kSkeleton .sc s order).1.mem e' ↔ x ∈ f := by
  obtain ⟨_, _, k3, k4, _⟩ := k_skeleton_spec h ha order mo hmo hle
  generalize (kSkeleton .sc s order).1 = r at *
  intro e he f hf hfn hsub
  have he' := he; rw [k3] at he'
  obtain ⟨hes, hsz⟩ := List.mem_filter.1 he'
  rw [k4 e he] at hsub
  obtain ⟨e', he's, hiff⟩ := hclosed e hes f hf hfn hsub
  have hlen : (s.mem e').length ≤ (s.mem e).length :=
    List.Nodup.length_le_of_subset (h.setE e' he's) (fun x hx => hsub x ((hiff x).1 hx))
  have he'r : e' ∈ r.edges := by
    rw [k3, List.mem_filter]; refine ⟨he's, ?_⟩
    simp only [decide_eq_true_eq] at hsz ⊢; omega
  exact ⟨e', he'r, fun x => by rw [k4 e' he'r]; exact hiff x⟩

/-! ### from_max_simplices -/

/-- `from_max_simplices(SC)`: the node set is kept (in order); the edges are exactly the simplices that no
    other simplex strictly contains, in the order of the complex, under the fresh IDs 0,1,2,…, without
    attributes (any labels: the dict format of `add_edges_from` does no format sniffing).  No assumption on
    empty simplices is needed any more: `maximal()` treats an empty edge as contained in every edge. -/
theorem from_max_simplices_spec {s : HG} (h : WF s) :
    (fromMaxSimplices .sc s).2 = .ok ∧
    (fromMaxSimplices .sc s).1.nodes = s.nodes ∧
    (fromMaxSimplices .sc s).1.edges =
      (List.range (s.edges.filter (isMax s)).length).map (fun j => PyId.int (j : Nat)) ∧
    (fromMaxSimplices .sc s).1.edges.map (fromMaxSimplices .sc s).1.mem = (s.edges.filter (isMax s)).map s.mem ∧
    (∀ e ∈ (fromMaxSimplices .sc s).1.edges, (fromMaxSimplices .sc s).1.eattr e = []) ∧
    (∀ n ∈ s.nodes, (fromMaxSimplices .sc s).1.nattr n = []) ∧
    (fromMaxSimplices .sc s).1.frozen = false ∧ WF (fromMaxSimplices .sc s).1 := by
  unfold fromMaxSimplices
  simp only [ne_eq, not_true_eq_false, if_false, maximalIds_spec h]
  generalize hmx : s.edges.filter (isMax s) = mx at *
  have hmxs : ∀ e ∈ mx, e ∈ s.edges := fun e he => by rw [← hmx] at he; exact (List.mem_filter.1 he).1
  obtain ⟨a1, a2⟩ := addBare_spec s.nodes HG.empty h.nodupN h.noNoneN
  have i1 : Inv (addNodesFrom HG.empty (nodeBare s.nodes) []).1 := addNodesFrom_inv empty_inv _ _
  generalize addNodesFrom HG.empty (nodeBare s.nodes) [] = r1 at *
  rw [andThen_of_ok r1 _ a1]
  have n1 : r1.1.nodes = s.nodes := by
    rw [a2.nodes]; simp only [List.map_id_fun, id_eq, HG.empty]; exact foldl_ins_nil_of_nodup h.nodupN
  have e1 : r1.1.edges = [] := by rw [a2.edges]; rfl
  have u1 : r1.1.uid = 0 := by rw [a2.uid]; rfl
  obtain ⟨c1, c2, c3, c4⟩ := bulk_auto .f1 (Or.inl rfl)
    (mx.map (fun e => ({ members := s.mem e, idx := none, attr := [] } : EdgeItem))) r1.1 i1.2 (by
      intro it hit; simp only [List.mem_map] at hit; obtain ⟨e, he, rfl⟩ := hit; exact wf_none_not_mem h (hmxs e he))
  have i2 : Inv (bulk (addEdgesItem .f1 []) r1.1 (mx.map (fun e => ({ members := s.mem e, idx := none, attr := [] } : EdgeItem)))).1 :=
    bulk_inv Inv _ (fun s a hs => addEdgesItem_inv .f1 [] s a hs) _ i1
  generalize bulk (addEdgesItem .f1 []) r1.1 (mx.map (fun e => ({ members := s.mem e, idx := none, attr := [] } : EdgeItem))) = r2 at *
  simp only [u1] at c2
  generalize hI : autoItems 0 (mx.map (fun e => ({ members := s.mem e, idx := none, attr := [] } : EdgeItem))) = I at *
  have ids : I.map (·.1) = (List.range mx.length).map (fun j => PyId.int (j : Nat)) := by
    rw [← hI, autoItems_ids, List.range_eq_range']; simp
  have e2 : r2.1.edges = I.map (·.1) := by rw [c2.edges, e1]; rfl
  have n2 : r2.1.nodes = r1.1.nodes := c2.nodes_same (by
    intro it hit n hn
    rw [← hI] at hit
    have : it.2.1 ∈ (autoItems 0 (mx.map (fun e => ({ members := s.mem e, idx := none, attr := [] } : EdgeItem)))).map (fun it => it.2.1) :=
      List.mem_map_of_mem (f := fun (it : Item) => it.2.1) hit
    rw [autoItems_map_snd (fun p => p.1)] at this
    simp only [List.map_map, List.mem_map, Function.comp] at this
    obtain ⟨e, he, heq⟩ := this
    rw [← heq] at hn; simp only [mem_dedup] at hn
    rw [n1]; exact (h.e2n e (hmxs e he) n hn).1)
  refine ⟨c1, by rw [n2, n1], by rw [e2, ids], ?_, ?_, ?_, by rw [c2.frozen, a2.frozen]; rfl, i2.1⟩
  · rw [e2, c2.map_mem, ← hI, autoItems_map_snd (fun p => dedup p.1), List.map_map]
    apply List.map_congr_left; intro e he
    simp only [Function.comp]
    rw [dedup_of_nodup (nodup_dedup _), dedup_of_nodup (h.setE e (hmxs e he))]
  · intro e he
    rw [e2] at he
    obtain ⟨it, hit, rfl⟩ := List.mem_map.1 he
    rw [c2.eattr_new it hit]
    have : it.2.2 ∈ I.map (fun it => it.2.2) := List.mem_map_of_mem (f := fun (it : Item) => it.2.2) hit
    rw [← hI, autoItems_map_snd (fun p => p.2)] at this
    simp only [List.map_map, List.mem_map, Function.comp] at this
    obtain ⟨_, _, heq⟩ := this
    rw [← heq]; rfl
  · intro n hn
    rw [c2.nattr_old n (by rw [n1]; exact hn)]
    have := a2.nattr_new n hn
    simp only [id_eq, HG.empty, List.not_mem_nil, if_false] at this
    rw [this]; rfl

/-- what "maximal" means: no other simplex of the complex strictly contains it -/
theorem isMax_spec (s : HG) (e : PyId) :
    isMax s e = true ↔ ∀ j ∈ s.edges, (∀ x ∈ s.mem e, x ∈ s.mem j) → ∀ y ∈ s.mem j, y ∈ s.mem e :=
  isMax_iff s e

/-- `H.edges.maximal()` on any well-formed network, empty edges included (since /repo 8eb4626 an empty edge
    counts as contained in every edge): exactly the edges no other edge strictly contains, in edge order -/
theorem maximal_spec {s : HG} (h : WF s) : maximalIds s = s.edges.filter (isMax s) := maximalIds_spec h

/-- `H.edges.maximal(strict=True)`: exactly the edges that no other edge contains, not even as an equal set -/
theorem maximal_strict_spec {s : HG} (h : WF s) (i : PyId) :
    i ∈ maximalStrictIds s ↔ i ∈ s.edges ∧ ∀ j ∈ s.edges, (∀ x ∈ s.mem i, x ∈ s.mem j) → j = i := by
  rw [maximalStrictIds_spec h, List.mem_filter]
  simp only [List.all_eq_true, Bool.or_eq_true, decide_eq_true_eq, Bool.not_eq_eq_eq_not, Bool.not_true,
    List.all_eq_false]
  constructor
  · rintro ⟨hi, hall⟩
    refine ⟨hi, fun j hj hsub => ?_⟩
    rcases hall j hj with h1 | ⟨x, hx, hnx⟩
    · exact h1
    · exact absurd (hsub x hx) hnx
  · rintro ⟨hi, hall⟩
    refine ⟨hi, fun j hj => ?_⟩
    by_cases hsub : ∀ x ∈ s.mem i, x ∈ s.mem j
    · exact Or.inl (hall j hj hsub)
    · right
      apply Classical.byContradiction; intro hc
      apply hsub; intro x hx
      apply Classical.byContradiction; intro hnx
      exact hc ⟨x, hx, hnx⟩

/-- on anything but a `SimplicialComplex` the function raises the library's error -/
theorem from_max_simplices_wrong_class (s : HG) : (fromMaxSimplices .hg s).2 = .err .lib := by
  unfold fromMaxSimplices; simp

/-! ### complement -/

/-- the network `complement(H)` returns: the nodes of `H` (in order, no attributes) and one edge with a fresh
    ID 0,1,2,… for every member list of `complementEdges H` (the order of the edges is Python set iteration
    order and is not part of the claim; the model lists them in `itertools.combinations` order) -/
theorem complement_network {s : HG} (h : WF s) (hne : s.nodes ≠ []) :
    (complement s).2 = .ok ∧
    (complement s).1.nodes = s.nodes ∧
    (complement s).1.edges = (List.range (complementEdges s).length).map (fun j => PyId.int (j : Nat)) ∧
    (complement s).1.edges.map (complement s).1.mem = complementEdges s ∧
    (complement s).1.frozen = false ∧ WF (complement s).1 := by
  unfold complement
  simp only [hne, if_false]
  have hsubl : ∀ c ∈ complementEdges s, c.Sublist s.nodes := by
    intro c hc
    unfold complementEdges at hc
    exact ((powersetUpTo_mem _ _ _).1 (List.mem_filter.1 hc).1).1
  obtain ⟨a1, a2⟩ := addBare_spec s.nodes HG.empty h.nodupN h.noNoneN
  have i1 : Inv (addNodesFrom HG.empty (nodeBare s.nodes) []).1 := addNodesFrom_inv empty_inv _ _
  generalize addNodesFrom HG.empty (nodeBare s.nodes) [] = r1 at *
  rw [andThen_of_ok r1 _ a1]
  have n1 : r1.1.nodes = s.nodes := by
    rw [a2.nodes]; simp only [List.map_id_fun, id_eq, HG.empty]; exact foldl_ins_nil_of_nodup h.nodupN
  have e1 : r1.1.edges = [] := by rw [a2.edges]; rfl
  have u1 : r1.1.uid = 0 := by rw [a2.uid]; rfl
  obtain ⟨c1, c2, _, _⟩ := bulk_auto_gen (fun u ms => addEdge u ms none [])
    (fun ms => ({ members := ms, idx := none, attr := [] } : EdgeItem))
    (fun u ms _ hms => addEdge_auto u ms hms) (complementEdges s) r1.1 i1.2 (by
      intro c hc hn; exact h.noNoneN ((hsubl c hc).subset hn))
  have i2 : Inv (bulk (fun u ms => addEdge u ms none []) r1.1 (complementEdges s)).1 :=
    bulk_inv Inv _ (fun s a hs => addEdge_inv hs a none []) _ i1
  generalize bulk (fun u ms => addEdge u ms none []) r1.1 (complementEdges s) = r2 at *
  simp only [u1] at c2
  generalize hI : autoItems 0 ((complementEdges s).map (fun ms => ({ members := ms, idx := none, attr := [] } : EdgeItem))) = I at *
  have ids : I.map (·.1) = (List.range (complementEdges s).length).map (fun j => PyId.int (j : Nat)) := by
    rw [← hI, autoItems_ids, List.range_eq_range']; simp
  have e2 : r2.1.edges = I.map (·.1) := by rw [c2.edges, e1]; rfl
  have n2 : r2.1.nodes = r1.1.nodes := c2.nodes_same (by
    intro it hit n hn
    rw [← hI] at hit
    have : it.2.1 ∈ (autoItems 0 ((complementEdges s).map (fun ms => ({ members := ms, idx := none, attr := [] } : EdgeItem)))).map (fun it => it.2.1) :=
      List.mem_map_of_mem (f := fun (it : Item) => it.2.1) hit
    rw [autoItems_map_snd (fun p => p.1)] at this
    simp only [List.map_map, List.mem_map, Function.comp] at this
    obtain ⟨c, hc, heq⟩ := this
    rw [← heq] at hn; simp only [mem_dedup] at hn
    rw [n1]; exact (hsubl c hc).subset hn)
  refine ⟨c1, by rw [n2, n1], by rw [e2, ids], ?_, by rw [c2.frozen, a2.frozen]; rfl, i2.1⟩
  rw [e2, c2.map_mem, ← hI, autoItems_map_snd (fun p => dedup p.1), List.map_map]
  conv => rhs; rw [← List.map_id (complementEdges s)]
  apply List.map_congr_left; intro c hc
  simp only [Function.comp, id_eq]
  have hnd : c.Nodup := (hsubl c hc).nodup h.nodupN
  rw [dedup_of_nodup (nodup_dedup _), dedup_of_nodup hnd]

/-- the null network has the null network as its complement -/
theorem complement_null {s : HG} (hn : s.nodes = []) : complement s = (HG.empty, .ok) := by
  unfold complement; simp [hn]

/-- the edges of the complement are exactly the absent node sets: every listed set is a non-empty set of
    nodes of at most the maximum edge size of `H` (1 when `H` has no edge) that is the member set of no edge
    of `H`; every such set is listed; and none is listed twice. -/
theorem complement_spec {s : HG} (h : WF s) :
    (∀ c ∈ complementEdges s, c.Sublist s.nodes ∧ 1 ≤ c.length ∧ c.length ≤ maxEdgeSize s ∧
        ∀ e ∈ s.edges, ¬ ∀ x, x ∈ s.mem e ↔ x ∈ c) ∧
    (∀ c : List PyId, c.Nodup → (∀ x ∈ c, x ∈ s.nodes) → 1 ≤ c.length → c.length ≤ maxEdgeSize s →
        (∀ e ∈ s.edges, ¬ ∀ x, x ∈ s.mem e ↔ x ∈ c) → ∃ c' ∈ complementEdges s, ∀ x, x ∈ c' ↔ x ∈ c) ∧
    (complementEdges s).Pairwise DiffSet := by
  refine ⟨?_, ?_, ?_⟩
  · intro c hc
    unfold complementEdges at hc
    obtain ⟨hc1, hc2⟩ := List.mem_filter.1 hc
    obtain ⟨p1, p2, p3⟩ := (powersetUpTo_mem _ _ _).1 hc1
    refine ⟨p1, p2, p3, ?_⟩
    intro e he hsame
    simp only [Bool.not_eq_eq_eq_not, Bool.not_true, List.any_eq_false] at hc2
    exact hc2 e he ((sameSet_iff _ _).2 hsame)
  · intro c hcn hcs h1 h2 habs
    obtain ⟨c', s1, s2, s3⟩ := exists_sublist_sameSet s.nodes c h.nodupN hcn hcs
    refine ⟨c', ?_, s2⟩
    unfold complementEdges
    rw [List.mem_filter]
    refine ⟨(powersetUpTo_mem _ _ _).2 ⟨s1, by omega, by omega⟩, ?_⟩
    simp only [Bool.not_eq_eq_eq_not, Bool.not_true, List.any_eq_false]
    intro e he hsame
    apply habs e he
    intro x; rw [(sameSet_iff _ _).1 hsame x]; exact s2 x
  · unfold complementEdges
    exact List.Pairwise.filter _ (powersetUpTo_pairwise _ _ h.nodupN)

/-- `max_edge_order(H) + 1`: the largest edge size (for a network with an edge) -/
theorem maxEdgeSize_spec (s : HG) (hne : s.edges ≠ []) :
    (∀ e ∈ s.edges, (s.mem e).length ≤ maxEdgeSize s) ∧ (maxEdgeSize s = 0 ∨ ∃ e ∈ s.edges, (s.mem e).length = maxEdgeSize s) := by
  unfold maxEdgeSize
  simp only [hne, if_false]
  refine ⟨fun e he => foldl_max_ge _ 0 _ (List.mem_map.2 ⟨e, he, rfl⟩), ?_⟩
  rcases foldl_max_mem (s.edges.map (fun e => (s.mem e).length)) 0 with h | h
  · exact Or.inl h
  · obtain ⟨e, he, heq⟩ := List.mem_map.1 h
    exact Or.inr ⟨e, he, heq⟩

/-! ### largest_connected_hypergraph(in_place=False) -/

/-- `largest_connected_hypergraph(H)` for a network with at least one node: `c`, the component chosen, is
    the first of maximal size in `connected_components(H)` — a reachability class; the result is the sub-network
    induced on `c` (its nodes in the order of `H`, every edge of `H` lying inside `c`, members and attributes
    kept), not frozen, and it is connected: `connected_components` of the result has exactly one element. -/
theorem lch_spec {s : HG} (h : WF s) (ha : AttrWF s) {c : List PyId} (hc : largestComponent s = some c) :
    (∃ pre post, components s = pre ++ c :: post ∧ (∀ p ∈ pre, p.length < c.length) ∧
        ∀ p ∈ post, p.length ≤ c.length) ∧
    (lch s).2 = .ok ∧
    (lch s).1.nodes = s.nodes.filter (· ∈ c) ∧
    (lch s).1.edges = s.edges.filter (fun e => (s.mem e).all (· ∈ c)) ∧
    (∀ e ∈ (lch s).1.edges, (lch s).1.mem e = s.mem e) ∧
    (∀ n ∈ (lch s).1.nodes, (lch s).1.nattr n = s.nattr n) ∧
    (∀ e ∈ (lch s).1.edges, (lch s).1.eattr e = s.eattr e) ∧
    (lch s).1.net = s.net ∧ (lch s).1.frozen = false ∧ WF (lch s).1 ∧
    (∃ v ∈ s.nodes, ∀ x, x ∈ c ↔ Reach s v x) ∧ Connected (lch s).1 ∧ (components (lch s).1).length = 1 := by
  refine ⟨largestComponent_spec hc, ?_⟩
  obtain ⟨pre0, post0, hcomp0, _, _⟩ := largestComponent_spec hc
  obtain ⟨v0, hv0, hcv0⟩ := components_mem c (by rw [hcomp0]; simp)
  unfold lch largestOrEmpty
  rw [hc]; simp only [Option.getD_some]
  obtain ⟨v1, v2, v3, v4, v5, v6, v7, _, v9⟩ := subhypergraph_spec h ha (some c) none
  rw [andThen_of_ok _ _ v1]
  generalize (subhypergraph s (some c) none true).1 = v at *
  have hav : AttrWF v := by
    constructor
    · intro n hn; rw [v5 n hn]; rw [v2] at hn; exact ha.nattr n (List.mem_filter.1 hn).1
    · intro e he; rw [v6 e he]; rw [v3] at he; exact ha.eattr e (List.mem_filter.1 he).1
    · rw [v7]; exact ha.net
  obtain ⟨k1, k2, k3, _, k5⟩ := copy_fields v9 hav
  generalize (copy v).1 = r at *
  have hn : v.nodes = s.nodes.filter (· ∈ c) := by
    rw [v2]; apply List.filter_congr; intro x hx
    simp [selected, hx]
  have he : v.edges = s.edges.filter (fun e => (s.mem e).all (· ∈ c)) := by
    rw [v3]; apply List.filter_congr; intro e he
    simp only [keptEdge, selected, he, decide_true, Bool.true_and]
    rw [Bool.eq_iff_iff]
    simp only [List.all_eq_true, decide_eq_true_eq, selected_iff, requested]
    exact ⟨fun hh x hx => (hh x hx).2, fun hh x hx => ⟨(h.e2n e he x hx).1, hh x hx⟩⟩
  have hmem : ∀ e ∈ r.edges, r.mem e = s.mem e := by
    intro e hee; rw [k2.edges] at hee; rw [k2.mem e hee, v4 e hee]
  have hcon : Connected r := by
    apply induced_connected h hv0
    · intro x hx; rw [k2.nodes, hn] at hx; rw [← hcv0]; simpa using (List.mem_filter.1 hx).2
    · intro e hes hall
      have : e ∈ r.edges := by
        rw [k2.edges, he, List.mem_filter]; refine ⟨hes, ?_⟩
        rw [List.all_eq_true]; intro x hx; rw [hcv0]; simpa using hall x hx
      exact ⟨this, hmem e this⟩
  refine ⟨k1, by rw [k2.nodes, hn], by rw [k2.edges, he], hmem, ?_, ?_, by rw [k2.net, v7], k3, k5,
    ⟨v0, hv0, fun x => by rw [hcv0]; exact plainBfs_spec h hv0 x⟩, hcon, ?_⟩
  · intro n hnn; rw [k2.nodes] at hnn; rw [k2.nattr n hnn, v5 n hnn]
  · intro e hee; rw [k2.edges] at hee; rw [k2.eattr e hee, v6 e hee]
  · apply (components_of_connected k5 hcon).2.1
    rw [k2.nodes, hn]
    intro hnil
    have : v0 ∈ s.nodes.filter (· ∈ c) := by
      rw [List.mem_filter]; exact ⟨hv0, by rw [hcv0]; simpa using (plainBfs_closed h hv0).1⟩
    rw [hnil] at this; cases this

/-! ### convert_labels_to_integers -/

/-- `convert_labels_to_integers(H, label_attribute, in_place=True)` on an unfrozen network is an isomorphism
    onto integer labels that records the old ones: with `φ = pos H.nodes`, `ψ = pos H.edges` (the position of
    an ID in the node / edge order),
    * the new node and edge IDs are exactly 0..n-1 and 0..m-1, in order, and are the images under `φ`, `ψ`;
    * `φ` and `ψ` are injective (hence bijections onto the new IDs);
    * incidence is preserved: the members of `ψ e` are the `φ`-images of the members of `e`;
    * every attribute is carried along, except that `label_attribute` now holds the old ID;
    * the network attributes are untouched and the result is well formed. -/
theorem relabel_iso {s : HG} (hi : Inv s) (ha : AttrWF s) (hf : s.frozen = false) (labelAttr : String) :
    (relabel s labelAttr).2 = .ok ∧
    (relabel s labelAttr).1.nodes = (List.range s.nodes.length).map (fun j => PyId.int (j : Nat)) ∧
    (relabel s labelAttr).1.edges = (List.range s.edges.length).map (fun j => PyId.int (j : Nat)) ∧
    (relabel s labelAttr).1.nodes = s.nodes.map (pos s.nodes) ∧
    (relabel s labelAttr).1.edges = s.edges.map (pos s.edges) ∧
    (∀ x ∈ s.nodes, ∀ y ∈ s.nodes, pos s.nodes x = pos s.nodes y → x = y) ∧
    (∀ x ∈ s.edges, ∀ y ∈ s.edges, pos s.edges x = pos s.edges y → x = y) ∧
    (∀ e ∈ s.edges, (relabel s labelAttr).1.mem (pos s.edges e) = (s.mem e).map (pos s.nodes)) ∧
    (∀ e ∈ s.edges, ∀ n ∈ s.nodes, pos s.nodes n ∈ (relabel s labelAttr).1.mem (pos s.edges e) ↔ n ∈ s.mem e) ∧
    (∀ n ∈ s.nodes, (relabel s labelAttr).1.nattr (pos s.nodes n) = (s.nattr n).set labelAttr (relabel.idVal n)) ∧
    (∀ e ∈ s.edges, (relabel s labelAttr).1.eattr (pos s.edges e) = (s.eattr e).set labelAttr (relabel.idVal e)) ∧
    (relabel s labelAttr).1.net = s.net ∧ WF (relabel s labelAttr).1 := by
  obtain ⟨r1, r2⟩ := relabel_fields hi hf labelAttr
  have h := hi.1
  generalize (relabel s labelAttr).1 = r at *
  refine ⟨r1, by rw [r2.nodes, map_pos _ h.nodupN], by rw [r2.edges, map_pos _ h.nodupE], r2.nodes, r2.edges,
    fun x hx y hy => pos_inj _ h.nodupN hx hy, fun x hx y hy => pos_inj _ h.nodupE hx hy, r2.mem, ?_, r2.nattr ha,
    r2.eattr ha, r2.net, r2.inv.1⟩
  intro e he n hn
  rw [r2.mem e he, List.mem_map]
  constructor
  · rintro ⟨m, hm, heq⟩
    have := pos_inj _ h.nodupN (h.e2n e he m hm).1 hn heq
    rw [← this]; exact hm
  · intro hm; exact ⟨n, hm, rfl⟩

/-- the old label can be read back under `label_attribute`; every other attribute is unchanged -/
theorem relabel_records_old_labels {s : HG} (hi : Inv s) (ha : AttrWF s) (hf : s.frozen = false) (labelAttr : String) :
    (∀ n ∈ s.nodes, ((relabel s labelAttr).1.nattr (pos s.nodes n)).get? labelAttr = some (relabel.idVal n)) ∧
    (∀ e ∈ s.edges, ((relabel s labelAttr).1.eattr (pos s.edges e)).get? labelAttr = some (relabel.idVal e)) ∧
    (∀ n ∈ s.nodes, ∀ k, k ≠ labelAttr → ((relabel s labelAttr).1.nattr (pos s.nodes n)).get? k = (s.nattr n).get? k) ∧
    (∀ e ∈ s.edges, ∀ k, k ≠ labelAttr → ((relabel s labelAttr).1.eattr (pos s.edges e)).get? k = (s.eattr e).get? k) := by
  obtain ⟨_, r2⟩ := relabel_fields hi hf labelAttr
  refine ⟨?_, ?_, ?_, ?_⟩
  · intro n hn; rw [r2.nattr ha n hn]; exact get?_set_self _ _ _
  · intro e he; rw [r2.eattr ha e he]; exact get?_set_self _ _ _
  · intro n hn k hk; rw [r2.nattr ha n hn]; exact get?_set_other _ _ _ _ hk
  · intro e he k hk; rw [r2.eattr ha e he]; exact get?_set_other _ _ _ _ hk

/-- different IDs are recorded as different labels -/
theorem idVal_injective (x y : PyId) (h : relabel.idVal x = relabel.idVal y)
    (hx : ∀ l, x ≠ .tup l) (hy : ∀ l, y ≠ .tup l) : x = y := by
  cases x with
  | atom a => cases y with
    | atom b => cases a <;> cases b <;> simp_all [relabel.idVal]
    | tup l => exact absurd rfl (hy l)
    | none => cases a <;> simp [relabel.idVal] at h
  | tup l => exact absurd rfl (hx l)
  | none => cases y with
    | atom b => cases b <;> simp [relabel.idVal] at h
    | tup l => exact absurd rfl (hy l)
    | none => rfl

/-- a frozen network is refused -/
theorem relabel_frozen {s : HG} (hf : s.frozen = true) (labelAttr : String) :
    relabel s labelAttr = (s, .err .lib) := by
  unfold relabel; simp [hf]

/-! ### cleanup

  `cleanup'` is `Hypergraph.cleanup(in_place=True)` (definitionally the pipeline of `HG.cleanup`); flags in the
  order of the Python signature: `isolates singletons multiedges connected relabel`, `true` = allowed /
  requested.  All statements are for an unfrozen network satisfying the invariant of C01 (`Live`).
  `cleanup_outcome` says what a run can do: return `ok` (never a warning), or — only with `multiedges=False` —
  raise the `TypeError` of `sorted` on a class of repeated edges whose IDs are not mutually comparable, with
  nothing changed.  The post-condition theorems below take a run that does not raise; `cleanup_post_no_multiedges`
  and `cleanup_type_error_iff` state both branches. -/

/-- `isolates=False`: no isolated node is left — for every setting of the other four flags -/
theorem cleanup_post_no_isolates {s : HG} (hs : Live s) (b c d e : Bool) (r : HG × Outcome)
    (hr : cleanup' s false b c d e = some r) (hne : r.2.isErr = false) : NoIso r.1 := by
  obtain ⟨p0, _, _, hl0, h1, _⟩ := cleanup_chain hs false b c d e r hr hne
  obtain ⟨_, s2, _⟩ := stepS_spec b hl0
  obtain ⟨_, i2, i3, _⟩ := stepI_spec false s2
  obtain ⟨_, c2, c3, _⟩ := stepC_spec d i2
  obtain ⟨_, _, _, r4, _⟩ := stepR_spec e c2
  rw [h1]; exact r4 (c3 (i3 rfl))

/-- `singletons=False`: no edge with exactly one member is left — for every setting of the other four flags -/
theorem cleanup_post_no_singletons {s : HG} (hs : Live s) (a c d e : Bool) (r : HG × Outcome)
    (hr : cleanup' s a false c d e = some r) (hne : r.2.isErr = false) : NoSing r.1 := by
  obtain ⟨p0, _, _, hl0, h1, _⟩ := cleanup_chain hs a false c d e r hr hne
  obtain ⟨_, s2, s3, _⟩ := stepS_spec false hl0
  obtain ⟨_, i2, _, i4, _⟩ := stepI_spec a s2
  obtain ⟨_, c2, _, c4, _⟩ := stepC_spec d i2
  obtain ⟨_, _, r3, _⟩ := stepR_spec e c2
  rw [h1]; exact r3 (c4.noSing (i4.noSing (s3 rfl)))

/-- every run of `cleanup` on an unfrozen well-formed network, whatever the five flags: the call is inside the
    model and has one of two outcomes.  Either it returns without any warning (the `union` warning of
    `merge_duplicate_edges` belongs to `merge_rule="union"`, which `cleanup` does not use) and the result is the
    relabelling (if requested) of a network `t` that arises from the input only by deleting nodes and edges
    and, with `multiedges=False`, merging classes of repeated edges (`DeletedMerged`); or — only with
    `multiedges=False` — `sorted` raises `TypeError` on a class of repeated edges whose IDs are not all of one
    sortable kind, before anything was changed. -/
theorem cleanup_outcome {s : HG} (hs : Live s) (a b c d e : Bool) :
    ∃ r, cleanup' s a b c d e = some r ∧
      ((r.2 = .ok ∧ ∃ t, DeletedMerged s t (!c) ∧ Live t ∧
          (e = false → r.1 = t) ∧ (e = true → Relabelled t r.1 "label")) ∨
       (c = false ∧ r = (s, .err .typeError) ∧
          ∃ x ∈ s.edges, 1 < (dupsOf s x).length ∧ sortedIds (dupsOf s x) = none)) := by
  obtain ⟨r, hr, h⟩ := cleanup_total hs a b c d e
  refine ⟨r, hr, ?_⟩
  rcases h with ⟨hok, t, hdm, hl, hrt, _⟩ | h
  · left
    obtain ⟨_, _, _, _, _, r6, r7⟩ := stepR_spec e hl
    exact ⟨hok, t, hdm, hl, fun he => by rw [hrt, r7 he], fun he => by rw [hrt]; exact r6 he⟩
  · exact Or.inr h

/-- `multiedges=False`, for every setting of the other four flags and without assuming anything about the
    outcome: the call either returns `ok` and no two edges with the same member set are left, or it raises
    `TypeError` — exactly when some class of repeated edges has IDs that Python's `sorted` cannot order —
    and then the network is untouched. -/
theorem cleanup_post_no_multiedges {s : HG} (hs : Live s) (a b d e : Bool) :
    ∃ r, cleanup' s a b false d e = some r ∧
      ((r.2 = .ok ∧ NoMulti r.1) ∨
       (r = (s, .err .typeError) ∧
          ∃ x ∈ s.edges, 1 < (dupsOf s x).length ∧ sortedIds (dupsOf s x) = none)) := by
  obtain ⟨r, hr, h⟩ := cleanup_total hs a b false d e
  refine ⟨r, hr, ?_⟩
  rcases h with ⟨hok, t, _, hl, hrt, hnm⟩ | ⟨_, h⟩
  · left
    obtain ⟨_, _, _, _, r5, _⟩ := stepR_spec e hl
    exact ⟨hok, by rw [hrt]; exact r5 (hnm rfl)⟩
  · exact Or.inr h

/-- the two branches exclude each other: the `TypeError` occurs exactly when some class of repeated edges has
    unsortable IDs (and `sortedIds_unsortable_iff` says what that means) -/
theorem cleanup_type_error_iff {s : HG} (hs : Live s) (a b d e : Bool) :
    (∃ m, cleanup' s a b false d e = some (m, .err .typeError)) ↔
      ∃ x ∈ s.edges, 1 < (dupsOf s x).length ∧ sortedIds (dupsOf s x) = none := by
  obtain ⟨r, hr, h⟩ := cleanup_total hs a b false d e
  constructor
  · rintro ⟨m, hm⟩
    rw [hm] at hr; simp only [Option.some.injEq] at hr
    rcases h with ⟨hok, _⟩ | ⟨_, _, hx⟩
    · rw [← hr] at hok; cases hok
    · exact hx
  · intro hx
    rcases h with ⟨hok, t, hdm, _, _, _⟩ | ⟨_, hre, _⟩
    · -- the merge succeeded, so every class was sortable
      exfalso
      obtain ⟨x, hxe, hlen, hnone⟩ := hx
      rcases merge_total hs with ⟨m, hm, hM⟩ | ⟨hm, _⟩
      · obtain ⟨y, hy, hym⟩ := hM.covers_all x hxe
        have hyd := (hM.edges y).1 hy
        have : dupsOf s y = dupsOf s x := dupsOf_congr hym
        rw [this] at hyd
        have h2 := hyd.2
        unfold firstSorted at h2
        rw [hnone] at h2; cases h2
      · rw [cleanup'_eq] at hr
        simp only [Bool.false_eq_true, if_false, hm, Option.map_some, Option.some.injEq] at hr
        rw [andThen_err (s, .err .typeError) _ rfl, andThen_err (s, .err .typeError) _ rfl,
          andThen_err (s, .err .typeError) _ rfl, andThen_err (s, .err .typeError) _ rfl] at hr
        rw [← hr] at hok; cases hok
    · exact ⟨s, by rw [hr, hre]⟩

/-- when Python's `sorted` raises on a list of IDs: at least two of them, not all of one sortable kind
    (ints, strings, tuples of ints, tuples of strings) -/
theorem sortedIds_unsortable_iff (l : List PyId) :
    sortedIds l = none ↔ 1 < l.length ∧ ¬ ∃ c, goodClass c ∧ ∀ y ∈ l, idClass y = c :=
  sortedIds_eq_none_iff l

/-- the representative the merge keeps (`rename="first"`): the first of `sorted(IDs of the class)` is an ID of
    the class than which none of the class is smaller -/
theorem merge_representative_min {g : List PyId} {x : PyId} (h : firstSorted g = some x) :
    x ∈ g ∧ ∀ y ∈ g, idLt y x = false := firstSorted_min h

/-- `merge_duplicate_edges()` with the defaults, by itself: it raises `TypeError` and changes nothing, or returns
    `ok` a network with the same nodes, node attributes and network attributes in which exactly one edge of
    every class of edges with equal member sets survives — the one with the smallest ID, under that ID, with its
    member set and (merge rule "first") its own attributes; unrepeated edges keep their place and member lists -/
theorem merge_duplicate_edges_spec {s : HG} (hs : Live s) :
    (∃ m, mergeDuplicateEdges s .first .first none = some (m, .ok) ∧ Merged s m ∧ NoMulti m ∧
        ∀ x ∈ s.edges, ∃ y ∈ m.edges, ∀ z, z ∈ s.mem y ↔ z ∈ s.mem x) ∨
    (mergeDuplicateEdges s .first .first none = some (s, .err .typeError) ∧
      ∃ x ∈ s.edges, 1 < (dupsOf s x).length ∧ sortedIds (dupsOf s x) = none) := by
  rcases merge_total hs with ⟨m, hm, hM⟩ | h
  · exact Or.inl ⟨m, hm, hM, hM.noMulti, hM.covers_all⟩
  · exact Or.inr h

/-- `relabel=True`: the node and edge labels are exactly 0..n-1 and 0..m-1, in order — for every setting of
    the other four flags -/
theorem cleanup_post_labels {s : HG} (hs : Live s) (a b c d : Bool) (r : HG × Outcome)
    (hr : cleanup' s a b c d true = some r) (hne : r.2.isErr = false) :
    r.1.nodes = (List.range r.1.nodes.length).map (fun j => PyId.int (j : Nat)) ∧
    r.1.edges = (List.range r.1.edges.length).map (fun j => PyId.int (j : Nat)) := by
  obtain ⟨p0, _, _, hl0, h1, _⟩ := cleanup_chain hs a b c d true r hr hne
  obtain ⟨_, s2, _⟩ := stepS_spec b hl0
  obtain ⟨_, i2, _⟩ := stepI_spec a s2
  obtain ⟨_, c2, _⟩ := stepC_spec d i2
  obtain ⟨_, _, _, _, _, r6, _⟩ := stepR_spec true c2
  have rl := r6 rfl
  have hw := c2.1.1
  rw [h1]
  generalize (stepC d (stepI a (stepS b p0.1).1).1).1 = t at *
  generalize (stepR true t).1 = u at *
  constructor
  · rw [rl.nodes, map_pos _ hw.nodupN]; simp
  · rw [rl.edges, map_pos _ hw.nodupE]; simp

/-- `_plain_bfs(H, v)` is exactly the set of nodes joined to `v` by a chain of edges (`Reach` = reflexive
    transitive closure of "lie in a common edge"); the fuel `len(nodes) + 1` of the model's level loop suffices -/
theorem bfs_spec {s : HG} (h : WF s) {v : PyId} (hv : v ∈ s.nodes) (x : PyId) :
    x ∈ plainBfs s v ↔ Reach s v x := plainBfs_spec h hv x

/-- `connected_components(H)` is the partition of the nodes into reachability classes -/
theorem components_spec {s : HG} (h : WF s) :
    (∀ c ∈ components s, ∃ v ∈ s.nodes, ∀ x, x ∈ c ↔ Reach s v x) ∧
    (components s).Pairwise (fun c c' => ∀ x ∈ c, x ∉ c') ∧
    (∀ v ∈ s.nodes, ∃ c ∈ components s, v ∈ c) := components_partition h

/-- "connected" in the sense of `connected_components`: at most one component, iff every two nodes are joined
    by a chain of edges -/
theorem connected_iff_single_component {s : HG} (h : WF s) : Connected s ↔ (components s).length ≤ 1 :=
  ⟨fun hc => (components_of_connected h hc).1, connected_of_components h⟩

/-- `connected=True`, at full strength and for every setting of the other four flags: the result is connected —
    every two of its nodes are joined by a chain of its edges, `connected_components` of the result has at most
    one element, exactly one when a node is left, and that component is the whole node set. -/
theorem cleanup_post_connected {s : HG} (hs : Live s) (a b c e : Bool) (r : HG × Outcome)
    (hr : cleanup' s a b c true e = some r) (hne : r.2.isErr = false) :
    Connected r.1 ∧ (components r.1).length ≤ 1 ∧ (r.1.nodes ≠ [] → (components r.1).length = 1) ∧
    ∀ comp ∈ components r.1, ∀ x, x ∈ comp ↔ x ∈ r.1.nodes := by
  obtain ⟨hc, hw⟩ := cleanup_connected hs a b c e r hr hne
  exact ⟨hc, components_of_connected hw hc⟩

/-- which connected piece is kept: the node set chosen by `max(connected_components(…), key=len)` on the
    network `t` after the first three steps — the first reachability class of maximal size (nothing on the null
    network) — together with every edge of `t` lying inside it; nothing else is touched by this step. -/
theorem cleanup_connected_step_spec {s : HG} (hs : Live s) (a b c : Bool) (r : HG × Outcome)
    (hr : cleanup' s a b c true false = some r) (hne : r.2.isErr = false) :
    ∃ t : HG, Live t ∧ EdgeClosed t (largestOrEmpty t) ∧
      ((largestOrEmpty t = [] ∧ t.nodes = []) ∨
        (∃ pre post, components t = pre ++ largestOrEmpty t :: post ∧
          (∀ p ∈ pre, p.length < (largestOrEmpty t).length) ∧ ∀ p ∈ post, p.length ≤ (largestOrEmpty t).length)) ∧
      r.1.nodes = t.nodes.filter (· ∈ largestOrEmpty t) ∧
      r.1.edges = t.edges.filter (fun e => (t.mem e).all (· ∈ largestOrEmpty t)) ∧
      (∀ e ∈ r.1.edges, r.1.mem e = t.mem e) := by
  obtain ⟨p0, _, _, hl0, h1, _⟩ := cleanup_chain hs a b c true false r hr hne
  obtain ⟨_, s2, _⟩ := stepS_spec b hl0
  obtain ⟨_, i2, _⟩ := stepI_spec a s2
  obtain ⟨_, _, _, c4, c5⟩ := stepC_spec true i2
  have hR : (stepR false (stepC true (stepI a (stepS b p0.1).1).1).1).1 = (stepC true (stepI a (stepS b p0.1).1).1).1 := rfl
  rw [hR] at h1
  generalize (stepI a (stepS b p0.1).1).1 = t at *
  refine ⟨t, i2, ?_, ?_, by rw [h1]; exact (c5 rfl).1, by rw [h1]; exact (c5 rfl).2, by rw [h1]; exact c4.mem⟩
  · unfold largestOrEmpty
    cases hc : largestComponent t with
    | none => exact edgeClosed_nil t
    | some c => exact (largestComponent_closed i2.1.1 hc).1
  · unfold largestOrEmpty
    cases hc : largestComponent t with
    | none => exact Or.inl ⟨rfl, largestComponent_none hc⟩
    | some c => exact Or.inr (largestComponent_spec hc)

/-- "only by deleting or merging", for every flag setting, with the duplicate merge and with the relabelling:
    a run that does not raise returns `ok`, and its result is `t` itself (`relabel=False`) or the integer
    relabelling of `t` (`relabel=True`: `Relabelled`, the isomorphism of `relabel_iso` that stores every old ID
    under "label"), where `t` arises from the input only by deletions and the merge (`DeletedMerged`): every
    surviving node is an original node with its attributes, in the original order; every surviving edge is an
    original edge under its own ID with exactly its member set and its attributes; with `multiedges=True` the
    edges also keep their order and member lists; with `multiedges=False` a surviving edge is the
    representative `merge_duplicate_edges` keeps — the smallest ID of its class of edges with equal member
    sets (`merge_representative_min`), carrying that edge's own attributes (merge rule "first"). -/
theorem cleanup_only_deletes_or_merges {s : HG} (hs : Live s) (a b c d e : Bool) (r : HG × Outcome)
    (hr : cleanup' s a b c d e = some r) (hne : r.2.isErr = false) :
    r.2 = .ok ∧ ∃ t, DeletedMerged s t (!c) ∧ Live t ∧
      (e = false → r.1 = t) ∧ (e = true → Relabelled t r.1 "label") := by
  obtain ⟨r', hr', h⟩ := cleanup_outcome hs a b c d e
  rw [hr] at hr'; simp only [Option.some.injEq] at hr'; subst hr'
  rcases h with h | ⟨_, hre, _⟩
  · exact h
  · rw [hre] at hne; cases hne

/-- exactly what `cleanup` removes — nothing but what the requested guarantees exclude.  A run that does not
    raise passes through the networks `m` (after the merge: the input itself with `multiedges=True`, else
    `Merged`: one edge per class of equal member sets), `t1` (`singletons=False`: exactly the one-member edges
    go), `t2` (`isolates=False`: exactly the nodes in no remaining edge go), `t3` (`connected=True`: exactly the
    nodes outside the first largest reachability class of `t2` go, and with them exactly the edges not inside
    it), each a sub-network of the previous one with members and attributes untouched (`SubNet`), and returns
    `t3` or its integer relabelling. -/
theorem cleanup_exact {s : HG} (hs : Live s) (a b c d e : Bool) (r : HG × Outcome)
    (hr : cleanup' s a b c d e = some r) (hne : r.2.isErr = false) :
    ∃ m t1 t2 t3 : HG,
      ((c = true ∧ m = s) ∨ (c = false ∧ Merged s m)) ∧
      SubNet m t1 ∧ t1.nodes = m.nodes ∧
        t1.edges = m.edges.filter (fun x => b || decide ((m.mem x).length ≠ 1)) ∧
      SubNet t1 t2 ∧ t2.edges = t1.edges ∧
        t2.nodes = t1.nodes.filter (fun n => a || t1.edges.any (fun x => decide (n ∈ t1.mem x))) ∧
      SubNet t2 t3 ∧ t3.nodes = t2.nodes.filter (fun n => !d || decide (n ∈ largestOrEmpty t2)) ∧
        t3.edges = t2.edges.filter (fun x => !d || (t2.mem x).all (· ∈ largestOrEmpty t2)) ∧
        ((t2.nodes = [] ∧ largestOrEmpty t2 = []) ∨
          ((∃ v ∈ t2.nodes, ∀ x, x ∈ largestOrEmpty t2 ↔ Reach t2 v x) ∧
            ∃ pre post, components t2 = pre ++ largestOrEmpty t2 :: post ∧
              (∀ p ∈ pre, p.length < (largestOrEmpty t2).length) ∧
              ∀ p ∈ post, p.length ≤ (largestOrEmpty t2).length)) ∧
      Live t3 ∧ (e = false → r.1 = t3) ∧ (e = true → Relabelled t3 r.1 "label") := by
  obtain ⟨p0, hp0, herr, hl0, h1, _⟩ := cleanup_chain hs a b c d e r hr hne
  have hm : (c = true ∧ p0.1 = s) ∨ (c = false ∧ Merged s p0.1) := by
    cases c with
    | true => simp only [if_true, Option.some.injEq] at hp0; rw [← hp0]; exact Or.inl ⟨rfl, rfl⟩
    | false =>
      simp only [Bool.false_eq_true, if_false] at hp0
      rcases merge_total hs with ⟨m, hmm, hM⟩ | ⟨hmm, _⟩
      · rw [hmm] at hp0; simp only [Option.some.injEq] at hp0; rw [← hp0]; exact Or.inr ⟨rfl, hM⟩
      · rw [hmm] at hp0; simp only [Option.some.injEq] at hp0; rw [← hp0] at herr; cases herr
  obtain ⟨_, s2, _, s4, _⟩ := stepS_spec b hl0
  obtain ⟨se1, se2⟩ := stepS_exact b hl0
  obtain ⟨_, i2, _, i4, _⟩ := stepI_spec a s2
  obtain ⟨ie1, ie2⟩ := stepI_exact a s2
  obtain ⟨_, c2, _, c4, _⟩ := stepC_spec d i2
  obtain ⟨ce1, ce2⟩ := stepC_exact d i2
  obtain ⟨_, _, _, _, _, r6, r7⟩ := stepR_spec e c2
  exact ⟨p0.1, _, _, _, hm, s4, se1, se2, i4, ie1, ie2, c4, ce1, ce2, largestOrEmpty_spec i2.1.1, c2,
    fun he => by rw [h1, r7 he], fun he => by rw [h1]; exact r6 he⟩

/-- spelled out for `relabel=True`: every node `i` of the result is position `i` of a surviving original node
    `n` (its old ID readable under "label", its other attributes those of `n`), and every edge `j` of the result
    is position `j` of a surviving original edge `x`, whose members are exactly the positions of the members
    of `x` in the original network -/
theorem cleanup_relabelled_survivors {s : HG} (hs : Live s) (ha : AttrWF s) (a b c d : Bool) (r : HG × Outcome)
    (hr : cleanup' s a b c d true = some r) (hne : r.2.isErr = false) :
    ∃ t, DeletedMerged s t (!c) ∧
      r.1.nodes = t.nodes.map (pos t.nodes) ∧ r.1.edges = t.edges.map (pos t.edges) ∧
      (∀ n ∈ t.nodes, n ∈ s.nodes ∧
        r.1.nattr (pos t.nodes n) = (s.nattr n).set "label" (relabel.idVal n)) ∧
      (∀ x ∈ t.edges, x ∈ s.edges ∧
        (∀ z, z ∈ t.nodes → (pos t.nodes z ∈ r.1.mem (pos t.edges x) ↔ z ∈ s.mem x)) ∧
        (∀ z ∈ s.mem x, z ∈ t.nodes) ∧
        (r.1.mem (pos t.edges x)).length = (s.mem x).length ∧
        r.1.eattr (pos t.edges x) = (s.eattr x).set "label" (relabel.idVal x)) := by
  obtain ⟨_, t, hdm, hl, _, hrel⟩ := cleanup_only_deletes_or_merges hs a b c d true r hr hne
  have hrel := hrel rfl
  have hw := hl.1.1
  have hat : AttrWF t := by
    constructor
    · intro n hn; rw [hdm.nattr n hn]; exact ha.nattr n (hdm.nodes.subset hn)
    · intro x hx; rw [hdm.eattr ha x hx]; exact ha.eattr x (hdm.edges x hx)
    · rw [hdm.net]; exact ha.net
  refine ⟨t, hdm, hrel.nodes, hrel.edges, ?_, ?_⟩
  · intro n hn
    exact ⟨hdm.nodes.subset hn, by rw [hrel.nattr hat n hn, hdm.nattr n hn]⟩
  · intro x hx
    refine ⟨hdm.edges x hx, ?_, ?_, ?_, by rw [hrel.eattr hat x hx, hdm.eattr ha x hx]⟩
    · intro z hz
      rw [hrel.mem x hx, List.mem_map, ← hdm.mem x hx z]
      constructor
      · rintro ⟨y, hy, heq⟩
        have := pos_inj _ hw.nodupN (hw.e2n x hx y hy).1 hz heq
        rw [← this]; exact hy
      · intro hz'; exact ⟨z, hz', rfl⟩
    · intro z hz; exact (hw.e2n x hx z ((hdm.mem x hx z).2 hz)).1
    · rw [hrel.mem x hx, List.length_map]
      -- equal sets, both duplicate-free
      have n1 := hw.setE x hx
      have n2 := hs.1.1.setE x (hdm.edges x hx)
      apply Nat.le_antisymm
      · exact List.Nodup.length_le_of_subset n1 (fun z hz => (hdm.mem x hx z).1 hz)
      · exact List.Nodup.length_le_of_subset n2 (fun z hz => (hdm.mem x hx z).2 hz)

/-- "only by deleting": without the merge and the relabelling, the result is a sub-network of the input — a
    sub-list of its nodes and of its edges, every surviving edge with exactly its members and attributes, every
    surviving node with its attributes, the network attributes untouched -/
theorem cleanup_only_deletes {s : HG} (hs : Live s) (a b d : Bool) (r : HG × Outcome)
    (hr : cleanup' s a b true d false = some r) : r.2 = .ok ∧ SubNet s r.1 := by
  have hne : r.2.isErr = false := by
    rw [cleanup'_eq] at hr
    simp only [if_true, Option.map_some, Option.some.injEq] at hr
    obtain ⟨s1, s2, _⟩ := stepS_spec b hs
    rw [andThen_noerr (s, .ok) (stepS b) rfl s1] at hr
    obtain ⟨i1, i2, _⟩ := stepI_spec a s2
    rw [andThen_noerr ((stepS b s).1, .ok) (stepI a) rfl i1] at hr
    obtain ⟨c1, c2, _⟩ := stepC_spec d i2
    rw [andThen_noerr ((stepI a (stepS b s).1).1, .ok) (stepC d) rfl c1] at hr
    obtain ⟨r1, _⟩ := stepR_spec false c2
    rw [andThen_noerr ((stepC d (stepI a (stepS b s).1).1).1, .ok) (stepR false) rfl r1] at hr
    rw [← hr]; rfl
  obtain ⟨p0, hp0, _, _, h1, h2⟩ := cleanup_chain hs a b true d false r hr hne
  simp only [if_true, Option.some.injEq] at hp0
  subst hp0
  obtain ⟨_, s2, _, s4, _⟩ := stepS_spec b hs
  obtain ⟨_, i2, _, i4, _⟩ := stepI_spec a s2
  obtain ⟨_, _, _, c4, _⟩ := stepC_spec d i2
  refine ⟨h2, ?_⟩
  have hR : (stepR false (stepC d (stepI a (stepS b s).1).1).1).1 = (stepC d (stepI a (stepS b s).1).1).1 := rfl
  rw [h1, hR]
  exact (s4.trans i4).trans c4

/-- exactly what is removed by the singleton and isolates steps (no merge, no component step): the edges with
    one member, then the nodes that are then in no edge -/
theorem cleanup_exact_singletons_isolates {s : HG} (hs : Live s) (r : HG × Outcome)
    (hr : cleanup' s false false true false false = some r) :
    r.1.edges = s.edges.filter (fun e => decide ((s.mem e).length ≠ 1)) ∧
    r.1.nodes = s.nodes.filter (fun n => decide (r.1.memb n ≠ [])) := by
  obtain ⟨hok, _⟩ := cleanup_only_deletes hs false false false r hr
  obtain ⟨p0, hp0, _, _, h1, _⟩ := cleanup_chain hs false false true false false r hr (by rw [hok]; rfl)
  simp only [if_true, Option.some.injEq] at hp0
  subst hp0
  obtain ⟨_, s2, _, s4, s5⟩ := stepS_spec false hs
  obtain ⟨_, _, _, _, i5, i6⟩ := stepI_spec false s2
  have hR : (stepR false (stepC false (stepI false (stepS false s).1).1).1).1 = (stepI false (stepS false s).1).1 := rfl
  rw [h1, hR]
  have g := stageI_spec s2
  have hmemb : (stepI false (stepS false s).1).1.memb = (stepS false s).1.memb := by
    have hs' : stepI false (stepS false s).1 = guardF (stepS false s).1 (removeNodesFrom (stepS false s).1 (isolates (stepS false s).1) false true) := rfl
    rw [hs', guardF_live _ _ s2.2]
    exact (removeIsolated_spec (isolates (stepS false s).1) (stepS false s).1 (nodup_filter _ s2.1.1.nodupN) (by
      intro n hn
      simp only [isolates, List.mem_filter, decide_eq_true_eq, List.length_eq_zero_iff] at hn
      exact hn)).2.2.2.2.1
  refine ⟨by rw [i5, s5 rfl], ?_⟩
  rw [i6 rfl, hmemb]
  have hn : (stepS false s).1.nodes = s.nodes := by
    have := s4.nodes
    have hs' : stepS false s = guardF s (removeEdgesFrom s (singletons s)) := rfl
    rw [hs']; exact (stageS_spec hs).2.2.2.1.nodes
  rw [hn]

/-- the connected step on the null network (no node, hence no component): since the repair
    `max(..., default=set())` was applied to /repo (4b127bb) the shared model's `HG.lccInPlace` — which this
    file's `lccInPlace'` is, definitionally (`lccInPlace'_eq` in C19/Lemmas7.lean) — returns the network
    unchanged instead of raising `ValueError` -/
theorem lccInPlace_null {t : HG} (hc : largestComponent t = none) (hf : t.frozen = false) :
    lccInPlace t = (t, .ok) := by
  show lccInPlace' t = (t, .ok)
  unfold lccInPlace' largestOrEmpty; rw [hc]
  simp only [Option.getD_none, List.not_mem_nil, not_false_eq_true, decide_true]
  rw [guardF_live _ _ hf]
  -- no component means no node, so nothing is removed
  rw [largestComponent_none hc]; rfl

/-! ### the `in_place=False` variants work on `self.copy()` -/

/-- `H.cleanup(in_place=False)` and `convert_labels_to_integers(H, in_place=False)` are the in-place functions
    applied to `H.copy()`, an equal unfrozen network with the same counter (so every theorem above applies to
    them with `(copy H).1` in place of `H`, whether or not `H` itself is frozen) -/
theorem not_in_place_is_copy_then_in_place {s : HG} (hi : Inv s) (ha : AttrWF s) :
    (∀ a b c d e, cleanupNew s a b c d e = cleanup' (copy s).1 a b c d e) ∧
    (∀ l, relabelNew s l = relabel (copy s).1 l) ∧
    SameNet s (copy s).1 ∧ Live (copy s).1 ∧ AttrWF (copy s).1 := by
  obtain ⟨c1, c2, c3, c4, c5⟩ := copy_fields hi.1 ha
  refine ⟨?_, ?_, c2, ⟨inv_of_same_edges hi c5 c2.edges c4, c3⟩, c2.attrWF ha⟩
  · intro a b c d e
    unfold cleanupNew
    simp only [c1, Outcome.isErr, Bool.false_eq_true, if_false, join_ok]
    cases cleanup' (copy s).1 a b c d e <;> rfl
  · intro l
    unfold relabelNew
    rw [andThen_of_ok _ _ c1]

/-! ### non-vacuity: concrete networks satisfy the hypotheses and the functions evaluate as stated -/

/-- nodes 1,2,3,"a" (1 carries an attribute, "a" is isolated), edges 0={1,2} (with an attribute), "x"={2,3}, 5={3} -/
private def demo : HG :=
  (addEdgesFrom (addNodesFrom HG.empty
      [(.int 1, some [("c", .sc (.int 7))]), (.int 2, none), (.int 3, none), (.str "a", none)] []).1 .f4
    [{ members := [.int 1, .int 2], idx := some (.int 0), attr := [("w", .sc (.int 1))] },
     { members := [.int 2, .int 3], idx := some (.str "x"), attr := [] },
     { members := [.int 3], idx := some (.int 5), attr := [] }] []).1

/-- the complex generated by the triangle {1,2,3} (IDs 0..6) plus the isolated node 9 -/
private def demoSC : HG :=
  (addEdgesFrom (addNodesFrom HG.empty [(.int 1, none), (.int 2, none), (.int 3, none), (.int 9, none)] []).1 .f2
    [{ members := [.int 1, .int 2, .int 3], idx := some (.int 0), attr := [] },
     { members := [.int 1, .int 2], idx := some (.int 1), attr := [] },
     { members := [.int 1, .int 3], idx := some (.int 2), attr := [] },
     { members := [.int 2, .int 3], idx := some (.int 3), attr := [] },
     { members := [.int 1], idx := some (.int 4), attr := [] },
     { members := [.int 2], idx := some (.int 5), attr := [] },
     { members := [.int 3], idx := some (.int 6), attr := [] }] []).1

private instance (a : Attrs) : Decidable (AttrsOK a) := by unfold AttrsOK; exact inferInstance

example : Inv demo := addEdgesFrom_inv (addNodesFrom_inv empty_inv _ _) _ _ _
example : AttrWF demo := ⟨by decide, by decide, by decide⟩
example : Aligned demo := ⟨by decide, by decide⟩
example : demo.frozen = false := by decide
example : Inv demoSC := addEdgesFrom_inv (addNodesFrom_inv empty_inv _ _) _ _ _
example : ∀ e ∈ demoSC.edges, demoSC.mem e ≠ [] := by decide
example : demo.edges = [.int 0, .str "x", .int 5] := by decide
example : (subhypergraph demo (some [.int 1, .int 2, .str "a", .int 99]) none true).1.edges = [.int 0] := by decide
example : (subhypergraph demo (some [.int 1, .int 2, .str "a", .int 99]) none false).1.nodes = [.int 1, .int 2] := by decide
example : (dual demo).1.edges = [.int 1, .int 2, .int 3, .str "a"] := by decide
example : (dual demo).1.mem (.int 2) = [.int 0, .str "x"] := by decide
example : (dual (dual demo).1).1.mem (.str "x") = [.int 2, .int 3] := by decide
example : (lshift demo demo).1.edges = [.int 0, .int 1, .int 2, .int 3, .int 4, .int 5] := by decide
example : maxEdgeOrder demo = some 1 := by decide
example : (cutToOrder .hg demo 0).1.edges = [.int 5] := by decide
example : (cutToOrder .hg demo 2).2 = .err .lib := by decide
example : (kSkeleton .sc demoSC 1).1.edges = [.int 1, .int 2, .int 3, .int 4, .int 5, .int 6] := by decide
example : (fromMaxSimplices .sc demoSC).1.nodes = [.int 1, .int 2, .int 3, .int 9] := by decide
example : (fromMaxSimplices .sc demoSC).1.edges.map (fromMaxSimplices .sc demoSC).1.mem = [[.int 1, .int 2, .int 3]] := by decide
example : complementEdges demo = [[.int 1], [.int 2], [.str "a"], [.int 1, .int 3], [.int 1, .str "a"],
    [.int 2, .str "a"], [.int 3, .str "a"]] := by decide
example : largestComponent demo = some [.int 1, .int 2, .int 3] := by decide
example : (lch demo).1.nodes = [.int 1, .int 2, .int 3] := by decide
example : (relabel demo "label").1.mem (.int 1) = [.int 1, .int 2] := by decide
example : ((cleanup' demo false false false true true).map (fun r => (r.2, r.1.nodes, r.1.edges))) =
    some (.ok, [.int 0, .int 1, .int 2], [.int 0, .int 1]) := by decide
/-- the repaired connected step leaves the null network alone (before the repair the code raised `ValueError` here) -/
example : ((cleanup' HG.empty false false false true true).map (·.2)) = some .ok := by decide
example : ((HG.cleanup HG.empty false false false true true).map (·.2)) = some .ok := by decide
/-- nodes 1..6; edges 7={1,2} and 3={2,1} (a class of repeated edges, attributes w=7 / w=3), "a"={2,3}, 9={4}, 10={5,6} -/
private def demoM : HG :=
  (addEdgesFrom (addNodesFrom HG.empty
      [(.int 1, none), (.int 2, none), (.int 3, none), (.int 4, none), (.int 5, none), (.int 6, none)] []).1 .f4
    [{ members := [.int 1, .int 2], idx := some (.int 7), attr := [("w", .sc (.int 7))] },
     { members := [.int 2, .int 1], idx := some (.int 3), attr := [("w", .sc (.int 3))] },
     { members := [.int 2, .int 3], idx := some (.str "a"), attr := [] },
     { members := [.int 4], idx := some (.int 9), attr := [] },
     { members := [.int 5, .int 6], idx := some (.int 10), attr := [] }] []).1

/-- a class of repeated edges with the IDs 5 and "x", which `sorted` cannot order -/
private def demoU : HG :=
  (addEdgesFrom (addNodesFrom HG.empty [(.int 1, none), (.int 2, none)] []).1 .f4
    [{ members := [.int 1, .int 2], idx := some (.int 5), attr := [] },
     { members := [.int 1, .int 2], idx := some (.str "x"), attr := [] }] []).1

/-- an empty edge 0, the repeated edges 1 = 3 = {1,2}, and 2 = {1} -/
private def demoE : HG :=
  (addEdgesFrom (addNodesFrom HG.empty [(.int 1, none), (.int 2, none)] []).1 .f4
    [{ members := [], idx := some (.int 0), attr := [] },
     { members := [.int 1, .int 2], idx := some (.int 1), attr := [] },
     { members := [.int 1], idx := some (.int 2), attr := [] },
     { members := [.int 2, .int 1], idx := some (.int 3), attr := [] }] []).1

example : Live demoM := ⟨addEdgesFrom_inv (addNodesFrom_inv empty_inv _ _) _ _ _, by decide⟩
example : AttrWF demoM := ⟨by decide, by decide, by decide⟩
example : Live demoU := ⟨addEdgesFrom_inv (addNodesFrom_inv empty_inv _ _) _ _ _, by decide⟩
example : Inv demoE := addEdgesFrom_inv (addNodesFrom_inv empty_inv _ _) _ _ _
-- maximal() with an empty edge: it is contained in every edge; the repeated maximal edges both qualify
example : maximalIds demoE = [.int 1, .int 3] := by decide
example : maximalStrictIds demoE = [] := by decide
-- three components before, one after; the merge keeps the smaller ID 3 with its own attributes and the member
-- list of the first edge of the class
example : components demoM = [[.int 1, .int 2, .int 3], [.int 4], [.int 5, .int 6]] := by decide
example : dupsOf demoM (.int 3) = [.int 7, .int 3] := by decide
example : firstSorted [.int 7, .int 3] = some (.int 3) := by decide
example : firstSorted [.int 5, .str "x"] = none := by decide
example : ((cleanup' demoM false false false true false).map (fun r => (r.2, r.1.nodes, r.1.edges))) =
    some (.ok, [.int 1, .int 2, .int 3], [.str "a", .int 3]) := by decide
example : ((cleanup' demoM false false false true false).map (fun r => (r.1.edges.map r.1.mem, components r.1))) =
    some ([[.int 2, .int 3], [.int 1, .int 2]], [[.int 1, .int 2, .int 3]]) := by decide
example : ((cleanup' demoM false false false true false).map (fun r => r.1.edges.map r.1.eattr)) =
    some [[], [("w", .sc (.int 3))]] := by decide
example : ((cleanup' demoM false false false true true).map
      (fun r => (r.2, r.1.nodes, r.1.edges, r.1.edges.map r.1.mem, (components r.1).length))) =
    some (.ok, [.int 0, .int 1, .int 2], [.int 0, .int 1], [[.int 1, .int 2], [.int 0, .int 1]], 1) := by decide
-- the `TypeError` branch: nothing is changed
example : ((cleanup' demoU true true false false false).map (fun r => (r.2, r.1.edges))) =
    some (.err .typeError, [.int 5, .str "x"]) := by decide
example : sortedIds (dupsOf demoU (.int 5)) = none := by decide
example : (lch demoM).1.nodes = [.int 1, .int 2, .int 3] ∧ (components (lch demoM).1).length = 1 := by decide
end Xgi.C19
