/-
  C09 — structural measures are invariant under relabelling and insertion order.

  For every network `h` (shared static model `Xgi.Net`), every injective relabelling `π` of nodes and `σ` of
  edge IDs, and every re-insertion `h'` of a well-formed `h` (`Reorder h h'`: node list, edge list and every
  member list permuted):

    measure (view (rename π σ h)) = the measure of `view h`, re-keyed by π / σ        (`…_rename`)
    measure (view h')             ≈ the measure of `view h` (same dict contents /
                                    same sets / same matrix entries through the
                                    index maps / equal scalars)                       (`…_reorder`)

  one pair of theorems per modelled measure.  The measures are the functions the driver runs
  (XgiModel/C09/Measures.lean).  Property theorems only; helper lemmas are in XgiModel/C09/Lemmas*.lean.

  WHAT THESE THEOREMS DO AND DO NOT SHOW.  The measures are written against `View` (nodes, edge IDs,
  members-by-ID, memberships) with `=`, `∈`, map, filter, length only.  In that language a positional bug
  (`members()[edge_id]`, finding F7) cannot be expressed, so the theorems say that the DEFINITIONS are label-
  and order-independent; they do not establish the property for /repo, and no edit of /repo can make them
  fail.  C09 is decided by the metamorphic run of harness/props/c09.py on the real code; the model is tied to
  the code by the differential correspondence on the original labelling only.  The one quantity for which
  the statement can hold only up to a choice — `duplicates()` leaves out one representative per class, picked
  by sorted ID; no rule for that choice is invariant under both transformations — is modelled as the code
  runs it (`duplicates`), with the exact side conditions and counter-examples below.
-/
import XgiModel.C09.LemmasRen
import XgiModel.C09.LemmasBFS
import XgiModel.C09.LemmasDup

namespace Xgi.C09
open Function

variable {π σ : PyId → PyId} {h h' : Net}

/-- re-key a per-node / per-edge dict -/
abbrev rekey {β : Type} (f : PyId → PyId) (d : List (PyId × β)) : List (PyId × β) := d.map (fun p => (f p.1, p.2))


/-! ### degree and edge size -/

theorem C09_degree_rename (hπ : Injective π) (hσ : Injective σ) (h : Net) :
    nodeDict (view (rename π σ h)) degree = rekey π (nodeDict (view h) degree) :=
  nodeDict_ren (view_rename hπ hσ h) id (degree_ren (view_rename hπ hσ h))

theorem C09_degree_reorder (hw : h.WF) (hr : Reorder h h') :
    (nodeDict (view h') degree).Perm (nodeDict (view h) degree) :=
  nodeDict_perm (vperm hw hr) (degree_perm (vperm hw hr))

theorem C09_size_rename (hπ : Injective π) (hσ : Injective σ) (h : Net) :
    edgeDict (view (rename π σ h)) size = rekey σ (edgeDict (view h) size) :=
  edgeDict_ren (view_rename hπ hσ h) id (size_ren (view_rename hπ hσ h))

theorem C09_size_reorder (hw : h.WF) (hr : Reorder h h') :
    (edgeDict (view h') size).Perm (edgeDict (view h) size) :=
  edgeDict_perm (vperm hw hr) (size_perm (vperm hw hr))

/-! ### the list of edge sizes that occur (`unique_edge_sizes`; added after the mutation sweep: with `sorted()` dropped the
    real function depends on insertion order from edge size 9 on) -/

theorem C09_unique_edge_sizes_rename (hπ : Injective π) (hσ : Injective σ) (h : Net) :
    uniqueEdgeSizes (view (rename π σ h)) = uniqueEdgeSizes (view h) := by
  have hr := view_rename hπ hσ h
  simp only [uniqueEdgeSizes, hr.nodes, List.length_map, countSize_ren hr]

theorem C09_unique_edge_sizes_reorder (hw : h.WF) (hr : Reorder h h') :
    uniqueEdgeSizes (view h') = uniqueEdgeSizes (view h) := by
  have hp := vperm hw hr
  simp only [uniqueEdgeSizes, hp.nodes.length_eq, countSize_perm hp]

/-- what the list is (`sorted(set(sizes))`): strictly increasing, and a size is listed iff some edge has it -/
theorem C09_unique_edge_sizes_spec (hw : h.WF) :
    (uniqueEdgeSizes (view h)).Pairwise (· < ·) ∧
    ∀ s, s ∈ uniqueEdgeSizes (view h) ↔ ∃ e ∈ h.edgeIds, size (view h) e = s := by
  constructor
  · exact List.Pairwise.filter _ (List.pairwise_lt_range)
  · intro s
    show s ∈ uniqueEdgeSizes (view h) ↔ ∃ e ∈ (view h).eids, size (view h) e = s
    simp only [uniqueEdgeSizes, List.mem_filter, List.mem_range, decide_eq_true_eq, countSize, List.length_pos_iff,
      ne_eq]
    constructor
    · rintro ⟨_, hne⟩
      obtain ⟨e, he⟩ := List.exists_mem_of_ne_nil _ hne
      simp only [List.mem_filter, beq_iff_eq] at he
      exact ⟨e, he.1, he.2⟩
    · rintro ⟨e, he, hs⟩
      refine ⟨by have := size_le_nodes hw e; omega, ?_⟩
      intro hnil
      have : e ∈ (view h).eids.filter (fun e => size (view h) e == s) := by simp [List.mem_filter, he, hs]
      simp [hnil] at this

/-! ### neighbours and average neighbour degree -/

theorem C09_neighbors_rename (hπ : Injective π) (hσ : Injective σ) (h : Net) :
    nodeDict (view (rename π σ h)) neighbors = (nodeDict (view h) neighbors).map (fun p => (π p.1, p.2.map π)) :=
  nodeDict_ren (view_rename hπ hσ h) (List.map π) (neighbors_ren hπ (view_rename hπ hσ h))

/-- same keys, and for every key the same neighbour set -/
theorem C09_neighbors_reorder (hw : h.WF) (hr : Reorder h h') :
    (view h').nodes.Perm (view h).nodes ∧ ∀ n, (neighbors (view h') n).Perm (neighbors (view h) n) :=
  ⟨(vperm hw hr).nodes, neighbors_perm (vperm hw hr)⟩

theorem C09_average_neighbor_degree_rename (hπ : Injective π) (hσ : Injective σ) (h : Net) :
    nodeDict (view (rename π σ h)) avgNbrDeg = rekey π (nodeDict (view h) avgNbrDeg) :=
  nodeDict_ren (view_rename hπ hσ h) id (avgNbrDeg_ren hπ (view_rename hπ hσ h))

theorem C09_average_neighbor_degree_reorder (hw : h.WF) (hr : Reorder h h') :
    (nodeDict (view h') avgNbrDeg).Perm (nodeDict (view h) avgNbrDeg) :=
  nodeDict_perm (vperm hw hr) (avgNbrDeg_perm (vperm hw hr))

/-! ### the three clustering coefficients -/

theorem C09_clustering_coefficient_rename (hπ : Injective π) (hσ : Injective σ) (h : Net) :
    nodeDict (view (rename π σ h)) clusteringCoef = rekey π (nodeDict (view h) clusteringCoef) :=
  nodeDict_ren (view_rename hπ hσ h) id (clusteringCoef_ren hπ (view_rename hπ hσ h))

theorem C09_clustering_coefficient_reorder (hw : h.WF) (hr : Reorder h h') :
    (nodeDict (view h') clusteringCoef).Perm (nodeDict (view h) clusteringCoef) :=
  nodeDict_perm (vperm hw hr) (clusteringCoef_perm (vperm hw hr))

/-- `local_clustering_coefficient` with members looked up by edge ID (the repaired code, finding F7) -/
theorem C09_local_clustering_coefficient_rename (hπ : Injective π) (hσ : Injective σ) (h : Net) :
    nodeDict (view (rename π σ h)) localCC = rekey π (nodeDict (view h) localCC) :=
  nodeDict_ren (view_rename hπ hσ h) id (localCC_ren hπ (view_rename hπ hσ h))

theorem C09_local_clustering_coefficient_reorder (hw : h.WF) (hr : Reorder h h') :
    (nodeDict (view h') localCC).Perm (nodeDict (view h) localCC) :=
  nodeDict_perm (vperm hw hr) (localCC_perm (vperm hw hr))

theorem C09_two_node_clustering_coefficient_rename (hπ : Injective π) (hσ : Injective σ) (h : Net) (k : Kind) :
    nodeDict (view (rename π σ h)) (fun v n => twoNodeCC v k n) = rekey π (nodeDict (view h) (fun v n => twoNodeCC v k n)) :=
  nodeDict_ren (view_rename hπ hσ h) id (twoNodeCC_ren hπ hσ (view_rename hπ hσ h) k)

theorem C09_two_node_clustering_coefficient_reorder (hw : h.WF) (hr : Reorder h h') (k : Kind) :
    (nodeDict (view h') (fun v n => twoNodeCC v k n)).Perm (nodeDict (view h) (fun v n => twoNodeCC v k n)) :=
  nodeDict_perm (vperm hw hr) (twoNodeCC_perm (vperm hw hr) k)

/-! ### connected components and distances -/

/-! (model adequacy of the BFS — the fuel `len(H.nodes)` suffices, the loop covers every node — is
    `comp_fuel_suffices` / `components_cover` in XgiModel/C09/LemmasBFS.lean; not an invariance statement) -/

theorem C09_connected_components_rename (hπ : Injective π) (hσ : Injective σ) (h : Net) :
    components (view (rename π σ h)) = (components (view h)).map (List.map π) ∧
    numComponents (view (rename π σ h)) = numComponents (view h) ∧
    isConnected (view (rename π σ h)) = isConnected (view h) ∧
    ∀ n, comp (view (rename π σ h)) (π n) = (comp (view h) n).map π :=
  ⟨components_ren hπ (view_rename hπ hσ h), numComponents_ren hπ (view_rename hπ hσ h),
   isConnected_ren hπ (view_rename hπ hσ h), comp_ren hπ (view_rename hπ hσ h)⟩

/-- the number of components and the component of every node do not depend on the insertion order -/
theorem C09_connected_components_reorder (hw : h.WF) (hr : Reorder h h') :
    numComponents (view h') = numComponents (view h) ∧ ∀ n, (comp (view h') n).Perm (comp (view h) n) :=
  ⟨numComponents_perm' (vwf hw) (vperm hw hr), comp_perm (vperm hw hr)⟩

theorem C09_shortest_path_length_rename (hπ : Injective π) (hσ : Injective σ) (h : Net) (n m : PyId) :
    dist (view (rename π σ h)) (π n) (π m) = dist (view h) n m :=
  dist_ren hπ (view_rename hπ hσ h) n m

theorem C09_shortest_path_length_reorder (hw : h.WF) (hr : Reorder h h') (n m : PyId) :
    dist (view h') n m = dist (view h) n m :=
  dist_perm (vperm hw hr) n m

/-! ### density -/

theorem C09_density_rename (hπ : Injective π) (hσ : Injective σ) (h : Net) (o mo : Option Nat) (ign : Bool) :
    density (view (rename π σ h)) o mo ign = density (view h) o mo ign ∧
    incidenceDensity (view (rename π σ h)) o mo ign = incidenceDensity (view h) o mo ign :=
  ⟨density_ren (view_rename hπ hσ h) o mo ign, incidenceDensity_ren (view_rename hπ hσ h) o mo ign⟩

theorem C09_density_reorder (hw : h.WF) (hr : Reorder h h') (o mo : Option Nat) (ign : Bool) :
    density (view h') o mo ign = density (view h) o mo ign ∧
    incidenceDensity (view h') o mo ign = incidenceDensity (view h) o mo ign :=
  ⟨density_perm (vperm hw hr) o mo ign, incidenceDensity_perm (vperm hw hr) o mo ign⟩

/-! ### maximal and duplicate edges -/

theorem C09_maximal_rename (hπ : Injective π) (hσ : Injective σ) (h : Net) (strict : Bool) :
    maximal (view (rename π σ h)) strict = (maximal (view h) strict).map σ ∧
    hasEmptyEdge (view (rename π σ h)) = hasEmptyEdge (view h) :=
  ⟨maximal_ren hπ hσ (view_rename hπ hσ h) strict, hasEmptyEdge_ren (view_rename hπ hσ h)⟩

theorem C09_maximal_reorder (hw : h.WF) (hr : Reorder h h') (strict : Bool) :
    (maximal (view h') strict).Perm (maximal (view h) strict) ∧ hasEmptyEdge (view h') = hasEmptyEdge (view h) :=
  ⟨maximal_perm (vperm hw hr) strict, hasEmptyEdge_perm (vperm hw hr)⟩

/-- the edges that have a twin (the union of the classes of size > 1 that `duplicates()` forms) are
    equivariant under EVERY injective relabelling … -/
theorem C09_duplicate_classes_rename (hπ : Injective π) (hσ : Injective σ) (h : Net) :
    dupEdges (view (rename π σ h)) = (dupEdges (view h)).map σ :=
  dupEdges_ren hπ hσ (view_rename hπ hσ h)

/-- … and invariant under every re-insertion -/
theorem C09_duplicate_classes_reorder (hw : h.WF) (hr : Reorder h h') : (dupEdges (view h')).Perm (dupEdges (view h)) :=
  dupEdges_perm (vperm hw hr)

/-- `H.edges.duplicates()` itself (`duplicates`, the function the driver runs and the harness compares with
    the real method): the edges that have a twin, minus the one ID `keptOf` of their class -/
theorem C09_duplicates_spec (hw : h.WF) (e : PyId) :
    e ∈ duplicates (view h) ↔ e ∈ dupEdges (view h) ∧ keptOf (twins (view h) e) ≠ some e :=
  mem_duplicates (v := view h) hw.2.1

/-- the ID left out of a class is a member of it: the smallest one (`sorted(cls)[0]`) when the IDs are mutually
    comparable, the first inserted one when `sorted` raises `TypeError` (an int next to a str) -/
theorem C09_duplicates_kept (cls : List PyId) (hne : cls ≠ []) :
    ∃ k, keptOf cls = some k ∧ k ∈ cls ∧
      (sortable cls = true → ∀ x ∈ cls, pyLt? x k ≠ some true) ∧
      (sortable cls = false → cls.head? = some k) := keptOf_spec hne

/-- `duplicates()` is equivariant under a relabelling of the edge IDs that PRESERVES PYTHON'S ORDER on them
    (`OrdPres σ`: ints to ints / strs to strs monotonically, e.g. adding a constant).  For an arbitrary
    bijection it is not — which ID is smallest changes; counter-example below (`swap01`) — so the property
    statement's "duplicate edges … except by the same renaming" can only be read on the classes
    (`C09_duplicate_classes_rename`), and that is what the metamorphic run compares under relabelling. -/
theorem C09_duplicates_rename (hπ : Injective π) (hσ : Injective σ) (ho : OrdPres σ) (h : Net) :
    duplicates (view (rename π σ h)) = (duplicates (view h)).map σ :=
  duplicates_ren hπ hσ ho (view_rename hπ hσ h)

/-- `duplicates()` is invariant under re-insertion when the edge IDs are mutually comparable (all ints or all
    strs); with mixed IDs `sorted` raises and the first INSERTED twin is kept: order dependent, counter-example
    below.  The metamorphic run compares the exact result under re-insertion in the comparable case. -/
theorem C09_duplicates_reorder (hw : h.WF) (hr : Reorder h h') (hs : sortable h.edgeIds = true) :
    (duplicates (view h')).Perm (duplicates (view h)) :=
  duplicates_perm (vperm hw hr) hs

/-! ### the degree pairs of the exact degree assortativity -/

theorem C09_degree_pairs_rename (hπ : Injective π) (hσ : Injective σ) (h : Net) :
    degPairs (view (rename π σ h)) = degPairs (view h) :=
  degPairs_ren hπ (view_rename hπ hσ h)

/-- the same multiset of pairs -/
theorem C09_degree_pairs_reorder (hw : h.WF) (hr : Reorder h h') : (degPairs (view h')).Perm (degPairs (view h)) :=
  degPairs_perm (vperm hw hr)

/-! ### matrices: entries as functions of IDs, rows / columns through the index maps -/

theorem C09_incidence_matrix_rename (hπ : Injective π) (hσ : Injective σ) (h : Net) (o : Option Nat) :
    incMatrix (view (rename π σ h)) o = incMatrix (view h) o ∧
    (view (rename π σ h)).nodes = (view h).nodes.map π ∧
    eidsOf (view (rename π σ h)) o = (eidsOf (view h) o).map σ ∧
    ∀ n e, incEntry (view (rename π σ h)) (π n) (σ e) = incEntry (view h) n e :=
  ⟨incMatrix_ren hπ (view_rename hπ hσ h) o, (view_rename hπ hσ h).nodes, eidsOf_ren (view_rename hπ hσ h) o,
   incEntry_ren hπ (view_rename hπ hσ h)⟩

/-- the matrix of `h'` is the matrix of `h` with rows and columns permuted through the index maps -/
theorem C09_incidence_matrix_reorder (hw : h.WF) (hr : Reorder h h') (o : Option Nat) :
    incMatrix (view h') o = (view h').nodes.map (fun n => (eidsOf (view h') o).map (fun e => incEntry (view h) n e)) ∧
    (view h').nodes.Perm (view h).nodes ∧ (eidsOf (view h') o).Perm (eidsOf (view h) o) := by
  refine ⟨?_, (vperm hw hr).nodes, eidsOf_perm (vperm hw hr) o⟩
  simp only [incMatrix, incEntry_perm (vperm hw hr)]

theorem C09_adjacency_matrix_rename (hπ : Injective π) (hσ : Injective σ) (h : Net) (o : Option Nat) (s : Nat) (w : Bool) :
    adjMatrix (view (rename π σ h)) o s w = adjMatrix (view h) o s w ∧
    ∀ n m, adjEntry (view (rename π σ h)) o s w (π n) (π m) = adjEntry (view h) o s w n m :=
  ⟨adjMatrix_ren hπ (view_rename hπ hσ h) o s w, adjEntry_ren hπ (view_rename hπ hσ h) o s w⟩

theorem C09_adjacency_matrix_reorder (hw : h.WF) (hr : Reorder h h') (o : Option Nat) (s : Nat) (w : Bool) :
    adjMatrix (view h') o s w = (view h').nodes.map (fun n => (view h').nodes.map (fun m => adjEntry (view h) o s w n m)) ∧
    (view h').nodes.Perm (view h).nodes := by
  refine ⟨?_, (vperm hw hr).nodes⟩
  simp only [adjMatrix, adjEntry_perm (vperm hw hr)]

theorem C09_laplacian_rename (hπ : Injective π) (hσ : Injective σ) (h : Net) (d : Nat) :
    lapMatrix (view (rename π σ h)) d = lapMatrix (view h) d ∧
    ∀ n m, lapEntry (view (rename π σ h)) d (π n) (π m) = lapEntry (view h) d n m :=
  ⟨lapMatrix_ren hπ (view_rename hπ hσ h) d, lapEntry_ren hπ (view_rename hπ hσ h) d⟩

theorem C09_laplacian_reorder (hw : h.WF) (hr : Reorder h h') (d : Nat) :
    lapMatrix (view h') d = (view h').nodes.map (fun n => (view h').nodes.map (fun m => lapEntry (view h) d n m)) ∧
    (view h').nodes.Perm (view h).nodes := by
  refine ⟨?_, (vperm hw hr).nodes⟩
  simp only [lapMatrix, lapEntry_perm (vperm hw hr)]

/-! ### `is_connected` does not depend on which node comes first -/

theorem C09_is_connected_reorder (hw : h.WF) (hr : Reorder h h') : isConnected (view h') = isConnected (view h) := by
  have hp := vperm hw hr
  have hv := vwf hw
  have full : ∀ (v : View) (a : PyId), ((comp v a).length == v.nodes.length) = true ↔ ∀ m ∈ v.nodes, m ∈ comp v a := by
    intro v a
    rw [beq_iff_eq, comp, ball_eq_filter, List.length_filter_eq_length_iff]
    simp only [decide_eq_true_eq, ← ball_eq_filter]
  unfold isConnected
  cases h1 : (view h').nodes with
  | nil =>
    have := hp.nodes.length_eq; rw [h1] at this
    have h2 : (view h).nodes = [] := List.eq_nil_of_length_eq_zero this.symm
    simp only [h2]
  | cons a' t' =>
    cases h2 : (view h).nodes with
    | nil => have := hp.nodes.length_eq; rw [h1, h2] at this; cases this
    | cons a t =>
      simp only [Option.some.injEq]
      rw [Bool.eq_iff_iff, ← h1, ← h2, full, full]
      have ha' : a' ∈ (view h).nodes := hp.nodes.mem_iff.1 (by rw [h1]; exact List.mem_cons_self)
      have ha : a ∈ (view h).nodes := by rw [h2]; exact List.mem_cons_self
      constructor
      · intro hall m hm
        have h3 : a ∈ comp (view h) a' := (comp_perm hp a').mem_iff.1 (hall a (hp.nodes.mem_iff.2 ha))
        have h4 := (comp_perm hp a').mem_iff.1 (hall m (hp.nodes.mem_iff.2 hm))
        exact (comp_class hv h3 m).2 h4
      · intro hall m hm
        have hm' : m ∈ (view h).nodes := hp.nodes.mem_iff.1 hm
        have h3 : a' ∈ comp (view h) a := hall a' ha'
        exact (comp_perm hp a').mem_iff.2 ((comp_class hv h3 m).2 (hall m hm'))

/-! ### non-vacuity: the hypotheses are satisfiable and the measures take non-trivial values -/

/-- `Hypergraph({1:[1,2,3], 0:[3,4], 2:[4,5,1]})`: edge IDs are a non-identity permutation of `0..2` -/
private def demo : Net :=
  { nodes := [.int 1, .int 2, .int 3, .int 4, .int 5]
    edges := [(.int 1, [.int 1, .int 2, .int 3]), (.int 0, [.int 3, .int 4]), (.int 2, [.int 4, .int 5, .int 1])] }

/-- swap the IDs 0 and 1 (a non-identity permutation of `0..m-1`) -/
private def swap01 (x : PyId) : PyId := if x = .int 0 then .int 1 else if x = .int 1 then .int 0 else x

example : Injective swap01 := by
  intro a b hab
  unfold swap01 at hab
  split at hab <;> split at hab <;> (try split at hab) <;> (try split at hab) <;> simp_all

example : demo.WF := by simp [Net.WF, demo]

example : Reorder demo (reverseAll demo) := reorder_reverseAll (by simp [demo])
example : reverseAll demo ≠ demo := by simp [reverseAll, demo]
example : rename id swap01 demo ≠ demo := by simp [rename, demo, swap01]

example : nodeDict (view demo) degree = [(.int 1, 2), (.int 2, 1), (.int 3, 2), (.int 4, 2), (.int 5, 1)] := by decide
example : nodeDict (view (rename id swap01 demo)) degree = nodeDict (view demo) degree := by decide
example : edgeDict (view (rename id swap01 demo)) size = [(.int 0, 3), (.int 1, 2), (.int 2, 3)] := by decide
example : numComponents (view demo) = 1 := by decide
example : uniqueEdgeSizes (view demo) = [2, 3] ∧ uniqueEdgeSizes (view (reverseAll demo)) = [2, 3] := by decide
example : maximal (view (reverseAll demo)) false = [.int 2, .int 0, .int 1] := by decide
example : triCount (view demo) (.int 1) = 6 := by decide
/-- the F7 witness: with members looked up by ID the value at node 1 is 1/2 under both labellings -/
example : localCC (view demo) (.int 1) = 1 / 2 := by
  simp [localCC, view, demo, Net.memberships, Net.members, pairs, extraOverlap, diff, nbrsOfSet, neighbors, dedup, ins, rm]
  grind
example : localCC (view (rename id swap01 demo)) (.int 1) = 1 / 2 := by
  simp [localCC, view, demo, rename, swap01, Net.memberships, Net.members, pairs, extraOverlap, diff, nbrsOfSet, neighbors,
    dedup, ins, rm]
  grind

/-- edges 0 and 1 are equal; 2 is not -/
private def dupNet : Net :=
  { nodes := [.int 1, .int 2, .int 3]
    edges := [(.int 1, [.int 1, .int 2]), (.int 0, [.int 2, .int 1]), (.int 2, [.int 3])] }

/-- `duplicates()` reports the LARGER of the two equal edges, whatever the insertion order -/
example : duplicates (view dupNet) = [.int 1] ∧ duplicates (view (reverseAll dupNet)) = [.int 1] ∧
    dupEdges (view dupNet) = [.int 1, .int 0] := by decide
/-- `swap01` is injective but not order preserving: the representative is not renamed along -/
example : duplicates (view (rename id swap01 dupNet)) = [.int 1] ∧ (duplicates (view dupNet)).map swap01 = [.int 0] := by decide
example : ¬ OrdPres swap01 := fun ho => by
  have := ho (.int 0) (.int 1)
  simp [swap01, pyLt?] at this
/-- an order-preserving relabelling: ints shifted by 10 -/
private def shift10 (x : PyId) : PyId := match x with
  | .atom (.int i) => .atom (.int (i + 10))
  | y => y
example : OrdPres shift10 := by
  intro a b
  cases a with
  | atom x => cases b with
    | atom y => cases x <;> cases y <;> simp [shift10, pyLt?]
    | tup l => cases x <;> simp [shift10, pyLt?]
    | none => cases x <;> simp [shift10, pyLt?]
  | tup l => simp [shift10, pyLt?]
  | none => simp [shift10, pyLt?]
example : duplicates (view (rename id shift10 dupNet)) = [.int 11] := by decide
/-- mixed int / str edge IDs: `sorted` raises, the first inserted twin is kept — insertion-order dependent -/
private def mixNet : Net :=
  { nodes := [.int 1, .int 2], edges := [(.str "a", [.int 1, .int 2]), (.int 7, [.int 1, .int 2])] }
example : sortable mixNet.edgeIds = false ∧ duplicates (view mixNet) = [.int 7] ∧
    duplicates (view (reverseAll mixNet)) = [.str "a"] := by decide
example : sortable dupNet.edgeIds = true := by decide

end Xgi.C09
