import XgiModel.C09.Measures
namespace Xgi.C09
theorem placeholder : True := trivial
end Xgi.C09
