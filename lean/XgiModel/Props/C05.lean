import XgiModel.Core.HG
namespace Xgi.C05
theorem placeholder : True := trivial
end Xgi.C05
