/-
  C05 — Each edit has exactly its documented effect.
  The operational model (Core/HG.lean) is the executable spec compared with the code step by step;
  the theorems below state the *documentation* declaratively about that model.
-/
import XgiModel.Lemmas.HGWF
import XgiModel.Lemmas.HGShuffle
import XgiModel.Lemmas.HGEffects
import XgiModel.Lemmas.HGAttrs
import XgiModel.Lemmas.HGMerge
import Mathlib.Tactic.Tauto
import Mathlib.Tactic.ByContra

namespace Xgi.C05
open Xgi Xgi.HG

def degree (s : HG) (n : PyId) : Nat := (s.memb n).length
def size (s : HG) (e : PyId) : Nat := (s.mem e).length

/-! ### node removal -/




/-- weak removal: the call returns; the node goes; every edge loses it; an edge disappears iff it contained
    the node, became empty and `remove_empty` is set; nothing else changes -/
theorem weak_removal {s : HG} (h : WF s) (n : PyId) (re : Bool) (hn : n ∈ s.nodes) :
    (removeNode s n false re).2 = .ok ∧
    (∀ m, m ∈ (removeNode s n false re).1.nodes ↔ m ∈ s.nodes ∧ m ≠ n) ∧
    (∀ e, e ∈ (removeNode s n false re).1.edges ↔
          e ∈ s.edges ∧ ¬ (n ∈ s.mem e ∧ (∀ m ∈ s.mem e, m = n) ∧ re = true)) ∧
    (∀ e ∈ s.edges, ∀ m, m ∈ (removeNode s n false re).1.mem e ↔ m ∈ s.mem e ∧ m ≠ n) ∧
    (removeNode s n false re).1.memb = s.memb ∧ (removeNode s n false re).1.nattr = s.nattr ∧
    (removeNode s n false re).1.eattr = s.eattr ∧ (removeNode s n false re).1.net = s.net ∧
    (removeNode s n false re).1.uid = s.uid := by
  obtain ⟨h1, h2, h3, h4, h5, h6, h7, h8, h9, h10, h11, h12⟩ := h
  rw [removeNode_weak_eq s n re hn]
  refine ⟨rfl, ?_, ?_, ?_, rfl, rfl, rfl, rfl, rfl⟩
  · intro m; simp [removeNodeWeak]; tauto
  · intro e
    simp only [removeNodeWeak, List.mem_filter, Bool.not_eq_true', Bool.and_eq_false_iff, decide_eq_false_iff_not]
    have hk := rm_isEmpty_iff n (s.mem e)
    constructor
    · intro ⟨he, hg⟩
      refine ⟨he, ?_⟩
      intro ⟨hin, hall, hre⟩
      have hmem : e ∈ s.memb n := (h6 e he n hin).2
      rcases hg with (hg | hg) | hg
      · exact hg hmem
      · rw [hk.mpr hall] at hg; cases hg
      · rw [hre] at hg; cases hg
    · intro ⟨he, hg⟩
      refine ⟨he, ?_⟩
      by_cases hin : e ∈ s.memb n
      · by_cases hemp : (rm n (s.mem e)).isEmpty = true
        · by_cases hre : re = true
          · exact absurd ⟨(h5 n hn e hin).2, hk.mp hemp, hre⟩ hg
          · right; simpa using hre
        · left; right; simpa using hemp
      · left; left; exact hin
  · intro e he m; simp only [removeNodeWeak]
    split
    · simp; tauto
    · rename_i hnot
      have : n ∉ s.mem e := fun hin => hnot (h6 e he n hin).2
      constructor
      · intro hm; exact ⟨hm, fun hmn => this (hmn ▸ hm)⟩
      · exact fun hm => hm.1

/-- strong removal: exactly the edges containing the node disappear, the others are untouched -/
theorem strong_removal {s : HG} (h : WF s) (n : PyId) (re : Bool) (hn : n ∈ s.nodes) :
    (removeNode s n true re).2 = .ok ∧
    (∀ m, m ∈ (removeNode s n true re).1.nodes ↔ m ∈ s.nodes ∧ m ≠ n) ∧
    (∀ e, e ∈ (removeNode s n true re).1.edges ↔ e ∈ s.edges ∧ n ∉ s.mem e) ∧
    (removeNode s n true re).1.mem = s.mem ∧
    (∀ m ∈ (removeNode s n true re).1.nodes, ∀ e, e ∈ (removeNode s n true re).1.memb m ↔ e ∈ s.memb m ∧ n ∉ s.mem e) := by
  obtain ⟨h1, h2, h3, h4, h5, h6, h7, h8, h9, h10, h11, h12⟩ := h
  rw [removeNode_strong_eq s n re hn]
  refine ⟨rfl, ?_, ?_, rfl, ?_⟩
  · intro m; simp [removeNodeStrong]; tauto
  · intro e; simp only [removeNodeStrong, List.mem_filter, decide_eq_true_eq]; grind
  · intro m hm e; simp only [removeNodeStrong, List.mem_filter, decide_eq_true_eq, mem_rm] at hm ⊢
    grind

/-! ### edges and memberships -/

/-- `remove_edge`: the edge goes, its members forget it, nothing else changes -/
theorem remove_edge_effect {s : HG} (h : WF s) (e : PyId) (he : e ∈ s.edges) :
    removeEdge s e = (dropEdge s e, .ok) ∧ (∀ f, f ∈ (dropEdge s e).edges ↔ f ∈ s.edges ∧ f ≠ e) ∧
    (dropEdge s e).nodes = s.nodes ∧ (dropEdge s e).mem = s.mem ∧
    (∀ m ∈ s.nodes, ∀ f, f ∈ (dropEdge s e).memb m ↔ f ∈ s.memb m ∧ f ≠ e) ∧
    (dropEdge s e).nattr = s.nattr ∧ (dropEdge s e).eattr = s.eattr := by
  obtain ⟨h1, h2, h3, h4, h5, h6, h7, h8, h9, h10, h11, h12⟩ := h
  refine ⟨by simp [removeEdge, he], ?_, rfl, rfl, ?_, rfl, rfl⟩
  · intro f; simp [dropEdge]; tauto
  · intro m hm f; simp only [dropEdge]; split
    · simp; tauto
    · rename_i hnot
      have : e ∉ s.memb m := fun hin => hnot (h5 m hm e hin).2
      constructor
      · intro hf; exact ⟨hf, fun hfe => this (hfe ▸ hf)⟩
      · exact fun hf => hf.1

/-- `remove_node_from_edge`: the incidence (n, e) goes on both sides; the edge itself goes iff it became
    empty and `remove_empty` is set; everything else stays -/
theorem remove_node_from_edge_effect (s : HG) (e n : PyId) (re : Bool)
    (he : e ∈ s.edges) (hn : n ∈ s.nodes) (hm : n ∈ s.mem e) :
    (removeNodeFromEdge s e n re).2 = .ok ∧ (removeNodeFromEdge s e n re).1.nodes = s.nodes ∧
    (∀ f, f ∈ (removeNodeFromEdge s e n re).1.edges ↔ f ∈ s.edges ∧ ¬ (f = e ∧ (∀ m ∈ s.mem e, m = n) ∧ re = true)) ∧
    (∀ m, m ∈ (removeNodeFromEdge s e n re).1.mem e ↔ m ∈ s.mem e ∧ m ≠ n) ∧
    (∀ f, f ≠ e → (removeNodeFromEdge s e n re).1.mem f = s.mem f) ∧
    (∀ f, f ∈ (removeNodeFromEdge s e n re).1.memb n ↔ f ∈ s.memb n ∧ f ≠ e) ∧
    (∀ m, m ≠ n → (removeNodeFromEdge s e n re).1.memb m = s.memb m) := by
  have key := rm_isEmpty_iff n (s.mem e)
  by_cases hc : (∀ m ∈ s.mem e, m = n) ∧ re = true
  · have : removeNodeFromEdge s e n re =
        (delEdgeOnly { s with mem := upd s.mem e (rm n (s.mem e)), memb := upd s.memb n (rm e (s.memb n)) } e, .ok) := by
      simp [removeNodeFromEdge, he, hn, hm, key.mpr hc.1, hc.2]
    rw [this]
    refine ⟨rfl, rfl, ?_, ?_, ?_, ?_, ?_⟩
    · intro f; simp only [delEdgeOnly, mem_rm]
      have := hc.1; have := hc.2; tauto
    · intro m; simp [delEdgeOnly]; tauto
    · intro f hf; simp [delEdgeOnly, hf]
    · intro f; simp [delEdgeOnly]; tauto
    · intro m hmn; simp [delEdgeOnly, hmn]
  · have : removeNodeFromEdge s e n re =
        ({ s with mem := upd s.mem e (rm n (s.mem e)), memb := upd s.memb n (rm e (s.memb n)) }, .ok) := by
      simp only [removeNodeFromEdge, he, hn, hm, not_true_eq_false, if_false, upd_apply, if_true]
      rw [if_neg]; rw [key]; exact hc
    rw [this]
    refine ⟨rfl, rfl, ?_, ?_, ?_, ?_, ?_⟩
    · intro f; constructor
      · intro a; exact ⟨a, fun hh => hc ⟨hh.2.1, hh.2.2⟩⟩
      · exact fun a => a.1
    · intro m; simp; tauto
    · intro f hf; simp [hf]
    · intro f; simp; tauto
    · intro m hmn; simp [hmn]

/-- `clear_edges` keeps the nodes and their attributes, removes every edge and membership -/
theorem clear_edges_effect (s : HG) :
    (clearEdges s).1.nodes = s.nodes ∧ (clearEdges s).1.nattr = s.nattr ∧ (clearEdges s).1.nattrK = s.nattrK ∧
    (clearEdges s).1.edges = [] ∧ (clearEdges s).1.eattrK = [] ∧
    (∀ n ∈ s.nodes, (clearEdges s).1.memb n = []) ∧ (clearEdges s).1.net = s.net := by
  refine ⟨rfl, rfl, rfl, rfl, rfl, ?_, rfl⟩
  intro n hn; simp [clearEdges, hn]

/-- `clear` empties everything; network attributes go only when asked -/
theorem clear_effect (s : HG) (b : Bool) :
    (clear s b).1.nodes = [] ∧ (clear s b).1.edges = [] ∧ (clear s b).1.nattrK = [] ∧ (clear s b).1.eattrK = [] ∧
    (clear s b).1.net = (if b then [] else s.net) ∧ (clear s b).1.uid = s.uid :=
  ⟨rfl, rfl, rfl, rfl, rfl, rfl⟩

/-! ### adding nodes: existing nodes get their attributes updated; per-item dict wins over **attr -/

theorem add_node_existing (s : HG) (n : PyId) (a : Attrs) (hn : n ∈ s.nodes) (h0 : n ≠ .none) :
    (addNode s n a).1.nodes = s.nodes ∧ (addNode s n a).1.memb = s.memb ∧
    (addNode s n a).1.nattr n = Attrs.update (s.nattr n) a ∧ ∀ m, m ≠ n → (addNode s n a).1.nattr m = s.nattr m := by
  have : addNode s n a = (updNodeAttr s n a, .ok) := by simp [addNode, h0, addNodeRaw, hn]
  rw [this]
  refine ⟨rfl, rfl, by simp [updNodeAttr], ?_⟩
  intro m hm; simp [updNodeAttr, hm]

theorem add_nodes_item_precedence (attr d : Attrs) (s : HG) (n : PyId) (h0 : n ≠ .none) :
    ((addNodesItem attr s (n, some d)).1).nattr n = Attrs.update ((addNodeRaw s n).nattr n) (Attrs.update attr d) := by
  simp [addNodesItem, h0, updNodeAttr]


/-- bulk edge formats 2 and 4: the per-edge dict is applied after (so it wins over) the keyword attributes -/
theorem add_edges_item_precedence (fmt : Fmt) (attr : Attrs) (s : HG) (it : EdgeItem)
    (hx : fmt.explicit = true) (h5 : fmt ≠ .f5) (hi : it.idx.getD .none ∉ s.edges)
    (hn : PyId.none ∉ it.members ∧ it.idx.getD .none ≠ .none) :
    ((addEdgesItem fmt attr s it).1).eattr (it.idx.getD .none) = Attrs.update [] (Attrs.update attr it.attr) := by
  have hc : ¬ (PyId.none ∈ it.members ∨ it.idx.getD .none = .none) := by
    intro h; rcases h with h | h
    · exact hn.1 h
    · exact hn.2 h
  simp only [addEdgesItem, hx, if_true, hi, if_false, hc, h5]
  have : ∀ t : HG, (bumpUid t (it.idx.getD .none)).eattr = t.eattr := by
    intro t; unfold bumpUid; split
    · split <;> rfl
    · rfl
  rw [this]
  unfold addEdgeAt
  rw [foldl_link_eattr]; simp [updEdgeAttr, newEdgeAttr]

/-! ### the attribute setters -/

/-- `set_node_attributes({id: value}, name)`: the call never raises; nothing but node attribute dicts changes; a node
    that is named gets `name := value` (other keys of its dict stay), every other node keeps its dict; an ID that is
    not a node is skipped with a warning, and the warning is issued exactly when there is such an ID -/
theorem set_node_attributes_dict_name {s : HG} (vals : List (PyId × Val)) (name : String)
    (hk : (vals.map (·.1)).Nodup) :
    SameButNattr s (setNodeAttrs s (.dictName vals name)).1 ∧
    (∀ n v, (n, v) ∈ vals → n ∈ s.nattrK →
      (setNodeAttrs s (.dictName vals name)).1.nattr n = (s.nattr n).set name v) ∧
    (∀ n, (n ∉ vals.map (·.1) ∨ n ∉ s.nattrK) → (setNodeAttrs s (.dictName vals name)).1.nattr n = s.nattr n) ∧
    (setNodeAttrs s (.dictName vals name)).2 = (if vals.all (fun p => p.1 ∈ s.nattrK) then .ok else .warned) := by
  have key := bulk_nodeSet (fun v : Val => [(name, v)]) vals s
  have e : setNodeAttrs s (.dictName vals name) = bulk (nodeSetStep (fun v : Val => [(name, v)])) s vals := rfl
  rw [e]
  refine ⟨key.1, ?_, ?_, key.2.2⟩
  · intro n v hv hn
    rw [key.2.1 n, if_pos hn, applyFor_unique _ vals n v _ hk hv]; rfl
  · intro n hn
    rw [key.2.1 n]
    by_cases h : n ∈ s.nattrK
    · rw [if_pos h]; exact applyFor_absent _ vals n _ (hn.resolve_right (fun x => x h))
    · rw [if_neg h]

/-- `set_node_attributes({id: {key: value}})`: the per-node dict is merged into the node's attribute dict
    (`dict.update`); same skipping / warning rule -/
theorem set_node_attributes_dict_of_dict {s : HG} (vals : List (PyId × Attrs)) (hk : (vals.map (·.1)).Nodup) :
    SameButNattr s (setNodeAttrs s (.dictOfDict vals)).1 ∧
    (∀ n d, (n, d) ∈ vals → n ∈ s.nattrK →
      (setNodeAttrs s (.dictOfDict vals)).1.nattr n = Attrs.update (s.nattr n) d) ∧
    (∀ n, (n ∉ vals.map (·.1) ∨ n ∉ s.nattrK) → (setNodeAttrs s (.dictOfDict vals)).1.nattr n = s.nattr n) ∧
    (setNodeAttrs s (.dictOfDict vals)).2 = (if vals.all (fun p => p.1 ∈ s.nattrK) then .ok else .warned) := by
  have key := bulk_nodeSet (fun d : Attrs => d) vals s
  have e : setNodeAttrs s (.dictOfDict vals) = bulk (nodeSetStep (fun d : Attrs => d)) s vals := rfl
  rw [e]
  refine ⟨key.1, ?_, ?_, key.2.2⟩
  · intro n v hv hn
    rw [key.2.1 n, if_pos hn, applyFor_unique _ vals n v _ hk hv]
  · intro n hn
    rw [key.2.1 n]
    by_cases h : n ∈ s.nattrK
    · rw [if_pos h]; exact applyFor_absent _ vals n _ (hn.resolve_right (fun x => x h))
    · rw [if_neg h]

/-- `set_node_attributes(value, name)` with a constant: every node gets `name := value`, nothing else changes -/
theorem set_node_attributes_const {s : HG} (h : WF s) (v : Val) (name : String) :
    SameButNattr s (setNodeAttrs s (.constName v name)).1 ∧
    (∀ n ∈ s.nodes, (setNodeAttrs s (.constName v name)).1.nattr n = (s.nattr n).set name v) ∧
    (setNodeAttrs s (.constName v name)).2 = .ok := by
  have key := foldl_updNodeAttr [(name, v)] s.nodes s h.nodupN
  refine ⟨key.1, ?_, rfl⟩
  intro n hn
  have := key.2 n
  rw [if_pos hn] at this
  exact this

/-- a non-dict value without a name is rejected with the library's error and no change -/
theorem set_attributes_bad (s : HG) :
    setNodeAttrs s .badNoName = (s, .err .lib) ∧ setEdgeAttrs s .badNoName = (s, .err .lib) := ⟨rfl, rfl⟩

/-- `set_edge_attributes({id: value}, name)` -/
theorem set_edge_attributes_dict_name {s : HG} (vals : List (PyId × Val)) (name : String)
    (hk : (vals.map (·.1)).Nodup) :
    SameButEattr s (setEdgeAttrs s (.dictName vals name)).1 ∧
    (∀ e v, (e, v) ∈ vals → e ∈ s.eattrK →
      (setEdgeAttrs s (.dictName vals name)).1.eattr e = (s.eattr e).set name v) ∧
    (∀ e, (e ∉ vals.map (·.1) ∨ e ∉ s.eattrK) → (setEdgeAttrs s (.dictName vals name)).1.eattr e = s.eattr e) ∧
    (setEdgeAttrs s (.dictName vals name)).2 = (if vals.all (fun p => p.1 ∈ s.eattrK) then .ok else .warned) := by
  have key := bulk_edgeSet (fun v : Val => [(name, v)]) vals s
  have e : setEdgeAttrs s (.dictName vals name) = bulk (edgeSetStep (fun v : Val => [(name, v)])) s vals := rfl
  rw [e]
  refine ⟨key.1, ?_, ?_, key.2.2⟩
  · intro n v hv hn
    rw [key.2.1 n, if_pos hn, applyFor_unique _ vals n v _ hk hv]; rfl
  · intro n hn
    rw [key.2.1 n]
    by_cases h : n ∈ s.eattrK
    · rw [if_pos h]; exact applyFor_absent _ vals n _ (hn.resolve_right (fun x => x h))
    · rw [if_neg h]

/-- `set_edge_attributes({id: {key: value}})` -/
theorem set_edge_attributes_dict_of_dict {s : HG} (vals : List (PyId × Attrs)) (hk : (vals.map (·.1)).Nodup) :
    SameButEattr s (setEdgeAttrs s (.dictOfDict vals)).1 ∧
    (∀ e d, (e, d) ∈ vals → e ∈ s.eattrK →
      (setEdgeAttrs s (.dictOfDict vals)).1.eattr e = Attrs.update (s.eattr e) d) ∧
    (∀ e, (e ∉ vals.map (·.1) ∨ e ∉ s.eattrK) → (setEdgeAttrs s (.dictOfDict vals)).1.eattr e = s.eattr e) ∧
    (setEdgeAttrs s (.dictOfDict vals)).2 = (if vals.all (fun p => p.1 ∈ s.eattrK) then .ok else .warned) := by
  have key := bulk_edgeSet (fun d : Attrs => d) vals s
  have e : setEdgeAttrs s (.dictOfDict vals) = bulk (edgeSetStep (fun d : Attrs => d)) s vals := rfl
  rw [e]
  refine ⟨key.1, ?_, ?_, key.2.2⟩
  · intro n v hv hn
    rw [key.2.1 n, if_pos hn, applyFor_unique _ vals n v _ hk hv]
  · intro n hn
    rw [key.2.1 n]
    by_cases h : n ∈ s.eattrK
    · rw [if_pos h]; exact applyFor_absent _ vals n _ (hn.resolve_right (fun x => x h))
    · rw [if_neg h]

/-- `set_edge_attributes(value, name)` with a constant -/
theorem set_edge_attributes_const {s : HG} (h : WF s) (v : Val) (name : String) :
    SameButEattr s (setEdgeAttrs s (.constName v name)).1 ∧
    (∀ e ∈ s.edges, (setEdgeAttrs s (.constName v name)).1.eattr e = (s.eattr e).set name v) ∧
    (setEdgeAttrs s (.constName v name)).2 = .ok := by
  have key := foldl_updEdgeAttr [(name, v)] s.edges s h.nodupE
  refine ⟨key.1, ?_, rfl⟩
  intro n hn
  have := key.2 n
  rw [if_pos hn] at this
  exact this

theorem addNodesFrom_frozen (s : HG) (nodes : List (PyId × Option Attrs)) (a : Attrs) :
    (addNodesFrom s nodes a).1.frozen = s.frozen := by
  refine bulk_inv (fun t => t.frozen = s.frozen) _ ?_ nodes rfl
  intro t it ht
  obtain ⟨n, od⟩ := it
  unfold addNodesItem; simp only []; split
  · exact ht
  · unfold updNodeAttr addNodeRaw; split <;> exact ht

/-- `update(edges, nodes)`: the nodes are added first, then the edges, each exactly as by the bulk call; a raise in
    the node part ends the call with the nodes added so far and no edge -/
theorem update_effect (s : HG) (fmt : Fmt) (items : List EdgeItem) (nodes : List (PyId × Option Attrs))
    (hn : nodes ≠ []) (hi : items ≠ []) (hf : s.frozen = false) :
    update s (some (fmt, items)) nodes =
      (if (addNodesFrom s nodes []).2.isErr then addNodesFrom s nodes []
       else ((addEdgesFrom (addNodesFrom s nodes []).1 fmt items []).1,
             (addNodesFrom s nodes []).2.join (addEdgesFrom (addNodesFrom s nodes []).1 fmt items []).2)) := by
  have h1 : nodes.isEmpty = false := by cases nodes <;> simp_all
  have h2 : items.isEmpty = false := by cases items <;> simp_all
  have h3 := addNodesFrom_frozen s nodes []
  simp only [update, h1, h2, guardF, hf, andThen, Bool.false_eq_true, if_false, h3]

/-- an absent part of `update` is skipped -/
theorem update_nodes_only (s : HG) (nodes : List (PyId × Option Attrs)) (hn : nodes ≠ []) (hf : s.frozen = false) :
    update s none nodes =
      (if (addNodesFrom s nodes []).2.isErr then addNodesFrom s nodes []
       else ((addNodesFrom s nodes []).1, (addNodesFrom s nodes []).2.join .ok)) := by
  have h1 : nodes.isEmpty = false := by cases nodes <;> simp_all
  simp only [update, h1, guardF, hf, andThen, Bool.false_eq_true, if_false]

/-! ### duplicate merging (every rename rule, merge rule and multiplicity option; returning, warning or raising) -/

/-- `merge_duplicate_edges` never adds or removes a node -/
theorem merge_nodes_kept {s : HG} (h : Inv s) (rename : Rename) (rule : MergeRule) (mult : Option String)
    (r : HG × Outcome) (hr : mergeDuplicateEdges s rename rule mult = some r) : r.1.nodes = s.nodes := by
  refine merge_induct h (fun t => t.nodes = s.nodes) rename rule mult r hr (fun _ => rfl) ?_ ?_
  · intro t dups _ ht _
    exact (removeEdgesFrom_fields dups t).1.trans ht
  · intro t news _ ht hn
    refine addEdgesFrom_f4_nodes [] news t s.nodes ht ?_
    intro it hit n hn'
    obtain ⟨e, he, hm⟩ := hn it hit
    rw [hm] at hn'
    exact (h.1.e2n e he n hn').1

/-- an edge that has no duplicate is left exactly as it was: it is still an edge, with the same members and the
    same attribute dict -/
theorem merge_unique_untouched {s : HG} (h : Inv s) (rename : Rename) (rule : MergeRule) (mult : Option String)
    (r : HG × Outcome) (hr : mergeDuplicateEdges s rename rule mult = some r) (e : PyId) (he : e ∈ s.edges)
    (hu : ∀ f ∈ s.edges, f ≠ e → ¬ Dup s e f) :
    e ∈ r.1.edges ∧ r.1.mem e = s.mem e ∧ r.1.eattr e = s.eattr e := by
  refine merge_induct h (fun t => e ∈ t.edges ∧ t.mem e = s.mem e ∧ t.eattr e = s.eattr e) rename rule mult r hr
    (fun _ => ⟨he, rfl, rfl⟩) ?_ ?_
  · intro t dups _ ⟨h1, h2, h3⟩ hd
    obtain ⟨_, a2, a3, _, a5⟩ := removeEdgesFrom_fields dups t
    have hnd : e ∉ dups := by
      intro hin
      obtain ⟨f, hf, hne, hdup⟩ := hd e hin
      exact hu f hf hne hdup
    exact ⟨a5 e h1 hnd, by rw [a2]; exact h2, by rw [a3]; exact h3⟩
  · intro t news ht ⟨h1, h2, h3⟩ _
    obtain ⟨⟨l, hl⟩, hk⟩ := addEdgesFrom_keeps ht .f4 news []
    have := hk e h1
    exact ⟨by rw [hl]; simp [h1], this.1.trans h2, this.2.1.trans h3⟩

/-- hence an edge disappears only if it had a duplicate -/
theorem merge_removes_only_duplicates {s : HG} (h : Inv s) (rename : Rename) (rule : MergeRule) (mult : Option String)
    (r : HG × Outcome) (hr : mergeDuplicateEdges s rename rule mult = some r) (e : PyId) (he : e ∈ s.edges)
    (hgone : e ∉ r.1.edges) : ∃ f ∈ s.edges, f ≠ e ∧ Dup s e f := by
  by_contra hc
  refine hgone (merge_unique_untouched h rename rule mult r hr e he ?_).1
  intro f hf hne hd
  exact hc ⟨f, hf, hne, hd⟩

/-- no member set is invented: every edge of the result has exactly the members of some edge of the source -/
theorem merge_member_sets_from_source {s : HG} (h : Inv s) (rename : Rename) (rule : MergeRule) (mult : Option String)
    (r : HG × Outcome) (hr : mergeDuplicateEdges s rename rule mult = some r) :
    ∀ e ∈ r.1.edges, ∃ f ∈ s.edges, ∀ x, x ∈ r.1.mem e ↔ x ∈ s.mem f := by
  refine merge_induct h (fun t => ∀ e ∈ t.edges, ∃ f ∈ s.edges, ∀ x, x ∈ t.mem e ↔ x ∈ s.mem f) rename rule mult r hr
    (fun _ e he => ⟨e, he, fun _ => Iff.rfl⟩) ?_ ?_
  · intro t dups _ ht _ e he
    obtain ⟨_, a2, _, a4, _⟩ := removeEdgesFrom_fields dups t
    rw [a2]; exact ht e (a4 e he)
  · intro t news hti ht hn e he
    rw [addEdgesFrom_f4_eq] at he ⊢
    rcases bulk_add_members .f4 [] news hti e he with ⟨h1, h2⟩ | ⟨it, hit, h2⟩
    · rw [h2]; exact ht e h1
    · obtain ⟨f, hf, hm⟩ := hn it hit
      exact ⟨f, hf, fun x => by rw [h2 x, hm]⟩

/-- **`merge_duplicate_edges(rename="new")` that returns (with or without the union warning) leaves no two edges with
    the same member set** — the new IDs come from the counter, so no re-addition is refused -/
theorem merge_new_no_duplicates {s : HG} (h : Inv s) (rule : MergeRule) (mult : Option String)
    (r : HG × Outcome) (hr : mergeDuplicateEdges s .new rule mult = some r) (hok : r.2.isErr = false) :
    ∀ e ∈ r.1.edges, ∀ f ∈ r.1.edges, e ≠ f → ¬ sameSet (r.1.mem e) (r.1.mem f) = true :=
  merge_new_no_duplicates_aux h rule mult r hr hok

/-! ### degree- and size-preserving moves -/

/-- an accepted double edge swap keeps every degree, every size, all IDs (in order) and all attributes;
    a rejected one leaves the hypergraph as it was and raises the library's error -/
theorem swap_preserves (s : HG) (n1 n2 e1 e2 : PyId) :
    ((doubleEdgeSwap s n1 n2 e1 e2).2 = .ok →
        (∀ n, degree (doubleEdgeSwap s n1 n2 e1 e2).1 n = degree s n) ∧
        (∀ e, size (doubleEdgeSwap s n1 n2 e1 e2).1 e = size s e) ∧
        (doubleEdgeSwap s n1 n2 e1 e2).1.nodes = s.nodes ∧ (doubleEdgeSwap s n1 n2 e1 e2).1.edges = s.edges ∧
        (doubleEdgeSwap s n1 n2 e1 e2).1.nattr = s.nattr ∧ (doubleEdgeSwap s n1 n2 e1 e2).1.eattr = s.eattr ∧
        (doubleEdgeSwap s n1 n2 e1 e2).1.net = s.net ∧ (doubleEdgeSwap s n1 n2 e1 e2).1.uid = s.uid) ∧
    ((doubleEdgeSwap s n1 n2 e1 e2).2 ≠ .ok → doubleEdgeSwap s n1 n2 e1 e2 = (s, .err .lib)) := by
  unfold doubleEdgeSwap
  split
  · exact ⟨fun h => (by cases h), fun _ => rfl⟩
  · split
    · exact ⟨fun h => (by cases h), fun _ => rfl⟩
    · simp only []
      split
      · exact ⟨fun h => (by cases h), fun _ => rfl⟩
      · split
        · exact ⟨fun h => (by cases h), fun _ => rfl⟩
        · rename_i hlen
          simp only [not_or, Classical.not_not] at hlen
          refine ⟨fun _ => ⟨?_, ?_, rfl, rfl, rfl, rfl, rfl, rfl⟩, fun h => absurd rfl h⟩
          · intro n; simp only [degree, upd_apply]; split
            · rename_i hn; subst hn; exact hlen.2.1
            · split
              · rename_i hn; subst hn; exact hlen.1
              · rfl
          · intro e; simp only [size, upd_apply]; split
            · rename_i he; subst he; exact hlen.2.2.2
            · split
              · rename_i he; subst he; exact hlen.2.2.1
              · rfl

/-- `random_edge_shuffle`, for EVERY admissible outcome of `random.sample` (the `choice` oracle) and every
    outcome kind: every edge size and every node degree is preserved, IDs, order and attributes are untouched -/
theorem shuffle_preserves {s : HG} (hw : WF s) (e1 e2 : PyId) (choice : List PyId) (t : HG) (o : Outcome)
    (hr : randomEdgeShuffle s e1 e2 choice = some (t, o)) :
    (∀ e, size t e = size s e) ∧ (∀ n ∈ s.nodes, degree t n = degree s n) ∧
    t.nodes = s.nodes ∧ t.edges = s.edges ∧ t.nattr = s.nattr ∧ t.eattr = s.eattr ∧ t.net = s.net ∧ t.uid = s.uid :=
  shuffle_sizes_degrees hw e1 e2 choice t o hr

/-! ### rejected edits raise the library's own error and change nothing -/

theorem missing_id_lib (s : HG) :
    (∀ n st re, n ∉ s.nodes → removeNode s n st re = (s, .err .lib)) ∧
    (∀ e, e ∉ s.edges → removeEdge s e = (s, .err .lib)) ∧
    (∀ e n re, (e ∉ s.edges ∨ n ∉ s.nodes ∨ n ∉ s.mem e) → removeNodeFromEdge s e n re = (s, .err .lib)) ∧
    (∀ n1 n2 e1 e2, (n1 ∉ s.nodes ∨ n2 ∉ s.nodes ∨ e1 ∉ s.edges ∨ e2 ∉ s.edges) → doubleEdgeSwap s n1 n2 e1 e2 = (s, .err .lib)) ∧
    (∀ a, addNode s .none a = (s, .err .lib)) ∧
    (∀ e n, (e = .none ∨ n = .none) → addNodeToEdge s e n = (s, .err .lib)) ∧
    (∀ ms idx a, PyId.none ∈ ms → addEdge s ms idx a = (s, .err .lib)) := by
  refine ⟨?_, ?_, ?_, ?_, ?_, ?_, ?_⟩
  · intro n st re h; simp [removeNode, h]
  · intro e h; simp [removeEdge, h]
  · intro e n re h; unfold removeNodeFromEdge
    by_cases h1 : e ∈ s.edges
    · by_cases h2 : n ∈ s.nodes
      · have h3 : n ∉ s.mem e := by rcases h with h | h | h <;> first | exact absurd h1 h | exact absurd h2 h | exact h
        simp [h1, h2, h3]
      · simp [h1, h2]
    · simp [h1]
  · intro n1 n2 e1 e2 h; simp only [doubleEdgeSwap, h, if_true]
  · intro a; simp [addNode]
  · intro e n h; simp [addNodeToEdge, h]
  · intro ms idx a h; simp [addEdge, h]

/-- missing IDs in `remove_nodes_from` and the attribute setters only warn and are skipped -/
theorem missing_id_warns (s : HG) (n : PyId) (st re : Bool) (h : n ∉ s.nodes) :
    removeNodesFrom s [n] st re = (s, .warned) := by
  simp [removeNodesFrom, bulk, removeNodesItem, h, Outcome.join]

/-! ### non-vacuity -/
private def s1 : HG := ((stepCore HG.empty (.addEdgesFrom .f1
  [{ members := [.int 1, .int 2, .int 3], idx := none, attr := [] }, { members := [.int 3, .int 4], idx := none, attr := [] }] [])).map (·.1)).getD HG.empty
example : (doubleEdgeSwap s1 (.int 1) (.int 4) (.int 0) (.int 1)).2 = .ok := by decide
example : (doubleEdgeSwap s1 (.int 3) (.int 4) (.int 0) (.int 1)).2 = .err .lib := by decide
example : ((removeNode s1 (.int 3) true true).1).edges = [] := by decide
example : ((removeNode s1 (.int 4) false true).1).mem (.int 1) = [.int 3] := by decide
example : (randomEdgeShuffle s1 (.int 0) (.int 1) [.int 4, .int 1]).map (fun r => (r.2, r.1.mem (.int 0), r.1.mem (.int 1)))
    = some (.ok, [.int 4, .int 1, .int 3], [.int 2, .int 3]) := by decide

/-- a network with a duplicate pair (edges 0 and 1) and a unique edge (2): merging returns, the unique edge is
    untouched, one representative of the pair remains (`rename="first"`) or a fresh ID is used (`rename="new"`) -/
private def s2 : HG := ((stepCore HG.empty (.addEdgesFrom .f1
  [{ members := [.int 1, .int 2], idx := none, attr := [] }, { members := [.int 2, .int 1], idx := none, attr := [] },
   { members := [.int 3], idx := none, attr := [] }] [])).map (·.1)).getD HG.empty
example : (mergeDuplicateEdges s2 .first .first none).map (fun r => (r.2, r.1.edges, r.1.mem (.int 0), r.1.nodes))
    = some (.ok, [.int 2, .int 0], [.int 1, .int 2], [.int 1, .int 2, .int 3]) := by decide +kernel
example : (mergeDuplicateEdges s2 .new .first (some "multiplicity")).map (fun r => (r.1.edges, r.1.eattr (.int 3), r.1.uid))
    = some ([.int 2, .int 3], [("multiplicity", .sc (.int 2))], 4) := by decide +kernel
example : Dup s2 (.int 0) (.int 1) ∧ ¬ Dup s2 (.int 2) (.int 0) := by unfold Dup; decide +kernel

end Xgi.C05
