/-
  C07 (directed part) — Copies, pickles and network-to-network constructors of `DiHypergraph` are equal
  (and keep assigning fresh edge IDs).  Property theorems only.  Models: `DHG.copy` (C02/DHG.lean),
  `DHG.pickleRoundTrip`, `DHG.ofNetwork` (C02/Copy.lean) — the functions the driver `DHG` runs for the requests
  `copy`, `pickle`, `construct`.  Helper lemmas: C02/LemmasCopy.lean, C02/LemmasAttrs.lean.
  Independence (no shared mutable container, frame rule) is Part 2 of Props/C07.lean and does not depend on
  the class.  Audited together with Props/C07.lean.

  For every state satisfying the invariant of C02 (`DHG.Inv`: directed two-way incidence, one attribute record
  per ID, counter above all integer edge IDs) whose attribute dicts are dicts (`DHG.AttrsOKD`; both hold in
  every reachable state) and whose first edge ID is not a tuple (`DHG.FirstIdOK`, the domain of the model of
  `add_edges_from`; not needed for pickle), each of the three clones shows the same network (`DHG.SameNetD`),
  is unfrozen, satisfies the invariant again — so it keeps assigning fresh edge IDs — and the call neither
  raises nor warns.
-/
import XgiModel.C02.LemmasAttrs
import XgiModel.Props.C02

namespace Xgi.C07D
open Xgi Xgi.DHG

/-! ### `DiHypergraph.copy` -/

/-- `copy()` is inside the model and returns normally: no exception, no "uid already exists" warning -/
theorem copy_ok {s : DHG} (h : Inv s) (ha : AttrsOKD s) (hf : FirstIdOK s) : ∃ t, copy s = some (t, .ok) := by
  obtain ⟨t, ht, _⟩ := copy_char h.1 ha hf
  exact ⟨_, ht⟩

/-- whenever `copy()` is inside the model, the first edge ID is not a tuple (so `copy_snapshot` needs no such
    hypothesis) and conversely -/
theorem copy_defined_iff {s : DHG} (h : Inv s) (ha : AttrsOKD s) : (copy s).isSome = true ↔ FirstIdOK s := by
  constructor
  · intro hs
    have hok := (nodeStageD_all h.1 ha.nattr).1
    rw [copy_eq_items] at hs
    simp only [hok, Outcome.isErr, Bool.false_eq_true, if_false] at hs
    cases heq : addEdgesFrom (addNodesFrom DHG.empty (nodeItems s) []).1 .f4 (edgeItems s) [] with
    | none => rw [heq] at hs; cases hs
    | some r2 => exact firstIdOK_of_some heq
  · intro hf
    obtain ⟨t, ht⟩ := copy_ok h ha hf
    rw [ht]; rfl

/-- the copy shows the same network: nodes and edges in the same order, the same tail and head for every edge,
    the same in- and out-memberships for every node, the same attribute dict for every node / edge / the
    network; the **same counter**; it is not frozen (whatever the source is); the call returned normally -/
theorem copy_snapshot {s : DHG} (h : Inv s) (ha : AttrsOKD s) (r : DHG × Outcome) (hr : copy s = some r) :
    SameNetD s r.1 ∧ r.1.uid = s.uid ∧ r.1.frozen = false ∧ r.2 = .ok := by
  have hf : FirstIdOK s := (copy_defined_iff h ha).mp (by rw [hr]; rfl)
  obtain ⟨t, ht, hst⟩ := copy_char h.1 ha hf
  rw [ht] at hr; cases hr
  exact ⟨sameNetD_of_edgeStageD h.1 hst s.uid, rfl, hst.frozen, rfl⟩

/-- the copy satisfies the invariant again (directed two-way incidence, attribute records, counter above all
    integer IDs) — for every source satisfying it, whatever the call returned -/
theorem copy_inv {s : DHG} (h : Inv s) (r : DHG × Outcome) (hr : copy s = some r) : Inv r.1 :=
  DHG.copy_inv h r hr

/-- the copy's attribute dicts are dicts again -/
theorem copy_attrs {s : DHG} (ha : AttrsOKD s) (r : DHG × Outcome) (hr : copy s = some r) : AttrsOKD r.1 :=
  copy_attrs' ha r hr

/-- both sides keep assigning fresh edge IDs: on the source and on the copy the next automatic ID is not an
    existing edge ID, and it is the same number on both sides -/
theorem copy_fresh {s : DHG} (h : Inv s) (ha : AttrsOKD s) (r : DHG × Outcome) (hr : copy s = some r) :
    PyId.int s.uid ∉ s.edges ∧ PyId.int r.1.uid ∉ r.1.edges ∧ r.1.uid = s.uid :=
  ⟨uid_not_mem h.2, uid_not_mem (copy_inv h r hr).2, (copy_snapshot h ha r hr).2.1⟩

/-! ### pickle round trip -/

/-- the unpickled network shows the same network (here even with the same iteration order inside every set),
    has the same counter, and is not frozen -/
theorem pickle_snapshot {s : DHG} (h : Inv s) :
    SameNetD s (pickleRoundTrip s) ∧ (pickleRoundTrip s).uid = s.uid ∧ (pickleRoundTrip s).frozen = false := by
  obtain ⟨p1, p2, p3, p4, p5, p6, p7, p8, p9, p10, p11⟩ := pickle_char s
  refine ⟨⟨p1, p2, ?_, ?_, ?_, ?_, ?_, ?_, ?_, ?_, p5⟩, p6, p7⟩
  · intro e he x; rw [(p9 e he).1]
  · intro e he x; rw [(p9 e he).2]
  · intro n hn e; rw [(p8 n hn).1]
  · intro n hn e; rw [(p8 n hn).2]
  · intro n hn; exact p10 n ((h.1.attrN n).mpr hn)
  · intro e he; exact p11 e ((h.1.attrE e).mpr he)
  · intro n; rw [p3]
  · intro e; rw [p4]

theorem pickle_inv {s : DHG} (h : Inv s) : Inv (pickleRoundTrip s) := by
  have hs := pickle_snapshot h
  exact ⟨pickle_wfd h.1, fresh_of_subset h.2 (by rw [hs.1.edges]; exact fun _ x => x) (by rw [hs.2.1]; exact Nat.le_refl _)⟩

theorem pickle_attrs {s : DHG} (ha : AttrsOKD s) : AttrsOKD (pickleRoundTrip s) := pickle_attrs' ha

theorem pickle_fresh {s : DHG} (h : Inv s) :
    PyId.int s.uid ∉ s.edges ∧ PyId.int (pickleRoundTrip s).uid ∉ (pickleRoundTrip s).edges ∧
    (pickleRoundTrip s).uid = s.uid :=
  ⟨uid_not_mem h.2, uid_not_mem (pickle_inv h).2, (pickle_snapshot h).2.1⟩

/-! ### `DiHypergraph(DH, **attr)` -/

theorem ofNetwork_ok {s : DHG} (h : Inv s) (ha : AttrsOKD s) (hf : FirstIdOK s) (attr : Attrs) :
    ∃ t, ofNetwork s attr = some (t, .ok) := by
  obtain ⟨t, ht, _⟩ := ofNetwork_char h.1 ha hf attr
  exact ⟨_, ht⟩

theorem ofNetwork_defined_iff {s : DHG} (h : Inv s) (ha : AttrsOKD s) (attr : Attrs) :
    (ofNetwork s attr).isSome = true ↔ FirstIdOK s := by
  constructor
  · intro hs
    cases hr : ofNetwork s attr with
    | none => rw [hr] at hs; cases hs
    | some r =>
      have hok := (nodeStageD_all h.1 ha.nattr).1
      unfold ofNetwork at hr
      simp only [clear_empty, hok, Outcome.isErr, Bool.false_eq_true, if_false] at hr
      cases heq : addEdgesFrom (addNodesFrom DHG.empty (nodeItems s) []).1 .f4 (edgeItems s) [] with
      | none => rw [heq] at hr; cases hr
      | some r2 => exact firstIdOK_of_some heq
  · intro hf
    obtain ⟨t, ht⟩ := ofNetwork_ok h ha hf attr
    rw [ht]; rfl

/-- the constructed network shows the same network — its network attributes are the source's updated with the
    keyword arguments (with none given: the source's) — is not frozen, and the call returned normally -/
theorem ofNetwork_snapshot {s : DHG} (h : Inv s) (ha : AttrsOKD s) (attr : Attrs) (r : DHG × Outcome)
    (hr : ofNetwork s attr = some r) :
    SameNetD s { r.1 with net := s.net } ∧ r.1.net = s.net.update attr ∧ r.1.frozen = false ∧ r.2 = .ok := by
  have hf : FirstIdOK s := (ofNetwork_defined_iff h ha attr).mp (by rw [hr]; rfl)
  obtain ⟨t, ht, hst⟩ := ofNetwork_char h.1 ha hf attr
  rw [ht] at hr; cases hr
  exact ⟨sameNetD_of_edgeStageD h.1 hst t.uid, rfl, hst.frozen, rfl⟩

/-- without keyword arguments the constructed network is the same network outright -/
theorem ofNetwork_snapshot_plain {s : DHG} (h : Inv s) (ha : AttrsOKD s) (r : DHG × Outcome)
    (hr : ofNetwork s = some r) : SameNetD s r.1 := by
  have hf : FirstIdOK s := (ofNetwork_defined_iff h ha []).mp (by rw [hr]; rfl)
  obtain ⟨t, ht, hst⟩ := ofNetwork_char h.1 ha hf []
  rw [ht] at hr; cases hr
  exact sameNetD_of_edgeStageD h.1 hst t.uid

/-- the counter is **not** copied by the constructor; what the code guarantees is that it is the *least* admissible
    one: above every integer edge ID (so automatic IDs are fresh) and not above any other such bound — in
    particular never above the source's counter -/
theorem ofNetwork_uid {s : DHG} (h : Inv s) (ha : AttrsOKD s) (attr : Attrs) (r : DHG × Outcome)
    (hr : ofNetwork s attr = some r) :
    UidFresh r.1 ∧ (∀ k : Nat, (∀ i : Int, PyId.int i ∈ s.edges → i < (k : Int)) → r.1.uid ≤ k) ∧ r.1.uid ≤ s.uid := by
  have hfresh : UidFresh r.1 := (ofNetwork_inv' h attr r hr).2
  have hf : FirstIdOK s := (ofNetwork_defined_iff h ha attr).mp (by rw [hr]; rfl)
  obtain ⟨t, ht, hst⟩ := ofNetwork_char h.1 ha hf attr
  rw [ht] at hr; cases hr
  have hleast : ∀ k : Nat, (∀ i : Int, PyId.int i ∈ s.edges → i < (k : Int)) → t.uid ≤ k := by
    intro k hk
    rcases hst.tight with h0 | ⟨i, hi, hiu⟩
    · omega
    · rw [hst.edges] at hi; have := hk i hi; omega
  exact ⟨hfresh, hleast, hleast s.uid h.2⟩

/-- the constructed network satisfies the invariant again — for every source satisfying it, whatever the call returned -/
theorem ofNetwork_inv {s : DHG} (h : Inv s) (attr : Attrs) (r : DHG × Outcome) (hr : ofNetwork s attr = some r) :
    Inv r.1 := ofNetwork_inv' h attr r hr

theorem ofNetwork_attrs {s : DHG} (ha : AttrsOKD s) (attr : Attrs) (r : DHG × Outcome)
    (hr : ofNetwork s attr = some r) : AttrsOKD r.1 := ofNetwork_attrs' ha attr r hr

/-- both sides keep assigning fresh edge IDs (the two next IDs may differ) -/
theorem ofNetwork_fresh {s : DHG} (h : Inv s) (attr : Attrs) (r : DHG × Outcome) (hr : ofNetwork s attr = some r) :
    PyId.int s.uid ∉ s.edges ∧ PyId.int r.1.uid ∉ r.1.edges :=
  ⟨uid_not_mem h.2, uid_not_mem (ofNetwork_inv h attr r hr).2⟩

/-! ### consequences for every network that can be built, and for everything done afterwards -/

/-- attribute dicts stay dicts under every public call (returning or raising) -/
theorem C07D_step_attrs {s : DHG} (h : AttrsOKD s) (op : Op) (r : DHG × Outcome) (hr : step s op = some r) :
    AttrsOKD r.1 := step_attrs h op r hr

/-- the states reachable from the empty dihypergraph by public calls **and** by cloning (the history continues on
    the clone) -/
inductive ReachableX : DHG → Prop
  | empty : ReachableX DHG.empty
  | step {s : DHG} {op : Op} {r : DHG × Outcome} : ReachableX s → step s op = some r → ReachableX r.1
  | clone {s : DHG} {c : CloneRoute} {r : DHG × Outcome} : ReachableX s → clone s c = some r → ReachableX r.1

/-- every such state meets the hypotheses of the theorems above (in particular every state of `C02.Reachable`) -/
theorem C07D_reachable {s : DHG} (h : ReachableX s) : Inv s ∧ AttrsOKD s := by
  induction h with
  | empty => exact ⟨empty_inv, attrsOKD_empty⟩
  | step _ hr ih => exact ⟨step_inv ih.1 _ _ hr, step_attrs ih.2 _ _ hr⟩
  | @clone s c r _ hr ih =>
    cases c with
    | copy => exact ⟨copy_inv ih.1 r hr, copy_attrs ih.2 r hr⟩
    | pickle =>
      simp only [clone, Option.some.injEq] at hr; subst hr
      exact ⟨pickle_inv ih.1, pickle_attrs ih.2⟩
    | ctor attr => exact ⟨ofNetwork_inv ih.1 attr r hr, ofNetwork_attrs ih.2 attr r hr⟩

theorem C07D_reachable_of_C02 {s : DHG} (h : C02.Reachable s) : ReachableX s := by
  induction h with
  | empty => exact .empty
  | step _ hr ih => exact .step ih hr

/-- … so for every reachable network each clone that the model defines shows the same network, and each clone is
    again a state in which the invariant holds: every later history on either side (C02_history) keeps both
    well-formed -/
theorem C07D_clones {s : DHG} (h : ReachableX s) :
    (∀ r, copy s = some r → SameNetD s r.1 ∧ Inv r.1 ∧ AttrsOKD r.1) ∧
    (SameNetD s (pickleRoundTrip s) ∧ Inv (pickleRoundTrip s) ∧ AttrsOKD (pickleRoundTrip s)) ∧
    (∀ r, ofNetwork s = some r → SameNetD s r.1 ∧ Inv r.1 ∧ AttrsOKD r.1) := by
  obtain ⟨hi, ha⟩ := C07D_reachable h
  exact ⟨fun r hr => ⟨(copy_snapshot hi ha r hr).1, copy_inv hi r hr, copy_attrs ha r hr⟩,
         ⟨(pickle_snapshot hi).1, pickle_inv hi, pickle_attrs ha⟩,
         fun r hr => ⟨ofNetwork_snapshot_plain hi ha r hr, ofNetwork_inv hi [] r hr, ofNetwork_attrs ha [] r hr⟩⟩

/-- after the clone, an `add_edge` (any member shape, automatic or explicit ID, returning / warning / raising) on
    the clone keeps every edge the clone had: position, tail, head, attributes — the clone never overwrites what
    it copied -/
theorem C07D_clone_adds_keep {s : DHG} (h : Inv s) (c : CloneRoute) (r : DHG × Outcome) (hr : clone s c = some r)
    (m : DiMembers) (idx : Option PyId) (a : Attrs) : KeepsD r.1 (addEdge r.1 m idx a).1 := by
  have hi : Inv r.1 := by
    cases c with
    | copy => exact copy_inv h r hr
    | pickle => simp only [clone, Option.some.injEq] at hr; subst hr; exact pickle_inv h
    | ctor attr => exact ofNetwork_inv h attr r hr
  exact addEdge_keepsD hi m idx a

/-! ## non-vacuity: concrete networks meet the hypotheses; the conclusions are what one computes -/

/-- isolated node with a nested attribute value, explicit IDs 5, 0 and 3, an edge with empty head, a node on both
    sides, a removal (so the counter is above every remaining ID), a network attribute, frozen -/
private def ops0 : List Op :=
  [ .addNodesFrom [(.str "iso", some [("a", .sc (.opaque "[1, {\"s\": [1, 2]}]"))])] [],
    .addEdgesFrom .f4 [{ members := .pair [.int 1, .int 2] [.int 2], idx := some (.int 5), attr := [("w", .sc (.opaque "[1]"))] },
                       { members := .pair [.int 7] [], idx := some (.int 0), attr := [] },
                       { members := .pair [.int 2] [.str "x", .int 1], idx := some (.int 3), attr := [("c", .sc (.str "r"))] }] [],
    .removeEdge (.int 5),
    .setNetAttr "name" (.sc (.opaque "{\"x\": [1]}")),
    .freeze ]
private def s0 : DHG := (C02.run DHG.empty ops0).getD DHG.empty

example : (C02.run DHG.empty ops0).isSome = true := by decide
example : s0.nodes = [.str "iso", .int 1, .int 2, .int 7, .str "x"] ∧ s0.edges = [.int 0, .int 3] ∧ s0.uid = 6 ∧
    s0.frozen = true := by decide
example : FirstIdOK s0 := by
  intro e he
  have hh : s0.edges.head? = some (.int 0) := by decide
  rw [hh] at he; cases he; rfl
example : (copy s0).map (fun r => (r.2, r.1.nodes, r.1.edges, r.1.uid, r.1.frozen)) =
    some (.ok, s0.nodes, s0.edges, 6, false) := by decide
example : (copy s0).map (fun r => (r.1.tail (.int 3), r.1.head (.int 3), r.1.membIn (.int 1), r.1.membOut (.int 2))) =
    some ([.int 2], [.str "x", .int 1], [.int 3], [.int 3]) := by decide
example : (copy s0).map (fun r => (r.1.nattr (.str "iso"), r.1.eattr (.int 3), r.1.net)) =
    some (s0.nattr (.str "iso"), s0.eattr (.int 3), s0.net) := by decide
/-- the constructor does not copy the counter: 4 on the clone, 6 on the source — both fresh -/
example : (ofNetwork s0).map (fun r => (r.2, r.1.edges, r.1.uid, r.1.frozen)) = some (.ok, s0.edges, 4, false) ∧ s0.uid = 6 := by
  decide
example : (ofNetwork s0 [("name", .sc (.int 1)), ("z", .sc (.int 2))]).map (·.1.net) =
    some [("name", .sc (.int 1)), ("z", .sc (.int 2))] := by decide
example : (pickleRoundTrip s0).edges = s0.edges ∧ (pickleRoundTrip s0).uid = 6 ∧ (pickleRoundTrip s0).frozen = false ∧
    (pickleRoundTrip s0).eattr (.int 3) = [("c", .sc (.str "r"))] ∧ (pickleRoundTrip s0).head (.int 3) = [.str "x", .int 1] := by
  decide
/-- an automatic addition on the clone and one on the source pick IDs that are new on their own side -/
example : ((ofNetwork s0).map (fun r => (addEdge r.1 (.pair [.int 7] [.int 1]) none []).1.edges) = some [.int 0, .int 3, .int 4]) ∧
    ((copy s0).map (fun r => (addEdge r.1 (.pair [.int 7] [.int 1]) none []).1.edges) = some [.int 0, .int 3, .int 6]) := by decide
/-- outside the model: the first edge ID is a tuple -/
example : copy ((addEdge DHG.empty (.pair [.int 1] [.int 2]) (some (.tup [.int 1, .int 2])) []).1) = none := by decide

end Xgi.C07D
