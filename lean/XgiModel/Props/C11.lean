/-
  C11 — what is written to disk reads back as the same network: the text-level logic of each format.

  The theorems are about the functions of `XgiModel/C11/IO.lean` that the driver runs
  (`writeEdgelist`/`readEdgelist`, `writeBipartite`/`readBipartite`, `writeIncidence`/`readIncidence`,
  `jsonWrite`/`jsonRead`, `idToJVal`/`idOfJVal`).  File system, codec, `json`, numpy float formatting/parsing
  are identities / constants of the model (see the header of IO.lean).

  Hypotheses on labels are spelled out by `TokOK d cm t` (Lemmas.lean): the rendered label `t` is non-empty,
  does not contain the delimiter `d`, the comment token `cm`, or a newline, and does not begin or end with
  whitespace (`line.strip()` would eat it); `DelimOK`: the delimiter is not the comment token or the newline.
  They hold for every int label as soon as delimiter and comment token are not a digit or `-` (`tokOK_int`).

  Section (e): the two JSON file formats as whole files (`write_hif`/`read_hif`, `write_json`/`read_json` of
  `XgiModel/C11/Hif.lean`, which the driver runs for the requests "hif" / "jsonfull") = `json.dumps`/`json.loads`
  (abstract `JsonLayer`, hypothesis `RoundTrip`) around the dict converters of the C10 model; the theorems compose
  that hypothesis with C10's `hif_rt`, `hifDi_rt`, `hif_rt_sc`, `hypergraphDict_rt` (imported from Props/C10).
-/
import XgiModel.C11.Lemmas
import XgiModel.C11.LemmasHif
import XgiModel.Props.C10

namespace Xgi.C11

open Xgi.C10 (ANet ADiNet Hif HDict Inc DInc DWF AWF ADWF SCWF SCClosed hasSimplex dEdgeIds IdType strCast)

/-! ### (a) edge list -/

/-- Edge-list round trip (general form): if no rendered label contains the delimiter (etc., `TokOK`), every
    edge is non-empty, and the cast undoes `str` on the labels, the reader rebuilds from the written file
    exactly the network `add_edge` builds from the original member lists, in order. -/
theorem edgelist_rt (d : Char) (cm : Option Char) (ty : Ty) (edges : List (List Atom))
    (hd : DelimOK d cm) (hne : ∀ e ∈ edges, e ≠ [])
    (hl : ∀ e ∈ edges, ∀ a ∈ e, TokOK d cm (renderAtom a) ∧ cast ty (renderAtom a) = .ok a) :
    readEdgelist cm (some d) ty (writeEdgelist d edges) = .ok (netOfEdgeList edges) := by
  apply edgelist_core d cm (some d) ty edges _ (fun e he a ha => (hl e he a ha).2)
  apply tokens_of_generated_file d cm hd
  · intro ts hts
    simp only [List.mem_map] at hts
    obtain ⟨e, he, rfl⟩ := hts
    simpa using hne e he
  · intro ts hts t ht
    simp only [List.mem_map] at hts
    obtain ⟨e, he, rfl⟩ := hts
    simp only [List.mem_map] at ht
    obtain ⟨a, ha, rfl⟩ := ht
    exact (hl e he a ha).1

/-- The same for the reader's default `delimiter=None` (split on runs of whitespace) on a file written with a
    whitespace delimiter (`" "` or `"\t"`): labels must then be free of whitespace altogether. -/
theorem edgelist_rt_ws (d : Char) (cm : Option Char) (ty : Ty) (edges : List (List Atom))
    (hsp : pySpace d = true) (hdnl : d ≠ '\n') (hcd : cm ≠ some d) (hcnl : cm ≠ some '\n')
    (hne : ∀ e ∈ edges, e ≠ [])
    (hl : ∀ e ∈ edges, ∀ a ∈ e, TokWs cm (renderAtom a) ∧ cast ty (renderAtom a) = .ok a) :
    readEdgelist cm none ty (writeEdgelist d edges) = .ok (netOfEdgeList edges) := by
  apply edgelist_core d cm none ty edges _ (fun e he a ha => (hl e he a ha).2)
  apply tokens_of_generated_file_ws d cm hsp hdnl hcd hcnl
  · intro ts hts
    simp only [List.mem_map] at hts
    obtain ⟨e, he, rfl⟩ := hts
    simpa using hne e he
  · intro ts hts t ht
    simp only [List.mem_map] at hts
    obtain ⟨e, he, rfl⟩ := hts
    simp only [List.mem_map] at ht
    obtain ⟨a, ha, rfl⟩ := ht
    exact (hl e he a ha).1

/-- … and that network has the original member lists, position by position, under IDs 0,1,2,…, and exactly
    the nodes that occur in an edge (edge IDs and isolated nodes are not part of this format). -/
theorem edgelist_rt_same_edges (d : Char) (cm : Option Char) (ty : Ty) (edges : List (List Atom))
    (hd : DelimOK d cm) (hne : ∀ e ∈ edges, e ≠ []) (hnd : ∀ e ∈ edges, e.Nodup)
    (hl : ∀ e ∈ edges, ∀ a ∈ e, TokOK d cm (renderAtom a) ∧ cast ty (renderAtom a) = .ok a) :
    ∃ h, readEdgelist cm (some d) ty (writeEdgelist d edges) = .ok h ∧
      h.edges.map (·.2) = edges ∧
      h.edges.map (·.1) = (List.range edges.length).map (fun (i : Nat) => Atom.int (i : Int)) ∧
      ∀ n, n ∈ h.nodes ↔ ∃ e ∈ edges, n ∈ e := by
  refine ⟨_, edgelist_rt d cm ty edges hd hne hl, ?_, ?_, ?_⟩
  · simp only [netOfEdgeList, List.map_map]
    have : ∀ (k : Nat), (edges.zipIdx k).map ((fun x : Atom × List Atom => x.2) ∘ fun p => (Atom.int p.2, dedup p.1)) = edges := by
      induction edges with
      | nil => intro k; rfl
      | cons e t ih =>
        intro k
        simp only [List.zipIdx_cons, List.map_cons, Function.comp]
        rw [dedup_of_nodup (hnd e (by simp))]
        congr 1
        exact ih (fun x hx => hne x (by simp [hx])) (fun x hx => hnd x (by simp [hx]))
          (fun x hx => hl x (by simp [hx])) (k + 1)
    exact this 0
  · simp only [netOfEdgeList, List.map_map]
    have : (edges.zipIdx).map ((fun x : Atom × List Atom => x.1) ∘ fun p => (Atom.int p.2, dedup p.1))
        = (edges.zipIdx.map Prod.snd).map (fun i : Nat => Atom.int (i : Int)) := by
      rw [List.map_map]; rfl
    rw [this, List.zipIdx_map_snd, List.range_eq_range']
  · intro n; simp [netOfEdgeList]

/-- Instance for int labels read with `nodetype=int`: any delimiter and comment token that are neither a
    digit nor `-` (in particular `" " "," ";" "|" "\t"` with `#`). -/
theorem edgelist_rt_int (d : Char) (cm : Option Char) (edges : List (List Int))
    (hd : DelimOK d cm) (hdd : d.isDigit = false ∧ d ≠ '-')
    (hc : ∀ c, cm = some c → c.isDigit = false ∧ c ≠ '-') (hne : ∀ e ∈ edges, e ≠ []) :
    readEdgelist cm (some d) .int (writeEdgelist d (edges.map (fun e => e.map Atom.int))) =
      .ok (netOfEdgeList (edges.map (fun e => e.map Atom.int))) := by
  apply edgelist_rt d cm .int _ hd
  · intro e he; simp only [List.mem_map] at he; obtain ⟨e', he', rfl⟩ := he
    simpa using hne e' he'
  · intro e he a ha
    simp only [List.mem_map] at he; obtain ⟨e', _, rfl⟩ := he
    simp only [List.mem_map] at ha; obtain ⟨i, _, rfl⟩ := ha
    exact ⟨tokOK_int d cm i hdd hc, cast_int i⟩

/-- the delimiters of the statement (`" " "," ";" "|" "\t"`) with the default comment token `#` meet every side
    condition of `edgelist_rt_int` / `bipartite_rt` -/
theorem delimOK_standard (d : Char) (h : d ∈ [' ', ',', ';', '|', '\t']) :
    DelimOK d (some '#') ∧ (d.isDigit = false ∧ d ≠ '-') ∧ (∀ c, some '#' = some c → c.isDigit = false ∧ c ≠ '-') := by
  simp only [List.mem_cons, List.not_mem_nil, or_false] at h
  refine ⟨?_, ?_, by intro c hc; cases hc; decide⟩
  · rcases h with rfl | rfl | rfl | rfl | rfl <;> exact ⟨by decide, by decide, by decide⟩
  · rcases h with rfl | rfl | rfl | rfl | rfl <;> decide

/-- Instance for str labels read with `nodetype=None` (or `str`): the cast is the identity, so only the
    format conditions on the labels remain. -/
theorem edgelist_rt_str (d : Char) (cm : Option Char) (ty : Ty) (hty : ty = .none ∨ ty = .str)
    (edges : List (List String)) (hd : DelimOK d cm) (hne : ∀ e ∈ edges, e ≠ [])
    (hl : ∀ e ∈ edges, ∀ s ∈ e, TokOK d cm s.toList) :
    readEdgelist cm (some d) ty (writeEdgelist d (edges.map (fun e => e.map Atom.str))) =
      .ok (netOfEdgeList (edges.map (fun e => e.map Atom.str))) := by
  apply edgelist_rt d cm ty _ hd
  · intro e he; simp only [List.mem_map] at he; obtain ⟨e', he', rfl⟩ := he
    simpa using hne e' he'
  · intro e he a ha
    simp only [List.mem_map] at he; obtain ⟨e', he', rfl⟩ := he
    simp only [List.mem_map] at ha; obtain ⟨s, hs, rfl⟩ := ha
    refine ⟨hl e' he' s hs, ?_⟩
    rcases hty with rfl | rfl
    · exact cast_str_none s
    · exact cast_str_str s

/-! ### (b) bipartite edge list -/

/-- Bipartite edge-list round trip, both `dual` settings: the reader hands to `add_node_to_edge` exactly the
    written incidences, in order — as `(node, edge)` for `dual=False`, with the two columns exchanged for
    `dual=True` (then `nodetype` is applied to the written edge IDs and `edgetype` to the written node IDs). -/
theorem bipartite_rt (d : Char) (cm : Option Char) (nty ety : Ty) (dual : Bool)
    (edges : List (Atom × List Atom)) (hd : DelimOK d cm)
    (hl : ∀ p ∈ incOf edges, TokOK d cm (renderAtom p.1) ∧ TokOK d cm (renderAtom p.2) ∧
      cast (if dual then ety else nty) (renderAtom p.1) = .ok p.1 ∧
      cast (if dual then nty else ety) (renderAtom p.2) = .ok p.2) :
    readBipartite cm (some d) nty ety dual (writeBipartite d edges) =
      .ok (netOfPairs (if dual then (incOf edges).map Prod.swap else incOf edges)) := by
  apply bipartite_core d cm (some d) nty ety dual edges _ (fun p hp => ⟨(hl p hp).2.2.1, (hl p hp).2.2.2⟩)
  apply tokens_of_generated_file d cm hd
  · intro ts hts; simp only [List.mem_map] at hts; obtain ⟨p, _, rfl⟩ := hts; simp
  · intro ts hts t ht
    simp only [List.mem_map] at hts; obtain ⟨p, hp, rfl⟩ := hts
    simp only [List.mem_cons, List.not_mem_nil, or_false] at ht
    rcases ht with rfl | rfl
    · exact (hl p hp).1
    · exact (hl p hp).2.1

/-- The same for `delimiter=None` on a file written with a whitespace delimiter. -/
theorem bipartite_rt_ws (d : Char) (cm : Option Char) (nty ety : Ty) (dual : Bool)
    (edges : List (Atom × List Atom))
    (hsp : pySpace d = true) (hdnl : d ≠ '\n') (hcd : cm ≠ some d) (hcnl : cm ≠ some '\n')
    (hl : ∀ p ∈ incOf edges, TokWs cm (renderAtom p.1) ∧ TokWs cm (renderAtom p.2) ∧
      cast (if dual then ety else nty) (renderAtom p.1) = .ok p.1 ∧
      cast (if dual then nty else ety) (renderAtom p.2) = .ok p.2) :
    readBipartite cm none nty ety dual (writeBipartite d edges) =
      .ok (netOfPairs (if dual then (incOf edges).map Prod.swap else incOf edges)) := by
  apply bipartite_core d cm none nty ety dual edges _ (fun p hp => ⟨(hl p hp).2.2.1, (hl p hp).2.2.2⟩)
  apply tokens_of_generated_file_ws d cm hsp hdnl hcd hcnl
  · intro ts hts; simp only [List.mem_map] at hts; obtain ⟨p, _, rfl⟩ := hts; simp
  · intro ts hts t ht
    simp only [List.mem_map] at hts; obtain ⟨p, hp, rfl⟩ := hts
    simp only [List.mem_cons, List.not_mem_nil, or_false] at ht
    rcases ht with rfl | rfl
    · exact (hl p hp).1
    · exact (hl p hp).2.1

/-- … hence the network read back has exactly the written incidences (exchanged for `dual`), exactly the
    nodes that occur in one, and the edge IDs in order of first appearance. -/
theorem bipartite_rt_same_incidences (d : Char) (cm : Option Char) (nty ety : Ty) (dual : Bool)
    (edges : List (Atom × List Atom)) (hd : DelimOK d cm)
    (hl : ∀ p ∈ incOf edges, TokOK d cm (renderAtom p.1) ∧ TokOK d cm (renderAtom p.2) ∧
      cast (if dual then ety else nty) (renderAtom p.1) = .ok p.1 ∧
      cast (if dual then nty else ety) (renderAtom p.2) = .ok p.2) :
    ∃ h, readBipartite cm (some d) nty ety dual (writeBipartite d edges) = .ok h ∧
      (∀ n e, (n, e) ∈ h.inc ↔ (if dual then (e, n) else (n, e)) ∈ incOf edges) ∧
      (∀ n, n ∈ h.nodes ↔ ∃ e, (if dual then (e, n) else (n, e)) ∈ incOf edges) ∧
      (h.edges.map (·.1)).Nodup := by
  refine ⟨_, bipartite_rt d cm nty ety dual edges hd hl, ?_, ?_, ?_⟩
  · intro n e
    rw [mem_inc_netOfPairs]
    cases dual
    · simp
    · simp only [if_true, List.mem_map]
      constructor
      · rintro ⟨p, hp, hpe⟩
        have : p = (e, n) := by cases p; simp [Prod.swap] at hpe; simp [hpe]
        rw [← this]; exact hp
      · intro hp; exact ⟨(e, n), hp, rfl⟩
  · intro n
    rw [mem_nodes_netOfPairs]
    cases dual
    · simp
    · simp only [if_true, List.mem_map]
      constructor
      · rintro ⟨e, p, hp, hpe⟩
        have : p = (e, n) := by cases p; simp [Prod.swap] at hpe; simp [hpe]
        exact ⟨e, by rw [← this]; exact hp⟩
      · rintro ⟨e, hp⟩; exact ⟨e, (e, n), hp, rfl⟩
  · rw [edgeIds_netOfPairs]; exact nodup_dedup _

/-! ### (c) incidence-matrix text -/

/-- Matrix text round trip for **every shape n×m with n, m ≥ 1** — including a single row and a single
    column: the rows read back are the rows written (the reader preserves the shape). -/
theorem incidence_text_rt (d : Char) (cm : Option Char) (hd : MatDelimOK d cm) (m : List (List Bool)) (k : Nat)
    (hrows : m ≠ []) (hcols : ∀ r ∈ m, r.length = k) (hk : 0 < k) :
    parseMatrixLines cm (some d) (readLines (fileText (genMatrix d m))) = .ok m := by
  unfold parseMatrixLines
  rw [rows_of_generated_matrix d cm hd m, mapRes_id_ok]
  · obtain ⟨r, rs, rfl⟩ := List.exists_cons_of_ne_nil hrows
    simp only [Res.bind_ok]
    have : rs.all (fun r' => decide (r'.length = r.length)) = true := by
      rw [List.all_eq_true]; intro x hx
      simp [hcols x (by simp [hx]), hcols r (by simp)]
    simp [this]
  · intro r hr hnil
    have := hcols r hr
    rw [hnil] at this; simp at this; omega

/-- Network level: a network with at least one node and one edge written as an incidence matrix reads back
    with incidence `(i, j)` exactly when the `i`-th node (view order) belongs to the `j`-th edge — also when
    there is exactly one node or exactly one edge. -/
theorem incidence_net_rt (d : Char) (cm : Option Char) (hd : MatDelimOK d cm) (h : TNet)
    (hn : h.nodes ≠ []) (he : h.edges ≠ []) :
    ∃ r, readIncidence cm (some d) (writeIncidence d h) = .ok r ∧
      ∀ i j : Nat, (Atom.int i, Atom.int j) ∈ r.inc ↔
        ∃ n e, h.nodes[i]? = some n ∧ h.edges[j]? = some e ∧ n ∈ e.2 := by
  refine ⟨netOfMatrix (incMatrix h), ?_, ?_⟩
  · unfold readIncidence writeIncidence
    have h1 : h.nodes.isEmpty = false := by simpa using hn
    have h2 : h.edges.isEmpty = false := by simpa using he
    rw [incidence_text_rt d cm hd (incMatrix h) h.edges.length]
    · rfl
    · simp only [incMatrix, h1, h2, Bool.or_self, Bool.false_eq_true, if_false]; simpa using hn
    · intro r hr
      simp only [incMatrix, h1, h2, Bool.or_self, Bool.false_eq_true, if_false, List.mem_map] at hr
      obtain ⟨n, _, rfl⟩ := hr; simp
    · exact List.length_pos_iff.2 he
  · intro i j
    rw [mem_inc_netOfMatrix, incMatrix_entry h hn he]

/-- the delimiters of the statement (`" " "," ";" "|" "\t"`) with the default comment token `#` qualify -/
theorem matDelimOK_standard (d : Char) (h : d ∈ [' ', ',', ';', '|', '\t']) : MatDelimOK d (some '#') := by
  simp only [List.mem_cons, List.not_mem_nil, or_false] at h
  rcases h with rfl | rfl | rfl | rfl | rfl <;>
    exact ⟨by decide, by decide, by decide, by intro c hc; cases hc; decide⟩

/-! ### (d) IDs as JSON object keys vs IDs as JSON values -/

/-- `write_json` / `read_json`: IDs become object keys, i.e. strings; reading them back with the documented
    `nodetype` / `edgetype` recovers the network's IDs and members whenever these casts undo `str` on the
    IDs (which makes `str` injective on them, so the writer's collision check passes). -/
theorem json_keys (nty ety : Ty) (h : TNet) (hn : h.nodes.Nodup) (he : (h.edges.map (·.1)).Nodup)
    (hm : ∀ e ∈ h.edges, e.2.Nodup ∧ ∀ n ∈ e.2, n ∈ h.nodes)
    (cn : ∀ n ∈ h.nodes, cast nty (renderAtom n) = .ok n)
    (ce : ∀ e ∈ h.edges, cast ety (renderAtom e.1) = .ok e.1) :
    ∃ doc, jsonWrite h = .ok doc ∧ jsonRead nty ety doc = .ok h := by
  have h1 : (dedup (h.nodes.map renderAtom)).length = h.nodes.length := by
    rw [dedup_of_nodup (nodup_map_render hn cn)]; simp
  have h2 : (dedup (h.edges.map (fun e => renderAtom e.1))).length = h.edges.length := by
    have : h.edges.map (fun e => renderAtom e.1) = (h.edges.map (·.1)).map renderAtom := by simp [List.map_map]
    rw [this, dedup_of_nodup (nodup_map_render (ty := ety) he ?_)]
    · simp
    · intro a ha; simp only [List.mem_map] at ha; obtain ⟨e, hee, rfl⟩ := ha; exact ce e hee
  refine ⟨_, by simp only [jsonWrite, h1, h2, ne_eq, not_true_eq_false, if_false]; rfl, ?_⟩
  unfold jsonRead
  simp only []
  rw [mapRes_cast_render nty h.nodes cn]
  simp only [Res.bind_ok]
  have hes : mapRes (fun e : Text × List Text => (cast ety e.1).bind fun idx => (mapRes (cast nty) e.2).bind fun ms => Res.ok (idx, ms))
      (h.edges.map (fun e => (renderAtom e.1, e.2.map renderAtom))) = .ok h.edges := by
    have hm' : ∀ e ∈ h.edges, ∀ n ∈ e.2, n ∈ h.nodes := fun e he => (hm e he).2
    generalize h.edges = es at ce hm'
    induction es with
    | nil => rfl
    | cons e t ih =>
      simp only [List.map_cons, mapRes, ce e (by simp), Res.bind_ok]
      rw [mapRes_cast_render nty e.2 (fun n hn' => cn n (hm' e (by simp) n hn'))]
      simp only [Res.bind_ok]
      rw [ih (fun x hx => ce x (by simp [hx])) (fun x hx => hm' x (by simp [hx]))]
      rfl
  rw [hes]
  simp only [Res.bind_ok, dedup_of_nodup hn]
  rw [foldl_addEdge h.edges [] h.nodes (by simpa using he) hm]
  simp

/-! ### (e) the JSON file formats as whole files: `write_hif` / `read_hif`, `write_json` / `read_json`

  `write_hif = json.dumps ∘ to_hif_dict`, `read_hif = from_hif_dict ∘ json.loads` (C11/Hif.lean); the dict-level
  functions are C10's model, the `json` module is the abstract `JsonLayer` with the explicit hypothesis
  `J.RoundTrip`.  (The definitional facts `hif_ids_need_no_cast`, `hif_ids_cast`, `json_write_collision` live in
  C11/Lemmas.lean.) -/

/-- `read_hif(write_hif(H))` for a Hypergraph: a Hypergraph again, with the same node set (isolated nodes
    included), the same edge-ID set (empty edges included), the same labelled incidences, and the same network,
    node and edge attributes (attribute keys are arbitrary strings) -/
theorem write_hif_read_hif_rt {Doc : Type} (J : JsonLayer Hif Doc) (hJ : J.RoundTrip) (a : ANet) (hw : AWF a)
    (hc : a.cls = .hg) :
    ∃ r, readHif J (writeHif J (.inl a)) = .inl r ∧ r.cls = .hg ∧
      (∀ n, n ∈ r.net.nodes ↔ n ∈ a.net.nodes) ∧
      (∀ e, e ∈ r.net.edgeIds ↔ e ∈ a.net.edgeIds) ∧
      (∀ n e, Inc r.net n e ↔ Inc a.net n e) ∧
      r.gattr = a.gattr ∧
      (∀ n ∈ a.net.nodes, r.nattr n = a.nattr n) ∧
      (∀ e ∈ a.net.edgeIds, r.eattr e = a.eattr e) ∧ r.net.WF := by
  obtain ⟨r1, r2, r3, r4, r5, r6, r7, r8⟩ := C10.hif_rt a hw
  exact ⟨_, by rw [readHif_writeHif J hJ, fromHif_toHif_hg a hc], r8, r1, r2, r3, r4, r5, r6, r7⟩

/-- `read_hif(write_hif(H))` for a DiHypergraph: a DiHypergraph again, with the same node set, the same edge-ID
    set (empty edges included), the same incidences *with their direction* (tail / head), and the same network,
    node and edge attributes -/
theorem write_hif_read_hif_rt_di {Doc : Type} (J : JsonLayer Hif Doc) (hJ : J.RoundTrip) (a : ADiNet) (hw : ADWF a) :
    ∃ r, readHif J (writeHif J (.inr a)) = .inr r ∧
      (∀ n, n ∈ r.net.nodes ↔ n ∈ a.net.nodes) ∧
      (∀ e, e ∈ dEdgeIds r.net ↔ e ∈ dEdgeIds a.net) ∧
      (∀ n e d, DInc r.net n e d ↔ DInc a.net n e d) ∧
      r.gattr = a.gattr ∧
      (∀ n ∈ a.net.nodes, r.nattr n = a.nattr n) ∧
      (∀ e ∈ dEdgeIds a.net, r.eattr e = a.eattr e) ∧ DWF r.net :=
  ⟨_, by rw [readHif_writeHif_di J hJ, fromHif_toHifDi a], C10.hifDi_rt a hw⟩

/-- `read_hif(write_hif(S))` for a SimplicialComplex as xgi stores one (`SCWF`: no empty simplex, no two
    simplices with the same member set): a SimplicialComplex again, same node set, node and network attributes;
    every source simplex keeps its ID, its member set and its attributes; the result is closed under faces and
    every simplex of it lies inside a source simplex; and when the source is closed under faces (`SCClosed`) the
    edge-ID set and the labelled incidences are exactly the source's -/
theorem write_hif_read_hif_rt_sc {Doc : Type} (J : JsonLayer Hif Doc) (hJ : J.RoundTrip) (a : ANet) (hw : AWF a)
    (hc : a.cls = .sc) (hsc : SCWF a.net) :
    ∃ r, readHif J (writeHif J (.inl a)) = .inl r ∧ r.cls = .sc ∧ (∀ n, n ∈ r.net.nodes ↔ n ∈ a.net.nodes) ∧
      r.gattr = a.gattr ∧
      (∀ n ∈ a.net.nodes, r.nattr n = a.nattr n) ∧
      (∀ p ∈ a.net.edges, p.2 ≠ [] → hasSimplex r.net.edges p.2 = true) ∧
      (∀ q ∈ r.net.edges, ∀ f : List PyId, f.Sublist q.2 → 2 ≤ f.length → hasSimplex r.net.edges f = true) ∧
      (∀ q ∈ r.net.edges, ∃ p ∈ a.net.edges, ∀ x ∈ q.2, x ∈ p.2) ∧
      (∀ p ∈ a.net.edges, ∃ q ∈ r.net.edges, q.1 = p.1 ∧ ∀ x, x ∈ q.2 ↔ x ∈ p.2) ∧
      (∀ e ∈ a.net.edgeIds, r.eattr e = a.eattr e) ∧
      (SCClosed a.net → (∀ e, e ∈ r.net.edgeIds ↔ e ∈ a.net.edgeIds) ∧ (∀ n e, Inc r.net n e ↔ Inc a.net n e)) := by
  obtain ⟨r, h0, h⟩ := C10.hif_rt_sc a hw hc hsc
  exact ⟨r, by rw [readHif_writeHif J hJ, h0], h⟩

/-- `read_json(write_json(H), nodetype, edgetype)`: when the casts `nodetype` / `edgetype` undo `str` on the IDs
    and every member set can be sorted, the file is written and reads back with the same node list (isolated
    nodes, order), the same edge IDs (empty edges, order), the same labelled incidences and all three levels of
    attributes -/
theorem write_json_read_json_rt {Doc : Type} (J : JsonLayer HDict Doc) (hJ : J.RoundTrip)
    (cast : PyId → String) (un ue : String → Except C10.Err PyId) (a : ANet) (hw : AWF a)
    (hun : ∀ x ∈ a.net.nodes, un (cast x) = .ok x) (hue : ∀ e ∈ a.net.edgeIds, ue (cast e) = .ok e)
    (hs : ∀ p ∈ a.net.edges, (C10.sortIds p.2).isSome) :
    ∃ doc r, writeJson J cast a = .ok doc ∧ readJson J un ue doc = .ok r ∧
      r.net.nodes = a.net.nodes ∧ r.net.edgeIds = a.net.edgeIds ∧
      (∀ n e, Inc r.net n e ↔ Inc a.net n e) ∧
      r.gattr = a.gattr ∧ (∀ n ∈ a.net.nodes, r.nattr n = a.nattr n) ∧ (∀ e ∈ a.net.edgeIds, r.eattr e = a.eattr e) := by
  obtain ⟨d, r, h1, h2, h⟩ := C10.hypergraphDict_rt cast un ue a hw hun hue hs
  exact ⟨J.dumps d, r, writeJson_ok J cast a d h1, by rw [readJson_dumps J hJ, h2], h⟩

/-- … with the casts the driver runs (`strCast` = `str`; `nodetype` / `edgetype` = `int` or `None`), in all four
    combinations node IDs int | str × edge IDs int | str: the cast hypotheses hold and member sets of one type
    can be sorted -/
theorem write_json_read_json_rt_int_str {Doc : Type} (J : JsonLayer HDict Doc) (hJ : J.RoundTrip)
    (tn te : IdType) (a : ANet) (hw : AWF a)
    (hn : ∀ x ∈ a.net.nodes, tn.Holds x) (he : ∀ e ∈ a.net.edgeIds, te.Holds e) :
    ∃ doc r, writeJson J strCast a = .ok doc ∧ readJson J tn.uncast te.uncast doc = .ok r ∧
      r.net.nodes = a.net.nodes ∧ r.net.edgeIds = a.net.edgeIds ∧
      (∀ n e, Inc r.net n e ↔ Inc a.net n e) ∧
      r.gattr = a.gattr ∧ (∀ n ∈ a.net.nodes, r.nattr n = a.nattr n) ∧ (∀ e ∈ a.net.edgeIds, r.eattr e = a.eattr e) := by
  obtain ⟨d, r, h1, h2, h⟩ := C10.hypergraphDict_rt_int_str tn te a hw hn he
  exact ⟨J.dumps d, r, writeJson_ok J strCast a d h1, by rw [readJson_dumps J hJ, h2], h⟩
/-! ### non-vacuity: concrete inputs satisfy the hypotheses / evaluate as stated -/

-- int labels incl. a negative one and 0, delimiter "|", nodetype=int
example : readEdgelist (some '#') (some '|') .int (writeEdgelist '|' [[.int 12, .int (-3)], [.int 0]]) =
    .ok ⟨[.int 12, .int (-3), .int 0], [(.int 0, [.int 12, .int (-3)]), (.int 1, [.int 0])]⟩ :=
  (edgelist_rt_int '|' (some '#') [[12, -3], [0]] ⟨by decide, by decide, by decide⟩ (by decide)
    (by intro c hc; cases hc; decide) (by decide)).trans (by decide)
example : writeEdgelist '|' [[.int 12, .int (-3)], [.int 0]] = "12|-3\n0\n".toList := by decide
example : DelimOK '|' (some '#') := ⟨by decide, by decide, by decide⟩
example : TokOK ',' (some '#') "a b".toList :=
  ⟨by decide, by decide, by intro c hc; cases hc; decide, by decide,
   by intro c hc; cases hc; decide, by intro c hc; cases hc; decide⟩
-- written with "\t", read with the default delimiter=None
example : readEdgelist (some '#') none .none (writeEdgelist '\t' [[.str "ab", .str "c"], [.str "c"]]) =
    .ok ⟨[.str "ab", .str "c"], [(.int 0, [.str "ab", .str "c"]), (.int 1, [.str "c"])]⟩ := by decide
example : TokWs (some '#') "ab".toList :=
  ⟨by decide, by decide, by intro c hc; cases hc; decide⟩
-- a label containing the delimiter does NOT round trip (the hypothesis is needed)
example : readEdgelist (some '#') (some ',') .none (writeEdgelist ',' [[.str "a,b"]]) ≠
    .ok (netOfEdgeList [[.str "a,b"]]) := by decide
-- an empty edge is not representable: the blank line reads back as an edge containing the label ""
example : readEdgelist (some '#') (some ',') .none (writeEdgelist ',' [[], [.str "a"]]) =
    .ok ⟨[.str "", .str "a"], [(.int 0, [.str ""]), (.int 1, [.str "a"])]⟩ := by decide
-- bipartite, both dual settings
example : readBipartite (some '#') (some '\t') .none .str false
    (writeBipartite '\t' [(.str "e", [.str "a", .str "b"]), (.str "f", [.str "b"])]) =
    .ok ⟨[.str "a", .str "b"], [(.str "e", [.str "a", .str "b"]), (.str "f", [.str "b"])]⟩ := by decide
example : readBipartite (some '#') (some '\t') .none .none true
    (writeBipartite '\t' [(.str "e", [.str "a", .str "b"]), (.str "f", [.str "b"])]) =
    .ok ⟨[.str "e", .str "f"], [(.str "a", [.str "e"]), (.str "b", [.str "e", .str "f"])]⟩ := by decide
-- int node labels, str edge IDs, nodetype=int: the hypotheses of `bipartite_rt` are met
example : readBipartite (some '#') (some ';') .int .none false
    (writeBipartite ';' [(.str "e", [.int 1, .int (-2)])]) = .ok ⟨[.int 1, .int (-2)], [(.str "e", [.int 1, .int (-2)])]⟩ := by
  refine (bipartite_rt ';' (some '#') .int .none false _ ⟨by decide, by decide, by decide⟩ ?_).trans (by decide)
  intro p hp
  have hp' : p = (.int 1, .str "e") ∨ p = (.int (-2), .str "e") := by simpa [incOf] using hp
  have hs : TokOK ';' (some '#') (renderAtom (.str "e")) :=
    ⟨by decide, by decide, by intro c hc; cases hc; decide, by decide,
     by intro c hc; cases hc; decide, by intro c hc; cases hc; decide⟩
  rcases hp' with rfl | rfl <;>
    exact ⟨tokOK_int _ _ _ (by decide) (by intro c hc; cases hc; decide), hs, cast_int _, cast_str_none _⟩
-- single-column (3×1), single-row (1×2) and 1×1 matrices
example : readIncidence (some '#') (some ',') (writeIncidence ',' ⟨[.int 5, .int 6, .int 7], [(.str "e", [.int 5, .int 7])]⟩) =
    .ok ⟨[.int 0, .int 2], [(.int 0, [.int 0, .int 2])]⟩ := by decide
example : readIncidence (some '#') (some ' ') (writeIncidence ' ' ⟨[.int 5], [(.int 1, [.int 5]), (.int 2, [.int 5])]⟩) =
    .ok ⟨[.int 0], [(.int 0, [.int 0]), (.int 1, [.int 0])]⟩ := by decide
example : readIncidence (some '#') (some ' ') (writeIncidence ' ' ⟨[.int 5], [(.int 1, [.int 5])]⟩) =
    .ok ⟨[.int 0], [(.int 0, [.int 0])]⟩ := by decide
-- JSON keys: ints need nodetype/edgetype, otherwise they come back as strings; collisions are refused
example : ∃ doc, jsonWrite ⟨[.int 1, .int 2], [(.int 0, [.int 1, .int 2])]⟩ = .ok doc ∧
    jsonRead .int .int doc = .ok ⟨[.int 1, .int 2], [(.int 0, [.int 1, .int 2])]⟩ :=
  json_keys .int .int _ (by decide) (by decide) (by decide)
    (by intro n hn; simp at hn; rcases hn with rfl | rfl <;> exact cast_int _)
    (by intro e he; simp at he; subst he; exact cast_int _)
example : (jsonWrite ⟨[.int 1, .int 2], [(.int 0, [.int 1, .int 2])]⟩).bind (jsonRead .none .none) =
    .ok ⟨[.str "1", .str "2"], [(.str "0", [.str "1", .str "2"])]⟩ := by decide
example : jsonWrite ⟨[.int 2, .str "2"], []⟩ = .err .lib := by decide
example : idOfJVal .none (idToJVal (.int 1)) = .ok (.int 1) := rfl

-- the JSON layer: the identity layer (what the driver runs) round-trips …
example : (idLayer Hif).RoundTrip := fun _ => rfl
example : (idLayer HDict).RoundTrip := idLayer_roundTrip _
/-- … a layer whose `loads` forgets the metadata does not, and does NOT give the network attributes back (the
    hypothesis `RoundTrip` of `write_hif_read_hif_rt` is used) -/
def forgetful : JsonLayer Hif Hif := ⟨id, fun d => { d with metadata := [] }⟩
example : ¬ forgetful.RoundTrip := fun h => by
  have := congrArg C10.Hif.metadata (h (C10.toHif C10.exKeys))
  revert this; decide
example : (match readHif forgetful (writeHif forgetful (.inl C10.exKeys)) with | .inl r => r.gattr | .inr r => r.gattr) = [] := by
  decide
example : (match readHif (idLayer Hif) (writeHif (idLayer Hif) (.inl C10.exKeys)) with | .inl r => r.gattr | .inr r => r.gattr) =
    C10.exKeys.gattr := by decide
-- attribute keys spelled like parameters (`node` on the isolated node 9, `idx` / `members` on the empty edge x)
-- come back through the HIF file
example : (match readHif (idLayer Hif) (writeHif (idLayer Hif) (.inl C10.exKeys)) with
    | .inl r => (r.net.nodes, r.nattr (.int 9), r.eattr (.str "x")) | .inr _ => ([], [], [])) =
    ([.int 1, .int 2, .int 9], [("node", .sc (.int 3))], [("idx", .sc (.int 1)), ("members", .sc (.str "r"))]) := by decide
example : AWF C10.exKeys ∧ C10.exKeys.cls = .hg :=
  ⟨⟨by unfold Net.WF C10.exKeys; decide, by unfold C10.AttrsWF C10.exKeys; decide,
    by unfold C10.AttrsWF C10.exKeys; decide, by unfold C10.AttrsWF C10.exKeys Net.edgeIds; decide⟩, rfl⟩
-- a stored, closed simplicial complex satisfies the hypotheses of `write_hif_read_hif_rt_sc`
example : SCWF C10.exSC.net ∧ SCClosed C10.exSC.net ∧ C10.exSC.cls = .sc :=
  ⟨⟨by unfold C10.exSC; decide, by unfold C10.exSC; decide⟩, by unfold SCClosed C10.exSC; decide, rfl⟩
-- a directed network through the HIF file
example : (match readHif (idLayer Hif) (writeHif (idLayer Hif)
      (.inr { net := C10.exDi, nattr := fun _ => [], eattr := fun _ => [], gattr := [] })) with
    | .inr r => r.net.edges | .inl _ => []) =
    [(.int 0, [.int 1, .int 2], [.int 3]), (.int 7, [.int 1], [.int 1, .int 3]), (.int 5, [], [])] := by decide

end Xgi.C11
