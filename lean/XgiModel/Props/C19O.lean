/-
  C19 — `cleanup` of the other two classes (`SimplicialComplex.cleanup`, `DiHypergraph.cleanup`).
  Property theorems only.  They are about `C19.scCleanup` / `C19.dhCleanup` (XgiModel/C19/Other.lean), the
  functions the C19 driver runs, which are the `cleanup` of the C03 / C02 state-machine models
  (`SC.cleanup`, `DHG.cleanup`) and, for `in_place=False`, the same pipeline on `SC.copy` / `DHG.copy`.

  What is proved here: the exact result of the isolated-node step (nothing but the isolated nodes goes, every
  other table is literally untouched), the behaviour on a frozen network, that the `in_place=False` variants
  are the in-place pipeline on an equal, unfrozen copy, and that the result is again a well-formed network of
  its class; and for the directed class that `convert_labels_to_integers` is an isomorphism onto 0..n-1 / 0..m-1
  carrying tails, heads and every attribute and recording the old labels (`dh_relabel_iso`), hence the complete
  post-condition of `DiHypergraph.cleanup` (`dh_cleanup_relabelled`).  For `SimplicialComplex`: the isolated-node
  step and the connected step are proved exactly (`sc_cleanup_isolates_exact`, `sc_cleanup_connected_exact`), the
  `add_simplices_from` branch of `convert_labels_to_integers` is proved to compute on a closed complex exactly what
  the `add_edges_from` branch computes (`sc_relabel_is_hypergraph_relabel`), so it is the isomorphism of
  `relabel_iso` (`sc_relabel_iso`), hence the complete post-condition (`sc_cleanup_relabelled`).  What is NOT a
  theorem: that a call with `in_place=False` leaves the Python object it was called on untouched (the model
  functions are pure; decided at run time by before/after snapshots), and the agreement of these models with
  the code (differential check).
-/
import XgiModel.C19.LemmasOtherR
import XgiModel.C19.LemmasOtherS
import XgiModel.C19.LemmasOtherT
import XgiModel.C02.Lemmas
import XgiModel.C02.LemmasAttrs
import XgiModel.C03.Lemmas

namespace Xgi.C19
open Xgi

/-! ### DiHypergraph.cleanup -/

/-- `DH.cleanup(isolates=a, relabel=False, in_place=True)` on an unfrozen well-formed network returns `ok`;
    with `isolates=True` nothing changes, with `isolates=False` exactly the nodes lying in no tail and no
    head are deleted, in place, and *every other table is literally untouched* (edges, tails, heads,
    memberships, attributes of the three levels, counter).  The result has no isolated node. -/
theorem dh_cleanup_isolates_exact {s : DHG} (h : DHG.WFd s) (hf : s.frozen = false) (a : Bool) :
    dhCleanup s a false true = some (if a then s else D.dropNodes s (DHG.isolates s), .ok) ∧
    (∀ n, n ∈ (D.dropNodes s (DHG.isolates s)).nodes ↔ n ∈ s.nodes ∧ ¬ D.Isolated s n) ∧
    (∀ n ∈ (D.dropNodes s (DHG.isolates s)).nodes, ¬ D.Isolated (D.dropNodes s (DHG.isolates s)) n) := by
  have hmem := D.mem_isolates s
  have hkeep : ∀ n, n ∈ (D.dropNodes s (DHG.isolates s)).nodes ↔ n ∈ s.nodes ∧ ¬ D.Isolated s n := by
    intro n
    simp only [D.dropNodes, List.mem_filter, decide_eq_true_eq, hmem]
    constructor
    · rintro ⟨h1, h2⟩; exact ⟨h1, fun hi => h2 ⟨h1, hi⟩⟩
    · rintro ⟨h1, h2⟩; exact ⟨h1, fun hi => h2 hi.2⟩
  refine ⟨?_, hkeep, fun n hn => ((hkeep n).1 hn).2⟩
  unfold dhCleanup DHG.cleanup DHG.cleanupBody
  cases a
  · simp [DHG.andThen, D.isolatesStep s h.nodupN hf, Outcome.isErr, Outcome.join]
  · simp [DHG.andThen, Outcome.isErr, Outcome.join]

/-- with `relabel=True` the second step is `convert_labels_to_integers(in_place=True)` applied to exactly that
    network, and the call returns `ok` -/
theorem dh_cleanup_then_relabel {s : DHG} (h : DHG.WFd s) (hf : s.frozen = false) (a : Bool) :
    dhCleanup s a true true =
      some ((DHG.relabel (if a then s else D.dropNodes s (DHG.isolates s)) "label").1, .ok) := by
  have hrel : ∀ t : DHG, t.frozen = false → (DHG.relabel t "label").2 = .ok := by
    intro t ht; unfold DHG.relabel; simp [ht]
  unfold dhCleanup DHG.cleanup DHG.cleanupBody
  cases a
  · have := hrel (D.dropNodes s (DHG.isolates s)) (by simpa [D.dropNodes] using hf)
    simp [DHG.andThen, D.isolatesStep s h.nodupN hf, Outcome.isErr, Outcome.join, this]
  · have := hrel s hf
    simp [DHG.andThen, Outcome.isErr, Outcome.join, this]


/-- `convert_labels_to_integers(DH, label_attribute, in_place=True)` on an unfrozen directed network is an
    isomorphism onto integer labels that records the old ones: with `φ = pos DH.nodes`, `ψ = pos DH.edges` (the
    position of an ID in the node / edge order),
    * the call returns `ok`; the new node and edge IDs are exactly 0..n-1 and 0..m-1, in order, the images under `φ`, `ψ`;
    * `φ` and `ψ` are injective (hence bijections onto the new IDs);
    * direction is preserved: the tail of `ψ e` is the `φ`-image of the tail of `e`, the head the image of the head;
    * every attribute is carried along, except that `label_attribute` now holds the old ID (readable back);
    * the network attributes are untouched and the result is well formed. -/
theorem dh_relabel_iso {s : DHG} (h : DHG.Inv s) (ha : DHG.AttrsOKD s) (hf : s.frozen = false) (l : String) :
    dhRelabel s l true = some ((DHG.relabel s l).1, .ok) ∧
    (DHG.relabel s l).1.nodes = (List.range s.nodes.length).map (fun j => PyId.int (j : Nat)) ∧
    (DHG.relabel s l).1.edges = (List.range s.edges.length).map (fun j => PyId.int (j : Nat)) ∧
    (DHG.relabel s l).1.nodes = s.nodes.map (pos s.nodes) ∧
    (DHG.relabel s l).1.edges = s.edges.map (pos s.edges) ∧
    (∀ x ∈ s.nodes, ∀ y ∈ s.nodes, pos s.nodes x = pos s.nodes y → x = y) ∧
    (∀ x ∈ s.edges, ∀ y ∈ s.edges, pos s.edges x = pos s.edges y → x = y) ∧
    (∀ e ∈ s.edges, ∀ x, x ∈ (DHG.relabel s l).1.tail (pos s.edges e) ↔ x ∈ (s.tail e).map (pos s.nodes)) ∧
    (∀ e ∈ s.edges, ∀ x, x ∈ (DHG.relabel s l).1.head (pos s.edges e) ↔ x ∈ (s.head e).map (pos s.nodes)) ∧
    (∀ e ∈ s.edges, ∀ n ∈ s.nodes, (pos s.nodes n ∈ (DHG.relabel s l).1.tail (pos s.edges e) ↔ n ∈ s.tail e) ∧
      (pos s.nodes n ∈ (DHG.relabel s l).1.head (pos s.edges e) ↔ n ∈ s.head e)) ∧
    (∀ n ∈ s.nodes, (DHG.relabel s l).1.nattr (pos s.nodes n) = (s.nattr n).set l (DHG.idVal n)) ∧
    (∀ e ∈ s.edges, (DHG.relabel s l).1.eattr (pos s.edges e) = (s.eattr e).set l (DHG.idVal e)) ∧
    (∀ e ∈ s.edges, ((DHG.relabel s l).1.eattr (pos s.edges e)).get? l = some (DHG.idVal e) ∧
      ∀ k, k ≠ l → ((DHG.relabel s l).1.eattr (pos s.edges e)).get? k = (s.eattr e).get? k) ∧
    (∀ n ∈ s.nodes, ((DHG.relabel s l).1.nattr (pos s.nodes n)).get? l = some (DHG.idVal n) ∧
      ∀ k, k ≠ l → ((DHG.relabel s l).1.nattr (pos s.nodes n)).get? k = (s.nattr n).get? k) ∧
    (DHG.relabel s l).1.net = s.net ∧ DHG.WFd (DHG.relabel s l).1 := by
  obtain ⟨r1, r2⟩ := D.relabel_fields h.1 ha hf l
  have hw := (DHG.relabel_inv h l).1
  have hcall : dhRelabel s l true = some ((DHG.relabel s l).1, .ok) := by
    unfold dhRelabel; simp only [if_true]; rw [← r1]
  generalize (DHG.relabel s l).1 = r at *
  have hmapφ : ∀ (L : List PyId) (n : PyId), (∀ a ∈ L, a ∈ s.nodes) → n ∈ s.nodes → (pos s.nodes n ∈ L.map (pos s.nodes) ↔ n ∈ L) := by
    intro L n hL hn
    constructor
    · intro hin; obtain ⟨a, ha', heq⟩ := List.mem_map.1 hin
      rw [← pos_inj _ h.1.nodupN (hL a ha') hn heq]; exact ha'
    · exact List.mem_map_of_mem
  refine ⟨hcall, by rw [r2.nodes, map_pos _ h.1.nodupN], by rw [r2.edges, map_pos _ h.1.nodupE], r2.nodes, r2.edges,
    fun x hx y hy => pos_inj _ h.1.nodupN hx hy, fun x hx y hy => pos_inj _ h.1.nodupE hx hy, r2.tail, r2.head, ?_,
    r2.nattr, r2.eattr, ?_, ?_, r2.net, hw⟩
  · intro e he n hn
    rw [r2.tail e he, r2.head e he]
    exact ⟨hmapφ _ n (fun a ha' => (h.1.tail2out e he a ha').1) hn, hmapφ _ n (fun a ha' => (h.1.head2in e he a ha').1) hn⟩
  · intro e he; rw [r2.eattr e he]
    exact ⟨get?_set_self _ _ _, fun k hk => get?_set_other _ _ _ _ hk⟩
  · intro n hn; rw [r2.nattr n hn]
    exact ⟨get?_set_self _ _ _, fun k hk => get?_set_other _ _ _ _ hk⟩

/-- the complete post-condition of `DH.cleanup(isolates=a, relabel=True, in_place=True)`: with
    `t` = `DH` without its isolated nodes (`a = false`) or `DH` itself (`a = true`) — see `dh_cleanup_isolates_exact`
    — the call returns `ok` and leaves the integer relabelling of `t` in the sense of `dh_relabel_iso`
    (`D.RelabelledD`: IDs replaced by positions, tails / heads / memberships carried along, every attribute of every
    surviving node and edge kept, old IDs under "label"), a well-formed network -/
theorem dh_cleanup_relabelled {s : DHG} (h : DHG.Inv s) (ha : DHG.AttrsOKD s) (hf : s.frozen = false) (a : Bool) :
    ∃ r, dhCleanup s a true true = some (r, .ok) ∧
      D.RelabelledD (if a then s else D.dropNodes s (DHG.isolates s)) r "label" ∧ DHG.Inv r := by
  have h1 := (dh_cleanup_isolates_exact h.1 hf a).1
  have hinv : DHG.Inv (if a then s else D.dropNodes s (DHG.isolates s)) := DHG.cleanup_inv h a false true _ h1
  have hat : DHG.AttrsOKD (if a then s else D.dropNodes s (DHG.isolates s)) := by
    cases a
    · exact ⟨ha.nattr, ha.eattr, ha.net⟩
    · exact ha
  have hft : (if a then s else D.dropNodes s (DHG.isolates s)).frozen = false := by
    cases a
    · exact hf
    · exact hf
  refine ⟨_, dh_cleanup_then_relabel h.1 hf a, (D.relabel_fields hinv.1 hat hft "label").2, DHG.relabel_inv hinv _⟩

/-- a frozen network: `cleanup(in_place=True)` raises `XGIError` and leaves it as it is — unless nothing was
    asked for (`isolates=True, relabel=False`), which returns it unchanged -/
theorem dh_cleanup_frozen {s : DHG} (hf : s.frozen = true) (a b : Bool) :
    dhCleanup s a b true = some (s, if a && !b then .ok else .err .lib) := by
  unfold dhCleanup DHG.cleanup DHG.cleanupBody DHG.relabel
  cases a <;> cases b <;> simp [DHG.andThen, DHG.guardF, hf, Outcome.isErr, Outcome.join]

/-- `cleanup(in_place=False)`: the pipeline runs on `DH.copy()` — a network showing the same nodes, edges, tails,
    heads, memberships and attributes, with the same counter, never frozen — and that copy is what is returned;
    `DH` itself does not occur in the result (the model is a pure function, so "the argument is left alone" is
    a property of the implementation only, checked at run time).  Every statement about the in-place call
    therefore applies to the returned network with `c` in place of `DH`, also when `DH` is frozen. -/
theorem dh_cleanup_not_in_place {s : DHG} (h : DHG.Inv s) (ha : DHG.AttrsOKD s) (a b : Bool)
    (c : DHG × Outcome) (hc : DHG.copy s = some c) :
    DHG.SameNetD s c.1 ∧ c.1.uid = s.uid ∧ c.1.frozen = false ∧ DHG.Inv c.1 ∧
    dhCleanup s a b false = dhCleanup c.1 a b true ∧ ∃ t, dhCleanup s a b false = some (t, .ok) := by
  have hf : DHG.FirstIdOK s := by
    have hok := (DHG.nodeStageD_all h.1 ha.nattr).1
    rw [DHG.copy_eq_items] at hc
    simp only [hok, Outcome.isErr, Bool.false_eq_true, if_false] at hc
    cases heq : DHG.addEdgesFrom (DHG.addNodesFrom DHG.empty (DHG.nodeItems s) []).1 .f4 (DHG.edgeItems s) [] with
    | none => rw [heq] at hc; cases hc
    | some r2 => exact DHG.firstIdOK_of_some heq
  obtain ⟨t, ht, hst⟩ := DHG.copy_char h.1 ha hf
  rw [ht] at hc; cases hc
  have hsame := DHG.sameNetD_of_edgeStageD h.1 hst s.uid
  have hinv : DHG.Inv ({ t with net := s.net, uid := s.uid } : DHG) := DHG.copy_inv h _ ht
  have hfr : ({ t with net := s.net, uid := s.uid } : DHG).frozen = false := hst.frozen
  refine ⟨hsame, rfl, hfr, hinv, ?_⟩
  generalize ({ t with net := s.net, uid := s.uid } : DHG) = c at ht hinv hfr
  have key : ∃ u, dhCleanup c a b true = some (u, .ok) := by
    cases b
    · exact ⟨_, (dh_cleanup_isolates_exact hinv.1 hfr a).1⟩
    · exact ⟨_, dh_cleanup_then_relabel hinv.1 hfr a⟩
  obtain ⟨u, hu⟩ := key
  have hbody : DHG.cleanupBody (c, .ok) a b = (u, .ok) := by
    have : dhCleanup c a b true = some (DHG.cleanupBody (c, .ok) a b) := by
      unfold dhCleanup DHG.cleanup; simp [Outcome.isErr]
    rw [this] at hu; exact Option.some.inj hu
  have hnew : dhCleanup s a b false = some (u, .ok) := by
    unfold dhCleanup DHG.cleanup
    simp [ht, hbody, Outcome.isErr]
  exact ⟨by rw [hnew, hu], u, hnew⟩

/-- whatever the flags, the result is again a well-formed directed network (two-way incidence for tails and
    heads, one attribute record per ID, counter above all integer edge IDs) -/
theorem dh_cleanup_wf {s : DHG} (h : DHG.Inv s) (a b ip : Bool) (r : DHG × Outcome)
    (hr : dhCleanup s a b ip = some r) : DHG.Inv r.1 :=
  DHG.cleanup_inv h a b ip r hr

/-! ### SimplicialComplex.cleanup -/

/-- `S.cleanup(isolates=a, connected=False, relabel=False, in_place=True)` on an unfrozen complex returns `ok`;
    with `isolates=False` exactly the nodes lying in no simplex are deleted and every other table is literally
    untouched; the result has no isolated node -/
theorem sc_cleanup_isolates_exact {s : HG} (h : HG.WF s) (hf : s.frozen = false) (a : Bool) :
    scCleanup s a false false true = (if a then s else S.dropNodes s (HG.isolates s), .ok) ∧
    (∀ n, n ∈ (S.dropNodes s (HG.isolates s)).nodes ↔ n ∈ s.nodes ∧ s.memb n ≠ []) ∧
    (∀ n ∈ (S.dropNodes s (HG.isolates s)).nodes, (S.dropNodes s (HG.isolates s)).memb n ≠ []) := by
  have hmem := S.mem_isolates s
  have hkeep : ∀ n, n ∈ (S.dropNodes s (HG.isolates s)).nodes ↔ n ∈ s.nodes ∧ s.memb n ≠ [] := by
    intro n
    simp only [S.dropNodes, List.mem_filter, decide_eq_true_eq, hmem]
    constructor
    · rintro ⟨h1, h2⟩; exact ⟨h1, fun hi => h2 ⟨h1, hi⟩⟩
    · rintro ⟨h1, h2⟩; exact ⟨h1, fun hi => h2 hi.2⟩
  refine ⟨?_, hkeep, fun n hn => ((hkeep n).1 hn).2⟩
  unfold scCleanup SC.cleanup
  cases a
  · simp [HG.andThen, S.isolatesStep s h.nodupN hf, Outcome.isErr, Outcome.join]
  · simp [HG.andThen, Outcome.isErr, Outcome.join]

/-- the three steps in the order of the Python body, each on the state the previous one left, stopping at the
    first raise: remove the isolated nodes, keep the largest component, relabel -/
theorem sc_cleanup_pipeline {s : HG} (h : HG.WF s) (hf : s.frozen = false) (a c r : Bool) :
    scCleanup s a c r true =
      HG.andThen (HG.andThen (if a then s else S.dropNodes s (HG.isolates s), .ok)
        (fun t => if c then SC.lccInPlace t else (t, .ok)))
        (fun t => if r then SC.relabel t "label" {} else (t, .ok)) := by
  unfold scCleanup SC.cleanup
  simp only [if_true]
  have h2 : (if a = true then (s, Outcome.ok) else HG.guardF s (SC.removeNodesFrom s (HG.isolates s))) =
      (if a = true then s else S.dropNodes s (HG.isolates s), Outcome.ok) := by
    cases a
    · simp [S.isolatesStep s h.nodupN hf]
    · rfl
  rw [h2]


/-- the connected step (`largest_connected_hypergraph(S, in_place=True)`, strong node removal) on an unfrozen
    well-formed complex `t`: it returns `ok`; the node set `c` chosen by `max(connected_components(…), key=len)` —
    the first reachability class of maximal size (nothing on the null complex) — is closed under simplices;
    exactly the nodes outside `c` go, with exactly the simplices not lying inside `c`; members, memberships of the
    surviving nodes, all attributes and the counter are untouched; the result is connected -/
theorem sc_connected_step_exact {t : HG} (hw : HG.WF t) (hf : t.frozen = false) :
    (SC.lccInPlace t).2 = .ok ∧ EdgeClosed t (largestOrEmpty t) ∧
    ((largestOrEmpty t = [] ∧ t.nodes = []) ∨
      (∃ pre post, HG.components t = pre ++ largestOrEmpty t :: post ∧
        (∀ p ∈ pre, p.length < (largestOrEmpty t).length) ∧ ∀ p ∈ post, p.length ≤ (largestOrEmpty t).length)) ∧
    (SC.lccInPlace t).1.nodes = t.nodes.filter (· ∈ largestOrEmpty t) ∧
    (SC.lccInPlace t).1.edges = t.edges.filter (fun e => (t.mem e).all (· ∈ largestOrEmpty t)) ∧
    (SC.lccInPlace t).1.mem = t.mem ∧ (SC.lccInPlace t).1.nattr = t.nattr ∧ (SC.lccInPlace t).1.eattr = t.eattr ∧
    (SC.lccInPlace t).1.net = t.net ∧ (SC.lccInPlace t).1.uid = t.uid ∧
    (∀ m ∈ (SC.lccInPlace t).1.nodes, ∀ e, e ∈ (SC.lccInPlace t).1.memb m ↔ e ∈ t.memb m) ∧
    Connected (SC.lccInPlace t).1 := by
  obtain ⟨g1, g2, g3, g4, g5, g6, g7, g8, g9, _⟩ := S.lccInPlace_spec hw hf
  refine ⟨g1, ?_, ?_, g2, g3, g4, g5, g6, g7, g8, g9, S.lccInPlace_connected hw hf⟩
  · unfold largestOrEmpty
    cases hc : HG.largestComponent t with
    | none => exact edgeClosed_nil t
    | some c => exact (largestComponent_closed hw hc).1
  · unfold largestOrEmpty
    cases hc : HG.largestComponent t with
    | none => exact Or.inl ⟨rfl, largestComponent_none hc⟩
    | some c => exact Or.inr (largestComponent_spec hc)

/-- `S.cleanup(isolates=a, connected=True, relabel=False, in_place=True)` on an unfrozen complex: with `t` = `S`
    without its isolated nodes (`a = false`) or `S` itself — again a simplicial complex — the call returns `ok` and
    leaves exactly the connected step applied to `t` (`sc_connected_step_exact`), a connected complex; with
    `relabel=True` the relabelling is then applied to that complex (`sc_cleanup_pipeline`) -/
theorem sc_cleanup_connected_exact {s : HG} (h : SC.SCInv s) (hf : s.frozen = false) (a : Bool) :
    SC.SCInv (if a then s else S.dropNodes s (HG.isolates s)) ∧
    scCleanup s a true false true = ((SC.lccInPlace (if a then s else S.dropNodes s (HG.isolates s))).1, .ok) ∧
    Connected (scCleanup s a true false true).1 ∧
    (a = false → ∀ n ∈ (scCleanup s a true false true).1.nodes, (scCleanup s a true false true).1.memb n ≠ []) := by
  have h1 := (sc_cleanup_isolates_exact h.wf hf a).1
  have hinv : SC.SCInv (if a then s else S.dropNodes s (HG.isolates s)) := by
    have := SC.cleanup_inv h a false false {}
    have e : scCleanup s a false false true = SC.cleanup s a false false {} := rfl
    rw [← e, h1] at this; exact this
  have hft : (if a then s else S.dropNodes s (HG.isolates s)).frozen = false := by
    cases a
    · exact hf
    · exact hf
  have hpipe := sc_cleanup_pipeline h.wf hf a true false
  have hok := (S.lccInPlace_spec hinv.wf hft).1
  have heq : scCleanup s a true false true = ((SC.lccInPlace (if a then s else S.dropNodes s (HG.isolates s))).1, .ok) := by
    rw [hpipe]
    simp only [HG.andThen, Outcome.isErr, Bool.false_eq_true, if_false, if_true, hok, Outcome.join]
  refine ⟨hinv, heq, by rw [heq]; exact S.lccInPlace_connected hinv.wf hft, ?_⟩
  intro ha n hn
  subst ha
  rw [heq] at hn ⊢
  simp only [Bool.false_eq_true, if_false] at hn ⊢
  obtain ⟨_, g2, g3, _, _, _, _, _, g9, _⟩ := S.lccInPlace_spec hinv.wf hft
  simp only [Bool.false_eq_true, if_false] at g2 g3 g9
  -- a surviving node was not isolated before the step, and a simplex containing it lies inside the component
  have hn' := hn
  rw [g2, List.mem_filter] at hn'
  have hne := (sc_cleanup_isolates_exact h.wf hf false).2.2 n hn'.1
  obtain ⟨e, he⟩ := List.exists_mem_of_ne_nil _ hne
  intro hnil
  have := (g9 n hn e).2 he
  rw [hnil] at this; cases this


/-! ### convert_labels_to_integers on a simplicial complex -/

/-- on a simplicial complex (closed under faces, no repeated / empty simplex) the `add_simplices_from` branch of
    `convert_labels_to_integers(S, label_attribute, in_place=True)` computes exactly what the `add_edges_from` branch
    computes on the same tables: every face of a relabelled simplex is itself one of the relabelled simplices, so the
    deferred face insertion adds nothing (for frozen complexes both refuse) -/
theorem sc_relabel_is_hypergraph_relabel {s : HG} (h : SC.SCInv s) (l : String) :
    scRelabel s l true = HG.relabel s l := by
  unfold scRelabel; simp only [if_true]; exact S.relabel_eq_hg h l

/-- hence it is the isomorphism of `relabel_iso` (Props/C19.lean): IDs onto 0..n-1 / 0..m-1 in order, `pos` injective,
    members mapped, every attribute carried with the old ID stored under `label_attribute`, complex attributes
    untouched, result well formed — and no simplex is added or lost -/
theorem sc_relabel_iso {s : HG} (h : SC.SCInv s) (hf : s.frozen = false) (l : String) :
    (scRelabel s l true).2 = .ok ∧ Relabelled s (scRelabel s l true).1 l ∧
    (scRelabel s l true).1.nodes = (List.range s.nodes.length).map (fun j => PyId.int (j : Nat)) ∧
    (scRelabel s l true).1.edges = (List.range s.edges.length).map (fun j => PyId.int (j : Nat)) ∧
    (∀ x ∈ s.nodes, ∀ y ∈ s.nodes, pos s.nodes x = pos s.nodes y → x = y) ∧
    (∀ x ∈ s.edges, ∀ y ∈ s.edges, pos s.edges x = pos s.edges y → x = y) := by
  rw [sc_relabel_is_hypergraph_relabel h l]
  obtain ⟨r1, r2⟩ := relabel_fields ⟨h.wf, h.fresh⟩ hf l
  refine ⟨r1, r2, by rw [r2.nodes, map_pos _ h.wf.nodupN], by rw [r2.edges, map_pos _ h.wf.nodupE],
    fun x hx y hy => pos_inj _ h.wf.nodupN hx hy, fun x hx y hy => pos_inj _ h.wf.nodupE hx hy⟩

/-- the complete post-condition of `S.cleanup(isolates=a, connected=c, relabel=True, in_place=True)` on an unfrozen
    complex: with `t` the complex left by the first two steps (`sc_cleanup_isolates_exact`,
    `sc_cleanup_connected_exact`; what `relabel=False` returns) — again a simplicial complex — the call returns `ok`
    and leaves the integer relabelling of `t` (`Relabelled`: IDs replaced by positions, members carried along, every
    attribute of every surviving node and simplex kept, old IDs under "label"), again a simplicial complex -/
theorem sc_cleanup_relabelled {s : HG} (h : SC.SCInv s) (hf : s.frozen = false) (a c : Bool) :
    ∃ t, scCleanup s a c false true = (t, .ok) ∧ SC.SCInv t ∧
      ∃ r, scCleanup s a c true true = (r, .ok) ∧ Relabelled t r "label" ∧ SC.SCInv r := by
  have h0inv : SC.SCInv (if a then s else S.dropNodes s (HG.isolates s)) := by
    have := SC.cleanup_inv h a false false {}
    have e : scCleanup s a false false true = SC.cleanup s a false false {} := rfl
    rw [← e, (sc_cleanup_isolates_exact h.wf hf a).1] at this; exact this
  have h0f : (if a then s else S.dropNodes s (HG.isolates s)).frozen = false := by
    cases a
    · exact hf
    · exact hf
  generalize ht0 : (if a then s else S.dropNodes s (HG.isolates s)) = t0 at h0inv h0f
  -- the state after the connected step
  have hstep : ∃ t, (if c then SC.lccInPlace t0 else (t0, .ok)) = (t, .ok) ∧ SC.SCInv t ∧ t.frozen = false := by
    cases c
    · exact ⟨t0, rfl, h0inv, h0f⟩
    · obtain ⟨g1, _, _, _, _, _, _, _, _, g10⟩ := S.lccInPlace_spec h0inv.wf h0f
      refine ⟨(SC.lccInPlace t0).1, ?_, SC.lccInPlace_inv h0inv, g10⟩
      simp only [if_true]; rw [← g1]
  obtain ⟨t, hct, htinv, htf⟩ := hstep
  have hp0 := sc_cleanup_pipeline h.wf hf a c false
  have hp1 := sc_cleanup_pipeline h.wf hf a c true
  rw [ht0] at hp0 hp1
  refine ⟨t, ?_, htinv, (HG.relabel t "label").1, ?_, ?_, ?_⟩
  · rw [hp0]; simp [HG.andThen, hct, Outcome.isErr, Outcome.join]
  · obtain ⟨r1, _⟩ := relabel_fields ⟨htinv.wf, htinv.fresh⟩ htf "label"
    rw [hp1]
    simp only [HG.andThen, hct, Outcome.isErr, Bool.false_eq_true, if_false, if_true, Outcome.join, S.relabel_eq_hg htinv, r1]
  · exact (relabel_fields ⟨htinv.wf, htinv.fresh⟩ htf "label").2
  · rw [← S.relabel_eq_hg htinv]; exact SC.relabel_inv htinv _ _

/-- a frozen complex: `cleanup(in_place=True)` raises `XGIError` and leaves it as it is — unless nothing was
    asked for -/
theorem sc_cleanup_frozen {s : HG} (hf : s.frozen = true) (a c r : Bool) :
    scCleanup s a c r true = (s, if a && !c && !r then .ok else .err .lib) := by
  unfold scCleanup SC.cleanup SC.lccInPlace SC.relabel
  cases a <;> cases c <;> cases r <;> simp [HG.andThen, HG.guardF, hf, Outcome.isErr, Outcome.join]

/-- `cleanup(in_place=False)`: the pipeline runs on `S.copy()` — a complex showing the same nodes, simplices (IDs,
    order, members), memberships and attributes, with the same counter, never frozen, again closed — and that copy
    is what is returned -/
theorem sc_cleanup_not_in_place {s : HG} (h : SC.SCInv s) (ha : HG.AttrsOK s) (a c r : Bool) :
    HG.SameNet s (SC.copy s {}).1 ∧ (SC.copy s {}).1.uid = s.uid ∧ (SC.copy s {}).1.frozen = false ∧
    SC.SCInv (SC.copy s {}).1 ∧
    scCleanup s a c r false = scCleanup (SC.copy s {}).1 a c r true := by
  have hch := SC.rebuildS_char h ha {}
  have hok : (SC.copy s {}).2 = .ok := by rw [SC.copy_eq]; exact hch.1
  have hsame : HG.SameNet s (SC.copy s {}).1 := by
    rw [SC.copy_eq]; exact HG.sameNet_of_edgeStage h.wf hch.2 s.uid
  have hinv : SC.SCInv (SC.copy s {}).1 := by
    rw [SC.copy_eq]
    refine SC.scinv_with (SC.rebuildS_scinv s {}) _ _ ?_
    exact HG.fresh_of_subset h.fresh
      (by show ∀ e ∈ (SC.rebuildS s {}).1.edges, e ∈ s.edges; rw [hch.2.edges]; exact fun _ x => x) (Nat.le_refl _)
  refine ⟨hsame, by rw [SC.copy_eq], by rw [SC.copy_eq]; exact hch.2.frozen, hinv, ?_⟩
  unfold scCleanup
  simp only [Bool.false_eq_true, if_false, if_true]
  generalize SC.copy s {} = cp at hok
  unfold HG.andThen
  simp only [hok, Outcome.isErr, Bool.false_eq_true, if_false]
  simp only [join_ok']

/-- whatever the flags, the result is again a simplicial complex in the sense of C03: well formed, closed under
    faces, no repeated and no empty simplex, counter above all integer IDs -/
theorem sc_cleanup_closed {s : HG} (h : SC.SCInv s) (a c r : Bool) : SC.SCInv (scCleanup s a c r true).1 := by
  unfold scCleanup; simp only [if_true]; exact SC.cleanup_inv h a c r {}

/-! ### non-vacuity -/

/-- nodes 1,2,3,4 (4 isolated, 1 with an attribute); edges "e" = ({1},{2,3}) with an attribute, 7 = ({3},{3}) -/
private def demoD : DHG :=
  (DHG.addEdgesBulk (DHG.addNodesFrom DHG.empty
      [(.int 1, some [("c", .sc (.int 7))]), (.int 2, none), (.int 3, none), (.int 4, none)] []).1 .f4
    [{ members := .pair [.int 1] [.int 2, .int 3], idx := some (.str "e"), attr := [("w", .sc (.int 1))] },
     { members := .pair [.int 3] [.int 3], idx := some (.int 7), attr := [] }] []).1

example : DHG.Inv demoD := DHG.addEdgesBulk_inv (DHG.addNodesFrom_inv DHG.empty_inv _ _) _ _ _
example : DHG.AttrsOKD demoD := DHG.addEdgesBulk_attrs (DHG.addNodesFrom_attrs DHG.attrsOKD_empty _ _) _ _ _
example : (DHG.relabel demoD "old").1.nattr (.int 0) = [("c", .sc (.int 7)), ("old", .sc (.int 1))] := by decide

example : demoD.nodes = [.int 1, .int 2, .int 3, .int 4] ∧ demoD.edges = [.str "e", .int 7] := by decide
example : DHG.isolates demoD = [.int 4] := by decide
example : demoD.frozen = false := by decide
example : ((dhCleanup demoD false false true).map (fun r => (r.2, r.1.nodes, r.1.edges))) =
    some (.ok, [.int 1, .int 2, .int 3], [.str "e", .int 7]) := by decide
example : ((dhCleanup demoD false true true).map (fun r => (r.2, r.1.nodes, r.1.edges))) =
    some (.ok, [.int 0, .int 1, .int 2], [.int 0, .int 1]) := by decide
example : ((dhCleanup demoD false true true).map (fun r => (r.1.edges.map r.1.tail, r.1.edges.map r.1.head))) =
    some ([[.int 0], [.int 2]], [[.int 1, .int 2], [.int 2]]) := by decide
example : ((dhCleanup demoD false true true).map (fun r => r.1.edges.map r.1.eattr)) =
    some [[("w", .sc (.int 1)), ("label", .sc (.str "e"))], [("label", .sc (.int 7))]] := by decide
example : ((dhCleanup demoD false true false).map (fun r => (r.2, r.1.nodes, r.1.edges))) =
    some (.ok, [.int 0, .int 1, .int 2], [.int 0, .int 1]) := by decide
example : ((dhCleanup { demoD with frozen := true } false true true).map (·.2)) = some (.err .lib) := by decide

/-- the complex generated by the triangle {1,2,3} and the edge {5,6}, plus the isolated node 9 -/
private def demoS : HG :=
  (SC.addSimplicesFrom (HG.addNodesFrom HG.empty [(.int 9, none)] []).1 .f1
    [{ members := [.int 1, .int 2, .int 3], idx := none, attr := [] },
     { members := [.int 5, .int 6], idx := none, attr := [] }] none [] {}).1

example : SC.SCInv demoS := SC.addSimplicesFrom_inv (SC.addNodesFrom_scinv SC.empty_scinv _ _) _ _ _ _ _
example : HG.AttrsOK demoS := SC.addSimplicesFrom_attrs (HG.addNodesFrom_attrs HG.attrsOK_empty _ _) _ _ _ _ _
example : demoS.nodes = [.int 9, .int 1, .int 2, .int 3, .int 5, .int 6] := by decide
example : HG.isolates demoS = [.int 9] := by decide
example : (scCleanup demoS false false false true).1.nodes = [.int 1, .int 2, .int 3, .int 5, .int 6] := by decide
example : (scCleanup demoS false true true true).1.nodes = [.int 0, .int 1, .int 2] ∧
    (scCleanup demoS false true true true).1.edges = [.int 0, .int 1, .int 2, .int 3] := by decide
example : (scCleanup demoS false true true false).1.nodes = [.int 0, .int 1, .int 2] := by decide
example : largestOrEmpty (S.dropNodes demoS (HG.isolates demoS)) = [.int 1, .int 2, .int 3] := by decide
example : (scCleanup demoS false true false true).1.nodes = [.int 1, .int 2, .int 3] ∧
    (scCleanup demoS false true false true).1.edges.length = 4 := by decide

end Xgi.C19
