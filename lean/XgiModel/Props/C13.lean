import XgiModel.C13.Hodge
namespace Xgi.C13
theorem stub : True := trivial
end Xgi.C13
