/-
  C13 — boundary operators form a chain complex.  Property theorems about the model XgiModel/C13/Hodge.lean
  (the definitions the driver runs).  `rowSimp s k` / `colSimp s k` (XgiModel/C13/LemmasSC.lean) list, in row /
  column order, the id and the sorted vertex list of the simplices labelling rows and columns of `boundary s k o`.
-/
import XgiModel.C13.LemmasProps

open Finset

namespace Xgi.C13

variable {s : SC}

/-! ### shapes and keys -/

/-- row keys of `B_{n+1}` are the ids of `rowSimp` (nodes for n = 0, simplices of order n otherwise) -/
theorem row_keys (n : Nat) : downIds s (n + 1) = (rowSimp s (n + 1)).map (·.1) := downIds_eq n
/-- column keys of `B_{n+1}` are the ids of the simplices of order n+1 -/
theorem col_keys (n : Nat) : upIds s (n + 1) = (colSimp s (n + 1)).map (·.1) := upIds_succ n

/-- `B_{n+1}` has one row per simplex of order n (per node for n = 0) and one column per simplex of order n+1 -/
theorem boundary_rows (n : Nat) (o : PyId → Nat) : (boundary s (n + 1) o).r = (rowSimp s (n + 1)).length :=
  boundary_r_rowSimp n o
theorem boundary_cols (n : Nat) (o : PyId → Nat) : (boundary s (n + 1) o).c = (colSimp s (n + 1)).length :=
  boundary_c_colSimp n o

/-- `B_0` has no rows (0 × #nodes): the boundary of a vertex is zero -/
theorem boundary_zero_no_rows (h : WF s) (o : PyId → Nat) :
    (boundary s 0 o).r = 0 ∧ (boundary s 0 o).c = s.nodes.length := by
  rw [boundary_r, boundary_c, downIds_zero h]; simp [upIds]

/-- consecutive boundary matrices can be multiplied: #columns of `B_n` = #rows of `B_{n+1}` -/
theorem boundary_shapes_compose (n : Nat) (o : PyId → Nat) : (boundary s n o).c = (boundary s (n + 1) o).r := by
  rw [boundary_c, boundary_r]
  cases n with
  | zero => simp [upIds, downIds]
  | succ n => rw [downIds_succ, upIds_succ]; rfl

/-- on a well-formed complex no lookup of the Python loops fails, for every order and orientation -/
theorem boundary_defined (h : WF s) (k : Nat) (o : PyId → Nat) : boundaryDefined s k o = true := by
  unfold boundaryDefined
  split
  · rfl
  · rename_i hne
    cases k with
    | zero => exact absurd (Or.inl (by rw [downIds_zero h]; rfl)) hne
    | succ n =>
      rw [if_neg (by omega)]
      rw [List.all_eq_true]
      intro p hp
      obtain ⟨hps, hpo⟩ := mem_ofOrder.mp hp
      have hl := length_of_order hpo
      rw [List.all_eq_true]
      intro w hw
      cases n with
      | zero =>
        have hl2 : (ss p).length = 2 := by rw [length_ss]; exact hl
        obtain ⟨a, b, hab⟩ := List.length_eq_two.mp hl2
        have ha : a ∈ s.nodes := h.memNodes p hps a (mem_ss.mp (by rw [hab]; simp))
        have hb : b ∈ s.nodes := h.memNodes p hps b (mem_ss.mp (by rw [hab]; simp))
        obtain ⟨ia, _, _, hxa⟩ := idxOf_nodes h ha
        obtain ⟨ib, _, _, hxb⟩ := idxOf_nodes h hb
        have hrows : downIds s 1 = s.nodes.map PyId.atom := by simp [downIds]
        unfold writes writesOne at hw
        rw [if_pos rfl, hrows] at hw
        change w ∈ [ ((ss p)[1]?).bind _, ((ss p)[0]?).bind _ ] at hw
        rw [hab] at hw
        simp [hxa, hxb] at hw
        rcases hw with rfl | rfl <;> rfl
      | succ n =>
        have hrows : downIds s (n + 2) = (s.ofOrder ((n + 1 : Nat) : Int)).map (·.1) := by
          rw [downIds_succ]; simp [rowSimp, Function.comp_def]
        unfold writes at hw
        rw [if_neg (by omega), hrows] at hw
        change w ∈ writesGen s (n + 2) o ((s.ofOrder ((n + 1 : Nat) : Int)).map (·.1)) p.1 (ss p) at hw
        obtain ⟨c, hc, hgc⟩ := List.mem_iff_getElem.mp hw
        have hc' : c < n + 3 := by rwa [gen_write_length n o _ _ (by simp [hl])] at hc
        obtain ⟨q, _, m, hm, hmq, e, hget⟩ := gen_write h o n hps hl (c := c) (by omega)
        rw [List.getElem?_eq_getElem hc, hgc] at hget
        simp only [Option.some.injEq] at hget
        rw [hget]; rfl

/-- `S._subfaces(l, all=False)` = `itertools.combinations(l, len(l)-1)` lists the faces by erasing positions from
    the back: the face number `i` is `l` without position `len(l)-1-i` -/
theorem subfaces_order (l : List Atom) (hl : l ≠ []) :
    subfaces l = (List.range l.length).map (fun i => l.eraseIdx (l.length - 1 - i)) := subfaces_eq l hl

/-- the reference orientation is a sorted duplicate-free listing of the same vertices, and it does not depend on
    the order in which the set of members happens to be listed -/
theorem sort_canonical {a b : List Atom} (ha : a.Nodup) (hb : b.Nodup) (hm : ∀ x, x ∈ a ↔ x ∈ b) :
    sortMembers a = sortMembers b ∧ Sorted (sortMembers a) ∧ (∀ x, x ∈ sortMembers a ↔ x ∈ a) :=
  ⟨sorted_unique (nodup_sort ha) (nodup_sort hb) (fun x => by rw [mem_sort, mem_sort]; exact hm x)
      (sort_sorted a) (sort_sorted b), sort_sorted a, fun _ => mem_sort⟩

/-! ### column support -/

/-- **column support.**  In column σ of `B_{n+1}` every entry is 0 or ±1; the entry in row ρ is non-zero exactly
    when ρ is a face of σ (all its vertices are vertices of σ); there are exactly n+2 non-zero entries -/
theorem column_support (h : WF s) (o : PyId → Nat) (n : Nat) {j : Nat} (hj : j < (colSimp s (n + 1)).length) :
    (∀ i, i < (rowSimp s (n + 1)).length →
        (boundary s (n + 1) o).e i j = 0 ∨ (boundary s (n + 1) o).e i j = 1 ∨ (boundary s (n + 1) o).e i j = -1) ∧
    (∀ i (hi : i < (rowSimp s (n + 1)).length),
        (boundary s (n + 1) o).e i j ≠ 0 ↔ ∀ a ∈ (rowSimp s (n + 1))[i].2, a ∈ (colSimp s (n + 1))[j].2) ∧
    ((range (rowSimp s (n + 1)).length).filter (fun i => (boundary s (n + 1) o).e i j ≠ 0)).card = n + 2 := by
  obtain ⟨hnd, hso, hlen, _⟩ := colSimp_props h (n + 1) hj
  have hnz : ∀ i (hi : i < (rowSimp s (n + 1)).length), (boundary s (n + 1) o).e i j ≠ 0 ↔
      ∃ t < n + 2, ((colSimp s (n + 1))[j].2).eraseIdx t = (rowSimp s (n + 1))[i].2 := by
    intro i hi
    rcases entry_value h o n hi hj with ⟨t, ht, het, hv⟩ | ⟨hall, hv⟩
    · rw [hv]; exact ⟨fun _ => ⟨t, ht, het⟩, fun _ => sgn_ne_zero _⟩
    · rw [hv]; exact ⟨fun hne => absurd rfl hne, fun ⟨t, ht, het⟩ => absurd het (hall t ht)⟩
  refine ⟨?_, ?_, ?_⟩
  · intro i hi
    rcases entry_value h o n hi hj with ⟨t, _, _, hv⟩ | ⟨_, hv⟩
    · rw [hv]; right; exact sgn_cases _
    · left; exact hv
  · intro i hi
    obtain ⟨hρ, sρ, lρ⟩ := rowSimp_props h n hi
    rw [hnz i hi]
    exact face_iff_subset hρ sρ lρ hnd hso hlen
  · -- count the non-zero rows by summing over the n+2 faces, each of which labels exactly one row
    rw [Finset.card_filter]
    have hrow : ∀ i ∈ range (rowSimp s (n + 1)).length,
        (if (boundary s (n + 1) o).e i j ≠ 0 then 1 else 0) =
        ∑ t ∈ range (n + 2), if (colL s (n + 1) j).eraseIdx t = rowL s (n + 1) i then (1 : Nat) else 0 := by
      intro i hi
      have hi' := mem_range.mp hi
      rw [colL_eq hj, rowL_eq hi']
      by_cases hex : ∃ t < n + 2, ((colSimp s (n + 1))[j].2).eraseIdx t = (rowSimp s (n + 1))[i].2
      · rw [if_pos ((hnz i hi').mpr hex)]
        obtain ⟨t, ht, het⟩ := hex
        rw [Finset.sum_eq_single t]
        · rw [if_pos het]
        · intro b hb hne
          rw [if_neg]
          intro hb'
          exact hne (eraseIdx_inj hnd (by rw [hlen]; exact mem_range.mp hb) (by omega) (hb'.trans het.symm))
        · intro hnot; exact absurd (mem_range.mpr ht) hnot
      · rw [if_neg (fun hne => hex ((hnz i hi').mp hne))]
        symm
        apply Finset.sum_eq_zero
        intro t ht
        rw [if_neg (fun e => hex ⟨t, mem_range.mp ht, e⟩)]
    rw [Finset.sum_congr rfl hrow, Finset.sum_comm]
    have hone : ∀ t ∈ range (n + 2), (∑ m ∈ range (rowSimp s (n + 1)).length,
        if (colL s (n + 1) j).eraseIdx t = rowL s (n + 1) m then (1 : Nat) else 0) = 1 := by
      intro t ht
      have := face_row_count h n hj (mem_range.mp ht)
      have hcast : ((∑ m ∈ range (rowSimp s (n + 1)).length,
          if (colL s (n + 1) j).eraseIdx t = rowL s (n + 1) m then (1 : Nat) else 0 : Nat) : Int) = 1 := by
        rw [← this]; push_cast; rfl
      exact_mod_cast hcast
    rw [Finset.sum_congr rfl hone]; simp

/-! ### ∂∂ = 0 -/

/-- **the product of consecutive boundary matrices is the zero matrix**, for every well-formed complex, every
    order and every orientation assignment -/
theorem dd_zero (h : WF s) (o : PyId → Nat) (n : Nat) {i j : Nat}
    (hi : i < ((boundary s n o).mul (boundary s (n + 1) o)).r) (hj : j < ((boundary s n o).mul (boundary s (n + 1) o)).c) :
    ((boundary s n o).mul (boundary s (n + 1) o)).e i j = 0 := by
  cases n with
  | zero =>
    have := (boundary_zero_no_rows h o).1
    simp only [Mat.mul] at hi
    omega
  | succ n =>
    have hi' : i < (rowSimp s (n + 1)).length := by
      simpa [Mat.mul, boundary_rows] using hi
    have hj' : j < (colSimp s (n + 2)).length := by
      have := hj; simp only [Mat.mul] at this; rwa [boundary_cols (s := s) (n + 1) o] at this
    simp only [Mat.mul]
    rw [list_sum_range, boundary_cols]
    have hM : (colSimp s (n + 1)).length = (rowSimp s (n + 2)).length := rfl
    have hterm : ∀ m ∈ range (colSimp s (n + 1)).length,
        (boundary s (n + 1) o).e i m * (boundary s (n + 1 + 1) o).e m j =
        (∑ t' ∈ range (n + 2), if (colL s (n + 1) m).eraseIdx t' = rowL s (n + 1) i
            then sgn (o (colI s (n + 1) m) + t' + rowOr o (n + 1) (rowI s (n + 1) i)) else 0) *
        (∑ t ∈ range (n + 3), if (colL s (n + 2) j).eraseIdx t = colL s (n + 1) m
            then sgn (o (colI s (n + 2) j) + t + o (colI s (n + 1) m)) else 0) := by
      intro m hm
      have hm' := mem_range.mp hm
      rw [entry_eq' h o n hi' hm', entry_eq' h o (n + 1) (i := m) (j := j) (by rw [← hM]; exact hm') hj']
      simp only [rowOr, if_neg (show ¬ (n + 1 + 1 = 1) by omega), rowL_succ, rowI_succ]
    rw [Finset.sum_congr rfl hterm]
    exact dd_sum (colSimp s (n + 1)).length n (fun m => colL s (n + 1) m) (colL s (n + 2) j) (rowL s (n + 1) i)
      (fun m => o (colI s (n + 1) m)) (rowOr o (n + 1) (rowI s (n + 1) i)) (o (colI s (n + 2) j))
      (fun t ht => face_row_count h (n + 1) hj' ht)

/-- the same statement about the list-of-rows form the driver prints -/
theorem dd_zero_lists (h : WF s) (o : PyId → Nat) (n : Nat) :
    ((boundary s n o).mul (boundary s (n + 1) o)).toLists =
      List.replicate (boundary s n o).r (List.replicate (boundary s (n + 1) o).c 0) := by
  unfold Mat.toLists
  apply List.ext_getElem
  · simp [Mat.mul]
  · intro i h1 h2
    simp only [List.length_map, List.length_range] at h1
    simp only [List.getElem_map, List.getElem_range, List.getElem_replicate]
    apply List.ext_getElem
    · simp [Mat.mul]
    · intro j h3 h4
      simp only [List.length_map, List.length_range] at h3
      simp only [List.getElem_map, List.getElem_range, List.getElem_replicate]
      exact dd_zero h o n h1 h3

/-! ### Hodge Laplacians (any complex, any orientation: no well-formedness needed) -/

/-- `L_k` is symmetric -/
theorem hodge_symm (k : Nat) (o : PyId → Nat) (i j : Nat) : (hodge s k o).e i j = (hodge s k o).e j i := by
  rw [hodge_e, hodge_e]
  congr 1 <;> (apply Finset.sum_congr rfl; intros; ring)

/-- `xᵀ L_k x = ‖B_k x‖² + ‖B_{k+1}ᵀ x‖²` -/
theorem hodge_quadratic_form (k : Nat) (o : PyId → Nat) (x : Nat → Int) :
    (∑ i ∈ range (hodge s k o).r, ∑ j ∈ range (hodge s k o).c, x i * (hodge s k o).e i j * x j) =
      (∑ m ∈ range (boundary s k o).r, ((boundary s k o).mulVec x m) ^ 2) +
      (∑ m ∈ range (boundary s (k + 1) o).c, ((boundary s (k + 1) o).transpose.mulVec x m) ^ 2) := by
  rw [hodge_r, hodge_c]
  simp only [hodge_e, mulVec_eq, Mat.transpose]
  rw [← boundary_shapes_compose k o]
  rw [← quad_gram (fun m j => (boundary s k o).e m j) x, ← quad_gram (fun m j => (boundary s (k + 1) o).e j m) x]
  rw [← Finset.sum_add_distrib]
  apply Finset.sum_congr rfl; intro i _
  rw [← Finset.sum_add_distrib]
  apply Finset.sum_congr rfl; intro j _
  ring

/-- **`L_k` is positive semidefinite** (integer vectors) -/
theorem hodge_psd (k : Nat) (o : PyId → Nat) (x : Nat → Int) :
    0 ≤ ∑ i ∈ range (hodge s k o).r, ∑ j ∈ range (hodge s k o).c, x i * (hodge s k o).e i j * x j := by
  rw [hodge_quadratic_form]
  exact add_nonneg (Finset.sum_nonneg (fun _ _ => sq_nonneg _)) (Finset.sum_nonneg (fun _ _ => sq_nonneg _))

/-- **`L_k` is positive semidefinite** (rational vectors) -/
theorem hodge_psd_rat (k : Nat) (o : PyId → Nat) (x : Nat → ℚ) :
    0 ≤ ∑ i ∈ range (hodge s k o).r, ∑ j ∈ range (hodge s k o).c, x i * ((hodge s k o).e i j : ℚ) * x j := by
  have hq : (∑ i ∈ range (hodge s k o).r, ∑ j ∈ range (hodge s k o).c, x i * ((hodge s k o).e i j : ℚ) * x j) =
      (∑ m ∈ range (boundary s k o).r, (∑ j ∈ range (boundary s k o).c, ((boundary s k o).e m j : ℚ) * x j) ^ 2) +
      (∑ m ∈ range (boundary s (k + 1) o).c,
        (∑ j ∈ range (boundary s k o).c, ((boundary s (k + 1) o).e j m : ℚ) * x j) ^ 2) := by
    rw [hodge_r, hodge_c]
    rw [← quad_gram (fun m j => ((boundary s k o).e m j : ℚ)) x,
      ← quad_gram (fun m j => ((boundary s (k + 1) o).e j m : ℚ)) x]
    rw [← Finset.sum_add_distrib]
    apply Finset.sum_congr rfl; intro i _
    rw [← Finset.sum_add_distrib]
    apply Finset.sum_congr rfl; intro j _
    rw [hodge_e]; push_cast; ring
  rw [hq]
  exact add_nonneg (Finset.sum_nonneg (fun _ _ => sq_nonneg _)) (Finset.sum_nonneg (fun _ _ => sq_nonneg _))

/-! ### the kernel of `L_0` -/

/-- `L_0 x = 0` exactly when `B_1ᵀ x = 0` -/
theorem ker_L0_iff (h : WF s) (o : PyId → Nat) (x : Nat → Int) :
    (∀ i < (hodge s 0 o).r, (hodge s 0 o).mulVec x i = 0) ↔
    (∀ m < (boundary s 1 o).c, (boundary s 1 o).transpose.mulVec x m = 0) := by
  have h0 : (boundary s 0 o).r = 0 := (boundary_zero_no_rows h o).1
  have hn : (boundary s 1 o).r = (boundary s 0 o).c := (boundary_shapes_compose 0 o).symm
  have hL : ∀ i j, (hodge s 0 o).e i j = ∑ m ∈ range (boundary s 1 o).c, (boundary s 1 o).e i m * (boundary s 1 o).e j m := by
    intro i j; rw [hodge_e, h0]; simp
  have hT : ∀ m, (boundary s 1 o).transpose.mulVec x m = ∑ j ∈ range (boundary s 0 o).c, (boundary s 1 o).e j m * x j := by
    intro m; rw [mulVec_eq]; simp only [Mat.transpose, hn]
  constructor
  · intro hker
    have hq := hodge_quadratic_form (s := s) 0 o x
    rw [h0, Finset.sum_range_zero, zero_add] at hq
    have hz : (∑ i ∈ range (hodge s 0 o).r, ∑ j ∈ range (hodge s 0 o).c, x i * (hodge s 0 o).e i j * x j) = 0 := by
      apply Finset.sum_eq_zero
      intro i hi
      have := hker i (mem_range.mp hi)
      rw [mulVec_eq] at this
      calc (∑ j ∈ range (hodge s 0 o).c, x i * (hodge s 0 o).e i j * x j)
          = x i * ∑ j ∈ range (hodge s 0 o).c, (hodge s 0 o).e i j * x j := by
            rw [Finset.mul_sum]; apply Finset.sum_congr rfl; intros; ring
        _ = 0 := by rw [this, mul_zero]
    rw [hz] at hq
    have := (Finset.sum_eq_zero_iff_of_nonneg (fun _ _ => sq_nonneg _)).mp hq.symm
    intro m hm
    exact pow_eq_zero_iff (two_ne_zero) |>.mp (this m (mem_range.mpr hm))
  · intro hT0 i _
    rw [mulVec_eq, hodge_c]
    calc (∑ j ∈ range (boundary s 0 o).c, (hodge s 0 o).e i j * x j)
        = ∑ m ∈ range (boundary s 1 o).c, (boundary s 1 o).e i m *
            ∑ j ∈ range (boundary s 0 o).c, (boundary s 1 o).e j m * x j := by
          simp_rw [hL, Finset.sum_mul, Finset.mul_sum]
          rw [Finset.sum_comm]
          apply Finset.sum_congr rfl; intro m _
          apply Finset.sum_congr rfl; intro j _
          ring
      _ = 0 := by
          apply Finset.sum_eq_zero
          intro m hm
          rw [← hT m, hT0 m (mem_range.mp hm), mul_zero]

/-- **kernel of `L_0`** (the part proved in Lean): `L_0 x = 0` exactly when `x` takes the same value at the two
    end points of every 1-simplex (constant on connected components: `ker_L0_iff_const_on_components`; dimension of
    this space = number of components: `ker_L0_finrank`) -/
theorem ker_L0_const_on_edges (h : WF s) (o : PyId → Nat) (x : Nat → Int) :
    (∀ i < (hodge s 0 o).r, (hodge s 0 o).mulVec x i = 0) ↔
    (∀ m (hm : m < (colSimp s (0 + 1)).length) (ia ib : Nat) (hia : ia < s.nodes.length) (hib : ib < s.nodes.length),
      (colSimp s (0 + 1))[m].2 = [s.nodes[ia], s.nodes[ib]] → x ia = x ib) := by
  rw [ker_L0_iff h o x]
  constructor
  · intro hT m hm ia ib hia hib hab
    have h1 := hT m (by rw [boundary_cols 0 o]; exact hm)
    rw [boundary_one_transpose_apply h o x hm hia hib hab] at h1
    rcases mul_eq_zero.mp h1 with h2 | h2
    · exact absurd h2 (sgn_ne_zero _)
    · omega
  · intro hE m hm
    have hm' : m < (colSimp s (0 + 1)).length := by rw [← boundary_cols 0 o]; exact hm
    obtain ⟨_, _, hlen, p, hps, _, hpe⟩ := colSimp_props h (0 + 1) hm'
    obtain ⟨a, b, hab⟩ := List.length_eq_two.mp hlen
    have hmem : ∀ y ∈ (colSimp s (0 + 1))[m].2, y ∈ s.nodes := by
      intro y hy; rw [hpe] at hy; exact h.memNodes p hps y (mem_ss.mp hy)
    obtain ⟨ia, hia, haa, _⟩ := idxOf_nodes h (hmem a (by rw [hab]; simp))
    obtain ⟨ib, hib, hbb, _⟩ := idxOf_nodes h (hmem b (by rw [hab]; simp))
    have hab' : (colSimp s (0 + 1))[m].2 = [s.nodes[ia], s.nodes[ib]] := by rw [hab, haa, hbb]
    rw [boundary_one_transpose_apply h o x hm' hia hib hab', hE m hm' ia ib hia hib hab']
    simp

/-! ### the kernel of `L_0` and the connected components of the 1-skeleton

    `Reach s a b` (XgiModel/C13/LemmasKer.lean): `a` and `b` are joined by a path of 1-simplices
    (`Relation.ReflTransGen` of "`a ≠ b` are both members of a simplex with two members");
    `compSetoid s`: that relation on node positions `Fin s.nodes.length`;
    `L0Matrix K s o`: the model's `hodge s 0 o` with entries cast to `K`, as a Mathlib matrix on node positions;
    `nComponents s` (XgiModel/C13/Components.lean): the executable component count the driver reports. -/

/-- `L_0` is a square matrix indexed by the node positions (so `L0Matrix` is all of it) -/
theorem hodge_zero_shape (o : PyId → Nat) : (hodge s 0 o).r = s.nodes.length ∧ (hodge s 0 o).c = s.nodes.length := by
  rw [hodge_r, hodge_c, boundary_c]; simp [upIds]

/-- **kernel of `L_0`, integer vectors**: `L_0 x = 0` exactly when `x` is constant on every connected component of
    the 1-skeleton (takes equal values at any two nodes joined by a path of 1-simplices) -/
theorem ker_L0_iff_const_on_components (h : WF s) (o : PyId → Nat) (x : Nat → Int) :
    (∀ i < (hodge s 0 o).r, (hodge s 0 o).mulVec x i = 0) ↔
    (∀ (ia ib : Nat) (hia : ia < s.nodes.length) (hib : ib < s.nodes.length),
      Reach s s.nodes[ia] s.nodes[ib] → x ia = x ib) := by
  rw [ker_L0_const_on_edges h o x]
  exact const_on_edges_iff_const_on_reach h x

/-- over an ordered field, `L_0 x = 0` exactly when `B_1ᵀ x = 0` (`xᵀ L_0 x = ‖B_1ᵀ x‖²`) -/
theorem ker_L0_iff_field {K : Type} [Field K] [LinearOrder K] [IsStrictOrderedRing K] (h : WF s) (o : PyId → Nat)
    (x : Nat → K) :
    (∀ i < s.nodes.length, ∑ j ∈ range s.nodes.length, ((hodge s 0 o).e i j : K) * x j = 0) ↔
    (∀ m < (colSimp s (0 + 1)).length, ∑ j ∈ range s.nodes.length, ((boundary s (0 + 1) o).e j m : K) * x j = 0) := by
  have h0 : (boundary s 0 o).r = 0 := (boundary_zero_no_rows h o).1
  have hc : (boundary s (0 + 1) o).c = (colSimp s (0 + 1)).length := boundary_cols 0 o
  have hL : ∀ i j, ((hodge s 0 o).e i j : K) =
      ∑ m ∈ range (colSimp s (0 + 1)).length, ((boundary s (0 + 1) o).e i m : K) * ((boundary s (0 + 1) o).e j m : K) := by
    intro i j; rw [hodge_e, h0, ← hc]; simp
  constructor
  · intro hker
    have hq := quad_gram (fun m j => ((boundary s (0 + 1) o).e j m : K)) x s.nodes.length (colSimp s (0 + 1)).length
    have hz : (∑ i ∈ range s.nodes.length, ∑ j ∈ range s.nodes.length,
        x i * (∑ m ∈ range (colSimp s (0 + 1)).length,
          ((boundary s (0 + 1) o).e i m : K) * ((boundary s (0 + 1) o).e j m : K)) * x j) = 0 := by
      apply Finset.sum_eq_zero
      intro i hi
      have := hker i (mem_range.mp hi)
      calc (∑ j ∈ range s.nodes.length, x i * (∑ m ∈ range (colSimp s (0 + 1)).length,
              ((boundary s (0 + 1) o).e i m : K) * ((boundary s (0 + 1) o).e j m : K)) * x j)
          = x i * ∑ j ∈ range s.nodes.length, ((hodge s 0 o).e i j : K) * x j := by
            rw [Finset.mul_sum]; apply Finset.sum_congr rfl; intro j _; rw [hL]; ring
        _ = 0 := by rw [this, mul_zero]
    rw [hz] at hq
    have := (Finset.sum_eq_zero_iff_of_nonneg (fun _ _ => sq_nonneg _)).mp hq.symm
    intro m hm
    exact pow_eq_zero_iff (two_ne_zero) |>.mp (this m (mem_range.mpr hm))
  · intro hT0 i _
    calc (∑ j ∈ range s.nodes.length, ((hodge s 0 o).e i j : K) * x j)
        = ∑ m ∈ range (colSimp s (0 + 1)).length, ((boundary s (0 + 1) o).e i m : K) *
            ∑ j ∈ range s.nodes.length, ((boundary s (0 + 1) o).e j m : K) * x j := by
          simp_rw [hL, Finset.sum_mul, Finset.mul_sum]
          rw [Finset.sum_comm]
          apply Finset.sum_congr rfl; intro m _
          apply Finset.sum_congr rfl; intro j _
          ring
      _ = 0 := by
          apply Finset.sum_eq_zero
          intro m hm
          rw [hT0 m (mem_range.mp hm), mul_zero]

/-- **kernel of `L_0`, vectors over an ordered field** (ℚ, ℝ): `L_0 x = 0` exactly when `x` is constant on every
    connected component of the 1-skeleton -/
theorem ker_L0_field_iff_const_on_components {K : Type} [Field K] [LinearOrder K] [IsStrictOrderedRing K]
    (h : WF s) (o : PyId → Nat) (x : Nat → K) :
    (∀ i < s.nodes.length, ∑ j ∈ range s.nodes.length, ((hodge s 0 o).e i j : K) * x j = 0) ↔
    (∀ (ia ib : Nat) (hia : ia < s.nodes.length) (hib : ib < s.nodes.length),
      Reach s s.nodes[ia] s.nodes[ib] → x ia = x ib) := by
  rw [ker_L0_iff_field h o x, ← const_on_edges_iff_const_on_reach h x]
  have hs : ∀ k : Nat, (sgn k : K) ≠ 0 := fun k => by exact_mod_cast sgn_ne_zero k
  constructor
  · intro hT m hm ia ib hia hib hab
    have h1 := hT m hm
    rw [boundary_one_transpose_apply_field h o x hm hia hib hab] at h1
    rcases mul_eq_zero.mp h1 with h2 | h2
    · exact absurd h2 (hs _)
    · exact (sub_eq_zero.mp h2).symm
  · intro hE m hm
    obtain ⟨_, _, hlen, p, hps, _, hpe⟩ := colSimp_props h (0 + 1) hm
    obtain ⟨a, b, hab⟩ := List.length_eq_two.mp hlen
    have hmem : ∀ y ∈ (colSimp s (0 + 1))[m].2, y ∈ s.nodes := by
      intro y hy; rw [hpe] at hy; exact h.memNodes p hps y (mem_ss.mp hy)
    obtain ⟨ia, hia, haa, _⟩ := idxOf_nodes h (hmem a (by rw [hab]; simp))
    obtain ⟨ib, hib, hbb, _⟩ := idxOf_nodes h (hmem b (by rw [hab]; simp))
    have hab' : (colSimp s (0 + 1))[m].2 = [s.nodes[ia], s.nodes[ib]] := by rw [hab, haa, hbb]
    rw [boundary_one_transpose_apply_field h o x hm hia hib hab', hE m hm ia ib hia hib hab']
    simp

/-- the same in matrix form: the kernel of the Mathlib matrix `L0Matrix K s o` is the set of vectors that are
    constant on the classes of `compSetoid s` -/
theorem ker_L0Matrix_iff {K : Type} [Field K] [LinearOrder K] [IsStrictOrderedRing K] (h : WF s) (o : PyId → Nat)
    (x : Fin s.nodes.length → K) :
    (L0Matrix K s o).mulVec x = 0 ↔ ∀ i j, (compSetoid s).r i j → x i = x j := by
  let xe : Nat → K := fun k => if hk : k < s.nodes.length then x ⟨k, hk⟩ else 0
  have hxe : ∀ i : Fin s.nodes.length, xe i = x i := fun i => by simp [xe]
  have hmv : ∀ i : Fin s.nodes.length, (L0Matrix K s o).mulVec x i =
      ∑ j ∈ range s.nodes.length, ((hodge s 0 o).e i j : K) * xe j := by
    intro i
    rw [← Fin.sum_univ_eq_sum_range (fun j => ((hodge s 0 o).e i j : K) * xe j)]
    simp only [Matrix.mulVec, dotProduct, L0Matrix, Matrix.of_apply, hxe]
  have hiff := ker_L0_field_iff_const_on_components h o xe
  constructor
  · intro hz i j hij
    have := hiff.mp (fun i hi => by rw [← hmv ⟨i, hi⟩, hz]; rfl) i j i.2 j.2 hij
    rwa [hxe, hxe] at this
  · intro hc
    funext i
    rw [hmv i]
    refine hiff.mpr ?_ i i.2
    intro ia ib hia hib hr
    have := hc ⟨ia, hia⟩ ⟨ib, hib⟩ hr
    rwa [← hxe, ← hxe] at this

/-- **the executable labelling decides reachability**: two nodes get the same representative in the table
    `repTab s` the driver builds exactly when they are joined by a path of 1-simplices -/
theorem components_labels_spec (h : WF s) {a b : Atom} (ha : a ∈ s.nodes) (hb : b ∈ s.nodes) :
    look (repTab s) a = look (repTab s) b ↔ Reach s a b := by
  rw [look_repTab s ha, look_repTab s hb]; exact labels_reach h.memNodup a b

/-- **the executable component count** (what the driver reports and the harness compares with its union-find and with
    `xgi.number_connected_components`) is the number of reachability classes of node positions -/
theorem components_count_spec (h : WF s) : nComponents s = Nat.card (Quotient (compSetoid s)) :=
  nComponents_eq_card h.memNodup

/-- **dim ker `L_0` = number of reachability classes**, over every ordered field (ℚ, ℝ): the kernel of the linear map
    of the model's `L_0` is linearly equivalent to the functions on the quotient of the node positions by
    reachability through 1-simplices (`kerEquivQuotientFun`) -/
theorem ker_L0_finrank_eq_card_classes {K : Type} [Field K] [LinearOrder K] [IsStrictOrderedRing K] (h : WF s)
    (o : PyId → Nat) :
    Module.finrank K (LinearMap.ker (Matrix.toLin' (L0Matrix K s o))) = Nat.card (Quotient (compSetoid s)) :=
  finrank_ker_of_const_on_classes _ _ (ker_L0Matrix_iff h o)

/-- **the kernel of the order-0 Laplacian has dimension equal to the number of connected components**
    (for every well-formed complex, every orientation, over every ordered field) -/
theorem ker_L0_finrank {K : Type} [Field K] [LinearOrder K] [IsStrictOrderedRing K] (h : WF s) (o : PyId → Nat) :
    Module.finrank K (LinearMap.ker (Matrix.toLin' (L0Matrix K s o))) = nComponents s := by
  rw [ker_L0_finrank_eq_card_classes h o, components_count_spec h]

/-! ### non-vacuity: a concrete complex with mixed labels, non-sorted insertion order and explicit ids meets
    the hypotheses, and the model evaluates to the matrices xgi returns for it -/

/-- `xgi.SimplicialComplex([[3, 1, 2], [2, "a"]])` plus an isolated node, as the views list it -/
private def demo : SC :=
  { nodes := [.int 3, .int 1, .int 2, .str "a", .int 9]
    simplices := [(.int 0, [.int 1, .int 2, .int 3]), (.str "e", [.int 2, .str "a"]), (.int 2, [.int 1, .int 3]),
                  (.int 3, [.int 3, .int 2]), (.int 4, [.int 1, .int 2])] }

private def demoO : PyId → Nat := orientOf [(.int 0, 1), (.str "e", 0), (.int 2, 1), (.int 3, 0), (.int 4, 1)]

example : WF demo := by decide
example : boundaryDefined demo 2 demoO = true := by decide +kernel
example : (boundary demo 1 demoO).toLists = [[0, -1, 1, 0], [0, 1, 0, 1], [-1, 0, -1, -1], [1, 0, 0, 0], [0, 0, 0, 0]] := by
  decide +kernel
example : (boundary demo 2 demoO).toLists = [[0], [-1], [-1], [1]] := by decide +kernel
example : ((boundary demo 1 demoO).mul (boundary demo 2 demoO)).toLists = [[0], [0], [0], [0], [0]] := by decide +kernel
example : (hodge demo 0 demoO).toLists =
    [[2, -1, -1, 0, 0], [-1, 2, -1, 0, 0], [-1, -1, 3, -1, 0], [0, 0, -1, 1, 0], [0, 0, 0, 0, 0]] := by decide +kernel
/-- orientation values ≥ 2 (xgi's docstring says "boolean", the code accepts any int and uses it as an exponent of −1 /
    summand mod 2): the model computes with the naturals as given; `demoO3` has the parities of `demoO` and gives the
    same matrices (the harness compares such orientations with the real code on every run) -/
private def demoO3 : PyId → Nat := orientOf [(.int 0, 3), (.str "e", 2), (.int 2, 1), (.int 3, 2), (.int 4, 3)]
example : (boundary demo 1 demoO3).toLists = (boundary demo 1 demoO).toLists := by decide +kernel
example : (boundary demo 2 demoO3).toLists = [[0], [-1], [-1], [1]] := by decide +kernel
example : ((boundary demo 1 demoO3).mul (boundary demo 2 demoO3)).toLists = [[0], [0], [0], [0], [0]] := by decide +kernel
/-- a complex that is not downward closed violates the hypotheses (and the Python call raises) -/
example : ¬ WF { demo with simplices := demo.simplices.take 4 } := by decide
example : boundaryDefined { demo with simplices := demo.simplices.take 4 } 2 demoO = false := by decide +kernel

/-! non-vacuity of the kernel clause: `demo` has the component {3, 1, 2, "a"} and the isolated node 9;
    `demo2` has two components with an edge each and one isolated node -/
private def demo2 : SC :=
  { nodes := [.int 0, .str "b", .int 2, .int 5, .str "a"]
    simplices := [(.int 0, [.str "a", .int 0]), (.int 1, [.int 5, .str "b"])] }

example : nComponents demo = 2 := by decide
example : WF demo2 := by decide
example : nComponents demo2 = 3 := by decide
example : look (repTab demo2) (.int 0) = look (repTab demo2) (.str "a") := by decide
example : look (repTab demo2) (.int 0) ≠ look (repTab demo2) (.int 5) := by decide
example : Reach demo (.int 3) (.str "a") := (components_labels_spec (by decide) (by decide) (by decide)).mp (by decide)
example : ¬ Reach demo (.int 3) (.int 9) :=
  fun hr => absurd ((components_labels_spec (by decide) (by decide) (by decide)).mpr hr) (by decide)
/-- a disconnected complex whose `L_0` has a 2-dimensional kernel over ℚ -/
example : Module.finrank ℚ (LinearMap.ker (Matrix.toLin' (L0Matrix ℚ demo demoO))) = 2 := by
  rw [ker_L0_finrank (by decide)]; decide
example : Module.finrank ℚ (LinearMap.ker (Matrix.toLin' (L0Matrix ℚ demo2 (fun _ => 0)))) = 3 := by
  rw [ker_L0_finrank (by decide)]; decide
/-- the indicator of the component {3, 1, 2, "a"} of `demo` is in the kernel, the indicator of {3, 1} is not -/
example : ∀ i < (hodge demo 0 demoO).r, (hodge demo 0 demoO).mulVec (fun k => if k < 4 then 1 else 0) i = 0 := by
  decide +kernel
example : ¬ ∀ i < (hodge demo 0 demoO).r, (hodge demo 0 demoO).mulVec (fun k => if k < 2 then 1 else 0) i = 0 := by
  decide +kernel

end Xgi.C13
