/-
  C19 helper lemmas, part 5: the stages of `Hypergraph.cleanup`.
-/
import XgiModel.C19.Lemmas4

namespace Xgi.C19
open Xgi Xgi.HG

/-! ### the guarantees -/

/-- no node without an edge -/
def NoIso (t : HG) : Prop := ∀ n ∈ t.nodes, t.memb n ≠ []
/-- no edge with exactly one member -/
def NoSing (t : HG) : Prop := ∀ e ∈ t.edges, (t.mem e).length ≠ 1
/-- no two edges with the same member set -/
def NoMulti (t : HG) : Prop := ∀ e ∈ t.edges, ∀ e' ∈ t.edges, (∀ x, x ∈ t.mem e ↔ x ∈ t.mem e') → e = e'

/-- an unfrozen network satisfying the invariant -/
def Live (t : HG) : Prop := Inv t ∧ t.frozen = false

/-! ### frozen flag -/

theorem addEdgesItem_frozen (fmt : Fmt) (attr : Attrs) (s : HG) (it : EdgeItem) :
    (addEdgesItem fmt attr s it).1.frozen = s.frozen := by
  unfold addEdgesItem
  by_cases hx : fmt.explicit = true
  · simp only [hx, if_true]
    split
    · rfl
    · split
      · rfl
      · simp only []
        rw [(bumpUid_fields _ _).2.2.2.2.2.2.1, (addEdgeAt_added1 _ _ _ _).frozen]
  · simp only [hx]
    simp only [Bool.false_eq_true, if_false]
    split
    · rfl
    · split
      · rfl
      · simp only []
        rw [(addEdgeAt_added1 _ _ _ _).frozen]

theorem bulk_frozen {α : Type} (f : HG → α → HG × Outcome) (hf : ∀ s a, (f s a).1.frozen = s.frozen)
    (l : List α) (s : HG) : (bulk f s l).1.frozen = s.frozen := by
  have := bulk_inv (fun t => t.frozen = s.frozen) f (fun t a ht => by rw [hf t a]; exact ht) l (s := s) rfl
  exact this

theorem addEdgesFrom_frozen (s : HG) (fmt : Fmt) (items : List EdgeItem) (attr : Attrs) :
    (addEdgesFrom s fmt items attr).1.frozen = s.frozen := by
  have key := bulk_frozen (addEdgesItem fmt attr) (addEdgesItem_frozen fmt attr) items s
  unfold addEdgesFrom
  (repeat' split) <;> first | rfl | exact key

theorem removeEdgesFrom_frozen (s : HG) (es : List PyId) : (removeEdgesFrom s es).1.frozen = s.frozen := by
  unfold removeEdgesFrom
  apply bulk_frozen
  intro t e; unfold removeEdge; split <;> rfl

theorem removeNodesFrom_frozen (s : HG) (ns : List PyId) (st re : Bool) :
    (removeNodesFrom s ns st re).1.frozen = s.frozen := by
  unfold removeNodesFrom
  apply bulk_frozen
  intro t n; unfold removeNodesItem removeNode
  (repeat' split) <;> rfl

theorem guardF_live (t : HG) (r : HG × Outcome) (h : t.frozen = false) : guardF t r = r := by
  unfold guardF; simp [h]

/-! ### merge_duplicate_edges keeps a live network live -/

theorem mergeLoop_first_state (rule : MergeRule) (mult : Option String) (gs : List (List PyId)) (s : HG)
    (dups : List PyId) (news : List EdgeItem) : (mergeLoop .first rule mult s gs dups news).1 = s := by
  induction gs generalizing dups news with
  | nil => rfl
  | cons g gs ih =>
    simp only [mergeLoop]
    split
    · exact ih _ _
    · have hg : (mergeGroup .first rule mult s g).1 = s := by
        cases g with
        | nil => rfl
        | cons r t =>
          have hid : (mergeNewId .first s (r :: t)).1 = s := by
            unfold mergeNewId; simp only []; split <;> rfl
          simp only [mergeGroup]
          split
          · rename_i heq; rw [heq] at hid; exact hid
          · rename_i heq; rw [heq] at hid
            split <;> exact hid
      split
      · rename_i heq; rw [heq] at hg; exact hg
      · rename_i heq; rw [heq] at hg; simp only [] at hg; subst hg; exact ih _ _

theorem merge_live {s : HG} (h : Live s) (r : HG × Outcome)
    (hr : mergeDuplicateEdges s .first .first none = some r) : Live r.1 := by
  refine ⟨mergeDuplicateEdges_inv h.1 _ _ _ r hr, ?_⟩
  unfold mergeDuplicateEdges at hr
  have hst := mergeLoop_first_state .first none (groupDups s) s [] []
  split at hr
  · cases hr
  · rename_i heq; rw [heq] at hst; cases hr; simp only [] at hst; rw [hst]; exact h.2
  · rename_i heq; rw [heq] at hst; cases hr; simp only [] at hst; rw [hst]; exact h.2
  · rename_i s' dups news heq
    rw [heq] at hst; simp only [] at hst hr; subst hst
    rw [guardF_live _ _ h.2] at hr
    have f1 := removeEdgesFrom_frozen s' dups
    split at hr
    · cases hr; rw [f1]; exact h.2
    · rw [guardF_live _ _ (by rw [f1]; exact h.2)] at hr
      have f2 := addEdgesFrom_frozen (removeEdgesFrom s' dups).1 .f4 news []
      split at hr <;> (cases hr; show (addEdgesFrom (removeEdgesFrom s' dups).1 .f4 news []).1.frozen = false; rw [f2, f1]; exact h.2)

/-! ### the singleton step -/

theorem stageS_spec {t : HG} (h : Live t) :
    (guardF t (removeEdgesFrom t (singletons t))).2 = .ok ∧
    Live (guardF t (removeEdgesFrom t (singletons t))).1 ∧
    NoSing (guardF t (removeEdgesFrom t (singletons t))).1 ∧
    SameTables (guardF t (removeEdgesFrom t (singletons t))).1 t ∧
    (guardF t (removeEdgesFrom t (singletons t))).1.edges = t.edges.filter (fun e => decide ((t.mem e).length ≠ 1)) := by
  rw [guardF_live _ _ h.2]
  obtain ⟨g1, g2, g3⟩ := removeEdges_spec (singletons t) t (nodup_filter _ h.1.1.nodupE)
    (fun e he => (List.mem_filter.1 he).1)
  have hed : (removeEdgesFrom t (singletons t)).1.edges = t.edges.filter (fun e => decide ((t.mem e).length ≠ 1)) := by
    rw [g3]; apply List.filter_congr; intro e he
    simp [singletons, he]
  refine ⟨g1, ⟨removeEdgesFrom_inv h.1 _, by rw [removeEdgesFrom_frozen]; exact h.2⟩, ?_, g2, hed⟩
  intro e he
  rw [hed] at he
  rw [g2.mem]
  simpa using (List.mem_filter.1 he).2

/-! ### the isolates step -/

theorem stageI_spec {t : HG} (h : Live t) :
    (guardF t (removeNodesFrom t (isolates t) false true)).2 = .ok ∧
    Live (guardF t (removeNodesFrom t (isolates t) false true)).1 ∧
    NoIso (guardF t (removeNodesFrom t (isolates t) false true)).1 ∧
    (guardF t (removeNodesFrom t (isolates t) false true)).1.nodes = t.nodes.filter (fun n => decide (t.memb n ≠ [])) ∧
    (guardF t (removeNodesFrom t (isolates t) false true)).1.edges = t.edges ∧
    (guardF t (removeNodesFrom t (isolates t) false true)).1.mem = t.mem ∧
    (guardF t (removeNodesFrom t (isolates t) false true)).1.nattr = t.nattr ∧
    (guardF t (removeNodesFrom t (isolates t) false true)).1.eattr = t.eattr ∧
    (guardF t (removeNodesFrom t (isolates t) false true)).1.net = t.net := by
  rw [guardF_live _ _ h.2]
  obtain ⟨g1, g2, g3, g4, g5, g6, g7, g8, g9, _⟩ := removeIsolated_spec (isolates t) t (nodup_filter _ h.1.1.nodupN) (by
    intro n hn
    simp only [isolates, List.mem_filter, decide_eq_true_eq, List.length_eq_zero_iff] at hn
    exact hn)
  have hnd : (removeNodesFrom t (isolates t) false true).1.nodes = t.nodes.filter (fun n => decide (t.memb n ≠ [])) := by
    rw [g2]; apply List.filter_congr; intro n hn
    simp [isolates, hn, List.length_eq_zero_iff]
  refine ⟨g1, ⟨removeNodesFrom_inv h.1 _ _ _, by rw [g9]; exact h.2⟩, ?_, hnd, g3, g4, g7, g6, g8⟩
  intro n hn
  rw [hnd] at hn
  rw [g5]
  simpa using (List.mem_filter.1 hn).2

/-! ### relabelling preserves the guarantees -/

theorem relabel_preserves {t : HG} (h : Live t) (l : String) :
    (relabel t l).2 = .ok ∧ Inv (relabel t l).1 ∧
    (NoSing t → NoSing (relabel t l).1) ∧ (NoIso t → NoIso (relabel t l).1) ∧ (NoMulti t → NoMulti (relabel t l).1) := by
  obtain ⟨r1, r2⟩ := relabel_fields h.1 h.2 l
  have hw := h.1.1
  generalize (relabel t l).1 = r at *
  refine ⟨r1, r2.inv, ?_, ?_, ?_⟩
  · intro hs e' he'
    rw [r2.edges] at he'
    obtain ⟨e, he, rfl⟩ := List.mem_map.1 he'
    rw [r2.mem e he, List.length_map]; exact hs e he
  · intro hi n' hn'
    rw [r2.nodes] at hn'
    obtain ⟨n, hn, rfl⟩ := List.mem_map.1 hn'
    cases hm : t.memb n with
    | nil => exact absurd hm (hi n hn)
    | cons e _ =>
      have he : e ∈ t.memb n := by rw [hm]; simp
      obtain ⟨he1, he2⟩ := hw.n2e n hn e he
      have : pos t.nodes n ∈ r.mem (pos t.edges e) := by rw [r2.mem e he1]; exact List.mem_map_of_mem he2
      have := (r2.inv.1.e2n (pos t.edges e) (by rw [r2.edges]; exact List.mem_map_of_mem he1) _ this).2
      intro hnil; rw [hnil] at this; cases this
  · intro hm a' ha' b' hb' hsame
    rw [r2.edges] at ha' hb'
    obtain ⟨a, ha, rfl⟩ := List.mem_map.1 ha'
    obtain ⟨b, hb, rfl⟩ := List.mem_map.1 hb'
    have : a = b := by
      apply hm a ha b hb
      intro x
      have hx := hsame (pos t.nodes x)
      rw [r2.mem a ha, r2.mem b hb] at hx
      constructor
      · intro hxa
        obtain ⟨y, hy, heq⟩ := List.mem_map.1 (hx.1 (List.mem_map_of_mem hxa))
        have := pos_inj _ hw.nodupN (hw.e2n b hb y hy).1 (hw.e2n a ha x hxa).1 heq
        rw [← this]; exact hy
      · intro hxb
        obtain ⟨y, hy, heq⟩ := List.mem_map.1 (hx.2 (List.mem_map_of_mem hxb))
        have := pos_inj _ hw.nodupN (hw.e2n a ha y hy).1 (hw.e2n b hb x hxb).1 heq
        rw [← this]; exact hy
    rw [this]

/-! ### sequencing -/

theorem join_ok_right (o : Outcome) (h : o.isErr = false) : Outcome.join o .ok = o := by
  cases o with
  | ok => rfl
  | warned => rfl
  | err k => simp [Outcome.isErr] at h

theorem andThen_noerr (r : HG × Outcome) (f : HG → HG × Outcome) (h : r.2.isErr = false) (hf : (f r.1).2 = .ok) :
    andThen r f = ((f r.1).1, r.2) := by
  unfold andThen
  simp only [h, Bool.false_eq_true, if_false, hf, join_ok_right _ h]

theorem andThen_err (r : HG × Outcome) (f : HG → HG × Outcome) (h : r.2.isErr = true) : andThen r f = r := by
  unfold andThen; simp [h]

end Xgi.C19
