/-
  C19 helper lemmas: on a *closed* complex the `add_simplices_from` branch of `convert_labels_to_integers` does
  exactly what the `add_edges_from` branch does on the same tables — every face of a relabelled simplex is itself
  one of the relabelled simplices, so the deferred face insertion finds nothing to add.  Hence
  `SC.relabel S l {} = HG.relabel S l` for every simplicial complex `S` (in the sense of C03's `SCInv`), and the
  theorems about `HG.relabel` (`relabel_iso`, `relabel_records_old_labels` in Props/C19.lean) apply verbatim.
-/
import XgiModel.C19.LemmasOther
import XgiModel.C19.Lemmas4

namespace Xgi.C19.S
open Xgi HG SC

theorem orderBy_nil (ms : List PyId) : orderBy [] ms = ms := by
  unfold orderBy
  simp only [List.filter_nil, List.nil_append]
  exact filter_not_mem_nil ms

/-- one item of the explicit-ID loop of `add_simplices_from`, when the simplex is new: the same write as
    `add_edges_from`, plus the faces queued -/
theorem addSimplicesItem_f4 (t : HG) (q : List (List PyId)) (it : EdgeItem) (hemp : it.members ≠ [])
    (hhas : ¬ Has t it.members) (hnone : PyId.none ∉ it.members) (hfresh : it.idx.getD .none ∉ t.edges)
    (hne : it.idx.getD .none ≠ .none) :
    addSimplicesItem .f4 [] none {} (t, q) it =
      (((addEdgesItem .f4 [] t it).1, q ++ subfacesRaw it.members), .ok) := by
  have h1 : it.members.isEmpty = false := by cases hm : it.members with
    | nil => exact absurd hm hemp
    | cons _ _ => rfl
  have h2 : hasSimplex t it.members = false := by
    cases hc : hasSimplex t it.members with
    | false => rfl
    | true => exact absurd ((hasSimplex_iff t _).1 hc) hhas
  rw [addEdgesItem_f4 t it hne hfresh hnone]
  unfold addSimplicesItem addTop
  simp [h1, h2, hnone, Fmt.explicit, truncQ, hfresh, hne, orderBy_nil]

/-- what one such write does to "is a simplex" -/
theorem has_after (t : HG) (it : EdgeItem) (hne : it.idx.getD .none ≠ .none) (hfresh : it.idx.getD .none ∉ t.edges)
    (hnone : PyId.none ∉ it.members) (u : List PyId) :
    Has (addEdgesItem .f4 [] t it).1 u ↔ Has t u ∨ SameSet it.members u := by
  rw [addEdgesItem_f4 t it hne hfresh hnone]
  have hA := (addEdgeAt_added1 t (it.idx.getD .none) (dedup it.members) (Attrs.update [] it.attr))
  have hb := bumpUid_fields (addEdgeAt t (it.idx.getD .none) (dedup it.members) (Attrs.update [] it.attr)) (it.idx.getD .none)
  unfold Has
  simp only []
  rw [hb.2.1, hb.2.2.1, hA.edges, hA.mem]
  constructor
  · rintro ⟨f, hf, hs⟩
    rcases List.mem_append.1 hf with hf | hf
    · left; refine ⟨f, hf, ?_⟩
      have : f ≠ it.idx.getD .none := fun hc => hfresh (hc ▸ hf)
      simpa [upd, this] using hs
    · right
      simp only [List.mem_singleton] at hf; subst hf
      intro x
      have := hs x
      simp only [upd, if_true, mem_dedup] at this
      exact this
  · rintro (⟨f, hf, hs⟩ | hs)
    · refine ⟨f, by simp [hf], ?_⟩
      have : f ≠ it.idx.getD .none := fun hc => hfresh (hc ▸ hf)
      simpa [upd, this] using hs
    · refine ⟨it.idx.getD .none, by simp, ?_⟩
      intro x; simp only [upd, if_true, mem_dedup]; exact hs x

theorem edges_after (t : HG) (it : EdgeItem) (hne : it.idx.getD .none ≠ .none) (hfresh : it.idx.getD .none ∉ t.edges)
    (hnone : PyId.none ∉ it.members) : (addEdgesItem .f4 [] t it).1.edges = t.edges ++ [it.idx.getD .none] := by
  rw [addEdgesItem_f4 t it hne hfresh hnone]
  have hA := (addEdgeAt_added1 t (it.idx.getD .none) (dedup it.members) (Attrs.update [] it.attr))
  have hb := bumpUid_fields (addEdgeAt t (it.idx.getD .none) (dedup it.members) (Attrs.update [] it.attr)) (it.idx.getD .none)
  rw [hb.2.1, hA.edges]

/-- the loop of `add_simplices_from` (format 4) over new, pairwise different simplices: the complex part of the
    state is what `add_edges_from` builds, the queue collects the faces of every item -/
theorem loop_eq (items : List EdgeItem) (t : HG) (q : List (List PyId))
    (hid : (items.map (fun it => it.idx.getD .none)).Nodup)
    (hok : ∀ it ∈ items, it.idx.getD .none ≠ .none ∧ it.idx.getD .none ∉ t.edges ∧ PyId.none ∉ it.members ∧
      it.members ≠ [] ∧ ¬ Has t it.members)
    (hpair : items.Pairwise (fun a b => ¬ SameSet a.members b.members)) :
    bulkS (addSimplicesItem .f4 [] none {}) (t, q) items =
      (((bulk (addEdgesItem .f4 []) t items).1, q ++ items.flatMap (fun it => subfacesRaw it.members)), .ok) ∧
    (bulk (addEdgesItem .f4 []) t items).2 = .ok := by
  induction items generalizing t q with
  | nil => simp [bulkS, bulk]
  | cons it rest ih =>
    obtain ⟨h1, h2, h3, h4, h5⟩ := hok it (by simp)
    have hstepS := addSimplicesItem_f4 t q it h4 h5 h3 h2 h1
    have hstepH := addEdgesItem_f4 t it h1 h2 h3
    simp only [List.map_cons, List.nodup_cons] at hid
    rw [List.pairwise_cons] at hpair
    have hrest := ih (addEdgesItem .f4 [] t it).1 (q ++ subfacesRaw it.members) hid.2 (by
      intro it' hit'
      obtain ⟨g1, g2, g3, g4, g5⟩ := hok it' (by simp [hit'])
      refine ⟨g1, ?_, g3, g4, ?_⟩
      · rw [edges_after t it h1 h2 h3]
        simp only [List.mem_append, List.mem_singleton, not_or]
        refine ⟨g2, ?_⟩
        intro heq; apply hid.1; rw [← heq]; exact List.mem_map_of_mem (f := fun it => it.idx.getD .none) hit'
      · rw [has_after t it h1 h2 h3]
        rintro (hc | hc)
        · exact g5 hc
        · exact hpair.1 it' hit' hc) hpair.2
    have hb : bulk (addEdgesItem .f4 []) t (it :: rest) = bulk (addEdgesItem .f4 []) (addEdgesItem .f4 [] t it).1 rest := by
      have : addEdgesItem .f4 [] t it = ((addEdgesItem .f4 [] t it).1, .ok) := by rw [hstepH]
      exact bulk_cons_ok _ t _ it rest this
    rw [hb]
    refine ⟨?_, hrest.2⟩
    simp only [bulkS, hstepS, hrest.1, List.flatMap_cons, List.append_assoc]
    rfl

/-- with everything queued already a simplex, the deferred insertion changes nothing -/
theorem addFaces_noop' (t : HG) (q : List (List PyId)) (hq : ∀ f ∈ q, Has t f) : addFaces t q {} = t := by
  unfold addFaces
  apply foldl_fixed
  intro u hu
  have hu' : Has t u := by
    unfold faceOrder at hu
    simp only [List.filter_nil, List.nil_append] at hu
    exact hq u hu
  unfold addFaceIfMissing
  rw [if_pos (Or.inr ((hasSimplex_iff t u).2 hu'))]

/-- **format 4 of `add_simplices_from` on a face-closed family of new simplices = format 4 of `add_edges_from`** -/
theorem addSimplicesFrom_eq_addEdgesFrom (items : List EdgeItem) (t : HG)
    (hid : (items.map (fun it => it.idx.getD .none)).Nodup)
    (hok : ∀ it ∈ items, it.idx.getD .none ≠ .none ∧ it.idx.getD .none ∉ t.edges ∧ PyId.none ∉ it.members ∧
      it.members ≠ [] ∧ ¬ Has t it.members)
    (hpair : items.Pairwise (fun a b => ¬ SameSet a.members b.members))
    (hclosed : ∀ it ∈ items, ∀ f ∈ subfacesRaw it.members, ∃ it' ∈ items, SameSet it'.members f) :
    addSimplicesFrom t .f4 items none [] {} = addEdgesFrom t .f4 items [] := by
  obtain ⟨hl, hokH⟩ := loop_eq items t [] hid hok hpair
  rw [addSimplicesFrom_f4, hl, addEdgesFrom_f4]
  simp only [List.nil_append]
  have hb := bulk_f4 items t hid (fun it hit => ⟨(hok it hit).1, (hok it hit).2.1, (hok it hit).2.2.1⟩)
  have hnoop : addFaces (bulk (addEdgesItem .f4 []) t items).1 (items.flatMap (fun it => subfacesRaw it.members)) {} =
      (bulk (addEdgesItem .f4 []) t items).1 := by
    apply addFaces_noop'
    intro f hf
    obtain ⟨it, hit, hfi⟩ := List.mem_flatMap.1 hf
    obtain ⟨it', hit', hs⟩ := hclosed it hit f hfi
    refine ⟨it'.idx.getD .none, ?_, ?_⟩
    · rw [hb.2.edges]; apply List.mem_append_right
      simp only [f4Items, List.map_map, List.mem_map, Function.comp]
      exact ⟨it', hit', rfl⟩
    · have := hb.2.mem_new (it'.idx.getD .none, dedup it'.members, Attrs.update [] it'.attr) (by
        simp only [f4Items, List.mem_map]; exact ⟨it', hit', rfl⟩)
      simp only [] at this
      rw [this]
      intro x; rw [mem_dedup, mem_dedup]; exact hs x
  rw [hnoop, ← hokH]

/-- `SameSet` of two `φ`-images, `φ` injective on the lists, is `SameSet` of the originals -/
theorem sameSet_of_map {φ : PyId → PyId} {a b : List PyId} (nodes : List PyId) (ha : ∀ x ∈ a, x ∈ nodes)
    (hb : ∀ x ∈ b, x ∈ nodes) (hinj : ∀ x ∈ nodes, ∀ y ∈ nodes, φ x = φ y → x = y)
    (h : SameSet (a.map φ) (b.map φ)) : SameSet a b := by
  intro x
  constructor
  · intro hx
    obtain ⟨y, hy, heq⟩ := List.mem_map.1 ((h (φ x)).1 (List.mem_map_of_mem hx))
    rw [← hinj y (hb y hy) x (ha x hx) heq]; exact hy
  · intro hx
    obtain ⟨y, hy, heq⟩ := List.mem_map.1 ((h (φ x)).2 (List.mem_map_of_mem hx))
    rw [← hinj y (ha y hy) x (hb x hx) heq]; exact hy

/-- **on a simplicial complex the simplicial branch of `convert_labels_to_integers(in_place=True)` computes what the
    hypergraph branch computes** (whatever the frozen flag) -/
theorem relabel_eq_hg {s : HG} (h : SCInv s) (labelAttr : String) : SC.relabel s labelAttr {} = HG.relabel s labelAttr := by
  unfold SC.relabel HG.relabel
  simp only []
  split
  · rfl
  · have hw := h.wf
    -- the state after the nodes and their labels: no edge yet
    have hnp : (s.nodes.map (pos s.nodes)).Nodup := nodup_map_pos _ hw.nodupN _ hw.nodupN (fun _ hx => hx)
    have hep : (s.edges.map (pos s.edges)).Nodup := nodup_map_pos _ hw.nodupE _ hw.nodupE (fun _ hx => hx)
    obtain ⟨_, a2⟩ := addPairs_spec s.nodes (pos s.nodes) s.nattr (clear s false).1 hnp (fun x _ => pos_ne_none _ x)
    have i1 : Inv (addNodesFrom (clear s false).1 (s.nodes.map (fun x => (pos s.nodes x, some (s.nattr x)))) []).1 :=
      addNodesFrom_inv (clear_inv ⟨h.wf, h.fresh⟩ false) _ _
    have n1 : (addNodesFrom (clear s false).1 (s.nodes.map (fun x => (pos s.nodes x, some (s.nattr x)))) []).1.nodes =
        s.nodes.map (pos s.nodes) := by
      rw [a2.nodes]; exact foldl_ins_nil_of_nodup hnp
    obtain ⟨_, b2, _, _, _⟩ := setNodeAttrs_dict_spec
      (s.nodes.map (fun n => (pos s.nodes n, [(labelAttr, relabel.idVal n)])))
      (addNodesFrom (clear s false).1 (s.nodes.map (fun x => (pos s.nodes x, some (s.nattr x)))) []).1 (by
        intro p hp
        obtain ⟨n, hn, rfl⟩ := List.mem_map.1 hp
        simp only []
        rw [i1.1.attrN, n1]; exact List.mem_map_of_mem hn)
      (by simpa [List.map_map, Function.comp_def] using hnp)
    have e2 : (setNodeAttrs (addNodesFrom (clear s false).1 (s.nodes.map (fun x => (pos s.nodes x, some (s.nattr x)))) []).1
        (.dictOfDict (s.nodes.map (fun n => (pos s.nodes n, [(labelAttr, relabel.idVal n)]))))).1.edges = [] := by
      rw [b2, a2.edges]; rfl
    have hmn : ∀ e ∈ s.edges, ∀ x ∈ s.mem e, x ∈ s.nodes := fun e he x hx => (hw.e2n e he x hx).1
    have key : ∀ t2 : HG, t2.edges = [] →
        addSimplicesFrom t2 .f4 (mkItems s.edges (pos s.edges) (fun e => (s.mem e).map (pos s.nodes)) s.eattr) none [] {} =
        addEdgesFrom t2 .f4 (mkItems s.edges (pos s.edges) (fun e => (s.mem e).map (pos s.nodes)) s.eattr) [] := by
      intro t2 e2
      apply addSimplicesFrom_eq_addEdgesFrom
      · have : (mkItems s.edges (pos s.edges) (fun e => (s.mem e).map (pos s.nodes)) s.eattr).map (fun it => it.idx.getD .none) =
            s.edges.map (pos s.edges) := by
          simp [mkItems, List.map_map, Function.comp_def]
        rw [this]; exact hep
      · intro it hit
        simp only [mkItems, List.mem_map] at hit
        obtain ⟨e, he, rfl⟩ := hit
        simp only [Option.getD_some]
        refine ⟨pos_ne_none _ e, by rw [e2]; simp, ?_, ?_, ?_⟩
        · intro hn
          obtain ⟨x, _, hx⟩ := List.mem_map.1 hn
          exact pos_ne_none _ x hx
        · intro hnil
          exact h.noempty e he (List.map_eq_nil_iff.1 hnil)
        · rintro ⟨f, hf, _⟩; rw [e2] at hf; cases hf
      · unfold mkItems
        rw [List.pairwise_map]
        refine List.Pairwise.imp_of_mem ?_ hw.nodupE
        intro e e' he he' hne hs
        simp only [] at hs
        exact hne (h.nodup e he e' he' (sameSet_of_map s.nodes (hmn e he) (hmn e' he')
          (fun x hx y hy => pos_inj _ hw.nodupN hx hy) hs))
      · intro it hit f hf
        simp only [mkItems, List.mem_map] at hit
        obtain ⟨e, he, rfl⟩ := hit
        simp only [] at hf
        rw [mem_subfacesRaw] at hf
        obtain ⟨hsub, h2, _⟩ := hf
        obtain ⟨g, hg, rfl⟩ := List.sublist_map_iff.1 hsub
        have hgn : g.Nodup := List.Nodup.sublist hg (hw.setE e he)
        obtain ⟨e', he', hs⟩ := h.closed e he g hgn (fun x hx => hg.subset hx) (by simpa using h2)
        refine ⟨_, List.mem_map.2 ⟨e', he', rfl⟩, ?_⟩
        simp only []
        intro x
        constructor
        · intro hx; obtain ⟨y, hy, rfl⟩ := List.mem_map.1 hx; exact List.mem_map_of_mem ((hs y).1 hy)
        · intro hx; obtain ⟨y, hy, rfl⟩ := List.mem_map.1 hx; exact List.mem_map_of_mem ((hs y).2 hy)
    exact congrArg (fun r : HG × Outcome => ((setEdgeAttrs r.1
      (.dictOfDict (s.edges.map (fun e => (PyId.int (indexOf s.edges e), [(labelAttr, relabel.idVal e)]))))).1, Outcome.ok))
      (key _ e2)

end Xgi.C19.S
