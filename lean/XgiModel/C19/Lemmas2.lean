/-
  C19 helper lemmas, part 2: orders of edges, `remove_simplex_ids_from`, maximal simplices,
  `combinations`.
-/
import XgiModel.C19.Lemmas

namespace Xgi.C19
open Xgi Xgi.HG

/-! ### the maximum edge order -/

theorem foldl_max_ge_init (l : List Nat) (i : Nat) : i ≤ l.foldl max i := by
  induction l generalizing i with
  | nil => exact Nat.le_refl _
  | cons a t ih => simp only [List.foldl_cons]; exact Nat.le_trans (Nat.le_max_left i a) (ih _)

theorem foldl_max_ge (l : List Nat) (i : Nat) : ∀ x ∈ l, x ≤ l.foldl max i := by
  induction l generalizing i with
  | nil => intro x hx; cases hx
  | cons a t ih =>
    intro x hx
    simp only [List.foldl_cons]
    rcases List.mem_cons.1 hx with hx | hx
    · subst hx; exact Nat.le_trans (Nat.le_max_right i x) (foldl_max_ge_init t _)
    · exact ih _ x hx

theorem foldl_max_mem (l : List Nat) (i : Nat) : l.foldl max i = i ∨ l.foldl max i ∈ l := by
  induction l generalizing i with
  | nil => exact Or.inl rfl
  | cons a t ih =>
    simp only [List.foldl_cons]
    rcases ih (max i a) with h | h
    · rw [h]
      rcases Nat.le_total i a with hia | hia
      · right; rw [Nat.max_eq_right hia]; simp
      · left; exact Nat.max_eq_left hia
    · right; exact List.mem_cons_of_mem _ h

/-- `max_edge_order(H)` bounds the order of every edge -/
theorem maxEdgeOrder_ge {s : HG} {mo : Int} (h : maxEdgeOrder s = some mo) :
    ∀ e ∈ s.edges, ((s.mem e).length : Int) - 1 ≤ mo := by
  intro e he
  unfold maxEdgeOrder at h
  have hne : s.edges ≠ [] := by intro hh; rw [hh] at he; cases he
  simp only [hne, if_false, Option.some.injEq] at h
  have := foldl_max_ge (s.edges.map (fun e => (s.mem e).length)) 0 (s.mem e).length
    (List.mem_map.2 ⟨e, he, rfl⟩)
  omega

/-! ### proper subsets are shorter -/

theorem properSubset_length {a b : List PyId} (ha : a.Nodup) (h : properSubset a b = true) : a.length < b.length := by
  unfold properSubset at h
  simp only [Bool.and_eq_true, List.all_eq_true, decide_eq_true_eq, Bool.not_eq_eq_eq_not, Bool.not_true,
    List.all_eq_false] at h
  obtain ⟨hsub, x, hxb, hxa⟩ := h
  have hnd : (x :: a).Nodup := List.nodup_cons.2 ⟨by simpa using hxa, ha⟩
  have := List.Nodup.length_le_of_subset hnd (l₂ := b) (by
    intro y hy
    rcases List.mem_cons.1 hy with hy | hy
    · subst hy; exact hxb
    · exact hsub y hy)
  simp only [List.length_cons] at this; omega

/-! ### `remove_simplex_ids_from(edges above an order)` -/

theorem aboveOrder_closed {c : HG} (h : WF c) (order : Int) :
    ∀ i ∈ aboveOrder c order, ∀ j ∈ c.edges, properSubset (c.mem i) (c.mem j) = true → j ∈ aboveOrder c order := by
  intro i hi j hj hp
  unfold aboveOrder at hi ⊢
  obtain ⟨hi1, hi2⟩ := List.mem_filter.1 hi
  have := properSubset_length (h.setE i hi1) hp
  rw [List.mem_filter]; refine ⟨hj, ?_⟩
  simp only [gt_iff_lt, decide_eq_true_eq] at hi2 ⊢
  omega

theorem removeSimplexIdsFrom_spec {c : HG} (h : WF c) (order : Int) :
    (removeSimplexIdsFrom c (aboveOrder c order)).2 = .ok ∧
    SameTables (removeSimplexIdsFrom c (aboveOrder c order)).1 c ∧
    (removeSimplexIdsFrom c (aboveOrder c order)).1.edges = c.edges.filter (· ∉ aboveOrder c order) := by
  unfold removeSimplexIdsFrom
  have hB : ∀ i ∈ aboveOrder c order, i ∈ c.edges := fun i hi => (List.mem_filter.1 hi).1
  obtain ⟨g1, g2, R', g3, _, g5, g6⟩ := rsi_loop c c.edges (aboveOrder c order) hB hB (aboveOrder_closed h order)
    (aboveOrder c order) (fun _ hi => hi) c [] (by simp) (SameTables.refl c)
    (by simp; exact (List.filter_eq_self.2 (fun _ _ => rfl)).symm)
  refine ⟨g1, g2, ?_⟩
  rw [g6]; apply List.filter_congr; intro x _
  have : x ∈ R' ↔ x ∈ aboveOrder c order := ⟨g3 x, g5 x⟩
  simp [this]

theorem removeSimplexId_wf {t : HG} (h : WF t) (idx : PyId) : WF (removeSimplexId t idx).1 := by
  unfold removeSimplexId; split
  · exact h
  · exact dropEdge_wf (foldl_inv WF dropEdge (fun s a hs => dropEdge_wf hs a) _ h) idx

theorem removeSimplexIdsFrom_wf {t : HG} (h : WF t) (bunch : List PyId) : WF (removeSimplexIdsFrom t bunch).1 := by
  unfold removeSimplexIdsFrom
  exact bulk_inv WF _ (fun s a hs => by
    split
    · exact hs
    · exact removeSimplexId_wf hs a) bunch h

theorem removeEdgesFrom_wf {t : HG} (h : WF t) (es : List PyId) : WF (removeEdgesFrom t es).1 := by
  unfold removeEdgesFrom
  exact bulk_inv WF _ (fun s a hs => by
    unfold removeEdge; split
    · exact hs
    · exact dropEdge_wf hs a) es h

theorem wf_unfreeze {t : HG} (h : WF t) : WF { t with frozen := false } := wf_with h t.net t.uid false


/-- `H.copy()` for either class: an equal, unfrozen, well-formed network -/
theorem copyOf_fields (cls : Cls) {s : HG} (h : WF s) (ha : AttrWF s) :
    (copyOf cls s).2 = .ok ∧ SameNet s (copyOf cls s).1 ∧ (copyOf cls s).1.frozen = false ∧ WF (copyOf cls s).1 := by
  cases cls with
  | hg => have := copy_fields h ha; exact ⟨this.1, this.2.1, this.2.2.1, this.2.2.2.2⟩
  | sc =>
    refine ⟨rfl, ⟨rfl, rfl, fun _ _ => rfl, fun _ _ => rfl, fun _ _ => rfl, rfl⟩, rfl, wf_unfreeze h⟩

/-! ### maximal edges -/

/-- no other edge strictly contains `e` -/
def isMax (s : HG) (e : PyId) : Bool := s.edges.all (fun j => !properSubset (s.mem e) (s.mem j))

theorem foldl_filter_mem (s : HG) (ns : List PyId) (acc : List PyId) (j : PyId) :
    j ∈ ns.foldl (fun acc m => acc.filter (· ∈ s.memb m)) acc ↔ j ∈ acc ∧ ∀ m ∈ ns, j ∈ s.memb m := by
  induction ns generalizing acc with
  | nil => simp
  | cons a t ih =>
    simp only [List.foldl_cons, ih, List.mem_filter, decide_eq_true_eq, List.mem_cons, forall_eq_or_imp]
    constructor
    · rintro ⟨⟨h1, h2⟩, h3⟩; exact ⟨h1, h2, h3⟩
    · rintro ⟨h1, h2, h3⟩; exact ⟨⟨h1, h2⟩, h3⟩

/-- `containing(e)`: the edges that contain all members of `i` (every edge when `i` is empty) -/
theorem interMemb_spec {s : HG} (h : WF s) {i : PyId} (hi : i ∈ s.edges) :
    ∀ j, j ∈ interMemb s (s.mem i) ↔ j ∈ s.edges ∧ ∀ m ∈ s.mem i, m ∈ s.mem j := by
  have hmem : ∀ m ∈ s.mem i, ∀ j, j ∈ s.memb m ↔ j ∈ s.edges ∧ m ∈ s.mem j := by
    intro m hm j
    have hmn := (h.e2n i hi m hm).1
    exact ⟨fun hj => h.n2e m hmn j hj, fun hj => (h.e2n j hj.1 m hj.2).2⟩
  cases hmi : s.mem i with
  | nil => intro j; simp [interMemb]
  | cons n ns =>
    rw [hmi] at hmem
    intro j
    show j ∈ ns.foldl (fun acc m => acc.filter (· ∈ s.memb m)) (s.memb n) ↔ _
    rw [foldl_filter_mem, hmem n (by simp) j]
    constructor
    · rintro ⟨⟨h1, h2⟩, h3⟩
      refine ⟨h1, ?_⟩
      intro m hm
      rcases List.mem_cons.1 hm with hm | hm
      · subst hm; exact h2
      · exact ((hmem m (by simp [hm]) j).1 (h3 m hm)).2
    · rintro ⟨h1, h2⟩
      exact ⟨⟨h1, h2 n (by simp)⟩, fun m hm => (hmem m (by simp [hm]) j).2 ⟨h1, h2 m (by simp [hm])⟩⟩

theorem sameSet_iff (a b : List PyId) : sameSet a b = true ↔ ∀ x, x ∈ a ↔ x ∈ b := by
  unfold sameSet
  simp only [Bool.and_eq_true, List.all_eq_true, decide_eq_true_eq]
  exact ⟨fun h x => ⟨h.1 x, h.2 x⟩, fun h => ⟨fun x hx => (h x).1 hx, fun x hx => (h x).2 hx⟩⟩

theorem mem_dupsOf (s : HG) (i j : PyId) : j ∈ dupsOf s i ↔ j ∈ s.edges ∧ ∀ x, x ∈ s.mem j ↔ x ∈ s.mem i := by
  unfold dupsOf; rw [List.mem_filter, sameSet_iff]

theorem properSubset_iff (a b : List PyId) :
    properSubset a b = true ↔ (∀ x ∈ a, x ∈ b) ∧ ∃ y, y ∈ b ∧ y ∉ a := by
  unfold properSubset
  simp only [Bool.and_eq_true, List.all_eq_true, decide_eq_true_eq, Bool.not_eq_eq_eq_not, Bool.not_true,
    List.all_eq_false]

theorem isMax_iff (s : HG) (e : PyId) :
    isMax s e = true ↔ ∀ j ∈ s.edges, (∀ x ∈ s.mem e, x ∈ s.mem j) → ∀ y ∈ s.mem j, y ∈ s.mem e := by
  unfold isMax
  simp only [List.all_eq_true, Bool.not_eq_eq_eq_not, Bool.not_true]
  constructor
  · intro h j hj hsub y hy
    apply Classical.byContradiction; intro hn
    have : properSubset (s.mem e) (s.mem j) = true := (properSubset_iff _ _).2 ⟨hsub, y, hy, hn⟩
    rw [h j hj] at this; cases this
  · intro h j hj
    cases hp : properSubset (s.mem e) (s.mem j) with
    | false => rfl
    | true =>
      obtain ⟨hsub, y, hy, hn⟩ := (properSubset_iff _ _).1 hp
      exact absurd (h j hj hsub y hy) hn

/-- the test of `EdgeView.maximal`: the edges containing all members of `i` are exactly its duplicates -/
theorem maximal_test {s : HG} {i : PyId} (x : List PyId)
    (hx : ∀ j, j ∈ x ↔ j ∈ s.edges ∧ ∀ m ∈ s.mem i, m ∈ s.mem j) :
    sameSet x (dupsOf s i) = true ↔ isMax s i = true := by
  rw [sameSet_iff, isMax_iff]
  constructor
  · intro hs j hj hsub y hy
    have : j ∈ dupsOf s i := (hs j).1 ((hx j).2 ⟨hj, hsub⟩)
    exact ((mem_dupsOf s i j).1 this).2 y |>.1 hy
  · intro hm j
    rw [hx j, mem_dupsOf]
    constructor
    · rintro ⟨hj, hsub⟩
      exact ⟨hj, fun y => ⟨hm j hj hsub y, hsub y⟩⟩
    · rintro ⟨hj, hiff⟩
      exact ⟨hj, fun m hmm => (hiff m).2 hmm⟩

theorem isMax_congr (s : HG) {i j : PyId} (h : ∀ x, x ∈ s.mem j ↔ x ∈ s.mem i) : isMax s j = isMax s i := by
  rw [Bool.eq_iff_iff, isMax_iff, isMax_iff]
  constructor
  · intro hj k hk hsub y hy
    exact (h y).1 (hj k hk (fun x hx => hsub x ((h x).1 hx)) y hy)
  · intro hi k hk hsub y hy
    exact (h y).2 (hi k hk (fun x hx => hsub x ((h x).2 hx)) y hy)

theorem maximalLoop_spec {s : HG} (h : WF s)
    (l : List PyId) (hl : ∀ i ∈ l, i ∈ s.edges) (acc : List PyId)
    (hacc : ∀ j ∈ acc, j ∈ s.edges ∧ isMax s j = true ∧ ∀ k ∈ dupsOf s j, k ∈ acc) :
    (∀ j ∈ maximalLoop s l acc, j ∈ s.edges ∧ isMax s j = true ∧ ∀ k ∈ dupsOf s j, k ∈ maximalLoop s l acc) ∧
    (∀ j ∈ acc, j ∈ maximalLoop s l acc) ∧ (∀ i ∈ l, isMax s i = true → i ∈ maximalLoop s l acc) := by
  induction l generalizing acc with
  | nil => exact ⟨hacc, fun _ h => h, fun _ h => by cases h⟩
  | cons i rest ih =>
    have hi := hl i (by simp)
    unfold maximalLoop
    by_cases hin : i ∈ acc
    · simp only [hin, if_true]
      obtain ⟨g2, g3, g4⟩ := ih (fun k hk => hl k (by simp [hk])) acc hacc
      refine ⟨g2, g3, ?_⟩
      intro k hk hm
      rcases List.mem_cons.1 hk with hk | hk
      · subst hk; exact g3 k hin
      · exact g4 k hk hm
    · simp only [hin, if_false]
      have htest := maximal_test (interMemb s (s.mem i)) (interMemb_spec h hi)
      by_cases hmax : isMax s i = true
      · rw [if_pos (htest.2 hmax)]
        obtain ⟨g2, g3, g4⟩ := ih (fun k hk => hl k (by simp [hk]))
          ((dupsOf s i).foldl (fun a j => ins j a) acc) (by
            intro j hj
            rw [foldl_ins_mem] at hj
            rcases hj with hj | hj
            · obtain ⟨a1, a2, a3⟩ := hacc j hj
              exact ⟨a1, a2, fun k hk => by rw [foldl_ins_mem]; exact Or.inl (a3 k hk)⟩
            · obtain ⟨b1, b2⟩ := (mem_dupsOf s i j).1 hj
              refine ⟨b1, by rw [isMax_congr s b2]; exact hmax, ?_⟩
              intro k hk
              rw [foldl_ins_mem]; right
              obtain ⟨c1, c2⟩ := (mem_dupsOf s j k).1 hk
              exact (mem_dupsOf s i k).2 ⟨c1, fun y => (c2 y).trans (b2 y)⟩)
        refine ⟨g2, fun j hj => g3 j (by rw [foldl_ins_mem]; exact Or.inl hj), ?_⟩
        intro k hk hm
        rcases List.mem_cons.1 hk with hk | hk
        · subst hk
          exact g3 k (by rw [foldl_ins_mem]; right; exact (mem_dupsOf s k k).2 ⟨hi, fun _ => Iff.rfl⟩)
        · exact g4 k hk hm
      · have : ¬ sameSet (interMemb s (s.mem i)) (dupsOf s i) = true := fun hc => hmax (htest.1 hc)
        rw [if_neg this]
        obtain ⟨g2, g3, g4⟩ := ih (fun k hk => hl k (by simp [hk])) acc hacc
        refine ⟨g2, g3, ?_⟩
        intro k hk hm
        rcases List.mem_cons.1 hk with hk | hk
        · subst hk; exact absurd hm hmax
        · exact g4 k hk hm

/-- `H.edges.maximal()`: exactly the edges that no other edge strictly contains, in edge order — also on
    networks with empty edges (an empty edge is maximal only when every edge is empty) -/
theorem maximalIds_spec {s : HG} (h : WF s) : maximalIds s = s.edges.filter (isMax s) := by
  unfold maximalIds
  obtain ⟨g2, _, g4⟩ := maximalLoop_spec h s.edges (fun _ hi => hi) [] (by simp)
  apply List.filter_congr; intro e he
  rw [Bool.eq_iff_iff]; simp only [decide_eq_true_eq]
  exact ⟨fun hr => (g2 e hr).2.1, fun hm => g4 e he hm⟩

/-- `H.edges.maximal(strict=True)`: the edges that no *other* edge contains (so no repeated edge qualifies) -/
theorem maximalStrictIds_spec {s : HG} (h : WF s) :
    maximalStrictIds s = s.edges.filter (fun i => s.edges.all (fun j => decide (j = i) || !((s.mem i).all (· ∈ s.mem j)))) := by
  unfold maximalStrictIds
  apply List.filter_congr; intro i hi
  rw [Bool.eq_iff_iff, sameSet_iff]
  simp only [interMemb_spec h hi, List.mem_singleton, List.all_eq_true, Bool.or_eq_true, decide_eq_true_eq,
    Bool.not_eq_eq_eq_not, Bool.not_true, List.all_eq_false]
  constructor
  · intro hx j hj
    by_cases hji : j = i
    · exact Or.inl hji
    · right
      apply Classical.byContradiction; intro hc
      simp only [not_exists, not_and, Decidable.not_not] at hc
      exact hji ((hx j).1 ⟨hj, hc⟩)
  · intro hx j
    constructor
    · rintro ⟨hj, hsub⟩
      rcases hx j hj with h1 | ⟨m, hm, hnm⟩
      · exact h1
      · exact absurd (hsub m hm) hnm
    · intro hji; subst hji; exact ⟨hi, fun m hm => hm⟩

/-! ### format 1 of `add_edges_from` -/

/-- `add_edges_from` decides the format by the first edge: a string first among non-strings (in a list) is
    rejected ("Members cannot be specified as a string") -/
def sniffOK (first : List PyId) : Prop :=
  match first with
  | [] => True
  | m0 :: _ => ¬ (isStr m0 = true ∧ ¬ first.all isStr = true)

theorem addEdgesFrom_f1 (s : HG) (items : List EdgeItem)
    (h : ∀ it, items.head? = some it → sniffOK it.members) :
    addEdgesFrom s .f1 items [] = bulk (addEdgesItem .f1 []) s items := by
  unfold addEdgesFrom
  cases items with
  | nil => rfl
  | cons it rest =>
    have := h it rfl
    unfold sniffOK at this
    simp only []
    cases hm : it.members with
    | nil => rfl
    | cons m0 ms =>
      rw [hm] at this
      simp only [] at this ⊢
      rw [if_neg this]

/-- labels of one kind (all strings, or no string at all) are always accepted -/
theorem sniffOK_uniform (l : List PyId) (hne : l ≠ []) (h : (∀ x ∈ l, isStr x = true) ∨ (∀ x ∈ l, isStr x = false)) :
    sniffOK l := by
  cases l with
  | nil => trivial
  | cons m0 ms =>
    unfold sniffOK; simp only []
    rintro ⟨h1, h2⟩
    rcases h with h | h
    · apply h2; rw [List.all_eq_true]; exact h
    · rw [h m0 (by simp)] at h1; cases h1
end Xgi.C19
