/-
  C19 — derived networks.  Transcriptions of the functions that build a new network out of a
  given one, written with the public mutators of the `HG` model exactly as the Python builds the
  result through `add_nodes_from` / `add_edges_from` / `remove_*`:

    Hypergraph.copy, subhypergraph, Hypergraph.dual, Hypergraph.__lshift__, complement,
    cut_to_order, k_skeleton, from_max_simplices, largest_connected_hypergraph(in_place=False),
    convert_labels_to_integers(in_place=False), Hypergraph.cleanup(in_place=False).

  The in-place pieces (`HG.cleanup`, `HG.relabel`, `HG.mergeDuplicateEdges`, `HG.lccInPlace`,
  `HG.components`) live in Core/HG.lean and are reused unchanged.

  A function that returns a new network answers `(network, outcome)`; when the outcome is `err _`
  the Python call raised and there is no network to look at (the first component is then unspecified
  and never shown by the driver).  No Mathlib.
-/
import XgiModel.Core.HG

namespace Xgi.C19
open Xgi Xgi.HG

/-- the class of the argument: `Hypergraph` or `SimplicialComplex` (same dicts; a complex is
    downward closed, has no empty and no repeated simplex) -/
inductive Cls where | hg | sc
  deriving DecidableEq, Repr, Inhabited

/-- `Hypergraph()` whose `_net_attr` is then overwritten -/
def emptyWithNet (net : Attrs) : HG := { HG.empty with net := net }

/-- `(uid, attr)` pairs as produced by `H.nodes.items()` / `zip(keys, attr values)` -/
def nodePairs (s : HG) (ns : List PyId) : List (PyId × Option Attrs) :=
  ns.map (fun n => (n, some (s.nattr n)))

/-- bare node ids, as in `add_nodes_from(H.nodes)` -/
def nodeBare (ns : List PyId) : List (PyId × Option Attrs) := ns.map (fun n => (n, none))

/-- `(members, uid, attr)` triples (format 4 of `add_edges_from`) -/
def edgeTriples (s : HG) (es : List PyId) : List EdgeItem :=
  es.map (fun e => { members := s.mem e, idx := some e, attr := s.eattr e })

/-! ### Hypergraph.copy -/

/-- `cp = Hypergraph(); cp.add_nodes_from((n, deepcopy(attr)) …); cp.add_edges_from((e, idx, deepcopy(attr)) …);
    cp._net_attr = deepcopy(net); cp._edge_uid = copy(self._edge_uid)` -/
def copy (s : HG) : HG × Outcome :=
  let r1 := addNodesFrom HG.empty (nodePairs s s.nodes) []
  let r2 := andThen r1 (fun t => addEdgesFrom t .f4 (edgeTriples s s.edges) [])
  ({ r2.1 with net := s.net, uid := s.uid }, r2.2)

/-! ### subhypergraph (xgi/core/globalviews.py) -/

/-- `nodes`/`edges` arguments: `none` = not given (all), `some l` = `set(l) & set(H.nodes)`;
    only membership in the set is ever used -/
def selected (arg : Option (List PyId)) (all : List PyId) (x : PyId) : Bool :=
  match arg with
  | none => decide (x ∈ all)
  | some l => decide (x ∈ l) && decide (x ∈ all)

/-- the two additions: `new.add_nodes_from((uid, attr) … if uid in nodes)`,
    `new.add_edges_from((members(uid), uid, attr) … if uid in edges and members(uid) <= nodes)` -/
def subStage (s : HG) (nodesArg edgesArg : Option (List PyId)) : HG × Outcome :=
  let new := emptyWithNet s.net
  let inN := selected nodesArg s.nodes
  let inE := selected edgesArg s.edges
  let r1 := addNodesFrom new (nodePairs s (s.nodes.filter inN)) []
  andThen r1 (fun t => addEdgesFrom t .f4
    (edgeTriples s (s.edges.filter (fun e => inE e && (s.mem e).all inN))) [])

def subhypergraph (s : HG) (nodesArg edgesArg : Option (List PyId)) (keepIsolates : Bool) : HG × Outcome :=
  let r3 := andThen (subStage s nodesArg edgesArg) (fun t =>
    if keepIsolates then (t, .ok) else removeNodesFrom t (isolates t) false true)
  ({ r3.1 with frozen := true }, r3.2)

/-! ### Hypergraph.dual -/

/-- `dual.add_edges_from((memberships(n), n, attr) for n, attr in nodes.items());
     dual.add_nodes_from((e, attr) for e, attr in edges.items()); dual._net_attr = deepcopy(net)` -/
def dual (s : HG) : HG × Outcome :=
  let r1 := addEdgesFrom HG.empty .f4
    (s.nodes.map (fun n => { members := s.memb n, idx := some n, attr := s.nattr n })) []
  let r2 := andThen r1 (fun t => addNodesFrom t (s.edges.map (fun e => (e, some (s.eattr e)))) [])
  ({ r2.1 with net := s.net }, r2.2)

/-! ### Hypergraph.__lshift__ -/

/-- `zip(self._node.keys(), self._node_attr.values())`: positional -/
def zipNodeAttrs (s : HG) : List (PyId × Option Attrs) :=
  (List.zip s.nodes (s.nattrK.map s.nattr)).map (fun p => (p.1, some p.2))

/-- `zip(self._edge.values(), self._edge_attr.values())`: positional; format 3 items -/
def zipEdgeAttrs (s : HG) : List EdgeItem :=
  (List.zip (s.edges.map s.mem) (s.eattrK.map s.eattr)).map
    (fun p => { members := p.1, idx := none, attr := p.2 })

def lshift (s t : HG) : HG × Outcome :=
  let r1 := addNodesFrom HG.empty (zipNodeAttrs s) []
  let r2 := andThen r1 (fun u => addNodesFrom u (zipNodeAttrs t) [])
  let r3 := andThen r2 (fun u => addEdgesFrom u .f3 (zipEdgeAttrs s) [])
  let r4 := andThen r3 (fun u => addEdgesFrom u .f3 (zipEdgeAttrs t) [])
  ({ r4.1 with net := s.net.update t.net }, r4.2)

/-! ### complement (xgi/generators/classic.py) -/

/-- `itertools.combinations(l, k)`, in its order -/
def combos {α : Type} : Nat → List α → List (List α)
  | 0, _ => [[]]
  | _ + 1, [] => []
  | k + 1, x :: xs => (combos k xs).map (x :: ·) ++ combos (k + 1) xs

/-- `max_edge_order(H) + 1` for a network with at least one node: the largest edge size, 1 when
    there is no edge -/
def maxEdgeSize (s : HG) : Nat :=
  if s.edges = [] then 1 else (s.edges.map (fun e => (s.mem e).length)).foldl max 0

/-- `powerset(range(N), include_empty=False, include_singletons=True, max_size=k)` on the nodes -/
def powersetUpTo {α : Type} (l : List α) (k : Nat) : List (List α) :=
  (List.range' 1 (min k l.length)).flatMap (fun r => combos r l)

/-- `possible_edges.difference(edges)`.  The Python keys both sets by the string "i,j,k" of the
    sorted node positions, an injective encoding of the node *set*; the model compares the sets. -/
def complementEdges (s : HG) : List (List PyId) :=
  (powersetUpTo s.nodes (maxEdgeSize s)).filter
    (fun c => !(s.edges.any (fun e => sameSet (s.mem e) c)))

/-- the edges are added in the iteration order of a Python set of strings, which is not modelled:
    the result is compared up to the order of the edges (IDs are 0,1,2,… in any case) -/
def complement (s : HG) : HG × Outcome :=
  if s.nodes = [] then (HG.empty, .ok) else
  let r1 := addNodesFrom HG.empty (nodeBare s.nodes) []
  andThen r1 (fun t => bulk (fun u ms => addEdge u ms none []) t (complementEdges s))

/-! ### cut_to_order / k_skeleton -/

/-- `max_edge_order(H)`: `None` for the null network -/
def maxEdgeOrder (s : HG) : Option Int :=
  if s.edges = [] then (if s.nodes = [] then none else some 0)
  else some (((s.edges.map (fun e => (s.mem e).length)).foldl max 0 : Nat) - 1)

/-- `simplex < s` on frozensets -/
def properSubset (a b : List PyId) : Bool := a.all (· ∈ b) && !(b.all (· ∈ a))

/-- `SimplicialComplex.remove_simplex_id`: every strict superface, then the simplex itself -/
def removeSimplexId (s : HG) (idx : PyId) : HG × Outcome :=
  if idx ∉ s.edges then (s, .err .lib) else
  let sup := s.edges.filter (fun j => properSubset (s.mem idx) (s.mem j))
  (dropEdge (sup.foldl dropEdge s) idx, .ok)

/-- `SimplicialComplex.remove_simplex_ids_from`: ids already removed as a superface are skipped -/
def removeSimplexIdsFrom (s : HG) (bunch : List PyId) : HG × Outcome :=
  let all := s.edges
  bulk (fun t idx => if idx ∈ all ∧ idx ∉ t.edges then (t, .ok) else removeSimplexId t idx) s bunch

/-- `H.copy()` for the two classes.  `SimplicialComplex.copy` re-adds every simplex under its own
    ID with `add_simplices_from`; on a closed complex no face is missing, so the copy has the same
    tables — that is how it is modelled (an unfrozen equal network). -/
def copyOf (cls : Cls) (s : HG) : HG × Outcome :=
  match cls with
  | .hg => copy s
  | .sc => ({ s with frozen := false }, .ok)

/-- `_H.edges.filterby("order", order, "gt")` -/
def aboveOrder (s : HG) (order : Int) : List PyId :=
  s.edges.filter (fun e => (((s.mem e).length : Int) - 1) > order)

def cutToOrder (cls : Cls) (s : HG) (order : Int) : HG × Outcome :=
  andThen (copyOf cls s) (fun c =>
    match maxEdgeOrder s with
    | none => (c, .err .typeError)                      -- `order > None`
    | some mo =>
      if order > mo then (c, .err .lib) else
      if order ≠ mo then
        (match cls with
         | .sc => removeSimplexIdsFrom c (aboveOrder c order)
         | .hg => removeEdgesFrom c (aboveOrder c order))
      else (c, .ok))

def kSkeleton (cls : Cls) (s : HG) (order : Int) : HG × Outcome :=
  if cls ≠ .sc then (s, .err .lib) else cutToOrder cls s order

/-! ### from_max_simplices -/

/-- `containing(e)` of `EdgeView.maximal` (since /repo 8eb4626): the IDs of the edges that contain every node
    of `e` — `set(edges)` for an empty edge, else `reduce(lambda x, y: x & y, (nodes[n] for n in e))` -/
def interMemb (s : HG) : List PyId → List PyId
  | [] => s.edges
  | n :: ns => ns.foldl (fun acc m => acc.filter (· ∈ s.memb m)) (s.memb n)

/-- `dups[frozenset(e)]` -/
def dupsOf (s : HG) (i : PyId) : List PyId := s.edges.filter (fun j => sameSet (s.mem j) (s.mem i))

/-- the loop of `EdgeView.maximal(strict=False)`:
    `if i not in max_edges: if containing(e) == set(dups[frozenset(e)]): max_edges.update(dups[frozenset(e)])` -/
def maximalLoop (s : HG) : List PyId → List PyId → List PyId
  | [], acc => acc
  | i :: rest, acc =>
    if i ∈ acc then maximalLoop s rest acc else
    if sameSet (interMemb s (s.mem i)) (dupsOf s i)
    then maximalLoop s rest ((dupsOf s i).foldl (fun a j => ins j a) acc)
    else maximalLoop s rest acc

/-- `H.edges.maximal()`: a view, so in edge order -/
def maximalIds (s : HG) : List PyId := s.edges.filter (· ∈ maximalLoop s s.edges [])

/-- `H.edges.maximal(strict=True)`: `if containing(e) == {i}: max_edges.add(i)` -/
def maximalStrictIds (s : HG) : List PyId :=
  s.edges.filter (fun i => sameSet (interMemb s (s.mem i)) [i])

/-- `H = Hypergraph(); H.add_nodes_from(SC.nodes);
    H.add_edges_from({i: members(e) for i, e in enumerate(max_simplices)})` (dict format since /repo b705e12:
    no format sniffing).  On the fresh network (no edges, counter 0) giving the i-th simplex the explicit ID i
    and bumping the counter to i+1 is the same state transformer as taking the automatic ID, so the loop is
    written with the automatic-ID item step. -/
def fromMaxSimplices (cls : Cls) (s : HG) : HG × Outcome :=
  if cls ≠ .sc then (s, .err .lib) else
  let r1 := addNodesFrom HG.empty (nodeBare s.nodes) []
  andThen r1 (fun t => bulk (addEdgesItem .f1 [])  t
    ((maximalIds s).map (fun e => { members := s.mem e, idx := none, attr := [] })))

/-! ### largest_connected_hypergraph

  `max(connected_components(H), key=len, default=set())` (since /repo 4b127bb, the repair this check proposed):
  the null network, which has no component, is left as it is instead of raising `ValueError` out of `max()`.
  `lccInPlace'` is definitionally `HG.lccInPlace` (`lccInPlace'_eq`). -/

/-- `max(connected_components(H), key=len, default=set())` -/
def largestOrEmpty (s : HG) : List PyId := (largestComponent s).getD []

/-- `largest_connected_hypergraph(H, in_place=True)`: `H.remove_nodes_from(set(H.nodes) - component)` -/
def lccInPlace' (s : HG) : HG × Outcome :=
  let c := largestOrEmpty s
  let r := guardF s (removeNodesFrom s (s.nodes.filter (· ∉ c)) false true)
  (r.1, if r.2.isErr then r.2 else .ok)

/-- `largest_connected_hypergraph(H, in_place=False)`: `subhypergraph(H, nodes=component).copy()` -/
def lch (s : HG) : HG × Outcome :=
  andThen (subhypergraph s (some (largestOrEmpty s)) none true) (fun v => copy v)

/-! ### convert_labels_to_integers(in_place=False), cleanup -/

def relabelNew (s : HG) (labelAttr : String) : HG × Outcome :=
  andThen (copy s) (fun c => relabel c labelAttr)

/-- `Hypergraph.cleanup(in_place=True)`: the same pipeline as `HG.cleanup` -/
def cleanup' (s : HG) (isolatesOk singletonsOk multiedgesOk connected relabelF : Bool) : Option (HG × Outcome) :=
  let r0 : Option (HG × Outcome) :=
    if multiedgesOk then some (s, .ok) else mergeDuplicateEdges s .first .first none
  r0.map fun r0 =>
    let r1 := andThen r0 (fun s => if singletonsOk then (s, .ok) else guardF s (removeEdgesFrom s (singletons s)))
    let r2 := andThen r1 (fun s => if isolatesOk then (s, .ok) else guardF s (removeNodesFrom s (isolates s) false true))
    let r3 := andThen r2 (fun s => if connected then lccInPlace' s else (s, .ok))
    andThen r3 (fun s => if relabelF then relabel s "label" else (s, .ok))

/-- `Hypergraph.cleanup(in_place=False)`: on `self.copy()` -/
def cleanupNew (s : HG) (isolatesOk singletonsOk multiedgesOk connected relabelF : Bool) :
    Option (HG × Outcome) :=
  let r := copy s
  if r.2.isErr then some r else
  (cleanup' r.1 isolatesOk singletonsOk multiedgesOk connected relabelF).map
    (fun r' => (r'.1, r.2.join r'.2))

end Xgi.C19
