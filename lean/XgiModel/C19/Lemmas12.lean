/-
  C19 helper lemmas, part 12: every run of `cleanup` — the outcome (ok, or the `TypeError` of `sorted` with
  nothing changed), and the shape of the result before the relabelling: a network obtained from the input only
  by deleting nodes and edges and (with `multiedges=False`) merging classes of repeated edges.
-/
import XgiModel.C19.Lemmas11

namespace Xgi.C19
open Xgi Xgi.HG

/-- `t` arises from `s` only by deleting nodes and edges and, if `merge`, by merging classes of repeated edges
    as `merge_duplicate_edges()` does: every node of `t` is a node of `s` (same order, same attributes); every
    edge of `t` is an edge of `s` under its own ID, with exactly its member set and its attributes; without the
    merge the edges keep their order and their member lists; with it, a surviving edge is the first of the sorted
    IDs of its class of edges with equal member sets -/
structure DeletedMerged (s t : HG) (merge : Bool) : Prop where
  nodes : t.nodes.Sublist s.nodes
  nattr : ∀ n ∈ t.nodes, t.nattr n = s.nattr n
  net : t.net = s.net
  edges : ∀ e ∈ t.edges, e ∈ s.edges
  mem : ∀ e ∈ t.edges, ∀ x, x ∈ t.mem e ↔ x ∈ s.mem e
  eattr : AttrWF s → ∀ e ∈ t.edges, t.eattr e = s.eattr e
  plain : merge = false → t.edges.Sublist s.edges ∧ ∀ e ∈ t.edges, t.mem e = s.mem e
  rep : merge = true → ∀ e ∈ t.edges, firstSorted (dupsOf s e) = some e

theorem DeletedMerged.of_subNet {s t : HG} (h : SubNet s t) : DeletedMerged s t false :=
  ⟨h.nodes, h.nattr, h.net, fun e he => h.edges.subset he, fun e he x => by rw [h.mem e he], fun _ => h.eattr,
    fun _ => ⟨h.edges, h.mem⟩, fun hc => by cases hc⟩

theorem DeletedMerged.of_merged {s m t : HG} (hm : Merged s m) (h : SubNet m t) :
    DeletedMerged s t true := by
  have hsub : ∀ e ∈ t.edges, e ∈ m.edges := fun e he => h.edges.subset he
  constructor
  · rw [← hm.nodes]; exact h.nodes
  · intro n hn
    rw [h.nattr n hn, hm.nattr n (by rw [← hm.nodes]; exact h.nodes.subset hn)]
  · rw [h.net, hm.net]
  · intro e he; exact ((hm.edges e).1 (hsub e he)).1
  · intro e he x; rw [h.mem e he]; exact hm.mem e (hsub e he) x
  · intro ha e he; rw [h.eattr e he]; exact hm.eattr ha e (hsub e he)
  · intro hc; cases hc
  · intro _ e he; exact ((hm.edges e).1 (hsub e he)).2

/-- the four steps after the merge never raise and only delete -/
theorem steps_spec {p : HG} (hl : Live p) (a b d : Bool) :
    (stepS b p).2 = .ok ∧ (stepI a (stepS b p).1).2 = .ok ∧ (stepC d (stepI a (stepS b p).1).1).2 = .ok ∧
    Live (stepC d (stepI a (stepS b p).1).1).1 ∧ SubNet p (stepC d (stepI a (stepS b p).1).1).1 := by
  obtain ⟨s1, s2, _, s4, _⟩ := stepS_spec b hl
  obtain ⟨i1, i2, _, i4, _⟩ := stepI_spec a s2
  obtain ⟨c1, c2, _, c4, _⟩ := stepC_spec d i2
  exact ⟨s1, i1, c1, c2, (s4.trans i4).trans c4⟩

theorem chain_ok {p : HG} (hl : Live p) (a b d e : Bool) :
    andThen (andThen (andThen (andThen (p, Outcome.ok) (stepS b)) (stepI a)) (stepC d)) (stepR e) =
      ((stepR e (stepC d (stepI a (stepS b p).1).1).1).1, .ok) := by
  obtain ⟨s1, i1, c1, c2, _⟩ := steps_spec hl a b d
  obtain ⟨r1, _⟩ := stepR_spec e c2
  rw [andThen_noerr (p, .ok) (stepS b) rfl s1]
  rw [andThen_noerr ((stepS b p).1, .ok) (stepI a) rfl i1]
  rw [andThen_noerr ((stepI a (stepS b p).1).1, .ok) (stepC d) rfl c1]
  rw [andThen_noerr ((stepC d (stepI a (stepS b p).1).1).1, .ok) (stepR e) rfl r1]

/-! ### exactly what each step removes, as a function of its flag -/

theorem filter_true {α : Type} (l : List α) (p : α → Bool) (h : ∀ x ∈ l, p x = true) : l.filter p = l :=
  List.filter_eq_self.2 h

theorem stepS_exact (b : Bool) {t : HG} (h : Live t) :
    (stepS b t).1.nodes = t.nodes ∧
    (stepS b t).1.edges = t.edges.filter (fun x => b || decide ((t.mem x).length ≠ 1)) := by
  cases b with
  | true => exact ⟨rfl, (filter_true _ _ (fun _ _ => rfl)).symm⟩
  | false =>
    obtain ⟨_, _, _, _, s5⟩ := stepS_spec false h
    have hs' : stepS false t = guardF t (removeEdgesFrom t (singletons t)) := rfl
    refine ⟨by rw [hs']; exact (stageS_spec h).2.2.2.1.nodes, ?_⟩
    rw [s5 rfl]; apply List.filter_congr; intro x _; simp

theorem stepI_exact (a : Bool) {t : HG} (h : Live t) :
    (stepI a t).1.edges = t.edges ∧
    (stepI a t).1.nodes = t.nodes.filter (fun n => a || t.edges.any (fun x => decide (n ∈ t.mem x))) := by
  obtain ⟨_, _, _, _, i5, i6⟩ := stepI_spec a h
  refine ⟨i5, ?_⟩
  cases a with
  | true => exact (filter_true _ _ (fun _ _ => rfl)).symm
  | false =>
    rw [i6 rfl]; apply List.filter_congr; intro n hn
    rw [Bool.eq_iff_iff]
    simp only [decide_eq_true_eq, Bool.false_or, List.any_eq_true]
    have hw := h.1.1
    constructor
    · intro hne
      cases hm : t.memb n with
      | nil => exact absurd hm hne
      | cons x _ =>
        have hx : x ∈ t.memb n := by rw [hm]; simp
        exact ⟨x, (hw.n2e n hn x hx).1, (hw.n2e n hn x hx).2⟩
    · rintro ⟨x, hx, hnx⟩ hnil
      have := (hw.e2n x hx n hnx).2
      rw [hnil] at this; cases this

theorem stepC_exact (d : Bool) {t : HG} (h : Live t) :
    (stepC d t).1.nodes = t.nodes.filter (fun n => !d || decide (n ∈ largestOrEmpty t)) ∧
    (stepC d t).1.edges = t.edges.filter (fun x => !d || (t.mem x).all (· ∈ largestOrEmpty t)) := by
  cases d with
  | false => exact ⟨(filter_true _ _ (fun _ _ => rfl)).symm, (filter_true _ _ (fun _ _ => rfl)).symm⟩
  | true =>
    obtain ⟨_, _, _, _, c5⟩ := stepC_spec true h
    obtain ⟨c5n, c5e⟩ := c5 rfl
    exact ⟨by rw [c5n]; apply List.filter_congr; intro n _; simp,
      by rw [c5e]; apply List.filter_congr; intro x _; simp⟩

/-- which node set the connected step keeps: nothing on the null network, else the first reachability class of
    maximal size in `connected_components` -/
theorem largestOrEmpty_spec {t : HG} (h : WF t) :
    (t.nodes = [] ∧ largestOrEmpty t = []) ∨
    ((∃ v ∈ t.nodes, ∀ x, x ∈ largestOrEmpty t ↔ Reach t v x) ∧
      ∃ pre post, components t = pre ++ largestOrEmpty t :: post ∧
        (∀ p ∈ pre, p.length < (largestOrEmpty t).length) ∧ ∀ p ∈ post, p.length ≤ (largestOrEmpty t).length) := by
  unfold largestOrEmpty
  cases hc : largestComponent t with
  | none => exact Or.inl ⟨largestComponent_none hc, rfl⟩
  | some c =>
    right
    obtain ⟨pre, post, hcomp, h1, h2⟩ := largestComponent_spec hc
    obtain ⟨v, hv, hcv⟩ := components_mem c (by rw [hcomp]; simp)
    exact ⟨⟨v, hv, fun x => by simp only [Option.getD_some]; rw [hcv]; exact plainBfs_spec h hv x⟩,
      pre, post, hcomp, h1, h2⟩

/-- every run of `cleanup` on an unfrozen well-formed network: it is inside the model, and it either returns
    without warning — then the result is the relabelling (if asked for) of a network `t` obtained by deleting and
    merging only — or (only with `multiedges=False`) raises the `TypeError` of `sorted` on a class of repeated
    edges with IDs of different kinds, before anything was changed -/
theorem cleanup_total {s : HG} (hs : Live s) (a b c d e : Bool) :
    ∃ r, cleanup' s a b c d e = some r ∧
      ((r.2 = .ok ∧ ∃ t, DeletedMerged s t (!c) ∧ Live t ∧ r.1 = (stepR e t).1 ∧
          (c = false → NoMulti t)) ∨
       (c = false ∧ r = (s, .err .typeError) ∧
          ∃ x ∈ s.edges, 1 < (dupsOf s x).length ∧ sortedIds (dupsOf s x) = none)) := by
  rw [cleanup'_eq]
  cases c with
  | true =>
    simp only [if_true, Option.map_some]
    refine ⟨_, rfl, Or.inl ?_⟩
    rw [chain_ok hs a b d e]
    obtain ⟨_, _, _, c2, sn⟩ := steps_spec hs a b d
    exact ⟨rfl, _, DeletedMerged.of_subNet sn, c2, rfl, fun hc => by cases hc⟩
  | false =>
    simp only [Bool.false_eq_true, if_false]
    rcases merge_total hs with ⟨m, hm, hM⟩ | ⟨hm, hx⟩
    · rw [hm]
      simp only [Option.map_some]
      have hl : Live m := merge_live hs (m, .ok) hm
      refine ⟨_, rfl, Or.inl ?_⟩
      rw [chain_ok hl a b d e]
      obtain ⟨_, _, _, c2, sn⟩ := steps_spec hl a b d
      exact ⟨rfl, _, DeletedMerged.of_merged hM sn, c2, rfl, fun _ => sn.noMulti hM.noMulti⟩
    · rw [hm]
      simp only [Option.map_some]
      refine ⟨_, rfl, Or.inr ⟨trivial, ?_, hx⟩⟩
      rw [andThen_err (s, .err .typeError) _ rfl, andThen_err (s, .err .typeError) _ rfl,
        andThen_err (s, .err .typeError) _ rfl, andThen_err (s, .err .typeError) _ rfl]

end Xgi.C19
