/-
  C19 helper lemmas, part 4: positions in a list, `set_*_attributes` with a dict of dicts,
  `convert_labels_to_integers`.
-/
import XgiModel.C19.Lemmas3

namespace Xgi.C19
open Xgi Xgi.HG

/-! ### positions -/

theorem indexOf_cons_self (a : PyId) (t : List PyId) : indexOf (a :: t) a = 0 := by
  simp [indexOf, List.findIdx_cons]

theorem indexOf_cons_ne (a x : PyId) (t : List PyId) (h : x ≠ a) : indexOf (a :: t) x = indexOf t x + 1 := by
  have : ¬ a = x := fun hh => h hh.symm
  simp [indexOf, List.findIdx_cons, this]

theorem map_indexOf (l : List PyId) (h : l.Nodup) : l.map (indexOf l) = List.range l.length := by
  induction l with
  | nil => rfl
  | cons a t ih =>
    have hnd := List.nodup_cons.1 h
    rw [List.map_cons, indexOf_cons_self, List.length_cons, List.range_succ_eq_map]
    congr 1
    rw [← ih hnd.2, List.map_map]
    apply List.map_congr_left
    intro x hx
    have : x ≠ a := by intro hh; subst hh; exact hnd.1 hx
    simp [indexOf_cons_ne a x t this]

theorem indexOf_inj (l : List PyId) (h : l.Nodup) {x y : PyId} (hx : x ∈ l) (hy : y ∈ l)
    (he : indexOf l x = indexOf l y) : x = y := by
  induction l with
  | nil => cases hx
  | cons a t ih =>
    have hnd := List.nodup_cons.1 h
    by_cases hxa : x = a
    · by_cases hya : y = a
      · rw [hxa, hya]
      · subst hxa; rw [indexOf_cons_self, indexOf_cons_ne _ _ _ hya] at he; omega
    · by_cases hya : y = a
      · subst hya; rw [indexOf_cons_self, indexOf_cons_ne _ _ _ hxa] at he; omega
      · rw [indexOf_cons_ne _ _ _ hxa, indexOf_cons_ne _ _ _ hya] at he
        have hx' : x ∈ t := by rcases List.mem_cons.1 hx with h | h; exact absurd h hxa; exact h
        have hy' : y ∈ t := by rcases List.mem_cons.1 hy with h | h; exact absurd h hya; exact h
        exact ih hnd.2 hx' hy' (by omega)

/-- the new integer label of the `k`-th ID -/
def pos (l : List PyId) (x : PyId) : PyId := PyId.int (indexOf l x)

theorem map_pos (l : List PyId) (h : l.Nodup) : l.map (pos l) = (List.range l.length).map (fun j => PyId.int (j : Nat)) := by
  rw [← map_indexOf l h, List.map_map]; rfl

theorem pos_inj (l : List PyId) (h : l.Nodup) {x y : PyId} (hx : x ∈ l) (hy : y ∈ l) (he : pos l x = pos l y) : x = y :=
  indexOf_inj l h hx hy (int_inj he)

theorem pos_ne_none (l : List PyId) (x : PyId) : pos l x ≠ PyId.none := by intro h; cases h

theorem nodup_map_pos (l : List PyId) (h : l.Nodup) (m : List PyId) (hm : m.Nodup) (hsub : ∀ x ∈ m, x ∈ l) :
    (m.map (pos l)).Nodup := by
  induction m with
  | nil => simp
  | cons a t ih =>
    have hnd := List.nodup_cons.1 hm
    rw [List.map_cons, List.nodup_cons]
    refine ⟨?_, ih hnd.2 (fun x hx => hsub x (by simp [hx]))⟩
    intro hin
    obtain ⟨y, hy, heq⟩ := List.mem_map.1 hin
    have := pos_inj l h (hsub y (by simp [hy])) (hsub a (by simp)) heq
    subst this; exact hnd.1 hy

/-! ### `set_node_attributes({id: {…}})`, `set_edge_attributes({id: {…}})` -/

theorem setNodeAttrs_dict_spec (vals : List (PyId × Attrs)) (s : HG) (hk : ∀ p ∈ vals, p.1 ∈ s.nattrK)
    (hd : (vals.map (·.1)).Nodup) :
    SameTables { (setNodeAttrs s (.dictOfDict vals)).1 with nattr := s.nattr } s ∧
    (setNodeAttrs s (.dictOfDict vals)).1.edges = s.edges ∧
    (setNodeAttrs s (.dictOfDict vals)).1.nattrK = s.nattrK ∧
    (∀ p ∈ vals, (setNodeAttrs s (.dictOfDict vals)).1.nattr p.1 = (s.nattr p.1).update p.2) ∧
    (∀ n, n ∉ vals.map (·.1) → (setNodeAttrs s (.dictOfDict vals)).1.nattr n = s.nattr n) := by
  unfold setNodeAttrs
  simp only []
  induction vals generalizing s with
  | nil => exact ⟨⟨rfl, rfl, rfl, rfl, rfl, rfl, rfl⟩, rfl, rfl, (fun _ hp => by cases hp), fun _ _ => rfl⟩
  | cons p rest ih =>
    have hp := hk p (by simp)
    have hstep : (fun s (p : PyId × Attrs) => if p.1 ∈ s.nattrK then (updNodeAttr s p.1 p.2, Outcome.ok) else (s, Outcome.warned)) s p =
        (updNodeAttr s p.1 p.2, .ok) := by simp [hp]
    rw [bulk_cons_ok _ s _ p rest hstep]
    simp only [List.map_cons, List.nodup_cons] at hd
    obtain ⟨g1, g2, g3, g4, g5⟩ := ih (updNodeAttr s p.1 p.2) (fun q hq => hk q (by simp [hq])) hd.2
    refine ⟨⟨g1.nodes, g1.mem, g1.eattr, rfl, g1.net, g1.frozen, g1.uid⟩, g2, g3, ?_, ?_⟩
    · intro q hq
      rcases List.mem_cons.1 hq with hq | hq
      · subst hq
        rw [g5 q.1 hd.1]; simp [updNodeAttr]
      · rw [g4 q hq]
        have : q.1 ≠ p.1 := by
          intro heq; apply hd.1; rw [← heq]; exact List.mem_map_of_mem (f := fun (x : PyId × Attrs) => x.1) hq
        simp [updNodeAttr, this]
    · intro n hn
      simp only [List.map_cons, List.mem_cons, not_or] at hn
      rw [g5 n hn.2]; simp [updNodeAttr, hn.1]

theorem setEdgeAttrs_dict_spec (vals : List (PyId × Attrs)) (s : HG) (hk : ∀ p ∈ vals, p.1 ∈ s.eattrK)
    (hd : (vals.map (·.1)).Nodup) :
    SameTables { (setEdgeAttrs s (.dictOfDict vals)).1 with eattr := s.eattr } s ∧
    (setEdgeAttrs s (.dictOfDict vals)).1.edges = s.edges ∧
    (setEdgeAttrs s (.dictOfDict vals)).1.eattrK = s.eattrK ∧
    (∀ p ∈ vals, (setEdgeAttrs s (.dictOfDict vals)).1.eattr p.1 = (s.eattr p.1).update p.2) ∧
    (∀ n, n ∉ vals.map (·.1) → (setEdgeAttrs s (.dictOfDict vals)).1.eattr n = s.eattr n) := by
  unfold setEdgeAttrs
  simp only []
  induction vals generalizing s with
  | nil => exact ⟨⟨rfl, rfl, rfl, rfl, rfl, rfl, rfl⟩, rfl, rfl, (fun _ hp => by cases hp), fun _ _ => rfl⟩
  | cons p rest ih =>
    have hp := hk p (by simp)
    have hstep : (fun s (p : PyId × Attrs) => if p.1 ∈ s.eattrK then (updEdgeAttr s p.1 p.2, Outcome.ok) else (s, Outcome.warned)) s p =
        (updEdgeAttr s p.1 p.2, .ok) := by simp [hp]
    rw [bulk_cons_ok _ s _ p rest hstep]
    simp only [List.map_cons, List.nodup_cons] at hd
    obtain ⟨g1, g2, g3, g4, g5⟩ := ih (updEdgeAttr s p.1 p.2) (fun q hq => hk q (by simp [hq])) hd.2
    refine ⟨⟨g1.nodes, g1.mem, rfl, g1.nattr, g1.net, g1.frozen, g1.uid⟩, g2, g3, ?_, ?_⟩
    · intro q hq
      rcases List.mem_cons.1 hq with hq | hq
      · subst hq
        rw [g5 q.1 hd.1]; simp [updEdgeAttr]
      · rw [g4 q hq]
        have : q.1 ≠ p.1 := by
          intro heq; apply hd.1; rw [← heq]; exact List.mem_map_of_mem (f := fun (x : PyId × Attrs) => x.1) hq
        simp [updEdgeAttr, this]
    · intro n hn
      simp only [List.map_cons, List.mem_cons, not_or] at hn
      rw [g5 n hn.2]; simp [updEdgeAttr, hn.1]


/-! ### convert_labels_to_integers(in_place=True) -/

/-- what `convert_labels_to_integers` leaves behind: every ID replaced by its position, incidence and
    attributes carried along, the old ID stored under `labelAttr` -/
structure Relabelled (s r : HG) (labelAttr : String) : Prop where
  nodes : r.nodes = s.nodes.map (pos s.nodes)
  edges : r.edges = s.edges.map (pos s.edges)
  mem : ∀ e ∈ s.edges, r.mem (pos s.edges e) = (s.mem e).map (pos s.nodes)
  nattr : AttrWF s → ∀ n ∈ s.nodes, r.nattr (pos s.nodes n) = (s.nattr n).set labelAttr (relabel.idVal n)
  eattr : AttrWF s → ∀ e ∈ s.edges, r.eattr (pos s.edges e) = (s.eattr e).set labelAttr (relabel.idVal e)
  net : r.net = s.net
  frozen : r.frozen = false
  inv : Inv r

/-- the four calls of `convert_labels_to_integers` after `net.clear()`, spelled with `pos` -/
def relabelCore (s : HG) (labelAttr : String) : HG :=
  let s1 := (clear s false).1
  let r1 := addNodesFrom s1 (s.nodes.map (fun x => (pos s.nodes x, some (s.nattr x)))) []
  let r2 := setNodeAttrs r1.1 (.dictOfDict (s.nodes.map (fun n => (pos s.nodes n, [(labelAttr, relabel.idVal n)]))))
  let r3 := addEdgesFrom r2.1 .f4 (mkItems s.edges (pos s.edges) (fun e => (s.mem e).map (pos s.nodes)) s.eattr) []
  (setEdgeAttrs r3.1 (.dictOfDict (s.edges.map (fun e => (pos s.edges e, [(labelAttr, relabel.idVal e)]))))).1

theorem relabel_eq {s : HG} (hf : s.frozen = false) (labelAttr : String) :
    relabel s labelAttr = (relabelCore s labelAttr, .ok) := by
  unfold relabel
  simp only [hf, Bool.false_eq_true, if_false]
  rfl

theorem relabelCore_fields {s : HG} (hi : Inv s) (hf : s.frozen = false) (labelAttr : String) :
    Relabelled s (relabelCore s labelAttr) labelAttr := by
  have h := hi.1
  have hinv : Inv (relabelCore s labelAttr) := by
    have := relabel_inv hi labelAttr; rw [relabel_eq hf] at this; exact this
  unfold relabelCore at hinv ⊢
  simp only [] at hinv ⊢
  -- the cleared network
  have hs1 : Inv (clear s false).1 := clear_inv hi false
  generalize hs1d : (clear s false).1 = s1 at *
  have s1n : s1.nodes = [] := by rw [← hs1d]; rfl
  have s1e : s1.edges = [] := by rw [← hs1d]; rfl
  have s1net : s1.net = s.net := by rw [← hs1d]; rfl
  have s1f : s1.frozen = s.frozen := by rw [← hs1d]; rfl
  have s1u : s1.uid = s.uid := by rw [← hs1d]; rfl
  -- nodes
  have hnp : (s.nodes.map (pos s.nodes)).Nodup := nodup_map_pos _ h.nodupN _ h.nodupN (fun _ hx => hx)
  have hep : (s.edges.map (pos s.edges)).Nodup := nodup_map_pos _ h.nodupE _ h.nodupE (fun _ hx => hx)
  obtain ⟨a1, a2⟩ := addPairs_spec s.nodes (pos s.nodes) s.nattr s1 hnp (fun x _ => pos_ne_none _ x)
  have i1 : Inv (addNodesFrom s1 (s.nodes.map (fun x => (pos s.nodes x, some (s.nattr x)))) []).1 := addNodesFrom_inv hs1 _ _
  generalize addNodesFrom s1 (s.nodes.map (fun x => (pos s.nodes x, some (s.nattr x)))) [] = r1 at *
  have n1 : r1.1.nodes = s.nodes.map (pos s.nodes) := by
    rw [a2.nodes, s1n]; exact foldl_ins_nil_of_nodup hnp
  -- node labels
  obtain ⟨b1, b2, b3, b4, b5⟩ := setNodeAttrs_dict_spec
    (s.nodes.map (fun n => (pos s.nodes n, [(labelAttr, relabel.idVal n)]))) r1.1 (by
      intro p hp
      obtain ⟨n, hn, rfl⟩ := List.mem_map.1 hp
      simp only []
      rw [i1.1.attrN, n1]; exact List.mem_map_of_mem hn)
    (by simpa [List.map_map, Function.comp_def] using hnp)
  have i2 : Inv (setNodeAttrs r1.1 (.dictOfDict (s.nodes.map (fun n => (pos s.nodes n, [(labelAttr, relabel.idVal n)]))))).1 :=
    setNodeAttrs_inv i1 _
  generalize setNodeAttrs r1.1 (.dictOfDict (s.nodes.map (fun n => (pos s.nodes n, [(labelAttr, relabel.idVal n)])))) = r2 at *
  have n2 : r2.1.nodes = s.nodes.map (pos s.nodes) := by rw [← n1]; exact b1.nodes
  have e2 : r2.1.edges = [] := by rw [b2, a2.edges, s1e]
  -- edges
  obtain ⟨c1, c2⟩ := addItems_spec s.edges (pos s.edges) (fun e => (s.mem e).map (pos s.nodes)) s.eattr r2.1 hep (by
    intro e he
    refine ⟨pos_ne_none _ e, by rw [e2]; simp, ?_⟩
    intro hn
    obtain ⟨x, _, hx⟩ := List.mem_map.1 hn
    exact pos_ne_none _ x hx)
  have i3 : Inv (addEdgesFrom r2.1 .f4 (mkItems s.edges (pos s.edges) (fun e => (s.mem e).map (pos s.nodes)) s.eattr) []).1 :=
    addEdgesFrom_inv i2 _ _ _
  generalize addEdgesFrom r2.1 .f4 (mkItems s.edges (pos s.edges) (fun e => (s.mem e).map (pos s.nodes)) s.eattr) [] = r3 at *
  have n3 : r3.1.nodes = s.nodes.map (pos s.nodes) := by
    rw [c2.nodes_same ?_, n2]
    intro e he x hx
    obtain ⟨y, hy, rfl⟩ := List.mem_map.1 hx
    rw [n2]; exact List.mem_map_of_mem (h.e2n e he y hy).1
  have e3 : r3.1.edges = s.edges.map (pos s.edges) := by rw [c2.edges, e2]; rfl
  -- edge labels
  obtain ⟨d1, d2, d3, d4, d5⟩ := setEdgeAttrs_dict_spec
    (s.edges.map (fun e => (pos s.edges e, [(labelAttr, relabel.idVal e)]))) r3.1 (by
      intro p hp
      obtain ⟨e, he, rfl⟩ := List.mem_map.1 hp
      simp only []
      rw [i3.1.attrE, e3]; exact List.mem_map_of_mem he)
    (by simpa [List.map_map, Function.comp_def] using hep)
  generalize setEdgeAttrs r3.1 (.dictOfDict (s.edges.map (fun e => (pos s.edges e, [(labelAttr, relabel.idVal e)])))) = r4 at *
  constructor
  · show r4.1.nodes = _; rw [← n3]; exact d1.nodes
  · show r4.1.edges = _; rw [d2, e3]
  · intro e he
    show r4.1.mem (pos s.edges e) = _
    have := d1.mem; simp only [] at this
    rw [this, c2.mem_new e he]
    exact dedup_of_nodup (nodup_map_pos _ h.nodupN _ (h.setE e he) (fun x hx => (h.e2n e he x hx).1))
  · intro ha n hn
    show r4.1.nattr (pos s.nodes n) = _
    have := d1.nattr; simp only [] at this
    rw [this, c2.nattr_old _ (by rw [n2]; exact List.mem_map_of_mem hn)]
    have hb := b4 (pos s.nodes n, [(labelAttr, relabel.idVal n)]) (List.mem_map.2 ⟨n, hn, rfl⟩)
    simp only [] at hb
    rw [hb]
    have ha2 := a2.nattr_new n hn
    rw [s1n] at ha2; simp only [List.not_mem_nil, if_false] at ha2
    rw [ha2, update_nil (ha.nattr n hn), update_nil (ha.nattr n hn)]; rfl
  · intro ha e he
    show r4.1.eattr (pos s.edges e) = _
    have hd := d4 (pos s.edges e, [(labelAttr, relabel.idVal e)]) (List.mem_map.2 ⟨e, he, rfl⟩)
    simp only [] at hd
    rw [hd, c2.eattr_new e he, update_nil (ha.eattr e he), update_nil (ha.eattr e he)]; rfl
  · show r4.1.net = s.net
    rw [d1.net, c2.net, b1.net, a2.net, s1net]
  · show r4.1.frozen = false
    rw [d1.frozen, c2.frozen, b1.frozen, a2.frozen, s1f, hf]
  · exact hinv

theorem relabel_fields {s : HG} (hi : Inv s) (hf : s.frozen = false) (labelAttr : String) :
    (relabel s labelAttr).2 = .ok ∧ Relabelled s (relabel s labelAttr).1 labelAttr := by
  rw [relabel_eq hf]; exact ⟨rfl, relabelCore_fields hi hf labelAttr⟩

/-! ### reading an attribute back -/

theorem get?_set_self (a : Attrs) (k : String) (v : Val) : (Attrs.set a k v).get? k = some v := by
  unfold Attrs.set Attrs.get?
  by_cases hany : a.any (fun p => p.1 = k) = true
  · simp only [hany, if_true]
    induction a with
    | nil => simp at hany
    | cons p t ih =>
      by_cases hp : p.1 = k
      · simp [hp]
      · have : t.any (fun p => p.1 = k) = true := by simpa [hp] using hany
        simp only [List.map_cons, hp, if_false, List.find?_cons, decide_false]
        exact ih this
  · have hnone : ∀ p ∈ a, ¬ p.1 = k := by
      intro p hp hk; apply hany; simp only [List.any_eq_true, decide_eq_true_eq]; exact ⟨p, hp, hk⟩
    have hany' : a.any (fun p => p.1 = k) = false := by
      cases hb : a.any (fun p => p.1 = k) with
      | false => rfl
      | true => exact absurd hb hany
    simp only [hany', Bool.false_eq_true, if_false]
    rw [List.find?_append]
    have : a.find? (fun p => decide (p.1 = k)) = none := by
      rw [List.find?_eq_none]; intro p hp; simpa using hnone p hp
    simp [this]

theorem get?_set_other (a : Attrs) (k k' : String) (v : Val) (h : k' ≠ k) :
    (Attrs.set a k v).get? k' = a.get? k' := by
  unfold Attrs.set Attrs.get?
  by_cases hany : a.any (fun p => p.1 = k) = true
  · simp only [hany, if_true]
    congr 1
    induction a with
    | nil => rfl
    | cons p t ih =>
      simp only [List.map_cons, List.find?_cons]
      by_cases hp : p.1 = k
      · have : ¬ p.1 = k' := by rw [hp]; exact fun hh => h hh.symm
        simp only [hp, if_true]
        have hk : ¬ k = k' := fun hh => h hh.symm
        simp only [hk, decide_false]
        by_cases hany' : t.any (fun p => p.1 = k) = true
        · exact ih hany'
        · have hnone : ∀ q ∈ t, ¬ q.1 = k := by
            intro q hq hqk; apply hany'; simp only [List.any_eq_true, decide_eq_true_eq]; exact ⟨q, hq, hqk⟩
          have : t.map (fun p => if p.1 = k then (k, v) else p) = t := by
            conv => rhs; rw [← List.map_id t]
            apply List.map_congr_left; intro q hq; simp [hnone q hq]
          rw [this]
      · simp only [hp, if_false]
        by_cases hpk : p.1 = k'
        · simp [hpk]
        · simp only [hpk, decide_false]
          have : t.any (fun p => p.1 = k) = true := by simpa [hp] using hany
          exact ih this
  · have hany' : a.any (fun p => p.1 = k) = false := by
      cases hb : a.any (fun p => p.1 = k) with
      | false => rfl
      | true => exact absurd hb hany
    simp only [hany', Bool.false_eq_true, if_false]
    rw [List.find?_append]
    have hk : ¬ k = k' := fun hh => h hh.symm
    have : ([(k, v)] : Attrs).find? (fun p => decide (p.1 = k')) = none := by
      simp [hk]
    rw [this]; simp
end Xgi.C19
