/-
  C19 helper lemmas, part 3: `itertools.combinations` and the complement.
-/
import XgiModel.C19.Lemmas2

namespace Xgi.C19
open Xgi Xgi.HG

/-! ### combinations -/

theorem mem_combos {α : Type} (k : Nat) (l c : List α) : c ∈ combos k l ↔ c.Sublist l ∧ c.length = k := by
  induction l generalizing k c with
  | nil =>
    cases k with
    | zero => simp only [combos, List.mem_singleton, List.sublist_nil]; exact ⟨fun h => ⟨h, by simp [h]⟩, fun h => h.1⟩
    | succ k =>
      simp only [combos, List.not_mem_nil, List.sublist_nil, false_iff]
      rintro ⟨h, h2⟩; simp [h] at h2
  | cons x xs ih =>
    cases k with
    | zero =>
      simp only [combos, List.mem_singleton]
      constructor
      · intro h; subst h; exact ⟨List.nil_sublist _, rfl⟩
      · intro h; exact List.length_eq_zero_iff.1 h.2
    | succ k =>
      simp only [combos, List.mem_append, List.mem_map, ih, List.sublist_cons_iff]
      constructor
      · rintro (⟨c', ⟨h1, h2⟩, rfl⟩ | ⟨h1, h2⟩)
        · exact ⟨Or.inr ⟨c', rfl, h1⟩, by simp [h2]⟩
        · exact ⟨Or.inl h1, h2⟩
      · rintro ⟨h1 | ⟨r, rfl, h1⟩, h2⟩
        · exact Or.inr ⟨h1, h2⟩
        · exact Or.inl ⟨r, ⟨h1, by simpa using h2⟩, rfl⟩

/-- two lists are different as sets -/
def DiffSet {α : Type} (a b : List α) : Prop := ¬ ∀ x, x ∈ a ↔ x ∈ b

theorem combos_pairwise {α : Type} (k : Nat) (l : List α) (hl : l.Nodup) : (combos k l).Pairwise DiffSet := by
  induction l generalizing k with
  | nil => cases k <;> simp [combos]
  | cons x xs ih =>
    have hnd := List.nodup_cons.1 hl
    cases k with
    | zero => simp [combos]
    | succ k =>
      simp only [combos]
      rw [List.pairwise_append]
      refine ⟨?_, ih (k + 1) hnd.2, ?_⟩
      · rw [List.pairwise_map]
        apply List.Pairwise.imp_of_mem _ (ih k hnd.2)
        intro a b ha hb hab hsame
        have hxa : x ∉ a := fun h => hnd.1 (((mem_combos k xs a).1 ha).1.subset h)
        have hxb : x ∉ b := fun h => hnd.1 (((mem_combos k xs b).1 hb).1.subset h)
        apply hab; intro y
        have := hsame y
        simp only [List.mem_cons] at this
        constructor
        · intro hy
          rcases this.1 (Or.inr hy) with h | h
          · subst h; exact absurd hy hxa
          · exact h
        · intro hy
          rcases this.2 (Or.inr hy) with h | h
          · subst h; exact absurd hy hxb
          · exact h
      · intro a ha b hb hsame
        obtain ⟨a', _, rfl⟩ := List.mem_map.1 ha
        have hxb : x ∉ b := fun h => hnd.1 (((mem_combos (k + 1) xs b).1 hb).1.subset h)
        exact hxb ((hsame x).1 (by simp))

theorem powersetUpTo_mem {α : Type} (l c : List α) (k : Nat) :
    c ∈ powersetUpTo l k ↔ c.Sublist l ∧ 1 ≤ c.length ∧ c.length ≤ k := by
  unfold powersetUpTo
  simp only [List.mem_flatMap, List.mem_range'_1, mem_combos]
  constructor
  · rintro ⟨r, ⟨h1, h2⟩, h3, h4⟩
    refine ⟨h3, by omega, by omega⟩
  · rintro ⟨h1, h2, h3⟩
    have := h1.length_le
    exact ⟨c.length, ⟨h2, by omega⟩, h1, rfl⟩

theorem powersetUpTo_pairwise (l : List PyId) (k : Nat) (hl : l.Nodup) : (powersetUpTo l k).Pairwise DiffSet := by
  unfold powersetUpTo
  rw [List.pairwise_flatMap]
  refine ⟨fun r _ => combos_pairwise r l hl, ?_⟩
  apply List.Pairwise.imp _ (List.pairwise_lt_range' (s := 1) (n := min k l.length))
  intro r1 r2 hlt a ha b hb hsame
  obtain ⟨sa, la⟩ := (mem_combos r1 l a).1 ha
  obtain ⟨sb, lb⟩ := (mem_combos r2 l b).1 hb
  have := ((List.perm_ext_iff_of_nodup (sa.nodup hl) (sb.nodup hl)).2 hsame).length_eq
  omega

/-- a duplicate-free set of nodes is, as a set, a sublist of the node list -/
theorem exists_sublist_sameSet (l c : List PyId) (hl : l.Nodup) (hc : c.Nodup) (hsub : ∀ x ∈ c, x ∈ l) :
    ∃ c' : List PyId, c'.Sublist l ∧ (∀ x, x ∈ c' ↔ x ∈ c) ∧ c'.length = c.length := by
  refine ⟨l.filter (· ∈ c), List.filter_sublist, ?_, ?_⟩
  · intro x; simp only [List.mem_filter, decide_eq_true_eq]
    exact ⟨fun h => h.2, fun h => ⟨hsub x h, h⟩⟩
  · apply List.Perm.length_eq
    rw [List.perm_ext_iff_of_nodup (nodup_filter _ hl) hc]
    intro x; simp only [List.mem_filter, decide_eq_true_eq]
    exact ⟨fun h => h.2, fun h => ⟨hsub x h, h⟩⟩

/-! ### additions with automatic IDs, for any step function that behaves like one -/

theorem bulk_auto_gen {α : Type} (f : HG → α → HG × Outcome) (g : α → EdgeItem)
    (hstep : ∀ s a, UidFresh s → PyId.none ∉ (g a).members →
      f s a = (addEdgeAt { s with uid := s.uid + 1 } (PyId.int s.uid) (dedup (g a).members) (Attrs.update [] (g a).attr), .ok))
    (items : List α) (s : HG) (hf : UidFresh s) (hms : ∀ it ∈ items, PyId.none ∉ (g it).members) :
    (bulk f s items).2 = .ok ∧
    AddedMany s (bulk f s items).1 (autoItems s.uid (items.map g)) ∧
    (bulk f s items).1.uid = s.uid + items.length ∧
    UidFresh (bulk f s items).1 := by
  induction items generalizing s with
  | nil => exact ⟨rfl, AddedMany.nil s, rfl, hf⟩
  | cons it rest ih =>
    have hst := hstep s it hf (hms it (by simp))
    rw [bulk_cons_ok _ s _ it rest hst]
    have hA0 := addEdgeAt_added1 { s with uid := s.uid + 1 } (PyId.int s.uid) (dedup (g it).members) (Attrs.update [] (g it).attr)
    have hA : Added1 s (addEdgeAt { s with uid := s.uid + 1 } (PyId.int s.uid) (dedup (g it).members) (Attrs.update [] (g it).attr))
        (PyId.int s.uid) (dedup (g it).members) (Attrs.update [] (g it).attr) :=
      ⟨hA0.edges, hA0.nodes_mem, hA0.nodes_same, hA0.mem, hA0.eattr, hA0.nattr_old, hA0.nattr_new, hA0.net, hA0.frozen⟩
    have hu := (addEdgeAt_edges { s with uid := s.uid + 1 } (PyId.int s.uid) (dedup (g it).members) (Attrs.update [] (g it).attr)).2
    have hf1 := auto_add_fresh hf (dedup (g it).members) (Attrs.update [] (g it).attr)
    generalize addEdgeAt { s with uid := s.uid + 1 } (PyId.int s.uid) (dedup (g it).members) (Attrs.update [] (g it).attr) = s1 at *
    simp only [] at hu
    obtain ⟨g1, g2, g3, g4⟩ := ih s1 hf1 (fun it' h' => hms it' (by simp [h']))
    refine ⟨g1, ?_, by rw [g3, hu]; simp; omega, g4⟩
    rw [hu] at g2
    show AddedMany s _ ((PyId.int s.uid, dedup (g it).members, Attrs.update [] (g it).attr) :: autoItems (s.uid + 1) (rest.map g))
    refine AddedMany.cons hA g2 ?_
    intro hin
    obtain ⟨j, hj, heq⟩ := autoItems_ids_ge _ _ _ hin
    have := int_inj heq; omega

theorem addEdge_auto (s : HG) (ms : List PyId) (hms : PyId.none ∉ ms) :
    addEdge s ms none [] =
      (addEdgeAt { s with uid := s.uid + 1 } (PyId.int s.uid) (dedup ms) (Attrs.update [] []), .ok) := by
  unfold addEdge
  simp [hms]
  rfl


/-! ### `max(components, key=len)` -/

/-- the step of `largestComponent` -/
def better (best : Option (List PyId)) (c : List PyId) : Option (List PyId) :=
  match best with
  | none => some c
  | some b => if c.length > b.length then some c else some b

theorem largestComponent_eq (s : HG) : largestComponent s = (components s).foldl better none := rfl

theorem foldl_better_some (l : List (List PyId)) (b c : List PyId) (h : l.foldl better (some b) = some c) :
    (c = b ∧ ∀ p ∈ l, p.length ≤ b.length) ∨
    (∃ pre post, l = pre ++ c :: post ∧ b.length < c.length ∧ (∀ p ∈ pre, p.length < c.length) ∧
      ∀ p ∈ post, p.length ≤ c.length) := by
  induction l generalizing b with
  | nil => simp only [List.foldl_nil, Option.some.injEq] at h; exact Or.inl ⟨h.symm, (fun _ hp => by cases hp)⟩
  | cons a t ih =>
    simp only [List.foldl_cons] at h
    by_cases hab : a.length > b.length
    · have : better (some b) a = some a := by simp [better, hab]
      rw [this] at h
      rcases ih a h with ⟨rfl, h2⟩ | ⟨pre, post, rfl, h2, h3, h4⟩
      · exact Or.inr ⟨[], t, rfl, hab, (fun _ hp => by cases hp), h2⟩
      · refine Or.inr ⟨a :: pre, post, rfl, by omega, ?_, h4⟩
        intro p hp
        rcases List.mem_cons.1 hp with hp | hp
        · subst hp; exact h2
        · exact h3 p hp
    · have : better (some b) a = some b := by simp [better, hab]
      rw [this] at h
      rcases ih b h with ⟨rfl, h2⟩ | ⟨pre, post, rfl, h2, h3, h4⟩
      · refine Or.inl ⟨rfl, ?_⟩
        intro p hp
        rcases List.mem_cons.1 hp with hp | hp
        · subst hp; omega
        · exact h2 p hp
      · refine Or.inr ⟨a :: pre, post, rfl, h2, ?_, h4⟩
        intro p hp
        rcases List.mem_cons.1 hp with hp | hp
        · subst hp; omega
        · exact h3 p hp

/-- `max(components, key=len)` is the first component of maximal size -/
theorem largestComponent_spec {s : HG} {c : List PyId} (h : largestComponent s = some c) :
    ∃ pre post, components s = pre ++ c :: post ∧ (∀ p ∈ pre, p.length < c.length) ∧
      ∀ p ∈ post, p.length ≤ c.length := by
  rw [largestComponent_eq] at h
  cases hc : components s with
  | nil => rw [hc] at h; cases h
  | cons a t =>
    rw [hc] at h
    simp only [List.foldl_cons] at h
    have : better none a = some a := rfl
    rw [this] at h
    rcases foldl_better_some t a c h with ⟨rfl, h2⟩ | ⟨pre, post, rfl, h2, h3, h4⟩
    · exact ⟨[], t, rfl, (fun _ hp => by cases hp), h2⟩
    · refine ⟨a :: pre, post, rfl, ?_, h4⟩
      intro p hp
      rcases List.mem_cons.1 hp with hp | hp
      · subst hp; exact h2
      · exact h3 p hp
end Xgi.C19
