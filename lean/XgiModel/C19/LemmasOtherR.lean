/-
  C19 helper lemmas: `convert_labels_to_integers(DH, in_place=True)` on the directed model (`DHG.relabel`)
  computed in closed form — the two bulk loops (`add_nodes_from`, `add_edges_from` format 4) with the
  `set_*_attributes` calls between and after them, as stage invariants over the processed prefix.
  Directed twin of C19/Lemmas4.lean (`relabel_fields`), built like C02/LemmasCopy.lean (`rebuild_char`).
-/
import XgiModel.C19.LemmasOther
import XgiModel.C19.Lemmas4

namespace Xgi.C19.D
open Xgi DHG

theorem indexOf_eq (l : List PyId) (x : PyId) : DHG.indexOf l x = HG.indexOf l x := rfl

/-! ### `set_node_attributes({id: {…}})`, `set_edge_attributes({id: {…}})` -/

theorem setNodeAttrs_dict_spec (vals : List (PyId × Attrs)) (s : DHG) (hk : ∀ p ∈ vals, p.1 ∈ s.nattrK)
    (hd : (vals.map (·.1)).Nodup) :
    ∃ N, (setNodeAttrs s (.dictOfDict vals)).1 = { s with nattr := N } ∧
      (∀ p ∈ vals, N p.1 = (s.nattr p.1).update p.2) ∧ (∀ n, n ∉ vals.map (·.1) → N n = s.nattr n) := by
  unfold setNodeAttrs
  simp only []
  induction vals generalizing s with
  | nil => exact ⟨s.nattr, rfl, (fun _ hp => by cases hp), fun _ _ => rfl⟩
  | cons p rest ih =>
    have hp := hk p (by simp)
    have hstep : (fun s (p : PyId × Attrs) => if p.1 ∈ s.nattrK then (updNodeAttr s p.1 p.2, Outcome.ok) else (s, Outcome.warned)) s p =
        (updNodeAttr s p.1 p.2, .ok) := by simp [hp]
    rw [bulk_cons_ok _ s _ p rest hstep]
    simp only [List.map_cons, List.nodup_cons] at hd
    obtain ⟨N, g1, g4, g5⟩ := ih (updNodeAttr s p.1 p.2) (fun q hq => hk q (by simp [hq])) hd.2
    refine ⟨N, by rw [g1]; rfl, ?_, ?_⟩
    · intro q hq
      rcases List.mem_cons.1 hq with hq | hq
      · subst hq
        rw [g5 q.1 hd.1]; simp [updNodeAttr]
      · rw [g4 q hq]
        have : q.1 ≠ p.1 := by
          intro heq; apply hd.1; rw [← heq]; exact List.mem_map_of_mem (f := fun (x : PyId × Attrs) => x.1) hq
        simp [updNodeAttr, this]
    · intro n hn
      simp only [List.map_cons, List.mem_cons, not_or] at hn
      rw [g5 n hn.2]; simp [updNodeAttr, hn.1]

theorem setEdgeAttrs_dict_spec (vals : List (PyId × Attrs)) (s : DHG) (hk : ∀ p ∈ vals, p.1 ∈ s.eattrK)
    (hd : (vals.map (·.1)).Nodup) :
    ∃ E, (setEdgeAttrs s (.dictOfDict vals)).1 = { s with eattr := E } ∧
      (∀ p ∈ vals, E p.1 = (s.eattr p.1).update p.2) ∧ (∀ n, n ∉ vals.map (·.1) → E n = s.eattr n) := by
  unfold setEdgeAttrs
  simp only []
  induction vals generalizing s with
  | nil => exact ⟨s.eattr, rfl, (fun _ hp => by cases hp), fun _ _ => rfl⟩
  | cons p rest ih =>
    have hp := hk p (by simp)
    have hstep : (fun s (p : PyId × Attrs) => if p.1 ∈ s.eattrK then (updEdgeAttr s p.1 p.2, Outcome.ok) else (s, Outcome.warned)) s p =
        (updEdgeAttr s p.1 p.2, .ok) := by simp [hp]
    rw [bulk_cons_ok _ s _ p rest hstep]
    simp only [List.map_cons, List.nodup_cons] at hd
    obtain ⟨E, g1, g4, g5⟩ := ih (updEdgeAttr s p.1 p.2) (fun q hq => hk q (by simp [hq])) hd.2
    refine ⟨E, by rw [g1]; rfl, ?_, ?_⟩
    · intro q hq
      rcases List.mem_cons.1 hq with hq | hq
      · subst hq
        rw [g5 q.1 hd.1]; simp [updEdgeAttr]
      · rw [g4 q hq]
        have : q.1 ≠ p.1 := by
          intro heq; apply hd.1; rw [← heq]; exact List.mem_map_of_mem (f := fun (x : PyId × Attrs) => x.1) hq
        simp [updEdgeAttr, this]
    · intro n hn
      simp only [List.map_cons, List.mem_cons, not_or] at hn
      rw [g5 n hn.2]; simp [updEdgeAttr, hn.1]

/-! ### stage 1: `add_nodes_from((φ n, attrs n) …)` on the cleared network -/

/-- the state after the node prefix `done` of `s` has been added under the names `φ n` -/
structure NodeStageR (s t : DHG) (φ : PyId → PyId) (done : List PyId) : Prop where
  nodes : t.nodes = done.map φ
  edges : t.edges = []
  eattrK : t.eattrK = []
  net : t.net = s.net
  frozen : t.frozen = false
  membIn : ∀ n ∈ done, t.membIn (φ n) = []
  membOut : ∀ n ∈ done, t.membOut (φ n) = []
  nattr : ∀ n ∈ done, t.nattr (φ n) = s.nattr n
  nattrK : ∀ x, x ∈ t.nattrK ↔ x ∈ done.map φ

theorem nodeStageR_clear (s : DHG) (φ : PyId → PyId) (hf : s.frozen = false) : NodeStageR s (clear s false).1 φ [] := by
  constructor <;> simp [clear, hf]

theorem nodeStageR_step {s t : DHG} {φ : PyId → PyId} {done : List PyId} (h : NodeStageR s t φ done) (n : PyId)
    (hn : φ n ∉ done.map φ) (hinj : ∀ m ∈ done, φ m = φ n → m = n)
    (hnone : φ n ≠ .none) (hd : HG.IsDict (s.nattr n)) :
    (addNodesItem [] t (φ n, some (s.nattr n))).2 = .ok ∧
    NodeStageR s (addNodesItem [] t (φ n, some (s.nattr n))).1 φ (done ++ [n]) := by
  obtain ⟨h1, h2, h3, h4, h6, h7, h7', h8, h9⟩ := h
  have hnt : φ n ∉ t.nodes := by rw [h1]; exact hn
  have hne : ∀ m ∈ done, φ m ≠ φ n := by
    intro m hm heq; apply hn; rw [← heq]; exact List.mem_map_of_mem hm
  unfold addNodesItem
  simp only [hnone, false_and, if_false, HG.update_nil hd]
  refine ⟨trivial, ?_⟩
  unfold updNodeAttr addNodeRaw
  rw [if_neg hnt]
  constructor <;> simp only []
  · rw [h1]; simp
  · exact h2
  · exact h3
  · exact h4
  · exact h6
  · intro m hm; simp only [upd_apply]; split
    · rfl
    · rcases List.mem_append.1 hm with hm | hm
      · exact h7 m hm
      · simp only [List.mem_singleton] at hm; subst hm; rename_i hc; exact absurd rfl hc
  · intro m hm; simp only [upd_apply]; split
    · rfl
    · rcases List.mem_append.1 hm with hm | hm
      · exact h7' m hm
      · simp only [List.mem_singleton] at hm; subst hm; rename_i hc; exact absurd rfl hc
  · intro m hm; simp only [upd_apply]
    rcases List.mem_append.1 hm with hm | hm
    · rw [if_neg (hne m hm), if_neg (hne m hm)]; exact h8 m hm
    · simp only [List.mem_singleton] at hm; subst hm
      simp [HG.update_nil hd]
  · intro x; rw [mem_ins, h9]; simp only [List.map_append, List.map_cons, List.map_nil, List.mem_append,
      List.mem_singleton]; exact or_comm

theorem nodeStageR_all {s : DHG} (h : WFd s) (ha : ∀ n, HG.IsDict (s.nattr n)) (hf : s.frozen = false) :
    (addNodesFrom (clear s false).1 (s.nodes.map (fun n => (pos s.nodes n, some (s.nattr n)))) []).2 = .ok ∧
    NodeStageR s (addNodesFrom (clear s false).1 (s.nodes.map (fun n => (pos s.nodes n, some (s.nattr n)))) []).1
      (pos s.nodes) s.nodes := by
  unfold addNodesFrom
  rw [bulk_map]
  refine bulk_prefix (fun t n => addNodesItem [] t (pos s.nodes n, some (s.nattr n))) (fun t d => NodeStageR s t (pos s.nodes) d)
    s.nodes ?_ s.nodes [] _ (by simp) (nodeStageR_clear s _ hf)
  intro t done a rest hl hp
  have ha' : a ∈ s.nodes := by rw [hl]; simp
  have hdone : ∀ m ∈ done, m ∈ s.nodes := by intro m hm; rw [hl]; simp [hm]
  have h1 : a ∉ done := HG.not_mem_of_nodup_split h.nodupN hl
  have hinj : ∀ m ∈ done, pos s.nodes m = pos s.nodes a → m = a :=
    fun m hm heq => pos_inj _ h.nodupN (hdone m hm) ha' heq
  refine nodeStageR_step hp a ?_ hinj (pos_ne_none _ _) (ha a)
  intro hin
  obtain ⟨m, hm, heq⟩ := List.mem_map.1 hin
  exact h1 (hinj m hm heq ▸ hm)

/-! ### stage 2: `add_edges_from(((φ tail, φ head), ψ e, attrs e) …)` (format 4) -/

/-- the state after the edge prefix `done` of `s` has been added under the names `ψ e`, with members renamed by
    `φ`; `A` is what the node-attribute table holds at this point -/
structure EdgeStageR (s t : DHG) (φ ψ : PyId → PyId) (A : PyId → Attrs) (done : List PyId) : Prop where
  nodes : t.nodes = s.nodes.map φ
  edges : t.edges = done.map ψ
  net : t.net = s.net
  frozen : t.frozen = false
  nattr : ∀ n ∈ s.nodes, t.nattr (φ n) = A n
  nattrK : ∀ x, x ∈ t.nattrK ↔ x ∈ s.nodes.map φ
  tail : ∀ e ∈ done, ∀ x, x ∈ t.tail (ψ e) ↔ x ∈ (s.tail e).map φ
  head : ∀ e ∈ done, ∀ x, x ∈ t.head (ψ e) ↔ x ∈ (s.head e).map φ
  membOut : ∀ n ∈ s.nodes, ∀ x, x ∈ t.membOut (φ n) ↔ ∃ e ∈ done, x = ψ e ∧ n ∈ s.tail e
  membIn : ∀ n ∈ s.nodes, ∀ x, x ∈ t.membIn (φ n) ↔ ∃ e ∈ done, x = ψ e ∧ n ∈ s.head e
  eattr : ∀ e ∈ done, t.eattr (ψ e) = s.eattr e
  eattrK : ∀ x, x ∈ t.eattrK ↔ x ∈ done.map ψ

theorem edgeStageR_step {s t : DHG} {φ ψ : PyId → PyId} {A : PyId → Attrs} {done : List PyId}
    (h : EdgeStageR s t φ ψ A done) (e : PyId)
    (hne : ∀ e' ∈ done, ψ e' ≠ ψ e) (hnone : ψ e ≠ .none)
    (hφ : ∀ a ∈ s.nodes, ∀ b ∈ s.nodes, φ a = φ b → a = b) (hφn : ∀ a, φ a ≠ .none)
    (htl : ∀ n ∈ s.tail e, n ∈ s.nodes) (hhd : ∀ n ∈ s.head e, n ∈ s.nodes) (hd : HG.IsDict (s.eattr e)) :
    (addEdgesItem .f4 [] t { members := .pair ((s.tail e).map φ) ((s.head e).map φ), idx := some (ψ e), attr := s.eattr e }).2 = .ok ∧
    EdgeStageR s (addEdgesItem .f4 [] t
      { members := .pair ((s.tail e).map φ) ((s.head e).map φ), idx := some (ψ e), attr := s.eattr e }).1 φ ψ A (done ++ [e]) := by
  obtain ⟨h1, h2, h3, h4, h5, h6, h7, h7', h8, h8', h9, h10⟩ := h
  have het : ψ e ∉ t.edges := by
    rw [h2]; intro hin; obtain ⟨e', he', heq⟩ := List.mem_map.1 hin; exact hne e' he' heq
  have htn : PyId.none ∉ (s.tail e).map φ := by
    intro hin; obtain ⟨a, _, heq⟩ := List.mem_map.1 hin; exact hφn a heq
  have hhn : PyId.none ∉ (s.head e).map φ := by
    intro hin; obtain ⟨a, _, heq⟩ := List.mem_map.1 hin; exact hφn a heq
  unfold addEdgesItem
  simp only [Fmt.explicit, if_true, Option.getD_some, het, if_false, htn, hhn, hnone, false_or, reduceCtorEq,
    HG.update_nil hd]
  refine ⟨trivial, ?_⟩
  have hnodes0 : (updEdgeAttr (newEdgeAttr (newEdgeRaw t (ψ e)) (ψ e)) (ψ e) (s.eattr e)).nodes = t.nodes := rfl
  obtain ⟨mo, tl, heq1, htl1, hmo1⟩ := foldl_linkTail_char ((s.tail e).map φ)
    (updEdgeAttr (newEdgeAttr (newEdgeRaw t (ψ e)) (ψ e)) (ψ e) (s.eattr e)) (ψ e)
    (fun n hn => by
      rw [hnodes0, h1]; obtain ⟨a, ha, heq⟩ := List.mem_map.1 hn
      rw [← heq]; exact List.mem_map_of_mem (htl a ha))
  obtain ⟨mi, hd', heq2, hhd2, hmi2⟩ := foldl_linkHead_char ((s.head e).map φ)
    { (updEdgeAttr (newEdgeAttr (newEdgeRaw t (ψ e)) (ψ e)) (ψ e) (s.eattr e)) with membOut := mo, tail := tl } (ψ e)
    (fun n hn => by
      show n ∈ t.nodes
      rw [h1]; obtain ⟨a, ha, heq⟩ := List.mem_map.1 hn
      rw [← heq]; exact List.mem_map_of_mem (hhd a ha))
  have hadd : addEdgeAt t (ψ e) ((s.tail e).map φ) ((s.head e).map φ) (s.eattr e) =
      { (updEdgeAttr (newEdgeAttr (newEdgeRaw t (ψ e)) (ψ e)) (ψ e) (s.eattr e)) with
          membOut := mo, tail := tl, membIn := mi, head := hd' } := by
    unfold addEdgeAt; rw [heq1, heq2]
  rw [bumpUid_eq]
  generalize (bumpUid (addEdgeAt t (ψ e) ((s.tail e).map φ) ((s.head e).map φ) (s.eattr e)) (ψ e)).uid = newUid
  rw [hadd]
  simp only [updEdgeAttr, newEdgeAttr, newEdgeRaw, upd_apply] at htl1 hmo1 hhd2 hmi2 ⊢
  have hmapφ : ∀ (l : List PyId) (n : PyId), (∀ a ∈ l, a ∈ s.nodes) → n ∈ s.nodes → (φ n ∈ l.map φ ↔ n ∈ l) := by
    intro l n hl hn
    constructor
    · intro hin; obtain ⟨a, ha, heq⟩ := List.mem_map.1 hin
      rw [← hφ a (hl a ha) n hn heq]; exact ha
    · exact List.mem_map_of_mem
  constructor <;> (try simp only [])
  · exact h1
  · rw [h2]; simp
  · exact h3
  · exact h4
  · exact h5
  · exact h6
  · intro e' he' x; rw [htl1]
    rcases List.mem_append.1 he' with he' | he'
    · have := hne e' he'; rw [← h7 e' he' x]; simp [this]
    · simp only [List.mem_singleton] at he'; subst he'; simp
  · intro e' he' x; rw [hhd2]
    rcases List.mem_append.1 he' with he' | he'
    · have := hne e' he'; rw [← h7' e' he' x]; simp [this]
    · simp only [List.mem_singleton] at he'; subst he'; simp
  · intro n hn x; rw [hmo1, h8 n hn x, hmapφ _ n htl hn]
    constructor
    · rintro (⟨e', he', hx, hm⟩ | ⟨hx, hm⟩)
      · exact ⟨e', by simp [he'], hx, hm⟩
      · exact ⟨e, by simp, hx, hm⟩
    · rintro ⟨e', he', hx, hm⟩
      rcases List.mem_append.1 he' with he' | he'
      · exact Or.inl ⟨e', he', hx, hm⟩
      · simp only [List.mem_singleton] at he'; subst he'; exact Or.inr ⟨hx, hm⟩
  · intro n hn x; rw [hmi2, h8' n hn x, hmapφ _ n hhd hn]
    constructor
    · rintro (⟨e', he', hx, hm⟩ | ⟨hx, hm⟩)
      · exact ⟨e', by simp [he'], hx, hm⟩
      · exact ⟨e, by simp, hx, hm⟩
    · rintro ⟨e', he', hx, hm⟩
      rcases List.mem_append.1 he' with he' | he'
      · exact Or.inl ⟨e', he', hx, hm⟩
      · simp only [List.mem_singleton] at he'; subst he'; exact Or.inr ⟨hx, hm⟩
  · intro e' he'; simp only [upd_apply]
    rcases List.mem_append.1 he' with he' | he'
    · rw [if_neg (hne e' he'), if_neg (hne e' he')]; exact h9 e' he'
    · simp only [List.mem_singleton] at he'; subst he'; simp [HG.update_nil hd]
  · intro x; rw [mem_ins, h10]; simp only [List.map_append, List.map_cons, List.map_nil, List.mem_append,
      List.mem_singleton]; exact or_comm

/-! ### the whole of `convert_labels_to_integers(DH, in_place=True)` -/

/-- what `convert_labels_to_integers` leaves behind on a directed network: every ID replaced by its position,
    tails, heads and both membership tables carried along, every attribute kept, the old ID under `labelAttr` -/
structure RelabelledD (s r : DHG) (labelAttr : String) : Prop where
  nodes : r.nodes = s.nodes.map (pos s.nodes)
  edges : r.edges = s.edges.map (pos s.edges)
  tail : ∀ e ∈ s.edges, ∀ x, x ∈ r.tail (pos s.edges e) ↔ x ∈ (s.tail e).map (pos s.nodes)
  head : ∀ e ∈ s.edges, ∀ x, x ∈ r.head (pos s.edges e) ↔ x ∈ (s.head e).map (pos s.nodes)
  membOut : ∀ n ∈ s.nodes, ∀ x, x ∈ r.membOut (pos s.nodes n) ↔ ∃ e ∈ s.edges, x = pos s.edges e ∧ n ∈ s.tail e
  membIn : ∀ n ∈ s.nodes, ∀ x, x ∈ r.membIn (pos s.nodes n) ↔ ∃ e ∈ s.edges, x = pos s.edges e ∧ n ∈ s.head e
  nattr : ∀ n ∈ s.nodes, r.nattr (pos s.nodes n) = (s.nattr n).set labelAttr (DHG.idVal n)
  eattr : ∀ e ∈ s.edges, r.eattr (pos s.edges e) = (s.eattr e).set labelAttr (DHG.idVal e)
  nattrK : ∀ x, x ∈ r.nattrK ↔ x ∈ r.nodes
  eattrK : ∀ x, x ∈ r.eattrK ↔ x ∈ r.edges
  net : r.net = s.net
  frozen : r.frozen = false

/-- the item handed to `add_edges_from` for the edge `e` -/
def relItem (s : DHG) (e : PyId) : EdgeItem :=
  { members := .pair ((s.tail e).map (pos s.nodes)) ((s.head e).map (pos s.nodes)), idx := some (pos s.edges e), attr := s.eattr e }

theorem update_single (a : Attrs) (k : String) (v : Val) : a.update [(k, v)] = a.set k v := rfl

theorem relabel_fields {s : DHG} (h : WFd s) (ha : AttrsOKD s) (hf : s.frozen = false) (labelAttr : String) :
    (relabel s labelAttr).2 = .ok ∧ RelabelledD s (relabel s labelAttr).1 labelAttr := by
  unfold relabel
  simp only [hf, Bool.false_eq_true, if_false]
  refine ⟨trivial, ?_⟩
  -- stage 1
  obtain ⟨_, hns⟩ := nodeStageR_all h ha.nattr hf
  have e1 : (fun n => (PyId.int (DHG.indexOf s.nodes n), some (s.nattr n))) = (fun n => (pos s.nodes n, some (s.nattr n))) := rfl
  rw [e1]
  generalize (addNodesFrom (clear s false).1 (s.nodes.map (fun n => (pos s.nodes n, some (s.nattr n)))) []).1 = t1 at hns
  -- the old node labels
  have e2 : (fun n => (PyId.int (DHG.indexOf s.nodes n), [(labelAttr, idVal n)])) =
      (fun n => (pos s.nodes n, [(labelAttr, idVal n)])) := rfl
  rw [e2]
  have hkeys : (s.nodes.map (fun n => (pos s.nodes n, [(labelAttr, idVal n)]))).map (·.1) = s.nodes.map (pos s.nodes) := by
    rw [List.map_map]; rfl
  obtain ⟨N, hN, hN1, _⟩ := setNodeAttrs_dict_spec (s.nodes.map (fun n => (pos s.nodes n, [(labelAttr, idVal n)]))) t1
    (by
      intro p hp; obtain ⟨n, hn, rfl⟩ := List.mem_map.1 hp
      exact (hns.nattrK _).2 (List.mem_map_of_mem hn))
    (by rw [hkeys]; exact nodup_map_pos _ h.nodupN _ h.nodupN (fun _ hx => hx))
  rw [hN]
  have hst0 : EdgeStageR s { t1 with nattr := N } (pos s.nodes) (pos s.edges)
      (fun n => (s.nattr n).set labelAttr (idVal n)) [] := by
    constructor <;> (try simp only [])
    · exact hns.nodes
    · rw [hns.edges]; rfl
    · exact hns.net
    · exact hns.frozen
    · intro n hn
      have := hN1 (pos s.nodes n, [(labelAttr, idVal n)]) (List.mem_map.2 ⟨n, hn, rfl⟩)
      simp only [] at this
      rw [this, hns.nattr n hn, update_single]
    · exact hns.nattrK
    · intro e he; cases he
    · intro e he; cases he
    · intro n hn x; rw [hns.membOut n hn]; simp
    · intro n hn x; rw [hns.membIn n hn]; simp
    · intro e he; cases he
    · intro x; rw [hns.eattrK]; simp
  generalize ({ t1 with nattr := N } : DHG) = t2 at hst0
  -- stage 2
  have e3 : (fun e => ({ members := .pair ((s.tail e).map (fun n => PyId.int (DHG.indexOf s.nodes n))) ((s.head e).map (fun n => PyId.int (DHG.indexOf s.nodes n))), idx := some (PyId.int (DHG.indexOf s.edges e)), attr := s.eattr e } : EdgeItem)) = relItem s := rfl
  rw [e3]
  have hst : (addEdgesBulk t2 .f4 (s.edges.map (relItem s)) []).2 = .ok ∧
      EdgeStageR s (addEdgesBulk t2 .f4 (s.edges.map (relItem s)) []).1 (pos s.nodes) (pos s.edges)
        (fun n => (s.nattr n).set labelAttr (idVal n)) s.edges := by
    unfold addEdgesBulk
    rw [bulk_map]
    refine bulk_prefix (fun t e => addEdgesItem .f4 [] t (relItem s e))
      (fun t d => EdgeStageR s t (pos s.nodes) (pos s.edges) (fun n => (s.nattr n).set labelAttr (idVal n)) d)
      s.edges ?_ s.edges [] _ (by simp) hst0
    intro t done e rest hl hp
    have he : e ∈ s.edges := by rw [hl]; simp
    have hdone : ∀ m ∈ done, m ∈ s.edges := by intro m hm; rw [hl]; simp [hm]
    have h1 : e ∉ done := HG.not_mem_of_nodup_split h.nodupE hl
    refine edgeStageR_step hp e ?_ (pos_ne_none _ _) (fun a ha' b hb => pos_inj _ h.nodupN ha' hb) (pos_ne_none _)
      (fun n hn => (h.tail2out e he n hn).1) (fun n hn => (h.head2in e he n hn).1) (ha.eattr e)
    intro e' he' heq
    exact h1 (pos_inj _ h.nodupE (hdone e' he') he heq ▸ he')
  obtain ⟨_, hes⟩ := hst
  generalize (addEdgesBulk t2 .f4 (s.edges.map (relItem s)) []).1 = t3 at hes
  -- the old edge labels
  have e4 : (fun e => (PyId.int (DHG.indexOf s.edges e), [(labelAttr, idVal e)])) =
      (fun e => (pos s.edges e, [(labelAttr, idVal e)])) := rfl
  rw [e4]
  have hkeysE : (s.edges.map (fun e => (pos s.edges e, [(labelAttr, idVal e)]))).map (·.1) = s.edges.map (pos s.edges) := by
    rw [List.map_map]; rfl
  obtain ⟨E, hE, hE1, _⟩ := setEdgeAttrs_dict_spec (s.edges.map (fun e => (pos s.edges e, [(labelAttr, idVal e)]))) t3
    (by
      intro p hp; obtain ⟨e, he, rfl⟩ := List.mem_map.1 hp
      exact (hes.eattrK _).2 (List.mem_map_of_mem he))
    (by rw [hkeysE]; exact nodup_map_pos _ h.nodupE _ h.nodupE (fun _ hx => hx))
  rw [hE]
  constructor <;> (try simp only [])
  · exact hes.nodes
  · exact hes.edges
  · exact hes.tail
  · exact hes.head
  · exact hes.membOut
  · exact hes.membIn
  · exact hes.nattr
  · intro e he
    have := hE1 (pos s.edges e, [(labelAttr, idVal e)]) (List.mem_map.2 ⟨e, he, rfl⟩)
    simp only [] at this
    rw [this, hes.eattr e he, update_single]
  · intro x; rw [hes.nattrK, hes.nodes]
  · intro x; rw [hes.eattrK, hes.edges]
  · exact hes.net
  · exact hes.frozen

end Xgi.C19.D
