/-
  C19 helper lemmas: strong removal of a list of nodes on the simplicial model (`SC.removeNodesFrom`) in closed
  form, and with it the connected step of `SimplicialComplex.cleanup`
  (`largest_connected_hypergraph(S, in_place=True)`: `S.remove_nodes_from(set(S.nodes) - component)`).
-/
import XgiModel.C19.LemmasOther
import XgiModel.C19.Lemmas9

namespace Xgi.C19.S
open Xgi HG

/-- no node of `done` is a member of `e` -/
def avoids (s : HG) (done : List PyId) (e : PyId) : Bool := done.all (fun x => decide (x ∉ s.mem e))

theorem avoids_iff (s : HG) (done : List PyId) (e : PyId) : avoids s done e = true ↔ ∀ x ∈ done, x ∉ s.mem e := by
  unfold avoids; simp

/-- the state after the nodes `done` have been removed from `s` one by one, each with every simplex containing it -/
structure StrongRemoved (s t : HG) (done : List PyId) : Prop where
  nodes : t.nodes = s.nodes.filter (· ∉ done)
  nattrK : t.nattrK = s.nattrK.filter (· ∉ done)
  edges : t.edges = s.edges.filter (avoids s done)
  eattrK : t.eattrK = s.eattrK.filter (avoids s done)
  mem : t.mem = s.mem
  memb : ∀ m ∈ t.nodes, ∀ e, e ∈ t.memb m ↔ e ∈ s.memb m ∧ avoids s done e = true
  nattr : t.nattr = s.nattr
  eattr : t.eattr = s.eattr
  net : t.net = s.net
  uid : t.uid = s.uid
  frozen : t.frozen = s.frozen

theorem strongRemoved_nil (s : HG) : StrongRemoved s s [] := by
  constructor <;> (try rfl)
  · exact (filter_not_mem_nil _).symm
  · exact (filter_not_mem_nil _).symm
  · exact (List.filter_eq_self.2 (fun _ _ => by simp [avoids])).symm
  · exact (List.filter_eq_self.2 (fun _ _ => by simp [avoids])).symm
  · intro m _ e; simp [avoids]

theorem avoids_snoc (s : HG) (done : List PyId) (n e : PyId) :
    avoids s (done ++ [n]) e = (avoids s done e && decide (n ∉ s.mem e)) := by
  unfold avoids; simp

theorem strongRemoved_step {s t : HG} {done : List PyId} (hw : WF s) (h : StrongRemoved s t done) (n : PyId)
    (hn : n ∈ t.nodes) : StrongRemoved s (removeNodeStrong t n) (done ++ [n]) := by
  obtain ⟨h1, h2, h3, h4, h5, h6, h7, h8, h9, h10, h11⟩ := h
  have hns : n ∈ s.nodes := by rw [h1] at hn; exact (List.mem_filter.1 hn).1
  -- for an edge of `s` that avoids `done`: it is incident to `n` in `t` iff `n` is one of its members
  have hinc : ∀ e, e ∈ s.edges → avoids s done e = true → (e ∈ t.memb n ↔ n ∈ s.mem e) := by
    intro e he hav
    rw [h6 n hn e]
    constructor
    · rintro ⟨hm, _⟩; exact (hw.n2e n hns e hm).2
    · intro hm; exact ⟨(hw.e2n e he n hm).2, hav⟩
  unfold removeNodeStrong
  constructor <;> simp only []
  · rw [h1]; simp only [rm, List.filter_filter]
    apply List.filter_congr; intro x _; simp only [List.mem_append, List.mem_singleton, not_or, ne_eq]
    by_cases hx : x = n <;> simp [hx]
  · rw [h2]; simp only [rm, List.filter_filter]
    apply List.filter_congr; intro x _; simp only [List.mem_append, List.mem_singleton, not_or, ne_eq]
    by_cases hx : x = n <;> simp [hx]
  · rw [h3, List.filter_filter]
    apply List.filter_congr; intro e he
    rw [avoids_snoc]
    by_cases hav : avoids s done e = true
    · have := hinc e he hav
      simp only [hav, Bool.and_true, Bool.true_and]
      by_cases hm : n ∈ s.mem e <;> simp [hm, this]
    · simp [hav]
  · rw [h4, List.filter_filter]
    apply List.filter_congr; intro e he
    have he' : e ∈ s.edges := (hw.attrE e).1 he
    rw [avoids_snoc]
    by_cases hav : avoids s done e = true
    · have := hinc e he' hav
      simp only [hav, Bool.and_true, Bool.true_and]
      by_cases hm : n ∈ s.mem e <;> simp [hm, this]
    · simp [hav]
  · exact h5
  · intro m hm e
    have hm' : m ∈ t.nodes ∧ m ≠ n := by
      simp only [rm, List.mem_filter, ne_eq, decide_eq_true_eq] at hm; exact hm
    have hms : m ∈ s.nodes := by have := hm'.1; rw [h1] at this; exact (List.mem_filter.1 this).1
    simp only [List.mem_filter, decide_eq_true_eq]
    rw [h6 m hm'.1 e, avoids_snoc]
    constructor
    · rintro ⟨⟨hsm, hav⟩, hnot⟩
      have he : e ∈ s.edges := (hw.n2e m hms e hsm).1
      have hmm : m ∈ t.mem e := by rw [h5]; exact (hw.n2e m hms e hsm).2
      refine ⟨hsm, ?_⟩
      simp only [hav, Bool.true_and, decide_eq_true_eq]
      intro hne
      exact hnot ⟨(hinc e he hav).2 hne, hmm, hm'.2⟩
    · rintro ⟨hsm, hav⟩
      simp only [Bool.and_eq_true, decide_eq_true_eq] at hav
      have he : e ∈ s.edges := (hw.n2e m hms e hsm).1
      exact ⟨⟨hsm, hav.1⟩, fun hc => hav.2 ((hinc e he hav.1).1 hc.1)⟩
  · exact h7
  · exact h8
  · exact h9
  · exact h10
  · exact h11

theorem removeNodesFrom_strong (l : List PyId) {s : HG} (hw : WF s) (hl : l.Nodup) (hin : ∀ n ∈ l, n ∈ s.nodes) :
    (SC.removeNodesFrom s l).2 = .ok ∧ StrongRemoved s (SC.removeNodesFrom s l).1 l := by
  unfold SC.removeNodesFrom
  refine HG.bulk_prefix SC.removeNodesItem (fun t d => StrongRemoved s t d) l ?_ l [] s (by simp) (strongRemoved_nil s)
  intro t done a rest hl' hp
  have ha : a ∈ t.nodes := by
    rw [hp.nodes, List.mem_filter]
    refine ⟨hin a (by rw [hl']; simp), ?_⟩
    simp only [decide_eq_true_eq]
    exact HG.not_mem_of_nodup_split hl hl'
  unfold SC.removeNodesItem SC.removeNode
  simp only [ha, not_true_eq_false, if_false]
  exact ⟨trivial, strongRemoved_step hw hp a ha⟩

/-- the connected step of `SimplicialComplex.cleanup` on an unfrozen complex: exactly the nodes outside the chosen
    component go, with exactly the simplices that are not inside it; nothing else is touched -/
theorem lccInPlace_spec {t : HG} (hw : WF t) (hf : t.frozen = false) :
    (SC.lccInPlace t).2 = .ok ∧
    (SC.lccInPlace t).1.nodes = t.nodes.filter (· ∈ largestOrEmpty t) ∧
    (SC.lccInPlace t).1.edges = t.edges.filter (fun e => (t.mem e).all (· ∈ largestOrEmpty t)) ∧
    (SC.lccInPlace t).1.mem = t.mem ∧ (SC.lccInPlace t).1.nattr = t.nattr ∧ (SC.lccInPlace t).1.eattr = t.eattr ∧
    (SC.lccInPlace t).1.net = t.net ∧ (SC.lccInPlace t).1.uid = t.uid ∧
    (∀ m ∈ (SC.lccInPlace t).1.nodes, ∀ e, e ∈ (SC.lccInPlace t).1.memb m ↔ e ∈ t.memb m) ∧
    (SC.lccInPlace t).1.frozen = false := by
  have hc : EdgeClosed t (largestOrEmpty t) := by
    unfold largestOrEmpty
    cases hc : largestComponent t with
    | none => exact edgeClosed_nil t
    | some c => exact (largestComponent_closed hw hc).1
  obtain ⟨hok, hst⟩ := removeNodesFrom_strong (t.nodes.filter (· ∉ largestOrEmpty t)) hw (hw.nodupN.filter _)
    (fun n hn => (List.mem_filter.1 hn).1)
  have hl : SC.lccInPlace t = ((SC.removeNodesFrom t (t.nodes.filter (· ∉ largestOrEmpty t))).1, .ok) := by
    unfold largestOrEmpty at hok ⊢
    unfold SC.lccInPlace guardF
    simp only [hf, Bool.false_eq_true, if_false, hok, Outcome.isErr]
  rw [hl]
  generalize (SC.removeNodesFrom t (t.nodes.filter (· ∉ largestOrEmpty t))).1 = r at hst
  -- an edge avoids the removed nodes iff all its members are in the component
  have hav : ∀ e ∈ t.edges, (avoids t (t.nodes.filter (· ∉ largestOrEmpty t)) e = true ↔
      (t.mem e).all (· ∈ largestOrEmpty t) = true) := by
    intro e he
    rw [avoids_iff]
    simp only [List.mem_filter, decide_eq_true_eq, List.all_eq_true, and_imp]
    constructor
    · intro h x hx
      by_cases hxc : x ∈ largestOrEmpty t
      · exact hxc
      · exact absurd hx (h x (hw.e2n e he x hx).1 hxc)
    · intro h x _ hxc hx; exact hxc (h x hx)
  refine ⟨rfl, ?_, ?_, hst.mem, hst.nattr, hst.eattr, hst.net, hst.uid, ?_, by rw [hst.frozen]; exact hf⟩
  · rw [hst.nodes]
    apply List.filter_congr; intro x hx
    by_cases hxc : x ∈ largestOrEmpty t <;> simp [hxc, hx]
  · rw [hst.edges]
    apply List.filter_congr; intro e he
    rw [Bool.eq_iff_iff]; exact hav e he
  · intro m hm e
    rw [hst.memb m hm e]
    constructor
    · exact fun h => h.1
    · intro hme
      refine ⟨hme, ?_⟩
      have hmn : m ∈ t.nodes ∧ m ∈ largestOrEmpty t := by
        rw [hst.nodes] at hm
        simp only [List.mem_filter, decide_eq_true_eq, not_and] at hm
        exact ⟨hm.1, Decidable.not_not.1 (hm.2 hm.1)⟩
      obtain ⟨he, hmm⟩ := hw.n2e m hmn.1 e hme
      rw [hav e he, List.all_eq_true]
      intro x hx
      simp only [decide_eq_true_eq]
      exact hc e he m hmm hmn.2 x hx

/-- the connected step of `SimplicialComplex.cleanup` leaves a connected complex: every two of its nodes are
    joined by a chain of simplices -/
theorem lccInPlace_connected {t : HG} (hw : WF t) (hf : t.frozen = false) : Connected (SC.lccInPlace t).1 := by
  obtain ⟨_, c5n, c5e, c4, _⟩ := lccInPlace_spec hw hf
  generalize (SC.lccInPlace t).1 = u at *
  unfold largestOrEmpty at c5n c5e
  cases hc : largestComponent t with
  | none =>
    have := largestComponent_none hc
    intro x hx; rw [c5n, this] at hx; cases hx
  | some c =>
    rw [hc] at c5n c5e; simp only [Option.getD_some] at c5n c5e
    obtain ⟨pre, post, hcomp, _, _⟩ := largestComponent_spec hc
    obtain ⟨v, hv, rfl⟩ := components_mem c (by rw [hcomp]; simp)
    apply induced_connected hw hv
    · intro x hx; rw [c5n] at hx; simpa using (List.mem_filter.1 hx).2
    · intro e he hall
      have : e ∈ u.edges := by
        rw [c5e, List.mem_filter]; exact ⟨he, by simpa using hall⟩
      exact ⟨this, by rw [c4]⟩

end Xgi.C19.S
