/-
  C19 driver: JSON request {"f": name, "H": network, args…} → model call → JSON snapshot
  ("maximal": the IDs; "components": the answers of the connectivity queries of xgi/algorithms/connected.py).
  Network encoding: {"nodes":[ids], "edges":[[id,[members in iteration order]]…],
   "nattr":[[id,attrs]…], "eattr":[[id,attrs]…], "net":attrs, "uid":nat, "frozen":bool, "cls":"hg"|"sc"}.
  Memberships are derived from the edges (edge order).  Inputs that are not well-formed networks
  (repeated IDs, `None`, members that are not nodes) are answered "unmodelled".
  Directed networks ("DH"): {"nodes":[ids], "edges":[[id,[tail],[head]]…], "nattr", "eattr", "net", "uid", "frozen"};
  requests sc_cleanup / sc_relabel (on "H" with cls "sc") and dh_cleanup / dh_relabel (on "DH") run the C03 / C02
  models through XgiModel/C19/Other.lean and answer with the snapshot of the respective state-machine driver.
-/
import XgiModel.Proto
import XgiModel.Drive.HG
import XgiModel.C19.Derived
import XgiModel.C19.Other
import XgiModel.C19.Conn
import XgiModel.C02.Drive
open Lean Xgi.Proto

namespace Xgi.C19.Drive
open Xgi Xgi.HG

def assoc {β : Type} (l : List (PyId × β)) (d : β) (k : PyId) : β :=
  ((l.find? (fun p => p.1 = k)).map (·.2)).getD d

def pairs? {β : Type} (j : Json) (k : String) (f : Json → Option β) : Option (List (PyId × β)) := do
  match getField? j k with
  | none => pure []
  | some (.arr a) => a.toList.mapM (fun p => match p with
      | .arr #[i, v] => do pure ((← idOfJson? i), (← f v))
      | _ => none)
  | _ => none

/-- decidable well-formedness of the decoded tables (what `HG.WF` asks of nodes, edges, members) -/
def wfb (nodes : List PyId) (edges : List (PyId × List PyId)) : Bool :=
  decide nodes.Nodup && decide (edges.map (·.1)).Nodup && !(nodes.contains .none) &&
  !((edges.map (·.1)).contains .none) &&
  edges.all (fun p => decide p.2.Nodup && p.2.all (fun n => nodes.contains n))

def hgOfJson? (j : Json) : Option (Option (HG × Cls)) := do
  let nodes ← getIds? j "nodes"
  let edges ← pairs? j "edges" idsOfJson?
  let nattr ← pairs? j "nattr" attrsOfJson?
  let eattr ← pairs? j "eattr" attrsOfJson?
  let net ← match getField? j "net" with | none => pure [] | some a => attrsOfJson? a
  let uid := (getNat? j "uid").getD 0
  let frozen := (getBool? j "frozen").getD false
  let cls ← match getStr? j "cls" with
    | none => pure Cls.hg | some "hg" => pure Cls.hg | some "sc" => pure Cls.sc | _ => none
  if !wfb nodes edges then pure none else
  let eids := edges.map (·.1)
  let s : HG :=
    { nodes := nodes
      edges := eids
      memb := fun n => if n ∈ nodes then (edges.filter (fun p => n ∈ p.2)).map (·.1) else []
      mem := assoc edges []
      nattrK := nodes
      eattrK := eids
      nattr := assoc nattr []
      eattr := assoc eattr []
      net := net
      uid := uid
      frozen := frozen }
  pure (some (s, cls))

/-- a directed network; `none` inside = not well formed (outside the model) -/
def dhgOfJson? (j : Json) : Option (Option DHG) := do
  let nodes ← getIds? j "nodes"
  let es ← getArr? j "edges"
  let edges ← es.mapM (fun p => match p with
    | .arr #[i, t, h] => do pure ((← idOfJson? i), (← idsOfJson? t), (← idsOfJson? h))
    | _ => none)
  let nattr ← pairs? j "nattr" attrsOfJson?
  let eattr ← pairs? j "eattr" attrsOfJson?
  let net ← match getField? j "net" with | none => pure [] | some a => attrsOfJson? a
  let uid := (getNat? j "uid").getD 0
  let frozen := (getBool? j "frozen").getD false
  let eids : List PyId := edges.map (·.1)
  let ok := decide nodes.Nodup && decide eids.Nodup && !(nodes.contains .none) && !(eids.contains .none) &&
    edges.all (fun p => decide p.2.1.Nodup && decide p.2.2.Nodup && p.2.1.all (fun n => nodes.contains n) &&
      p.2.2.all (fun n => nodes.contains n))
  if !ok then pure none else
  let s : DHG :=
    { nodes := nodes
      edges := eids
      membIn := fun n => if n ∈ nodes then (edges.filter (fun p => n ∈ p.2.2)).map (·.1) else []
      membOut := fun n => if n ∈ nodes then (edges.filter (fun p => n ∈ p.2.1)).map (·.1) else []
      tail := fun e => ((edges.find? (fun p => p.1 = e)).map (·.2.1)).getD []
      head := fun e => ((edges.find? (fun p => p.1 = e)).map (·.2.2)).getD []
      nattrK := nodes
      eattrK := eids
      nattr := assoc nattr []
      eattr := assoc eattr []
      net := net
      uid := uid
      frozen := frozen }
  pure (some s)

def unmodelled : Json := Json.mkObj [("out", "unmodelled")]

def result (r : HG × Outcome) : Json :=
  if r.2.isErr then Json.mkObj [("out", HG.Drive.outcomeJson r.2)] else HG.Drive.respond r.1 r.2

/-- directed results: an in-place call answers with the state left behind (also when it raised), a call that
    returns a new network answers with that network, or with the outcome alone when it raised -/
def resultD (inPlace : Bool) (r : Option (DHG × Outcome)) : Json :=
  match r with
  | none => unmodelled
  | some r => if !inPlace && r.2.isErr then Json.mkObj [("out", DHG.Drive.outcomeJson r.2)] else DHG.Drive.respond r.1 r.2

def resultS (inPlace : Bool) (r : HG × Outcome) : Json :=
  if !inPlace && r.2.isErr then Json.mkObj [("out", HG.Drive.outcomeJson r.2)] else HG.Drive.respond r.1 r.2

def withDH (j : Json) (f : DHG → Option Json) : Json :=
  match (getField? j "DH").bind dhgOfJson? with
  | none => badOp
  | some none => unmodelled
  | some (some s) => (f s).getD badOp

def optIds? (j : Json) (k : String) : Option (Option (List PyId)) :=
  match getField? j k with
  | none => some none
  | some .null => some none
  | some a => (idsOfJson? a).map some

def withH (j : Json) (k : String) (f : HG → Cls → Option Json) : Json :=
  match (getField? j k).bind hgOfJson? with
  | none => badOp
  | some none => unmodelled
  | some (some (s, c)) => (f s c).getD badOp

def handle (st : Unit) (j : Json) : Unit × Json :=
  (st, match getStr? j "f" with
  | some "copy" => withH j "H" fun s _ => some (result (copy s))
  | some "subhypergraph" => withH j "H" fun s _ => do
      pure (result (subhypergraph s (← optIds? j "nodes") (← optIds? j "edges") (← getBool? j "keep_isolates")))
  | some "dual" => withH j "H" fun s _ => some (result (dual s))
  | some "dual2" => withH j "H" fun s _ => some (result (andThen (dual s) dual))
  | some "lshift" => withH j "H" fun s _ => some (withH j "H2" fun t _ => some (result (lshift s t)))
  | some "complement" => withH j "H" fun s _ => some (result (complement s))
  | some "cut_to_order" => withH j "H" fun s c => do pure (result (cutToOrder c s (← getInt? j "order")))
  | some "k_skeleton" => withH j "H" fun s c => do pure (result (kSkeleton c s (← getInt? j "order")))
  | some "from_max_simplices" => withH j "H" fun s c => some (result (fromMaxSimplices c s))
  | some "maximal" => withH j "H" fun s _ => do
      let strict ← getBool? j "strict"
      pure (Json.mkObj [("out", "ok"), ("ids", idsToJson (if strict then maximalStrictIds s else maximalIds s))])
  | some "lch" => withH j "H" fun s _ => some (result (lch s))
  | some "components" => withH j "H" fun s _ => do
      -- connected_components / number_connected_components / is_connected / largest_connected_component and
      -- node_connected_component for every probe node; a call that raises answers "err"
      let probe ← match getField? j "probe" with | none => pure [] | some a => idsOfJson? a
      let orErr : Option (List PyId) → Json := fun o => match o with | none => Json.str "err" | some c => idsToJson c
      pure (Json.mkObj [("out", "ok"),
        ("comps", Json.arr ((components s).map idsToJson).toArray),
        ("number", natJson (numberComponents s)),
        ("connected", match isConnected s with | none => Json.str "err" | some b => Json.bool b),
        ("largest", orErr (largestConnectedComponent s)),
        ("ncc", Json.arr (probe.map (fun n => Json.arr #[idToJson n, orErr (nodeComponent s n)])).toArray)])
  | some "relabel" => withH j "H" fun s _ => do
      let l ← getStr? j "label_attribute"
      if (← getBool? j "in_place") then
        let r := relabel s l
        pure (HG.Drive.respond r.1 r.2)
      else pure (result (relabelNew s l))
  | some "cleanup" => withH j "H" fun s _ => do
      let a ← getBool? j "isolates"; let b ← getBool? j "singletons"; let c ← getBool? j "multiedges"
      let d ← getBool? j "connected"; let e ← getBool? j "relabel"
      if (← getBool? j "in_place") then
        pure (match guardCleanup s a b c d e with | none => unmodelled | some r => HG.Drive.respond r.1 r.2)
      else
        pure (match cleanupNew s a b c d e with | none => unmodelled | some r => result r)
  | some "sc_cleanup" => withH j "H" fun s c => do
      if c != Cls.sc then none
      let ip ← getBool? j "in_place"
      pure (resultS ip (scCleanup s (← getBool? j "isolates") (← getBool? j "connected") (← getBool? j "relabel") ip))
  | some "sc_relabel" => withH j "H" fun s c => do
      if c != Cls.sc then none
      let ip ← getBool? j "in_place"
      pure (resultS ip (scRelabel s (← getStr? j "label_attribute") ip))
  | some "dh_cleanup" => withDH j fun s => do
      let ip ← getBool? j "in_place"
      pure (resultD ip (dhCleanup s (← getBool? j "isolates") (← getBool? j "relabel") ip))
  | some "dh_relabel" => withDH j fun s => do
      let ip ← getBool? j "in_place"
      pure (resultD ip (dhRelabel s (← getStr? j "label_attribute") ip))
  | _ => badOp)
where
  /-- `H.cleanup(in_place=True)` through the public step function (a frozen network raises at the
      first disabled mutator; `HG.cleanup` handles that with `guardF`) -/
  guardCleanup (s : HG) (a b c d e : Bool) : Option (HG × Outcome) := cleanup' s a b c d e

end Xgi.C19.Drive
