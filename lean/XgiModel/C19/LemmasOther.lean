/-
  C19 helper lemmas for `SimplicialComplex.cleanup` / `DiHypergraph.cleanup` (XgiModel/C19/Other.lean):
  the removal of the isolated nodes computed in closed form on both models.
-/
import XgiModel.C19.Other
import XgiModel.C02.LemmasCopy
import XgiModel.C03.LemmasCopy

namespace Xgi.C19
open Xgi

theorem join_ok' (o : Outcome) : Outcome.join .ok o = o := by cases o <;> rfl

theorem filter_not_mem_nil (L : List PyId) : L.filter (· ∉ ([] : List PyId)) = L := by
  apply List.filter_eq_self.2; intro x _; simp

/-! ### directed: removing isolated nodes touches nothing but the node table -/

namespace D
open DHG

/-- `n` is in no tail and no head -/
def Isolated (s : DHG) (n : PyId) : Prop := s.membIn n = [] ∧ s.membOut n = []

instance (s : DHG) (n : PyId) : Decidable (Isolated s n) := by unfold Isolated; exact inferInstance

/-- the network without the nodes listed in `l` (and nothing else changed) -/
def dropNodes (s : DHG) (l : List PyId) : DHG :=
  { s with nodes := s.nodes.filter (· ∉ l), nattrK := s.nattrK.filter (· ∉ l) }

theorem removeNodeWeak_isolated (t : DHG) (n : PyId) (hi : Isolated t n) :
    removeNodeWeak t n true = { t with nodes := rm n t.nodes, nattrK := rm n t.nattrK } := by
  unfold removeNodeWeak
  simp [hi.1, hi.2]

theorem bulk_cons_ok {α : Type} (f : DHG → α → DHG × Outcome) (s s1 : DHG) (a : α) (t : List α)
    (h : f s a = (s1, .ok)) : bulk f s (a :: t) = bulk f s1 t := by
  simp only [bulk, h, join_ok']

theorem removeIsolated_spec (l : List PyId) (t : DHG) (hl : l.Nodup)
    (hi : ∀ n ∈ l, n ∈ t.nodes ∧ Isolated t n) :
    removeNodesFrom t l false true = (dropNodes t l, .ok) := by
  unfold removeNodesFrom
  induction l generalizing t with
  | nil =>
    simp only [bulk, dropNodes, filter_not_mem_nil]
  | cons n rest ih =>
    obtain ⟨hn, hm⟩ := hi n (by simp)
    have hstep : removeNodesItem false true t n = ({ t with nodes := rm n t.nodes, nattrK := rm n t.nattrK }, .ok) := by
      unfold removeNodesItem removeNode
      simp [hn, removeNodeWeak_isolated t n hm]
    rw [bulk_cons_ok _ t _ n rest hstep]
    simp only [List.nodup_cons] at hl
    rw [ih { t with nodes := rm n t.nodes, nattrK := rm n t.nattrK } hl.2 (by
      intro m hmr
      obtain ⟨h1, h2⟩ := hi m (by simp [hmr])
      refine ⟨?_, h2⟩
      simp only [mem_rm]; refine ⟨?_, h1⟩
      intro heq; subst heq; exact hl.1 hmr)]
    have key : ∀ L : List PyId, (rm n L).filter (· ∉ rest) = L.filter (· ∉ n :: rest) := by
      intro L
      simp only [rm, List.filter_filter]
      apply List.filter_congr
      intro x _; simp only [List.mem_cons, not_or, ne_eq]
      by_cases hx : x = n <;> simp [hx]
    simp only [dropNodes, key]

theorem mem_isolates (s : DHG) (n : PyId) : n ∈ DHG.isolates s ↔ n ∈ s.nodes ∧ Isolated s n := by
  unfold DHG.isolates Isolated
  simp only [List.mem_filter, Bool.and_eq_true, List.isEmpty_iff]

/-- `if not isolates: DH.remove_nodes_from(DH.nodes.isolates())` on an unfrozen well-formed network -/
theorem isolatesStep (s : DHG) (hn : s.nodes.Nodup) (hf : s.frozen = false) :
    guardF s (removeNodesFrom s (DHG.isolates s) false true) = (dropNodes s (DHG.isolates s), .ok) := by
  unfold guardF
  simp only [hf, Bool.false_eq_true, if_false]
  exact removeIsolated_spec (DHG.isolates s) s (by unfold DHG.isolates; exact hn.filter _)
    (fun n hn => (mem_isolates s n).1 hn)

end D

/-! ### simplicial: strong removal of an isolated node deletes no simplex -/

namespace S
open HG

/-- the complex without the nodes listed in `l` (and nothing else changed) -/
def dropNodes (s : HG) (l : List PyId) : HG :=
  { s with nodes := s.nodes.filter (· ∉ l), nattrK := s.nattrK.filter (· ∉ l) }

theorem removeNodeStrong_isolated (t : HG) (n : PyId) (hi : t.memb n = []) :
    removeNodeStrong t n = { t with nodes := rm n t.nodes, nattrK := rm n t.nattrK } := by
  unfold removeNodeStrong
  have : (fun m => (t.memb m).filter (fun _ => true)) = t.memb := by
    funext m; apply List.filter_eq_self.2; intro x _; rfl
  simp [hi, this]

theorem bulk_cons_ok {α : Type} (f : HG → α → HG × Outcome) (s s1 : HG) (a : α) (t : List α)
    (h : f s a = (s1, .ok)) : bulk f s (a :: t) = bulk f s1 t := by
  simp only [bulk, h, join_ok']

theorem removeIsolated_spec (l : List PyId) (t : HG) (hl : l.Nodup)
    (hi : ∀ n ∈ l, n ∈ t.nodes ∧ t.memb n = []) :
    SC.removeNodesFrom t l = (dropNodes t l, .ok) := by
  unfold SC.removeNodesFrom
  induction l generalizing t with
  | nil =>
    simp only [bulk, dropNodes, filter_not_mem_nil]
  | cons n rest ih =>
    obtain ⟨hn, hm⟩ := hi n (by simp)
    have hstep : SC.removeNodesItem t n = ({ t with nodes := rm n t.nodes, nattrK := rm n t.nattrK }, .ok) := by
      unfold SC.removeNodesItem SC.removeNode
      simp [hn, removeNodeStrong_isolated t n hm]
    rw [bulk_cons_ok _ t _ n rest hstep]
    simp only [List.nodup_cons] at hl
    rw [ih { t with nodes := rm n t.nodes, nattrK := rm n t.nattrK } hl.2 (by
      intro m hmr
      obtain ⟨h1, h2⟩ := hi m (by simp [hmr])
      refine ⟨?_, h2⟩
      simp only [mem_rm]; refine ⟨?_, h1⟩
      intro heq; subst heq; exact hl.1 hmr)]
    have key : ∀ L : List PyId, (rm n L).filter (· ∉ rest) = L.filter (· ∉ n :: rest) := by
      intro L
      simp only [rm, List.filter_filter]
      apply List.filter_congr
      intro x _; simp only [List.mem_cons, not_or, ne_eq]
      by_cases hx : x = n <;> simp [hx]
    simp only [dropNodes, key]

theorem mem_isolates (s : HG) (n : PyId) : n ∈ HG.isolates s ↔ n ∈ s.nodes ∧ s.memb n = [] := by
  unfold HG.isolates
  simp only [List.mem_filter, decide_eq_true_eq, List.length_eq_zero_iff]

/-- `if not isolates: S.remove_nodes_from(S.nodes.isolates())` on an unfrozen complex -/
theorem isolatesStep (s : HG) (hn : s.nodes.Nodup) (hf : s.frozen = false) :
    guardF s (SC.removeNodesFrom s (HG.isolates s)) = (dropNodes s (HG.isolates s), .ok) := by
  unfold guardF
  simp only [hf, Bool.false_eq_true, if_false]
  exact removeIsolated_spec (HG.isolates s) s (by unfold HG.isolates; exact hn.filter _)
    (fun n hn => (mem_isolates s n).1 hn)

end S

end Xgi.C19
