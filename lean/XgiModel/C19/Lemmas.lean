/-
  C19 helper lemmas: closed forms of the bulk additions of the `HG` model (what `add_nodes_from` and
  `add_edges_from` leave behind), used by the property theorems in Props/C19.lean.
-/
import XgiModel.Lemmas.HGWF
import XgiModel.C19.Derived
namespace Xgi.C19
open Xgi Xgi.HG

/-- attribute dicts have distinct keys -/
def AttrsOK (a : Attrs) : Prop := (a.map (·.1)).Nodup

theorem set_of_fresh (a : Attrs) (k : String) (v : Val) (h : ∀ p ∈ a, p.1 ≠ k) : Attrs.set a k v = a ++ [(k, v)] := by
  unfold Attrs.set
  have : a.any (fun p => p.1 = k) = false := by
    simp only [List.any_eq_false, decide_eq_true_eq]; exact h
  simp [this]

theorem update_append (a acc : Attrs) (hd : ∀ p ∈ a, ∀ q ∈ acc, q.1 ≠ p.1) (hn : AttrsOK a) :
    Attrs.update acc a = acc ++ a := by
  induction a generalizing acc with
  | nil => simp [Attrs.update]
  | cons p a ih =>
    unfold Attrs.update
    simp only [List.foldl_cons]
    rw [set_of_fresh acc p.1 p.2 (fun q hq => hd p (by simp) q hq)]
    have hn' : AttrsOK a := by unfold AttrsOK at hn ⊢; simp at hn; exact hn.2
    have := ih (acc ++ [(p.1, p.2)]) (by
      intro x hx q hq
      simp only [List.mem_append, List.mem_singleton] at hq
      rcases hq with hq | hq
      · exact hd x (by simp [hx]) q hq
      · subst hq; simp only []
        unfold AttrsOK at hn; simp at hn
        intro heq; exact hn.1 x.2 (by rw [heq]; exact hx)) hn'
    unfold Attrs.update at this
    rw [this]; simp

theorem update_nil {a : Attrs} (h : AttrsOK a) : Attrs.update [] a = a := by
  have := update_append a [] (by simp) h
  simpa using this

theorem dedup_fold_eq (l acc : List PyId) (h : (acc ++ l).Nodup) :
    l.foldl (fun acc x => ins x acc) acc = acc ++ l := by
  induction l generalizing acc with
  | nil => simp
  | cons a t ih =>
    simp only [List.foldl_cons]
    have ha : a ∉ acc := by
      intro hh; rw [List.nodup_append] at h; exact h.2.2 a hh a (by simp) rfl
    have : ins a acc = acc ++ [a] := by unfold ins; simp [ha]
    rw [this, ih (acc ++ [a]) (by simpa using h)]; simp

theorem dedup_of_nodup {l : List PyId} (h : l.Nodup) : dedup l = l := by
  unfold dedup; have := dedup_fold_eq l [] (by simpa using h); simpa using this


/-! ### one edge added -/

/-- `t` is `s` plus the edge `e` with member list `ms` (as a set) and attribute dict `a` -/
structure Added1 (s t : HG) (e : PyId) (ms : List PyId) (a : Attrs) : Prop where
  edges : t.edges = s.edges ++ [e]
  nodes_mem : ∀ n, n ∈ t.nodes ↔ n ∈ s.nodes ∨ n ∈ ms
  nodes_same : (∀ n ∈ ms, n ∈ s.nodes) → t.nodes = s.nodes
  mem : t.mem = upd s.mem e (dedup ms)
  eattr : t.eattr = upd s.eattr e (Attrs.update [] a)
  nattr_old : ∀ n ∈ s.nodes, t.nattr n = s.nattr n
  nattr_new : ∀ n, n ∉ s.nodes → n ∈ t.nodes → t.nattr n = []
  net : t.net = s.net
  frozen : t.frozen = s.frozen

theorem link_nodes (s : HG) (e n : PyId) : (link s e n).nodes = ins n s.nodes := by
  unfold link linkCore addNodeRaw ins; split <;> rfl

theorem link_mem (s : HG) (e n : PyId) : (link s e n).mem = upd s.mem e (ins n (s.mem e)) := by
  unfold link linkCore addNodeRaw; split <;> rfl

theorem link_rest (s : HG) (e n : PyId) :
    (link s e n).eattr = s.eattr ∧ (link s e n).net = s.net ∧ (link s e n).frozen = s.frozen ∧
    (link s e n).edges = s.edges := by
  unfold link linkCore addNodeRaw; split <;> simp

theorem link_nattr (s : HG) (e n : PyId) :
    (∀ m ∈ s.nodes, (link s e n).nattr m = s.nattr m) ∧ (n ∉ s.nodes → (link s e n).nattr n = []) := by
  unfold link linkCore addNodeRaw; split
  · simp_all
  · constructor
    · intro m hm; simp only [upd_apply]; split
      · rename_i h; subst h; contradiction
      · rfl
    · intro _; simp

/-- the loop `for n in members: link` -/
def linkAll (s : HG) (e : PyId) (ms : List PyId) : HG := ms.foldl (fun s n => link s e n) s

theorem linkAll_cons (s : HG) (e m : PyId) (ms : List PyId) :
    linkAll s e (m :: ms) = linkAll (link s e m) e ms := rfl

theorem foldl_link_fields (ms : List PyId) (s : HG) (e : PyId) :
    (linkAll s e ms).nodes = ms.foldl (fun acc n => ins n acc) s.nodes ∧
    (linkAll s e ms).mem = upd s.mem e (ms.foldl (fun acc n => ins n acc) (s.mem e)) ∧
    (linkAll s e ms).eattr = s.eattr ∧ (linkAll s e ms).net = s.net ∧ (linkAll s e ms).frozen = s.frozen ∧
    (linkAll s e ms).edges = s.edges ∧
    (∀ m ∈ s.nodes, (linkAll s e ms).nattr m = s.nattr m) ∧
    (∀ m, m ∉ s.nodes → m ∈ (linkAll s e ms).nodes → (linkAll s e ms).nattr m = []) := by
  induction ms generalizing s with
  | nil =>
    refine ⟨rfl, ?_, rfl, rfl, rfl, rfl, fun _ _ => rfl, fun m h1 h2 => absurd h2 h1⟩
    funext j; by_cases hj : j = e <;> simp [linkAll, upd, hj]
  | cons m ms ih =>
    rw [linkAll_cons]
    obtain ⟨h1, h2, h3, h4, h5, h6, h7, h8⟩ := ih (link s e m)
    have r := link_rest s e m
    have na := link_nattr s e m
    refine ⟨by rw [h1, link_nodes]; rfl, ?_, by rw [h3, r.1], by rw [h4, r.2.1], by rw [h5, r.2.2.1], by rw [h6, r.2.2.2], ?_, ?_⟩
    · rw [h2, link_mem]; funext j; by_cases hj : j = e <;> simp [upd, hj]
    · intro x hx
      rw [h7 x (by rw [link_nodes]; simp [hx])]; exact na.1 x hx
    · intro x hx hxt
      by_cases hxm : x = m
      · subst hxm
        rw [h7 x (by rw [link_nodes]; simp)]; exact na.2 hx
      · exact h8 x (by rw [link_nodes]; simp [hx, hxm]) hxt

theorem foldl_ins_same (ms acc : List PyId) (h : ∀ n ∈ ms, n ∈ acc) :
    ms.foldl (fun acc n => ins n acc) acc = acc := by
  induction ms generalizing acc with
  | nil => rfl
  | cons m ms ih =>
    simp only [List.foldl_cons]
    have : ins m acc = acc := by unfold ins; simp [h m (by simp)]
    rw [this]; exact ih acc (fun n hn => h n (by simp [hn]))

theorem addEdgeAt_added1 (s : HG) (e : PyId) (ms : List PyId) (a : Attrs) :
    Added1 s (addEdgeAt s e ms a) e ms a := by
  have h := foldl_link_fields ms (updEdgeAttr (newEdgeAttr (newEdgeRaw s e) e) e a) e
  have hd : addEdgeAt s e ms a = linkAll (updEdgeAttr (newEdgeAttr (newEdgeRaw s e) e) e a) e ms := rfl
  rw [← hd] at h
  obtain ⟨h1, h2, h3, h4, h5, h6, h7, h8⟩ := h
  generalize addEdgeAt s e ms a = t at *
  simp only [updEdgeAttr, newEdgeAttr, newEdgeRaw] at h1 h2 h3 h4 h5 h6 h7 h8
  constructor
  · exact h6
  · intro n; rw [h1, foldl_ins_mem]
  · intro hs; rw [h1]; exact foldl_ins_same ms s.nodes hs
  · rw [h2]; funext j; by_cases hj : j = e <;> simp [upd, dedup, hj]
  · rw [h3]; funext j; by_cases hj : j = e <;> simp [upd, hj]
  · exact h7
  · exact h8
  · exact h4
  · exact h5

/-! ### many edges added -/

/-- (edge id, member list handed to `addEdgeAt`, attribute dict handed to `addEdgeAt`) -/
abbrev Item := PyId × List PyId × Attrs

/-- `t` is `s` plus the listed edges, in this order -/
structure AddedMany (s t : HG) (items : List Item) : Prop where
  edges : t.edges = s.edges ++ items.map (·.1)
  nodes_mem : ∀ n, n ∈ t.nodes ↔ n ∈ s.nodes ∨ ∃ it ∈ items, n ∈ it.2.1
  nodes_same : (∀ it ∈ items, ∀ n ∈ it.2.1, n ∈ s.nodes) → t.nodes = s.nodes
  mem_new : ∀ it ∈ items, t.mem it.1 = dedup it.2.1
  mem_old : ∀ e, e ∉ items.map (·.1) → t.mem e = s.mem e
  eattr_new : ∀ it ∈ items, t.eattr it.1 = Attrs.update [] it.2.2
  eattr_old : ∀ e, e ∉ items.map (·.1) → t.eattr e = s.eattr e
  nattr_old : ∀ n ∈ s.nodes, t.nattr n = s.nattr n
  nattr_new : ∀ n, n ∉ s.nodes → n ∈ t.nodes → t.nattr n = []
  net : t.net = s.net
  frozen : t.frozen = s.frozen

theorem AddedMany.nil (s : HG) : AddedMany s s [] := by
  constructor <;> intros <;> simp_all

theorem AddedMany.cons {s t u : HG} {e : PyId} {ms : List PyId} {a : Attrs} {rest : List Item}
    (h1 : Added1 s t e ms a) (h2 : AddedMany t u rest) (hne : e ∉ rest.map (·.1)) :
    AddedMany s u ((e, ms, a) :: rest) := by
  obtain ⟨a1, a2, a3, a4, a5, a6, a7, a8, a9⟩ := h1
  obtain ⟨b1, b2, b3, b4, b5, b6, b7, b8, b9, b10, b11⟩ := h2
  constructor
  · rw [b1, a1]; simp
  · intro n; rw [b2, a2]; simp only [List.mem_cons, exists_eq_or_imp]; grind
  · intro hs
    have ht : t.nodes = s.nodes := a3 (fun n hn => hs (e, ms, a) (by simp) n hn)
    rw [b3 (fun it hit n hn => by rw [ht]; exact hs it (by simp [hit]) n hn), ht]
  · intro it hit
    simp only [List.mem_cons] at hit
    rcases hit with hit | hit
    · subst hit; simp only []; rw [b5 e hne, a4]; simp
    · exact b4 it hit
  · intro e' he'
    simp only [List.map_cons, List.mem_cons, not_or] at he'
    rw [b5 e' he'.2, a4]; simp [he'.1]
  · intro it hit
    simp only [List.mem_cons] at hit
    rcases hit with hit | hit
    · subst hit; simp only []; rw [b7 e hne, a5]; simp
    · exact b6 it hit
  · intro e' he'
    simp only [List.map_cons, List.mem_cons, not_or] at he'
    rw [b7 e' he'.2, a5]; simp [he'.1]
  · intro n hn; rw [b8 n ((a2 n).2 (Or.inl hn)), a6 n hn]
  · intro n hn hnu
    by_cases hnt : n ∈ t.nodes
    · rw [b8 n hnt]; exact a7 n hn hnt
    · exact b9 n hnt hnu
  · rw [b10, a8]
  · rw [b11, a9]

theorem join_ok (o : Outcome) : Outcome.join .ok o = o := by cases o <;> rfl

theorem bulk_cons_ok {α : Type} (f : HG → α → HG × Outcome) (s s1 : HG) (a : α) (t : List α)
    (h : f s a = (s1, .ok)) : bulk f s (a :: t) = bulk f s1 t := by
  simp only [bulk, h, join_ok]

theorem bumpUid_fields (t : HG) (i : PyId) :
    (bumpUid t i).nodes = t.nodes ∧ (bumpUid t i).edges = t.edges ∧ (bumpUid t i).mem = t.mem ∧
    (bumpUid t i).eattr = t.eattr ∧ (bumpUid t i).nattr = t.nattr ∧ (bumpUid t i).net = t.net ∧
    (bumpUid t i).frozen = t.frozen ∧ (bumpUid t i).memb = t.memb := by
  unfold bumpUid; split
  · split <;> simp
  · simp

theorem Added1.congr {s t t' : HG} {e : PyId} {ms : List PyId} {a : Attrs} (h : Added1 s t e ms a)
    (hc : t'.nodes = t.nodes ∧ t'.edges = t.edges ∧ t'.mem = t.mem ∧ t'.eattr = t.eattr ∧ t'.nattr = t.nattr ∧
      t'.net = t.net ∧ t'.frozen = t.frozen) : Added1 s t' e ms a := by
  obtain ⟨c1, c2, c3, c4, c5, c6, c7⟩ := hc
  obtain ⟨a1, a2, a3, a4, a5, a6, a7, a8, a9⟩ := h
  constructor
  · rw [c2]; exact a1
  · rw [c1]; exact a2
  · rw [c1]; exact a3
  · rw [c3]; exact a4
  · rw [c4]; exact a5
  · rw [c5]; exact a6
  · rw [c1, c5]; exact a7
  · rw [c6]; exact a8
  · rw [c7]; exact a9

/-- the items `add_edges_from` (format 4, no common attributes) hands to `addEdgeAt` -/
def f4Items (items : List EdgeItem) : List Item :=
  items.map (fun it => (it.idx.getD .none, dedup it.members, Attrs.update [] it.attr))

theorem addEdgesItem_f4 (s : HG) (it : EdgeItem) (hne : it.idx.getD .none ≠ .none)
    (hfresh : it.idx.getD .none ∉ s.edges) (hms : PyId.none ∉ it.members) :
    addEdgesItem .f4 [] s it =
      (bumpUid (addEdgeAt s (it.idx.getD .none) (dedup it.members) (Attrs.update [] it.attr)) (it.idx.getD .none), .ok) := by
  unfold addEdgesItem
  simp [Fmt.explicit, hfresh, hms, hne]

theorem bulk_f4 (items : List EdgeItem) (s : HG)
    (hid : (items.map (fun it => it.idx.getD .none)).Nodup)
    (hok : ∀ it ∈ items, it.idx.getD .none ≠ .none ∧ it.idx.getD .none ∉ s.edges ∧ PyId.none ∉ it.members) :
    (bulk (addEdgesItem .f4 []) s items).2 = .ok ∧
    AddedMany s (bulk (addEdgesItem .f4 []) s items).1 (f4Items items) := by
  induction items generalizing s with
  | nil => exact ⟨rfl, AddedMany.nil s⟩
  | cons it rest ih =>
    obtain ⟨h1, h2, h3⟩ := hok it (by simp)
    have hstep := addEdgesItem_f4 s it h1 h2 h3
    rw [bulk_cons_ok _ s _ it rest hstep]
    have hA := (addEdgeAt_added1 s (it.idx.getD .none) (dedup it.members) (Attrs.update [] it.attr)).congr
      (t' := bumpUid (addEdgeAt s (it.idx.getD .none) (dedup it.members) (Attrs.update [] it.attr)) (it.idx.getD .none))
      (by have := bumpUid_fields (addEdgeAt s (it.idx.getD .none) (dedup it.members) (Attrs.update [] it.attr)) (it.idx.getD .none); grind)
    generalize bumpUid (addEdgeAt s (it.idx.getD .none) (dedup it.members) (Attrs.update [] it.attr)) (it.idx.getD .none) = s1 at *
    simp only [List.map_cons, List.nodup_cons] at hid
    have hrest := ih s1 hid.2 (by
      intro it' hit'
      obtain ⟨g1, g2, g3⟩ := hok it' (by simp [hit'])
      refine ⟨g1, ?_, g3⟩
      rw [hA.edges]; simp only [List.mem_append, List.mem_singleton, not_or]
      refine ⟨g2, ?_⟩
      intro heq; apply hid.1; rw [← heq]; exact List.mem_map_of_mem (f := fun it => it.idx.getD .none) hit')
    refine ⟨hrest.1, ?_⟩
    have : f4Items (it :: rest) = (it.idx.getD .none, dedup it.members, Attrs.update [] it.attr) :: f4Items rest := rfl
    rw [this]
    exact AddedMany.cons hA hrest.2 (by
      simp only [f4Items, List.map_map]; exact hid.1)

theorem addEdgesFrom_f4 (s : HG) (items : List EdgeItem) :
    addEdgesFrom s .f4 items [] = bulk (addEdgesItem .f4 []) s items := by
  unfold addEdgesFrom; rfl

/-! ### nodes added -/

/-- (node id, the dict `add_nodes_from` hands to `_node_attr[n].update`) -/
abbrev NItem := PyId × Attrs

structure Node1 (s t : HG) (n : PyId) (nd : Attrs) : Prop where
  nodes : t.nodes = ins n s.nodes
  edges : t.edges = s.edges
  mem : t.mem = s.mem
  eattr : t.eattr = s.eattr
  net : t.net = s.net
  frozen : t.frozen = s.frozen
  uid : t.uid = s.uid
  nattr_new : t.nattr n = Attrs.update (if n ∈ s.nodes then s.nattr n else []) nd
  nattr_old : ∀ m, m ≠ n → t.nattr m = s.nattr m

structure NodesAdded (s t : HG) (items : List NItem) : Prop where
  nodes : t.nodes = items.foldl (fun acc it => ins it.1 acc) s.nodes
  edges : t.edges = s.edges
  mem : t.mem = s.mem
  eattr : t.eattr = s.eattr
  net : t.net = s.net
  frozen : t.frozen = s.frozen
  uid : t.uid = s.uid
  nattr_new : ∀ it ∈ items, t.nattr it.1 = Attrs.update (if it.1 ∈ s.nodes then s.nattr it.1 else []) it.2
  nattr_old : ∀ m, m ∉ items.map (·.1) → t.nattr m = s.nattr m

theorem NodesAdded.nil (s : HG) : NodesAdded s s [] := by
  constructor <;> intros <;> simp_all

theorem NodesAdded.cons {s t u : HG} {n : PyId} {nd : Attrs} {rest : List NItem}
    (h1 : Node1 s t n nd) (h2 : NodesAdded t u rest) (hne : n ∉ rest.map (·.1)) :
    NodesAdded s u ((n, nd) :: rest) := by
  obtain ⟨a1, a2, a3, a4, a5, a6, a7, a8, a9⟩ := h1
  obtain ⟨b1, b2, b3, b4, b5, b6, b7, b8, b9⟩ := h2
  constructor
  · rw [b1, a1]; rfl
  · rw [b2, a2]
  · rw [b3, a3]
  · rw [b4, a4]
  · rw [b5, a5]
  · rw [b6, a6]
  · rw [b7, a7]
  · intro it hit
    simp only [List.mem_cons] at hit
    rcases hit with hit | hit
    · subst hit; simp only []; rw [b9 n hne, a8]
    · have hne' : it.1 ≠ n := by
        intro heq; apply hne; rw [← heq]; exact List.mem_map_of_mem (f := fun (x : NItem) => x.1) hit
      rw [b8 it hit, a1, a9 it.1 hne']
      simp [hne']
  · intro m hm
    simp only [List.map_cons, List.mem_cons, not_or] at hm
    rw [b9 m hm.2, a9 m hm.1]

theorem update_empty (a : Attrs) : Attrs.update a [] = a := rfl

theorem addNodesItem_node1 (s : HG) (n : PyId) (od : Option Attrs) (hn : n ≠ .none) :
    (addNodesItem [] s (n, od)).2 = .ok ∧
    Node1 s (addNodesItem [] s (n, od)).1 n (match od with | none => [] | some d => Attrs.update [] d) := by
  unfold addNodesItem
  simp only [hn, false_and, if_false]
  refine ⟨trivial, ?_⟩
  unfold updNodeAttr addNodeRaw
  by_cases hmem : n ∈ s.nodes
  · simp only [hmem, if_true]
    constructor <;> try rfl
    · unfold ins; simp [hmem]
    · cases od <;> simp [hmem]
    · intro m hm; simp [hm]
  · simp only [hmem, if_false]
    constructor <;> try rfl
    · unfold ins; simp [hmem]
    · cases od <;> simp [hmem]
    · intro m hm; simp [hm]

/-- the dicts `add_nodes_from` uses for a list of items (no common attributes) -/
def nItems (items : List (PyId × Option Attrs)) : List NItem :=
  items.map (fun it => (it.1, match it.2 with | none => [] | some d => Attrs.update [] d))

theorem addNodesFrom_spec (items : List (PyId × Option Attrs)) (s : HG)
    (hid : (items.map (·.1)).Nodup) (hok : ∀ it ∈ items, it.1 ≠ PyId.none) :
    (addNodesFrom s items []).2 = .ok ∧ NodesAdded s (addNodesFrom s items []).1 (nItems items) := by
  unfold addNodesFrom
  induction items generalizing s with
  | nil => exact ⟨rfl, NodesAdded.nil s⟩
  | cons it rest ih =>
    obtain ⟨n, od⟩ := it
    have hstep := addNodesItem_node1 s n od (hok (n, od) (by simp))
    have hs : addNodesItem [] s (n, od) = ((addNodesItem [] s (n, od)).1, .ok) := by
      rw [← hstep.1]
    rw [bulk_cons_ok _ s _ (n, od) rest hs]
    simp only [List.map_cons, List.nodup_cons] at hid
    have hrest := ih (addNodesItem [] s (n, od)).1 hid.2 (fun it hit => hok it (by simp [hit]))
    refine ⟨hrest.1, ?_⟩
    exact NodesAdded.cons hstep.2 hrest.2 (by simpa [nItems, List.map_map] using hid.1)

/-! ### format-4 additions of a family of edges -/

/-- the `(members, id, attr)` triples of a generator expression over `l` -/
def mkItems {α : Type} (l : List α) (fi : α → PyId) (fm : α → List PyId) (fa : α → Attrs) : List EdgeItem :=
  l.map (fun x => { members := fm x, idx := some (fi x), attr := fa x })

/-- what `add_edges_from(((fm x), fi x, fa x) for x in l)` leaves behind -/
structure ItemsAdded {α : Type} (t r : HG) (l : List α) (fi : α → PyId) (fm : α → List PyId) (fa : α → Attrs) : Prop where
  edges : r.edges = t.edges ++ l.map fi
  nodes_mem : ∀ n, n ∈ r.nodes ↔ n ∈ t.nodes ∨ ∃ x ∈ l, n ∈ fm x
  nodes_same : (∀ x ∈ l, ∀ n ∈ fm x, n ∈ t.nodes) → r.nodes = t.nodes
  mem_new : ∀ x ∈ l, r.mem (fi x) = dedup (fm x)
  mem_old : ∀ e, e ∉ l.map fi → r.mem e = t.mem e
  eattr_new : ∀ x ∈ l, r.eattr (fi x) = Attrs.update [] (Attrs.update [] (fa x))
  eattr_old : ∀ e, e ∉ l.map fi → r.eattr e = t.eattr e
  nattr_old : ∀ n ∈ t.nodes, r.nattr n = t.nattr n
  nattr_new : ∀ n, n ∉ t.nodes → n ∈ r.nodes → r.nattr n = []
  net : r.net = t.net
  frozen : r.frozen = t.frozen

theorem addItems_spec {α : Type} (l : List α) (fi : α → PyId) (fm : α → List PyId) (fa : α → Attrs) (t : HG)
    (hinj : (l.map fi).Nodup) (hok : ∀ x ∈ l, fi x ≠ PyId.none ∧ fi x ∉ t.edges ∧ PyId.none ∉ fm x) :
    (addEdgesFrom t .f4 (mkItems l fi fm fa) []).2 = .ok ∧
    ItemsAdded t (addEdgesFrom t .f4 (mkItems l fi fm fa) []).1 l fi fm fa := by
  rw [addEdgesFrom_f4]
  have hb := bulk_f4 (mkItems l fi fm fa) t (by
      have : (mkItems l fi fm fa).map (fun it => it.idx.getD .none) = l.map fi := by
        simp [mkItems, List.map_map, Function.comp_def]
      rw [this]; exact hinj) (by
    intro it hit
    simp only [mkItems, List.mem_map] at hit
    obtain ⟨x, hx, rfl⟩ := hit
    simpa using hok x hx)
  refine ⟨hb.1, ?_⟩
  obtain ⟨b1, b2, b3, b4, b5, b6, b7, b8, b9, b10, b11⟩ := hb.2
  generalize (bulk (addEdgesItem .f4 []) t (mkItems l fi fm fa)).1 = r at *
  have hids : (f4Items (mkItems l fi fm fa)).map (·.1) = l.map fi := by
    simp [f4Items, mkItems, List.map_map, Function.comp_def]
  have hmem : ∀ x ∈ l, (fi x, dedup (fm x), Attrs.update [] (fa x)) ∈ f4Items (mkItems l fi fm fa) := by
    intro x hx
    simp only [f4Items, mkItems, List.map_map, List.mem_map]
    exact ⟨x, hx, rfl⟩
  constructor
  · rw [b1, hids]
  · intro n; rw [b2]
    simp only [f4Items, mkItems, List.map_map, List.mem_map, Function.comp]
    constructor
    · rintro (h | ⟨it, ⟨x, hx, rfl⟩, hn⟩)
      · exact Or.inl h
      · exact Or.inr ⟨x, hx, by simpa using hn⟩
    · rintro (h | ⟨x, hx, hn⟩)
      · exact Or.inl h
      · exact Or.inr ⟨_, ⟨x, hx, rfl⟩, by simpa using hn⟩
  · intro hs; apply b3
    intro it hit n hn
    simp only [f4Items, mkItems, List.map_map, List.mem_map, Function.comp] at hit
    obtain ⟨x, hx, rfl⟩ := hit
    exact hs x hx n (by simpa using hn)
  · intro x hx
    have := b4 _ (hmem x hx)
    simp only [] at this
    rw [this, dedup_of_nodup (nodup_dedup _)]
  · intro e he; exact b5 e (by rw [hids]; exact he)
  · intro x hx; exact b6 _ (hmem x hx)
  · intro e he; exact b7 e (by rw [hids]; exact he)
  · exact b8
  · exact b9
  · exact b10
  · exact b11

/-! ### `add_nodes_from` over a family -/

structure NodesOf {α : Type} (t r : HG) (l : List α) (fi : α → PyId) (fd : α → Attrs) : Prop where
  nodes : r.nodes = (l.map fi).foldl (fun acc x => ins x acc) t.nodes
  edges : r.edges = t.edges
  mem : r.mem = t.mem
  eattr : r.eattr = t.eattr
  net : r.net = t.net
  frozen : r.frozen = t.frozen
  uid : r.uid = t.uid
  nattr_new : ∀ x ∈ l, r.nattr (fi x) = Attrs.update (if fi x ∈ t.nodes then t.nattr (fi x) else []) (fd x)
  nattr_old : ∀ m, m ∉ l.map fi → r.nattr m = t.nattr m

theorem nodesOf_of_added {α : Type} {t r : HG} (l : List α) (fi : α → PyId) (fd : α → Attrs)
    (h : NodesAdded t r (l.map (fun x => (fi x, fd x)))) : NodesOf t r l fi fd := by
  obtain ⟨b1, b2, b3, b4, b5, b6, b7, b8, b9⟩ := h
  have hids : (l.map (fun x => ((fi x, fd x) : NItem))).map (·.1) = l.map fi := by
    simp [List.map_map, Function.comp_def]
  constructor
  · rw [b1, List.foldl_map, List.foldl_map]
  · exact b2
  · exact b3
  · exact b4
  · exact b5
  · exact b6
  · exact b7
  · intro x hx
    exact b8 (fi x, fd x) (List.mem_map.2 ⟨x, hx, rfl⟩)
  · intro m hm; exact b9 m (by rw [hids]; exact hm)

theorem addPairs_spec {α : Type} (l : List α) (fi : α → PyId) (fa : α → Attrs) (t : HG)
    (hinj : (l.map fi).Nodup) (hok : ∀ x ∈ l, fi x ≠ PyId.none) :
    (addNodesFrom t (l.map (fun x => (fi x, some (fa x)))) []).2 = .ok ∧
    NodesOf t (addNodesFrom t (l.map (fun x => (fi x, some (fa x)))) []).1 l fi (fun x => Attrs.update [] (fa x)) := by
  have h := addNodesFrom_spec (l.map (fun x => (fi x, some (fa x)))) t
    (by simpa [List.map_map, Function.comp_def] using hinj)
    (by intro it hit; simp only [List.mem_map] at hit; obtain ⟨x, hx, rfl⟩ := hit; exact hok x hx)
  refine ⟨h.1, nodesOf_of_added l fi _ ?_⟩
  have : nItems (l.map (fun x => (fi x, some (fa x)))) = l.map (fun x => (fi x, Attrs.update [] (fa x))) := by
    simp [nItems, List.map_map, Function.comp_def]
  rw [← this]; exact h.2

theorem addBare_spec (l : List PyId) (t : HG) (hinj : l.Nodup) (hok : PyId.none ∉ l) :
    (addNodesFrom t (nodeBare l) []).2 = .ok ∧
    NodesOf t (addNodesFrom t (nodeBare l) []).1 l id (fun _ => []) := by
  have h := addNodesFrom_spec (nodeBare l) t
    (by simpa [nodeBare, List.map_map, Function.comp_def] using hinj)
    (by intro it hit; simp only [nodeBare, List.mem_map] at hit; obtain ⟨x, hx, rfl⟩ := hit
        intro hh; simp only [] at hh; apply hok; rw [← hh]; exact hx)
  refine ⟨h.1, nodesOf_of_added l id _ ?_⟩
  have : nItems (nodeBare l) = l.map (fun x => (id x, ([] : Attrs))) := by
    simp [nItems, nodeBare, List.map_map, Function.comp_def]
  rw [← this]; exact h.2

theorem foldl_ins_nil_of_nodup {l : List PyId} (h : l.Nodup) : l.foldl (fun acc x => ins x acc) [] = l :=
  dedup_of_nodup h

theorem andThen_ok (t : HG) (f : HG → HG × Outcome) : andThen (t, .ok) f = f t := by
  unfold andThen; simp [Outcome.isErr, join_ok]

theorem andThen_of_ok (r : HG × Outcome) (f : HG → HG × Outcome) (h : r.2 = .ok) : andThen r f = f r.1 := by
  obtain ⟨t, o⟩ := r; simp only [] at h; subst h; exact andThen_ok t f

/-! ### networks as the public views show them -/

/-- every attribute dict has distinct keys (true of every Python dict) -/
structure AttrWF (s : HG) : Prop where
  nattr : ∀ n ∈ s.nodes, AttrsOK (s.nattr n)
  eattr : ∀ e ∈ s.edges, AttrsOK (s.eattr e)
  net : AttrsOK s.net

/-- `t` shows the same nodes, edges, members and attributes as `s`, in the same order -/
structure SameNet (s t : HG) : Prop where
  nodes : t.nodes = s.nodes
  edges : t.edges = s.edges
  mem : ∀ e ∈ s.edges, t.mem e = s.mem e
  nattr : ∀ n ∈ s.nodes, t.nattr n = s.nattr n
  eattr : ∀ e ∈ s.edges, t.eattr e = s.eattr e
  net : t.net = s.net

theorem SameNet.attrWF {s t : HG} (h : SameNet s t) (ha : AttrWF s) : AttrWF t := by
  obtain ⟨h1, h2, h3, h4, h5, h6⟩ := h
  constructor
  · intro n hn; rw [h1] at hn; rw [h4 n hn]; exact ha.nattr n hn
  · intro e he; rw [h2] at he; rw [h5 e he]; exact ha.eattr e he
  · rw [h6]; exact ha.net

theorem wf_with {t : HG} (h : WF t) (net : Attrs) (uid : Nat) (fr : Bool) :
    WF { t with net := net, uid := uid, frozen := fr } := by
  obtain ⟨h1, h2, h3, h4, h5, h6, h7, h8, h9, h10, h11, h12⟩ := h
  constructor <;> simp only [] <;> assumption

theorem emptyWithNet_inv (net : Attrs) : Inv (emptyWithNet net) :=
  ⟨wf_with empty_wf net 0 false, by intro k hk; simp [emptyWithNet, HG.empty] at hk⟩

theorem wf_none_not_mem {s : HG} (h : WF s) {e : PyId} (he : e ∈ s.edges) : PyId.none ∉ s.mem e := by
  intro hn; exact h.noNoneN ((h.e2n e he _ hn).1)

theorem wf_none_not_memb {s : HG} (h : WF s) {n : PyId} (hn : n ∈ s.nodes) : PyId.none ∉ s.memb n := by
  intro hh; exact h.noNoneE ((h.n2e n hn _ hh).1)

theorem ne_none_of_mem {l : List PyId} (h : PyId.none ∉ l) {x : PyId} (hx : x ∈ l) : x ≠ PyId.none := by
  intro hh; subst hh; exact h hx

/-- `Hypergraph.copy`: an equal, unfrozen network with the same counter -/
theorem copy_fields {s : HG} (h : WF s) (ha : AttrWF s) :
    (copy s).2 = .ok ∧ SameNet s (copy s).1 ∧ (copy s).1.frozen = false ∧ (copy s).1.uid = s.uid ∧ WF (copy s).1 := by
  unfold copy
  have hn := addPairs_spec s.nodes id s.nattr HG.empty (by simpa using h.nodupN)
    (fun x hx => ne_none_of_mem h.noNoneN hx)
  have hn' : nodePairs s s.nodes = s.nodes.map (fun x => (id x, some (s.nattr x))) := rfl
  rw [hn']
  have hi1 : Inv (addNodesFrom HG.empty (s.nodes.map (fun x => (id x, some (s.nattr x)))) []).1 :=
    addNodesFrom_inv empty_inv _ _
  obtain ⟨hn1, hn2⟩ := hn
  generalize addNodesFrom HG.empty (s.nodes.map (fun x => (id x, some (s.nattr x)))) [] = r1 at *
  simp only []
  rw [andThen_of_ok r1 _ hn1]
  have hnodes : r1.1.nodes = s.nodes := by
    rw [hn2.nodes]; simp only [List.map_id_fun, id_eq, HG.empty]; exact foldl_ins_nil_of_nodup h.nodupN
  have he := addItems_spec s.edges id s.mem s.eattr r1.1 (by simpa using h.nodupE) (by
    intro e he
    refine ⟨ne_none_of_mem h.noNoneE he, ?_, wf_none_not_mem h he⟩
    rw [hn2.edges]; simp [HG.empty])
  have he' : edgeTriples s s.edges = mkItems s.edges id s.mem s.eattr := rfl
  rw [he']
  have hi2 : Inv (addEdgesFrom r1.1 .f4 (mkItems s.edges id s.mem s.eattr) []).1 := addEdgesFrom_inv hi1 _ _ _
  obtain ⟨he1, he2⟩ := he
  generalize addEdgesFrom r1.1 .f4 (mkItems s.edges id s.mem s.eattr) [] = r2 at *
  refine ⟨he1, ?_, ?_, by first | rfl | trivial, wf_with hi2.1 _ _ _⟩
  · constructor
    · show r2.1.nodes = s.nodes
      rw [he2.nodes_same (fun e he n hn => by rw [hnodes]; exact (h.e2n e he n hn).1), hnodes]
    · show r2.1.edges = s.edges
      rw [he2.edges, hn2.edges]; simp [HG.empty]
    · intro e he; show r2.1.mem e = s.mem e
      have := he2.mem_new e he; simp only [id_eq] at this
      rw [this, dedup_of_nodup (h.setE e he)]
    · intro n hn; show r2.1.nattr n = s.nattr n
      rw [he2.nattr_old n (by rw [hnodes]; exact hn)]
      have := hn2.nattr_new n hn; simp only [id_eq] at this
      rw [this]; simp only [HG.empty, List.not_mem_nil, if_false]
      rw [update_nil (ha.nattr n hn), update_nil (ha.nattr n hn)]
    · intro e he; show r2.1.eattr e = s.eattr e
      have := he2.eattr_new e he; simp only [id_eq] at this
      rw [this, update_nil (ha.eattr e he), update_nil (ha.eattr e he)]
    · rfl
  · show r2.1.frozen = false
    rw [he2.frozen, hn2.frozen]; rfl

/-! ### removing isolated nodes -/

theorem removeNodeWeak_isolated (t : HG) (n : PyId) (hi : t.memb n = []) :
    removeNodeWeak t n true = { t with nodes := rm n t.nodes, nattrK := rm n t.nattrK } := by
  unfold removeNodeWeak
  simp [hi]

theorem removeIsolated_spec (l : List PyId) (t : HG) (hl : l.Nodup)
    (hi : ∀ n ∈ l, n ∈ t.nodes ∧ t.memb n = []) :
    (removeNodesFrom t l false true).2 = .ok ∧
    (removeNodesFrom t l false true).1.nodes = t.nodes.filter (· ∉ l) ∧
    (removeNodesFrom t l false true).1.edges = t.edges ∧ (removeNodesFrom t l false true).1.mem = t.mem ∧
    (removeNodesFrom t l false true).1.memb = t.memb ∧ (removeNodesFrom t l false true).1.eattr = t.eattr ∧
    (removeNodesFrom t l false true).1.nattr = t.nattr ∧ (removeNodesFrom t l false true).1.net = t.net ∧
    (removeNodesFrom t l false true).1.frozen = t.frozen ∧ (removeNodesFrom t l false true).1.uid = t.uid := by
  unfold removeNodesFrom
  induction l generalizing t with
  | nil =>
    simp [bulk]
    exact (List.filter_eq_self.2 (fun _ _ => rfl)).symm
  | cons n rest ih =>
    obtain ⟨hn, hm⟩ := hi n (by simp)
    have hstep : removeNodesItem false true t n = ({ t with nodes := rm n t.nodes, nattrK := rm n t.nattrK }, .ok) := by
      unfold removeNodesItem removeNode
      simp [hn, removeNodeWeak_isolated t n hm]
    rw [bulk_cons_ok _ t _ n rest hstep]
    simp only [List.nodup_cons] at hl
    have := ih { t with nodes := rm n t.nodes, nattrK := rm n t.nattrK } hl.2 (by
      intro m hmr
      obtain ⟨h1, h2⟩ := hi m (by simp [hmr])
      refine ⟨?_, h2⟩
      simp only [mem_rm]; refine ⟨?_, h1⟩
      intro heq; subst heq; exact hl.1 hmr)
    obtain ⟨g1, g2, g3, g4, g5, g6, g7, g8, g9, g10⟩ := this
    refine ⟨g1, ?_, g3, g4, g5, g6, g7, g8, g9, g10⟩
    rw [g2]; simp only [rm, List.filter_filter]
    apply List.filter_congr
    intro x _; simp only [List.mem_cons, not_or, ne_eq]
    by_cases hx : x = n <;> simp [hx]

/-! ### subhypergraph: the state after the two additions -/

/-- the edges `subhypergraph` keeps -/
def keptEdge (s : HG) (nodesArg edgesArg : Option (List PyId)) (e : PyId) : Bool :=
  selected edgesArg s.edges e && (s.mem e).all (selected nodesArg s.nodes)

structure SubStage (s r : HG) (nodesArg edgesArg : Option (List PyId)) : Prop where
  nodes : r.nodes = s.nodes.filter (selected nodesArg s.nodes)
  edges : r.edges = s.edges.filter (keptEdge s nodesArg edgesArg)
  mem : ∀ e ∈ r.edges, r.mem e = s.mem e
  nattr : ∀ n ∈ r.nodes, r.nattr n = s.nattr n
  eattr : ∀ e ∈ r.edges, r.eattr e = s.eattr e
  net : r.net = s.net
  frozen : r.frozen = false
  inv : Inv r

theorem subStage_spec {s : HG} (h : WF s) (ha : AttrWF s) (nodesArg edgesArg : Option (List PyId)) :
    (subStage s nodesArg edgesArg).2 = .ok ∧ SubStage s (subStage s nodesArg edgesArg).1 nodesArg edgesArg := by
  unfold subStage
  simp only []
  have hNn : (s.nodes.filter (selected nodesArg s.nodes)).Nodup := nodup_filter _ h.nodupN
  have hEn : (s.edges.filter (keptEdge s nodesArg edgesArg)).Nodup := nodup_filter _ h.nodupE
  have hn := addPairs_spec (s.nodes.filter (selected nodesArg s.nodes)) id s.nattr (emptyWithNet s.net)
    (by simpa using hNn) (fun x hx => ne_none_of_mem h.noNoneN (List.mem_filter.1 hx).1)
  have hn' : nodePairs s (s.nodes.filter (selected nodesArg s.nodes)) =
      (s.nodes.filter (selected nodesArg s.nodes)).map (fun x => (id x, some (s.nattr x))) := rfl
  rw [hn']
  have hi1 : Inv (addNodesFrom (emptyWithNet s.net)
      ((s.nodes.filter (selected nodesArg s.nodes)).map (fun x => (id x, some (s.nattr x)))) []).1 :=
    addNodesFrom_inv (emptyWithNet_inv _) _ _
  obtain ⟨hn1, hn2⟩ := hn
  generalize addNodesFrom (emptyWithNet s.net)
      ((s.nodes.filter (selected nodesArg s.nodes)).map (fun x => (id x, some (s.nattr x)))) [] = r1 at *
  rw [andThen_of_ok r1 _ hn1]
  have hnodes : r1.1.nodes = s.nodes.filter (selected nodesArg s.nodes) := by
    rw [hn2.nodes]; simp only [List.map_id_fun, id_eq, emptyWithNet, HG.empty]; exact foldl_ins_nil_of_nodup hNn
  have hE : (s.edges.filter (fun e => selected edgesArg s.edges e && (s.mem e).all (selected nodesArg s.nodes))) =
      s.edges.filter (keptEdge s nodesArg edgesArg) := rfl
  rw [hE]
  have he := addItems_spec (s.edges.filter (keptEdge s nodesArg edgesArg)) id s.mem s.eattr r1.1
    (by simpa using hEn) (by
      intro e he
      have he' := (List.mem_filter.1 he).1
      refine ⟨ne_none_of_mem h.noNoneE he', ?_, wf_none_not_mem h he'⟩
      rw [hn2.edges]; simp [emptyWithNet, HG.empty])
  have he' : edgeTriples s (s.edges.filter (keptEdge s nodesArg edgesArg)) =
      mkItems (s.edges.filter (keptEdge s nodesArg edgesArg)) id s.mem s.eattr := rfl
  rw [he']
  have hi2 : Inv (addEdgesFrom r1.1 .f4 (mkItems (s.edges.filter (keptEdge s nodesArg edgesArg)) id s.mem s.eattr) []).1 :=
    addEdgesFrom_inv hi1 _ _ _
  obtain ⟨he1, he2⟩ := he
  generalize addEdgesFrom r1.1 .f4 (mkItems (s.edges.filter (keptEdge s nodesArg edgesArg)) id s.mem s.eattr) [] = r2 at *
  refine ⟨he1, ?_⟩
  have hnodes2 : r2.1.nodes = s.nodes.filter (selected nodesArg s.nodes) := by
    rw [he2.nodes_same ?_, hnodes]
    intro e he n hn
    rw [hnodes, List.mem_filter]
    obtain ⟨he', hk⟩ := List.mem_filter.1 he
    refine ⟨(h.e2n e he' n hn).1, ?_⟩
    simp only [keptEdge, Bool.and_eq_true, List.all_eq_true] at hk
    exact hk.2 n hn
  have hedges2 : r2.1.edges = s.edges.filter (keptEdge s nodesArg edgesArg) := by
    rw [he2.edges, hn2.edges]; simp [emptyWithNet, HG.empty]
  constructor
  · exact hnodes2
  · exact hedges2
  · intro e he; rw [hedges2] at he
    have := he2.mem_new e he; simp only [id_eq] at this
    rw [this, dedup_of_nodup (h.setE e (List.mem_filter.1 he).1)]
  · intro n hn; rw [hnodes2] at hn
    have hns := (List.mem_filter.1 hn).1
    rw [he2.nattr_old n (by rw [hnodes]; exact hn)]
    have := hn2.nattr_new n hn; simp only [id_eq] at this
    rw [this]; simp only [emptyWithNet, HG.empty, List.not_mem_nil, if_false]
    rw [update_nil (ha.nattr n hns), update_nil (ha.nattr n hns)]
  · intro e he; rw [hedges2] at he
    have hes := (List.mem_filter.1 he).1
    have := he2.eattr_new e he; simp only [id_eq] at this
    rw [this, update_nil (ha.eattr e hes), update_nil (ha.eattr e hes)]
  · rw [he2.net, hn2.net]; rfl
  · rw [he2.frozen, hn2.frozen]; rfl
  · exact hi2

/-! ### additions with automatic IDs (formats 1 and 3) -/

/-- the items handed to `addEdgeAt` when the IDs come from the counter starting at `u` -/
def autoItems : Nat → List EdgeItem → List Item
  | _, [] => []
  | u, it :: r => (PyId.int u, dedup it.members, Attrs.update [] it.attr) :: autoItems (u + 1) r

theorem autoItems_ids (u : Nat) (items : List EdgeItem) :
    (autoItems u items).map (·.1) = (List.range' u items.length).map (fun j => PyId.int (j : Nat)) := by
  induction items generalizing u with
  | nil => rfl
  | cons it r ih => simp [autoItems, ih (u + 1), List.range'_succ]

theorem int_inj {a b : Nat} (h : PyId.int (a : Int) = PyId.int (b : Int)) : a = b := by
  have : (a : Int) = (b : Int) := by injection h with h; injection h
  omega

theorem autoItems_ids_ge (u : Nat) (items : List EdgeItem) (x : PyId) (hx : x ∈ (autoItems u items).map (·.1)) :
    ∃ j : Nat, u ≤ j ∧ x = PyId.int (j : Nat) := by
  rw [autoItems_ids] at hx
  simp only [List.mem_map, List.mem_range'_1] at hx
  obtain ⟨j, ⟨hj, _⟩, rfl⟩ := hx
  exact ⟨j, hj, rfl⟩

theorem addEdgesItem_auto (fmt : Fmt) (hfmt : fmt = .f1 ∨ fmt = .f3) (s : HG) (it : EdgeItem) (hf : UidFresh s)
    (hms : PyId.none ∉ it.members) :
    addEdgesItem fmt [] s it =
      (addEdgeAt { s with uid := s.uid + 1 } (PyId.int s.uid) (dedup it.members) (Attrs.update [] it.attr), .ok) := by
  have hfresh := uid_not_mem hf
  unfold addEdgesItem
  rcases hfmt with rfl | rfl <;> simp [Fmt.explicit, hfresh, hms]

theorem bulk_auto (fmt : Fmt) (hfmt : fmt = .f1 ∨ fmt = .f3) (items : List EdgeItem) (s : HG) (hf : UidFresh s)
    (hms : ∀ it ∈ items, PyId.none ∉ it.members) :
    (bulk (addEdgesItem fmt []) s items).2 = .ok ∧
    AddedMany s (bulk (addEdgesItem fmt []) s items).1 (autoItems s.uid items) ∧
    (bulk (addEdgesItem fmt []) s items).1.uid = s.uid + items.length ∧
    UidFresh (bulk (addEdgesItem fmt []) s items).1 := by
  induction items generalizing s with
  | nil => exact ⟨rfl, AddedMany.nil s, rfl, hf⟩
  | cons it rest ih =>
    have hstep := addEdgesItem_auto fmt hfmt s it hf (hms it (by simp))
    rw [bulk_cons_ok _ s _ it rest hstep]
    have hA0 := addEdgeAt_added1 { s with uid := s.uid + 1 } (PyId.int s.uid) (dedup it.members) (Attrs.update [] it.attr)
    have hA : Added1 s (addEdgeAt { s with uid := s.uid + 1 } (PyId.int s.uid) (dedup it.members) (Attrs.update [] it.attr))
        (PyId.int s.uid) (dedup it.members) (Attrs.update [] it.attr) :=
      ⟨hA0.edges, hA0.nodes_mem, hA0.nodes_same, hA0.mem, hA0.eattr, hA0.nattr_old, hA0.nattr_new, hA0.net, hA0.frozen⟩
    have hu := (addEdgeAt_edges { s with uid := s.uid + 1 } (PyId.int s.uid) (dedup it.members) (Attrs.update [] it.attr)).2
    have hf1 := auto_add_fresh hf (dedup it.members) (Attrs.update [] it.attr)
    generalize addEdgeAt { s with uid := s.uid + 1 } (PyId.int s.uid) (dedup it.members) (Attrs.update [] it.attr) = s1 at *
    simp only [] at hu
    obtain ⟨g1, g2, g3, g4⟩ := ih s1 hf1 (fun it' h' => hms it' (by simp [h']))
    refine ⟨g1, ?_, by rw [g3, hu]; simp; omega, g4⟩
    rw [hu] at g2
    show AddedMany s _ ((PyId.int s.uid, dedup it.members, Attrs.update [] it.attr) :: autoItems (s.uid + 1) rest)
    refine AddedMany.cons hA g2 ?_
    intro hin
    obtain ⟨j, hj, heq⟩ := autoItems_ids_ge _ _ _ hin
    have := int_inj heq; omega

theorem addEdgesFrom_f3 (s : HG) (items : List EdgeItem) :
    addEdgesFrom s .f3 items [] = bulk (addEdgesItem .f3 []) s items := by
  unfold addEdgesFrom; rfl

theorem zip_map_self {α β : Type} (l : List α) (f : α → β) : List.zip l (l.map f) = l.map (fun x => (x, f x)) := by
  induction l with
  | nil => rfl
  | cons a t ih => simp [ih]

theorem foldl_ins_append_filter (l acc : List PyId) (hl : l.Nodup) :
    l.foldl (fun acc x => ins x acc) acc = acc ++ l.filter (· ∉ acc) := by
  induction l generalizing acc with
  | nil => simp
  | cons a t ih =>
    simp only [List.foldl_cons]
    have hnd := List.nodup_cons.1 hl
    by_cases ha : a ∈ acc
    · have : ins a acc = acc := by unfold ins; simp [ha]
      rw [this, ih acc hnd.2]; simp [ha]
    · have : ins a acc = acc ++ [a] := by unfold ins; simp [ha]
      rw [this, ih (acc ++ [a]) hnd.2]
      simp only [List.filter_cons, ha, not_false_eq_true, decide_true, if_true, List.append_assoc, List.singleton_append]
      congr 2
      apply List.filter_congr
      intro x hx
      have : x ≠ a := by intro h; subst h; exact hnd.1 hx
      simp [this]

theorem autoItems_map_snd {β : Type} (f : List PyId × Attrs → β) (u : Nat) (items : List EdgeItem) :
    (autoItems u items).map (fun it => f it.2) = items.map (fun it => f (dedup it.members, Attrs.update [] it.attr)) := by
  induction items generalizing u with
  | nil => rfl
  | cons it r ih => simp [autoItems, ih (u + 1)]

theorem AddedMany.map_mem {s t : HG} {items : List Item} (h : AddedMany s t items) :
    (items.map (·.1)).map t.mem = items.map (fun it => dedup it.2.1) := by
  rw [List.map_map]; apply List.map_congr_left; intro it hit; exact h.mem_new it hit

theorem AddedMany.map_eattr {s t : HG} {items : List Item} (h : AddedMany s t items) :
    (items.map (·.1)).map t.eattr = items.map (fun it => Attrs.update [] it.2.2) := by
  rw [List.map_map]; apply List.map_congr_left; intro it hit; exact h.eattr_new it hit

/-- `_node` and `_node_attr` (resp. `_edge`, `_edge_attr`) list their keys in the same order — they are
    always written together — which is what the positional `zip` in `__lshift__` relies on -/
structure Aligned (s : HG) : Prop where
  n : s.nattrK = s.nodes
  e : s.eattrK = s.edges

theorem zipNodeAttrs_eq {s : HG} (h : Aligned s) :
    zipNodeAttrs s = s.nodes.map (fun x => (id x, some (s.nattr x))) := by
  unfold zipNodeAttrs; rw [h.n, zip_map_self, List.map_map]; rfl

theorem zipEdgeAttrs_eq {s : HG} (h : Aligned s) :
    zipEdgeAttrs s = s.edges.map (fun e => ({ members := s.mem e, idx := none, attr := s.eattr e } : EdgeItem)) := by
  unfold zipEdgeAttrs; rw [h.e, List.zip_map', List.map_map]; rfl

/-! ### removing edges -/

/-- everything but the edge list, the memberships and the attribute key sets is the same -/
structure SameTables (t c : HG) : Prop where
  nodes : t.nodes = c.nodes
  mem : t.mem = c.mem
  eattr : t.eattr = c.eattr
  nattr : t.nattr = c.nattr
  net : t.net = c.net
  frozen : t.frozen = c.frozen
  uid : t.uid = c.uid

theorem SameTables.refl (c : HG) : SameTables c c := ⟨rfl, rfl, rfl, rfl, rfl, rfl, rfl⟩

theorem SameTables.trans {a b c : HG} (h1 : SameTables a b) (h2 : SameTables b c) : SameTables a c :=
  ⟨h1.nodes.trans h2.nodes, h1.mem.trans h2.mem, h1.eattr.trans h2.eattr, h1.nattr.trans h2.nattr,
   h1.net.trans h2.net, h1.frozen.trans h2.frozen, h1.uid.trans h2.uid⟩

theorem dropEdge_tables (t : HG) (e : PyId) : SameTables (dropEdge t e) t ∧ (dropEdge t e).edges = t.edges.filter (· ≠ e) := by
  unfold dropEdge; exact ⟨⟨rfl, rfl, rfl, rfl, rfl, rfl, rfl⟩, by simp [rm]⟩

theorem foldl_dropEdge_fields (l : List PyId) (t : HG) :
    SameTables (l.foldl dropEdge t) t ∧ (l.foldl dropEdge t).edges = t.edges.filter (· ∉ l) := by
  induction l generalizing t with
  | nil => exact ⟨SameTables.refl t, by simp; exact (List.filter_eq_self.2 (fun _ _ => rfl)).symm⟩
  | cons e rest ih =>
    simp only [List.foldl_cons]
    obtain ⟨h1, h2⟩ := ih (dropEdge t e)
    obtain ⟨d1, d2⟩ := dropEdge_tables t e
    refine ⟨h1.trans d1, ?_⟩
    rw [h2, d2, List.filter_filter]
    apply List.filter_congr; intro x _
    by_cases hx : x = e <;> simp [hx]

theorem removeEdges_spec (l : List PyId) (t : HG) (hl : l.Nodup) (hin : ∀ e ∈ l, e ∈ t.edges) :
    (removeEdgesFrom t l).2 = .ok ∧ SameTables (removeEdgesFrom t l).1 t ∧
    (removeEdgesFrom t l).1.edges = t.edges.filter (· ∉ l) := by
  unfold removeEdgesFrom
  induction l generalizing t with
  | nil => exact ⟨rfl, SameTables.refl t, by simp [bulk]; exact (List.filter_eq_self.2 (fun _ _ => rfl)).symm⟩
  | cons e rest ih =>
    have hstep : removeEdge t e = (dropEdge t e, .ok) := by
      unfold removeEdge; simp [hin e (by simp)]
    rw [bulk_cons_ok _ t _ e rest hstep]
    obtain ⟨d1, d2⟩ := dropEdge_tables t e
    simp only [List.nodup_cons] at hl
    obtain ⟨g1, g2, g3⟩ := ih (dropEdge t e) hl.2 (by
      intro x hx; rw [d2, List.mem_filter]
      refine ⟨hin x (by simp [hx]), ?_⟩
      simp only [ne_eq, decide_not, Bool.not_eq_eq_eq_not, Bool.not_true, decide_eq_false_iff_not]
      intro heq; subst heq; exact hl.1 hx)
    refine ⟨g1, g2.trans d1, ?_⟩
    rw [g3, d2, List.filter_filter]
    apply List.filter_congr; intro x _
    by_cases hx : x = e <;> simp [hx]

/-! ### `remove_simplex_ids_from` -/

theorem removeSimplexId_fields (t : HG) (idx : PyId) (h : idx ∈ t.edges) :
    (removeSimplexId t idx).2 = .ok ∧ SameTables (removeSimplexId t idx).1 t ∧
    (removeSimplexId t idx).1.edges =
      t.edges.filter (fun j => j ∉ t.edges.filter (fun j => properSubset (t.mem idx) (t.mem j)) ∧ j ≠ idx) := by
  unfold removeSimplexId
  simp only [h, not_true_eq_false, if_false]
  obtain ⟨f1, f2⟩ := foldl_dropEdge_fields (t.edges.filter (fun j => properSubset (t.mem idx) (t.mem j))) t
  obtain ⟨d1, d2⟩ := dropEdge_tables ((t.edges.filter (fun j => properSubset (t.mem idx) (t.mem j))).foldl dropEdge t) idx
  refine ⟨trivial, d1.trans f1, ?_⟩
  rw [d2, f2, List.filter_filter]
  apply List.filter_congr; intro x _
  simp only [Bool.decide_and, and_comm]

theorem rsi_loop (c : HG) (all B : List PyId)
    (hB : ∀ i ∈ B, i ∈ c.edges) (hall : ∀ i ∈ B, i ∈ all)
    (hclosed : ∀ i ∈ B, ∀ j ∈ c.edges, properSubset (c.mem i) (c.mem j) = true → j ∈ B)
    (rest : List PyId) (hrest : ∀ i ∈ rest, i ∈ B)
    (t : HG) (R : List PyId) (hR : ∀ i ∈ R, i ∈ B) (ht : SameTables t c) (hte : t.edges = c.edges.filter (· ∉ R)) :
    (bulk (fun t idx => if idx ∈ all ∧ idx ∉ t.edges then (t, Outcome.ok) else removeSimplexId t idx) t rest).2 = .ok ∧
    SameTables (bulk (fun t idx => if idx ∈ all ∧ idx ∉ t.edges then (t, Outcome.ok) else removeSimplexId t idx) t rest).1 c ∧
    ∃ R' : List PyId, (∀ i ∈ R', i ∈ B) ∧ (∀ i ∈ R, i ∈ R') ∧ (∀ i ∈ rest, i ∈ R') ∧
      (bulk (fun t idx => if idx ∈ all ∧ idx ∉ t.edges then (t, Outcome.ok) else removeSimplexId t idx) t rest).1.edges =
        c.edges.filter (· ∉ R') := by
  induction rest generalizing t R with
  | nil => exact ⟨rfl, ht, R, hR, fun _ h => h, by simp, hte⟩
  | cons idx rest ih =>
    have hidxB := hrest idx (by simp)
    by_cases hin : idx ∈ t.edges
    · -- removed now, together with its strict superfaces
      obtain ⟨f1, f2, f3⟩ := removeSimplexId_fields t idx hin
      have hstep : (fun t idx => if idx ∈ all ∧ idx ∉ t.edges then (t, Outcome.ok) else removeSimplexId t idx) t idx =
          ((removeSimplexId t idx).1, .ok) := by
        simp only [hin, not_true_eq_false, and_false, if_false]; rw [← f1]
      rw [bulk_cons_ok _ t _ idx rest hstep]
      generalize hsup : t.edges.filter (fun j => properSubset (t.mem idx) (t.mem j)) = sup at f3
      have hsupB : ∀ j ∈ sup, j ∈ B := by
        intro j hj
        rw [← hsup] at hj
        obtain ⟨hj1, hj2⟩ := List.mem_filter.1 hj
        rw [hte] at hj1
        rw [ht.mem] at hj2
        exact hclosed idx hidxB j (List.mem_filter.1 hj1).1 hj2
      obtain ⟨g1, g2, R', g3, g4, g5, g6⟩ := ih (fun i hi => hrest i (by simp [hi])) (removeSimplexId t idx).1
        (R ++ sup ++ [idx]) (by
          intro i hi
          simp only [List.mem_append, List.mem_singleton] at hi
          rcases hi with (hi | hi) | hi
          · exact hR i hi
          · exact hsupB i hi
          · subst hi; exact hidxB) (f2.trans ht) (by
          rw [f3, hte, List.filter_filter]
          apply List.filter_congr; intro x _
          rw [Bool.eq_iff_iff]
          simp only [List.mem_append, List.mem_singleton, not_or, Bool.and_eq_true, decide_eq_true_eq]
          constructor
          · rintro ⟨⟨h1, h2⟩, h3⟩; exact ⟨⟨h3, h1⟩, h2⟩
          · rintro ⟨⟨h3, h1⟩, h2⟩; exact ⟨⟨h1, h2⟩, h3⟩)
      refine ⟨g1, g2, R', g3, fun i hi => g4 i (by simp [hi]), ?_, g6⟩
      intro i hi
      simp only [List.mem_cons] at hi
      rcases hi with hi | hi
      · subst hi; exact g4 i (by simp)
      · exact g5 i hi
    · -- already removed as a superface
      have hstep : (fun t idx => if idx ∈ all ∧ idx ∉ t.edges then (t, Outcome.ok) else removeSimplexId t idx) t idx = (t, .ok) := by
        simp only [hall idx hidxB, hin, not_false_eq_true, and_self, if_true]
      rw [bulk_cons_ok _ t _ idx rest hstep]
      obtain ⟨g1, g2, R', g3, g4, g5, g6⟩ := ih (fun i hi => hrest i (by simp [hi])) t R hR ht hte
      refine ⟨g1, g2, R', g3, g4, ?_, g6⟩
      intro i hi
      simp only [List.mem_cons] at hi
      rcases hi with hi | hi
      · subst hi
        -- idx is an edge of c that is no longer in t: it is in R
        have : i ∈ R := by
          by_cases hnR : i ∈ R
          · exact hnR
          · exfalso; apply hin; rw [hte, List.mem_filter]; exact ⟨hB i hidxB, by simpa using hnR⟩
        exact g4 i this
      · exact g5 i hi
end Xgi.C19
