/-
  C19 helper lemmas: `_plain_bfs` returns a duplicate-free list (it is a Python set), and the counting loop of
  `number_connected_components` counts exactly the components `connected_components` yields.
-/
import XgiModel.C19.Lemmas9
import XgiModel.C19.Conn

namespace Xgi.C19
open Xgi Xgi.HG

theorem bfs_nodup (s : HG) : ∀ (fuel : Nat) (seen level : List PyId), seen.Nodup →
    (bfsLevels s fuel seen level).Nodup
  | 0, seen, _, h => by unfold bfsLevels; exact h
  | fuel + 1, seen, level, h => by
    unfold bfsLevels
    by_cases hl : level.isEmpty = true
    · simp only [hl, if_true]; exact h
    · simp only [hl]
      apply bfs_nodup
      rw [List.nodup_append]
      refine ⟨h, (nodup_dedup level).filter _, ?_⟩
      intro a ha b hb hab
      subst hab
      simp only [List.mem_filter, decide_eq_true_eq] at hb
      exact hb.2 ha

theorem plainBfs_nodup (s : HG) (v : PyId) : (plainBfs s v).Nodup :=
  bfs_nodup s _ [] [v] List.nodup_nil

theorem countFold_eq (s : HG) : ∀ (l : List PyId) (cs : List (List PyId)) (seen : List PyId),
    (l.foldl (countStep s) (cs.length, seen)).1 = (l.foldl (compStep s) (cs, seen)).1.length
  | [], _, _ => rfl
  | v :: l, cs, seen => by
    simp only [List.foldl_cons]
    by_cases hv : v ∈ seen
    · have e1 : countStep s (cs.length, seen) v = (cs.length, seen) := by simp [countStep, hv]
      have e2 : compStep s (cs, seen) v = (cs, seen) := by simp [compStep, hv]
      rw [e1, e2]; exact countFold_eq s l cs seen
    · have e1 : countStep s (cs.length, seen) v = ((cs ++ [plainBfs s v]).length, seen ++ plainBfs s v) := by
        simp [countStep, hv]
      have e2 : compStep s (cs, seen) v = (cs ++ [plainBfs s v], seen ++ plainBfs s v) := by simp [compStep, hv]
      rw [e1, e2]; exact countFold_eq s l _ _

theorem numberComponents_eq (s : HG) : numberComponents s = (components s).length := by
  rw [components_eq]
  exact countFold_eq s s.nodes [] []

end Xgi.C19
