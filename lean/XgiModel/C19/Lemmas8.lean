/-
  C19 helper lemmas, part 8: `merge_duplicate_edges` (defaults) leaves no two edges with the same member set.
-/
import XgiModel.C19.Lemmas7
namespace Xgi.C19
open Xgi Xgi.HG

theorem sameSet_refl (a : List PyId) : sameSet a a = true := (sameSet_iff a a).2 (fun _ => Iff.rfl)
theorem sameSet_symm {a b : List PyId} (h : sameSet a b = true) : sameSet b a = true :=
  (sameSet_iff b a).2 (fun x => ((sameSet_iff a b).1 h x).symm)
theorem sameSet_trans {a b c : List PyId} (h1 : sameSet a b = true) (h2 : sameSet b c = true) : sameSet a c = true :=
  (sameSet_iff a c).2 (fun x => ((sameSet_iff a b).1 h1 x).trans ((sameSet_iff b c).1 h2 x))

/-- head of a group -/
def ghead (g : List PyId) : PyId := g.headD .none

/-- one step of the `hashes` dict of `merge_duplicate_edges` -/
def groupStep (s : HG) (gs : List (List PyId)) (e : PyId) : List (List PyId) :=
  if gs.any (fun g => match g with | r :: _ => sameSet (s.mem r) (s.mem e) | [] => false)
  then gs.map (fun g => match g with
    | r :: _ => if sameSet (s.mem r) (s.mem e) then g ++ [e] else g
    | [] => g)
  else gs ++ [[e]]

theorem groupDups_eq (s : HG) : groupDups s = s.edges.foldl (groupStep s) [] := rfl

/-- invariant of the grouping: non-empty groups of processed edges with the member set of their head, heads
    pairwise different as sets, every processed edge in a group -/
structure GInv (s : HG) (es : List PyId) (gs : List (List PyId)) : Prop where
  grp : ∀ g ∈ gs, g ≠ [] ∧ ∀ j ∈ g, j ∈ es ∧ sameSet (s.mem (ghead g)) (s.mem j) = true
  heads : gs.Pairwise (fun g g' => sameSet (s.mem (ghead g)) (s.mem (ghead g')) = false)
  cover : ∀ e ∈ es, ∃ g ∈ gs, e ∈ g

theorem ghead_append (g : List PyId) (hne : g ≠ []) (l : List PyId) : ghead (g ++ l) = ghead g := by
  cases g with
  | nil => exact absurd rfl hne
  | cons a t => rfl

theorem groupStep_inv {s : HG} {es : List PyId} {gs : List (List PyId)} (h : GInv s es gs) (e : PyId) :
    GInv s (es ++ [e]) (groupStep s gs e) := by
  unfold groupStep
  have hmatch : ∀ g ∈ gs, (match g with | r :: _ => sameSet (s.mem r) (s.mem e) | [] => false) =
      sameSet (s.mem (ghead g)) (s.mem e) := by
    intro g hg
    cases g with
    | nil => exact absurd rfl (h.grp [] hg).1
    | cons r t => rfl
  by_cases hany : gs.any (fun g => match g with | r :: _ => sameSet (s.mem r) (s.mem e) | [] => false) = true
  · simp only [hany, if_true]
    have hmap : ∀ g ∈ gs, (match g with
        | r :: _ => if sameSet (s.mem r) (s.mem e) then g ++ [e] else g
        | [] => g) = if sameSet (s.mem (ghead g)) (s.mem e) = true then g ++ [e] else g := by
      intro g hg
      cases g with
      | nil => exact absurd rfl (h.grp [] hg).1
      | cons r t => rfl
    constructor
    · intro g' hg'
      obtain ⟨g, hg, rfl⟩ := List.mem_map.1 hg'
      rw [hmap g hg]
      obtain ⟨hne, hall⟩ := h.grp g hg
      split
      · rename_i hs
        refine ⟨by simp, ?_⟩
        intro j hj
        rw [ghead_append g hne]
        rcases List.mem_append.1 hj with hj | hj
        · exact ⟨List.mem_append_left _ (hall j hj).1, (hall j hj).2⟩
        · simp only [List.mem_singleton] at hj; subst hj
          exact ⟨by simp, hs⟩
      · exact ⟨hne, fun j hj => ⟨List.mem_append_left _ (hall j hj).1, (hall j hj).2⟩⟩
    · rw [List.pairwise_map]
      apply List.Pairwise.imp_of_mem _ h.heads
      intro a b ha hb hab
      rw [hmap a ha, hmap b hb]
      have hna := (h.grp a ha).1
      have hnb := (h.grp b hb).1
      split <;> split <;> (try simp only [ghead_append _ hna, ghead_append _ hnb]) <;> exact hab
    · intro x hx
      rcases List.mem_append.1 hx with hx | hx
      · obtain ⟨g, hg, hxg⟩ := h.cover x hx
        refine ⟨_, List.mem_map.2 ⟨g, hg, rfl⟩, ?_⟩
        rw [hmap g hg]; split
        · exact List.mem_append_left _ hxg
        · exact hxg
      · simp only [List.mem_singleton] at hx; subst hx
        simp only [List.any_eq_true] at hany
        obtain ⟨g, hg, hm⟩ := hany
        rw [hmatch g hg] at hm
        refine ⟨_, List.mem_map.2 ⟨g, hg, rfl⟩, ?_⟩
        rw [hmap g hg, if_pos hm]; simp
  · simp only [hany, Bool.false_eq_true, if_false]
    have hnone : ∀ g ∈ gs, sameSet (s.mem (ghead g)) (s.mem e) = false := by
      intro g hg
      cases hb : sameSet (s.mem (ghead g)) (s.mem e) with
      | false => rfl
      | true =>
        exfalso; apply hany
        simp only [List.any_eq_true]; exact ⟨g, hg, by rw [hmatch g hg]; exact hb⟩
    constructor
    · intro g hg
      rcases List.mem_append.1 hg with hg | hg
      · obtain ⟨hne, hall⟩ := h.grp g hg
        exact ⟨hne, fun j hj => ⟨List.mem_append_left _ (hall j hj).1, (hall j hj).2⟩⟩
      · simp only [List.mem_singleton] at hg; subst hg
        refine ⟨by simp, ?_⟩
        intro j hj; simp only [List.mem_singleton] at hj; subst hj
        exact ⟨by simp, sameSet_refl _⟩
    · rw [List.pairwise_append]
      refine ⟨h.heads, by simp, ?_⟩
      intro a ha b hb
      simp only [List.mem_singleton] at hb; subst hb
      exact hnone a ha
    · intro x hx
      rcases List.mem_append.1 hx with hx | hx
      · obtain ⟨g, hg, hxg⟩ := h.cover x hx
        exact ⟨g, List.mem_append_left _ hg, hxg⟩
      · simp only [List.mem_singleton] at hx; subst hx
        exact ⟨[x], by simp, by simp⟩

/-- `groupStep` on non-empty groups, spelled with `ghead` -/
theorem groupStep_eq {s : HG} {gs : List (List PyId)} (hne : ∀ g ∈ gs, g ≠ []) (e : PyId) :
    groupStep s gs e =
      if gs.any (fun g => sameSet (s.mem (ghead g)) (s.mem e)) = true
      then gs.map (fun g => if sameSet (s.mem (ghead g)) (s.mem e) = true then g ++ [e] else g)
      else gs ++ [[e]] := by
  unfold groupStep
  have h1 : gs.any (fun g => match g with | r :: _ => sameSet (s.mem r) (s.mem e) | [] => false) =
      gs.any (fun g => sameSet (s.mem (ghead g)) (s.mem e)) := by
    rw [Bool.eq_iff_iff]; simp only [List.any_eq_true]
    constructor
    · rintro ⟨g, hg, hm⟩
      cases g with
      | nil => exact absurd rfl (hne [] hg)
      | cons r t => exact ⟨r :: t, hg, hm⟩
    · rintro ⟨g, hg, hm⟩
      cases g with
      | nil => exact absurd rfl (hne [] hg)
      | cons r t => exact ⟨r :: t, hg, hm⟩
  have h2 : gs.map (fun g => match g with
      | r :: _ => if sameSet (s.mem r) (s.mem e) then g ++ [e] else g
      | [] => g) = gs.map (fun g => if sameSet (s.mem (ghead g)) (s.mem e) = true then g ++ [e] else g) := by
    apply List.map_congr_left
    intro g hg
    cases g with
    | nil => exact absurd rfl (hne [] hg)
    | cons r t => rfl
  rw [h1, h2]

theorem groupDups_inv (s : HG) : GInv s s.edges (groupDups s) := by
  rw [groupDups_eq]
  have key : ∀ (l es : List PyId) (gs : List (List PyId)), GInv s es gs → GInv s (es ++ l) (l.foldl (groupStep s) gs) := by
    intro l
    induction l with
    | nil => intro es gs h; simpa using h
    | cons a t ih =>
      intro es gs h
      simp only [List.foldl_cons]
      have := ih (es ++ [a]) _ (groupStep_inv h a)
      simpa [List.append_assoc] using this
  have := key s.edges [] [] ⟨(fun _ hg => by cases hg), List.Pairwise.nil, (fun _ he => by cases he)⟩
  simpa using this

/-! ### outcomes -/

theorem join_eq_ok {a b : Outcome} (h : Outcome.join a b = .ok) : a = .ok ∧ b = .ok := by
  cases a <;> cases b <;> simp [Outcome.join] at h ⊢

theorem bulk_cons_of_ok {α : Type} (f : HG → α → HG × Outcome) (s : HG) (a : α) (t : List α)
    (h : (bulk f s (a :: t)).2 = .ok) : (f s a).2 = .ok ∧ bulk f s (a :: t) = bulk f (f s a).1 t := by
  simp only [bulk] at h ⊢
  split at h
  · cases h
  · rename_i s' o hne heq
    simp only [] at h
    obtain ⟨h1, h2⟩ := join_eq_ok h
    subst h1
    rw [heq]; simp only [join_ok]
    exact ⟨trivial, trivial⟩

theorem removeEdges_of_ok (l : List PyId) (t : HG) (h : (removeEdgesFrom t l).2 = .ok) :
    SameTables (removeEdgesFrom t l).1 t ∧ (removeEdgesFrom t l).1.edges = t.edges.filter (· ∉ l) := by
  unfold removeEdgesFrom at h ⊢
  induction l generalizing t with
  | nil => exact ⟨SameTables.refl t, by simp [bulk]; exact (List.filter_eq_self.2 (fun _ _ => rfl)).symm⟩
  | cons e rest ih =>
    obtain ⟨h1, h2⟩ := bulk_cons_of_ok _ t e rest h
    rw [h2] at h ⊢
    have he : e ∈ t.edges := by
      unfold removeEdge at h1
      by_cases hin : e ∈ t.edges
      · exact hin
      · simp [hin] at h1
    have hstep : (removeEdge t e).1 = dropEdge t e := by unfold removeEdge; simp [he]
    rw [hstep] at h ⊢
    obtain ⟨d1, d2⟩ := dropEdge_tables t e
    obtain ⟨g1, g2⟩ := ih (dropEdge t e) h
    refine ⟨g1.trans d1, ?_⟩
    rw [g2, d2, List.filter_filter]
    apply List.filter_congr; intro x _
    by_cases hx : x = e <;> simp [hx]

theorem bulk_f4_of_ok (items : List EdgeItem) (s : HG) (h : (bulk (addEdgesItem .f4 []) s items).2 = .ok) :
    AddedMany s (bulk (addEdgesItem .f4 []) s items).1 (f4Items items) ∧
    ((f4Items items).map (·.1)).Nodup ∧ ∀ i ∈ (f4Items items).map (·.1), i ∉ s.edges := by
  induction items generalizing s with
  | nil => exact ⟨AddedMany.nil s, List.nodup_nil, fun _ hi => by cases hi⟩
  | cons it rest ih =>
    obtain ⟨h1, h2⟩ := bulk_cons_of_ok _ s it rest h
    rw [h2] at h ⊢
    -- an `ok` step means: fresh id, no `None`
    have hcond : it.idx.getD .none ∉ s.edges ∧ it.idx.getD .none ≠ .none ∧ PyId.none ∉ it.members := by
      unfold addEdgesItem at h1
      simp only [Fmt.explicit, if_true] at h1
      by_cases hin : it.idx.getD .none ∈ s.edges
      · simp [hin] at h1
      · simp only [hin, if_false] at h1
        by_cases hn : PyId.none ∈ it.members ∨ it.idx.getD .none = .none
        · simp [hn] at h1
        · exact ⟨hin, fun hh => hn (Or.inr hh), fun hh => hn (Or.inl hh)⟩
    have hstep := addEdgesItem_f4 s it hcond.2.1 hcond.1 hcond.2.2
    rw [hstep] at h ⊢
    simp only [] at h ⊢
    have hA := (addEdgeAt_added1 s (it.idx.getD .none) (dedup it.members) (Attrs.update [] it.attr)).congr
      (t' := bumpUid (addEdgeAt s (it.idx.getD .none) (dedup it.members) (Attrs.update [] it.attr)) (it.idx.getD .none))
      (by have := bumpUid_fields (addEdgeAt s (it.idx.getD .none) (dedup it.members) (Attrs.update [] it.attr)) (it.idx.getD .none); grind)
    generalize bumpUid (addEdgeAt s (it.idx.getD .none) (dedup it.members) (Attrs.update [] it.attr)) (it.idx.getD .none) = s1 at *
    obtain ⟨g1, g2, g3⟩ := ih s1 h
    have hnot : it.idx.getD .none ∉ (f4Items rest).map (·.1) := by
      intro hin; apply g3 _ hin; rw [hA.edges]; simp
    have hcons : f4Items (it :: rest) = (it.idx.getD .none, dedup it.members, Attrs.update [] it.attr) :: f4Items rest := rfl
    rw [hcons]
    refine ⟨AddedMany.cons hA g1 hnot, ?_, ?_⟩
    · simp only [List.map_cons, List.nodup_cons]; exact ⟨hnot, g2⟩
    · intro i hi
      simp only [List.map_cons, List.mem_cons] at hi
      rcases hi with hi | hi
      · subst hi; exact hcond.1
      · intro hin; apply g3 i hi; rw [hA.edges]; exact List.mem_append_left _ hin

/-! ### the loop over the groups -/

def multi (g : List PyId) : Bool := decide (¬ g.length ≤ 1)

/-- the edge `mergeGroup` builds for a group -/
def itemOf (s : HG) (g : List PyId) : EdgeItem :=
  match (mergeGroup .first .first none s g).2 with
  | .ok it => it
  | .error _ => default

theorem mergeGroup_first_state (s : HG) (g : List PyId) : (mergeGroup .first .first none s g).1 = s := by
  cases g with
  | nil => rfl
  | cons r t =>
    have hid : (mergeNewId .first s (r :: t)).1 = s := by
      unfold mergeNewId; simp only []; split <;> rfl
    simp only [mergeGroup]
    split
    · rename_i heq; rw [heq] at hid; exact hid
    · rename_i heq; rw [heq] at hid
      split <;> exact hid

theorem itemOf_members (s : HG) (g : List PyId) (it : EdgeItem) (h : (mergeGroup .first .first none s g).2 = .ok it) :
    g ≠ [] ∧ it.members = s.mem (ghead g) := by
  cases g with
  | nil => simp [mergeGroup] at h
  | cons r t =>
    refine ⟨by simp, ?_⟩
    simp only [mergeGroup] at h
    split at h
    · cases h
    · split at h
      · cases h
      · simp only [Except.ok.injEq] at h; rw [← h]; rfl

theorem mergeLoop_ok (s : HG) (gs : List (List PyId)) (dups : List PyId) (news : List EdgeItem)
    (s' : HG) (D : List PyId) (N : List EdgeItem)
    (h : mergeLoop .first .first none s gs dups news = (s', .ok (D, N))) :
    D = dups ++ (gs.filter multi).flatten ∧ N = news ++ (gs.filter multi).map (itemOf s) ∧
    ∀ g ∈ gs.filter multi, (mergeGroup .first .first none s g).2 = .ok (itemOf s g) := by
  induction gs generalizing dups news with
  | nil =>
    simp only [mergeLoop, Prod.mk.injEq, Except.ok.injEq] at h
    obtain ⟨_, hD, hN⟩ := h
    exact ⟨by simp [hD], by simp [hN], fun _ hg => by cases hg⟩
  | cons g gs ih =>
    simp only [mergeLoop] at h
    by_cases hlen : g.length ≤ 1
    · simp only [hlen, if_true] at h
      have hm : multi g = false := by simp [multi, hlen]
      simp only [List.filter_cons, hm, Bool.false_eq_true, if_false]
      exact ih dups news h
    · simp only [hlen, if_false] at h
      have hm : multi g = true := by simp [multi, hlen]
      have hst := mergeGroup_first_state s g
      split at h
      · simp at h
      · rename_i sx it heq
        rw [heq] at hst; simp only [] at hst; subst hst
        have hit : (mergeGroup .first .first none sx g).2 = .ok it := by rw [heq]
        have hio : itemOf sx g = it := by unfold itemOf; rw [hit]
        obtain ⟨g1, g2, g3⟩ := ih (dups ++ g) (news ++ [it]) h
        simp only [List.filter_cons, hm, if_true, List.flatten_cons, List.map_cons, hio]
        refine ⟨by rw [g1, List.append_assoc], by rw [g2, List.append_assoc]; rfl, ?_⟩
        intro g' hg'
        rcases List.mem_cons.1 hg' with hg' | hg'
        · subst hg'; rw [hio]; exact hit
        · exact g3 g' hg'

theorem pairwise_sym_forall {α : Type} {R : α → α → Prop} {l : List α} (h : l.Pairwise R)
    (hs : ∀ a b, R a b → R b a) : ∀ a ∈ l, ∀ b ∈ l, a ≠ b → R a b := by
  induction l with
  | nil => intro a ha; cases ha
  | cons x t ih =>
    rw [List.pairwise_cons] at h
    intro a ha b hb hab
    rcases List.mem_cons.1 ha with ha' | ha' <;> rcases List.mem_cons.1 hb with hb' | hb'
    · subst ha'; subst hb'; exact absurd rfl hab
    · subst ha'; exact h.1 b hb'
    · subst hb'; exact hs _ _ (h.1 a ha')
    · exact ih h.2 a ha' b hb' hab

/-- the edge that stands for a group after the merge -/
def gkey (s : HG) (g : List PyId) : PyId := if multi g then (itemOf s g).idx.getD .none else ghead g

/-- `merge_duplicate_edges()` (defaults), when it returns without error or warning, leaves pairwise different
    member sets; it does not touch nodes or their attributes -/
theorem merge_noMulti {s : HG} (hs : Live s) (m : HG)
    (h : mergeDuplicateEdges s .first .first none = some (m, .ok)) : NoMulti m ∧ m.nodes = s.nodes := by
  have hG := groupDups_inv s
  unfold mergeDuplicateEdges at h
  have hst := mergeLoop_first_state .first none (groupDups s) s [] []
  split at h
  · cases h
  · simp at h
  · simp at h
  · rename_i s' D N heq
    rw [heq] at hst; simp only [] at hst; subst hst
    obtain ⟨hD, hN, hit⟩ := mergeLoop_ok s' (groupDups s') [] [] s' D N heq
    simp only [List.nil_append] at hD hN
    simp only [] at h
    rw [guardF_live _ _ hs.2] at h
    have f1 := removeEdgesFrom_frozen s' D
    split at h
    · rename_i herr
      simp only [Option.some.injEq] at h; rw [h] at herr; cases herr
    · rw [guardF_live _ _ (by rw [f1]; exact hs.2)] at h
      split at h
      · rename_i herr
        simp only [Option.some.injEq] at h; rw [h] at herr; cases herr
      · simp only [Option.some.injEq, Prod.mk.injEq] at h
        obtain ⟨hm, ho⟩ := h
        have ho' : Outcome.join (removeEdgesFrom s' D).2 (addEdgesFrom (removeEdgesFrom s' D).1 .f4 N []).2 = .ok := by
          simpa using ho
        obtain ⟨o1, o2⟩ := join_eq_ok ho'
        obtain ⟨r1t, r1e⟩ := removeEdges_of_ok D s' o1
        rw [addEdgesFrom_f4] at o2 hm
        obtain ⟨am, idn, idf⟩ := bulk_f4_of_ok N (removeEdgesFrom s' D).1 o2
        rw [hm] at am
        generalize (removeEdgesFrom s' D).1 = r1 at *
        generalize hG' : groupDups s' = G at *
        -- every edge of the result stands for one group and carries the member set of its head
        have hrep : ∀ x ∈ m.edges, ∃ g ∈ G, x = gkey s' g ∧ ∀ z, z ∈ m.mem x ↔ z ∈ s'.mem (ghead g) := by
          intro x hx
          rw [am.edges] at hx
          rcases List.mem_append.1 hx with hx | hx
          · -- an old edge that was not merged: alone in its group
            have hx1 : x ∈ s'.edges ∧ x ∉ D := by
              rw [r1e] at hx; simpa using List.mem_filter.1 hx
            obtain ⟨g, hg, hxg⟩ := hG.cover x hx1.1
            have hnm : multi g = false := by
              cases hb : multi g with
              | false => rfl
              | true =>
                exfalso; apply hx1.2; rw [hD]
                simp only [List.mem_flatten, List.mem_filter]
                exact ⟨g, ⟨hg, hb⟩, hxg⟩
            have hgx : g = [x] := by
              have hlen : g.length ≤ 1 := by simpa [multi] using hnm
              cases g with
              | nil => cases hxg
              | cons a t =>
                cases t with
                | nil => simp only [List.mem_singleton] at hxg; rw [hxg]
                | cons b t' => simp at hlen
            refine ⟨g, hg, by rw [gkey, hnm, hgx]; rfl, ?_⟩
            intro z
            rw [am.mem_old x (fun hin => idf x hin hx), r1t.mem, hgx]; rfl
          · -- a merged edge
            obtain ⟨it, hit', rfl⟩ := List.mem_map.1 hx
            have hit2 := hit'
            simp only [f4Items, hN, List.map_map, List.mem_map, Function.comp] at hit2
            obtain ⟨g, hg, rfl⟩ := hit2
            obtain ⟨hg1, hg2⟩ := List.mem_filter.1 hg
            refine ⟨g, hg1, by simp [gkey, hg2], ?_⟩
            intro z
            rw [am.mem_new _ hit']
            simp only [mem_dedup]
            rw [(itemOf_members s' g _ (hit g hg)).2]
        have hns : ∀ it ∈ f4Items N, ∀ n ∈ it.2.1, n ∈ r1.nodes := by
          intro it hit' n hn
          simp only [f4Items, hN, List.map_map, List.mem_map, Function.comp] at hit'
          obtain ⟨g, hg, rfl⟩ := hit'
          simp only [mem_dedup] at hn
          rw [(itemOf_members s' g _ (hit g hg)).2] at hn
          obtain ⟨hg1, _⟩ := List.mem_filter.1 hg
          obtain ⟨hne, hall⟩ := hG.grp g hg1
          have hh : ghead g ∈ g := by
            cases g with
            | nil => exact absurd rfl hne
            | cons a t => simp [ghead]
          rw [r1t.nodes]
          exact (hs.1.1.e2n (ghead g) (hall _ hh).1 n hn).1
        refine ⟨?_, by rw [am.nodes_same hns, r1t.nodes]⟩
        intro x hx y hy hsame
        obtain ⟨g, hg, hxk, hxm⟩ := hrep x hx
        obtain ⟨g', hg', hyk, hym⟩ := hrep y hy
        have hss : sameSet (s'.mem (ghead g)) (s'.mem (ghead g')) = true := by
          rw [sameSet_iff]; intro z; rw [← hxm z, ← hym z]; exact hsame z
        have hgg : g = g' := by
          apply Classical.byContradiction; intro hne
          have := pairwise_sym_forall hG.heads (by
            intro a b hab
            cases hb : sameSet (s'.mem (ghead b)) (s'.mem (ghead a)) with
            | false => rfl
            | true => rw [sameSet_symm hb] at hab; cases hab) g hg g' hg' hne
          rw [hss] at this; cases this
        rw [hxk, hyk, hgg]
end Xgi.C19
