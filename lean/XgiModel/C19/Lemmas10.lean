/-
  C19 helper lemmas, part 10: `merge_duplicate_edges()` with the defaults (`rename="first"`,
  `merge_rule="first"`) computed forwards — the groups of the `hashes` dict are exactly the classes of edges with
  equal member sets (in edge order), the call either raises `TypeError` (some class of repeated edges has IDs
  `sorted` cannot order) leaving the network untouched, or returns without warning a network in which every
  class is represented by the first of its sorted IDs, with that edge's attributes.
-/
import XgiModel.C19.Lemmas9
import Mathlib.Data.List.Nodup

namespace Xgi.C19
open Xgi Xgi.HG

/-! ### the groups are the classes -/

/-- the edges among `es` with the member set of `g`'s head -/
def clsIn (s : HG) (es g : List PyId) : List PyId := es.filter (fun j => sameSet (s.mem (ghead g)) (s.mem j))

theorem clsIn_append (s : HG) (es g : List PyId) (e : PyId) :
    clsIn s (es ++ [e]) g = clsIn s es g ++ (if sameSet (s.mem (ghead g)) (s.mem e) then [e] else []) := by
  unfold clsIn; rw [List.filter_append]; congr 1
  simp only [List.filter_cons, List.filter_nil]

theorem groupStep_exact {s : HG} {es : List PyId} {gs : List (List PyId)} (h : GInv s es gs)
    (hx : ∀ g ∈ gs, g = clsIn s es g) (e : PyId) : ∀ g ∈ groupStep s gs e, g = clsIn s (es ++ [e]) g := by
  rw [groupStep_eq (fun g hg => (h.grp g hg).1)]
  have hold : ∀ g ∈ gs, (if sameSet (s.mem (ghead g)) (s.mem e) = true then g ++ [e] else g) =
      clsIn s (es ++ [e]) (if sameSet (s.mem (ghead g)) (s.mem e) = true then g ++ [e] else g) := by
    intro g hg
    have hne := (h.grp g hg).1
    by_cases hs : sameSet (s.mem (ghead g)) (s.mem e) = true
    · rw [if_pos hs, clsIn_append, ghead_append g hne, if_pos hs]
      have : clsIn s es (g ++ [e]) = clsIn s es g := by unfold clsIn; rw [ghead_append g hne]
      rw [this, ← hx g hg]
    · rw [if_neg hs, clsIn_append, if_neg hs, List.append_nil]
      exact hx g hg
  by_cases hany : gs.any (fun g => sameSet (s.mem (ghead g)) (s.mem e)) = true
  · rw [if_pos hany]
    intro g' hg'
    obtain ⟨g, hg, rfl⟩ := List.mem_map.1 hg'
    exact hold g hg
  · rw [if_neg hany]
    have hnone : ∀ g ∈ gs, sameSet (s.mem (ghead g)) (s.mem e) = false := by
      intro g hg
      cases hb : sameSet (s.mem (ghead g)) (s.mem e) with
      | false => rfl
      | true =>
        exfalso; apply hany
        simp only [List.any_eq_true]; exact ⟨g, hg, hb⟩
    intro g hg
    rcases List.mem_append.1 hg with hg | hg
    · have := hold g hg
      simp only [hnone g hg, Bool.false_eq_true, if_false] at this
      exact this
    · simp only [List.mem_singleton] at hg; subst hg
      rw [clsIn_append]
      have hh : ghead [e] = e := rfl
      rw [hh, if_pos (sameSet_refl _)]
      have : clsIn s es [e] = [] := by
        unfold clsIn; rw [List.filter_eq_nil_iff]
        intro j hj hc
        rw [hh] at hc
        obtain ⟨g, hg, hjg⟩ := h.cover j hj
        have h1 := ((h.grp g hg).2 j hjg).2
        have := sameSet_trans h1 (sameSet_symm hc)
        rw [hnone g hg] at this; cases this
      rw [this]; rfl

/-- every group of the `hashes` dict lists, in edge order, all the edges with the member set of its head -/
theorem groupDups_exact (s : HG) : ∀ g ∈ groupDups s, g = clsIn s s.edges g := by
  rw [groupDups_eq]
  have key : ∀ (l es : List PyId) (gs : List (List PyId)), GInv s es gs → (∀ g ∈ gs, g = clsIn s es g) →
      ∀ g ∈ l.foldl (groupStep s) gs, g = clsIn s (es ++ l) g := by
    intro l
    induction l with
    | nil => intro es gs _ hx; simpa using hx
    | cons a t ih =>
      intro es gs h hx
      simp only [List.foldl_cons]
      have := ih (es ++ [a]) _ (groupStep_inv h a) (groupStep_exact h hx a)
      simpa [List.append_assoc] using this
  have := key s.edges [] [] ⟨(fun _ hg => by cases hg), List.Pairwise.nil, (fun _ he => by cases he)⟩
    (fun _ hg => by cases hg)
  simpa using this

theorem ghead_mem {g : List PyId} (hne : g ≠ []) : ghead g ∈ g := by
  cases g with
  | nil => exact absurd rfl hne
  | cons a t => simp [ghead]

/-- a group is the class `dups[frozenset(members(x))]` of each of its elements -/
theorem group_eq_dupsOf {s : HG} {g : List PyId} (hg : g ∈ groupDups s) {x : PyId} (hx : x ∈ g) : g = dupsOf s x := by
  have hG := groupDups_inv s
  have h1 := ((hG.grp g hg).2 x hx).2
  rw [groupDups_exact s g hg]
  unfold clsIn dupsOf
  apply List.filter_congr; intro j _
  rw [Bool.eq_iff_iff]
  exact ⟨fun h2 => sameSet_trans (sameSet_symm h2) h1, fun h2 => sameSet_trans h1 (sameSet_symm h2)⟩

theorem dupsOf_mem_groups {s : HG} {x : PyId} (hx : x ∈ s.edges) : dupsOf s x ∈ groupDups s ∧ x ∈ dupsOf s x := by
  obtain ⟨g, hg, hxg⟩ := (groupDups_inv s).cover x hx
  have := group_eq_dupsOf hg hxg
  exact ⟨this ▸ hg, this ▸ hxg⟩

theorem dupsOf_congr {s : HG} {x y : PyId} (h : ∀ z, z ∈ s.mem x ↔ z ∈ s.mem y) : dupsOf s x = dupsOf s y := by
  unfold dupsOf
  apply List.filter_congr; intro j _
  rw [Bool.eq_iff_iff, sameSet_iff, sameSet_iff]
  exact ⟨fun hj z => (hj z).trans (h z), fun hj z => (hj z).trans (h z).symm⟩

theorem dupsOf_sub (s : HG) (x : PyId) : ∀ j ∈ dupsOf s x, j ∈ s.edges ∧ ∀ z, z ∈ s.mem j ↔ z ∈ s.mem x :=
  fun j hj => (mem_dupsOf s x j).1 hj

/-- a class of length ≤ 1 is the edge alone -/
theorem dupsOf_single {s : HG} {x : PyId} (hx : x ∈ s.edges) (hl : (dupsOf s x).length ≤ 1) : dupsOf s x = [x] := by
  have hm := (dupsOf_mem_groups hx).2
  cases hd : dupsOf s x with
  | nil => rw [hd] at hm; cases hm
  | cons a t =>
    rw [hd] at hm hl
    cases t with
    | nil => simp only [List.mem_singleton] at hm; rw [hm]
    | cons b t' => simp at hl

/-! ### `sorted(ids)[0]` -/

/-- `sorted(g)[0]`; `none` when `sorted` raises `TypeError` -/
def firstSorted (g : List PyId) : Option PyId :=
  match sortedIds g with
  | some (x :: _) => some x
  | _ => none

theorem mem_insertSorted (x y : PyId) (l : List PyId) : y ∈ insertSorted x l ↔ y = x ∨ y ∈ l := by
  induction l with
  | nil => simp [insertSorted]
  | cons a t ih =>
    unfold insertSorted; split
    · simp
    · simp only [List.mem_cons, ih]
      constructor
      · rintro (h | h | h)
        · exact Or.inr (Or.inl h)
        · exact Or.inl h
        · exact Or.inr (Or.inr h)
      · rintro (h | h | h)
        · exact Or.inr (Or.inl h)
        · exact Or.inl h
        · exact Or.inr (Or.inr h)

theorem mem_foldr_insertSorted (y : PyId) (l : List PyId) : y ∈ l.foldr insertSorted [] ↔ y ∈ l := by
  induction l with
  | nil => simp
  | cons a t ih => simp only [List.foldr_cons, mem_insertSorted, ih, List.mem_cons]

/-- `sorted` returns a rearrangement: same elements -/
theorem sortedIds_mem {l r : List PyId} (h : sortedIds l = some r) (y : PyId) : y ∈ r ↔ y ∈ l := by
  unfold sortedIds at h
  cases l with
  | nil => simp only [Option.some.injEq] at h; rw [← h]
  | cons x t =>
    simp only [] at h
    split at h
    · split at h
      · simp only [Option.some.injEq] at h; rw [← h]
      · cases h
    · simp only [Option.some.injEq] at h; rw [← h]; exact mem_foldr_insertSorted y _

theorem firstSorted_mem {g : List PyId} {x : PyId} (h : firstSorted g = some x) : x ∈ g := by
  unfold firstSorted at h
  split at h
  · rename_i y _ heq
    simp only [Option.some.injEq] at h; subst h
    exact (sortedIds_mem heq _).1 (by simp)
  · cases h

theorem sortedIds_single (x : PyId) : sortedIds [x] = some [x] := by
  unfold sortedIds
  simp only []
  split
  · simp
  · rfl

theorem firstSorted_single (x : PyId) : firstSorted [x] = some x := by
  unfold firstSorted; rw [sortedIds_single]

/-- `sorted` raises exactly when `firstSorted` is undefined on a non-empty list -/
theorem firstSorted_none {g : List PyId} (hne : g ≠ []) (h : firstSorted g = none) : sortedIds g = none := by
  unfold firstSorted at h
  cases hs : sortedIds g with
  | none => rfl
  | some r =>
    rw [hs] at h
    cases r with
    | cons a t => simp at h
    | nil =>
      exfalso
      cases g with
      | nil => exact hne rfl
      | cons a t => have := (sortedIds_mem hs a).2 (by simp); cases this

/-! ### one group, the loop -/

theorem mergeGroup_first_ok (s : HG) {g : List PyId} {x : PyId} (hne : g ≠ []) (h : firstSorted g = some x) :
    mergeGroup .first .first none s g =
      (s, .ok { members := s.mem (ghead g), idx := some x, attr := s.eattr x }) := by
  cases g with
  | nil => exact absurd rfl hne
  | cons r t =>
    unfold firstSorted at h
    split at h
    · rename_i y rest heq
      simp only [Option.some.injEq] at h; subst h
      simp only [mergeGroup, mergeNewId, mergeAttrs, heq, ghead, List.headD_cons]
      rfl
    · cases h

theorem mergeGroup_first_err (s : HG) {g : List PyId} (hne : g ≠ []) (h : firstSorted g = none) :
    mergeGroup .first .first none s g = (s, .error .typeError) := by
  cases g with
  | nil => exact absurd rfl hne
  | cons r t =>
    have hs := firstSorted_none hne h
    simp only [mergeGroup, mergeNewId, hs]

/-- the edge built for a group of repeated edges: members of the first edge of the group, the smallest ID, its attributes -/
def repItem (s : HG) (g : List PyId) : EdgeItem :=
  { members := s.mem (ghead g), idx := firstSorted g, attr := s.eattr ((firstSorted g).getD .none) }

theorem multi_ne_nil {g : List PyId} (h : multi g = true) : g ≠ [] := by
  intro hg; subst hg; simp [multi] at h

theorem mergeLoop_all_ok (s : HG) (gs : List (List PyId)) (dups : List PyId) (news : List EdgeItem)
    (h : ∀ g ∈ gs.filter multi, ∃ x, firstSorted g = some x) :
    mergeLoop .first .first none s gs dups news =
      (s, .ok (dups ++ (gs.filter multi).flatten, news ++ (gs.filter multi).map (repItem s))) := by
  induction gs generalizing dups news with
  | nil => simp [mergeLoop]
  | cons g gs ih =>
    simp only [mergeLoop]
    by_cases hlen : g.length ≤ 1
    · have hm : multi g = false := by simp [multi, hlen]
      simp only [hlen, if_true, List.filter_cons, hm, Bool.false_eq_true, if_false] at h ⊢
      exact ih dups news h
    · have hm : multi g = true := by simp [multi, hlen]
      simp only [hlen, if_false]
      obtain ⟨x, hx⟩ := h g (by simp [hm])
      rw [mergeGroup_first_ok s (multi_ne_nil hm) hx]
      simp only []
      rw [ih (dups ++ g) _ (fun g' hg' => h g' (by simp only [List.filter_cons, hm, if_true]; exact List.mem_cons_of_mem _ hg'))]
      simp only [List.filter_cons, hm, if_true, List.flatten_cons, List.map_cons, List.append_assoc,
        List.singleton_append]
      have : repItem s g = { members := s.mem (ghead g), idx := some x, attr := s.eattr x } := by
        unfold repItem; rw [hx]; rfl
      rw [this]

theorem mergeLoop_some_err (s : HG) (gs : List (List PyId)) (dups : List PyId) (news : List EdgeItem)
    (h : ∃ g ∈ gs.filter multi, firstSorted g = none) :
    mergeLoop .first .first none s gs dups news = (s, .error .typeError) := by
  induction gs generalizing dups news with
  | nil => obtain ⟨g, hg, _⟩ := h; cases hg
  | cons g gs ih =>
    simp only [mergeLoop]
    by_cases hlen : g.length ≤ 1
    · have hm : multi g = false := by simp [multi, hlen]
      simp only [hlen, if_true]
      apply ih
      simpa [hm] using h
    · have hm : multi g = true := by simp [multi, hlen]
      simp only [hlen, if_false]
      cases hf : firstSorted g with
      | none => rw [mergeGroup_first_err s (multi_ne_nil hm) hf]
      | some x =>
        rw [mergeGroup_first_ok s (multi_ne_nil hm) hf]
        simp only []
        apply ih
        obtain ⟨g', hg', hn⟩ := h
        simp only [List.filter_cons, hm, if_true, List.mem_cons] at hg'
        rcases hg' with hg' | hg'
        · subst hg'; rw [hf] at hn; cases hn
        · exact ⟨g', hg', hn⟩

/-! ### the whole call -/

/-- what `merge_duplicate_edges()` (defaults) leaves behind -/
structure Merged (s m : HG) : Prop where
  nodes : m.nodes = s.nodes
  nattr : ∀ n ∈ s.nodes, m.nattr n = s.nattr n
  net : m.net = s.net
  frozen : m.frozen = s.frozen
  /-- the surviving edges: of every class of edges with equal member sets the first of `sorted(IDs)` -/
  edges : ∀ x, x ∈ m.edges ↔ x ∈ s.edges ∧ firstSorted (dupsOf s x) = some x
  /-- unrepeated edges keep their place, the representatives of the merged classes follow -/
  order : m.edges = s.edges.filter (fun x => decide ((dupsOf s x).length ≤ 1)) ++
      ((groupDups s).filter multi).map (fun g => (firstSorted g).getD .none)
  mem : ∀ x ∈ m.edges, ∀ z, z ∈ m.mem x ↔ z ∈ s.mem x
  memSame : ∀ x ∈ m.edges, (dupsOf s x).length ≤ 1 → m.mem x = s.mem x
  eattr : AttrWF s → ∀ x ∈ m.edges, m.eattr x = s.eattr x
  /-- every class could be sorted -/
  sortable : ∀ x ∈ s.edges, ∃ y, firstSorted (dupsOf s x) = some y

theorem mergeDuplicateEdges_of_loop_ok {s : HG} {D : List PyId} {N : List EdgeItem} (hf : s.frozen = false)
    (hloop : mergeLoop .first .first none s (groupDups s) [] [] = (s, .ok (D, N)))
    (h1 : (removeEdgesFrom s D).2 = .ok) (h2 : (addEdgesFrom (removeEdgesFrom s D).1 .f4 N []).2 = .ok) :
    mergeDuplicateEdges s .first .first none = some ((addEdgesFrom (removeEdgesFrom s D).1 .f4 N []).1, .ok) := by
  unfold mergeDuplicateEdges
  rw [hloop]
  simp only []
  rw [guardF_live _ _ hf]
  have hf1 : (removeEdgesFrom s D).1.frozen = false := by rw [removeEdgesFrom_frozen]; exact hf
  rw [guardF_live _ _ hf1]
  simp [h1, h2, Outcome.isErr, Outcome.join]

theorem mergeDuplicateEdges_of_loop_err {s : HG}
    (hloop : mergeLoop .first .first none s (groupDups s) [] [] = (s, .error .typeError)) :
    mergeDuplicateEdges s .first .first none = some (s, .err .typeError) := by
  unfold mergeDuplicateEdges
  rw [hloop]

/-- `merge_duplicate_edges()` on an unfrozen well-formed network: either every class of repeated edges has IDs
    that `sorted` accepts, and the call returns (no warning) the merged network; or some class has not, and the
    call raises `TypeError` before changing anything -/
theorem merge_total {s : HG} (hs : Live s) :
    (∃ m, mergeDuplicateEdges s .first .first none = some (m, .ok) ∧ Merged s m) ∨
    (mergeDuplicateEdges s .first .first none = some (s, .err .typeError) ∧
      ∃ x ∈ s.edges, 1 < (dupsOf s x).length ∧ sortedIds (dupsOf s x) = none) := by
  have hw := hs.1.1
  have hG := groupDups_inv s
  by_cases hall : ∀ g ∈ (groupDups s).filter multi, ∃ x, firstSorted g = some x
  · left
    have hloop := mergeLoop_all_ok s (groupDups s) [] [] hall
    simp only [List.nil_append] at hloop
    generalize hMG : (groupDups s).filter multi = MG at *
    have hMGsub : ∀ g ∈ MG, g ∈ groupDups s ∧ multi g = true := by
      intro g hg; rw [← hMG] at hg; exact List.mem_filter.1 hg
    -- the removed IDs: all members of the repeated classes
    have hDin : ∀ e ∈ MG.flatten, e ∈ s.edges := by
      intro e he
      obtain ⟨g, hg, heg⟩ := List.mem_flatten.1 he
      exact ((hG.grp g (hMGsub g hg).1).2 e heg).1
    have hgnd : ∀ g ∈ groupDups s, g.Nodup := by
      intro g hg; rw [groupDups_exact s g hg]; exact nodup_filter _ hw.nodupE
    have hdisj : ∀ g ∈ groupDups s, ∀ g' ∈ groupDups s, ∀ x, x ∈ g → x ∈ g' → g = g' := by
      intro g hg g' hg' x hx hx'
      rw [group_eq_dupsOf hg hx, group_eq_dupsOf hg' hx']
    have hMGpw : MG.Pairwise (fun a b => a ≠ b) := by
      rw [← hMG]
      apply List.Pairwise.filter
      apply List.Pairwise.imp_of_mem _ hG.heads
      intro a b ha _ hab heq
      subst heq
      rw [sameSet_refl] at hab; cases hab
    have hDnd : MG.flatten.Nodup := by
      rw [List.nodup_flatten]
      refine ⟨fun g hg => hgnd g (hMGsub g hg).1, ?_⟩
      apply List.Pairwise.imp_of_mem _ hMGpw
      intro a b ha hb hab x hxa hxb
      exact hab (hdisj a (hMGsub a ha).1 b (hMGsub b hb).1 x hxa hxb)
    obtain ⟨o1, r1t, r1e⟩ := removeEdges_spec MG.flatten s hDnd hDin
    -- the representatives
    have hrep : ∀ g ∈ MG, ∃ x, firstSorted g = some x ∧ x ∈ g ∧ x ∈ s.edges ∧ g = dupsOf s x := by
      intro g hg
      obtain ⟨x, hx⟩ := hall g hg
      have hxg := firstSorted_mem hx
      exact ⟨x, hx, hxg, ((hG.grp g (hMGsub g hg).1).2 x hxg).1, group_eq_dupsOf (hMGsub g hg).1 hxg⟩
    have hidmap : (MG.map (repItem s)).map (fun it => it.idx.getD .none) = MG.map (fun g => (firstSorted g).getD .none) := by
      rw [List.map_map]; rfl
    have hid : ((MG.map (repItem s)).map (fun it => it.idx.getD .none)).Nodup := by
      rw [hidmap, List.nodup_map_iff_inj_on (List.Pairwise.imp (fun h => h) hMGpw |> fun h => by
        exact (List.nodup_iff_pairwise_ne.2 h))]
      intro a ha b hb heq
      obtain ⟨x, hx, hxa, _, _⟩ := hrep a ha
      obtain ⟨y, hy, hyb, _, _⟩ := hrep b hb
      rw [hx, hy] at heq
      simp only [Option.getD_some] at heq
      subst heq
      exact hdisj a (hMGsub a ha).1 b (hMGsub b hb).1 x hxa hyb
    have hokN : ∀ it ∈ MG.map (repItem s), it.idx.getD .none ≠ .none ∧
        it.idx.getD .none ∉ (removeEdgesFrom s MG.flatten).1.edges ∧ PyId.none ∉ it.members := by
      intro it hit
      obtain ⟨g, hg, rfl⟩ := List.mem_map.1 hit
      obtain ⟨x, hx, hxg, hxe, _⟩ := hrep g hg
      have hid' : (repItem s g).idx.getD .none = x := by unfold repItem; rw [hx]; rfl
      rw [hid']
      refine ⟨ne_none_of_mem hw.noNoneE hxe, ?_, ?_⟩
      · rw [r1e, List.mem_filter]
        rintro ⟨_, hnot⟩
        have : x ∈ MG.flatten := List.mem_flatten.2 ⟨g, hg, hxg⟩
        simp [this] at hnot
      · have hne := (hG.grp g (hMGsub g hg).1).1
        have hh := ghead_mem hne
        exact wf_none_not_mem hw ((hG.grp g (hMGsub g hg).1).2 _ hh).1
    obtain ⟨o2, am⟩ := bulk_f4 (MG.map (repItem s)) (removeEdgesFrom s MG.flatten).1 hid hokN
    rw [← addEdgesFrom_f4] at o2 am
    refine ⟨_, mergeDuplicateEdges_of_loop_ok hs.2 hloop o1 o2, ?_⟩
    generalize (removeEdgesFrom s MG.flatten).1 = r1 at *
    generalize (addEdgesFrom r1 .f4 (MG.map (repItem s)) []).1 = m at *
    -- the IDs of the added edges
    have hids : (f4Items (MG.map (repItem s))).map (·.1) = MG.map (fun g => (firstSorted g).getD .none) := by
      simp only [f4Items, List.map_map]; rfl
    have hnew : ∀ x, x ∈ (f4Items (MG.map (repItem s))).map (·.1) ↔ ∃ g ∈ MG, firstSorted g = some x := by
      intro x; rw [hids, List.mem_map]
      constructor
      · rintro ⟨g, hg, rfl⟩
        obtain ⟨y, hy, _⟩ := hrep g hg
        exact ⟨g, hg, by rw [hy]; rfl⟩
      · rintro ⟨g, hg, hx⟩; exact ⟨g, hg, by rw [hx]; rfl⟩
    have hitem : ∀ g ∈ MG, ∀ x, firstSorted g = some x →
        (x, dedup (s.mem (ghead g)), Attrs.update [] (s.eattr x)) ∈ f4Items (MG.map (repItem s)) := by
      intro g hg x hx
      simp only [f4Items, List.map_map, List.mem_map]
      refine ⟨g, hg, ?_⟩
      simp only [Function.comp, repItem, hx, Option.getD_some]
    -- an old edge survives iff it is alone in its class
    have hold : ∀ x, x ∈ r1.edges ↔ x ∈ s.edges ∧ (dupsOf s x).length ≤ 1 := by
      intro x
      rw [r1e, List.mem_filter]
      constructor
      · rintro ⟨hx, hnot⟩
        refine ⟨hx, ?_⟩
        obtain ⟨hd1, hd2⟩ := dupsOf_mem_groups hx
        apply Classical.byContradiction; intro hlen
        have : dupsOf s x ∈ MG := by rw [← hMG, List.mem_filter]; exact ⟨hd1, by simp [multi, hlen]⟩
        have : x ∈ MG.flatten := List.mem_flatten.2 ⟨_, this, hd2⟩
        simp [this] at hnot
      · rintro ⟨hx, hlen⟩
        refine ⟨hx, ?_⟩
        simp only [decide_not, Bool.not_eq_eq_eq_not, Bool.not_true, decide_eq_false_iff_not]
        intro hin
        obtain ⟨g, hg, hxg⟩ := List.mem_flatten.1 hin
        have := group_eq_dupsOf (hMGsub g hg).1 hxg
        have hm := (hMGsub g hg).2
        rw [this] at hm
        simp [multi] at hm; omega
    have hnotnew : ∀ x, x ∈ r1.edges → x ∉ (f4Items (MG.map (repItem s))).map (·.1) := by
      intro x hx hn
      obtain ⟨g, hg, hfx⟩ := (hnew x).1 hn
      obtain ⟨y, hy, hyg, _, hgd⟩ := hrep g hg
      rw [hfx] at hy; simp only [Option.some.injEq] at hy; subst hy
      have hm := (hMGsub g hg).2
      rw [hgd] at hm
      have := ((hold x).1 hx).2
      simp [multi] at hm; omega
    have hedges : ∀ x, x ∈ m.edges ↔ x ∈ s.edges ∧ firstSorted (dupsOf s x) = some x := by
      intro x
      rw [am.edges, List.mem_append, hold, hnew]
      constructor
      · rintro (⟨hx, hlen⟩ | ⟨g, hg, hfx⟩)
        · exact ⟨hx, by rw [dupsOf_single hx hlen]; exact firstSorted_single x⟩
        · obtain ⟨y, hy, hyg, hye, hgd⟩ := hrep g hg
          rw [hfx] at hy; simp only [Option.some.injEq] at hy; subst hy
          exact ⟨hye, by rw [← hgd]; exact hfx⟩
      · rintro ⟨hx, hfx⟩
        by_cases hlen : (dupsOf s x).length ≤ 1
        · exact Or.inl ⟨hx, hlen⟩
        · right
          refine ⟨dupsOf s x, ?_, hfx⟩
          rw [← hMG, List.mem_filter]; exact ⟨(dupsOf_mem_groups hx).1, by simp [multi, hlen]⟩
    have hnodes : m.nodes = s.nodes := by
      rw [am.nodes_same ?_, r1t.nodes]
      intro it hit n hn
      simp only [f4Items, List.map_map, List.mem_map, Function.comp] at hit
      obtain ⟨g, hg, rfl⟩ := hit
      simp only [repItem, mem_dedup] at hn
      have hne := (hG.grp g (hMGsub g hg).1).1
      rw [r1t.nodes]
      exact (hw.e2n _ ((hG.grp g (hMGsub g hg).1).2 _ (ghead_mem hne)).1 n hn).1
    constructor
    · exact hnodes
    · intro n hn; rw [am.nattr_old n (by rw [r1t.nodes]; exact hn), r1t.nattr]
    · rw [am.net, r1t.net]
    · rw [am.frozen, r1t.frozen]
    · exact hedges
    · rw [am.edges, hids, hMG]; congr 1
      rw [r1e]; apply List.filter_congr; intro x hx
      rw [Bool.eq_iff_iff]
      have := hold x
      rw [r1e, List.mem_filter] at this
      simp only [hx, true_and] at this
      simpa using this
    · intro x hx z
      rw [am.edges, List.mem_append] at hx
      rcases hx with hx | hx
      · rw [am.mem_old x (hnotnew x hx), r1t.mem]
      · obtain ⟨g, hg, hfx⟩ := (hnew x).1 hx
        rw [am.mem_new _ (hitem g hg x hfx)]
        simp only [mem_dedup]
        have hxg := firstSorted_mem hfx
        exact (sameSet_iff _ _).1 ((hG.grp g (hMGsub g hg).1).2 x hxg).2 z
    · intro x hx hlen
      have hxs := ((hedges x).1 hx).1
      have : x ∈ r1.edges := (hold x).2 ⟨hxs, hlen⟩
      rw [am.mem_old x (hnotnew x this), r1t.mem]
    · intro ha x hx
      have hx' := hx
      rw [am.edges, List.mem_append] at hx
      rcases hx with hx | hx
      · rw [am.eattr_old x (hnotnew x hx), r1t.eattr]
      · obtain ⟨g, hg, hfx⟩ := (hnew x).1 hx
        rw [am.eattr_new _ (hitem g hg x hfx)]
        simp only []
        rw [update_nil (ha.eattr x ((hedges x).1 hx').1), update_nil (ha.eattr x ((hedges x).1 hx').1)]
    · intro x hx
      by_cases hlen : (dupsOf s x).length ≤ 1
      · exact ⟨x, by rw [dupsOf_single hx hlen]; exact firstSorted_single x⟩
      · apply hall
        rw [← hMG, List.mem_filter]; exact ⟨(dupsOf_mem_groups hx).1, by simp [multi, hlen]⟩
  · right
    have hex : ∃ g ∈ (groupDups s).filter multi, firstSorted g = none := by
      apply Classical.byContradiction; intro hc
      apply hall
      intro g hg
      cases hf : firstSorted g with
      | none => exact absurd ⟨g, hg, hf⟩ hc
      | some x => exact ⟨x, rfl⟩
    refine ⟨mergeDuplicateEdges_of_loop_err (mergeLoop_some_err s _ [] [] hex), ?_⟩
    obtain ⟨g, hg, hf⟩ := hex
    obtain ⟨hg1, hg2⟩ := List.mem_filter.1 hg
    have hne := (hG.grp g hg1).1
    have hh := ghead_mem hne
    have hgd := group_eq_dupsOf hg1 hh
    refine ⟨ghead g, ((hG.grp g hg1).2 _ hh).1, ?_, ?_⟩
    · rw [← hgd]; simpa [multi] using hg2
    · rw [← hgd]; exact firstSorted_none hne hf

/-- after the merge no two edges have the same member set -/
theorem Merged.noMulti {s m : HG} (h : Merged s m) : NoMulti m := by
  intro x hx y hy hsame
  obtain ⟨hx1, hx2⟩ := (h.edges x).1 hx
  obtain ⟨hy1, hy2⟩ := (h.edges y).1 hy
  have : dupsOf s x = dupsOf s y := by
    apply dupsOf_congr
    intro z; rw [← h.mem x hx z, ← h.mem y hy z]; exact hsame z
  rw [this, hy2] at hx2
  exact (Option.some.inj hx2).symm

/-- every original edge is represented after the merge -/
theorem Merged.covers_all {s m : HG} (h : Merged s m) :
    ∀ x ∈ s.edges, ∃ y ∈ m.edges, ∀ z, z ∈ s.mem y ↔ z ∈ s.mem x := by
  intro x hx
  obtain ⟨y, hy⟩ := h.sortable x hx
  have hyd := firstSorted_mem hy
  obtain ⟨hye, hym⟩ := dupsOf_sub s x y hyd
  have hd : dupsOf s y = dupsOf s x := dupsOf_congr hym
  have hym' : y ∈ m.edges := (h.edges y).2 ⟨hye, by rw [hd]; exact hy⟩
  exact ⟨y, hym', hym⟩

end Xgi.C19
