/-
  C19 — `cleanup` and `convert_labels_to_integers` of the other two classes.

  Nothing is re-modelled here: `SimplicialComplex.cleanup` is `SC.cleanup` of XgiModel/C03/SC.lean (the
  state-machine model of C03: strong node removal, `largest_connected_hypergraph(in_place=True)`,
  `convert_labels_to_integers(in_place=True)` through `add_simplices_from`), `DiHypergraph.cleanup` is
  `DHG.cleanup` of XgiModel/C02/DHG.lean (weak removal of the isolated nodes, relabelling through
  `add_edges_from`), and the `in_place=False` variants run the same pipelines on `SC.copy` / `DHG.copy`.
  This file only names the four entry points the C19 driver calls, so that the theorems of
  Props/C19.lean are about exactly what the driver runs.

  Order hints (`SC.Hints`) are empty: neither the copy nor the relabelling of a *closed* complex creates a
  face or a node that is not listed explicitly, so no Python set-iteration order reaches the result.
-/
import XgiModel.C03.SC
import XgiModel.C03.Copy
import XgiModel.C02.DHG

namespace Xgi.C19
open Xgi

/-- `S.cleanup(isolates, connected, relabel, in_place)`.  `in_place=False`: `_S = self.copy()`, the pipeline
    runs on `_S`, which is returned (the argument is never written: the model is a pure function of `s`). -/
def scCleanup (s : HG) (isolatesOk connected relabelF inPlace : Bool) : HG × Outcome :=
  if inPlace then SC.cleanup s isolatesOk connected relabelF {} else
  HG.andThen (SC.copy s {}) (fun c => SC.cleanup c isolatesOk connected relabelF {})

/-- `xgi.convert_labels_to_integers(S, label_attribute, in_place)` on a simplicial complex -/
def scRelabel (s : HG) (labelAttr : String) (inPlace : Bool) : HG × Outcome :=
  if inPlace then SC.relabel s labelAttr {} else
  HG.andThen (SC.copy s {}) (fun c => SC.relabel c labelAttr {})

/-- `DH.cleanup(isolates, relabel, in_place)` (`none`: the copy lies outside the directed model) -/
def dhCleanup (s : DHG) (isolatesOk relabelF inPlace : Bool) : Option (DHG × Outcome) :=
  DHG.cleanup s isolatesOk relabelF inPlace

/-- `xgi.convert_labels_to_integers(DH, label_attribute, in_place)` on a directed hypergraph -/
def dhRelabel (s : DHG) (labelAttr : String) (inPlace : Bool) : Option (DHG × Outcome) :=
  if inPlace then some (DHG.relabel s labelAttr) else
  (DHG.copy s).map fun c => if c.2.isErr then c else DHG.relabel c.1 labelAttr

end Xgi.C19
