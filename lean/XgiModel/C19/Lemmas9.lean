/-
  C19 helper lemmas, part 9: reachability ("joined by a chain of edges"), soundness and completeness of
  `_plain_bfs` with the fuel `len(nodes) + 1`, `connected_components` as the partition into reachability
  classes, and connectivity of the sub-network induced on a class.
-/
import XgiModel.C19.Lemmas8
import Mathlib.Logic.Relation

namespace Xgi.C19
open Xgi Xgi.HG

/-! ### reachability -/

/-- two nodes lie in a common edge -/
def Adj (s : HG) (a b : PyId) : Prop := ∃ e ∈ s.edges, a ∈ s.mem e ∧ b ∈ s.mem e

/-- joined by a chain of edges (reflexive-transitive closure of "lie in a common edge") -/
abbrev Reach (s : HG) : PyId → PyId → Prop := Relation.ReflTransGen (Adj s)

/-- every two nodes are joined by a chain of edges -/
def Connected (s : HG) : Prop := ∀ x ∈ s.nodes, ∀ y ∈ s.nodes, Reach s x y

theorem Adj.symm {s : HG} {a b : PyId} (h : Adj s a b) : Adj s b a := by
  obtain ⟨e, he, ha, hb⟩ := h; exact ⟨e, he, hb, ha⟩

theorem Reach.symm {s : HG} {a b : PyId} (h : Reach s a b) : Reach s b a := by
  induction h with
  | refl => exact Relation.ReflTransGen.refl
  | tail _ hab ih => exact Relation.ReflTransGen.head hab.symm ih

theorem mem_nbrs_iff {s : HG} (h : WF s) {v w : PyId} (hv : v ∈ s.nodes) :
    w ∈ nbrs s v ↔ w ≠ v ∧ Adj s v w := by
  unfold nbrs Adj
  simp only [mem_rm, mem_dedup, List.mem_flatMap]
  constructor
  · rintro ⟨hne, e, he, hw⟩
    obtain ⟨he1, he2⟩ := h.n2e v hv e he
    exact ⟨hne, e, he1, he2, hw⟩
  · rintro ⟨hne, e, he, hve, hw⟩
    exact ⟨hne, e, (h.e2n e he v hve).2, hw⟩

/-! ### `_plain_bfs` computes the reachability class -/

theorem bfs_sound {s : HG} (h : WF s) (src : PyId) (fuel : Nat) (seen level : List PyId)
    (hs : ∀ x ∈ seen, Reach s src x) (hl : ∀ x ∈ level, Reach s src x) (hln : ∀ x ∈ level, x ∈ s.nodes) :
    ∀ x ∈ bfsLevels s fuel seen level, Reach s src x := by
  induction fuel generalizing seen level with
  | zero => exact hs
  | succ fuel ih =>
    unfold bfsLevels
    by_cases hle : level.isEmpty = true
    · simp only [hle, if_true]; exact hs
    · simp only [hle, Bool.false_eq_true, if_false]
      have hfr : ∀ v ∈ (dedup level).filter (· ∉ seen), v ∈ level := by
        intro v hv; simpa using (List.mem_filter.1 hv).1
      apply ih
      · intro x hx
        rcases List.mem_append.1 hx with hx | hx
        · exact hs x hx
        · exact hl x (hfr x hx)
      · intro x hx
        simp only [mem_dedup, List.mem_flatMap] at hx
        obtain ⟨u, hu, hxu⟩ := hx
        have hul := hfr u hu
        exact Relation.ReflTransGen.tail (hl u hul) ((mem_nbrs_iff h (hln u hul)).1 hxu).2
      · intro x hx
        simp only [mem_dedup, List.mem_flatMap] at hx
        obtain ⟨u, hu, hxu⟩ := hx
        exact nbrs_sub h (hln u (hfr u hu)) hxu

/-- `_plain_bfs(H, v)` is exactly the set of nodes joined to `v` by a chain of edges; the fuel
    `len(nodes) + 1` is enough (through `bfs_closed`) -/
theorem plainBfs_spec {s : HG} (h : WF s) {v : PyId} (hv : v ∈ s.nodes) (x : PyId) :
    x ∈ plainBfs s v ↔ Reach s v x := by
  obtain ⟨g1, g2, g3⟩ := plainBfs_closed h hv
  constructor
  · intro hx
    unfold plainBfs at hx
    exact bfs_sound h v _ [] [v] (fun _ hx => by cases hx)
      (fun y hy => by rw [List.mem_singleton] at hy; subst hy; exact Relation.ReflTransGen.refl)
      (fun y hy => by rw [List.mem_singleton] at hy; subst hy; exact hv) x hx
  · intro hr
    induction hr with
    | refl => exact g1
    | @tail b c _ hab ih =>
      by_cases hcb : c = b
      · rw [hcb]; exact ih
      · exact g3 b ih c ((mem_nbrs_iff h (g2 b ih)).2 ⟨hcb, hab⟩)

theorem reach_nodes {s : HG} (h : WF s) {x y : PyId} (hx : x ∈ s.nodes) (hr : Reach s x y) : y ∈ s.nodes := by
  induction hr with
  | refl => exact hx
  | tail _ hab _ => obtain ⟨e, he, _, hc⟩ := hab; exact (h.e2n e he _ hc).1

/-! ### `connected_components` -/

/-- the loop body of `connected_components` -/
def compStep (s : HG) (acc : List (List PyId) × List PyId) (v : PyId) : List (List PyId) × List PyId :=
  if v ∈ acc.2 then acc else (acc.1 ++ [plainBfs s v], acc.2 ++ plainBfs s v)

theorem components_eq (s : HG) : components s = (s.nodes.foldl (compStep s) ([], [])).1 := rfl

theorem compFold_skip (s : HG) (l : List PyId) (acc : List (List PyId) × List PyId) (h : ∀ v ∈ l, v ∈ acc.2) :
    l.foldl (compStep s) acc = acc := by
  induction l with
  | nil => rfl
  | cons a t ih =>
    have ha : compStep s acc a = acc := by unfold compStep; rw [if_pos (h a (by simp))]
    rw [List.foldl_cons, ha]; exact ih (fun v hv => h v (by simp [hv]))

/-- invariant of the loop: the components found are BFS classes of nodes, pairwise disjoint, and `seen` is their union -/
structure CompInv (s : HG) (acc : List (List PyId) × List PyId) : Prop where
  cls : ∀ c ∈ acc.1, ∃ v ∈ s.nodes, c = plainBfs s v
  seen : ∀ x, x ∈ acc.2 ↔ ∃ c ∈ acc.1, x ∈ c
  disj : acc.1.Pairwise (fun c c' => ∀ x ∈ c, x ∉ c')

theorem compStep_inv {s : HG} (h : WF s) {acc : List (List PyId) × List PyId} (hi : CompInv s acc) {v : PyId}
    (hv : v ∈ s.nodes) : CompInv s (compStep s acc v) ∧ (∀ x ∈ acc.2, x ∈ (compStep s acc v).2) ∧ v ∈ (compStep s acc v).2 := by
  unfold compStep
  by_cases hin : v ∈ acc.2
  · rw [if_pos hin]; exact ⟨hi, fun _ hx => hx, hin⟩
  · rw [if_neg hin]
    refine ⟨⟨?_, ?_, ?_⟩, fun x hx => List.mem_append_left _ hx,
      List.mem_append_right _ (plainBfs_closed h hv).1⟩
    · intro c hc
      rcases List.mem_append.1 hc with hc | hc
      · exact hi.cls c hc
      · rw [List.mem_singleton] at hc; exact ⟨v, hv, hc⟩
    · intro x
      simp only [List.mem_append, List.mem_singleton, hi.seen x]
      constructor
      · rintro (⟨c, hc, hx⟩ | hx)
        · exact ⟨c, Or.inl hc, hx⟩
        · exact ⟨_, Or.inr rfl, hx⟩
      · rintro ⟨c, hc | hc, hx⟩
        · exact Or.inl ⟨c, hc, hx⟩
        · subst hc; exact Or.inr hx
    · rw [List.pairwise_append]
      refine ⟨hi.disj, by simp, ?_⟩
      intro c hc c' hc' x hx hx'
      rw [List.mem_singleton] at hc'; subst hc'
      obtain ⟨w, hw, rfl⟩ := hi.cls c hc
      -- `x` is reachable from both roots, so `v` is reachable from `w`: it was seen already
      have r1 := (plainBfs_spec h hw x).1 hx
      have r2 := (plainBfs_spec h hv x).1 hx'
      have : v ∈ plainBfs s w := (plainBfs_spec h hw v).2 (r1.trans r2.symm)
      exact hin ((hi.seen v).2 ⟨_, hc, this⟩)

theorem compFold_inv {s : HG} (h : WF s) (l : List PyId) (acc : List (List PyId) × List PyId) (hi : CompInv s acc)
    (hl : ∀ v ∈ l, v ∈ s.nodes) :
    CompInv s (l.foldl (compStep s) acc) ∧ (∀ x ∈ acc.2, x ∈ (l.foldl (compStep s) acc).2) ∧
    ∀ v ∈ l, v ∈ (l.foldl (compStep s) acc).2 := by
  induction l generalizing acc with
  | nil => exact ⟨hi, fun _ hx => hx, fun _ hv => by cases hv⟩
  | cons a t ih =>
    obtain ⟨s1, s2, s3⟩ := compStep_inv h hi (hl a (by simp))
    obtain ⟨g1, g2, g3⟩ := ih (compStep s acc a) s1 (fun v hv => hl v (by simp [hv]))
    rw [List.foldl_cons]
    refine ⟨g1, fun x hx => g2 x (s2 x hx), ?_⟩
    intro v hv
    rcases List.mem_cons.1 hv with hv | hv
    · subst hv; exact g2 v s3
    · exact g3 v hv

/-- `connected_components(H)` is the partition of the nodes into reachability classes: every component is the
    class of one of its nodes, the components are pairwise disjoint, and every node lies in one -/
theorem components_partition {s : HG} (h : WF s) :
    (∀ c ∈ components s, ∃ v ∈ s.nodes, ∀ x, x ∈ c ↔ Reach s v x) ∧
    (components s).Pairwise (fun c c' => ∀ x ∈ c, x ∉ c') ∧
    (∀ v ∈ s.nodes, ∃ c ∈ components s, v ∈ c) := by
  obtain ⟨g1, _, g3⟩ := compFold_inv h s.nodes ([], [])
    ⟨(fun _ hc => by cases hc), (fun x => by simp), List.Pairwise.nil⟩ (fun _ hv => hv)
  rw [components_eq]
  refine ⟨?_, g1.disj, fun v hv => (g1.seen v).1 (g3 v hv)⟩
  intro c hc
  obtain ⟨v, hv, rfl⟩ := g1.cls c hc
  exact ⟨v, hv, plainBfs_spec h hv⟩

/-- a connected network has at most one component: none without nodes, else the BFS class of the first node,
    which is the whole node set -/
theorem components_of_connected {s : HG} (h : WF s) (hc : Connected s) :
    (components s).length ≤ 1 ∧ (s.nodes ≠ [] → (components s).length = 1) ∧
    ∀ c ∈ components s, ∀ x, x ∈ c ↔ x ∈ s.nodes := by
  rw [components_eq]
  cases hn : s.nodes with
  | nil => simp
  | cons v rest =>
    have hv : v ∈ s.nodes := by rw [hn]; simp
    have hstep : compStep s ([], []) v = ([plainBfs s v], plainBfs s v) := by
      unfold compStep; simp
    rw [List.foldl_cons, hstep, compFold_skip s rest _ (by
      intro w hw
      have hwn : w ∈ s.nodes := by rw [hn]; simp [hw]
      exact (plainBfs_spec h hv w).2 (hc v hv w hwn))]
    refine ⟨by simp, fun _ => by simp, ?_⟩
    intro c hcm x
    simp only [List.mem_singleton] at hcm; subst hcm
    rw [plainBfs_spec h hv, ← hn]
    exact ⟨fun hr => reach_nodes h hv hr, fun hx => hc v hv x hx⟩

/-- conversely, a single component means connected -/
theorem connected_of_components {s : HG} (h : WF s) (hl : (components s).length ≤ 1) : Connected s := by
  obtain ⟨p1, _, p3⟩ := components_partition h
  intro x hx y hy
  obtain ⟨c, hc, hxc⟩ := p3 x hx
  obtain ⟨c', hc', hyc⟩ := p3 y hy
  have : c = c' := by
    cases hcs : components s with
    | nil => rw [hcs] at hc; cases hc
    | cons a t =>
      cases t with
      | nil => rw [hcs] at hc hc'; simp only [List.mem_singleton] at hc hc'; rw [hc, hc']
      | cons b t' => rw [hcs] at hl; simp at hl
  subst this
  obtain ⟨v, _, hv⟩ := p1 c hc
  exact ((hv x).1 hxc).symm.trans ((hv y).1 hyc)

/-- no component at all: there is no node -/
theorem largestComponent_none {t : HG} (hc : largestComponent t = none) : t.nodes = [] := by
  cases hn : t.nodes with
  | nil => rfl
  | cons v rest =>
    exfalso
    rw [largestComponent_eq, components_eq, hn, List.foldl_cons] at hc
    have hstep : compStep t ([], []) v = ([plainBfs t v], plainBfs t v) := by unfold compStep; simp
    rw [hstep] at hc
    have key : ∀ (l : List PyId) (acc : List (List PyId) × List PyId), acc.1 ≠ [] →
        (l.foldl (compStep t) acc).1 ≠ [] := by
      intro l
      induction l with
      | nil => intro acc h; exact h
      | cons a l ih =>
        intro acc h; rw [List.foldl_cons]; apply ih
        unfold compStep; split
        · exact h
        · simp
    have key2 : ∀ (l : List (List PyId)) (b : List PyId), l.foldl better (some b) ≠ none := by
      intro l
      induction l with
      | nil => intro b h; cases h
      | cons x l ih =>
        intro b; simp only [List.foldl_cons]
        unfold better; simp only []; split <;> exact ih _
    cases hcomp : (rest.foldl (compStep t) ([plainBfs t v], plainBfs t v)).1 with
    | nil => exact key rest _ (by simp) hcomp
    | cons a l =>
      rw [hcomp] at hc; simp only [List.foldl_cons] at hc
      have hb : better none a = some a := rfl
      rw [hb] at hc
      exact key2 l a hc

/-! ### the sub-network induced on a closed class is connected -/

/-- a chain of edges that starts inside a closed node set stays inside it, and survives in any network `u` that
    keeps the edges lying inside the set with their members -/
theorem induced_reach {t u : HG} {c : List PyId} (hcl : EdgeClosed t c)
    (hue : ∀ e ∈ t.edges, (∀ x ∈ t.mem e, x ∈ c) → e ∈ u.edges ∧ u.mem e = t.mem e)
    {x y : PyId} (hx : x ∈ c) (hr : Reach t x y) : Reach u x y ∧ y ∈ c := by
  induction hr with
  | refl => exact ⟨Relation.ReflTransGen.refl, hx⟩
  | tail _ hab ih =>
    obtain ⟨e, he, hb, hc⟩ := hab
    have hall := hcl e he _ hb ih.2
    obtain ⟨he', hm⟩ := hue e he hall
    exact ⟨Relation.ReflTransGen.tail ih.1 ⟨e, he', by rw [hm]; exact hb, by rw [hm]; exact hc⟩, hall _ hc⟩

/-- the network induced on one BFS class is connected -/
theorem induced_connected {t u : HG} (h : WF t) {v : PyId} (hv : v ∈ t.nodes)
    (hn : ∀ x ∈ u.nodes, x ∈ plainBfs t v)
    (hue : ∀ e ∈ t.edges, (∀ x ∈ t.mem e, x ∈ plainBfs t v) → e ∈ u.edges ∧ u.mem e = t.mem e) :
    Connected u := by
  intro x hx y hy
  have rx := (plainBfs_spec h hv x).1 (hn x hx)
  have ry := (plainBfs_spec h hv y).1 (hn y hy)
  exact (induced_reach (plainBfs_edgeClosed h hv) hue (hn x hx) (rx.symm.trans ry)).1

/-- the connected step of `cleanup` leaves a connected network -/
theorem stepC_connected {t : HG} (h : Live t) : Connected (stepC true t).1 := by
  obtain ⟨_, _, _, c4, c5⟩ := stepC_spec true h
  obtain ⟨c5n, c5e⟩ := c5 rfl
  generalize (stepC true t).1 = u at *
  unfold largestOrEmpty at c5n c5e
  cases hc : largestComponent t with
  | none =>
    have := largestComponent_none hc
    intro x hx; rw [c5n, this] at hx; cases hx
  | some c =>
    rw [hc] at c5n c5e; simp only [Option.getD_some] at c5n c5e
    obtain ⟨pre, post, hcomp, _, _⟩ := largestComponent_spec hc
    obtain ⟨v, hv, rfl⟩ := components_mem c (by rw [hcomp]; simp)
    apply induced_connected h.1.1 hv
    · intro x hx; rw [c5n] at hx; simpa using (List.mem_filter.1 hx).2
    · intro e he hall
      have : e ∈ u.edges := by
        rw [c5e, List.mem_filter]; exact ⟨he, by simpa using hall⟩
      exact ⟨this, c4.mem e this⟩

/-- integer relabelling preserves connectivity -/
theorem relabelled_connected {t r : HG} {l : String} (hrel : Relabelled t r l) (hc : Connected t) : Connected r := by
  have lift : ∀ a b, Reach t a b → Reach r (pos t.nodes a) (pos t.nodes b) := by
    intro a b hab
    induction hab with
    | refl => exact Relation.ReflTransGen.refl
    | tail _ hbc ih =>
      obtain ⟨e, he, hx, hy⟩ := hbc
      refine Relation.ReflTransGen.tail ih
        ⟨pos t.edges e, by rw [hrel.edges]; exact List.mem_map_of_mem he, ?_, ?_⟩
      · rw [hrel.mem e he]; exact List.mem_map_of_mem hx
      · rw [hrel.mem e he]; exact List.mem_map_of_mem hy
  intro x' hx' y' hy'
  rw [hrel.nodes] at hx' hy'
  obtain ⟨x, hx, rfl⟩ := List.mem_map.1 hx'
  obtain ⟨y, hy, rfl⟩ := List.mem_map.1 hy'
  exact lift x y (hc x hx y hy)

/-- `cleanup(connected=True)`: the result is connected, whatever the other flags -/
theorem cleanup_connected {s : HG} (hs : Live s) (a b c e : Bool) (r : HG × Outcome)
    (hr : cleanup' s a b c true e = some r) (hne : r.2.isErr = false) : Connected r.1 ∧ WF r.1 := by
  obtain ⟨p0, _, _, hl0, h1, _⟩ := cleanup_chain hs a b c true e r hr hne
  obtain ⟨_, s2, _⟩ := stepS_spec b hl0
  obtain ⟨_, i2, _⟩ := stepI_spec a s2
  obtain ⟨_, c2, _⟩ := stepC_spec true i2
  have hcon := stepC_connected i2
  obtain ⟨_, r2, _, _, _, r6, r7⟩ := stepR_spec e c2
  rw [h1]
  refine ⟨?_, r2.1⟩
  cases e with
  | false => rw [r7 rfl]; exact hcon
  | true => exact relabelled_connected (r6 rfl) hcon

end Xgi.C19
