/-
  C19 helper lemmas, part 7: the four steps of `cleanup` after the merge, as functions of their flag.
-/
import XgiModel.C19.Lemmas6

namespace Xgi.C19
open Xgi Xgi.HG

def stepS (b : Bool) (t : HG) : HG × Outcome := if b then (t, .ok) else guardF t (removeEdgesFrom t (singletons t))
def stepI (a : Bool) (t : HG) : HG × Outcome := if a then (t, .ok) else guardF t (removeNodesFrom t (isolates t) false true)
def stepC (d : Bool) (t : HG) : HG × Outcome := if d then lccInPlace' t else (t, .ok)

/-- the connected step of C19/Derived.lean is the shared model's `HG.lccInPlace` -/
theorem lccInPlace'_eq (t : HG) : lccInPlace' t = lccInPlace t := rfl
def stepR (e : Bool) (t : HG) : HG × Outcome := if e then relabel t "label" else (t, .ok)

theorem cleanup'_eq (s : HG) (a b c d e : Bool) :
    cleanup' s a b c d e =
      (if c then some (s, Outcome.ok) else mergeDuplicateEdges s .first .first none).map
        (fun r0 => andThen (andThen (andThen (andThen r0 (stepS b)) (stepI a)) (stepC d)) (stepR e)) := rfl

/-- nothing but deletions of whole nodes and whole edges: `u` keeps a sub-list of the nodes and of the edges of
    `t`, every kept edge with its member list and attributes, every kept node with its attributes -/
structure SubNet (t u : HG) : Prop where
  nodes : u.nodes.Sublist t.nodes
  edges : u.edges.Sublist t.edges
  mem : ∀ e ∈ u.edges, u.mem e = t.mem e
  nattr : ∀ n ∈ u.nodes, u.nattr n = t.nattr n
  eattr : ∀ e ∈ u.edges, u.eattr e = t.eattr e
  net : u.net = t.net

theorem SubNet.refl (t : HG) : SubNet t t :=
  ⟨List.Sublist.refl _, List.Sublist.refl _, fun _ _ => rfl, fun _ _ => rfl, fun _ _ => rfl, rfl⟩

theorem SubNet.trans {a b c : HG} (h1 : SubNet a b) (h2 : SubNet b c) : SubNet a c := by
  constructor
  · exact h2.nodes.trans h1.nodes
  · exact h2.edges.trans h1.edges
  · intro e he; rw [h2.mem e he, h1.mem e (h2.edges.subset he)]
  · intro n hn; rw [h2.nattr n hn, h1.nattr n (h2.nodes.subset hn)]
  · intro e he; rw [h2.eattr e he, h1.eattr e (h2.edges.subset he)]
  · rw [h2.net, h1.net]

theorem SubNet.noSing {t u : HG} (h : SubNet t u) (hs : NoSing t) : NoSing u :=
  fun e he => by rw [h.mem e he]; exact hs e (h.edges.subset he)

theorem SubNet.noMulti {t u : HG} (h : SubNet t u) (hs : NoMulti t) : NoMulti u := by
  intro e he e' he' hsame
  apply hs e (h.edges.subset he) e' (h.edges.subset he')
  rw [← h.mem e he, ← h.mem e' he']; exact hsame

theorem stepS_spec (b : Bool) {t : HG} (h : Live t) :
    (stepS b t).2 = .ok ∧ Live (stepS b t).1 ∧ (b = false → NoSing (stepS b t).1) ∧ SubNet t (stepS b t).1 ∧
    (b = false → (stepS b t).1.edges = t.edges.filter (fun e => decide ((t.mem e).length ≠ 1))) := by
  cases b with
  | true => exact ⟨rfl, h, (fun hb => by cases hb), SubNet.refl t, (fun hb => by cases hb)⟩
  | false =>
    have hs : stepS false t = guardF t (removeEdgesFrom t (singletons t)) := rfl
    rw [hs]
    obtain ⟨g1, g2, g3, g4, g5⟩ := stageS_spec h
    refine ⟨g1, g2, fun _ => g3, ?_, fun _ => g5⟩
    exact ⟨by rw [g4.nodes]; exact List.Sublist.refl _, by rw [g5]; exact List.filter_sublist, fun e _ => by rw [g4.mem],
      fun n _ => by rw [g4.nattr], fun e _ => by rw [g4.eattr], g4.net⟩

theorem stepI_spec (a : Bool) {t : HG} (h : Live t) :
    (stepI a t).2 = .ok ∧ Live (stepI a t).1 ∧ (a = false → NoIso (stepI a t).1) ∧ SubNet t (stepI a t).1 ∧
    (stepI a t).1.edges = t.edges ∧
    (a = false → (stepI a t).1.nodes = t.nodes.filter (fun n => decide (t.memb n ≠ []))) := by
  cases a with
  | true => exact ⟨rfl, h, (fun hb => by cases hb), SubNet.refl t, rfl, (fun hb => by cases hb)⟩
  | false =>
    have hs : stepI false t = guardF t (removeNodesFrom t (isolates t) false true) := rfl
    rw [hs]
    obtain ⟨g1, g2, g3, g4, g5, g6, g7, g8, g9⟩ := stageI_spec h
    refine ⟨g1, g2, fun _ => g3, ?_, g5, fun _ => g4⟩
    exact ⟨by rw [g4]; exact List.filter_sublist, by rw [g5]; exact List.Sublist.refl _, fun e _ => by rw [g6],
      fun n _ => by rw [g7], fun e _ => by rw [g8], g9⟩

theorem edgeClosed_nil (t : HG) : EdgeClosed t [] := fun _ _ _ _ hn => by cases hn

theorem stepC_spec (d : Bool) {t : HG} (h : Live t) :
    (stepC d t).2 = .ok ∧ Live (stepC d t).1 ∧ (NoIso t → NoIso (stepC d t).1) ∧ SubNet t (stepC d t).1 ∧
    (d = true → (stepC d t).1.nodes = t.nodes.filter (· ∈ largestOrEmpty t) ∧
      (stepC d t).1.edges = t.edges.filter (fun e => (t.mem e).all (· ∈ largestOrEmpty t))) := by
  cases d with
  | false => exact ⟨rfl, h, (fun hi => hi), SubNet.refl t, (fun hb => by cases hb)⟩
  | true =>
    have hs : stepC true t = lccInPlace' t := rfl
    rw [hs]
    unfold lccInPlace'
    simp only []
    rw [guardF_live _ _ h.2]
    have hcl : EdgeClosed t (largestOrEmpty t) := by
      unfold largestOrEmpty
      cases hc : largestComponent t with
      | none => exact edgeClosed_nil t
      | some c => exact (largestComponent_closed h.1.1 hc).1
    obtain ⟨g1, g2, g3, g4, g5, g6, g7, g8⟩ := removeOutside_spec h.1.1 (largestOrEmpty t) hcl
    have hl : Live (removeNodesFrom t (t.nodes.filter (· ∉ largestOrEmpty t)) false true).1 :=
      ⟨removeNodesFrom_inv h.1 _ _ _, by rw [removeNodesFrom_frozen]; exact h.2⟩
    generalize removeNodesFrom t (t.nodes.filter (· ∉ largestOrEmpty t)) false true = u at *
    simp only [g1, Outcome.isErr, Bool.false_eq_true, if_false]
    refine ⟨trivial, hl, ?_, ?_, fun _ => ⟨g2, g3⟩⟩
    · intro hi n hn
      rw [g5]; rw [g2] at hn; exact hi n (List.mem_filter.1 hn).1
    · exact ⟨by rw [g2]; exact List.filter_sublist, by rw [g3]; exact List.filter_sublist, g4,
        fun n _ => by rw [g7], fun e _ => by rw [g6], g8⟩

theorem stepR_spec (e : Bool) {t : HG} (h : Live t) :
    (stepR e t).2 = .ok ∧ Inv (stepR e t).1 ∧
    (NoSing t → NoSing (stepR e t).1) ∧ (NoIso t → NoIso (stepR e t).1) ∧ (NoMulti t → NoMulti (stepR e t).1) ∧
    (e = true → Relabelled t (stepR e t).1 "label") ∧ (e = false → (stepR e t).1 = t) := by
  cases e with
  | false => exact ⟨rfl, h.1, (fun x => x), (fun x => x), (fun x => x), (fun hb => by cases hb), (fun _ => rfl)⟩
  | true =>
    have hs : stepR true t = relabel t "label" := rfl
    rw [hs]
    obtain ⟨g1, g2, g3, g4, g5⟩ := relabel_preserves h "label"
    exact ⟨g1, g2, g3, g4, g5, (fun _ => (relabel_fields h.1 h.2 "label").2), (fun hb => by cases hb)⟩


/-- a run of `cleanup` that does not raise is: the merge (or nothing), then the four steps -/
theorem cleanup_chain {s : HG} (hs : Live s) (a b c d e : Bool) (r : HG × Outcome)
    (hr : cleanup' s a b c d e = some r) (hne : r.2.isErr = false) :
    ∃ p0 : HG × Outcome,
      (if c then some (s, Outcome.ok) else mergeDuplicateEdges s .first .first none) = some p0 ∧
      p0.2.isErr = false ∧ Live p0.1 ∧
      r.1 = (stepR e (stepC d (stepI a (stepS b p0.1).1).1).1).1 ∧ r.2 = p0.2 := by
  rw [cleanup'_eq] at hr
  simp only [Option.map_eq_some_iff] at hr
  obtain ⟨p0, hp0, hchain⟩ := hr
  have hl0 : Live p0.1 := by
    cases c with
    | true => simp only [if_true, Option.some.injEq] at hp0; rw [← hp0]; exact hs
    | false => simp only [Bool.false_eq_true, if_false] at hp0; exact merge_live hs p0 hp0
  cases herr : p0.2.isErr with
  | true =>
    rw [andThen_err p0 _ herr, andThen_err p0 _ herr, andThen_err p0 _ herr, andThen_err p0 _ herr] at hchain
    rw [← hchain] at hne; rw [hne] at herr; cases herr
  | false =>
    obtain ⟨s1, s2, _⟩ := stepS_spec b hl0
    rw [andThen_noerr p0 (stepS b) herr s1] at hchain
    obtain ⟨i1, i2, _⟩ := stepI_spec a s2
    rw [andThen_noerr ((stepS b p0.1).1, p0.2) (stepI a) herr i1] at hchain
    obtain ⟨c1, c2, _⟩ := stepC_spec d i2
    rw [andThen_noerr ((stepI a (stepS b p0.1).1).1, p0.2) (stepC d) herr c1] at hchain
    obtain ⟨r1, _⟩ := stepR_spec e c2
    rw [andThen_noerr ((stepC d (stepI a (stepS b p0.1).1).1).1, p0.2) (stepR e) herr r1] at hchain
    exact ⟨p0, hp0, herr, hl0, by rw [← hchain], by rw [← hchain]⟩
end Xgi.C19
