/-
  C19 — the connectivity queries of xgi/algorithms/connected.py that `largest_connected_hypergraph` and the
  `connected` step of `cleanup` are built from, transcribed loop for loop on the `HG` model:

    is_connected, number_connected_components, largest_connected_component, node_connected_component

  (`connected_components` = `HG.components`, `_plain_bfs` = `HG.plainBfs`, both in Core/HG.lean.)
  No Mathlib.
-/
import XgiModel.Core.HG

namespace Xgi.C19
open Xgi Xgi.HG

/-- `is_connected(H)`: `len(_plain_bfs(H, list(H.nodes)[0])) == len(H)`; `none` = the `IndexError` of
    `list(H.nodes)[0]` on the null network -/
def isConnected (s : HG) : Option Bool :=
  match s.nodes with
  | [] => none
  | v :: _ => some ((plainBfs s v).length == s.nodes.length)

/-- the loop body of `number_connected_components`: `if v not in seen: c = _plain_bfs(H, v); seen.update(c); num_cc += 1` -/
def countStep (s : HG) (acc : Nat × List PyId) (v : PyId) : Nat × List PyId :=
  if v ∈ acc.2 then acc else (acc.1 + 1, acc.2 ++ plainBfs s v)

/-- `number_connected_components(H)`: its own loop (not `len(list(connected_components(H)))`) -/
def numberComponents (s : HG) : Nat := (s.nodes.foldl (countStep s) (0, [])).1

/-- `largest_connected_component(H)`: `max(connected_components(H), key=len)`; `none` = the `ValueError` of `max()`
    on the null network -/
def largestConnectedComponent (s : HG) : Option (List PyId) := largestComponent s

/-- `node_connected_component(H, n)`: `_plain_bfs(H, n)` if `n in H`, else `XGIError` (`none`) -/
def nodeComponent (s : HG) (n : PyId) : Option (List PyId) :=
  if n ∈ s.nodes then some (plainBfs s n) else none

end Xgi.C19
