/-
  C19 helper lemmas, part 11: the first element of `sorted(ids)` is a minimum — no ID of the list is smaller
  (`idLt`: Python's `<` on int / str / tuple-of-int / tuple-of-str IDs).
-/
import XgiModel.C19.Lemmas10

namespace Xgi.C19
open Xgi Xgi.HG

/-- atoms of one kind -/
def isIntAtom : Atom → Bool | .int _ => true | _ => false
def isStrAtom : Atom → Bool | .str _ => true | _ => false

/-- what is needed of a set of atoms for the order facts below -/
structure AtomOrd (P : Atom → Bool) : Prop where
  trans : ∀ a b c, P a = true → P b = true → P c = true → atomLt a b = true → atomLt b c = true → atomLt a c = true
  tri : ∀ a b, P a = true → P b = true → atomLt a b = false → atomLt b a = false → a = b

theorem atomLt_irrefl (a : Atom) : atomLt a a = false := by
  cases a with
  | int i => simp [atomLt]
  | str t => simp [atomLt]

theorem intAtomOrd : AtomOrd isIntAtom := by
  constructor
  · intro a b c ha hb hc
    cases a <;> cases b <;> cases c <;> simp_all [isIntAtom, atomLt]
    omega
  · intro a b ha hb
    cases a <;> cases b <;> simp_all [isIntAtom, atomLt]
    omega

theorem strAtomOrd : AtomOrd isStrAtom := by
  constructor
  · intro a b c ha hb hc
    cases a <;> cases b <;> cases c <;> simp_all [isStrAtom, atomLt]
    exact fun h1 h2 => String.lt_trans h1 h2
  · intro a b ha hb
    cases a <;> cases b <;> simp_all [isStrAtom, atomLt]
    exact fun h1 h2 => String.le_antisymm h2 h1

theorem atomListLt_irrefl (l : List Atom) : atomListLt l l = false := by
  induction l with
  | nil => rfl
  | cons a t ih => simp [atomListLt, atomLt_irrefl, ih]

theorem atomListLt_trans {P : Atom → Bool} (hP : AtomOrd P) (a b c : List Atom)
    (ha : a.all P = true) (hb : b.all P = true) (hc : c.all P = true)
    (h1 : atomListLt a b = true) (h2 : atomListLt b c = true) : atomListLt a c = true := by
  induction a generalizing b c with
  | nil =>
    cases c with
    | nil => cases b <;> simp [atomListLt] at h1 h2
    | cons z cs => rfl
  | cons x as ih =>
    cases b with
    | nil => simp [atomListLt] at h1
    | cons y bs =>
      cases c with
      | nil => simp [atomListLt] at h2
      | cons z cs =>
        simp only [List.all_cons, Bool.and_eq_true] at ha hb hc
        simp only [atomListLt] at h1 h2 ⊢
        by_cases hxy : atomLt x y = true
        · by_cases hyz : atomLt y z = true
          · rw [if_pos (hP.trans x y z ha.1 hb.1 hc.1 hxy hyz)]
          · rw [if_neg hyz] at h2
            by_cases hzy : atomLt z y = true
            · rw [if_pos hzy] at h2; cases h2
            · have : y = z := hP.tri y z hb.1 hc.1 (by simpa using hyz) (by simpa using hzy)
              subst this; rw [if_pos hxy]
        · rw [if_neg hxy] at h1
          by_cases hyx : atomLt y x = true
          · rw [if_pos hyx] at h1; cases h1
          · rw [if_neg hyx] at h1
            have : x = y := hP.tri x y ha.1 hb.1 (by simpa using hxy) (by simpa using hyx)
            subst this
            by_cases hyz : atomLt x z = true
            · rw [if_pos hyz]
            · rw [if_neg hyz] at h2 ⊢
              by_cases hzy : atomLt z x = true
              · rw [if_pos hzy] at h2; cases h2
              · rw [if_neg hzy] at h2 ⊢
                exact ih bs cs ha.2 hb.2 hc.2 h1 h2

theorem idLt_irrefl (x : PyId) : idLt x x = false := by
  cases x with
  | atom a => exact atomLt_irrefl a
  | tup l => exact atomListLt_irrefl l
  | none => rfl

/-- the classes of IDs that `sorted` accepts -/
def goodClass (c : IdClass) : Prop := c ≠ .mixed ∧ c ≠ .none

theorem idLt_trans {c : IdClass} (hc : goodClass c) {x y z : PyId}
    (hx : idClass x = c) (hy : idClass y = c) (hz : idClass z = c)
    (h1 : idLt x y = true) (h2 : idLt y z = true) : idLt x z = true := by
  cases x with
  | none => simp [idLt] at h1
  | atom a =>
    cases y with
    | none => simp [idLt] at h1
    | tup _ => simp [idLt] at h1
    | atom b =>
      cases z with
      | none => simp [idLt] at h2
      | tup _ => simp [idLt] at h2
      | atom d =>
        simp only [idLt] at h1 h2 ⊢
        cases a <;> cases b <;> cases d <;> simp [atomLt] at h1 h2 ⊢
        · omega
        · exact String.lt_trans h1 h2
  | tup l =>
    cases y with
    | none => simp [idLt] at h1
    | atom _ => simp [idLt] at h1
    | tup m =>
      cases z with
      | none => simp [idLt] at h2
      | atom _ => simp [idLt] at h2
      | tup n =>
        simp only [idLt] at h1 h2 ⊢
        have key : ∀ k : List Atom, idClass (.tup k) = c →
            (c = .intTup ∧ k.all isIntAtom = true) ∨ (c = .strTup ∧ k.all isStrAtom = true) := by
          intro k hk
          simp only [idClass] at hk
          split at hk
          · rename_i hall
            left; refine ⟨hk.symm, ?_⟩
            rw [List.all_eq_true] at hall ⊢
            intro a ha; have := hall a ha; cases a <;> simp_all [isIntAtom]
          · split at hk
            · rename_i hall
              right; refine ⟨hk.symm, ?_⟩
              rw [List.all_eq_true] at hall ⊢
              intro a ha; have := hall a ha; cases a <;> simp_all [isStrAtom]
            · exact absurd hk.symm hc.1
        rcases key l hx with ⟨c1, pl⟩ | ⟨c1, pl⟩ <;> rcases key m hy with ⟨c2, pm⟩ | ⟨c2, pm⟩ <;>
          rcases key n hz with ⟨c3, pn⟩ | ⟨c3, pn⟩
        · exact atomListLt_trans intAtomOrd l m n pl pm pn h1 h2
        · rw [c1] at c3; cases c3
        · rw [c1] at c2; cases c2
        · rw [c1] at c2; cases c2
        · rw [c1] at c2; cases c2
        · rw [c1] at c2; cases c2
        · rw [c1] at c3; cases c3
        · exact atomListLt_trans strAtomOrd l m n pl pm pn h1 h2

/-- the head of an insertion-sorted list is a minimum -/
theorem insertSorted_head_min {c : IdClass} (hc : goodClass c) (a : PyId) (r : List PyId)
    (ha : idClass a = c) (hr : ∀ y ∈ r, idClass y = c)
    (hmin : ∀ h t, r = h :: t → ∀ y ∈ r, idLt y h = false) :
    ∀ h t, insertSorted a r = h :: t → ∀ y ∈ insertSorted a r, idLt y h = false := by
  intro h t heq y hy
  rw [mem_insertSorted] at hy
  cases r with
  | nil =>
    simp only [insertSorted, List.cons.injEq] at heq
    rcases hy with hy | hy
    · rw [hy, ← heq.1]; exact idLt_irrefl a
    · cases hy
  | cons h0 t0 =>
    have hmin0 := hmin h0 t0 rfl
    unfold insertSorted at heq
    by_cases hlt : idLt a h0 = true
    · rw [if_pos hlt] at heq
      simp only [List.cons.injEq] at heq
      rw [← heq.1]
      rcases hy with hy | hy
      · rw [hy]; exact idLt_irrefl a
      · cases hya : idLt y a with
        | false => rfl
        | true =>
          have := idLt_trans hc (hr y hy) ha (hr h0 (by simp)) hya hlt
          rw [hmin0 y hy] at this; cases this
    · rw [if_neg hlt] at heq
      simp only [List.cons.injEq] at heq
      rw [← heq.1]
      rcases hy with hy | hy
      · rw [hy]; simpa using hlt
      · exact hmin0 y hy

theorem foldr_insertSorted_head_min {c : IdClass} (hc : goodClass c) (l : List PyId) (hl : ∀ y ∈ l, idClass y = c) :
    ∀ h t, l.foldr insertSorted [] = h :: t → ∀ y ∈ l.foldr insertSorted [], idLt y h = false := by
  induction l with
  | nil => intro h t heq; cases heq
  | cons a rest ih =>
    simp only [List.foldr_cons]
    apply insertSorted_head_min hc a _ (hl a (by simp))
    · intro y hy; rw [mem_foldr_insertSorted] at hy; exact hl y (by simp [hy])
    · exact ih (fun y hy => hl y (by simp [hy]))

/-- `sorted(g)[0]` is an element of `g` than which no element of `g` is smaller -/
theorem firstSorted_min {g : List PyId} {x : PyId} (h : firstSorted g = some x) :
    x ∈ g ∧ ∀ y ∈ g, idLt y x = false := by
  refine ⟨firstSorted_mem h, ?_⟩
  unfold firstSorted at h
  split at h
  · rename_i x' rest heq
    simp only [Option.some.injEq] at h; subst h
    unfold sortedIds at heq
    cases g with
    | nil => simp at heq
    | cons a t =>
      simp only [] at heq
      split at heq
      · split at heq
        · rename_i hlen
          simp only [Option.some.injEq, List.cons.injEq] at heq
          have ht : t = [] := by
            cases t with
            | nil => rfl
            | cons _ _ => simp at hlen
          subst ht
          intro y hy; simp only [List.mem_singleton] at hy; rw [hy, heq.1]; exact idLt_irrefl _
        · cases heq
      · rename_i hcond
        simp only [Option.some.injEq] at heq
        simp only [not_or, Decidable.not_not, List.all_eq_true, decide_eq_true_eq] at hcond
        intro y hy
        exact foldr_insertSorted_head_min ⟨hcond.1, hcond.2.1⟩ (a :: t) hcond.2.2 x' rest heq y
          ((mem_foldr_insertSorted y _).2 hy)
  · cases h

/-- when `sorted` raises: at least two IDs that are not all of one sortable kind (all ints, all strings, all
    tuples of ints, or all tuples of strings) -/
theorem sortedIds_eq_none_iff (l : List PyId) :
    sortedIds l = none ↔ 1 < l.length ∧ ¬ ∃ c, goodClass c ∧ ∀ y ∈ l, idClass y = c := by
  unfold sortedIds
  cases l with
  | nil => simp
  | cons x t =>
    simp only []
    split
    · rename_i hcond
      have hno : ¬ ∃ c, goodClass c ∧ ∀ y ∈ x :: t, idClass y = c := by
        rintro ⟨c, hc, hall⟩
        have hx := hall x (by simp)
        subst hx
        rcases hcond with h | h | h
        · exact hc.1 h
        · exact hc.2 h
        · apply h; rw [List.all_eq_true]; intro y hy; simpa using hall y hy
      split
      · rename_i hlen
        simp only [reduceCtorEq, false_iff, not_and]
        intro h2; omega
      · rename_i hlen
        simp only [true_iff]
        exact ⟨by omega, hno⟩
    · rename_i hcond
      simp only [reduceCtorEq, false_iff, not_and, Classical.not_not]
      intro _
      simp only [not_or, Decidable.not_not, List.all_eq_true, decide_eq_true_eq] at hcond
      exact ⟨idClass x, ⟨hcond.1, hcond.2.1⟩, hcond.2.2⟩

end Xgi.C19
