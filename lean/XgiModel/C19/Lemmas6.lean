/-
  C19 helper lemmas, part 6: the BFS component is closed under neighbours; removing everything outside
  a closed node set deletes whole edges and leaves the others untouched.
-/
import XgiModel.C19.Lemmas5

namespace Xgi.C19
open Xgi Xgi.HG

/-! ### BFS -/

theorem nbrs_sub {s : HG} (h : WF s) {v w : PyId} (hv : v ∈ s.nodes) (hw : w ∈ nbrs s v) : w ∈ s.nodes := by
  unfold nbrs at hw
  simp only [mem_rm, mem_dedup, List.mem_flatMap] at hw
  obtain ⟨_, e, he, hwe⟩ := hw
  exact (h.e2n e (h.n2e v hv e he).1 w hwe).1

/-- the frontier invariant of the level-synchronous BFS -/
structure BfsInv (s : HG) (seen level : List PyId) : Prop where
  nodup : seen.Nodup
  seenN : ∀ v ∈ seen, v ∈ s.nodes
  levelN : ∀ v ∈ level, v ∈ s.nodes
  front : ∀ v ∈ seen, ∀ w ∈ nbrs s v, w ∈ seen ∨ w ∈ level

theorem bfs_closed {s : HG} (h : WF s) (fuel : Nat) (seen level : List PyId) (hq : BfsInv s seen level)
    (hfuel : fuel + seen.length ≥ s.nodes.length + 1) :
    (∀ v ∈ bfsLevels s fuel seen level, ∀ w ∈ nbrs s v, w ∈ bfsLevels s fuel seen level) ∧
    (∀ v ∈ seen, v ∈ bfsLevels s fuel seen level) ∧
    (∀ v ∈ level, v ∈ bfsLevels s fuel seen level) ∧
    (∀ v ∈ bfsLevels s fuel seen level, v ∈ s.nodes) := by
  have hlen : seen.length ≤ s.nodes.length := List.Nodup.length_le_of_subset hq.nodup hq.seenN
  induction fuel generalizing seen level with
  | zero => omega
  | succ fuel ih =>
    unfold bfsLevels
    by_cases hl : level.isEmpty = true
    · simp only [hl, if_true]
      have : level = [] := List.isEmpty_iff.1 hl
      subst this
      refine ⟨fun v hv w hw => ?_, fun v hv => hv, (fun v hv => by cases hv), hq.seenN⟩
      rcases hq.front v hv w hw with hh | hh
      · exact hh
      · cases hh
    · simp only [hl, Bool.false_eq_true, if_false]
      generalize hfr : (dedup level).filter (· ∉ seen) = fresh
      have hfrN : ∀ v ∈ fresh, v ∈ level ∧ v ∉ seen := by
        intro v hv; rw [← hfr] at hv
        simpa using List.mem_filter.1 hv
      have hfrC : ∀ v ∈ level, v ∈ seen ∨ v ∈ fresh := by
        intro v hv
        by_cases hs : v ∈ seen
        · exact Or.inl hs
        · right; rw [← hfr, List.mem_filter]; exact ⟨by simpa using hv, by simpa using hs⟩
      have hq' : BfsInv s (seen ++ fresh) (dedup (fresh.flatMap (nbrs s))) := by
        constructor
        · rw [List.nodup_append]
          refine ⟨hq.nodup, by rw [← hfr]; exact nodup_filter _ (nodup_dedup _), ?_⟩
          intro a ha b hb hab; subst hab; exact (hfrN a hb).2 ha
        · intro v hv
          rcases List.mem_append.1 hv with hv | hv
          · exact hq.seenN v hv
          · exact hq.levelN v (hfrN v hv).1
        · intro v hv
          simp only [mem_dedup, List.mem_flatMap] at hv
          obtain ⟨u, hu, hvu⟩ := hv
          exact nbrs_sub h (hq.levelN u (hfrN u hu).1) hvu
        · intro v hv w hw
          rcases List.mem_append.1 hv with hv | hv
          · rcases hq.front v hv w hw with hh | hh
            · exact Or.inl (List.mem_append_left _ hh)
            · rcases hfrC w hh with h1 | h1
              · exact Or.inl (List.mem_append_left _ h1)
              · exact Or.inl (List.mem_append_right _ h1)
          · right; simp only [mem_dedup, List.mem_flatMap]; exact ⟨v, hv, hw⟩
      by_cases hfe : fresh = []
      · -- nothing new: the next call returns `seen`
        subst hfe
        have hres : bfsLevels s fuel (seen ++ []) (dedup (([] : List PyId).flatMap (nbrs s))) = seen := by
          simp only [List.append_nil, List.flatMap_nil]
          cases fuel with
          | zero => rfl
          | succ f => unfold bfsLevels; simp [dedup]
        rw [hres]
        refine ⟨fun v hv w hw => ?_, fun v hv => hv, fun v hv => ?_, hq.seenN⟩
        · rcases hq.front v hv w hw with hh | hh
          · exact hh
          · rcases hfrC w hh with h1 | h1
            · exact h1
            · cases h1
        · rcases hfrC v hv with h1 | h1
          · exact h1
          · cases h1
      · have hpos : fresh.length ≥ 1 := by
          cases fresh with
          | nil => exact absurd rfl hfe
          | cons _ _ => simp
        have hlen' : (seen ++ fresh).length ≤ s.nodes.length :=
          List.Nodup.length_le_of_subset hq'.nodup hq'.seenN
        obtain ⟨g1, g2, _, g4⟩ := ih (seen ++ fresh) (dedup (fresh.flatMap (nbrs s))) hq'
          (by rw [List.length_append]; omega) hlen'
        refine ⟨g1, fun v hv => g2 v (List.mem_append_left _ hv), fun v hv => ?_, g4⟩
        rcases hfrC v hv with h1 | h1
        · exact g2 v (List.mem_append_left _ h1)
        · exact g2 v (List.mem_append_right _ h1)

/-- `_plain_bfs(H, v)`: contains `v`, consists of nodes, closed under neighbours -/
theorem plainBfs_closed {s : HG} (h : WF s) {v : PyId} (hv : v ∈ s.nodes) :
    v ∈ plainBfs s v ∧ (∀ x ∈ plainBfs s v, x ∈ s.nodes) ∧
    (∀ x ∈ plainBfs s v, ∀ w ∈ nbrs s x, w ∈ plainBfs s v) := by
  unfold plainBfs
  obtain ⟨g1, _, g3, g4⟩ := bfs_closed h (s.nodes.length + 1) [] [v]
    ⟨List.nodup_nil, (fun _ hx => by cases hx), (fun x hx => by rw [List.mem_singleton] at hx; subst hx; exact hv), (fun _ hx => by cases hx)⟩
    (by simp)
  exact ⟨g3 v (by simp), g4, g1⟩

/-- a set of nodes no edge leaves -/
def EdgeClosed (s : HG) (c : List PyId) : Prop :=
  ∀ e ∈ s.edges, ∀ n ∈ s.mem e, n ∈ c → ∀ m ∈ s.mem e, m ∈ c

theorem plainBfs_edgeClosed {s : HG} (h : WF s) {v : PyId} (hv : v ∈ s.nodes) : EdgeClosed s (plainBfs s v) := by
  obtain ⟨_, _, g3⟩ := plainBfs_closed h hv
  intro e he n hn hnc m hm
  by_cases hmn : m = n
  · subst hmn; exact hnc
  · apply g3 n hnc
    unfold nbrs
    simp only [mem_rm, mem_dedup, List.mem_flatMap]
    exact ⟨hmn, e, (h.e2n e he n hn).2, hm⟩

theorem components_mem {s : HG} (c : List PyId) (hc : c ∈ components s) : ∃ v ∈ s.nodes, c = plainBfs s v := by
  unfold components at hc
  have key : ∀ (l : List PyId) (acc : List (List PyId) × List PyId),
      (∀ c ∈ acc.1, ∃ v ∈ s.nodes, c = plainBfs s v) → (∀ v ∈ l, v ∈ s.nodes) →
      ∀ c ∈ (l.foldl (fun (acc : List (List PyId) × List PyId) v =>
        if v ∈ acc.2 then acc else (acc.1 ++ [plainBfs s v], acc.2 ++ plainBfs s v)) acc).1,
        ∃ v ∈ s.nodes, c = plainBfs s v := by
    intro l
    induction l with
    | nil => intro acc hacc _ c hc; exact hacc c hc
    | cons a t ih =>
      intro acc hacc hl c hc
      simp only [List.foldl_cons] at hc
      apply ih _ _ (fun v hv => hl v (by simp [hv])) c hc
      split
      · exact hacc
      · intro c' hc'
        simp only [List.mem_append, List.mem_singleton] at hc'
        rcases hc' with hc' | hc'
        · exact hacc c' hc'
        · exact ⟨a, hl a (by simp), hc'⟩
  exact key s.nodes ([], []) (fun _ hx => by cases hx) (fun _ hx => hx) c hc

theorem largestComponent_closed {s : HG} (h : WF s) {c : List PyId} (hc : largestComponent s = some c) :
    EdgeClosed s c ∧ ∀ x ∈ c, x ∈ s.nodes := by
  obtain ⟨pre, post, hcomp, _, _⟩ := largestComponent_spec hc
  obtain ⟨v, hv, rfl⟩ := components_mem c (by rw [hcomp]; simp)
  exact ⟨plainBfs_edgeClosed h hv, (plainBfs_closed h hv).2.1⟩

end Xgi.C19
