/-
  C19 helper lemmas, part 6: the BFS component is closed under neighbours; removing everything outside
  a closed node set deletes whole edges and leaves the others untouched.
-/
import XgiModel.C19.Lemmas5

namespace Xgi.C19
open Xgi Xgi.HG

/-! ### BFS -/

theorem nbrs_sub {s : HG} (h : WF s) {v w : PyId} (hv : v ∈ s.nodes) (hw : w ∈ nbrs s v) : w ∈ s.nodes := by
  unfold nbrs at hw
  simp only [mem_rm, mem_dedup, List.mem_flatMap] at hw
  obtain ⟨_, e, he, hwe⟩ := hw
  exact (h.e2n e (h.n2e v hv e he).1 w hwe).1

/-- the frontier invariant of the level-synchronous BFS -/
structure BfsInv (s : HG) (seen level : List PyId) : Prop where
  nodup : seen.Nodup
  seenN : ∀ v ∈ seen, v ∈ s.nodes
  levelN : ∀ v ∈ level, v ∈ s.nodes
  front : ∀ v ∈ seen, ∀ w ∈ nbrs s v, w ∈ seen ∨ w ∈ level

theorem bfs_closed {s : HG} (h : WF s) (fuel : Nat) (seen level : List PyId) (hq : BfsInv s seen level)
    (hfuel : fuel + seen.length ≥ s.nodes.length + 1) :
    (∀ v ∈ bfsLevels s fuel seen level, ∀ w ∈ nbrs s v, w ∈ bfsLevels s fuel seen level) ∧
    (∀ v ∈ seen, v ∈ bfsLevels s fuel seen level) ∧
    (∀ v ∈ level, v ∈ bfsLevels s fuel seen level) ∧
    (∀ v ∈ bfsLevels s fuel seen level, v ∈ s.nodes) := by
  have hlen : seen.length ≤ s.nodes.length := List.Nodup.length_le_of_subset hq.nodup hq.seenN
  induction fuel generalizing seen level with
  | zero => omega
  | succ fuel ih =>
    unfold bfsLevels
    by_cases hl : level.isEmpty = true
    · simp only [hl, if_true]
      have : level = [] := List.isEmpty_iff.1 hl
      subst this
      refine ⟨fun v hv w hw => ?_, fun v hv => hv, (fun v hv => by cases hv), hq.seenN⟩
      rcases hq.front v hv w hw with hh | hh
      · exact hh
      · cases hh
    · simp only [hl, Bool.false_eq_true, if_false]
      generalize hfr : (dedup level).filter (· ∉ seen) = fresh
      have hfrN : ∀ v ∈ fresh, v ∈ level ∧ v ∉ seen := by
        intro v hv; rw [← hfr] at hv
        simpa using List.mem_filter.1 hv
      have hfrC : ∀ v ∈ level, v ∈ seen ∨ v ∈ fresh := by
        intro v hv
        by_cases hs : v ∈ seen
        · exact Or.inl hs
        · right; rw [← hfr, List.mem_filter]; exact ⟨by simpa using hv, by simpa using hs⟩
      have hq' : BfsInv s (seen ++ fresh) (dedup (fresh.flatMap (nbrs s))) := by
        constructor
        · rw [List.nodup_append]
          refine ⟨hq.nodup, by rw [← hfr]; exact nodup_filter _ (nodup_dedup _), ?_⟩
          intro a ha b hb hab; subst hab; exact (hfrN a hb).2 ha
        · intro v hv
          rcases List.mem_append.1 hv with hv | hv
          · exact hq.seenN v hv
          · exact hq.levelN v (hfrN v hv).1
        · intro v hv
          simp only [mem_dedup, List.mem_flatMap] at hv
          obtain ⟨u, hu, hvu⟩ := hv
          exact nbrs_sub h (hq.levelN u (hfrN u hu).1) hvu
        · intro v hv w hw
          rcases List.mem_append.1 hv with hv | hv
          · rcases hq.front v hv w hw with hh | hh
            · exact Or.inl (List.mem_append_left _ hh)
            · rcases hfrC w hh with h1 | h1
              · exact Or.inl (List.mem_append_left _ h1)
              · exact Or.inl (List.mem_append_right _ h1)
          · right; simp only [mem_dedup, List.mem_flatMap]; exact ⟨v, hv, hw⟩
      by_cases hfe : fresh = []
      · -- nothing new: the next call returns `seen`
        subst hfe
        have hres : bfsLevels s fuel (seen ++ []) (dedup (([] : List PyId).flatMap (nbrs s))) = seen := by
          simp only [List.append_nil, List.flatMap_nil]
          cases fuel with
          | zero => rfl
          | succ f => unfold bfsLevels; simp [dedup]
        rw [hres]
        refine ⟨fun v hv w hw => ?_, fun v hv => hv, fun v hv => ?_, hq.seenN⟩
        · rcases hq.front v hv w hw with hh | hh
          · exact hh
          · rcases hfrC w hh with h1 | h1
            · exact h1
            · cases h1
        · rcases hfrC v hv with h1 | h1
          · exact h1
          · cases h1
      · have hpos : fresh.length ≥ 1 := by
          cases fresh with
          | nil => exact absurd rfl hfe
          | cons _ _ => simp
        have hlen' : (seen ++ fresh).length ≤ s.nodes.length :=
          List.Nodup.length_le_of_subset hq'.nodup hq'.seenN
        obtain ⟨g1, g2, _, g4⟩ := ih (seen ++ fresh) (dedup (fresh.flatMap (nbrs s))) hq'
          (by rw [List.length_append]; omega) hlen'
        refine ⟨g1, fun v hv => g2 v (List.mem_append_left _ hv), fun v hv => ?_, g4⟩
        rcases hfrC v hv with h1 | h1
        · exact g2 v (List.mem_append_left _ h1)
        · exact g2 v (List.mem_append_right _ h1)

/-- `_plain_bfs(H, v)`: contains `v`, consists of nodes, closed under neighbours -/
theorem plainBfs_closed {s : HG} (h : WF s) {v : PyId} (hv : v ∈ s.nodes) :
    v ∈ plainBfs s v ∧ (∀ x ∈ plainBfs s v, x ∈ s.nodes) ∧
    (∀ x ∈ plainBfs s v, ∀ w ∈ nbrs s x, w ∈ plainBfs s v) := by
  unfold plainBfs
  obtain ⟨g1, _, g3, g4⟩ := bfs_closed h (s.nodes.length + 1) [] [v]
    ⟨List.nodup_nil, (fun _ hx => by cases hx), (fun x hx => by rw [List.mem_singleton] at hx; subst hx; exact hv), (fun _ hx => by cases hx)⟩
    (by simp)
  exact ⟨g3 v (by simp), g4, g1⟩

/-- a set of nodes no edge leaves -/
def EdgeClosed (s : HG) (c : List PyId) : Prop :=
  ∀ e ∈ s.edges, ∀ n ∈ s.mem e, n ∈ c → ∀ m ∈ s.mem e, m ∈ c

theorem plainBfs_edgeClosed {s : HG} (h : WF s) {v : PyId} (hv : v ∈ s.nodes) : EdgeClosed s (plainBfs s v) := by
  obtain ⟨_, _, g3⟩ := plainBfs_closed h hv
  intro e he n hn hnc m hm
  by_cases hmn : m = n
  · subst hmn; exact hnc
  · apply g3 n hnc
    unfold nbrs
    simp only [mem_rm, mem_dedup, List.mem_flatMap]
    exact ⟨hmn, e, (h.e2n e he n hn).2, hm⟩

theorem components_mem {s : HG} (c : List PyId) (hc : c ∈ components s) : ∃ v ∈ s.nodes, c = plainBfs s v := by
  unfold components at hc
  have key : ∀ (l : List PyId) (acc : List (List PyId) × List PyId),
      (∀ c ∈ acc.1, ∃ v ∈ s.nodes, c = plainBfs s v) → (∀ v ∈ l, v ∈ s.nodes) →
      ∀ c ∈ (l.foldl (fun (acc : List (List PyId) × List PyId) v =>
        if v ∈ acc.2 then acc else (acc.1 ++ [plainBfs s v], acc.2 ++ plainBfs s v)) acc).1,
        ∃ v ∈ s.nodes, c = plainBfs s v := by
    intro l
    induction l with
    | nil => intro acc hacc _ c hc; exact hacc c hc
    | cons a t ih =>
      intro acc hacc hl c hc
      simp only [List.foldl_cons] at hc
      apply ih _ _ (fun v hv => hl v (by simp [hv])) c hc
      split
      · exact hacc
      · intro c' hc'
        simp only [List.mem_append, List.mem_singleton] at hc'
        rcases hc' with hc' | hc'
        · exact hacc c' hc'
        · exact ⟨a, hl a (by simp), hc'⟩
  exact key s.nodes ([], []) (fun _ hx => by cases hx) (fun _ hx => hx) c hc

theorem largestComponent_closed {s : HG} (h : WF s) {c : List PyId} (hc : largestComponent s = some c) :
    EdgeClosed s c ∧ ∀ x ∈ c, x ∈ s.nodes := by
  obtain ⟨pre, post, hcomp, _, _⟩ := largestComponent_spec hc
  obtain ⟨v, hv, rfl⟩ := components_mem c (by rw [hcomp]; simp)
  exact ⟨plainBfs_edgeClosed h hv, (plainBfs_closed h hv).2.1⟩


/-! ### weak removal of a list of nodes (`remove_nodes_from(…)`, `remove_empty=True`) -/

/-- `u` is `t` after the nodes `P` were removed weakly with `remove_empty=True` -/
structure Outside (t u : HG) (P : List PyId) : Prop where
  nodes : u.nodes = t.nodes.filter (· ∉ P)
  memb : u.memb = t.memb
  mem : ∀ e ∈ t.edges, u.mem e = (t.mem e).filter (· ∉ P)
  edges : u.edges = t.edges.filter (fun e => (t.mem e).isEmpty || (t.mem e).any (· ∉ P))
  eattr : u.eattr = t.eattr
  nattr : u.nattr = t.nattr
  net : u.net = t.net
  frozen : u.frozen = t.frozen

theorem Outside.refl (t : HG) : Outside t t [] := by
  constructor <;> try rfl
  · simp; exact (List.filter_eq_self.2 (fun _ _ => rfl)).symm
  · intro e _; simp; exact (List.filter_eq_self.2 (fun _ _ => rfl)).symm
  · apply (List.filter_eq_self.2 _).symm
    intro e _
    cases hm : t.mem e with
    | nil => simp
    | cons a l => simp

theorem outside_step {t u : HG} (h : WF t) {P : List PyId} (ho : Outside t u P) {n : PyId}
    (hn : n ∈ t.nodes) : Outside t (removeNodeWeak u n true) (P ++ [n]) := by
  obtain ⟨o1, o2, o3, o4, o5, o6, o7, o8⟩ := ho
  unfold removeNodeWeak
  constructor
  · show rm n u.nodes = _
    rw [o1]; simp only [rm, List.filter_filter]
    apply List.filter_congr; intro x _
    by_cases hx : x = n <;> simp [hx]
  · exact o2
  · intro e he
    show (if e ∈ u.memb n then rm n (u.mem e) else u.mem e) = _
    rw [o2, o3 e he]
    by_cases hin : e ∈ t.memb n
    · simp only [hin, if_true, rm, List.filter_filter]
      apply List.filter_congr; intro x _
      by_cases hx : x = n <;> simp [hx]
    · simp only [hin, if_false]
      apply List.filter_congr; intro x hx
      have : x ≠ n := by intro hh; subst hh; exact hin (h.e2n e he x hx).2
      simp [this]
  · show u.edges.filter (fun e => !(decide (e ∈ u.memb n) && (rm n (u.mem e)).isEmpty && true)) = _
    rw [o4, List.filter_filter]
    apply List.filter_congr; intro e he
    rw [o2, o3 e he]
    rw [Bool.eq_iff_iff]
    simp only [Bool.and_true, Bool.and_eq_true, Bool.not_eq_eq_eq_not, Bool.not_true, Bool.and_eq_false_iff,
      decide_eq_false_iff_not, Bool.or_eq_true, List.isEmpty_iff, List.any_eq_true, decide_eq_true_eq,
      List.mem_append, List.mem_singleton, not_or, rm, List.filter_filter]
    constructor
    · rintro ⟨hgone, hkeep⟩
      rcases hkeep with hk | ⟨m, hm, hmP⟩
      · exact Or.inl hk
      · by_cases hmn : m = n
        · subst hmn
          have hin : e ∈ t.memb m := (h.e2n e he m hm).2
          rcases hgone with hg | hg
          · exact absurd hin hg
          · -- the edge keeps a member other than `m`
            have : ((t.mem e).filter (fun a => decide (a ≠ m) && decide (a ∉ P))) ≠ [] := by
              intro hc; rw [hc] at hg; simp at hg
            obtain ⟨m', hm'⟩ := List.exists_mem_of_ne_nil _ this
            simp only [List.mem_filter, Bool.and_eq_true, decide_eq_true_eq] at hm'
            exact Or.inr ⟨m', hm'.1, hm'.2.2, hm'.2.1⟩
        · exact Or.inr ⟨m, hm, hmP, hmn⟩
    · rintro (hk | ⟨m, hm, hmP, hmn⟩)
      · refine ⟨Or.inl ?_, Or.inl hk⟩
        intro hin; have := (h.n2e n hn e hin).2; rw [hk] at this; cases this
      · refine ⟨Or.inr ?_, Or.inr ⟨m, hm, hmP⟩⟩
        cases hf : ((t.mem e).filter (fun a => decide (a ≠ n) && decide (a ∉ P))).isEmpty with
        | false => rfl
        | true =>
          have := List.isEmpty_iff.1 hf
          have hmem : m ∈ (t.mem e).filter (fun a => decide (a ≠ n) && decide (a ∉ P)) := by
            simp only [List.mem_filter, Bool.and_eq_true, decide_eq_true_eq]; exact ⟨hm, hmn, hmP⟩
          rw [this] at hmem; cases hmem
  · exact o5
  · exact o6
  · exact o7
  · exact o8

theorem removeWeak_loop {t : HG} (h : WF t) (l : List PyId) (u : HG) (P : List PyId) (ho : Outside t u P)
    (hl : l.Nodup) (hd : ∀ n ∈ l, n ∉ P) (hin : ∀ n ∈ l, n ∈ t.nodes) :
    (bulk (removeNodesItem false true) u l).2 = .ok ∧ Outside t (bulk (removeNodesItem false true) u l).1 (P ++ l) := by
  induction l generalizing u P with
  | nil => simp only [bulk, List.append_nil]; exact ⟨trivial, ho⟩
  | cons n rest ih =>
    have hnu : n ∈ u.nodes := by
      rw [ho.nodes, List.mem_filter]; exact ⟨hin n (by simp), by simpa using hd n (by simp)⟩
    have hstep : removeNodesItem false true u n = (removeNodeWeak u n true, .ok) := by
      unfold removeNodesItem removeNode; simp [hnu]
    rw [bulk_cons_ok _ u _ n rest hstep]
    simp only [List.nodup_cons] at hl
    have := ih (removeNodeWeak u n true) (P ++ [n]) (outside_step h ho (hin n (by simp))) hl.2 (by
      intro m hm hmP
      rcases List.mem_append.1 hmP with hmP | hmP
      · exact hd m (by simp [hm]) hmP
      · simp only [List.mem_singleton] at hmP; subst hmP; exact hl.1 hm) (fun m hm => hin m (by simp [hm]))
    simpa [List.append_assoc] using this

/-- the connected step: everything outside the closed node set `c` goes, whole edges with it -/
theorem removeOutside_spec {t : HG} (h : WF t) (c : List PyId) (hc : EdgeClosed t c) :
    (removeNodesFrom t (t.nodes.filter (· ∉ c)) false true).2 = .ok ∧
    (removeNodesFrom t (t.nodes.filter (· ∉ c)) false true).1.nodes = t.nodes.filter (· ∈ c) ∧
    (removeNodesFrom t (t.nodes.filter (· ∉ c)) false true).1.edges = t.edges.filter (fun e => (t.mem e).all (· ∈ c)) ∧
    (∀ e ∈ (removeNodesFrom t (t.nodes.filter (· ∉ c)) false true).1.edges,
      (removeNodesFrom t (t.nodes.filter (· ∉ c)) false true).1.mem e = t.mem e) ∧
    (removeNodesFrom t (t.nodes.filter (· ∉ c)) false true).1.memb = t.memb ∧
    (removeNodesFrom t (t.nodes.filter (· ∉ c)) false true).1.eattr = t.eattr ∧
    (removeNodesFrom t (t.nodes.filter (· ∉ c)) false true).1.nattr = t.nattr ∧
    (removeNodesFrom t (t.nodes.filter (· ∉ c)) false true).1.net = t.net := by
  unfold removeNodesFrom
  obtain ⟨g1, g2⟩ := removeWeak_loop h (t.nodes.filter (· ∉ c)) t [] (Outside.refl t) (nodup_filter _ h.nodupN)
    (fun _ _ hx => by cases hx) (fun n hn => (List.mem_filter.1 hn).1)
  simp only [List.nil_append] at g2
  generalize (bulk (removeNodesItem false true) t (t.nodes.filter (· ∉ c))).1 = u at *
  have hX : ∀ x, x ∈ t.nodes → (x ∉ t.nodes.filter (· ∉ c) ↔ x ∈ c) := by
    intro x hx; simp [List.mem_filter, hx]
  have hedges : u.edges = t.edges.filter (fun e => (t.mem e).all (· ∈ c)) := by
    rw [g2.edges]; apply List.filter_congr; intro e he
    rw [Bool.eq_iff_iff]
    simp only [Bool.or_eq_true, List.isEmpty_iff, List.any_eq_true, decide_eq_true_eq, List.all_eq_true]
    constructor
    · rintro (hk | ⟨m, hm, hmX⟩)
      · intro x hx; rw [hk] at hx; cases hx
      · have hmc : m ∈ c := (hX m (h.e2n e he m hm).1).1 hmX
        exact fun x hx => hc e he m hm hmc x hx
    · intro hall
      cases hm : t.mem e with
      | nil => exact Or.inl rfl
      | cons a l =>
        right
        have ha : a ∈ t.mem e := by rw [hm]; simp
        exact ⟨a, by simp, (hX a (h.e2n e he a ha).1).2 (hall a ha)⟩
  refine ⟨g1, ?_, hedges, ?_, g2.memb, g2.eattr, g2.nattr, g2.net⟩
  · rw [g2.nodes]; apply List.filter_congr; intro x hx
    rw [Bool.eq_iff_iff]; simp only [decide_eq_true_eq]; exact hX x hx
  · intro e he
    rw [hedges] at he
    obtain ⟨he1, he2⟩ := List.mem_filter.1 he
    rw [g2.mem e he1]
    apply List.filter_eq_self.2
    intro x hx
    simp only [List.all_eq_true, decide_eq_true_eq] at he2
    have := (hX x (h.e2n e he1 x hx).1).2 (he2 x hx)
    exact decide_eq_true this
end Xgi.C19
