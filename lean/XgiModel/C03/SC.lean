/-
  Model of `xgi.core.simplicialcomplex.SimplicialComplex`, method by method, on the state of the
  undirected model `HG` (a simplicial complex *is* a Hypergraph object whose edges are simplices;
  `_edge[e]` is a frozenset, here a duplicate-free list whose order is never observed).

  The model describes the code with the proposed fixes applied (proposed_fixes/C03-*.diff):
  sub-faces of a simplex cut by `max_order` are limited to `max_order + 1` nodes, `add_simplex([])`
  is ignored, members are validated (`None`) before the first write and the library's error is raised,
  `idx=0` is an explicit id, the faces of what a bulk call has inserted are added also when a later
  element raises, and the deprecated aliases forward `idx` / `max_order`.

  Python set iteration order reaches the observable state in two places only: the order in which
  missing faces are created (their automatic ids) and the order in which new nodes are created.  Both
  are *hints* (`Hints`): the harness records the implementation's orders and the model follows them,
  but the hints only reorder — which faces and nodes are created is computed by the model, and with
  empty hints a canonical order is used.  Every theorem holds for all hints.
-/
import XgiModel.Core.HG

namespace Xgi
namespace SC
open HG

/-! ### sets of nodes -/

/-- `frozenset(a) <= frozenset(b)` -/
def isSubset (a b : List PyId) : Bool := a.all (· ∈ b)

/-- `frozenset(simplex) in self._edge.values()` -/
def hasSimplex (s : HG) (ms : List PyId) : Bool := s.edges.any (fun e => sameSet (s.mem e) ms)

/-- `itertools.combinations(l, r)` (lexicographic in positions) -/
def combs : Nat → List PyId → List (List PyId)
  | 0, _ => [[]]
  | _ + 1, [] => []
  | r + 1, a :: t => (combs r t).map (a :: ·) ++ combs (r + 1) t

/-- `self._subfaces(l)`: `for n in range(size, 2, -1): combinations(l, n - 1)` — sizes `len-1 … 2` -/
def subfacesRaw (l : List PyId) : List (List PyId) :=
  (List.range (l.length - 2)).flatMap (fun i => combs (l.length - 1 - i) l)

/-- `powerset(l, include_singletons=False, max_size=hi)`: sizes `2 … min(hi, len l)` -/
def powersetRaw (l : List PyId) (hi : Nat) : List (List PyId) :=
  (List.range (min hi l.length - 1)).flatMap (fun i => combs (i + 2) l)

/-- orders recorded on the implementation; they reorder, never decide -/
structure Hints where
  faces : List (List PyId) := []   -- member sets of the edges created by the call, in creation order
  nodes : List PyId := []          -- nodes created by the call, in creation order
  deriving Inhabited

/-- iterate `ms` with the elements named by the hint first (in hint order) -/
def orderBy (o ms : List PyId) : List PyId := o.filter (· ∈ ms) ++ ms.filter (· ∉ o)

/-! ### primitives -/

/-- `_add_face(t)`: next automatic id, members `frozenset(t)`, no attributes -/
def addFace (s : HG) (t : List PyId) (h : Hints) : HG :=
  addEdgeAt { s with uid := s.uid + 1 } (PyId.int s.uid) (dedup (orderBy h.nodes t)) []

/-- one step of `for members in set(faces): if not members or self.has_simplex(members): continue;
    self._add_face(members)` -/
def addFaceIfMissing (h : Hints) (s : HG) (t : List PyId) : HG :=
  if t.isEmpty ∨ hasSimplex s t then s else addFace s t h

/-- the order in which the queued faces are visited: as recorded, then the rest -/
def faceOrder (queue : List (List PyId)) (h : Hints) : List (List PyId) :=
  h.faces.filter (fun t => queue.any (sameSet t)) ++ queue

/-- the deferred insertion of the queued faces -/
def addFaces (s : HG) (queue : List (List PyId)) (h : Hints) : HG :=
  (faceOrder queue h).foldl (addFaceIfMissing h) s

/-- create simplex `idx` (absent) with members `frozenset(ms)` and attributes `a`;
    `update_uid_counter(self, idx)` -/
def addTop (s : HG) (idx : PyId) (ms : List PyId) (a : Attrs) (h : Hints) : HG :=
  bumpUid (addEdgeAt s idx (dedup (orderBy h.nodes ms)) a) idx

/-! ### add_simplex -/

def addSimplex (s : HG) (ms : List PyId) (idx : Option PyId) (a : Attrs) (h : Hints) : HG × Outcome :=
  if hasSimplex s ms then (s, .ok) else
  match idx with
  | some .none | none =>
    if ms.isEmpty then (s, .ok) else
    if PyId.none ∈ ms then (s, .err .lib) else
    let i := PyId.int s.uid
    let s := { s with uid := s.uid + 1 }
    (addFaces (addTop s i ms a h) (subfacesRaw (dedup ms)) h, .ok)
  | some i =>
    if i ∈ s.edges then (s, .warned) else
    if ms.isEmpty then (s, .ok) else
    if PyId.none ∈ ms then (s, .err .lib) else
    (addFaces (addTop s i ms a h) (subfacesRaw (dedup ms)) h, .ok)

/-! ### add_simplices_from -/

/-- the faces stored instead of a simplex that exceeds `max_order` (`len(members) > max_order + 1`) -/
def truncQ (maxOrder : Option Nat) (ms : List PyId) : Option (List (List PyId)) :=
  match maxOrder with
  | some k => if ms.length > k + 1 then some (powersetRaw ms (k + 1)) else none
  | none => none

/-- iterate `f` over the items, stop at the first raise (state so far is kept) -/
def bulkS {σ α : Type} (f : σ → α → σ × Outcome) : σ → List α → σ × Outcome
  | s, [] => (s, .ok)
  | s, a :: t =>
    match f s a with
    | (s', .err k) => (s', .err k)
    | (s', o) => let r := bulkS f s' t; (r.1, o.join r.2)

/-- loop body of `add_simplices_from`; the state is the complex and the list `faces` -/
def addSimplicesItem (fmt : Fmt) (attr : Attrs) (maxOrder : Option Nat) (h : Hints)
    (st : HG × List (List PyId)) (it : EdgeItem) : (HG × List (List PyId)) × Outcome :=
  let s := st.1
  let q := st.2
  if it.members.isEmpty ∨ hasSimplex s it.members then (st, .ok) else
  if fmt = .f5 then
    let idx := it.idx.getD .none
    if idx ∈ s.edges then (st, .warned) else
    if PyId.none ∈ it.members then (st, .err .lib) else
    match truncQ maxOrder it.members with
    | some fs => ((s, q ++ fs), .ok)
    | none =>
      if idx = .none then (st, .err .lib) else
      ((addTop s idx it.members [] h, q ++ subfacesRaw it.members), .ok)
  else
    if PyId.none ∈ it.members then (st, .err .lib) else
    -- the id: automatic in formats 1 and 3 (the counter is consumed before the `max_order` test)
    let s1 : HG := if fmt.explicit then s else { s with uid := s.uid + 1 }
    let idx : PyId := if fmt.explicit then it.idx.getD .none else PyId.int s.uid
    match truncQ maxOrder it.members with
    | some fs => ((s1, q ++ fs), .ok)
    | none =>
      if idx ∈ s1.edges then ((s1, q), .warned) else
      if idx = .none then ((s1, q), .err .lib) else
      ((addTop s1 idx it.members (attr.update it.attr) h, q ++ subfacesRaw it.members), .ok)

def addSimplicesFrom (s : HG) (fmt : Fmt) (items : List EdgeItem) (maxOrder : Option Nat) (attr : Attrs)
    (h : Hints) : HG × Outcome :=
  let go : HG × Outcome :=
    let r := bulkS (addSimplicesItem fmt attr maxOrder h) (s, []) items
    -- `finally:` the faces of what has been inserted are added also when an element raised
    (addFaces r.1.1 r.1.2 h, r.2)
  match fmt, items with
  | .f1, it :: _ =>
    -- format detection looks at the first simplex: first member a string but not all members strings ->
    -- "Members cannot be specified as a string" (an empty first simplex is format 1 and is skipped)
    match it.members with
    | [] => go
    | m0 :: _ => if isStr m0 ∧ ¬ it.members.all isStr then (s, .err .lib) else go
  | _, _ => go

/-- `add_weighted_simplices_from`: format 3 with `{weight: w}` as the per-simplex attributes
    (the items already carry that dict) -/
def addWeightedSimplicesFrom (s : HG) (items : List EdgeItem) (maxOrder : Option Nat) (attr : Attrs)
    (h : Hints) : HG × Outcome :=
  addSimplicesFrom s .f3 items maxOrder attr h

/-! ### removal -/

/-- `remove_simplex_id(e)`: all strict supersets (`_supfaces_id`) first, then the simplex -/
def removeSimplexId (s : HG) (e : PyId) : HG × Outcome :=
  if e ∉ s.edges then (s, .err .lib) else
  let sups := s.edges.filter (fun f => isSubset (s.mem e) (s.mem f) && !isSubset (s.mem f) (s.mem e))
  (dropEdge (sups.foldl dropEdge s) e, .ok)

/-- `remove_simplex_ids_from(es)`: ids present at the start that have disappeared meanwhile are skipped -/
def removeSimplexIdsFrom (s : HG) (es : List PyId) : HG × Outcome :=
  let all := s.edges
  bulk (fun t i => if i ∈ all ∧ i ∉ t.edges then (t, .ok) else removeSimplexId t i) s es

/-- `remove_node(n)`: always strong -/
def removeNode (s : HG) (n : PyId) : HG × Outcome :=
  if n ∉ s.nodes then (s, .err .lib) else (removeNodeStrong s n, .ok)

def removeNodesItem (s : HG) (n : PyId) : HG × Outcome :=
  if n ∉ s.nodes then (s, .warned) else removeNode s n

def removeNodesFrom (s : HG) (ns : List PyId) : HG × Outcome := bulk removeNodesItem s ns

/-! ### close -/

/-- `list(map(list, self.edges.members()))`; `orders` are the recorded iteration orders of the frozensets -/
def closeLists (mem : PyId → List PyId) : List PyId → List (List PyId) → List (List PyId)
  | [], _ => []
  | e :: es, [] => mem e :: closeLists mem es []
  | e :: es, o :: os => orderBy o (mem e) :: closeLists mem es os

def faceItem (t : List PyId) : EdgeItem := { members := t, idx := none, attr := [] }

/-- `close()` hands the subfaces of a simplex to `add_simplices_from` as frozensets (proposed_fixes/
    C03-close-hands-faces-over-as-sets.diff): a set in first position is a member set (format 1) whatever its elements
    are, so the *list* rule of format 1 (a string label next to non-string labels is refused; a tuple of tuple labels is
    taken for `(members, id)`) does not apply.  That is the format-1 loop without the sniffing rule, which is what the
    format-3 branch of `addSimplicesFrom` computes for items with an empty attribute dict (`faceItem`): automatic IDs,
    `attr.update {}`. -/
def closeItem (h : Hints) (s : HG) (l : List PyId) : HG × Outcome :=
  if l.isEmpty then (s, .err .other)      -- `simplex[-1]` on an empty simplex
  else guardF s (addSimplicesFrom s .f3 ((subfacesRaw l).map faceItem) none [] h)

def close (s : HG) (orders : List (List PyId)) (h : Hints) : HG × Outcome :=
  bulk (closeItem h) s (closeLists s.mem s.edges orders)

/-! ### cleanup(in_place=True) -/

def lccInPlace (s : HG) : HG × Outcome :=
  -- `max(connected_components(H), key=len, default=set())`: the null complex has no component
  let c := (largestComponent s).getD []
  let r := guardF s (removeNodesFrom s (s.nodes.filter (· ∉ c)))
  (r.1, if r.2.isErr then r.2 else .ok)

/-- `convert_labels_to_integers(S, in_place=True)` -/
def relabel (s : HG) (labelAttr : String) (h : Hints) : HG × Outcome :=
  let nodes0 := s.nodes
  let edges0 := s.edges
  let nidx (n : PyId) : PyId := PyId.int (indexOf nodes0 n)
  let eidx (e : PyId) : PyId := PyId.int (indexOf edges0 e)
  if s.frozen then (s, .err .lib) else
  let s1 := (clear s false).1
  let r1 := addNodesFrom s1 (nodes0.map (fun n => (nidx n, some (s.nattr n)))) []
  let r2 := setNodeAttrs r1.1 (.dictOfDict (nodes0.map (fun n => (nidx n, [(labelAttr, relabel.idVal n)]))))
  let r3 := addSimplicesFrom r2.1 .f4
    (edges0.map (fun e => { members := (s.mem e).map nidx, idx := some (eidx e), attr := s.eattr e })) none [] h
  let r4 := setEdgeAttrs r3.1 (.dictOfDict (edges0.map (fun e => (eidx e, [(labelAttr, relabel.idVal e)]))))
  (r4.1, .ok)

def cleanup (s : HG) (isolatesOk connected relabelF : Bool) (h : Hints) : HG × Outcome :=
  let r1 : HG × Outcome := if isolatesOk then (s, .ok) else guardF s (removeNodesFrom s (isolates s))
  let r2 := andThen r1 (fun s => if connected then lccInPlace s else (s, .ok))
  andThen r2 (fun s => if relabelF then relabel s "label" h else (s, .ok))

/-! ### deprecated aliases: warn, then forward every argument to the method of the new name -/

def deprecated (r : HG × Outcome) : HG × Outcome := (r.1, if r.2.isErr then r.2 else .warned)

/-! ### the op alphabet -/

inductive Op where
  | addNode (n : PyId) (a : Attrs)
  | addNodesFrom (items : List (PyId × Option Attrs)) (a : Attrs)
  | removeNode (n : PyId)
  | removeNodesFrom (ns : List PyId)
  | addSimplex (ms : List PyId) (idx : Option PyId) (a : Attrs) (h : Hints)
  | addSimplicesFrom (fmt : Fmt) (items : List EdgeItem) (maxOrder : Option Nat) (a : Attrs) (h : Hints)
  | addWeightedSimplicesFrom (items : List EdgeItem) (maxOrder : Option Nat) (a : Attrs) (h : Hints)
  | removeSimplexId (e : PyId)
  | removeSimplexIdsFrom (es : List PyId)
  | close (orders : List (List PyId)) (h : Hints)
  | cleanup (isolatesOk connected relabel : Bool) (h : Hints)
  -- deprecated aliases
  | addEdge (ms : List PyId) (idx : Option PyId) (a : Attrs) (h : Hints)
  | addEdgesFrom (fmt : Fmt) (items : List EdgeItem) (maxOrder : Option Nat) (a : Attrs) (h : Hints)
  | addWeightedEdgesFrom (items : List EdgeItem) (maxOrder : Option Nat) (a : Attrs) (h : Hints)
  | removeEdge (e : PyId)
  | removeEdgesFrom (es : List PyId)
  -- inherited
  | clear (removeNetAttr : Bool)
  | clearEdges
  | freeze
  deriving Inhabited

/-- the ops whose own method name `SimplicialComplex.freeze()` replaces by `frozen` (the list is checked
    against the regenerated `Generated/FreezeTable.lean` in Props/C18S).  The deprecated aliases are *not* in that
    list: `freeze()` leaves `add_edge`, `add_edges_from`, `add_weighted_edges_from`, `remove_edge`,
    `remove_edges_from` callable; what stops them is the method they forward to (see `stepCore`). -/
def Op.guardedByFreeze : Op → Bool
  | .addNode .. | .addNodesFrom .. | .removeNode .. | .removeNodesFrom .. | .addSimplex .. | .addSimplicesFrom ..
  | .addWeightedSimplicesFrom .. | .removeSimplexId .. | .removeSimplexIdsFrom .. | .clear .. | .clearEdges => true
  | _ => false

/-- the unfrozen semantics of each op -/
def stepCore (s : HG) : Op → HG × Outcome
  | .addNode n a => addNode s n a
  | .addNodesFrom items a => addNodesFrom s items a
  | .removeNode n => removeNode s n
  | .removeNodesFrom ns => removeNodesFrom s ns
  | .addSimplex ms idx a h => addSimplex s ms idx a h
  | .addSimplicesFrom fmt items k a h => addSimplicesFrom s fmt items k a h
  | .addWeightedSimplicesFrom items k a h => addWeightedSimplicesFrom s items k a h
  | .removeSimplexId e => removeSimplexId s e
  | .removeSimplexIdsFrom es => removeSimplexIdsFrom s es
  | .close orders h => close s orders h
  | .cleanup i c r h => cleanup s i c r h
  -- `warn(...); return self.add_simplex(...)`: the forwarded call is a call of a public method that `freeze()`
  -- replaces, so on a frozen complex it raises before anything is written (`guardF`)
  | .addEdge ms idx a h => deprecated (guardF s (addSimplex s ms idx a h))
  | .addEdgesFrom fmt items k a h => deprecated (guardF s (addSimplicesFrom s fmt items k a h))
  | .addWeightedEdgesFrom items k a h => deprecated (guardF s (addWeightedSimplicesFrom s items k a h))
  | .removeEdge e => deprecated (guardF s (removeSimplexId s e))
  | .removeEdgesFrom es => deprecated (guardF s (removeSimplexIdsFrom s es))
  | .clear b => clear s b
  | .clearEdges => clearEdges s
  | .freeze => ({ s with frozen := true }, .ok)

/-- one public call on the (possibly frozen) complex -/
def step (s : HG) (op : Op) : HG × Outcome :=
  if s.frozen ∧ op.guardedByFreeze then (s, .err .lib) else stepCore s op

end SC
end Xgi
