/-
  Helper lemmas for C07 on the simplicial model: what the rebuild through `addNodesFrom` / `addSimplicesFrom`
  (format 4) produces when the source is a simplicial complex (`SCInv`) — in particular that the deferred face
  insertion finds nothing to add, because the source is closed — and that attribute dicts stay dicts under the
  whole alphabet of XgiModel/C03/SC.lean.
-/
import XgiModel.C03.Copy
import XgiModel.C03.Lemmas
import XgiModel.C07.LemmasAttrs

namespace Xgi
namespace SC
open HG

/-! ### generic facts about the bulk loop with a queue -/

theorem bulkS_map {σ α β : Type} (f : σ → β → σ × Outcome) (g : α → β) (s : σ) (l : List α) :
    bulkS f s (l.map g) = bulkS (fun s a => f s (g a)) s l := by
  induction l generalizing s with
  | nil => rfl
  | cons a t ih => simp only [List.map_cons, bulkS, ih]

theorem bulkS_prefix {σ α : Type} (f : σ → α → σ × Outcome) (P : σ → List α → Prop) (l : List α)
    (hstep : ∀ t done a rest, l = done ++ a :: rest → P t done → (f t a).2 = .ok ∧ P (f t a).1 (done ++ [a])) :
    ∀ (rest done : List α) (t : σ), l = done ++ rest → P t done →
      (bulkS f t rest).2 = .ok ∧ P (bulkS f t rest).1 l := by
  intro rest
  induction rest with
  | nil => intro done t hl hp; simp only [List.append_nil] at hl; subst hl; exact ⟨rfl, hp⟩
  | cons a rest ih =>
    intro done t hl hp
    obtain ⟨hok, hP⟩ := hstep t done a rest hl hp
    rcases hfa : f t a with ⟨t', o⟩
    rw [hfa] at hok hP
    simp only at hok hP
    subst hok
    have := ih (done ++ [a]) t' (by rw [hl]; simp) hP
    simp only [bulkS, hfa]
    exact ⟨by rw [this.1]; rfl, this.2⟩

theorem foldl_fixed {α : Type} (g : HG → α → HG) (t : HG) (L : List α) (h : ∀ u ∈ L, g t u = t) : L.foldl g t = t := by
  induction L with
  | nil => rfl
  | cons u L ih =>
    simp only [List.foldl_cons]
    rw [h u (by simp)]
    exact ih (fun v hv => h v (by simp [hv]))

theorem addSimplicesFrom_f4 (t : HG) (items : List EdgeItem) (k : Option Nat) (attr : Attrs) (hh : Hints) :
    addSimplicesFrom t .f4 items k attr hh =
      (addFaces (bulkS (addSimplicesItem .f4 attr k hh) (t, []) items).1.1
        (bulkS (addSimplicesItem .f4 attr k hh) (t, []) items).1.2 hh,
       (bulkS (addSimplicesItem .f4 attr k hh) (t, []) items).2) := by
  cases items <;> rfl

/-! ### one simplex of the source arrives in the clone -/

/-- `addTop` with the source's members (in any order) and attributes extends the processed prefix -/
theorem edgeStage_addTop {s t : HG} {done : List PyId} (h : EdgeStage s t done) (e : PyId) (hh : Hints)
    (he : e ∉ done) (hms : ∀ n ∈ s.mem e, n ∈ s.nodes) (hd : IsDict (s.eattr e)) :
    EdgeStage s (addTop t e (s.mem e) (s.eattr e) hh) (done ++ [e]) := by
  obtain ⟨h1, h2, h3, h4, h5, h6, h7, h8, h9, h10, h11⟩ := h
  have hmem : ∀ x, x ∈ dedup (orderBy hh.nodes (s.mem e)) ↔ x ∈ s.mem e := sameSet_order hh.nodes (s.mem e)
  unfold addTop
  generalize dedup (orderBy hh.nodes (s.mem e)) = ml at hmem ⊢
  have hms' : ∀ n ∈ ml, n ∈ (updEdgeAttr (newEdgeAttr (newEdgeRaw t e) e) e (s.eattr e)).nodes := by
    intro n hn
    show n ∈ t.nodes
    rw [h1]; exact hms n ((hmem n).1 hn)
  obtain ⟨mb, mm, heq, hmm, hmb⟩ := foldl_link_char ml _ e hms'
  have hadd : addEdgeAt t e ml (s.eattr e) =
      { (updEdgeAttr (newEdgeAttr (newEdgeRaw t e) e) e (s.eattr e)) with memb := mb, mem := mm } := heq
  have htight : Tight (bumpUid (addEdgeAt t e ml (s.eattr e)) e) :=
    tight_bump h11 e (addEdgeAt_edges t e _ _).1 (addEdgeAt_edges t e _ _).2
  rw [bumpUid_eq] at htight ⊢
  generalize (bumpUid (addEdgeAt t e ml (s.eattr e)) e).uid = newUid at htight ⊢
  rw [hadd] at htight ⊢
  simp only [updEdgeAttr, newEdgeAttr, newEdgeRaw, upd_apply, hmem] at hmm hmb htight ⊢
  constructor <;> (try simp only [])
  · exact h1
  · rw [h2]
  · exact h3
  · exact h4
  · exact h5
  · exact h6
  · intro e' he' x; rw [hmm]; grind
  · intro n hn e'; rw [hmb]; grind
  · intro e' he'; simp only [upd_apply]; split
    · rename_i hee; subst hee; simp [update_nil hd]
    · exact h9 e' (by grind)
  · intro e'; rw [mem_ins, h10]; simp; grind
  · exact htight

/-- loop invariant of the rebuild: the processed prefix of the source's simplices is in the clone, and everything
    queued is a proper sub-face (≥ 2 nodes) of a simplex of the source -/
structure CopyStage (s : HG) (st : HG × List (List PyId)) (done : List PyId) : Prop where
  stage : EdgeStage s st.1 done
  queue : ∀ f ∈ st.2, ∃ e ∈ s.edges, f ∈ subfacesRaw (s.mem e)

theorem copyStage_step {s : HG} (h : SCInv s) (ha : AttrsOK s) (hh : Hints) {st : HG × List (List PyId)}
    {done : List PyId} (hp : CopyStage s st done) (e : PyId) (he : e ∈ s.edges) (hnd : e ∉ done)
    (hsub : ∀ f ∈ done, f ∈ s.edges) :
    (addSimplicesItem .f4 [] none hh st { members := s.mem e, idx := some e, attr := s.eattr e }).2 = .ok ∧
    CopyStage s (addSimplicesItem .f4 [] none hh st { members := s.mem e, idx := some e, attr := s.eattr e }).1
      (done ++ [e]) := by
  obtain ⟨t, q⟩ := st
  obtain ⟨hst, hq⟩ := hp
  simp only [] at hst hq
  have hne : e ≠ .none := by intro hc; apply h.wf.noNoneE; rw [← hc]; exact he
  have hms : ∀ n ∈ s.mem e, n ∈ s.nodes := fun n hn => (h.wf.e2n e he n hn).1
  have hnone : PyId.none ∉ s.mem e := fun hc => h.wf.noNoneN (hms _ hc)
  have hidx : e ∉ t.edges := by rw [hst.edges]; exact hnd
  have hemp : (s.mem e).isEmpty = false := by
    have := h.noempty e he
    cases hm : s.mem e with
    | nil => exact absurd hm this
    | cons _ _ => rfl
  have hhas : hasSimplex t (s.mem e) = false := by
    cases hc : hasSimplex t (s.mem e) with
    | false => rfl
    | true =>
      exfalso
      obtain ⟨f, hf, hsf⟩ := (hasSimplex_iff t (s.mem e)).1 hc
      rw [hst.edges] at hf
      have hfe : f = e := h.nodup f (hsub f hf) e he (fun x => ((hst.mem f hf x).symm).trans (hsf x))
      exact hnd (hfe ▸ hf)
  have heq : addSimplicesItem .f4 [] none hh (t, q) { members := s.mem e, idx := some e, attr := s.eattr e } =
      ((addTop t e (s.mem e) (s.eattr e) hh, q ++ subfacesRaw (s.mem e)), .ok) := by
    unfold addSimplicesItem
    simp [hemp, hhas, hnone, Fmt.explicit, truncQ, hidx, hne, update_nil (ha.eattr e)]
  rw [heq]
  refine ⟨rfl, ⟨edgeStage_addTop hst e hh hnd hms (ha.eattr e), ?_⟩⟩
  intro f hf
  rcases List.mem_append.mp hf with hf | hf
  · exact hq f hf
  · exact ⟨e, he, hf⟩

/-- **the source is closed, so no face is missing**: once every simplex of the source is in the clone, the deferred
    face insertion of `add_simplices_from` changes nothing (for every hint) -/
theorem addFaces_noop {s t : HG} (h : SCInv s) (hs : EdgeStage s t s.edges) (q : List (List PyId))
    (hq : ∀ f ∈ q, ∃ e ∈ s.edges, f ∈ subfacesRaw (s.mem e)) (hh : Hints) : addFaces t q hh = t := by
  have hasT : ∀ u, Has s u → Has t u := by
    rintro u ⟨g, hg, hsg⟩
    exact ⟨g, by rw [hs.edges]; exact hg, fun x => (hs.mem g hg x).trans (hsg x)⟩
  have hq' : ∀ f ∈ q, Has t f := by
    intro f hf
    obtain ⟨e, he, hfe⟩ := hq f hf
    rw [mem_subfacesRaw] at hfe
    exact hasT f (h.closed e he f (List.Nodup.sublist hfe.1 (h.wf.setE e he)) (fun x hx => hfe.1.subset hx) hfe.2.1)
  unfold addFaces
  apply foldl_fixed
  intro u hu
  have hu' : Has t u := by
    unfold faceOrder at hu
    rcases List.mem_append.mp hu with hu | hu
    · simp only [List.mem_filter, List.any_eq_true, sameSet_iff] at hu
      obtain ⟨_, f, hf, hsf⟩ := hu
      exact (hq' f hf).congr hsf.symm
    · exact hq' u hu
  unfold addFaceIfMissing
  rw [if_pos (Or.inr ((hasSimplex_iff t u).2 hu'))]

/-! ### the rebuild shared by `copy` and the constructor -/

/-- `add_nodes_from` then `add_simplices_from` (format 4, no `max_order`) on a new complex -/
def rebuildS (s : HG) (hh : Hints) : HG × Outcome :=
  andThen (addNodesFrom HG.empty (nodeItems s) []) (fun cp => addSimplicesFrom cp .f4 (edgeItems s) none [] hh)

theorem copy_eq (s : HG) (hh : Hints) :
    SC.copy s hh = ({ (rebuildS s hh).1 with net := s.net, uid := s.uid }, (rebuildS s hh).2) := rfl

theorem ofComplex_eq (s : HG) (attr : Attrs) (hh : Hints) :
    ofComplex s attr hh = ({ (rebuildS s hh).1 with net := s.net.update attr }, (rebuildS s hh).2) := rfl

theorem rebuildS_scinv (s : HG) (hh : Hints) : SCInv (rebuildS s hh).1 := by
  unfold rebuildS
  exact andThen_inv SCInv _ _ (addNodesFrom_scinv empty_scinv _ _) (fun t ht => addSimplicesFrom_inv ht _ _ _ _ _)

theorem rebuildS_char {s : HG} (h : SCInv s) (ha : AttrsOK s) (hh : Hints) :
    (rebuildS s hh).2 = .ok ∧ EdgeStage s (rebuildS s hh).1 s.edges := by
  obtain ⟨hok, hns⟩ := nodeStage_all h.wf ha.nattr
  unfold rebuildS andThen
  rw [hok]
  simp only [Outcome.isErr, Bool.false_eq_true, if_false]
  generalize (addNodesFrom HG.empty (nodeItems s) []).1 = t0 at hns ⊢
  have loop : (bulkS (addSimplicesItem .f4 [] none hh) (t0, []) (edgeItems s)).2 = .ok ∧
      CopyStage s (bulkS (addSimplicesItem .f4 [] none hh) (t0, []) (edgeItems s)).1 s.edges := by
    unfold edgeItems
    rw [bulkS_map]
    refine bulkS_prefix
      (fun st e => addSimplicesItem .f4 [] none hh st { members := s.mem e, idx := some e, attr := s.eattr e })
      (CopyStage s) s.edges ?_ s.edges [] (t0, []) (by simp)
      ⟨edgeStage_of_nodeStage hns, by intro f hf; cases hf⟩
    intro st done e rest hl hp
    have he : e ∈ s.edges := by rw [hl]; simp
    exact copyStage_step h ha hh hp e he (not_mem_of_nodup_split h.wf.nodupE hl) (fun f hf => by rw [hl]; simp [hf])
  rw [addSimplicesFrom_f4, loop.1, addFaces_noop h loop.2.stage _ loop.2.queue]
  exact ⟨rfl, loop.2.stage⟩

/-- closure, distinct node sets and non-emptiness only look at the simplex IDs and their members -/
theorem scinv_of_agree {s t : HG} (h : SCInv s) (hi : Inv t) (he : t.edges = s.edges)
    (hm : ∀ e ∈ s.edges, t.mem e = s.mem e) : SCInv t := by
  refine ⟨hi.1, hi.2, ?_, ?_, ?_⟩
  · intro e he' u hu hs h2
    rw [he] at he'; rw [hm e he'] at hs
    obtain ⟨f, hf, hsf⟩ := h.closed e he' u hu hs h2
    exact ⟨f, by rw [he]; exact hf, by rw [hm f hf]; exact hsf⟩
  · intro e he' f hf hs
    rw [he] at he' hf; rw [hm e he', hm f hf] at hs; exact h.nodup e he' f hf hs
  · intro e he'; rw [he] at he'; rw [hm e he']; exact h.noempty e he'

theorem scinv_with {t : HG} (h : SCInv t) (a : Attrs) (u : Nat) (hf : UidFresh { t with net := a, uid := u }) :
    SCInv { t with net := a, uid := u } :=
  ⟨wf_with h.wf a u, hf, h.closed, h.nodup, h.noempty⟩

/-! ### attribute dicts stay dicts under the simplicial alphabet -/

theorem attrs_uid_succ {s : HG} (h : AttrsOK s) : AttrsOK { s with uid := s.uid + 1 } := attrsOK_of_eq h rfl rfl rfl

theorem addTop_attrs {s : HG} (h : AttrsOK s) (i : PyId) (ms : List PyId) (a : Attrs) (hh : Hints) :
    AttrsOK (addTop s i ms a hh) := by
  unfold addTop; exact bumpUid_attrs (addEdgeAt_attrs h _ _ _) _

theorem addFace_attrs {s : HG} (h : AttrsOK s) (t : List PyId) (hh : Hints) : AttrsOK (addFace s t hh) := by
  unfold addFace; exact addEdgeAt_attrs (attrs_uid_succ h) _ _ _

theorem addFaces_attrs {s : HG} (h : AttrsOK s) (q : List (List PyId)) (hh : Hints) : AttrsOK (addFaces s q hh) := by
  unfold addFaces
  exact foldl_inv AttrsOK _ (fun t u ht => by
    unfold addFaceIfMissing; split
    · exact ht
    · exact addFace_attrs ht u hh) _ h

theorem addSimplex_attrs {s : HG} (h : AttrsOK s) (ms : List PyId) (idx : Option PyId) (a : Attrs) (hh : Hints) :
    AttrsOK (addSimplex s ms idx a hh).1 := by
  unfold addSimplex
  split
  · exact h
  · have auto' : AttrsOK (if ms.isEmpty = true then (s, Outcome.ok) else
        if PyId.none ∈ ms then (s, Outcome.err ErrKind.lib) else
        (addFaces (addTop { s with uid := s.uid + 1 } (PyId.int s.uid) ms a hh) (subfacesRaw (dedup ms)) hh, Outcome.ok)).1 := by
      split
      · exact h
      · split
        · exact h
        · exact addFaces_attrs (addTop_attrs (attrs_uid_succ h) _ _ _ _) _ _
    split
    · exact auto'
    · exact auto'
    · split
      · exact h
      · split
        · exact h
        · split
          · exact h
          · exact addFaces_attrs (addTop_attrs h _ _ _ _) _ _

theorem addSimplicesItem_attrs (fmt : Fmt) (attr : Attrs) (k : Option Nat) (hh : Hints)
    (st : HG × List (List PyId)) (it : EdgeItem) (h : AttrsOK st.1) :
    AttrsOK (addSimplicesItem fmt attr k hh st it).1.1 := by
  obtain ⟨s, q⟩ := st
  simp only [] at h
  unfold addSimplicesItem
  simp only []
  split
  · exact h
  · split
    · split
      · exact h
      · split
        · exact h
        · split
          · exact h
          · split
            · exact h
            · exact addTop_attrs h _ _ _ _
    · split
      · exact h
      · have h1 : AttrsOK (if fmt.explicit = true then s else { s with uid := s.uid + 1 }) := by
          split
          · exact h
          · exact attrs_uid_succ h
        generalize (if fmt.explicit = true then it.idx.getD PyId.none else PyId.int s.uid) = idx
        generalize (if fmt.explicit = true then s else { s with uid := s.uid + 1 }) = s1 at *
        split
        · exact h1
        · split
          · exact h1
          · split
            · exact h1
            · exact addTop_attrs h1 _ _ _ _

theorem addSimplicesFrom_attrs {s : HG} (h : AttrsOK s) (fmt : Fmt) (items : List EdgeItem) (k : Option Nat)
    (attr : Attrs) (hh : Hints) : AttrsOK (addSimplicesFrom s fmt items k attr hh).1 := by
  have key : AttrsOK (addFaces (bulkS (addSimplicesItem fmt attr k hh) (s, []) items).1.1
      (bulkS (addSimplicesItem fmt attr k hh) (s, []) items).1.2 hh) :=
    addFaces_attrs (bulkS_inv (fun st : HG × List (List PyId) => AttrsOK st.1) _
      (fun st it hst => addSimplicesItem_attrs fmt attr k hh st it hst) items (s := (s, [])) h) _ _
  unfold addSimplicesFrom
  simp only []
  split
  · split
    · exact key
    · split
      · exact h
      · exact key
  · exact key

theorem dropEdge_attrs {s : HG} (h : AttrsOK s) (e : PyId) : AttrsOK (dropEdge s e) := attrsOK_of_eq h rfl rfl rfl

theorem removeSimplexId_attrs {s : HG} (h : AttrsOK s) (e : PyId) : AttrsOK (removeSimplexId s e).1 := by
  unfold removeSimplexId; split
  · exact h
  · exact dropEdge_attrs (foldl_inv AttrsOK dropEdge (fun t a ht => dropEdge_attrs ht a) _ h) e

theorem removeSimplexIdsFrom_attrs {s : HG} (h : AttrsOK s) (es : List PyId) : AttrsOK (removeSimplexIdsFrom s es).1 := by
  unfold removeSimplexIdsFrom
  exact bulk_inv AttrsOK _ (fun t i ht => by
    split
    · exact ht
    · exact removeSimplexId_attrs ht i) es h

theorem removeNode_attrs' {s : HG} (h : AttrsOK s) (n : PyId) : AttrsOK (SC.removeNode s n).1 := by
  unfold SC.removeNode; split
  · exact h
  · exact attrsOK_of_eq h rfl rfl rfl

theorem removeNodesFrom_attrs' {s : HG} (h : AttrsOK s) (ns : List PyId) : AttrsOK (SC.removeNodesFrom s ns).1 := by
  unfold SC.removeNodesFrom
  exact bulk_inv AttrsOK _ (fun t n ht => by
    unfold SC.removeNodesItem; split
    · exact ht
    · exact removeNode_attrs' ht n) ns h

theorem close_attrs {s : HG} (h : AttrsOK s) (orders : List (List PyId)) (hh : Hints) : AttrsOK (close s orders hh).1 := by
  unfold close
  exact bulk_inv AttrsOK _ (fun t l ht => by
    unfold closeItem; split
    · exact ht
    · exact guardF_inv AttrsOK _ _ ht (addSimplicesFrom_attrs ht _ _ _ _ _)) _ h

theorem lccInPlace_attrs' {s : HG} (h : AttrsOK s) : AttrsOK (SC.lccInPlace s).1 := by
  unfold SC.lccInPlace
  exact guardF_inv AttrsOK _ _ h (removeNodesFrom_attrs' h _)

theorem relabel_attrs' {s : HG} (h : AttrsOK s) (l : String) (hh : Hints) : AttrsOK (SC.relabel s l hh).1 := by
  unfold SC.relabel
  simp only []
  split
  · exact h
  · exact setEdgeAttrs_attrs (addSimplicesFrom_attrs (setNodeAttrs_attrs (addNodesFrom_attrs (clear_attrs h false) _ _) _)
      _ _ _ _ _) _

theorem cleanup_attrs' {s : HG} (h : AttrsOK s) (a c r : Bool) (hh : Hints) : AttrsOK (SC.cleanup s a c r hh).1 := by
  unfold SC.cleanup
  apply andThen_inv AttrsOK
  · apply andThen_inv AttrsOK
    · split
      · exact h
      · exact guardF_inv AttrsOK _ _ h (removeNodesFrom_attrs' h _)
    · intro t ht; split
      · exact lccInPlace_attrs' ht
      · exact ht
  · intro t ht; split
    · exact relabel_attrs' ht _ _
    · exact ht

theorem stepCore_attrs' {s : HG} (h : AttrsOK s) (op : Op) : AttrsOK (SC.stepCore s op).1 := by
  cases op <;> simp only [SC.stepCore, deprecated]
  case addNode n a => exact addNode_attrs h n a
  case addNodesFrom items a => exact addNodesFrom_attrs h items a
  case removeNode n => exact removeNode_attrs' h n
  case removeNodesFrom ns => exact removeNodesFrom_attrs' h ns
  case addSimplex ms idx a hh => exact addSimplex_attrs h ms idx a hh
  case addSimplicesFrom fmt items k a hh => exact addSimplicesFrom_attrs h fmt items k a hh
  case addWeightedSimplicesFrom items k a hh => exact addSimplicesFrom_attrs h .f3 items k a hh
  case removeSimplexId e => exact removeSimplexId_attrs h e
  case removeSimplexIdsFrom es => exact removeSimplexIdsFrom_attrs h es
  case close orders hh => exact close_attrs h orders hh
  case cleanup a c r hh => exact cleanup_attrs' h a c r hh
  case addEdge ms idx a hh => exact guardF_inv AttrsOK _ _ h (addSimplex_attrs h ms idx a hh)
  case addEdgesFrom fmt items k a hh => exact guardF_inv AttrsOK _ _ h (addSimplicesFrom_attrs h fmt items k a hh)
  case addWeightedEdgesFrom items k a hh => exact guardF_inv AttrsOK _ _ h (addSimplicesFrom_attrs h .f3 items k a hh)
  case removeEdge e => exact guardF_inv AttrsOK _ _ h (removeSimplexId_attrs h e)
  case removeEdgesFrom es => exact guardF_inv AttrsOK _ _ h (removeSimplexIdsFrom_attrs h es)
  case clear b => exact clear_attrs h b
  case clearEdges => exact clearEdges_attrs h
  case freeze => exact attrsOK_of_eq h rfl rfl rfl

theorem step_attrs' {s : HG} (h : AttrsOK s) (op : Op) : AttrsOK (SC.step s op).1 := by
  unfold SC.step
  split
  · exact h
  · exact stepCore_attrs' h op

end SC
end Xgi
